(* C18/ProofsHC.v -- half-complex transforms: np.fft.irfft(np.fft.rfft(x), n) = x for real x of
   every length (both parities), and its N-d lift (rfftn / irfftn); real-valued round trips. *)
From Coq Require Import ZArith Reals Lra Lia List Bool Arith.
From Verif Require Import Base.Num Lib.Axis Gen.FtFormulas C18.Model C18.ProofsGrid C18.ProofsDFT C18.ProofsCx C18.ProofsAxis C18.ProofsFT.
Import ListNotations.
Local Open Scope R_scope.

Definition is_real (a : Cx) : Prop := snd a = 0.
Lemma cre_real (a : Cx) : is_real a -> cre a = a.
Proof. destruct a as [r i]. unfold is_real, cre. cbn [fst snd]. intros ->. reflexivity. Qed.
Lemma map_cre_real (x : list Cx) : Forall is_real x -> map cre x = x.
Proof. induction 1 as [|a x Ha Hx IH]; cbn [map]; [reflexivity|]. rewrite cre_real, IH by assumption. reflexivity. Qed.
Lemma cre_is_real (a : Cx) : is_real (cre a).
Proof. reflexivity. Qed.

Lemma cconj_add (a b : Cx) : cconj (cadd a b) = cadd (cconj a) (cconj b).
Proof. destruct a, b. cx_simpl. apply cx_eq; cbn [fst snd]; lra. Qed.
Lemma cconj_mul (a b : Cx) : cconj (cmul a b) = cmul (cconj a) (cconj b).
Proof. destruct a, b. cx_simpl. apply cx_eq; cbn [fst snd]; lra. Qed.
Lemma cconj_real (a : Cx) : is_real a -> cconj a = a.
Proof. destruct a as [r i]. unfold is_real, cconj. cbn [fst snd]. intros ->. f_equal. numR. lra. Qed.
Lemma cconj_c0 : cconj (@c0 R _) = c0.
Proof. cx_simpl. apply cx_eq; cbn [fst snd]; lra. Qed.

Lemma cconj_sum (f : nat -> Cx) n : cconj (rsum c0 cadd f n) = rsum c0 cadd (fun i => cconj (f i)) n.
Proof. induction n as [|n IH]; cbn [rsum]; [apply cconj_c0 | rewrite cconj_add, IH; reflexivity]. Qed.

Section HC.
Variable cispi : R -> Cx.
Hypothesis cis_add : forall a b, cispi (a + b) = cmul (cispi a) (cispi b).
Hypothesis cis_0 : cispi 0 = c1.
Hypothesis cis_2 : cispi 2 = c1.
Hypothesis cis_prim : forall r, 0 < r < 2 -> cispi r <> c1.
Hypothesis cis_conj : forall a, cconj (cispi a) = cispi (- a).

Notation cpw := (pw Cx c1 cmul).
Notation root := (root cispi).

Lemma cconj_c1 : cconj (@c1 R _) = c1.
Proof. cx_simpl. apply cx_eq; cbn [fst snd]; lra. Qed.
Lemma cconj_pw (w : Cx) k : cconj (cpw w k) = cpw (cconj w) k.
Proof. induction k as [|k IH]; cbn [pw]; [apply cconj_c1 | rewrite cconj_mul, IH; reflexivity]. Qed.
Lemma cconj_root sg n : cconj (root sg n) = root (- sg) n.
Proof. unfold ProofsCx.root. rewrite cis_conj. f_equal. unfold Rdiv. lra. Qed.

(* spectrum of a real line in terms of the root: X_k = sum_j x_j w^(jk) *)
Lemma dft1_nth sg (x : list Cx) k : is_sign sg -> (k < length x)%nat ->
  nth k (dft1 cispi sg x) c0 = rsum c0 cadd (fun j => cmul (nth j x c0) (cpw (root sg (length x)) (j * k))) (length x).
Proof.
  intros Hs Hk. unfold dft1.
  rewrite (dft_gen_nth Cx c0 cadd cmul) by exact Hk.
  apply (sum_ext Cx c0 cadd). intros j _. rewrite (tw_tab_root cispi cis_add cis_0 cis_2) by (try assumption; lia).
  reflexivity.
Qed.

Lemma nth_real (x : list Cx) j : Forall is_real x -> is_real (nth j x c0).
Proof.
  intros Hx. destruct (Nat.lt_ge_cases j (length x)) as [Hj|Hj].
  - rewrite Forall_forall in Hx. apply Hx. apply nth_In. exact Hj.
  - rewrite nth_overflow by exact Hj. reflexivity.
Qed.

(* Hermitian symmetry of the spectrum of a real line *)
Lemma dft1_hermitian (x : list Cx) k : Forall is_real x -> (0 < k < length x)%nat ->
  nth k (dft1 cispi (-1) x) c0 = cconj (nth (length x - k) (dft1 cispi (-1) x) c0).
Proof.
  intros Hx Hk. set (n := length x) in *.
  assert (Hs : is_sign (-1)) by (right; reflexivity).
  rewrite !dft1_nth by (try assumption; fold n; lia). fold n.
  rewrite cconj_sum. apply (sum_ext Cx c0 cadd). intros j Hj.
  rewrite cconj_mul, (cconj_real (nth j x c0)) by (apply nth_real; exact Hx).
  f_equal. rewrite cconj_pw, cconj_root.
  (* w^(jk) = wi^(j(n-k)) since (w wi) = 1 and wi^n = 1 *)
  set (w := root (-1) n). set (wi := root (- -1) n).
  assert (Hwwi : cmul w wi = c1) by apply (root_inv cispi cis_add cis_0).
  assert (Hwin : cpw wi n = c1).
  { unfold wi. apply (root_n cispi cis_add cis_0 cis_2); [left; lra | lia]. }
  assert (E : cmul (cpw w (j * k)) (cpw wi (j * k)) = c1).
  { rewrite <- (pw_mul_distr Cx c0 c1 cadd cmul csub copp cx_ring), Hwwi.
    apply (pw_one Cx c0 c1 cadd cmul csub copp cx_ring). }
  assert (E2 : cpw wi (j * (n - k)) = cmul (cpw w (j * k)) (cmul (cpw wi (j * k)) (cpw wi (j * (n - k))))).
  { rewrite <- cmul_assoc, E, cmul_1_l. reflexivity. }
  rewrite E2. rewrite <- (pw_add Cx c0 c1 cadd cmul csub copp cx_ring).
  replace (j * k + j * (n - k))%nat with (n * j)%nat by nia.
  rewrite (pw_pw Cx c0 c1 cadd cmul csub copp cx_ring wi n j), Hwin.
  rewrite (pw_one Cx c0 c1 cadd cmul csub copp cx_ring). symmetry; apply cmul_1_r.
Qed.

Lemma herm_ext_rfft (x : list Cx) : Forall is_real x ->
  herm_ext (length x) (firstn (length x / 2 + 1) (dft1 cispi (-1) x)) = dft1 cispi (-1) x.
Proof.
  intros Hx. set (n := length x). set (X := dft1 cispi (-1) x).
  assert (HX : length X = n) by apply (dft1_length cispi).
  apply (nth_ext _ _ c0 c0).
  - unfold herm_ext. rewrite map_length, seq_length. symmetry; exact HX.
  - intros k Hk. unfold herm_ext in *. rewrite map_length, seq_length in Hk.
    rewrite (nth_indep _ c0 ((fun k0 => if (k0 <=? n / 2)%nat then nth k0 (firstn (n / 2 + 1) X) c0
                                        else cconj (nth (n - k0) (firstn (n / 2 + 1) X) c0)) 0%nat))
      by (rewrite map_length, seq_length; exact Hk).
    rewrite (map_nth (fun k0 => if (k0 <=? n / 2)%nat then nth k0 (firstn (n / 2 + 1) X) c0
                                else cconj (nth (n - k0) (firstn (n / 2 + 1) X) c0))).
    rewrite seq_nth by exact Hk. cbn [Nat.add].
    assert (Hfn : forall i, (i < n / 2 + 1)%nat -> nth i (firstn (n / 2 + 1) X) c0 = nth i X c0).
    { intros i Hi. rewrite <- (firstn_skipn (n / 2 + 1) X) at 2.
      rewrite app_nth1; [reflexivity|]. rewrite firstn_length, HX.
      pose proof (Nat.div_mod_eq n 2). pose proof (Nat.mod_upper_bound n 2 ltac:(lia)). lia. }
    pose proof (Nat.div_mod_eq n 2) as Hd. pose proof (Nat.mod_upper_bound n 2 ltac:(lia)) as Hm.
    destruct (Nat.leb_spec k (n / 2)) as [Hle|Hgt].
    + apply Hfn. lia.
    + rewrite Hfn by lia. symmetry. apply dft1_hermitian; [exact Hx | fold n; lia].
Qed.

Lemma idft1n_eq' sg n (x : list Cx) : length x = n -> idft1n cispi sg n x = idft1 cispi sg x.
Proof. intros <-. reflexivity. Qed.

(* irfft(rfft(x), n) = x for every real line, even or odd length *)
Theorem irfft1_rfft1 (x : list Cx) : Forall is_real x ->
  irfft1 cispi (length x) (rfft1 cispi x) = x.
Proof.
  intros Hx. unfold irfft1, rfft1. cbv zeta.
  rewrite (map_cre_real x Hx). rewrite herm_ext_rfft by exact Hx.
  rewrite idft1n_eq' by apply (dft1_length cispi).
  replace 1 with (- -1) at 1 by lra. change none_ with 1.
  replace (@none_ R Num_R) with (- -1) by (numR; lra).
  rewrite (idft1_dft1 cispi cis_add cis_0 cis_2 cis_prim) by (right; reflexivity).
  apply map_cre_real. exact Hx.
Qed.
End HC.

(* ------------------------------------------------------------------ *)
(* along an axis with an element predicate carried to the lines *)
Section AlongP.
Context {A : Type}.
Variable P : A -> Prop.

Lemma Forall_firstn_skipn k (l : list A) : Forall P l -> Forall P (firstn k l) /\ Forall P (skipn k l).
Proof. intros H. rewrite <- (firstn_skipn k l) in H. apply Forall_app in H. exact H. Qed.

Lemma chunks_Forall k n (l : list A) : Forall P l -> Forall (Forall P) (chunks k n l).
Proof.
  revert l; induction n as [|n IH]; intros l Hl; cbn [chunks]; constructor.
  - apply (Forall_firstn_skipn k l Hl).
  - apply IH. apply (Forall_firstn_skipn k l Hl).
Qed.

Lemma zipcons_Forall (row : list A) (N : list (list A)) :
  Forall P row -> Forall (Forall P) N -> Forall (Forall P) (zipcons row N).
Proof.
  revert N; induction row as [|a row IH]; intros N Hr HN; destruct N as [|c N]; cbn [zipcons]; try constructor.
  - constructor; [inversion Hr; assumption | inversion HN; assumption].
  - apply IH; [inversion Hr; assumption | inversion HN; assumption].
Qed.

Lemma transp_Forall c (M : list (list A)) : Forall (Forall P) M -> Forall (Forall P) (transp c M).
Proof.
  induction 1 as [|row M Hrow HM IH]; cbn [transp].
  - apply Forall_forall. intros x Hx. apply repeat_spec in Hx. subst. constructor.
  - apply zipcons_Forall; assumption.
Qed.

Lemma along_block_inv_P (n inner n' : nat) (F G : list A -> list A) (blk : list A) :
  (forall l, length l = n -> length (F l) = n') ->
  (forall l, length l = n -> Forall P l -> G (F l) = l) ->
  length blk = (inner * n)%nat -> Forall P blk ->
  along_block n' inner n G (along_block n inner n' F blk) = blk.
Proof.
  intros HFl HGF Hb HP. unfold along_block.
  set (M := chunks inner n blk).
  assert (HM : rect n inner M) by (apply chunks_rect; exact Hb).
  set (L := transp inner M).
  assert (HL : rect inner n L) by (apply transp_rect; exact HM).
  assert (HLP : Forall (Forall P) L) by (apply transp_Forall, chunks_Forall; exact HP).
  assert (HL' : rect inner n' (map F L)) by (apply (map_rect n n'); assumption).
  rewrite chunks_concat by (apply transp_rect; exact HL').
  rewrite transp_transp by exact HL'.
  rewrite map_map.
  rewrite (map_ext_in (fun x => G (F x)) (fun x => x)).
  2:{ intros l Hl. apply HGF.
      - destruct HL as [_ Hf]. rewrite Forall_forall in Hf. auto.
      - rewrite Forall_forall in HLP. auto. }
  rewrite map_id. unfold L. rewrite transp_transp by exact HM.
  apply concat_chunks. exact Hb.
Qed.

Theorem along_inv_P (outer n inner n' : nat) (F G : list A -> list A) (x : list A) :
  (forall l, length l = n -> length (F l) = n') ->
  (forall l, length l = n -> Forall P l -> G (F l) = l) ->
  length x = (n * inner * outer)%nat -> Forall P x ->
  along outer n' inner n G (along outer n inner n' F x) = x.
Proof.
  intros HFl HGF Hx HP. unfold along.
  set (B := chunks (n * inner) outer x).
  assert (HB : rect outer (n * inner) B) by (apply chunks_rect; exact Hx).
  assert (HBP : Forall (Forall P) B) by (apply chunks_Forall; exact HP).
  assert (HB' : rect outer (n' * inner) (map (along_block n inner n' F) B)).
  { destruct HB as [Hl Hf]. split; [rewrite map_length; exact Hl|].
    apply Forall_forall. intros y Hy. apply in_map_iff in Hy as [b [<- Hin]].
    apply along_block_length; [exact HFl|]. rewrite Forall_forall in Hf. rewrite (Hf b Hin). lia. }
  rewrite chunks_concat by exact HB'.
  rewrite map_map.
  rewrite (map_ext_in _ (fun b => b)).
  2:{ intros b Hb. apply along_block_inv_P; try assumption.
      - destruct HB as [_ Hf]. rewrite Forall_forall in Hf. rewrite (Hf b Hb). lia.
      - rewrite Forall_forall in HBP. auto. }
  rewrite map_id. apply concat_chunks. exact Hx.
Qed.
End AlongP.

(* ------------------------------------------------------------------ *)
Lemma set_nth_length (shape : list nat) l v : (l < length shape)%nat -> length (set_nth shape l v) = length shape.
Proof.
  intros Hl. unfold set_nth. rewrite app_length, firstn_length. cbn [length]. rewrite skipn_length. lia.
Qed.
Lemma nth_set_nth (shape : list nat) l v d : (l < length shape)%nat -> nth l (set_nth shape l v) d = v.
Proof.
  intros Hl. unfold set_nth. rewrite app_nth2; rewrite firstn_length; [|lia].
  replace (l - Nat.min l (length shape))%nat with 0%nat by lia. reflexivity.
Qed.
Lemma firstn_set_nth (shape : list nat) l v : (l < length shape)%nat -> firstn l (set_nth shape l v) = firstn l shape.
Proof.
  intros Hl. unfold set_nth. rewrite firstn_app, firstn_length.
  replace (l - Nat.min l (length shape))%nat with 0%nat by lia. rewrite firstn_O, app_nil_r.
  rewrite firstn_firstn. f_equal. lia.
Qed.
Lemma skipn_set_nth (shape : list nat) l v : (l < length shape)%nat ->
  skipn (S l) (set_nth shape l v) = skipn (S l) shape.
Proof.
  intros Hl. unfold set_nth. rewrite skipn_app, firstn_length.
  replace (S l - Nat.min l (length shape))%nat with 1%nat by lia.
  rewrite skipn_all2 by (rewrite firstn_length; lia). reflexivity.
Qed.
Lemma inner_of_set_nth (shape : list nat) l v : (l < length shape)%nat ->
  inner_of (set_nth shape l v) l = inner_of shape l.
Proof. intros Hl. unfold inner_of. rewrite skipn_set_nth by exact Hl. reflexivity. Qed.
Lemma prodn_set_nth (shape : list nat) l v : (l < length shape)%nat ->
  prodn (set_nth shape l v) = (v * inner_of shape l * prodn (firstn l shape))%nat.
Proof.
  intros Hl. rewrite (prodn_split (set_nth shape l v) l) by (rewrite set_nth_length; assumption).
  rewrite nth_set_nth, inner_of_set_nth, firstn_set_nth by exact Hl. reflexivity.
Qed.

Lemma in_removelast {A} (l : list A) a : In a (removelast l) -> In a l.
Proof.
  induction l as [|b l IH]; cbn [removelast]; [tauto|].
  destruct l as [|c l]; [cbn; tauto|]. intros [E|H]; [left; exact E | right; apply IH; exact H].
Qed.

Section HCn.
Variable cispi : R -> Cx.
Hypothesis cis_add : forall a b, cispi (a + b) = cmul (cispi a) (cispi b).
Hypothesis cis_0 : cispi 0 = c1.
Hypothesis cis_2 : cispi 2 = c1.
Hypothesis cis_prim : forall r, 0 < r < 2 -> cispi r <> c1.
Hypothesis cis_conj : forall a, cconj (cispi a) = cispi (- a).

Lemma rfft1n_eq n (l : list Cx) : length l = n -> rfft1n cispi n l = rfft1 cispi l.
Proof. intros <-. unfold rfft1n, rfft1, dft1n, dft1. cbv zeta. rewrite map_length. reflexivity. Qed.

Lemma rfft1n_length n (l : list Cx) : (1 <= n)%nat -> length l = n -> length (rfft1n cispi n l) = (n / 2 + 1)%nat.
Proof.
  intros Hn Hl. unfold rfft1n. cbv zeta. rewrite firstn_length, (dft1n_length cispi), map_length, Hl.
  pose proof (Nat.div_mod_eq n 2). pose proof (Nat.mod_upper_bound n 2 ltac:(lia)). lia.
Qed.

Theorem irfftn_rfftn (shape axes : list nat) (x : list Cx) :
  axes <> [] -> (forall ax, In ax axes -> (ax < length shape)%nat) ->
  (1 <= nth (last_axis axes) shape 0%nat)%nat ->
  length x = prodn shape -> Forall is_real x ->
  irfftn cispi shape axes (rfftn cispi shape axes x) = x.
Proof.
  intros Hne Hax Hn Hx Hreal. unfold irfftn, rfftn. cbv zeta.
  set (l := last_axis axes) in *. set (n := nth l shape 0%nat) in *.
  assert (Hl : (l < length shape)%nat) by (apply Hax, last_in; exact Hne).
  set (hcs := hc_shape shape axes).
  assert (Hhcs : hcs = set_nth shape l (n / 2 + 1)) by reflexivity.
  set (Z := along_ax shape l (n / 2 + 1) (rfft1n cispi n) x).
  assert (HZ : length Z = prodn hcs).
  { unfold Z, along_ax. fold n.
    rewrite (along_length _ n _ (n / 2 + 1)).
    - rewrite Hhcs, prodn_set_nth by exact Hl. reflexivity.
    - intros ln Hln. apply rfft1n_length; assumption.
    - rewrite Hx. apply prodn_split. exact Hl. }
  assert (Hrl : forall ax, In ax (removelast axes) -> (ax < length hcs)%nat).
  { intros ax Hin. rewrite Hhcs, set_nth_length by exact Hl. apply Hax, in_removelast, Hin. }
  replace (idftn cispi none_ hcs (removelast axes)) with (idftn cispi (- (- none_)%num) hcs (removelast axes))
    by (f_equal; numR; lra).
  rewrite (idftn_dftn cispi cis_add cis_0 cis_2 cis_prim) by (try assumption; right; numR; lra).
  unfold Z, along_ax. fold n.
  rewrite Hhcs, nth_set_nth, inner_of_set_nth, firstn_set_nth by exact Hl.
  apply (along_inv_P is_real); try assumption.
  - intros ln Hln. apply rfft1n_length; assumption.
  - intros ln Hln Hr. rewrite rfft1n_eq by exact Hln. rewrite <- Hln.
    apply (irfft1_rfft1 cispi cis_add cis_0 cis_2 cis_prim cis_conj). exact Hr.
  - rewrite Hx. apply prodn_split. exact Hl.
Qed.
End HCn.

(* ------------------------------------------------------------------ *)
(* the continuous transform on real spaces *)
Lemma nth_set_nth_other (shape : list nat) l v ax d : (l < length shape)%nat -> ax <> l ->
  nth ax (set_nth shape l v) d = nth ax shape d.
Proof.
  intros Hl Hne. unfold set_nth.
  destruct (Nat.lt_ge_cases ax l) as [Hlt|Hge].
  - rewrite app_nth1 by (rewrite firstn_length; lia).
    rewrite <- (firstn_skipn l shape) at 2. rewrite app_nth1 by (rewrite firstn_length; lia). reflexivity.
  - rewrite app_nth2 by (rewrite firstn_length; lia). rewrite firstn_length.
    replace (Nat.min l (length shape)) with l by lia.
    destruct (ax - l)%nat as [|m] eqn:E; [lia|]. cbn [nth].
    rewrite <- (firstn_skipn (S l) shape) at 2.
    rewrite app_nth2 by (rewrite firstn_length; lia). rewrite firstn_length.
    replace (Nat.min (S l) (length shape)) with (S l) by lia. f_equal. lia.
Qed.

Lemma cmul_real (a b : Cx) : is_real a -> is_real b -> is_real (cmul a b).
Proof. destruct a, b. unfold is_real. cx_simpl. intros -> ->. lra. Qed.

Section FTreal.
Variable cispi : R -> Cx.
Hypothesis cis_add : forall a b, cispi (a + b) = cmul (cispi a) (cispi b).
Hypothesis cis_0 : cispi 0 = c1.
Hypothesis cis_2 : cispi 2 = c1.
Hypothesis cis_prim : forall r, 0 < r < 2 -> cispi r <> c1.
Hypothesis cis_conj : forall a, cconj (cispi a) = cispi (- a).
Variables (pi sq2pi : R).

Lemma tabulate_real n (f : nat -> Cx) k : (forall j, is_real (f j)) -> is_real (tabulate n f k).
Proof.
  intros Hf. unfold tabulate. destruct (Nat.lt_ge_cases k n) as [Hk|Hk].
  - rewrite (nth_indep _ c0 (f 0%nat)) by (rewrite map_length, seq_length; exact Hk).
    rewrite (map_nth f). apply Hf.
  - rewrite nth_overflow by (rewrite map_length, seq_length; exact Hk). reflexivity.
Qed.

Lemma pre_fac_shifted_real n sg j : is_real (pre_fac cispi n true sg j).
Proof. unfold pre_fac. destruct (Nat.even j); unfold is_real, of_re; cbn [snd]; reflexivity. Qed.

Lemma pre_facs_real (g : list Raxis) axes shifts sg shape i :
  all_true shifts = true -> is_real (tensor_fac shape (pre_facs cispi g axes shifts sg) i).
Proof.
  revert shifts; induction axes as [|ax axes IH]; intros [|sh shifts] Hs; cbn [pre_facs tensor_fac]; try reflexivity.
  unfold all_true in Hs. cbn [forallb] in Hs. apply andb_true_iff in Hs as [-> Hs].
  apply cmul_real; [apply tabulate_real; intros; apply pre_fac_shifted_real | apply IH; exact Hs].
Qed.

Lemma tensor_mult_real shape facs (x : list Cx) :
  (forall i, is_real (tensor_fac shape facs i)) -> Forall is_real x -> Forall is_real (tensor_mult shape facs x).
Proof.
  intros Hf Hx. apply Forall_forall. intros y Hy.
  destruct (In_nth _ _ c0 Hy) as [i [Hi <-]]. rewrite tensor_mult_length in Hi.
  rewrite tensor_mult_nth by exact Hi. apply cmul_real; [|apply Hf].
  rewrite Forall_forall in Hx. apply Hx, nth_In, Hi.
Qed.

(* post-factors of the forward (multiply) and backward (divide, opposite sign) transform cancel:
   general half-complex flag; [rsh] is the shape of the frequency-side array *)
Lemma post_facs_inv_gen rsh (g : list Raxis) axes shifts lastax hc sg :
  (forall ax, In ax axes ->
     (if hc && (ax =? lastax)%nat then (a_n (nth ax g dax) / 2 + 1)%nat else a_n (nth ax g dax)) = nth ax rsh 1%nat) ->
  (forall ax sh k, In ax axes -> (k < nth ax rsh 1%nat)%nat ->
     let a := nth ax g dax in
     kernel pi sq2pi cispi (stride a)
            (freq (a_n a) (a_n (recip_axis 1 a (Some sh) (hc && (ax =? lastax)%nat))) sh k) <> 0) ->
  facs_inv rsh (post_facs pi sq2pi cispi g axes shifts lastax hc sg false)
               (post_facs pi sq2pi cispi g axes shifts lastax hc (- sg) true).
Proof.
  revert shifts; induction axes as [|ax axes IH]; intros [|sh shifts] Hn Hker; cbn [post_facs]; try constructor.
  - cbv zeta. intros k Hk. pose proof (Hn ax (or_introl eq_refl)) as Hnn.
    change (mk_axis (@nzero R _) nzero 0) with dax.
    rewrite !tabulate_nth by (rewrite Hnn; exact Hk).
    apply (post_fac_cancel cispi cis_add cis_0).
    apply (Hker ax sh k (or_introl eq_refl)). exact Hk.
  - apply IH; [intros; apply Hn; right; assumption | intros; apply Hker; [right|]; assumption].
Qed.

Theorem ft_roundtrip_real (g : list Raxis) (axes : list nat) (shifts : list bool) (hc : bool) (sg : R) (x : list Cx) :
  is_sign sg -> (hc = true -> sg = -1) ->
  let shape := map a_n g in
  let rsh := if hc then hc_shape shape axes else shape in
  axes <> [] -> length shifts = length axes ->
  (hc = true -> all_true shifts = true) ->
  (forall ax, In ax axes -> (ax < length g)%nat /\ (1 <= a_n (nth ax g dax))%nat) ->
  (forall ax sh k, In ax axes -> (k < nth ax rsh 1%nat)%nat ->
     let a := nth ax g dax in
     kernel pi sq2pi cispi (stride a)
            (freq (a_n a) (a_n (recip_axis 1 a (Some sh) (hc && (ax =? last_axis axes)%nat))) sh k) <> 0) ->
  length x = prodn shape -> Forall is_real x ->
  ft_inverse pi sq2pi cispi (mk_ft g axes shifts (- sg) hc) true
             (ft_forward pi sq2pi cispi (mk_ft g axes shifts sg hc) x) = x.
Proof.
  intros Hs Hsg shape rsh Hne Hls Hall Hax Hker Hx Hreal.
  assert (Hnth : forall ax, In ax axes -> a_n (nth ax g dax) = nth ax shape 1%nat).
  { intros ax Hin. unfold shape. destruct (Hax ax Hin) as [Hl _].
    rewrite (nth_indep _ 1%nat (a_n dax)) by (rewrite map_length; exact Hl).
    rewrite (map_nth a_n). reflexivity. }
  assert (Hnth0 : forall ax, In ax axes -> a_n (nth ax g dax) = nth ax shape 0%nat).
  { intros ax Hin. unfold shape. destruct (Hax ax Hin) as [Hl _].
    rewrite (nth_indep _ 0%nat (a_n dax)) by (rewrite map_length; exact Hl).
    rewrite (map_nth a_n). reflexivity. }
  assert (Hpos : forall ax, In ax axes -> (1 <= nth ax shape 1%nat)%nat).
  { intros ax Hin. rewrite <- Hnth by exact Hin. apply Hax. exact Hin. }
  assert (Hlt : forall ax, In ax axes -> (ax < length shape)%nat).
  { intros ax Hin. unfold shape. rewrite map_length. apply Hax. exact Hin. }
  assert (Hlast : In (last_axis axes) axes) by (apply last_in; exact Hne).
  assert (Hrsh : forall ax, In ax axes ->
     (if hc && (ax =? last_axis axes)%nat then (a_n (nth ax g dax) / 2 + 1)%nat else a_n (nth ax g dax))
     = nth ax rsh 1%nat).
  { intros ax Hin. unfold rsh. destruct hc; cbn [andb]; [|apply Hnth; exact Hin].
    unfold hc_shape. destruct (Nat.eqb_spec ax (last_axis axes)) as [->|Hne'].
    - rewrite nth_set_nth by (apply Hlt; exact Hlast). rewrite Hnth0 by exact Hlast. reflexivity.
    - rewrite nth_set_nth_other by (try assumption; apply Hlt; exact Hlast). apply Hnth; exact Hin. }
  assert (Hrpos : forall ax, In ax axes -> (1 <= nth ax rsh 1%nat)%nat).
  { intros ax Hin. rewrite <- Hrsh by exact Hin. specialize (Hpos ax Hin). rewrite <- Hnth in Hpos by exact Hin.
    destruct (hc && (ax =? last_axis axes)%nat); lia. }
  unfold ft_inverse, ft_forward, f_rshape, f_shape.
  cbn [f_grid f_axes f_shifts f_sg f_hc]. fold shape. fold rsh.
  (* 1. post (x) divide-pre cancel *)
  rewrite (tensor_mult_cancel rsh).
  2:{ intros i _. apply (tensor_fac_inv rsh).
      - apply post_facs_inv_gen; assumption.
      - intros ax Hin. apply Hrpos. eapply post_facs_axes. exact Hin. }
  (* 2. inverse DFT o DFT on the (real) pre-processed array *)
  set (pre := tensor_mult shape (pre_facs cispi g axes shifts sg) x).
  assert (Hpre_len : length pre = prodn shape) by (unfold pre; rewrite tensor_mult_length; exact Hx).
  assert (Hmid : ftc_inverse cispi (- sg) hc shape axes (ftc_forward cispi sg hc shape axes pre) = pre).
  { rewrite (ftc_forward_unfold cispi) by exact Hs.
    rewrite (ftc_inverse_unfold cispi) by (apply is_sign_opp; exact Hs). destruct hc.
    - apply (irfftn_rfftn cispi cis_add cis_0 cis_2 cis_prim cis_conj); try assumption.
      + rewrite <- Hnth0 by exact Hlast. apply Hax. exact Hlast.
      + unfold pre. apply tensor_mult_real; [|exact Hreal].
        intros i. apply pre_facs_real. apply Hall. reflexivity.
    - apply (idftn_dftn cispi cis_add cis_0 cis_2 cis_prim); assumption. }
  rewrite Hmid.
  (* 3. pre (x) post-of-inverse cancel, then the real part of a real array *)
  unfold pre. rewrite (tensor_mult_cancel shape).
  - apply map_cre_real. exact Hreal.
  - intros i _. apply (tensor_fac_inv shape).
    + apply (pre_facs_inv cispi cis_add cis_0). intros ax Hin. apply Hnth. exact Hin.
    + intros ax Hin. apply Hpos. eapply pre_facs_axes. exact Hin.
Qed.
End FTreal.
