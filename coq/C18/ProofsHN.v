(* C18/ProofsHN.v -- N-d Haar/periodization over any list of axes: orthogonality lifts from lines to
   arrays through Lib/Axis.along; the adjoint identity in the inner product weighted by the FULL
   cell volume, and uniqueness of that scale. *)
From Coq Require Import Reals Lra Lia List Arith Bool.
From Verif Require Import Base.Num Base.Vec Base.VecR Lib.Axis C18.Model C18.ModelH
  C18.ProofsAxis C18.ProofsFT C18.ProofsHC C18.ProofsSum C18.ProofsH.
Import ListNotations.
Local Open Scope R_scope.

Notation Rmat := (list (list R)).
Notation rectR := (@rect R).

(* sum of the row-wise dot products *)
Fixpoint mdot (M M' : Rmat) : R :=
  match M, M' with
  | r :: M1, r' :: M1' => dot r r' + mdot M1 M1'
  | _, _ => 0
  end.

Lemma dot_nil : dot (@nil R) (@nil R) = 0.
Proof. reflexivity. Qed.

Lemma dot_concat r c (M M' : Rmat) : rectR r c M -> rectR r c M' -> dot (concat M) (concat M') = mdot M M'.
Proof.
  revert r M'; induction M as [|row M IH]; intros r [|row' M'] [Hl Hf] [Hl' Hf']; cbn [length] in *; subst r;
    try discriminate; cbn [concat mdot]; [reflexivity|].
  inversion Hf; inversion Hf'; subst. rewrite dot_app by congruence.
  rewrite (IH (length M) M') by (split; first [reflexivity | assumption | lia | congruence]). reflexivity.
Qed.

Lemma mdot_repeat_nil c : mdot (repeat [] c) (repeat [] c) = 0.
Proof. induction c as [|c IH]; cbn [repeat mdot]; [reflexivity|]. rewrite IH, dot_nil. lra. Qed.

Lemma mdot_zipcons (row row' : list R) (N N' : Rmat) c k :
  length row = c -> length row' = c -> rectR c k N -> rectR c k N' ->
  mdot (zipcons row N) (zipcons row' N') = dot row row' + mdot N N'.
Proof.
  revert row' N N' c; induction row as [|a row IH]; intros [|a' row'] N N' c Hr Hr' [Hl Hf] [Hl' Hf'];
    cbn [length] in *; subst c; try discriminate.
  - destruct N, N'; cbn [length] in *; try lia. cbn [zipcons mdot]. rewrite dot_nil. lra.
  - destruct N as [|col N], N' as [|col' N']; cbn [length] in *; try lia.
    inversion Hf; inversion Hf'; subst. cbn [zipcons mdot].
    rewrite (IH row' N N' (length row)) by (try split; try assumption; lia).
    rewrite !dot_cons. lra.
Qed.

Lemma mdot_transp r c (M M' : Rmat) : rectR r c M -> rectR r c M' ->
  mdot (transp c M) (transp c M') = mdot M M'.
Proof.
  revert r M'; induction M as [|row M IH]; intros r [|row' M'] [Hl Hf] [Hl' Hf']; cbn [length] in *; subst r;
    try discriminate; cbn [transp].
  - apply mdot_repeat_nil.
  - inversion Hf; inversion Hf'; subst.
    rewrite (mdot_zipcons row row' _ _ (length row) (length M)); try reflexivity; try congruence.
    + cbn [mdot]. rewrite (IH (length M) M') by (split; first [reflexivity | assumption | lia | congruence]). reflexivity.
    + apply transp_rect. split; [reflexivity | assumption].
    + apply transp_rect. split; [lia | assumption].
Qed.

Section Pair.
Variables (S D : list R -> list R) (n : nat).
Hypothesis pair_parseval : forall l l', length l = n -> length l' = n ->
  dot (S l) (S l') + dot (D l) (D l') = dot l l'.

Lemma mdot_map2 r (L L' : Rmat) : rectR r n L -> rectR r n L' ->
  mdot (map S L) (map S L') + mdot (map D L) (map D L') = mdot L L'.
Proof.
  revert r L'; induction L as [|l L IH]; intros r [|l' L'] [Hl Hf] [Hl' Hf']; cbn [length] in *; subst r;
    try discriminate; cbn [map mdot]; [lra|].
  inversion Hf as [|? ? Hl1 Hf1]; inversion Hf' as [|? ? Hl2 Hf2].
  assert (E : mdot (map S L) (map S L') + mdot (map D L) (map D L') = mdot L L').
  { apply (IH (length L) L'); split; first [reflexivity | assumption | lia]. }
  pose proof (pair_parseval l l' Hl1 Hl2). lra.
Qed.
End Pair.

(* one block, then the whole array *)
Lemma along_block_parseval (S D : list R -> list R) (n inner p q : nat) (blk blk' : list R) :
  (forall l, length l = n -> length (S l) = p) -> (forall l, length l = n -> length (D l) = q) ->
  (forall l l', length l = n -> length l' = n -> dot (S l) (S l') + dot (D l) (D l') = dot l l') ->
  length blk = (inner * n)%nat -> length blk' = (inner * n)%nat ->
  dot (along_block n inner p S blk) (along_block n inner p S blk')
  + dot (along_block n inner q D blk) (along_block n inner q D blk') = dot blk blk'.
Proof.
  intros HS HD HP Hb Hb'. unfold along_block.
  set (M := chunks inner n blk). set (M' := chunks inner n blk').
  assert (HM : rectR n inner M) by (apply chunks_rect; exact Hb).
  assert (HM' : rectR n inner M') by (apply chunks_rect; exact Hb').
  set (L := transp inner M). set (L' := transp inner M').
  assert (HL : rectR inner n L) by (apply transp_rect; exact HM).
  assert (HL' : rectR inner n L') by (apply transp_rect; exact HM').
  assert (HSL : rectR inner p (map S L)) by (apply (map_rect n p); assumption).
  assert (HSL' : rectR inner p (map S L')) by (apply (map_rect n p); assumption).
  assert (HDL : rectR inner q (map D L)) by (apply (map_rect n q); assumption).
  assert (HDL' : rectR inner q (map D L')) by (apply (map_rect n q); assumption).
  rewrite (dot_concat p inner) by (apply transp_rect; assumption).
  rewrite (dot_concat q inner) by (apply transp_rect; assumption).
  rewrite (mdot_transp inner p), (mdot_transp inner q) by assumption.
  rewrite (mdot_map2 S D n HP inner L L' HL HL').
  unfold L, L'. rewrite (mdot_transp n inner) by assumption.
  rewrite <- (dot_concat n inner) by assumption.
  unfold M, M'. rewrite !concat_chunks by assumption. reflexivity.
Qed.

Theorem along_parseval2 (S D : list R -> list R) (outer n inner p q : nat) (x y : list R) :
  (forall l, length l = n -> length (S l) = p) -> (forall l, length l = n -> length (D l) = q) ->
  (forall l l', length l = n -> length l' = n -> dot (S l) (S l') + dot (D l) (D l') = dot l l') ->
  length x = (n * inner * outer)%nat -> length y = (n * inner * outer)%nat ->
  dot (along outer n inner p S x) (along outer n inner p S y)
  + dot (along outer n inner q D x) (along outer n inner q D y) = dot x y.
Proof.
  intros HS HD HP Hx Hy. unfold along.
  set (B := chunks (n * inner) outer x). set (B' := chunks (n * inner) outer y).
  assert (HB : rectR outer (n * inner) B) by (apply chunks_rect; exact Hx).
  assert (HB' : rectR outer (n * inner) B') by (apply chunks_rect; exact Hy).
  assert (Hblk : forall (F : list R -> list R) m, (forall l, length l = n -> length (F l) = m) ->
            forall b, length b = (n * inner)%nat -> length (along_block n inner m F b) = (m * inner)%nat).
  { intros F m HF b Hb. apply along_block_length; [exact HF | lia]. }
  rewrite (dot_concat outer (p * inner)) by (apply (map_rect (n * inner) (p * inner)); auto).
  rewrite (dot_concat outer (q * inner)) by (apply (map_rect (n * inner) (q * inner)); auto).
  assert (Hpp : forall l l', length l = (n * inner)%nat -> length l' = (n * inner)%nat ->
            dot (along_block n inner p S l) (along_block n inner p S l')
            + dot (along_block n inner q D l) (along_block n inner q D l') = dot l l').
  { intros l l' Hl Hl'. apply along_block_parseval; try assumption; lia. }
  rewrite (mdot_map2 (along_block n inner p S) (along_block n inner q D) (n * inner) Hpp outer B B' HB HB').
  rewrite <- (dot_concat outer (n * inner)) by assumption.
  unfold B, B'. rewrite !concat_chunks by assumption. reflexivity.
Qed.

(* ------------------------------------------------------------------ *)
Section HaarND.
Variable r2 : R.
Hypothesis r2_sq : r2 * r2 = 2.

Lemma mdot_app (A A' B B' : Rmat) : length A = length A' ->
  mdot (A ++ B) (A' ++ B') = mdot A A' + mdot B B'.
Proof.
  revert A'; induction A as [|a A IH]; intros [|a' A'] Hl; cbn [length] in Hl; try lia; cbn [app mdot]; [lra|].
  rewrite IH by lia. lra.
Qed.

(* shape bookkeeping of one level *)
Lemma step_axes_wf (axes : list nat) : forall (shape : list nat) (x : list R),
  evens shape axes -> length x = prodn shape ->
  snd (step_axes r2 shape axes x) = shape_after shape axes /\
  length (fst (step_axes r2 shape axes x)) = (2 ^ length axes)%nat /\
  Forall (fun b => length b = prodn (shape_after shape axes)) (fst (step_axes r2 shape axes x)).
Proof.
  induction axes as [|ax rest IH]; intros shape x Hev Hx; cbn [step_axes shape_after fst snd length Nat.pow].
  - split; [reflexivity|]. split; [reflexivity|]. constructor; [exact Hx | constructor].
  - cbn [evens] in Hev. destruct Hev as [Hax [He Hev]].
    set (nn := nth ax shape 0%nat) in *. set (m := ((nn + 1) / 2)%nat) in *.
    set (shape' := set_nth shape ax m) in *.
    assert (Hlen : forall (F : list R -> list R), (forall l, length l = nn -> length (F l) = m) ->
              length (along_axT shape ax m F x) = prodn shape').
    { intros F HF. unfold along_axT. fold nn. rewrite (along_length _ nn _ m) by (auto; rewrite Hx; apply prodn_split; exact Hax).
      unfold shape'. rewrite prodn_set_nth by exact Hax. reflexivity. }
    assert (HS : forall l : list R, length l = nn -> length (fst (haar_step r2 l)) = m)
      by (intros l Hl; rewrite (proj1 (haar_step_lengths r2 l)), Hl; reflexivity).
    assert (HD : forall l : list R, length l = nn -> length (snd (haar_step r2 l)) = m)
      by (intros l Hl; rewrite (proj2 (haar_step_lengths r2 l)), Hl; reflexivity).
    destruct (IH shape' _ Hev (Hlen _ HS)) as [E1 [E2 E3]].
    destruct (IH shape' _ Hev (Hlen _ HD)) as [F1 [F2 F3]].
    split; [exact E1|]. split.
    + rewrite app_length, E2, F2. lia.
    + apply Forall_app. split; assumption.
Qed.

(* one level preserves the dot product: the sub-bands' dot products add up *)
Lemma step_axes_parseval (axes : list nat) : forall (shape : list nat) (x y : list R),
  evens shape axes -> length x = prodn shape -> length y = prodn shape ->
  mdot (fst (step_axes r2 shape axes x)) (fst (step_axes r2 shape axes y)) = dot x y.
Proof.
  induction axes as [|ax rest IH]; intros shape x y Hev Hx Hy; cbn [step_axes fst snd].
  - cbn [mdot]. lra.
  - pose proof Hev as Hev0. cbn [evens] in Hev. destruct Hev as [Hax [He Hev]].
    set (nn := nth ax shape 0%nat) in *. set (m := ((nn + 1) / 2)%nat) in *.
    set (shape' := set_nth shape ax m) in *.
    assert (HS : forall l : list R, length l = nn -> length (fst (haar_step r2 l)) = m)
      by (intros l Hl; rewrite (proj1 (haar_step_lengths r2 l)), Hl; reflexivity).
    assert (HD : forall l : list R, length l = nn -> length (snd (haar_step r2 l)) = m)
      by (intros l Hl; rewrite (proj2 (haar_step_lengths r2 l)), Hl; reflexivity).
    assert (Hlen : forall (F : list R -> list R) z, length z = prodn shape ->
              (forall l, length l = nn -> length (F l) = m) ->
              length (along_axT shape ax m F z) = prodn shape').
    { intros F z Hz HF. unfold along_axT. fold nn.
      rewrite (along_length _ nn _ m) by (auto; rewrite Hz; apply prodn_split; exact Hax).
      unfold shape'. rewrite prodn_set_nth by exact Hax. reflexivity. }
    rewrite mdot_app.
    2:{ rewrite (proj1 (proj2 (step_axes_wf rest shape' _ Hev (Hlen _ x Hx HS)))).
        rewrite (proj1 (proj2 (step_axes_wf rest shape' _ Hev (Hlen _ y Hy HS)))). reflexivity. }
    rewrite !IH by (try assumption; apply Hlen; assumption).
    unfold along_axT. fold nn.
    apply along_parseval2; try assumption.
    + intros l l' Hl Hl'. apply (step_parseval r2 r2_sq); [congruence | rewrite Hl; exact He].
    + rewrite Hx. apply prodn_split. exact Hax.
    + rewrite Hy. apply prodn_split. exact Hax.
Qed.

Lemma haar_nd_length_eq (L : nat) (axes : list nat) : forall (shape : list nat) (x y : list R),
  even_chain_nd L shape axes -> length x = prodn shape -> length y = prodn shape ->
  length (haar_nd r2 L shape axes x) = length (haar_nd r2 L shape axes y).
Proof.
  induction L as [|L IH]; intros shape x y Hev Hx Hy; cbn [haar_nd]; [congruence|].
  cbn [even_chain_nd] in Hev. destruct Hev as [He Hev].
  destruct (step_axes_wf axes shape x He Hx) as [E1 [E2 E3]].
  destruct (step_axes_wf axes shape y He Hy) as [F1 [F2 F3]].
  destruct (fst (step_axes r2 shape axes x)) as [|a ds] eqn:Ex;
    destruct (fst (step_axes r2 shape axes y)) as [|a' ds'] eqn:Ey; cbn [length] in *;
    try (pose proof (Nat.pow_nonzero 2 (length axes) ltac:(lia)); lia).
  inversion E3; inversion F3; subst.
  rewrite !app_length. rewrite E1, F1. f_equal.
  - apply IH; [exact Hev | assumption | assumption].
  - rewrite (concat_rect_length (length ds) (prodn (shape_after shape axes))) by (split; first [reflexivity | assumption | lia]).
    rewrite (concat_rect_length (length ds') (prodn (shape_after shape axes))) by (split; first [reflexivity | assumption | lia]).
    f_equal. lia.
Qed.

(* <W x, W y> = <x, y>: any dimension, any list of axes, any level count, whenever every
   transformed axis has an even number of points on every level *)
Theorem haar_nd_parseval (L : nat) (axes : list nat) : forall (shape : list nat) (x y : list R),
  even_chain_nd L shape axes -> length x = prodn shape -> length y = prodn shape ->
  dot (haar_nd r2 L shape axes x) (haar_nd r2 L shape axes y) = dot x y.
Proof.
  induction L as [|L IH]; intros shape x y Hev Hx Hy; cbn [haar_nd]; [reflexivity|].
  pose proof Hev as Hev0. cbn [even_chain_nd] in Hev. destruct Hev as [He Hev].
  pose proof (step_axes_parseval axes shape x y He Hx Hy) as HP.
  destruct (step_axes_wf axes shape x He Hx) as [E1 [E2 E3]].
  destruct (step_axes_wf axes shape y He Hy) as [F1 [F2 F3]].
  destruct (fst (step_axes r2 shape axes x)) as [|a ds] eqn:Ex;
    destruct (fst (step_axes r2 shape axes y)) as [|a' ds'] eqn:Ey; cbn [length] in *;
    try (pose proof (Nat.pow_nonzero 2 (length axes) ltac:(lia)); lia).
  inversion E3; inversion F3; subst. cbn [mdot] in HP.
  rewrite E1, F1.
  rewrite dot_app by (apply haar_nd_length_eq; assumption).
  rewrite IH by assumption.
  rewrite (dot_concat (length ds) (prodn (shape_after shape axes)))
    by (split; first [reflexivity | assumption | lia | congruence]).
  exact HP.
Qed.
End HaarND.

(* ------------------------------------------------------------------ *)
(* The adjoint in weighted spaces: domain inner product = (FULL cell volume) * dot, coefficient
   space unweighted.  For an orthogonal W with right inverse Winv, (1/volume) Winv is the adjoint,
   and NO other scale is (in particular not the product of only the transformed axes' sides). *)
Section WeightedAdjoint.
Variables (W Winv : list R -> list R) (Dom Coef : list R -> Prop).
Hypothesis W_orth : forall x y, Dom x -> Dom y -> dot (W x) (W y) = dot x y.
Hypothesis W_rinv : forall c, Coef c -> Dom (Winv c) /\ W (Winv c) = c.

Lemma cell_volume_R (sides : list R) : cell_volume sides = fold_right Rmult 1 sides.
Proof. reflexivity. Qed.

Theorem weighted_adjoint (sides : list R) (x c : list R) : cell_volume sides <> 0 -> Dom x -> Coef c ->
  dot (W x) c = inner_dom sides x (vscal (1 / cell_volume sides) (Winv c)).
Proof.
  intros Hv Hx Hc. destruct (W_rinv c Hc) as [Hd Hr]. unfold inner_dom. numR.
  rewrite (dot_comm x), dot_vscal_l, (dot_comm _ x).
  rewrite <- Hr at 1. rewrite W_orth by assumption. field. exact Hv.
Qed.

Theorem weighted_adjoint_scale_unique (sides : list R) (s : R) (x c : list R) :
  cell_volume sides <> 0 -> Dom x -> Coef c -> dot (W x) c <> 0 ->
  dot (W x) c = inner_dom sides x (vscal s (Winv c)) -> s = 1 / cell_volume sides.
Proof.
  intros Hv Hx Hc Hnz E. destruct (W_rinv c Hc) as [Hd Hr]. unfold inner_dom in E. numR.
  rewrite (dot_comm x), dot_vscal_l, (dot_comm _ x) in E.
  rewrite <- Hr in E at 1. rewrite <- Hr in Hnz. rewrite W_orth in E, Hnz by assumption.
  assert (Hs : s * cell_volume sides = 1).
  { apply (Rmult_eq_reg_r (dot x (Winv c))); [|exact Hnz]. lra. }
  apply (Rmult_eq_reg_r (cell_volume sides)); [|exact Hv]. rewrite Hs. field. exact Hv.
Qed.
End WeightedAdjoint.

(* ---- instances with sqrt 2 ---- *)
Definition haar_nd_parseval_sqrt2 := haar_nd_parseval (sqrt 2) sqrt2_sq.

Lemma haar_nd_weighted_adjoint_sqrt2 (L : nat) (shape axes : list nat) (sides : list R)
      (Winv : list R -> list R) (x c : list R) :
  even_chain_nd L shape axes -> cell_volume sides <> 0 ->
  (forall c', length (Winv c') = prodn shape /\ haar_nd (sqrt 2) L shape axes (Winv c') = c') ->
  length x = prodn shape ->
  dot (haar_nd (sqrt 2) L shape axes x) c
  = inner_dom sides x (vscal (1 / cell_volume sides) (Winv c)).
Proof.
  intros Hev Hv Hinv Hx.
  apply (weighted_adjoint (haar_nd (sqrt 2) L shape axes) Winv (fun z => length z = prodn shape) (fun _ => True));
    try assumption; try exact I.
  - intros a b Ha Hb. apply haar_nd_parseval_sqrt2; assumption.
  - intros c' _. apply Hinv.
Qed.

Lemma haar_nd_adjoint_scale_unique_sqrt2 (L : nat) (shape axes : list nat) (sides : list R)
      (Winv : list R -> list R) (s : R) (x c : list R) :
  even_chain_nd L shape axes -> cell_volume sides <> 0 ->
  (forall c', length (Winv c') = prodn shape /\ haar_nd (sqrt 2) L shape axes (Winv c') = c') ->
  length x = prodn shape -> dot (haar_nd (sqrt 2) L shape axes x) c <> 0 ->
  dot (haar_nd (sqrt 2) L shape axes x) c = inner_dom sides x (vscal s (Winv c)) ->
  s = 1 / cell_volume sides.
Proof.
  intros Hev Hv Hinv Hx Hnz E.
  apply (weighted_adjoint_scale_unique (haar_nd (sqrt 2) L shape axes) Winv
           (fun z => length z = prodn shape) (fun _ => True)) with (x := x) (c := c);
    try assumption; try exact I.
  - intros a b Ha Hb. apply haar_nd_parseval_sqrt2; assumption.
  - intros c' _. apply Hinv.
Qed.

(* on a 1-d array the N-d transform is the 1-d one (so the right-inverse premise above is
   satisfied there by ihaar, see ProofsH.ihaar_length_and_right_inv) *)
Lemma haar_nd_1d (r2 : R) (L : nat) : forall (x : list R),
  haar_nd r2 L [length x] [0%nat] x = haar r2 L x.
Proof.
  induction L as [|L IH]; intros x; [reflexivity|].
  cbn [haar_nd step_axes fst snd app nth]. unfold along_axT, inner_of.
  cbn [firstn skipn prodn fold_right nth].
  rewrite !along_1d by (first [apply (proj1 (haar_step_lengths r2 x)) | apply (proj2 (haar_step_lengths r2 x))]).
  cbn [haar concat app]. rewrite app_nil_r.
  unfold set_nth. cbn [firstn skipn app].
  rewrite <- (proj1 (haar_step_lengths r2 x)). rewrite IH. reflexivity.
Qed.

Lemma even_chain_nd_example_holds : even_chain_nd 2 [4; 3; 8]%nat [2; 0]%nat.
Proof. cbn. repeat split; lia. Qed.
