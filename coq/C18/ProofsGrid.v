(* C18/ProofsGrid.v -- reciprocal_grid / realspace_grid / post-processing frequencies at R. *)
From Coq Require Import ZArith QArith Reals Lra Lia List Bool Arith.
From Verif Require Import Base.Num Gen.FtFormulas C18.Model.
Import ListNotations.
Local Open Scope R_scope.

Notation Raxis := (@axis R).

(* ---------- nat helpers ---------- *)
Lemma half_even m : (2 * m / 2 = m)%nat.
Proof. rewrite Nat.mul_comm. apply Nat.div_mul. lia. Qed.
Lemma half_odd m : ((2 * m + 1) / 2 = m)%nat.
Proof.
  rewrite Nat.mul_comm, Nat.add_comm. rewrite Nat.div_add by lia.
  rewrite Nat.div_small; lia.
Qed.
Lemma odd_2m m : Nat.odd (2 * m) = false.
Proof. rewrite Nat.odd_mul. reflexivity. Qed.
Lemma odd_2m1 m : Nat.odd (2 * m + 1) = true.
Proof. rewrite Nat.odd_add, odd_2m. reflexivity. Qed.
Lemma parity_cases n : (exists m, n = 2 * m)%nat \/ (exists m, n = 2 * m + 1)%nat.
Proof.
  destruct (Nat.Even_or_Odd n) as [[m Hm]|[m Hm]]; [left|right]; exists m; lia.
Qed.

Lemma g_of_nat_INR n : @g_of_nat R _ n = INR n.
Proof. unfold g_of_nat; numR. symmetry; apply INR_IZR_INZ. Qed.
Lemma of_nat_INR n : @of_nat R _ n = INR n.
Proof. unfold of_nat. apply g_of_nat_INR. Qed.
Lemma mod_2m m : ((2 * m) mod 2 = 0)%nat.
Proof. rewrite Nat.mul_comm. apply Nat.mod_mul. lia. Qed.
Lemma mod_2m1 m : ((2 * m + 1) mod 2 = 1)%nat.
Proof. rewrite Nat.add_comm, Nat.mul_comm, Nat.mod_add by lia. reflexivity. Qed.
(* unfold the generated formulas (Gen/FtFormulas.v) down to real arithmetic *)
Ltac genR := unfold rg_rmin, rg_rmax, rg_half_n, rg_half_rmax, rs_n, rs_stride, rs_max, pp_fmin, pp_fmax,
                    pp_kernel, pp_arg, pre_arg, pre_shift_even, pre_shift_odd, of_Q in *;
             cbn [Qnum Qden] in *; rewrite ?g_of_nat_INR, ?of_nat_INR in *; numR.

Lemma INR_2m m : INR (2 * m) = 2 * INR m.
Proof. rewrite mult_INR. simpl. lra. Qed.
Lemma INR_2m1 m : INR (2 * m + 1) = 2 * INR m + 1.
Proof. rewrite plus_INR, INR_2m. simpl. lra. Qed.

Lemma leb_1_false n : (2 <= n)%nat -> (n <=? 1)%nat = false.
Proof. intros; apply Nat.leb_gt; lia. Qed.

(* ---------- unfolding helpers ---------- *)
Lemma stride_ge2 (a : Raxis) : (2 <= a_n a)%nat ->
  stride a = (a_max a - a_min a) / INR (a_n a - 1).
Proof. intros Hn. unfold stride. rewrite leb_1_false by assumption. rewrite of_nat_INR. reflexivity. Qed.

Lemma stride1_nz (a : Raxis) : stride a <> 0 -> stride1 a = stride a.
Proof.
  intros Hs. unfold stride1. numR. destruct (Reqb_spec (stride a) 0); [contradiction|reflexivity].
Qed.

Lemma INR_pos_ge1 n : (1 <= n)%nat -> 0 < INR n.
Proof. intros; apply lt_0_INR; lia. Qed.

(* ---------- reciprocal stride = 2 pi / (n s), every parity / shift / halfcomplex ---------- *)
Lemma recip_stride_all (pi : R) (a : Raxis) (sh half : bool) :
  (2 <= a_n a)%nat -> stride a <> 0 ->
  stride (recip_axis pi a (Some sh) half) = 2 * pi / (INR (a_n a) * stride a).
Proof.
  intros Hn Hs. unfold recip_axis. rewrite (stride1_nz a Hs).
  set (s := stride a) in *. set (n := a_n a) in *.
  assert (Hnpos : 0 < INR n) by (apply INR_pos_ge1; lia).
  destruct half.
  - (* halved axis *)
    destruct (parity_cases n) as [[m Hm]|[m Hm]].
    + assert (Hm1 : (1 <= m)%nat) by lia.
      assert (Hmpos : 0 < INR m) by (apply INR_pos_ge1; lia).
      rewrite Hm in *.
      rewrite stride_ge2 by (cbn [a_n]; unfold rg_half_n; rewrite half_even; lia). cbn [a_n a_min a_max].
      unfold rg_half_n, rg_half_rmax. rewrite half_even, mod_2m. cbn [Nat.eqb].
      replace (m + 1 - 1)%nat with m by lia. genR. rewrite INR_2m in *.
      destruct sh; cbn [andb negb]; field; repeat split; lra.
    + assert (Hm1 : (1 <= m)%nat) by lia.
      assert (Hmpos : 0 < INR m) by (apply INR_pos_ge1; lia).
      rewrite Hm in *.
      rewrite stride_ge2 by (cbn [a_n]; unfold rg_half_n; rewrite half_odd; lia). cbn [a_n a_min a_max].
      unfold rg_half_n, rg_half_rmax. rewrite half_odd, mod_2m1. cbn [Nat.eqb].
      replace (m + 1 - 1)%nat with m by lia. genR. rewrite INR_2m1 in *.
      destruct sh; cbn [andb negb]; field; repeat split; lra.
  - rewrite stride_ge2 by (cbn [a_n]; exact Hn). cbn [a_n a_min a_max]. fold n.
    rewrite minus_INR by lia. simpl (INR 1).
    assert (Hn2 : 2 <= INR n) by (change 2 with (INR 2); apply le_INR; exact Hn).
    genR. destruct sh; field; repeat split; lra.
Qed.

(* shape of the reciprocal axis *)
Lemma recip_n (pi : R) (a : Raxis) (sh half : bool) :
  a_n (recip_axis pi a (Some sh) half) = if half then (a_n a / 2 + 1)%nat else a_n a.
Proof. unfold recip_axis, rg_half_n. destruct half; reflexivity. Qed.

(* first point of the reciprocal axis *)
Lemma recip_min (pi : R) (a : Raxis) (sh half : bool) : stride a <> 0 -> (1 <= a_n a)%nat ->
  a_min (recip_axis pi a (Some sh) half) =
  if sh then - (pi / stride a) else - ((1 - 1 / INR (a_n a)) * pi / stride a).
Proof.
  intros Hs Hn. unfold recip_axis. rewrite (stride1_nz a Hs).
  assert (0 < INR (a_n a)) by (apply INR_pos_ge1; lia).
  destruct half, sh; cbn [a_min]; genR; field; try split; lra.
Qed.

(* the halved axis has the parity-dependent number of points that realspace_grid undoes *)
Lemma real_n_recip n : (1 <= n)%nat -> real_n (n / 2 + 1) (Some (Nat.odd n)) = n.
Proof.
  intros Hn. destruct (parity_cases n) as [[m Hm]|[m Hm]]; subst n.
  - rewrite half_even, odd_2m. cbn [real_n]. unfold rs_n. lia.
  - rewrite half_odd, odd_2m1. cbn [real_n]. unfold rs_n. lia.
Qed.
(* ... and the wrong parity gives a grid of a different size *)
Lemma real_n_recip_wrong n : (1 <= n)%nat -> real_n (n / 2 + 1) (Some (negb (Nat.odd n))) <> n.
Proof.
  intros Hn. destruct (parity_cases n) as [[m Hm]|[m Hm]]; subst n.
  - rewrite half_even, odd_2m. cbn [real_n negb]. unfold rs_n. lia.
  - rewrite half_odd, odd_2m1. cbn [real_n negb]. unfold rs_n. lia.
Qed.

(* ---------- realspace_grid (reciprocal_grid g) = g ---------- *)
Lemma real_recip_roundtrip (pi : R) (a : Raxis) (sh half : bool) :
  pi <> 0 -> (2 <= a_n a)%nat -> stride a <> 0 ->
  real_axis pi (recip_axis pi a (Some sh) half) (a_min a) true
            (if half then Some (Nat.odd (a_n a)) else None) = a.
Proof.
  intros Hpi Hn Hs. unfold real_axis.
  rewrite (recip_stride_all pi a sh half Hn Hs), recip_n.
  assert (Hrn : real_n (if half then (a_n a / 2 + 1)%nat else a_n a)
                       (if half then Some (Nat.odd (a_n a)) else None) = a_n a).
  { destruct half; [apply real_n_recip; lia | reflexivity]. }
  rewrite Hrn. destruct a as [mn mx n]. cbn [a_n a_min a_max] in *.
  f_equal.
  assert (Hst : stride (mk_axis mn mx n) = (mx - mn) / INR (n - 1)) by (apply stride_ge2; exact Hn).
  rewrite Hst in *.
  assert (Hn1 : 0 < INR (n - 1)) by (apply INR_pos_ge1; lia).
  assert (Hn0 : 0 < INR n) by (apply INR_pos_ge1; lia).
  assert (Hd : mx - mn <> 0).
  { intro Hz. apply Hs. rewrite Hz. unfold Rdiv. ring. }
  assert (Hm1 : INR (n - 1) = INR n - 1) by (rewrite minus_INR by lia; simpl; lra).
  genR. rewrite Hm1 in *. field. repeat split; lra.
Qed.

Lemma real_axis_ok_recip (pi : R) (a : Raxis) (sh half : bool) :
  pi <> 0 -> (2 <= a_n a)%nat -> stride a <> 0 ->
  real_axis_ok (recip_axis pi a (Some sh) half) true
               (if half then Some (Nat.odd (a_n a)) else None) = true.
Proof.
  intros Hpi Hn Hs. unfold real_axis_ok. cbn [negb orb].
  rewrite (recip_stride_all pi a sh half Hn Hs), recip_n.
  assert (Hrn : real_n (if half then (a_n a / 2 + 1)%nat else a_n a)
                       (if half then Some (Nat.odd (a_n a)) else None) = a_n a).
  { destruct half; [apply real_n_recip; lia | reflexivity]. }
  rewrite Hrn, of_nat_INR. numR.
  assert (Hn0 : 0 < INR (a_n a)) by (apply INR_pos_ge1; lia).
  destruct (Reqb_spec (INR (a_n a) * (2 * pi / (INR (a_n a) * stride a))) 0) as [E|E]; [|reflexivity].
  exfalso. assert (E' : INR (a_n a) * (2 * pi / (INR (a_n a) * stride a)) = 2 * pi / stride a)
    by (field; split; lra).
  rewrite E' in E. assert (2 * pi = 0) by (apply (Rmult_eq_reg_r (/ stride a));
    [unfold Rdiv in E; rewrite E; ring | apply Rinv_neq_0_compat; exact Hs]). lra.
Qed.

(* ---------- coordinates of the reciprocal axis ---------- *)
(* xi_k = (k - n/2) * D on a shifted axis, (k - (n-1)/2) * D on an unshifted one, D = 2 pi/(n s) *)
Lemma recip_coord (pi : R) (a : Raxis) (sh half : bool) (k : nat) :
  (2 <= a_n a)%nat -> stride a <> 0 ->
  coord (recip_axis pi a (Some sh) half) k =
  (INR k - (if sh then INR (a_n a) / 2 else (INR (a_n a) - 1) / 2)) * (2 * pi / (INR (a_n a) * stride a)).
Proof.
  intros Hn Hs. unfold coord. rewrite (recip_stride_all pi a sh half Hn Hs).
  rewrite recip_min by (try assumption; lia). rewrite of_nat_INR. numR.
  assert (Hn0 : 0 < INR (a_n a)) by (apply INR_pos_ge1; lia).
  destruct sh; field; split; lra.
Qed.

(* ---------- dft_postprocess_data evaluates the kernel at xi s / (2 pi) ---------- *)
Lemma linspace_R (lo hi : R) (num k : nat) : (2 <= num)%nat ->
  linspace lo hi num k = lo + INR k * ((hi - lo) / INR (num - 1)).
Proof. intros Hn. unfold linspace. rewrite leb_1_false by assumption. rewrite !of_nat_INR. reflexivity. Qed.

Lemma nhalf_R : @nhalf R _ = 1 / 2.
Proof. unfold nhalf. numR. reflexivity. Qed.

Lemma freq_is_normalised_xi (pi : R) (a : Raxis) (sh half : bool) (k : nat) :
  pi <> 0 -> (2 <= a_n a)%nat -> stride a <> 0 ->
  freq (a_n a) (a_n (recip_axis pi a (Some sh) half)) sh k =
  coord (recip_axis pi a (Some sh) half) k * stride a / (2 * pi).
Proof.
  intros Hpi Hn Hs. rewrite recip_coord by assumption. rewrite recip_n.
  set (n := a_n a) in *. set (s := stride a) in *.
  assert (Hn0 : 0 < INR n) by (apply INR_pos_ge1; lia).
  unfold freq, fmin_of, fmax_of, pp_fmin, pp_fmax.
  destruct half.
  - destruct (parity_cases n) as [[m Hm]|[m Hm]].
    + assert (Hm1 : (1 <= m)%nat) by lia.
      assert (Hmpos : 0 < INR m) by (apply INR_pos_ge1; lia).
      rewrite Hm in *. rewrite half_even, mod_2m. cbn [Nat.eqb negb].
      destruct (Nat.ltb_spec (m + 1) (2 * m)) as [Hlt|Hge].
      * rewrite linspace_R by lia. replace (m + 1 - 1)%nat with m by lia.
        genR. rewrite INR_2m in *.
        destruct sh; cbn [andb negb]; field; repeat split; lra.
      * (* m = 1: n = 2, the code takes the non-halfcomplex branch *)
        assert (m = 1)%nat by lia. subst m.
        rewrite linspace_R by lia. cbn [Nat.add Nat.sub Nat.mul] in *.
        genR. simpl (INR 2) in *. simpl (INR 1) in *.
        destruct sh; cbn [andb negb]; field; repeat split; lra.
    + assert (Hm1 : (1 <= m)%nat) by lia.
      assert (Hmpos : 0 < INR m) by (apply INR_pos_ge1; lia).
      rewrite Hm in *. rewrite half_odd, mod_2m1. cbn [Nat.eqb negb].
      destruct (Nat.ltb_spec (m + 1) (2 * m + 1)) as [Hlt|Hge]; [|lia].
      rewrite linspace_R by lia. replace (m + 1 - 1)%nat with m by lia.
      genR. rewrite INR_2m1 in *.
      destruct sh; cbn [andb negb]; field; repeat split; lra.
  - rewrite Nat.ltb_irrefl. rewrite linspace_R by exact Hn.
    rewrite minus_INR by lia. simpl (INR 1).
    assert (Hn2 : 2 <= INR n) by (change 2 with (INR 2); apply le_INR; exact Hn).
    genR. destruct sh; field; repeat split; lra.
Qed.

(* ---------- N-d: the grid functions act axis by axis ---------- *)
Lemma recip_from_length (pi : R) i (g : list Raxis) axes shifts hc :
  length (recip_from pi i g axes shifts hc) = length g.
Proof. revert i; induction g as [|a g IH]; intros i; cbn; auto. Qed.

Lemma recip_from_nth (pi : R) (g : list Raxis) axes shifts hc : forall i j d,
  (j < length g)%nat ->
  nth j (recip_from pi i g axes shifts hc) d =
  recip_axis pi (nth j g d) (tr_of axes shifts (i + j)) (hc && (i + j =? last_axis axes)%nat).
Proof.
  induction g as [|a g IH]; intros i j d Hj; cbn [length] in Hj; [lia|].
  destruct j as [|j]; cbn [recip_from nth].
  - rewrite Nat.add_0_r. reflexivity.
  - rewrite IH by lia. replace (S i + j)%nat with (i + S j)%nat by lia. reflexivity.
Qed.

Lemma real_from_nth (pi : R) (rg : list Raxis) (x0 : list R) axes half : forall i j d dx,
  (j < length rg)%nat -> length x0 = length rg ->
  nth j (real_from pi i rg x0 axes half) d =
  real_axis pi (nth j rg d) (nth j x0 dx) (existsb (Nat.eqb (i + j)) axes)
            (if (i + j =? last_axis axes)%nat then half else None).
Proof.
  revert x0. induction rg as [|r rg IH]; intros x0 i j d dx Hj Hl; cbn [length] in Hj; [lia|].
  destruct x0 as [|x x0]; cbn [length] in Hl; [lia|].
  destruct j as [|j]; cbn [real_from nth].
  - rewrite Nat.add_0_r. reflexivity.
  - rewrite (IH x0 (S i) j d dx) by lia. replace (S i + j)%nat with (i + S j)%nat by lia. reflexivity.
Qed.
Lemma real_from_length (pi : R) (rg : list Raxis) (x0 : list R) axes half : forall i,
  length x0 = length rg -> length (real_from pi i rg x0 axes half) = length rg.
Proof.
  revert x0. induction rg as [|r rg IH]; intros [|x x0] i Hl; cbn in *; try lia.
  rewrite IH; lia.
Qed.

(* tr_of finds an axis exactly when it is listed *)
Lemma tr_of_none axes shifts i : existsb (Nat.eqb i) axes = false -> tr_of axes shifts i = None.
Proof.
  revert shifts; induction axes as [|ax axes IH]; intros [|sh shifts] H; cbn in *; try reflexivity.
  apply orb_false_iff in H as [H1 H2]. rewrite IH by assumption.
  rewrite Nat.eqb_sym, H1. reflexivity.
Qed.
Lemma tr_of_some axes shifts i : length shifts = length axes -> existsb (Nat.eqb i) axes = true ->
  exists sh, tr_of axes shifts i = Some sh.
Proof.
  revert shifts; induction axes as [|ax axes IH]; intros [|sh shifts] Hl H; cbn in *; try discriminate.
  destruct (existsb (Nat.eqb i) axes) eqn:E.
  - destruct (IH shifts ltac:(lia) eq_refl) as [b Hb]. rewrite Hb. eauto.
  - rewrite orb_false_r in H. rewrite (tr_of_none axes shifts i E).
    rewrite Nat.eqb_sym, H. eauto.
Qed.

Definition dax : Raxis := mk_axis 0 0 0.
(* an axis that is not transformed must be a genuine uniform axis: >= 2 points, or one point with max = min *)
Definition plain_axis (a : Raxis) : Prop := (2 <= a_n a)%nat \/ (a_n a = 1%nat /\ a_max a = a_min a).

Lemma last_in (axes : list nat) : axes <> [] -> In (last_axis axes) axes.
Proof.
  intros Hne. unfold last_axis. destruct (@exists_last _ axes Hne) as [l' [z Hz]]. rewrite Hz.
  rewrite last_last. apply in_or_app. right. left. reflexivity.
Qed.

(* the N-d round trip: every transformed axis has >= 2 points and nonzero stride *)
Lemma real_recip_grid_roundtrip (pi : R) (g : list Raxis) (axes : list nat) (shifts : list bool) (hc : bool) :
  pi <> 0 -> length shifts = length axes -> axes <> [] ->
  (forall i, In i axes -> (2 <= a_n (nth i g dax))%nat /\ stride (nth i g dax) <> 0) ->
  (forall i, (i < length g)%nat -> ~ In i axes -> plain_axis (nth i g dax)) ->
  real_grid pi (recip_grid pi g axes shifts hc) (map a_min g) axes
            (if hc then Some (Nat.odd (a_n (nth (last_axis axes) g dax))) else None) = g.
Proof.
  intros Hpi Hl Hne Hax Hpl. unfold real_grid, recip_grid.
  apply (nth_ext _ _ dax dax).
  - rewrite real_from_length; rewrite ?recip_from_length, ?map_length; reflexivity.
  - intros j Hj. rewrite real_from_length in Hj by (rewrite recip_from_length, map_length; reflexivity).
    rewrite recip_from_length in Hj.
    rewrite (real_from_nth pi _ _ axes _ 0 j dax 0)
      by (rewrite ?recip_from_length, ?map_length; auto).
    rewrite recip_from_nth by exact Hj. cbn [Nat.add].
    replace (nth j (map a_min g) 0) with (a_min (nth j g dax))
      by (change 0 with (a_min dax); rewrite map_nth; reflexivity).
    destruct (existsb (Nat.eqb j) axes) eqn:E.
    + destruct (tr_of_some axes shifts j Hl E) as [sh Hsh]. rewrite Hsh.
      apply existsb_exists in E as [j' [Hin Hj']]. apply Nat.eqb_eq in Hj'. subst j'.
      destruct (Hax j Hin) as [Hn Hs].
      destruct (j =? last_axis axes)%nat eqn:El.
      * apply Nat.eqb_eq in El. rewrite <- El. rewrite andb_true_r.
        pose proof (real_recip_roundtrip pi (nth j g dax) sh hc Hpi Hn Hs) as RT.
        destruct hc; exact RT.
      * rewrite andb_false_r.
        exact (real_recip_roundtrip pi (nth j g dax) sh false Hpi Hn Hs).
    + rewrite (tr_of_none axes shifts j E).
      assert (Hnin : ~ In j axes).
      { intro Hin. assert (existsb (Nat.eqb j) axes = true)
          by (apply existsb_exists; eexists; split; [eassumption|apply Nat.eqb_refl]). congruence. }
      assert (El : (j =? last_axis axes)%nat = false).
      { apply Nat.eqb_neq. intro Ej. apply Hnin. rewrite Ej. apply last_in; assumption. }
      rewrite El. unfold recip_axis, real_axis. cbn [real_n].
      specialize (Hpl j Hj Hnin).
      destruct (nth j g dax) as [mn mx n] eqn:En. unfold plain_axis in Hpl. cbn [a_n a_min a_max] in *.
      f_equal.
      destruct Hpl as [Hn|[Hn Hm]].
      * rewrite stride_ge2 by (cbn [a_n]; exact Hn). cbn [a_n a_min a_max].
        assert (0 < INR (n - 1)) by (apply INR_pos_ge1; lia).
        assert (Hm1 : INR (n - 1) = INR n - 1) by (rewrite minus_INR by lia; simpl; lra).
        genR. rewrite Hm1 in *. field. lra.
      * subst n mx. unfold stride. cbn [a_n Nat.leb]. genR. simpl (INR 1). lra.
Qed.
