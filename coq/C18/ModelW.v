(* C18/ModelW.v -- executable model of the ODL side of the wavelet transform:
     odl/trafos/backends/pywt_bindings.py : precompute_raveled_slices
     odl/trafos/wavelet.py : WaveletTransform._call (ravel), WaveletTransformInverse._call
                             (unravel by the precomputed slices, crop of the reconstruction)
   plus the coefficient-length arithmetic of PyWavelets that the crop rule relies on
   (dwt_coeff_len / idwt length / the trimming inside waverecn).
   Definitions only. *)
From Coq Require Import List Arith Bool.
From Verif Require Import Lib.Axis.
Import ListNotations.

(* ---------------- coefficient lengths (PyWavelets) ---------------- *)
(* pywt.dwt_coeff_len(n, F, mode): ceil(n/2) for 'periodization', floor((n+F-1)/2) otherwise *)
Definition dwt_len (per : bool) (F n : nat) : nat :=
  if per then (n + 1) / 2 else (n + F - 1) / 2.
(* length of idwt output for coefficient length m *)
Definition idwt_len (per : bool) (F m : nat) : nat :=
  if per then 2 * m else 2 * m + 2 - F.

(* approximation lengths n_1 .. n_L of an axis of length n (finest first) *)
Fixpoint level_lens (per : bool) (F L n : nat) : list nat :=
  match L with
  | O => []
  | S L' => let m := dwt_len per F n in m :: level_lens per F L' m
  end.

(* pywt.wavedecn_shapes: only the axes in `axes` are halved *)
Definition step_shape (per : bool) (F : nat) (axes : list nat) (shape : list nat) : list nat :=
  map (fun ia => if existsb (Nat.eqb (fst ia)) axes then dwt_len per F (snd ia) else snd ia)
      (combine (seq 0 (length shape)) shape).
Fixpoint level_shapes (per : bool) (F : nat) (axes : list nat) (L : nat) (shape : list nat)
  : list (list nat) :=                                  (* finest first *)
  match L with
  | O => []
  | S L' => let s := step_shape per F axes shape in s :: level_shapes per F axes L' s
  end.
(* [approx shape, details(coarsest) .. details(finest)], every level has 2^k - 1 arrays *)
Definition cshapes := (list nat * list (list (list nat)))%type.
Definition nkeys (axes : list nat) : nat := 2 ^ length axes - 1.
Definition wavedecn_shapes (per : bool) (F : nat) (axes : list nat) (L : nat) (shape : list nat)
  : cshapes :=
  let ls := level_shapes per F axes L shape in
  (last ls shape, map (fun s => repeat s (nkeys axes)) (rev ls)).

(* waverecn along one axis: the running approximation length.  [ds] = detail lengths,
   coarsest first.  From the second level on, an approximation one longer than the
   details is trimmed (_match_coeff_dims); any other mismatch is an error (None). *)
Fixpoint waverec_len (per : bool) (F : nat) (first : bool) (a : nat) (ds : list nat) : option nat :=
  match ds with
  | [] => Some a
  | d :: ds' =>
      if (a =? d)%nat || (negb first && (a =? S d)%nat)
      then waverec_len per F false (idwt_len per F d) ds'
      else None
  end.

(* WaveletTransformInverse._call: crop rule per axis *)
Inductive crop := Keep | DropLast | CropError.
Definition crop_rule (n_recon n_intended : nat) : crop :=
  if (n_recon =? S n_intended)%nat then DropLast
  else if (n_recon =? n_intended)%nat then Keep
  else CropError.
Definition crop_len (n_recon : nat) (c : crop) : nat :=
  match c with DropLast => n_recon - 1 | _ => n_recon end.

(* ---------------- flattening / unflattening ---------------- *)
Definition size_of (shape : list nat) : nat := prodn shape.

(* precompute_raveled_slices: (start, stop) pairs; keys are visited in sorted order,
   which is the order of the per-level lists of this model *)
Fixpoint level_slices (off : nat) (shs : list (list nat)) : list (nat * nat) * nat :=
  match shs with
  | [] => ([], off)
  | s :: shs' =>
      let e := off + size_of s in
      let '(r, fin) := level_slices e shs' in ((off, e) :: r, fin)
  end.
Fixpoint detail_slices (off : nat) (lv : list (list (list nat))) : list (list (nat * nat)) :=
  match lv with
  | [] => []
  | shs :: lv' => let '(r, off') := level_slices off shs in r :: detail_slices off' lv'
  end.
Definition raveled_slices (s : cshapes) : (nat * nat) * list (list (nat * nat)) :=
  let a := size_of (fst s) in ((0, a), detail_slices a (snd s)).
(* pywt.wavedecn_size *)
Definition coeff_size (s : cshapes) : nat :=
  size_of (fst s) + fold_right (fun shs acc => fold_right (fun sh a => size_of sh + a) 0 shs + acc) 0 (snd s).

Section Flat.
Context {A : Type}.
(* an array = shape + flat data *)
Definition arr := (list nat * list A)%type.
Definition coeffs := (arr * list (list arr))%type.
Definition shapes_of (c : coeffs) : cshapes := (fst (fst c), map (map fst) (snd c)).
(* pywt.ravel_coeffs *)
Definition flatten (c : coeffs) : list A :=
  snd (fst c) ++ concat (map (fun lv => concat (map snd lv)) (snd c)).
Definition take_slice (sl : nat * nat) (v : list A) : list A :=
  firstn (snd sl - fst sl) (skipn (fst sl) v).
(* pywt.unravel_coeffs(arr, coeff_slices, coeff_shapes) *)
Definition unflatten (s : cshapes) (v : list A) : coeffs :=
  let '(asl, dsl) := raveled_slices s in
  ((fst s, take_slice asl v),
   map (fun p => map (fun q => (fst q, take_slice (snd q) v)) (combine (fst p) (snd p)))
       (combine (snd s) dsl)).
Definition wf_arr (a : arr) : bool := (length (snd a) =? size_of (fst a))%nat.
Definition wf_coeffs (c : coeffs) : bool :=
  wf_arr (fst c) && forallb (forallb wf_arr) (snd c).
End Flat.
