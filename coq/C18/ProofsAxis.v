(* C18/ProofsAxis.v -- lemmas about Lib/Axis.v ("apply a line map along an axis of a flat
   C-order array"): composition, identity, length; generic in the element type. *)
From Coq Require Import List Arith Lia.
From Verif Require Import Lib.Axis.
Import ListNotations.

Section AxisLemmas.
Context {A : Type}.
Notation mat := (list (list A)).

Definition rect (r c : nat) (M : mat) : Prop := length M = r /\ Forall (fun row => length row = c) M.

(* ---------- chunks / concat ---------- *)
Lemma chunks_length k n (l : list A) : length (chunks k n l) = n.
Proof. revert l; induction n as [|n IH]; intros l; cbn [chunks length]; auto. Qed.

Lemma chunks_rect k n (l : list A) : length l = k * n -> rect n k (chunks k n l).
Proof.
  revert l; induction n as [|n IH]; intros l Hl; split; cbn [chunks length]; auto.
  - f_equal. apply chunks_length.
  - constructor.
    + rewrite firstn_length. lia.
    + apply IH. rewrite skipn_length. lia.
Qed.

Lemma concat_chunks k n (l : list A) : length l = k * n -> concat (chunks k n l) = l.
Proof.
  revert l; induction n as [|n IH]; intros l Hl; cbn [chunks concat].
  - destruct l; [reflexivity | cbn in Hl; lia].
  - rewrite IH by (rewrite skipn_length; lia). apply firstn_skipn.
Qed.

Lemma chunks_concat k n (M : mat) : rect n k M -> chunks k n (concat M) = M.
Proof.
  revert n; induction M as [|row M IH]; intros n [Hl Hf]; cbn [length] in Hl; subst n; [reflexivity|].
  inversion Hf as [|? ? Hrow Hf']; subst. cbn [chunks concat].
  rewrite firstn_app, Nat.sub_diag, firstn_O, app_nil_r, firstn_all.
  rewrite skipn_app, Nat.sub_diag, skipn_all. cbn [skipn app].
  f_equal. apply IH. split; auto.
Qed.

Lemma concat_rect_length r c (M : mat) : rect r c M -> length (concat M) = r * c.
Proof.
  revert r; induction M as [|row M IH]; intros r [Hl Hf]; cbn [length] in Hl; subst r; [reflexivity|].
  inversion Hf; subst. cbn [concat]. rewrite app_length, (IH (length M)) by (split; auto). lia.
Qed.

(* ---------- transposition ---------- *)
Lemma zipcons_rect (row : list A) (N : mat) c r : length row = c -> rect c r N ->
  rect c (S r) (zipcons row N).
Proof.
  revert N c; induction row as [|a row IH]; intros N c Hr [Hl Hf]; cbn [length] in Hr; subst c.
  - destruct N; [split; [reflexivity|constructor] | cbn in Hl; lia].
  - destruct N as [|col N]; [cbn in Hl; lia|]. inversion Hf; subst. cbn [zipcons].
    destruct (IH N (length row) eq_refl) as [Hl' Hf']; [split; [cbn in Hl; lia | assumption]|].
    split; [cbn [length]; lia | constructor; [cbn [length]; lia | assumption]].
Qed.

Lemma transp_rect r c (M : mat) : rect r c M -> rect c r (transp c M).
Proof.
  revert r; induction M as [|row M IH]; intros r [Hl Hf]; cbn [length] in Hl; subst r; cbn [transp].
  - split; [apply repeat_length | apply Forall_forall; intros x Hx; apply repeat_spec in Hx; subst; reflexivity].
  - inversion Hf; subst. apply zipcons_rect; [reflexivity | apply IH; split; auto].
Qed.

Lemma transp_zipcons (row : list A) (N : mat) c r : length row = c -> rect c r N ->
  transp (S r) (zipcons row N) = row :: transp r N.
Proof.
  revert N c; induction row as [|a row IH]; intros N c Hr [Hl Hf]; cbn [length] in Hr; subst c.
  - destruct N; [reflexivity | cbn in Hl; lia].
  - destruct N as [|col N]; [cbn in Hl; lia|]. inversion Hf as [|? ? Hcol Hf']; subst.
    cbn [zipcons transp].
    rewrite (IH N (length row) eq_refl) by (split; [cbn in Hl; lia | assumption]).
    reflexivity.
Qed.

Lemma transp_repeat_nil c : transp 0 (repeat (@nil A) c) = [].
Proof. destruct c; reflexivity. Qed.

Lemma transp_transp r c (M : mat) : rect r c M -> transp r (transp c M) = M.
Proof.
  revert r; induction M as [|row M IH]; intros r [Hl Hf]; cbn [length] in Hl; subst r; cbn [transp].
  - apply transp_repeat_nil.
  - inversion Hf; subst.
    rewrite (transp_zipcons row (transp (length row) M) (length row) (length M) eq_refl)
      by (apply transp_rect; split; auto).
    f_equal. apply IH. split; auto.
Qed.

(* ---------- one block ---------- *)
Variables (n inner n' : nat).

Lemma map_rect (F : list A -> list A) r (L : mat) :
  (forall l, length l = n -> length (F l) = n') -> rect r n L -> rect r n' (map F L).
Proof.
  intros HF [Hl Hf]. split; [rewrite map_length; exact Hl|].
  apply Forall_forall. intros y Hy. apply in_map_iff in Hy as [l [<- Hin]].
  apply HF. rewrite Forall_forall in Hf. auto.
Qed.

Lemma along_block_length (F : list A -> list A) (blk : list A) :
  (forall l, length l = n -> length (F l) = n') -> length blk = inner * n ->
  length (along_block n inner n' F blk) = n' * inner.
Proof.
  intros HF Hb. unfold along_block.
  apply concat_rect_length. apply transp_rect. apply map_rect; [exact HF|].
  apply transp_rect. apply chunks_rect. exact Hb.
Qed.

Lemma along_block_ext (F F' : list A -> list A) (blk : list A) :
  (forall l, length l = n -> F l = F' l) -> length blk = inner * n ->
  along_block n inner n' F blk = along_block n inner n' F' blk.
Proof.
  intros HF Hb. unfold along_block. do 2 f_equal.
  apply map_ext_in. intros l Hl. apply HF.
  destruct (transp_rect n inner (chunks inner n blk) (chunks_rect inner n blk Hb)) as [_ Hf].
  rewrite Forall_forall in Hf. auto.
Qed.
End AxisLemmas.

Section Compose.
Context {A : Type}.

Lemma along_block_inv (n inner n' : nat) (F G : list A -> list A) (blk : list A) :
  (forall l, length l = n -> length (F l) = n') ->
  (forall l, length l = n -> G (F l) = l) ->
  length blk = inner * n ->
  along_block n' inner n G (along_block n inner n' F blk) = blk.
Proof.
  intros HFl HGF Hb. unfold along_block.
  set (M := chunks inner n blk).
  assert (HM : rect n inner M) by (apply chunks_rect; exact Hb).
  set (L := transp inner M).
  assert (HL : rect inner n L) by (apply transp_rect; exact HM).
  assert (HL' : rect inner n' (map F L)) by (apply (map_rect n n'); assumption).
  rewrite chunks_concat by (apply transp_rect; exact HL').
  rewrite transp_transp by exact HL'.
  rewrite map_map.
  rewrite (map_ext_in (fun x => G (F x)) (fun x => x)).
  2:{ intros l Hl. apply HGF. destruct HL as [_ Hf]. rewrite Forall_forall in Hf. auto. }
  rewrite map_id. unfold L. rewrite transp_transp by exact HM.
  apply concat_chunks. exact Hb.
Qed.

Lemma along_length (outer n inner n' : nat) (F : list A -> list A) (x : list A) :
  (forall l, length l = n -> length (F l) = n') ->
  length x = n * inner * outer ->
  length (along outer n inner n' F x) = n' * inner * outer.
Proof.
  intros HF Hx. unfold along.
  rewrite (concat_rect_length outer (n' * inner)); [lia|].
  destruct (chunks_rect (n * inner) outer x Hx) as [Hl Hf].
  split; [rewrite map_length; exact Hl|].
  apply Forall_forall. intros y Hy. apply in_map_iff in Hy as [b [<- Hin]].
  apply along_block_length; [exact HF|]. rewrite Forall_forall in Hf. rewrite (Hf b Hin). lia.
Qed.

Lemma along_ext (outer n inner n' : nat) (F F' : list A -> list A) (x : list A) :
  (forall l, length l = n -> F l = F' l) ->
  length x = n * inner * outer ->
  along outer n inner n' F x = along outer n inner n' F' x.
Proof.
  intros HF Hx. unfold along. f_equal. apply map_ext_in. intros b Hb.
  apply along_block_ext; [exact HF|].
  destruct (chunks_rect (n * inner) outer x Hx) as [_ Hf]. rewrite Forall_forall in Hf.
  rewrite (Hf b Hb). lia.
Qed.

Theorem along_inv (outer n inner n' : nat) (F G : list A -> list A) (x : list A) :
  (forall l, length l = n -> length (F l) = n') ->
  (forall l, length l = n -> G (F l) = l) ->
  length x = n * inner * outer ->
  along outer n' inner n G (along outer n inner n' F x) = x.
Proof.
  intros HFl HGF Hx. unfold along.
  set (B := chunks (n * inner) outer x).
  assert (HB : rect outer (n * inner) B) by (apply chunks_rect; exact Hx).
  assert (HB' : rect outer (n' * inner) (map (along_block n inner n' F) B)).
  { destruct HB as [Hl Hf]. split; [rewrite map_length; exact Hl|].
    apply Forall_forall. intros y Hy. apply in_map_iff in Hy as [b [<- Hin]].
    apply along_block_length; [exact HFl|]. rewrite Forall_forall in Hf. rewrite (Hf b Hin). lia. }
  rewrite chunks_concat by exact HB'.
  rewrite map_map.
  rewrite (map_ext_in _ (fun b => b)).
  2:{ intros b Hb. apply along_block_inv; try assumption.
      destruct HB as [_ Hf]. rewrite Forall_forall in Hf. rewrite (Hf b Hb). lia. }
  rewrite map_id. apply concat_chunks. exact Hx.
Qed.
End Compose.
