(* C18/Transfer.v -- the grid / frequency part of the model (no cos, sin, sqrt) executed at Q by the
   correspondence shards is the rational restriction of the model the theorems are about:
   Q2R commutes with stride, coord, reciprocal_grid (recip_axis), realspace_grid (real_axis) and the
   post-processing frequencies, all built from the REGENERATED formulas (Gen/FtFormulas.v). *)
From Coq Require Import ZArith QArith Qreals Reals Lra Lia List Bool Arith.
From Verif Require Import Base.Num Base.Transfer Gen.FtFormulas C18.Model.
Import ListNotations.

Definition axR (a : @axis Q) : @axis R := mk_axis (Q2R (a_min a)) (Q2R (a_max a)) (a_n a).

Lemma Q2R_g_of_nat (n : nat) : Q2R (g_of_nat n) = g_of_nat n.
Proof. unfold g_of_nat. apply Q2R_of_Z. Qed.
Lemma g_of_nat_nz (n : nat) : (1 <= n)%nat -> ~ (@g_of_nat Q _ n == 0)%Q.
Proof.
  intros Hn H. unfold g_of_nat in H. cbn [of_Z Num_Q] in H. unfold Qeq, inject_Z in H. cbn [Qnum Qden] in H. lia.
Qed.
Lemma of_Q_nz' (k : Q) : ~ (k == 0)%Q -> ~ (@of_Q Q _ k == 0)%Q.
Proof.
  intros Hk H. apply Hk. unfold of_Q in H. cbn [ndiv of_Z Num_Q] in H. unfold Qdiv' in H. rewrite Qred_correct in H.
  rewrite <- H. unfold Qeq, Qdiv, Qmult, Qinv, inject_Z. cbn [Qnum Qden].
  destruct k as [n d]. cbn [Qnum Qden]. ring_simplify. reflexivity.
Qed.
Lemma nmul_nz (a b : Q) : ~ (a == 0)%Q -> ~ (b == 0)%Q -> ~ (nmul a b == 0)%Q.
Proof.
  intros Ha Hb H. cbn [nmul Num_Q] in H. rewrite Qred_correct in H.
  apply Qmult_integral in H. tauto.
Qed.
Lemma two_nz : ~ (@of_Q Q _ (2 # 1) == 0)%Q.
Proof. apply of_Q_nz'. discriminate. Qed.

(* ---------- stride, coord ---------- *)
Lemma stride_transfer (a : @axis Q) : Q2R (stride a) = stride (axR a).
Proof.
  unfold stride. cbn [a_n axR a_min a_max]. destruct (Nat.leb_spec (a_n a) 1) as [H|H].
  - apply Q2R_nzero.
  - unfold of_nat. rewrite Q2R_ndiv by (apply g_of_nat_nz; lia).
    rewrite Q2R_nsub, Q2R_g_of_nat. reflexivity.
Qed.
Lemma stride1_transfer (a : @axis Q) : Q2R (stride1 a) = stride1 (axR a).
Proof.
  unfold stride1. rewrite (Q2R_neqb (stride a) nzero), Q2R_nzero, stride_transfer.
  destruct (neqb (stride (axR a)) nzero); [apply Q2R_none | apply stride_transfer].
Qed.
Lemma stride1_nz (a : @axis Q) : ~ (stride1 a == 0)%Q.
Proof.
  unfold stride1. destruct (neqb (stride a) nzero) eqn:E.
  - cbn [none_ Num_Q]. discriminate.
  - cbn [neqb Num_Q] in E. intros H. apply Qeq_bool_iff in H. cbn [nzero Num_Q] in E. congruence.
Qed.
Lemma coord_transfer (a : @axis Q) (k : nat) : Q2R (coord a k) = coord (axR a) k.
Proof.
  unfold coord, of_nat. rewrite Q2R_nadd, Q2R_nmul, Q2R_g_of_nat, stride_transfer. reflexivity.
Qed.

(* ---------- reciprocal_grid ---------- *)
Lemma rg_rmin_transfer (pi s : Q) n sh : ~ (s == 0)%Q -> (1 <= n)%nat ->
  Q2R (rg_rmin pi s n sh) = rg_rmin (Q2R pi) (Q2R s) n sh.
Proof.
  intros Hs Hn. unfold rg_rmin. destruct sh.
  - rewrite Q2R_ndiv, Q2R_nopp by exact Hs. reflexivity.
  - rewrite Q2R_ndiv by exact Hs. rewrite Q2R_nmul, Q2R_nadd, Q2R_of_Q.
    rewrite Q2R_ndiv by (apply g_of_nat_nz; exact Hn). rewrite Q2R_none, Q2R_g_of_nat. reflexivity.
Qed.
Lemma rg_rmax_transfer (pi s rmin : Q) n sh : ~ (s == 0)%Q -> (1 <= n)%nat ->
  Q2R (rg_rmax pi s rmin n sh) = rg_rmax (Q2R pi) (Q2R s) (Q2R rmin) n sh.
Proof.
  intros Hs Hn. unfold rg_rmax. destruct sh.
  - rewrite Q2R_nsub, Q2R_nopp. rewrite Q2R_ndiv by (apply nmul_nz; [exact Hs | apply g_of_nat_nz; exact Hn]).
    rewrite !Q2R_nmul, Q2R_of_Q, Q2R_g_of_nat. reflexivity.
  - apply Q2R_nopp.
Qed.
Lemma rg_half_rmax_transfer (pi s : Q) n sh : ~ (s == 0)%Q -> (1 <= n)%nat ->
  Q2R (rg_half_rmax pi s n sh) = rg_half_rmax (Q2R pi) (Q2R s) n sh.
Proof.
  intros Hs Hn. unfold rg_half_rmax. cbv zeta.
  assert (E : Q2R (ndiv pi (nmul (g_of_nat n) s)) = ndiv (Q2R pi) (nmul (g_of_nat n) (Q2R s))).
  { rewrite Q2R_ndiv by (apply nmul_nz; [apply g_of_nat_nz; exact Hn | exact Hs]).
    rewrite Q2R_nmul, Q2R_g_of_nat. reflexivity. }
  destruct ((n mod 2 =? 1)%nat && sh); [rewrite Q2R_nopp, E; reflexivity|].
  destruct (negb (n mod 2 =? 1)%nat && negb sh); [exact E | apply Q2R_nzero].
Qed.

Theorem recip_axis_transfer (pi : Q) (a : @axis Q) (tr : option bool) (half : bool) : (1 <= a_n a)%nat ->
  axR (recip_axis pi a tr half) = recip_axis (Q2R pi) (axR a) tr half.
Proof.
  intros Hn. unfold recip_axis. destruct tr as [sh|]; [|reflexivity].
  pose proof (stride1_nz a) as Hs.
  destruct half; unfold axR at 1; cbn [a_min a_max a_n]; cbn [a_n axR].
  - rewrite rg_rmin_transfer, rg_half_rmax_transfer, stride1_transfer by assumption. reflexivity.
  - rewrite rg_rmax_transfer, rg_rmin_transfer, stride1_transfer by assumption. reflexivity.
Qed.

(* ---------- realspace_grid ---------- *)
Theorem real_axis_transfer (pi : Q) (r : @axis Q) (x0 : Q) (tr : bool) (half : option bool) :
  (tr = true -> ~ (nmul (g_of_nat (real_n (a_n r) half)) (stride r) == 0)%Q) ->
  axR (real_axis pi r x0 tr half) = real_axis (Q2R pi) (axR r) (Q2R x0) tr half.
Proof.
  intros Hok. unfold real_axis. cbv zeta. unfold axR at 1. cbn [a_min a_max a_n]. cbn [a_n axR].
  set (n := real_n (a_n r) half).
  assert (Est : Q2R (if tr then rs_stride pi (stride r) n else stride r)
                = (if tr then rs_stride (Q2R pi) (stride (axR r)) n else stride (axR r))).
  { destruct tr; [|apply stride_transfer]. unfold rs_stride.
    rewrite Q2R_ndiv by (apply Hok; reflexivity).
    rewrite !Q2R_nmul, Q2R_of_Q, Q2R_g_of_nat, stride_transfer. reflexivity. }
  f_equal. unfold rs_max. rewrite Q2R_nadd, Q2R_nmul, Q2R_nsub, Q2R_g_of_nat, Q2R_none, Est. reflexivity.
Qed.

(* ---------- post-processing frequencies ---------- *)
Lemma pp_fmin_transfer n sh : (1 <= n)%nat -> Q2R (pp_fmin n sh) = pp_fmin n sh.
Proof.
  intros Hn. unfold pp_fmin. destruct sh; [apply Q2R_of_Q|].
  rewrite Q2R_nadd, Q2R_of_Q. rewrite Q2R_ndiv by (apply nmul_nz; [apply two_nz | apply g_of_nat_nz; exact Hn]).
  rewrite Q2R_none, Q2R_nmul, Q2R_of_Q, Q2R_g_of_nat. reflexivity.
Qed.
Lemma pp_fmax_transfer n rn sh : (1 <= n)%nat -> Q2R (pp_fmax n rn sh) = pp_fmax n rn sh.
Proof.
  intros Hn. unfold pp_fmax. cbv zeta.
  assert (H2n : ~ (nmul (@of_Q Q _ (2 # 1)) (g_of_nat n) == 0)%Q)
    by (apply nmul_nz; [apply two_nz | apply g_of_nat_nz; exact Hn]).
  assert (E2n : Q2R (nmul (of_Q (2 # 1)) (g_of_nat n)) = nmul (of_Q (2 # 1)) (g_of_nat n))
    by (rewrite Q2R_nmul, Q2R_of_Q, Q2R_g_of_nat; reflexivity).
  destruct (rn <? n)%nat.
  - destruct (sh && negb (n mod 2 =? 0)%nat).
    + rewrite Q2R_ndiv by exact H2n. rewrite Q2R_of_Q, E2n. reflexivity.
    + destruct (negb sh && negb (negb (n mod 2 =? 0)%nat)).
      * rewrite Q2R_ndiv by exact H2n. rewrite Q2R_none, E2n. reflexivity.
      * apply Q2R_nzero.
  - destruct sh.
    + rewrite Q2R_nsub, Q2R_of_Q. rewrite Q2R_ndiv by (apply g_of_nat_nz; exact Hn).
      rewrite Q2R_none, Q2R_g_of_nat. reflexivity.
    + rewrite Q2R_nsub, Q2R_of_Q. rewrite Q2R_ndiv by exact H2n. rewrite Q2R_none, E2n. reflexivity.
Qed.
Theorem freq_transfer n rn sh k : (1 <= n)%nat -> Q2R (freq n rn sh k) = freq n rn sh k.
Proof.
  intros Hn. unfold freq, linspace, fmin_of, fmax_of. destruct (Nat.leb_spec rn 1) as [H|H].
  - apply pp_fmin_transfer. exact Hn.
  - unfold of_nat. rewrite Q2R_nadd, Q2R_nmul, Q2R_g_of_nat.
    rewrite Q2R_ndiv by (apply g_of_nat_nz; lia).
    rewrite Q2R_nsub, Q2R_g_of_nat, pp_fmin_transfer, pp_fmax_transfer by exact Hn. reflexivity.
Qed.
