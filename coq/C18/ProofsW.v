(* C18/ProofsW.v -- wavelet bookkeeping: unflatten o flatten = id for every coefficient
   structure; the reconstruction length through any number of levels and the crop rule. *)
From Coq Require Import List Arith Lia Bool ZArith.
From Verif Require Import Lib.Axis C18.ModelW.
Import ListNotations.

Ltac divmod2 x := pose proof (Nat.div_mod_eq x 2); pose proof (Nat.mod_upper_bound x 2 ltac:(lia)).

(* ---------------- lengths ---------------- *)
Lemma idwt_dwt_len per F n : Nat.even F = true -> (2 <= F)%nat -> (1 <= n)%nat ->
  idwt_len per F (dwt_len per F n) = (n + n mod 2)%nat.
Proof.
  intros HF HF2 Hn. apply Nat.even_spec in HF as [f ->].
  unfold idwt_len, dwt_len. destruct per.
  - divmod2 (n + 1)%nat. divmod2 n. lia.
  - divmod2 (n + 2 * f - 1)%nat. divmod2 n. lia.
Qed.

Lemma waverec_len_app per F first a ds d :
  waverec_len per F first a (ds ++ [d]) =
  match waverec_len per F first a ds with
  | None => None
  | Some a' =>
      if (a' =? d)%nat || (negb (first && match ds with [] => true | _ => false end) && (a' =? S d)%nat)
      then Some (idwt_len per F d) else None
  end.
Proof.
  revert first a; induction ds as [|d0 ds IH]; intros first a; cbn [app waverec_len].
  - rewrite andb_true_r. destruct ((a =? d)%nat || (negb first && (a =? S d)%nat)); reflexivity.
  - destruct ((a =? d0)%nat || (negb first && (a =? S d0)%nat)); [|reflexivity].
    rewrite IH. rewrite andb_false_r. cbn [negb andb].
    destruct (waverec_len per F false (idwt_len per F d0) ds); [|reflexivity].
    destruct ds; reflexivity.
Qed.

Lemma level_lens_S per F L n :
  level_lens per F (S L) n = dwt_len per F n :: level_lens per F L (dwt_len per F n).
Proof. reflexivity. Qed.

Lemma dwt_len_pos per F n : (2 <= F)%nat -> (1 <= n)%nat -> (1 <= dwt_len per F n)%nat.
Proof. intros. unfold dwt_len. destruct per; [divmod2 (n + 1)%nat | divmod2 (n + F - 1)%nat]; lia. Qed.

(* through L >= 1 levels the reconstruction has length n or n+1 (exactly n + n mod 2), and
   no intermediate length mismatch occurs *)
Lemma recon_len_levels per F : Nat.even F = true -> (2 <= F)%nat ->
  forall L n, (1 <= n)%nat ->
  let ls := level_lens per F (S L) n in
  waverec_len per F true (last ls n) (rev ls) = Some (n + n mod 2)%nat.
Proof.
  intros HF HF2. induction L as [|L IH]; intros n Hn ls.
  - subst ls. cbn [level_lens last rev app waverec_len]. rewrite Nat.eqb_refl. cbn [orb].
    rewrite idwt_dwt_len by assumption. reflexivity.
  - subst ls. rewrite level_lens_S. set (n1 := dwt_len per F n).
    assert (Hn1 : (1 <= n1)%nat) by (apply dwt_len_pos; assumption).
    specialize (IH n1 Hn1). cbv zeta in IH.
    set (ls' := level_lens per F (S L) n1) in *.
    assert (Hne : ls' <> []) by (unfold ls'; rewrite level_lens_S; discriminate).
    assert (Hlast : last (n1 :: ls') n = last ls' n1).
    { destruct ls' as [|y ls'']; [congruence|]. cbn [last].
      clear. revert y; induction ls'' as [|z t IHt]; intros y; [reflexivity|]. cbn [last] in *. apply IHt. }
    rewrite Hlast. cbn [rev]. rewrite waverec_len_app, IH.
    assert (Hnil : match rev ls' with [] => true | _ => false end = false).
    { destruct (rev ls') eqn:E; [|reflexivity]. apply (f_equal (@rev nat)) in E. rewrite rev_involutive in E.
      cbn in E. congruence. }
    rewrite Hnil, andb_false_r. cbn [negb andb].
    assert (Hok : ((n1 + n1 mod 2 =? n1) || (n1 + n1 mod 2 =? S n1))%nat = true).
    { apply orb_true_iff. destruct (Nat.eq_dec (n1 mod 2) 0) as [E|E].
      - left. apply Nat.eqb_eq. lia.
      - right. apply Nat.eqb_eq. assert (n1 mod 2 < 2)%nat by (apply Nat.mod_upper_bound; lia). lia. }
    rewrite Hok. unfold n1. rewrite idwt_dwt_len by assumption. reflexivity.
Qed.

(* the crop rule of WaveletTransformInverse._call never raises and restores the length *)
Lemma crop_restores n : crop_rule (n + n mod 2) n <> CropError /\
  crop_len (n + n mod 2) (crop_rule (n + n mod 2) n) = n.
Proof.
  unfold crop_rule. assert (n mod 2 < 2)%nat by (apply Nat.mod_upper_bound; lia).
  destruct (Nat.eq_dec (n mod 2) 0) as [E|E].
  - rewrite E, Nat.add_0_r. replace (n =? S n)%nat with false by (symmetry; apply Nat.eqb_neq; lia).
    rewrite Nat.eqb_refl. cbn. split; [discriminate | reflexivity].
  - replace (n + n mod 2)%nat with (S n) by lia. rewrite Nat.eqb_refl. cbn. split; [discriminate | lia].
Qed.

(* ---------------- flatten / unflatten ---------------- *)
Section Flat.
Context {A : Type}.
Notation arrA := (@arr A).

Lemma take_slice_mid (pre mid post : list A) :
  take_slice (length pre, length pre + length mid)%nat (pre ++ mid ++ post) = mid.
Proof.
  unfold take_slice. cbn [fst snd].
  replace (length pre + length mid - length pre)%nat with (length mid) by lia.
  rewrite skipn_app, skipn_all, Nat.sub_diag. cbn [skipn app].
  rewrite firstn_app, Nat.sub_diag, firstn_O, app_nil_r. apply firstn_all.
Qed.

Definition wfa (a : arrA) : Prop := length (snd a) = size_of (fst a).

Lemma level_roundtrip (lv : list arrA) : Forall wfa lv -> forall (pre post : list A),
  let r := level_slices (length pre) (map fst lv) in
  snd r = (length pre + length (concat (map snd lv)))%nat /\
  map (fun q => (fst q, take_slice (snd q) (pre ++ concat (map snd lv) ++ post)))
      (combine (map fst lv) (fst r)) = lv.
Proof.
  induction 1 as [|a lv Ha Hlv IH]; intros pre post; cbn [map concat level_slices combine].
  - cbn. split; [lia | reflexivity].
  - destruct a as [sh dat]. unfold wfa in Ha. cbn [fst snd] in *.
    specialize (IH (pre ++ dat) post). cbv zeta in IH.
    rewrite app_length in IH. rewrite <- Ha.
    destruct (level_slices (length pre + length dat) (map fst lv)) as [r fin] eqn:E.
    cbn [fst snd] in *. destruct IH as [IH1 IH2]. split.
    + rewrite app_length. lia.
    + cbn [combine map fst snd]. f_equal.
      * f_equal. rewrite <- app_assoc. apply take_slice_mid.
      * etransitivity; [|exact IH2]. apply map_ext. intros q. f_equal. f_equal.
        rewrite <- !app_assoc. reflexivity.
Qed.

Lemma details_roundtrip (lvs : list (list arrA)) : Forall (Forall wfa) lvs -> forall (pre post : list A),
  map (fun p => map (fun q => (fst q, take_slice (snd q)
                                  (pre ++ concat (map (fun lv => concat (map snd lv)) lvs) ++ post)))
                    (combine (fst p) (snd p)))
      (combine (map (map fst) lvs) (detail_slices (length pre) (map (map fst) lvs))) = lvs.
Proof.
  induction 1 as [|lv lvs Hlv Hlvs IH]; intros pre post; cbn [map concat detail_slices combine]; [reflexivity|].
  destruct (level_roundtrip lv Hlv pre (concat (map (fun lv0 => concat (map snd lv0)) lvs) ++ post)) as [H1 H2].
  destruct (level_slices (length pre) (map fst lv)) as [r off'] eqn:E. cbn [fst snd] in *.
  cbn [combine map fst snd]. f_equal.
  - etransitivity; [|exact H2]. apply map_ext. intros q. f_equal. f_equal. rewrite <- !app_assoc. reflexivity.
  - specialize (IH (pre ++ concat (map snd lv)) post). rewrite app_length, <- H1 in IH.
    etransitivity; [|exact IH]. apply map_ext. intros p. apply map_ext. intros q. f_equal. f_equal.
    rewrite <- !app_assoc. reflexivity.
Qed.

Definition wfc (c : @coeffs A) : Prop := wfa (fst c) /\ Forall (Forall wfa) (snd c).

Theorem unflatten_flatten (c : @coeffs A) : wfc c -> unflatten (shapes_of c) (flatten c) = c.
Proof.
  intros [Ha Hd]. destruct c as [[ash adat] lvs]. unfold wfa in Ha. cbn [fst snd] in *.
  unfold unflatten, raveled_slices, shapes_of, flatten. cbn [fst snd].
  f_equal.
  - f_equal. rewrite <- Ha.
    pose proof (take_slice_mid [] adat (concat (map (fun lv => concat (map snd lv)) lvs))) as T.
    cbn [length app Nat.add] in T. exact T.
  - rewrite <- Ha.
    pose proof (details_roundtrip lvs Hd adat []) as D. rewrite app_nil_r in D. exact D.
Qed.

(* the slices tile the flat vector: its length is the coefficient count *)
Lemma flatten_length (c : @coeffs A) : wfc c -> length (flatten c) = coeff_size (shapes_of c).
Proof.
  intros [Ha Hd]. destruct c as [[ash adat] lvs]. unfold wfa in Ha. cbn [fst snd] in *.
  unfold flatten, coeff_size, shapes_of. cbn [fst snd]. rewrite app_length, Ha. f_equal.
  induction Hd as [|lv lvs Hlv Hlvs IH]; cbn [map concat fold_right]; [reflexivity|].
  rewrite app_length, IH. f_equal.
  clear -Hlv. induction Hlv as [|a lv Ha Hlv IH]; cbn [map concat fold_right]; [reflexivity|].
  rewrite app_length, IH. unfold wfa in Ha. rewrite Ha. reflexivity.
Qed.
End Flat.
