(* C18/ProofsCx.v -- the complex numbers of the model at R are a commutative ring without
   zero divisors; under the phase-map laws the model's twiddle table is a primitive root,
   hence the model's inverse DFT inverts the model's DFT for every length. *)
From Coq Require Import ZArith Reals Lra Lia List Bool Arith Nsatz Ring.
From Verif Require Import Base.Num C18.Model C18.ProofsGrid C18.ProofsDFT.
Import ListNotations.
Local Open Scope R_scope.

Notation Cx := (@cx R).
Definition copp (a : Cx) : Cx := (- fst a, - snd a).

Lemma cx_eq (a b : Cx) : fst a = fst b -> snd a = snd b -> a = b.
Proof. destruct a, b; cbn; intros; subst; reflexivity. Qed.

Ltac cx_simpl := unfold cadd, cmul, csub, copp, cscal, cdivr, cconj, cre, c0, c1 in *; cbn [fst snd] in *; numR.

Lemma cx_ring : ring_theory (@c0 R _) c1 cadd cmul csub copp eq.
Proof.
  constructor; intros; try (destruct x); try (destruct y); try (destruct z);
    cx_simpl; apply cx_eq; cbn [fst snd]; ring.
Qed.
Add Ring CxRing : cx_ring.

Lemma cx_integral (a b : Cx) : cmul a b = c0 -> a = c0 \/ b = c0.
Proof.
  destruct a as [ar ai], b as [br bi]. cx_simpl. intros E.
  injection E as E1 E2.
  destruct (Req_dec ar 0) as [Ha|Ha]; [destruct (Req_dec ai 0) as [Hb|Hb]|].
  - left. subst. reflexivity.
  - right. assert (N : ar * ar + ai * ai <> 0) by nra.
    assert (B1 : (ar * ar + ai * ai) * br = 0) by nsatz.
    assert (B2 : (ar * ar + ai * ai) * bi = 0) by nsatz.
    apply Rmult_integral in B1 as [?| ->]; [contradiction|].
    apply Rmult_integral in B2 as [?| ->]; [contradiction|]. reflexivity.
  - right. assert (N : ar * ar + ai * ai <> 0) by nra.
    assert (B1 : (ar * ar + ai * ai) * br = 0) by nsatz.
    assert (B2 : (ar * ar + ai * ai) * bi = 0) by nsatz.
    apply Rmult_integral in B1 as [?| ->]; [contradiction|].
    apply Rmult_integral in B2 as [?| ->]; [contradiction|]. reflexivity.
Qed.

Lemma cmul_1_l (a : Cx) : cmul c1 a = a.
Proof. destruct a. cx_simpl. apply cx_eq; cbn [fst snd]; lra. Qed.
Lemma cmul_1_r (a : Cx) : cmul a c1 = a.
Proof. destruct a. cx_simpl. apply cx_eq; cbn [fst snd]; lra. Qed.
Lemma cmul_comm (a b : Cx) : cmul a b = cmul b a.
Proof. destruct a, b. cx_simpl. apply cx_eq; cbn [fst snd]; lra. Qed.

Notation cpw := (pw Cx c1 cmul).
Notation csum := (rsum (@c0 R _) cadd).

Lemma nC_cx n : nC Cx c0 c1 cadd n = (INR n, 0).
Proof.
  unfold nC. induction n as [|n IH]; [reflexivity|].
  cbn [rsum]. rewrite IH. rewrite S_INR. cx_simpl. apply cx_eq; cbn [fst snd]; lra.
Qed.

Lemma dft_gen_ext (tw tw' : nat -> Cx) (x : list Cx) :
  (forall m, tw m = tw' m) -> dft_gen c0 cadd cmul tw x = dft_gen c0 cadd cmul tw' x.
Proof.
  intros E. unfold dft_gen. apply map_ext. intros k.
  apply (sum_ext Cx c0 cadd). intros j _. rewrite E. reflexivity.
Qed.

(* ------------------------------------------------------------------ *)
Section Phase.
Variable cispi : R -> Cx.
Hypothesis cis_add : forall a b, cispi (a + b) = cmul (cispi a) (cispi b).
Hypothesis cis_0 : cispi 0 = c1.
Hypothesis cis_2 : cispi 2 = c1.
Hypothesis cis_prim : forall r, 0 < r < 2 -> cispi r <> c1.

Lemma cis_neg a : cmul (cispi a) (cispi (- a)) = c1.
Proof. rewrite <- cis_add. replace (a + - a) with 0 by lra. exact cis_0. Qed.
Lemma cis_m2 : cispi (-2) = c1.
Proof. pose proof (cis_neg 2) as H. rewrite cis_2, cmul_1_l in H. exact H. Qed.

Lemma cis_nat_mul a m : cispi (INR m * a) = cpw (cispi a) m.
Proof.
  induction m as [|m IH].
  - simpl (INR 0). replace (0 * a) with 0 by lra. exact cis_0.
  - rewrite S_INR. replace ((INR m + 1) * a) with (a + INR m * a) by lra.
    rewrite cis_add, IH. reflexivity.
Qed.

Definition is_sign (sg : R) : Prop := sg = 1 \/ sg = -1.

(* the root used by the model for exponent sign sg and length n *)
Definition root (sg : R) (n : nat) : Cx := cispi (sg * 2 / INR n).

Lemma root_inv sg n : cmul (root sg n) (root (- sg) n) = c1.
Proof.
  unfold root. replace (- sg * 2 / INR n) with (- (sg * 2 / INR n)) by (unfold Rdiv; lra).
  apply cis_neg.
Qed.
Lemma root_n sg n : is_sign sg -> (1 <= n)%nat -> cpw (root sg n) n = c1.
Proof.
  intros Hs Hn. unfold root. rewrite <- cis_nat_mul.
  assert (0 < INR n) by (apply INR_pos_ge1; exact Hn).
  replace (INR n * (sg * 2 / INR n)) with (sg * 2) by (field; lra).
  destruct Hs as [-> | ->]; [replace (1 * 2) with 2 by lra; exact cis_2
                           | replace (-1 * 2) with (-2) by lra; exact cis_m2].
Qed.
Lemma root_prim sg n d : is_sign sg -> (0 < d < n)%nat -> cpw (root sg n) d <> c1.
Proof.
  intros Hs Hd. unfold root. rewrite <- cis_nat_mul.
  assert (Hn0 : 0 < INR n) by (apply INR_pos_ge1; lia).
  assert (Hd0 : 0 < INR d) by (apply INR_pos_ge1; lia).
  assert (Hdn : INR d < INR n) by (apply lt_INR; lia).
  assert (Hr : 0 < 2 * INR d / INR n < 2).
  { split.
    - apply Rdiv_lt_0_compat; lra.
    - apply (Rmult_lt_reg_r (INR n)); [lra|]. unfold Rdiv. rewrite Rmult_assoc, Rinv_l by lra. lra. }
  destruct Hs as [-> | ->].
  - replace (INR d * (1 * 2 / INR n)) with (2 * INR d / INR n) by (field; lra).
    apply cis_prim; exact Hr.
  - replace (INR d * (-1 * 2 / INR n)) with (- (2 * INR d / INR n)) by (field; lra).
    intros E. apply (cis_prim _ Hr).
    pose proof (cis_neg (2 * INR d / INR n)) as H. rewrite E, cmul_1_r in H. exact H.
Qed.

(* the model's twiddle table is the power function of that root *)
Lemma cpw_mod sg n m : is_sign sg -> (1 <= n)%nat -> cpw (root sg n) (m mod n) = cpw (root sg n) m.
Proof.
  intros Hs Hn. rewrite (Nat.div_mod m n) at 2 by lia.
  rewrite (pw_add Cx c0 c1 cadd cmul csub copp cx_ring), (pw_pw Cx c0 c1 cadd cmul csub copp cx_ring).
  rewrite root_n by assumption. rewrite (pw_one Cx c0 c1 cadd cmul csub copp cx_ring). symmetry; apply cmul_1_l.
Qed.

Lemma tw_tab_root sg n m : is_sign sg -> (1 <= n)%nat ->
  tw_tab cispi sg n m = cpw (root sg n) m.
Proof.
  intros Hs Hn. unfold tw_tab.
  assert (Hm : (m mod n < n)%nat) by (apply Nat.mod_upper_bound; lia).
  rewrite (nth_indep _ c0 ((fun m0 => cispi (sg * of_Z 2 * of_nat m0 / of_nat n)%num) 0%nat))
    by (rewrite map_length, seq_length; exact Hm).
  rewrite (map_nth (fun m0 => cispi (sg * of_Z 2 * of_nat m0 / of_nat n)%num)).
  rewrite seq_nth by exact Hm. cbn [Nat.add].
  rewrite !of_nat_INR. numR.
  assert (0 < INR n) by (apply INR_pos_ge1; exact Hn).
  replace (sg * 2 * INR (m mod n) / INR n) with (INR (m mod n) * (sg * 2 / INR n)) by (field; lra).
  rewrite cis_nat_mul. fold (root sg n). apply cpw_mod; assumption.
Qed.

(* ---- the model's inverse DFT inverts the model's DFT, every length, both signs ---- *)
Lemma dft1_length sg (x : list Cx) : length (dft1 cispi sg x) = length x.
Proof. unfold dft1. apply (dft_gen_length Cx c0 cadd cmul). Qed.

Theorem idft1_dft1 sg (x : list Cx) : is_sign sg ->
  idft1 cispi (- sg) (dft1 cispi sg x) = x.
Proof.
  intros Hs. destruct x as [|x0 xs] eqn:Ex; [reflexivity|]. rewrite <- Ex.
  set (n := length x).
  assert (Hn : (1 <= n)%nat) by (unfold n; rewrite Ex; cbn; lia).
  assert (Hs' : is_sign (- sg)) by (destruct Hs as [-> | ->]; [right|left]; lra).
  unfold idft1. rewrite dft1_length. fold n. unfold dft1.
  rewrite (dft_gen_length Cx c0 cadd cmul). fold n.
  rewrite (dft_gen_ext (tw_tab cispi (- sg) n) (cpw (root (- sg) n)))
    by (intros; apply tw_tab_root; assumption).
  rewrite (dft_gen_ext (tw_tab cispi sg n) (cpw (root sg n)))
    by (intros; apply tw_tab_root; assumption).
  assert (Hn0 : 0 < INR n) by (apply INR_pos_ge1; exact Hn).
  rewrite (map_ext _ (fun a => cmul (1 / INR n, 0) a)).
  2:{ intros [ar ai]. rewrite of_nat_INR. cx_simpl. apply cx_eq; cbn [fst snd]; field; lra. }
  apply (dft_inversion Cx c0 c1 cadd cmul csub copp cx_ring cx_integral (root sg n) (root (- sg) n) n).
  - apply root_inv.
  - apply root_n; assumption.
  - intros d Hd. apply root_prim; assumption.
  - rewrite nC_cx. cx_simpl. apply cx_eq; cbn [fst snd]; field; lra.
  - reflexivity.
Qed.
End Phase.

(* ------------------------------------------------------------------ *)
(* the true phase map satisfies the laws *)
Definition cis_true (a : R) : Cx := (cos (PI * a), sin (PI * a)).

Lemma cis_true_add a b : cis_true (a + b) = cmul (cis_true a) (cis_true b).
Proof.
  unfold cis_true. rewrite Rmult_plus_distr_l, cos_plus, sin_plus. cx_simpl.
  apply cx_eq; cbn [fst snd]; lra.
Qed.
Lemma cis_true_0 : cis_true 0 = c1.
Proof. unfold cis_true. rewrite Rmult_0_r, cos_0, sin_0. reflexivity. Qed.
Lemma cis_true_2 : cis_true 2 = c1.
Proof. unfold cis_true. rewrite (Rmult_comm PI 2), cos_2PI, sin_2PI. reflexivity. Qed.
Lemma cis_true_prim r : 0 < r < 2 -> cis_true r <> c1.
Proof.
  intros [H0 H2] E. unfold cis_true, c1 in E. numR. injection E as Ec Es.
  assert (Hpi := PI_RGT_0).
  assert (Hx0 : 0 <= PI * r) by nra.
  assert (Hx2 : PI * r <= 2 * PI) by nra.
  destruct (sin_eq_O_2PI_0 (PI * r) Hx0 Hx2 Es) as [E0|[E1|E2]].
  - nra.
  - rewrite E1, cos_PI in Ec. lra.
  - nra.
Qed.
