(* C18/ProofsFT.v -- N-d: the inverse DFT along any list of axes inverts the forward one;
   pre-/post-processing factors cancel; FourierTransformInverse o FourierTransform = id
   (complex spaces, no half-complex) for every shape, axes list, shift pattern and sign. *)
From Coq Require Import ZArith Reals Lra Lia List Bool Arith.
From Verif Require Import Base.Num Lib.Axis Gen.FtFormulas C18.Model C18.ProofsGrid C18.ProofsDFT C18.ProofsCx C18.ProofsAxis.
Import ListNotations.
Local Open Scope R_scope.

(* ---------- shapes ---------- *)
Lemma prodn_app (a b : list nat) : prodn (a ++ b) = (prodn a * prodn b)%nat.
Proof. unfold prodn. induction a as [|x a IH]; cbn [app fold_right]; [lia|]. rewrite IH. apply Nat.mul_assoc. Qed.

Lemma prodn_split (shape : list nat) (ax : nat) : (ax < length shape)%nat ->
  prodn shape = (nth ax shape 0%nat * inner_of shape ax * prodn (firstn ax shape))%nat.
Proof.
  intros Hax. unfold inner_of.
  rewrite <- (firstn_skipn ax shape) at 1. rewrite prodn_app.
  assert (Hs : skipn ax shape = nth ax shape 0%nat :: skipn (S ax) shape).
  { clear -Hax. revert ax Hax; induction shape as [|a s IH]; intros [|ax] H; cbn in *; try lia; auto.
    apply IH. lia. }
  rewrite Hs. unfold prodn. cbn [fold_right]. ring.
Qed.

Section FT.
Variable cispi : R -> Cx.
Hypothesis cis_add : forall a b, cispi (a + b) = cmul (cispi a) (cispi b).
Hypothesis cis_0 : cispi 0 = c1.
Hypothesis cis_2 : cispi 2 = c1.
Hypothesis cis_prim : forall r, 0 < r < 2 -> cispi r <> c1.

(* ---------- the per-axis line maps with a shared table = the 1-d transforms ---------- *)
Lemma dft1n_eq sg n (x : list Cx) : length x = n -> dft1n cispi sg n x = dft1 cispi sg x.
Proof. intros <-. reflexivity. Qed.
Lemma idft1n_eq sg n (x : list Cx) : length x = n -> idft1n cispi sg n x = idft1 cispi sg x.
Proof. intros <-. reflexivity. Qed.
Lemma dft1n_length sg n (x : list Cx) : length (dft1n cispi sg n x) = length x.
Proof. unfold dft1n. apply (dft_gen_length Cx c0 cadd cmul). Qed.

Lemma line_inv sg n (l : list Cx) : is_sign sg -> length l = n ->
  idft1n cispi (- sg) n (dft1n cispi sg n l) = l.
Proof.
  intros Hs Hl. rewrite idft1n_eq by (rewrite dft1n_length; exact Hl).
  rewrite dft1n_eq by exact Hl. apply idft1_dft1; assumption.
Qed.

(* ---------- N-d DFT ---------- *)
Lemma along_ax_length (shape : list nat) ax (F : list Cx -> list Cx) (x : list Cx) :
  (ax < length shape)%nat ->
  (forall l, length l = nth ax shape 0%nat -> length (F l) = nth ax shape 0%nat) ->
  length x = prodn shape ->
  length (along_ax shape ax (nth ax shape 0%nat) F x) = prodn shape.
Proof.
  intros Hax HF Hx. unfold along_ax.
  rewrite (along_length _ (nth ax shape 0%nat) _ (nth ax shape 0%nat)); auto.
  - symmetry. apply prodn_split. exact Hax.
  - rewrite Hx. apply prodn_split. exact Hax.
Qed.

Lemma dftn_length sg (shape axes : list nat) (x : list Cx) :
  (forall ax, In ax axes -> (ax < length shape)%nat) -> length x = prodn shape ->
  length (dftn cispi sg shape axes x) = prodn shape.
Proof.
  induction axes as [|ax axes IH]; intros Hax Hx; cbn [dftn fold_right]; [exact Hx|].
  apply along_ax_length.
  - apply Hax. left. reflexivity.
  - intros l Hl. rewrite dft1n_length. exact Hl.
  - apply IH; [intros; apply Hax; right; assumption | exact Hx].
Qed.

Theorem idftn_dftn sg (shape axes : list nat) (x : list Cx) : is_sign sg ->
  (forall ax, In ax axes -> (ax < length shape)%nat) -> length x = prodn shape ->
  idftn cispi (- sg) shape axes (dftn cispi sg shape axes x) = x.
Proof.
  intros Hs. revert x. induction axes as [|ax axes IH]; intros x Hax Hx; [reflexivity|].
  cbn [dftn idftn fold_right fold_left].
  fold (dftn cispi sg shape axes x).
  change (fold_left _ axes ?y) with (idftn cispi (- sg) shape axes y).
  assert (Hax0 : (ax < length shape)%nat) by (apply Hax; left; reflexivity).
  unfold along_ax at 1 2.
  rewrite along_inv.
  - apply IH; [intros; apply Hax; right; assumption | exact Hx].
  - intros l Hl. rewrite dft1n_length. exact Hl.
  - intros l Hl. apply line_inv; assumption.
  - rewrite dftn_length by (try assumption; intros; apply Hax; right; assumption).
    apply prodn_split. exact Hax0.
Qed.

(* ---------- pointwise factors ---------- *)
Lemma tensor_mult_length shape facs (x : list Cx) : length (tensor_mult shape facs x) = length x.
Proof. unfold tensor_mult. rewrite map_length, combine_length, seq_length. lia. Qed.

Lemma tensor_mult_nth shape facs (x : list Cx) i : (i < length x)%nat ->
  nth i (tensor_mult shape facs x) c0 = cmul (nth i x c0) (tensor_fac shape facs i).
Proof.
  intros Hi. unfold tensor_mult.
  set (f := fun ix : nat * Cx => cmul (snd ix) (tensor_fac shape facs (fst ix))).
  rewrite (nth_indep _ c0 (f (0%nat, c0))) by (rewrite map_length, combine_length, seq_length; lia).
  rewrite (map_nth f). rewrite combine_nth by (rewrite seq_length; reflexivity).
  rewrite seq_nth by exact Hi. reflexivity.
Qed.

Lemma cmul_assoc (a b c : Cx) : cmul (cmul a b) c = cmul a (cmul b c).
Proof. destruct a, b, c. cx_simpl. apply cx_eq; cbn [fst snd]; lra. Qed.

(* two factor lists that are inverse to each other entry by entry cancel *)
Lemma tensor_mult_cancel shape facs facs' (x : list Cx) :
  (forall i, (i < length x)%nat -> cmul (tensor_fac shape facs i) (tensor_fac shape facs' i) = c1) ->
  tensor_mult shape facs' (tensor_mult shape facs x) = x.
Proof.
  intros H. apply (nth_ext _ _ c0 c0).
  - rewrite !tensor_mult_length. reflexivity.
  - intros i Hi. rewrite !tensor_mult_length in Hi.
    rewrite tensor_mult_nth by (rewrite tensor_mult_length; exact Hi).
    rewrite tensor_mult_nth by exact Hi.
    rewrite cmul_assoc, H by exact Hi. apply cmul_1_r.
Qed.

(* factor lists over the same axes whose 1-d factors are inverse on 0..n_ax-1 *)
Inductive facs_inv (shape : list nat) : list (nat * (nat -> Cx)) -> list (nat * (nat -> Cx)) -> Prop :=
| fi_nil : facs_inv shape [] []
| fi_cons ax f g l l' :
    (forall k, (k < nth ax shape 1%nat)%nat -> cmul (f k) (g k) = c1) ->
    facs_inv shape l l' -> facs_inv shape ((ax, f) :: l) ((ax, g) :: l').

Lemma axis_index_lt shape ax i : (1 <= nth ax shape 1%nat)%nat ->
  (axis_index shape ax i < nth ax shape 1%nat)%nat.
Proof. intros H. unfold axis_index. apply Nat.mod_upper_bound. lia. Qed.

Lemma tensor_fac_inv shape l l' i : facs_inv shape l l' ->
  (forall ax, In ax (map fst l) -> (1 <= nth ax shape 1%nat)%nat) ->
  cmul (tensor_fac shape l i) (tensor_fac shape l' i) = c1.
Proof.
  induction 1 as [|ax f g l l' Hfg Hrest IH]; intros Hpos; cbn [tensor_fac].
  - apply cmul_1_l.
  - assert (Hk := axis_index_lt shape ax i (Hpos ax (or_introl eq_refl))).
    transitivity (cmul (cmul (f (axis_index shape ax i)) (g (axis_index shape ax i)))
                       (cmul (tensor_fac shape l i) (tensor_fac shape l' i))).
    + generalize (f (axis_index shape ax i)) (g (axis_index shape ax i))
                 (tensor_fac shape l i) (tensor_fac shape l' i).
      intros [a1 a2] [b1 b2] [d1 d2] [e1 e2]. cx_simpl. apply cx_eq; cbn [fst snd]; lra.
    + rewrite Hfg by exact Hk. rewrite IH by (intros; apply Hpos; right; assumption). apply cmul_1_l.
Qed.

Lemma tabulate_nth n (f : nat -> Cx) k : (k < n)%nat -> tabulate n f k = f k.
Proof.
  intros Hk. unfold tabulate.
  rewrite (nth_indep _ c0 (f 0%nat)) by (rewrite map_length, seq_length; exact Hk).
  rewrite (map_nth f), seq_nth by exact Hk. reflexivity.
Qed.

(* ---------- the phase factors cancel ---------- *)
Lemma pre_fac_cancel n sh sg j :
  cmul (pre_fac cispi n sh sg j) (pre_fac cispi n sh (- sg) j) = c1.
Proof.
  unfold pre_fac. destruct sh.
  - destruct (Nat.even j); unfold of_re; genR; cx_simpl; apply cx_eq; cbn [fst snd]; lra.
  - rewrite <- cis_add.
    match goal with |- cispi ?a = _ => replace a with 0 by (genR; lra) end. exact cis_0.
Qed.

(* ---------- the regenerated back-end dispatch, in the form the proofs use ---------- *)
Lemma sign_minus_R sg : is_sign sg -> @sign_minus R _ sg = if Req_EM_T sg (-1) then true else false.
Proof.
  intros [-> | ->]; unfold sign_minus; numR.
  - destruct (Rltb_spec 1 0); [lra|]. destruct (Req_EM_T 1 (-1)); [lra | reflexivity].
  - destruct (Rltb_spec (-1) 0); [|lra]. destruct (Req_EM_T (-1) (-1)); [reflexivity | lra].
Qed.
Lemma neg1_R : (- none_)%num = (-1 : R).
Proof. numR. lra. Qed.

Lemma dft_forward_unfold sg hc shape axes (x : list Cx) : is_sign sg ->
  dft_forward cispi sg hc shape axes x = if hc then rfftn cispi shape axes x else dftn cispi sg shape axes x.
Proof.
  intros Hs. unfold dft_forward, dft_fwd_call. rewrite sign_minus_R by exact Hs.
  destruct hc; [reflexivity|]. destruct Hs as [-> | ->].
  - destruct (Req_EM_T 1 (-1)); [lra|]. reflexivity.
  - destruct (Req_EM_T (-1) (-1)); [|lra]. cbn [run_call]. rewrite neg1_R. reflexivity.
Qed.
Lemma dft_inverse_unfold sg hc shape axes (x : list Cx) : is_sign sg ->
  dft_inverse cispi sg hc shape axes x = if hc then irfftn cispi shape axes x else idftn cispi sg shape axes x.
Proof.
  intros Hs. unfold dft_inverse, dft_inv_call. rewrite sign_minus_R by exact Hs.
  destruct hc; [reflexivity|]. destruct Hs as [-> | ->].
  - destruct (Req_EM_T 1 (-1)); [lra|]. reflexivity.
  - destruct (Req_EM_T (-1) (-1)); [|lra]. cbn [run_call]. rewrite neg1_R. reflexivity.
Qed.
Lemma ftc_forward_unfold sg hc shape axes (x : list Cx) : is_sign sg ->
  ftc_forward cispi sg hc shape axes x = if hc then rfftn cispi shape axes x else dftn cispi sg shape axes x.
Proof.
  intros Hs. unfold ftc_forward, ft_fwd_call. rewrite sign_minus_R by exact Hs.
  destruct hc; [reflexivity|]. destruct Hs as [-> | ->].
  - destruct (Req_EM_T 1 (-1)); [lra|]. reflexivity.
  - destruct (Req_EM_T (-1) (-1)); [|lra]. cbn [run_call]. rewrite neg1_R. reflexivity.
Qed.
Lemma ftc_inverse_unfold sg hc shape axes (x : list Cx) : is_sign sg ->
  ftc_inverse cispi sg hc shape axes x = if hc then irfftn cispi shape axes x else idftn cispi sg shape axes x.
Proof.
  intros Hs. unfold ftc_inverse, ft_inv_call. rewrite sign_minus_R by exact Hs.
  destruct hc; [reflexivity|]. destruct Hs as [-> | ->].
  - destruct (Req_EM_T 1 (-1)); [lra|]. reflexivity.
  - destruct (Req_EM_T (-1) (-1)); [|lra]. cbn [run_call]. rewrite neg1_R. reflexivity.
Qed.
Lemma is_sign_opp sg : is_sign sg -> is_sign (- sg).
Proof. intros [-> | ->]; [right | left]; lra. Qed.

Variables (pi sq2pi : R).

(* the forward post-factor (multiply) times the inverse pre-factor (divide, opposite sign) *)
Lemma post_fac_cancel (a : Raxis) sh half sg k :
  kernel pi sq2pi cispi (stride a) (freq (a_n a) (a_n (recip_axis 1 a (Some sh) half)) sh k) <> 0 ->
  cmul (post_fac pi sq2pi cispi a sh half sg false k) (post_fac pi sq2pi cispi a sh half (- sg) true k) = c1.
Proof.
  intros Hk. unfold post_fac. cbv zeta.
  set (ker := kernel pi sq2pi cispi (stride a) _) in *.
  numR.
  unfold pp_arg. numR.
  set (th := sg * a_min a * coord (recip_axis 1 a (Some sh) half) k).
  replace (- sg * a_min a * coord (recip_axis 1 a (Some sh) half) k) with (- th) by (unfold th; lra).
  pose proof (cis_neg cispi cis_add cis_0 th) as Hc.
  destruct (cispi th) as [c s], (cispi (- th)) as [c' s']. cx_simpl.
  injection Hc as Hc1 Hc2.
  apply cx_eq; cbn [fst snd].
  - transitivity ((c * c' - s * s') * (ker / ker)); [field; exact Hk|]. rewrite Hc1. field; exact Hk.
  - transitivity ((c * s' + s * c') * (ker / ker)); [field; exact Hk|]. rewrite Hc2. field; exact Hk.
Qed.

Lemma pre_facs_inv shape (g : list Raxis) axes shifts sg :
  (forall ax, In ax axes -> a_n (nth ax g dax) = nth ax shape 1%nat) ->
  facs_inv shape (pre_facs cispi g axes shifts sg) (pre_facs cispi g axes shifts (- sg)).
Proof.
  revert shifts; induction axes as [|ax axes IH]; intros [|sh shifts] Hn; cbn [pre_facs]; try constructor.
  - intros k Hk. rewrite <- (Hn ax (or_introl eq_refl)) in Hk.
    rewrite !tabulate_nth by exact Hk. apply pre_fac_cancel.
  - apply IH. intros; apply Hn; right; assumption.
Qed.

Lemma post_facs_inv shape (g : list Raxis) axes shifts lastax sg :
  (forall ax, In ax axes -> a_n (nth ax g dax) = nth ax shape 1%nat) ->
  (forall ax sh k, In ax axes -> (k < nth ax shape 1%nat)%nat ->
     let a := nth ax g dax in
     kernel pi sq2pi cispi (stride a) (freq (a_n a) (a_n a) sh k) <> 0) ->
  facs_inv shape (post_facs pi sq2pi cispi g axes shifts lastax false sg false)
                 (post_facs pi sq2pi cispi g axes shifts lastax false (- sg) true).
Proof.
  revert shifts; induction axes as [|ax axes IH]; intros [|sh shifts] Hn Hker; cbn [post_facs]; try constructor.
  - cbn [andb]. intros k Hk. rewrite <- (Hn ax (or_introl eq_refl)) in Hk.
    rewrite !tabulate_nth by exact Hk. apply post_fac_cancel.
    unfold recip_axis. cbn [a_n].
    apply (Hker ax sh k (or_introl eq_refl)). rewrite <- (Hn ax (or_introl eq_refl)). exact Hk.
  - apply IH; [intros; apply Hn; right; assumption | intros; apply Hker; [right|]; assumption].
Qed.

Lemma pre_facs_axes (g : list Raxis) axes shifts sg ax :
  In ax (map fst (pre_facs cispi g axes shifts sg)) -> In ax axes.
Proof.
  revert shifts; induction axes as [|a axs IH]; intros [|s shs] Hin; cbn [pre_facs map fst In] in *; try tauto.
  destruct Hin as [E|Hin]; [left; exact E | right; eapply IH; exact Hin].
Qed.
Lemma post_facs_axes (g : list Raxis) axes shifts lastax hc sg dv ax :
  In ax (map fst (post_facs pi sq2pi cispi g axes shifts lastax hc sg dv)) -> In ax axes.
Proof.
  revert shifts; induction axes as [|a axs IH]; intros [|s shs] Hin; cbn [post_facs map fst In] in *; try tauto.
  destruct Hin as [E|Hin]; [left; exact E | right; eapply IH; exact Hin].
Qed.

(* ---------- FourierTransformInverse (FourierTransform x) = x ---------- *)
Theorem ft_roundtrip (g : list Raxis) (axes : list nat) (shifts : list bool) (sg : R) (x : list Cx) :
  is_sign sg ->
  let shape := map a_n g in
  (forall ax, In ax axes -> (ax < length g)%nat /\ (1 <= a_n (nth ax g dax))%nat) ->
  (forall ax sh k, In ax axes -> (k < a_n (nth ax g dax))%nat ->
     let a := nth ax g dax in
     kernel pi sq2pi cispi (stride a) (freq (a_n a) (a_n a) sh k) <> 0) ->
  length x = prodn shape ->
  ft_inverse pi sq2pi cispi (mk_ft g axes shifts (- sg) false) false
             (ft_forward pi sq2pi cispi (mk_ft g axes shifts sg false) x) = x.
Proof.
  intros Hs shape Hax Hker Hx.
  assert (Hnth : forall ax, In ax axes -> a_n (nth ax g dax) = nth ax shape 1%nat).
  { intros ax Hin. unfold shape. destruct (Hax ax Hin) as [Hl _].
    rewrite (nth_indep _ 1%nat (a_n dax)) by (rewrite map_length; exact Hl).
    rewrite (map_nth a_n). reflexivity. }
  assert (Hpos : forall ax, In ax axes -> (1 <= nth ax shape 1%nat)%nat).
  { intros ax Hin. rewrite <- Hnth by exact Hin. apply Hax. exact Hin. }
  assert (Hlt : forall ax, In ax axes -> (ax < length shape)%nat).
  { intros ax Hin. unfold shape. rewrite map_length. apply Hax. exact Hin. }
  unfold ft_inverse, ft_forward, f_rshape, f_shape.
  cbn [f_grid f_axes f_shifts f_sg f_hc]. fold shape.
  rewrite ftc_forward_unfold by exact Hs. rewrite ftc_inverse_unfold by (apply is_sign_opp; exact Hs).
  (* 1. post (x) divide-pre cancel *)
  rewrite tensor_mult_cancel.
  2:{ intros i _. apply tensor_fac_inv.
      - apply post_facs_inv; [exact Hnth|]. intros ax sh k Hin Hk. apply Hker; [exact Hin|].
        rewrite Hnth by exact Hin. exact Hk.
      - intros ax Hin. apply Hpos. eapply post_facs_axes. exact Hin. }
  (* 2. inverse DFT o DFT *)
  rewrite idftn_dftn by (try assumption; rewrite tensor_mult_length; exact Hx).
  (* 3. pre (x) post-of-inverse cancel *)
  apply tensor_mult_cancel.
  intros i _. apply tensor_fac_inv.
  - apply pre_facs_inv. exact Hnth.
  - intros ax Hin. apply Hpos. eapply pre_facs_axes. exact Hin.
Qed.
End FT.
