(* C18/ModelH.v -- the Haar wavelet transform with 'periodization' extension as PyWavelets
   computes it (pywt.wavedec / waverec, wavelet 'haar', mode 'periodization'), in the flat
   layout of WaveletTransform._call: [cA_L, cD_L, ..., cD_1].  r2 stands for sqrt 2.
   An odd-length level repeats its last sample (the periodization rule), which is why
   ODL has to crop the reconstruction. *)
From Coq Require Import List Arith.
From Verif Require Import Base.Num Base.Vec Lib.Axis C18.Model.
Import ListNotations.
Local Open Scope num_scope.

Section Haar.
Context {T : Type} `{Num T}.
Variable r2 : T.

Fixpoint haar_step (x : list T) : list T * list T :=
  match x with
  | a :: b :: x' => let sd := haar_step x' in ((a + b) / r2 :: fst sd, (a - b) / r2 :: snd sd)
  | [a] => ([(a + a) / r2], [(a - a) / r2])
  | [] => ([], [])
  end.
Fixpoint ihaar_step (s d : list T) : list T :=
  match s, d with
  | a :: s', b :: d' => (a + b) / r2 :: (a - b) / r2 :: ihaar_step s' d'
  | _, _ => []
  end.
(* WaveletTransform('haar', nlevels=L, pad_mode='pywt_periodic') on a 1-d array *)
Fixpoint haar (L : nat) (x : list T) : list T :=
  match L with
  | O => x
  | S L' => let sd := haar_step x in haar L' (fst sd) ++ snd sd
  end.
(* its .inverse for an array of n points (the crop of waverecn / ODL is the firstn) *)
Fixpoint ihaar (L n : nat) (c : list T) : list T :=
  match L with
  | O => c
  | S L' => let m := ((n + 1) / 2)%nat in
            let k := (length c - m)%nat in
            firstn n (ihaar_step (ihaar L' m (firstn k c)) (skipn k c))
  end.
(* every level length is even *)
Fixpoint even_chain (L n : nat) : Prop :=
  match L with O => True | S L' => Nat.even n = true /\ even_chain L' (n / 2) end.

(* ---------------- N-d arrays (flat C order), transform over a list of axes ---------------- *)
(* apply a line map along axis ax; lines of length nth ax shape become lines of length m *)
Definition along_axT (shape : list nat) (ax m : nat) (F : list T -> list T) (x : list T) : list T :=
  along (prodn (firstn ax shape)) (nth ax shape 0%nat) (inner_of shape ax) m F x.

(* one decomposition level (pywt.dwtn): split along axes[0], then each half along axes[1], ...
   The sub-bands come out in the order of the sorted keys 'aa..a' < .. < 'dd..d'
   (character i of a key belongs to axes[i]); all have the same shape, returned second. *)
Fixpoint step_axes (shape : list nat) (axes : list nat) (x : list T) : list (list T) * list nat :=
  match axes with
  | [] => ([x], shape)
  | ax :: rest =>
      let m := ((nth ax shape 0%nat + 1) / 2)%nat in
      let s := along_axT shape ax m (fun l => fst (haar_step l)) x in
      let d := along_axT shape ax m (fun l => snd (haar_step l)) x in
      let shape' := set_nth shape ax m in
      let bs := step_axes shape' rest s in
      let bd := step_axes shape' rest d in
      (fst bs ++ fst bd, snd bs)
  end.
(* WaveletTransform('haar', nlevels=L, pad_mode='pywt_periodic', axes=axes)._call:
   flat [ravel(approx_L), details_L (sorted keys), ..., details_1] *)
Fixpoint haar_nd (L : nat) (shape axes : list nat) (x : list T) : list T :=
  match L with
  | O => x
  | S L' =>
      let bs := step_axes shape axes x in
      match fst bs with
      | a :: ds => haar_nd L' (snd bs) axes a ++ concat ds
      | [] => []
      end
  end.

(* every axis in `axes` has an even number of points on every level *)
Fixpoint evens (shape axes : list nat) : Prop :=
  match axes with
  | [] => True
  | ax :: rest => (ax < length shape)%nat /\ Nat.even (nth ax shape 0%nat) = true
                  /\ evens (set_nth shape ax ((nth ax shape 0%nat + 1) / 2)) rest
  end.
Fixpoint shape_after (shape axes : list nat) : list nat :=
  match axes with
  | [] => shape
  | ax :: rest => shape_after (set_nth shape ax ((nth ax shape 0%nat + 1) / 2)) rest
  end.
Fixpoint even_chain_nd (L : nat) (shape axes : list nat) : Prop :=
  match L with
  | O => True
  | S L' => evens shape axes /\ even_chain_nd L' (shape_after shape axes) axes
  end.

(* ---------------- the inverse over a list of axes ---------------- *)
Fixpoint map2 {A B C : Type} (f : A -> B -> C) (l : list A) (m : list B) : list C :=
  match l, m with
  | a :: l', b :: m' => f a b :: map2 f l' m'
  | _, _ => []
  end.
(* two-input version of Lib/Axis.along: corresponding lines (length n) of two arrays of the same
   shape outer x n x inner are combined by F into one line of length n' *)
Definition along_block2 (n inner n' : nat) (F : list T -> list T -> list T) (bx byy : list T) : list T :=
  concat (transp n' (map2 F (transp inner (chunks inner n bx)) (transp inner (chunks inner n byy)))).
Definition along2 (outer n inner n' : nat) (F : list T -> list T -> list T) (x y : list T) : list T :=
  concat (map2 (along_block2 n inner n' F) (chunks (n * inner) outer x) (chunks (n * inner) outer y)).

(* one reconstruction level (pywt.idwtn): sub-bands in sorted-key order -> array of shape `shape`;
   a reconstructed line is cropped to the target length (the trimming of waverecn / ODL) *)
Fixpoint istep_axes (shape : list nat) (axes : list nat) (bands : list (list T)) : list T :=
  match axes with
  | [] => hd [] bands
  | ax :: rest =>
      let n := nth ax shape 0%nat in
      let m := ((n + 1) / 2)%nat in
      let shape' := set_nth shape ax m in
      let h := (length bands / 2)%nat in
      let s := istep_axes shape' rest (firstn h bands) in
      let d := istep_axes shape' rest (skipn h bands) in
      along2 (prodn (firstn ax shape)) m (inner_of shape ax) n
             (fun u v => firstn n (ihaar_step u v)) s d
  end.
(* number of coefficients of haar_nd *)
Fixpoint haar_nd_size (L : nat) (shape axes : list nat) : nat :=
  match L with
  | O => prodn shape
  | S L' => let sh' := shape_after shape axes in
            (haar_nd_size L' sh' axes + (2 ^ length axes - 1) * prodn sh')%nat
  end.
(* WaveletTransformInverse('haar', nlevels=L, pad_mode='pywt_periodic', axes=axes)._call *)
Fixpoint ihaar_nd (L : nat) (shape axes : list nat) (c : list T) : list T :=
  match L with
  | O => c
  | S L' =>
      let sh' := shape_after shape axes in
      let B := prodn sh' in
      let k := haar_nd_size L' sh' axes in
      istep_axes shape axes
                 (ihaar_nd L' sh' axes (firstn k c) :: chunks B (2 ^ length axes - 1) (skipn k c))
  end.

(* DiscretizedSpace weighting: the FULL cell volume, product over ALL axes *)
Definition cell_volume (sides : list T) : T := fold_right nmul none_ sides.
(* <x, y> of a uniformly weighted real DiscretizedSpace; the coefficient space rn(size) is unweighted *)
Definition inner_dom (sides : list T) (x y : list T) : T := cell_volume sides * dot x y.

End Haar.
