(* C18/ModelH.v -- the Haar wavelet transform with 'periodization' extension as PyWavelets
   computes it (pywt.wavedec / waverec, wavelet 'haar', mode 'periodization'), in the flat
   layout of WaveletTransform._call: [cA_L, cD_L, ..., cD_1].  r2 stands for sqrt 2.
   An odd-length level repeats its last sample (the periodization rule), which is why
   ODL has to crop the reconstruction. *)
From Coq Require Import List Arith.
From Verif Require Import Base.Num.
Import ListNotations.
Local Open Scope num_scope.

Section Haar.
Context {T : Type} `{Num T}.
Variable r2 : T.

Fixpoint haar_step (x : list T) : list T * list T :=
  match x with
  | a :: b :: x' => let sd := haar_step x' in ((a + b) / r2 :: fst sd, (a - b) / r2 :: snd sd)
  | [a] => ([(a + a) / r2], [(a - a) / r2])
  | [] => ([], [])
  end.
Fixpoint ihaar_step (s d : list T) : list T :=
  match s, d with
  | a :: s', b :: d' => (a + b) / r2 :: (a - b) / r2 :: ihaar_step s' d'
  | _, _ => []
  end.
(* WaveletTransform('haar', nlevels=L, pad_mode='pywt_periodic') on a 1-d array *)
Fixpoint haar (L : nat) (x : list T) : list T :=
  match L with
  | O => x
  | S L' => let sd := haar_step x in haar L' (fst sd) ++ snd sd
  end.
(* its .inverse for an array of n points (the crop of waverecn / ODL is the firstn) *)
Fixpoint ihaar (L n : nat) (c : list T) : list T :=
  match L with
  | O => c
  | S L' => let m := ((n + 1) / 2)%nat in
            let k := (length c - m)%nat in
            firstn n (ihaar_step (ihaar L' m (firstn k c)) (skipn k c))
  end.
(* every level length is even *)
Fixpoint even_chain (L n : nat) : Prop :=
  match L with O => True | S L' => Nat.even n = true /\ even_chain L' (n / 2) end.
End Haar.
