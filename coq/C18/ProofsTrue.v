(* C18/ProofsTrue.v -- the side conditions of ProofsFT.ft_roundtrip hold for the true
   constants (pi = PI, sq2pi = sqrt(2 PI), cispi = cis_true): the interpolation kernel never
   vanishes on the frequencies the code evaluates it at. *)
From Coq Require Import ZArith Reals Lra Lia List Bool Arith.
From Verif Require Import Base.Num Lib.Axis Gen.FtFormulas C18.Model C18.ProofsGrid C18.ProofsDFT C18.ProofsCx C18.ProofsFT.
Import ListNotations.
Local Open Scope R_scope.

Lemma freq_full_formula n sh k : (2 <= n)%nat ->
  freq n n sh k = (INR k - (if sh then INR n / 2 else (INR n - 1) / 2)) / INR n.
Proof.
  intros Hn. unfold freq, fmin_of, fmax_of, pp_fmin, pp_fmax. rewrite Nat.ltb_irrefl.
  rewrite linspace_R by exact Hn. rewrite minus_INR by lia. simpl (INR 1).
  assert (Hn2 : 2 <= INR n) by (change 2 with (INR 2); apply le_INR; exact Hn).
  genR. destruct sh; field; lra.
Qed.

Lemma freq_range n sh k : (2 <= n)%nat -> (k < n)%nat -> -1 / 2 <= freq n n sh k <= 1 / 2.
Proof.
  intros Hn Hk. rewrite freq_full_formula by exact Hn.
  assert (Hn2 : 2 <= INR n) by (change 2 with (INR 2); apply le_INR; exact Hn).
  assert (Hk0 : 0 <= INR k) by apply pos_INR.
  assert (Hk1 : INR k <= INR n - 1).
  { replace (INR n - 1) with (INR (n - 1)) by (rewrite minus_INR by lia; simpl; lra). apply le_INR. lia. }
  assert (Hn0 : 0 < INR n) by lra.
  assert (Hdiv : forall y, y / INR n * INR n = y) by (intros; field; lra).
  destruct sh; split.
  - apply (Rmult_le_reg_r (INR n)); [exact Hn0|]. rewrite Hdiv. lra.
  - apply (Rmult_le_reg_r (INR n)); [exact Hn0|]. rewrite Hdiv. lra.
  - apply (Rmult_le_reg_r (INR n)); [exact Hn0|]. rewrite Hdiv. lra.
  - apply (Rmult_le_reg_r (INR n)); [exact Hn0|]. rewrite Hdiv. lra.
Qed.

Lemma sin_pi_f_nz f : -1 / 2 <= f <= 1 / 2 -> f <> 0 -> sin (PI * f) <> 0.
Proof.
  intros [Hlo Hhi] Hf. assert (Hpi := PI_RGT_0).
  destruct (Rlt_or_le 0 f) as [Hp|Hn].
  - assert (0 < sin (PI * f)); [|lra]. apply sin_gt_0; nra.
  - assert (Hneg : f < 0) by lra.
    assert (0 < sin (PI * (- f))) by (apply sin_gt_0; nra).
    replace (PI * - f) with (- (PI * f)) in H by ring. rewrite sin_neg in H. lra.
Qed.

Lemma sinc_true_nz f : -1 / 2 <= f <= 1 / 2 -> sinc PI cis_true f <> 0.
Proof.
  intros Hf. unfold sinc. numR. destruct (Reqb_spec f 0) as [E|E]; [lra|].
  unfold cis_true. cbn [snd]. assert (Hpi := PI_RGT_0).
  unfold Rdiv. apply Rmult_integral_contrapositive_currified.
  - apply sin_pi_f_nz; assumption.
  - apply Rinv_neq_0_compat. apply Rmult_integral_contrapositive_currified; lra.
Qed.

Lemma sqrt_2pi_pos : 0 < sqrt (2 * PI).
Proof. apply sqrt_lt_R0. assert (Hpi := PI_RGT_0). lra. Qed.

Lemma kernel_true_nz s n sh k : s <> 0 -> (2 <= n)%nat -> (k < n)%nat ->
  kernel PI (sqrt (2 * PI)) cis_true s (freq n n sh k) <> 0.
Proof.
  intros Hs Hn Hk. unfold kernel, pp_kernel. numR.
  pose proof (sinc_true_nz _ (freq_range n sh k Hn Hk)) as Hsn.
  pose proof sqrt_2pi_pos as Hq.
  unfold Rdiv. repeat apply Rmult_integral_contrapositive_currified; try assumption.
  apply Rinv_neq_0_compat. lra.
Qed.

(* FourierTransformInverse (FourierTransform x) = x with the true constants *)
Theorem ft_roundtrip_true (g : list Raxis) (axes : list nat) (shifts : list bool) (sg : R) (x : list Cx) :
  sg = 1 \/ sg = -1 ->
  (forall ax, In ax axes -> (ax < length g)%nat /\ (2 <= a_n (nth ax g dax))%nat /\ stride (nth ax g dax) <> 0) ->
  length x = prodn (map a_n g) ->
  ft_inverse PI (sqrt (2 * PI)) cis_true (mk_ft g axes shifts (- sg) false) false
             (ft_forward PI (sqrt (2 * PI)) cis_true (mk_ft g axes shifts sg false) x) = x.
Proof.
  intros Hs Hax Hx.
  apply (ft_roundtrip cis_true cis_true_add cis_true_0 cis_true_2 cis_true_prim); try assumption.
  - intros ax Hin. destruct (Hax ax Hin) as [H1 [H2 _]]. split; [exact H1 | lia].
  - intros ax sh k Hin Hk a. destruct (Hax ax Hin) as [_ [H2 H3]].
    apply kernel_true_nz; assumption.
Qed.

Theorem dftn_roundtrip_true (shape axes : list nat) (sg : R) (x : list Cx) :
  sg = 1 \/ sg = -1 ->
  (forall ax, In ax axes -> (ax < length shape)%nat) -> length x = prodn shape ->
  dft_inverse cis_true (- sg) false shape axes (dft_forward cis_true sg false shape axes x) = x.
Proof.
  intros Hs Hax Hx.
  rewrite (dft_forward_unfold cis_true) by exact Hs.
  rewrite (dft_inverse_unfold cis_true) by (apply is_sign_opp; exact Hs).
  apply (idftn_dftn cis_true cis_true_add cis_true_0 cis_true_2 cis_true_prim); assumption.
Qed.
