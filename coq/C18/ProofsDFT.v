(* C18/ProofsDFT.v -- the naive DFT over an abstract commutative ring without zero
   divisors: Fourier inversion for every length n, from "w is a primitive n-th root
   of unity" alone (geometric sum + exchange of summation). *)
From Coq Require Import Arith Lia List Ring Setoid.
From Verif Require Import C18.Model.
Import ListNotations.

Section AbstractDFT.
Variable C : Type.
Variables (z0 z1 : C) (zadd zmul zsub : C -> C -> C) (zopp : C -> C).
Hypothesis Cring : ring_theory z0 z1 zadd zmul zsub zopp (@eq C).
Hypothesis integral : forall a b, zmul a b = z0 -> a = z0 \/ b = z0.
Add Ring Cr : Cring.

Notation "a + b" := (zadd a b).
Notation "a * b" := (zmul a b).
Notation "a - b" := (zsub a b).
Notation sum := (rsum z0 zadd).

Fixpoint pw (w : C) (k : nat) : C := match k with O => z1 | S k' => w * pw w k' end.

Lemma pw_add w a b : pw w (a + b)%nat = pw w a * pw w b.
Proof. induction a as [|a IH]; cbn [pw Nat.add]; [ring | rewrite IH; ring]. Qed.
Lemma pw_one k : pw z1 k = z1.
Proof. induction k as [|k IH]; cbn [pw]; [reflexivity | rewrite IH; ring]. Qed.
Lemma pw_mul_distr a b k : pw (a * b) k = pw a k * pw b k.
Proof. induction k as [|k IH]; cbn [pw]; [ring | rewrite IH; ring]. Qed.
Lemma pw_pw w a b : pw w (a * b)%nat = pw (pw w a) b.
Proof.
  induction b as [|b IH]; cbn [pw].
  - rewrite Nat.mul_0_r. reflexivity.
  - replace (a * S b)%nat with (a + a * b)%nat by lia. rewrite pw_add, IH. reflexivity.
Qed.

(* ---- finite sums ---- *)
Lemma sum_ext f g n : (forall i, (i < n)%nat -> f i = g i) -> sum f n = sum g n.
Proof.
  induction n as [|n IH]; intros H; cbn [rsum]; [reflexivity|].
  rewrite IH by (intros; apply H; lia). rewrite H by lia. reflexivity.
Qed.
Lemma sum_add f g n : sum (fun i => f i + g i) n = sum f n + sum g n.
Proof. induction n as [|n IH]; cbn [rsum]; [ring | rewrite IH; ring]. Qed.
Lemma sum_scal a f n : sum (fun i => a * f i) n = a * sum f n.
Proof. induction n as [|n IH]; cbn [rsum]; [ring | rewrite IH; ring]. Qed.
Lemma sum_scal_r a f n : sum (fun i => f i * a) n = sum f n * a.
Proof. induction n as [|n IH]; cbn [rsum]; [ring | rewrite IH; ring]. Qed.
Lemma sum_zero n : sum (fun _ => z0) n = z0.
Proof. induction n as [|n IH]; cbn [rsum]; [reflexivity | rewrite IH; ring]. Qed.
Lemma sum_swap (f : nat -> nat -> C) n m :
  sum (fun i => sum (fun j => f i j) m) n = sum (fun j => sum (fun i => f i j) n) m.
Proof.
  induction n as [|n IH]; cbn [rsum].
  - rewrite sum_zero. reflexivity.
  - rewrite IH, <- sum_add. reflexivity.
Qed.
Lemma sum_single f n l : (l < n)%nat -> (forall j, (j < n)%nat -> j <> l -> f j = z0) -> sum f n = f l.
Proof.
  induction n as [|n IH]; intros Hl H; [lia|]. cbn [rsum].
  destruct (Nat.eq_dec l n) as [->|Hne].
  - rewrite (sum_ext f (fun _ => z0)) by (intros; apply H; lia). rewrite sum_zero. ring.
  - rewrite IH by (try lia; intros; apply H; lia). rewrite (H n) by lia. ring.
Qed.

(* geometric sum *)
Lemma geom w n : (w - z1) * sum (fun k => pw w k) n = pw w n - z1.
Proof.
  induction n as [|n IH]; cbn [rsum pw]; [ring|].
  transitivity ((w - z1) * sum (fun k => pw w k) n + (w * pw w n - pw w n)); [ring|].
  rewrite IH. ring.
Qed.

(* the number n as a ring element *)
Definition nC (n : nat) : C := sum (fun _ => z1) n.

(* ---- roots of unity ---- *)
Variables (w wi : C) (n : nat).
Hypothesis w_wi : w * wi = z1.
Hypothesis w_n : pw w n = z1.
Hypothesis w_prim : forall d, (0 < d < n)%nat -> pw w d <> z1.

Lemma wi_n : pw wi n = z1.
Proof.
  assert (H : pw w n * pw wi n = z1) by (rewrite <- pw_mul_distr, w_wi; apply pw_one).
  rewrite w_n in H. rewrite <- H. ring.
Qed.
Lemma w_wi_pw k : pw w k * pw wi k = z1.
Proof. rewrite <- pw_mul_distr, w_wi. apply pw_one. Qed.
Lemma wi_prim d : (0 < d < n)%nat -> pw wi d <> z1.
Proof.
  intros Hd E. apply (w_prim d Hd). pose proof (w_wi_pw d) as H. rewrite E in H. rewrite <- H. ring.
Qed.

(* orthogonality of the characters *)
Lemma char_orth j l : (j < n)%nat -> (l < n)%nat ->
  sum (fun k => pw w (j * k) * pw wi (k * l)) n = if Nat.eq_dec j l then nC n else z0.
Proof.
  intros Hj Hl.
  set (z := pw w j * pw wi l).
  assert (Hz : forall k, pw w (j * k) * pw wi (k * l) = pw z k).
  { intros k. unfold z. rewrite pw_mul_distr, <- !pw_pw. rewrite (Nat.mul_comm l k). reflexivity. }
  rewrite (sum_ext _ (fun k => pw z k)) by (intros; apply Hz).
  destruct (Nat.eq_dec j l) as [->|Hne].
  - unfold z. rewrite w_wi_pw. unfold nC. apply sum_ext. intros; apply pw_one.
  - assert (Hzn : pw z n = z1).
    { unfold z. rewrite pw_mul_distr, <- !pw_pw, !(Nat.mul_comm _ n), !pw_pw, w_n, wi_n, !pw_one. ring. }
    assert (Hz1 : z - z1 <> z0).
    { intro E. assert (Ez : z = z1) by (transitivity ((z - z1) + z1); [ring | rewrite E; ring]).
      destruct (Nat.lt_ge_cases l j) as [Hlt|Hge].
      - apply (w_prim (j - l)); [lia|].
        assert (Hs : pw w j = pw w (j - l) * pw w l) by (rewrite <- pw_add; f_equal; lia).
        unfold z in Ez. rewrite Hs in Ez.
        rewrite <- Ez. transitivity (pw w (j - l) * (pw w l * pw wi l)); [rewrite w_wi_pw; ring | ring].
      - apply (wi_prim (l - j)); [lia|].
        assert (Hs : pw wi l = pw wi j * pw wi (l - j)) by (rewrite <- pw_add; f_equal; lia).
        unfold z in Ez. rewrite Hs in Ez.
        rewrite <- Ez. transitivity ((pw w j * pw wi j) * pw wi (l - j)); [rewrite w_wi_pw; ring | ring]. }
    pose proof (geom z n) as G. rewrite Hzn in G.
    replace (z1 - z1) with z0 in G by ring.
    destruct (integral _ _ G) as [E|E]; [contradiction | exact E].
Qed.

(* Fourier inversion, entry l: sum_k (sum_j x_j w^{jk}) wi^{kl} = n x_l *)
Lemma dft_inversion_entry (x : list C) l : length x = n -> (l < n)%nat ->
  sum (fun k => sum (fun j => nth j x z0 * pw w (j * k)) n * pw wi (k * l)) n = nC n * nth l x z0.
Proof.
  intros Hx Hl.
  rewrite (sum_ext _ (fun k => sum (fun j => nth j x z0 * (pw w (j * k) * pw wi (k * l))) n)).
  2:{ intros k _. rewrite <- sum_scal_r. apply sum_ext. intros; ring. }
  rewrite sum_swap.
  rewrite (sum_ext _ (fun j => nth j x z0 * (if Nat.eq_dec j l then nC n else z0))).
  2:{ intros j Hj. rewrite sum_scal. rewrite char_orth by assumption. reflexivity. }
  rewrite (sum_single _ n l Hl).
  - destruct (Nat.eq_dec l l); [ring | congruence].
  - intros j _ Hne. destruct (Nat.eq_dec j l); [congruence | ring].
Qed.

(* list form: the inverse transform with the inverse root and the factor 1/n recovers x *)
Variable ninv : C.
Hypothesis n_inv : ninv * nC n = z1.

Lemma dft_gen_length (tw : nat -> C) (x : list C) : length (dft_gen z0 zadd zmul tw x) = length x.
Proof. unfold dft_gen. rewrite map_length, seq_length. reflexivity. Qed.

Lemma dft_gen_nth (tw : nat -> C) (x : list C) k : (k < length x)%nat ->
  nth k (dft_gen z0 zadd zmul tw x) z0 = sum (fun j => nth j x z0 * tw (j * k)%nat) (length x).
Proof.
  intros Hk. unfold dft_gen.
  rewrite (nth_indep _ z0 ((fun k => sum (fun j => nth j x z0 * tw (j * k)%nat) (length x)) 0%nat))
    by (rewrite map_length, seq_length; exact Hk).
  rewrite (map_nth (fun k => sum (fun j => nth j x z0 * tw (j * k)%nat) (length x))).
  rewrite seq_nth by exact Hk. reflexivity.
Qed.

Theorem dft_inversion (x : list C) : length x = n ->
  map (fun a => ninv * a) (dft_gen z0 zadd zmul (pw wi) (dft_gen z0 zadd zmul (pw w) x)) = x.
Proof.
  intros Hx. apply (nth_ext _ _ z0 z0).
  - rewrite map_length, !dft_gen_length. reflexivity.
  - intros l Hl. rewrite map_length, !dft_gen_length in Hl.
    rewrite (nth_indep _ z0 ((fun a => ninv * a) z0)) by (rewrite map_length, !dft_gen_length; exact Hl).
    rewrite (map_nth (fun a => ninv * a)).
    rewrite dft_gen_nth by (rewrite dft_gen_length; exact Hl).
    rewrite dft_gen_length, Hx.
    rewrite (sum_ext _ (fun k => sum (fun j => nth j x z0 * pw w (j * k)) n * pw wi (k * l))).
    2:{ intros k Hk. rewrite dft_gen_nth by lia. rewrite Hx. reflexivity. }
    rewrite dft_inversion_entry by lia.
    transitivity ((ninv * nC n) * nth l x z0); [ring | rewrite n_inv; ring].
Qed.
End AbstractDFT.
