(* C18/Corr.v -- correspondence checkers (executed at Q by the shards). *)
From Coq Require Import ZArith QArith List Bool Arith.
From Verif Require Import Base.Num Base.Vec Base.Check Lib.Axis C18.Model C18.CisQ C18.ModelW C18.ModelH.
Import ListNotations.

(* np.pi as the exact rational of the double *)
Definition pif : Q := 884279719003555 # 281474976710656.

Definition axq := (Q * Q * nat)%type.
Definition mkax (t : axq) : @axis Q := mk_axis (fst (fst t)) (snd (fst t)) (snd t).
Definition gtol : Q := 1 # 10000000000000.        (* 1e-13, relative + absolute *)
Definition ax_close (impl : axq) (m : @axis Q) : bool :=
  Qclose gtol gtol (fst (fst impl)) (a_min m) && Qclose gtol gtol (snd (fst impl)) (a_max m)
  && Nat.eqb (snd impl) (a_n m).
Definition axs_close := all2 ax_close.

(* ---- reciprocal_grid and realspace_grid(reciprocal_grid(g)) ---- *)
Record case_rg := {
  g_grid : list axq; g_axes : list nat; g_shifts : list bool; g_hc : bool;
  g_out : list axq;                        (* reciprocal_grid(...) *)
  g_x0 : list Q; g_par : option bool;      (* halfcx_parity: Some true = 'odd' *)
  g_back : option (list axq) }.            (* realspace_grid(recip, x0, axes, hc, parity); None = ValueError *)

Definition check_rg (k : case_rg) : bool :=
  let g := map mkax (g_grid k) in
  let r := recip_grid pif g (g_axes k) (g_shifts k) (g_hc k) in
  axs_close (g_out k) r
  && (let ok := real_ok_from 0 r (g_axes k) (g_par k) in
      match g_back k with
      | None => negb ok
      | Some b => ok && axs_close b (real_grid pif r (g_x0 k) (g_axes k) (g_par k))
      end).

(* ---- complex arrays ---- *)
Definition cq := (Q * Q)%type.
Definition cclose (atol rtol : Q) (impl model : cq) : bool :=
  Qclose atol rtol (fst impl) (fst model) && Qclose atol rtol (snd impl) (snd model).
Definition cs_close (atol rtol : Q) := all2 (cclose atol rtol).
(* compare real parts only (implementation returns a real array) *)
Definition re_close (atol rtol : Q) (impl model : cq) : bool := Qclose atol rtol (fst impl) (fst model).

Definition sgq (s : Z) : Q := inject_Z s.

(* ---- DiscreteFourierTransform / Inverse (both back-ends) ---- *)
Inductive impl_out := IOk (r : list cq) | IValueErr | ITypeErr | IOtherErr.
(* variant switches measured on the current code (see Model.v) *)
Record variants := { v_ft_hc_needs_all_shifts : bool }.
Record case_dft := {
  d_shape : list nat; d_axes : list nat; d_sg : Z; d_hc : bool; d_inv : bool;
  d_defrange : bool;           (* range/domain of the frequency side built by the operator itself *)
  d_real : bool; d_pyfftw : bool; d_var : variants;
  d_x : list cq; d_out : impl_out; d_tol : Q }.
Definition check_dft (k : case_dft) : bool :=
  let st := match dft_init_status (d_shape k) (d_axes k) (d_hc k) (d_defrange k) with
            | SOk => SOk
            | e => e
            end in
  match st, d_out k with
  | SOk, IOk r =>
      if d_inv k
      then let m := dft_inverse cispiQ (sgq (d_sg k)) (d_hc k) (d_shape k) (d_axes k) (d_x k) in
           cs_close (d_tol k) (d_tol k) r (if d_real k then map cre m else m)
      else cs_close (d_tol k) (d_tol k) r
                    (dft_forward cispiQ (sgq (d_sg k)) (d_hc k) (d_shape k) (d_axes k) (d_x k))
  | SValueErr, IValueErr => true
  | _, _ => false
  end.

(* ---- FourierTransform / Inverse ---- *)
Record case_ft := {
  t_grid : list axq; t_axes : list nat; t_shifts : list bool; t_sg : Z; t_hc : bool;
  t_inv : bool; t_real : bool; t_pyfftw : bool; t_var : variants;
  t_x : list cq; t_out : impl_out; t_tol : Q }.
Definition check_ft (k : case_ft) : bool :=
  let g := map mkax (t_grid k) in
  let c := mk_ft g (t_axes k) (t_shifts k) (sgq (t_sg k)) (t_hc k) in
  (* sign of the forward direction: the inverse operator carries the opposite sign *)
  let fwd_plus := if t_inv k then (t_sg k =? -1)%Z else (t_sg k =? 1)%Z in
  let st := match ft_init_status (v_ft_hc_needs_all_shifts (t_var k)) g (t_axes k) (t_shifts k) (t_hc k) fwd_plus with
            | SOk => if t_inv k
                     then ft_inverse_status (t_real k) (t_hc k) (t_shifts k)
                     else ft_forward_status (t_pyfftw k) (t_real k) (t_hc k) (t_shifts k)
            | e => e
            end in
  match st, t_out k with
  | SOk, IOk r =>
      if t_inv k
      then cs_close (t_tol k) (t_tol k) r (ft_inverse piQ sq2piQ cispiQ c (t_real k) (t_x k))
      else cs_close (t_tol k) (t_tol k) r (ft_forward piQ sq2piQ cispiQ c (t_x k))
  | SValueErr, IValueErr => true
  | STypeErr, ITypeErr => true
  | SOtherErr, IOtherErr => true
  | _, _ => false
  end.

(* ---- dft_preprocess_data / dft_postprocess_data called directly on arrays of ones (1-d):
        every shift x parity x half-complex x sign x multiply/divide x nearest/linear ---- *)
Record case_fac := {
  p_ax : axq; p_sh : bool; p_half : bool; p_sg : Z; p_div : bool; p_lin : bool;
  p_pre : list cq;       (* dft_preprocess_data(ones(n), shift, sign) *)
  p_post : list cq }.    (* dft_postprocess_data(ones(rn), real_grid, recip_grid, shift, interp, sign, op) *)
Definition ptol : Q := 1 # 100000000000.
Definition check_fac (k : case_fac) : bool :=
  let a := mkax (p_ax k) in
  let n := a_n a in
  let rn := a_n (recip_axis 1 a (Some (p_sh k)) (p_half k)) in
  cs_close ptol ptol (p_pre k) (map (pre_fac cispiQ n (p_sh k) (sgq (p_sg k))) (seq 0 n))
  && cs_close ptol ptol (p_post k)
       (map ((if p_lin k then post_fac_lin else post_fac) piQ sq2piQ cispiQ a (p_sh k) (p_half k)
               (sgq (p_sg k)) (p_div k)) (seq 0 rn)).

(* ---- the Q instance of cispi against libm ---- *)
Record case_cis := { c_a : Q; c_cos : Q; c_sin : Q }.
Definition check_cis (k : case_cis) : bool :=
  cclose (1 # 10000000000000) 0 (c_cos k, c_sin k) (cispiQ (c_a k)).

(* ---- wavelet coefficient bookkeeping ---- *)
Definition slices_t := ((nat * nat) * list (list (nat * nat)))%type.
Record case_wshape := {
  w_per : bool; w_F : nat; w_axes : list nat; w_L : nat; w_shape : list nat;
  w_shapes : cshapes;          (* op._coeff_shapes *)
  w_slices : slices_t;         (* op._coeff_slices *)
  w_size : nat;                (* op.range.size *)
  w_recon : list nat;          (* pywt.waverecn(...).shape before the crop *)
  w_final : list nat }.        (* W.inverse(W(x)).shape *)

Definition nat_list_eqb := all2 Nat.eqb.
Definition shapes_eqb (a b : cshapes) : bool :=
  nat_list_eqb (fst a) (fst b) && all2 (all2 nat_list_eqb) (snd a) (snd b).
Definition pair_eqb (a b : nat * nat) := Nat.eqb (fst a) (fst b) && Nat.eqb (snd a) (snd b).
Definition slices_eqb (a b : slices_t) : bool :=
  pair_eqb (fst a) (fst b) && all2 (all2 pair_eqb) (snd a) (snd b).

(* per transformed axis: reconstruction length through all levels, then the crop *)
Definition recon_axis (per : bool) (F L n : nat) : option nat :=
  let ls := level_lens per F L n in
  waverec_len per F true (last ls n) (rev ls).
Definition check_wshape (k : case_wshape) : bool :=
  let s := wavedecn_shapes (w_per k) (w_F k) (w_axes k) (w_L k) (w_shape k) in
  Nat.even (w_F k)
  && shapes_eqb (w_shapes k) s
  && slices_eqb (w_slices k) (raveled_slices (w_shapes k))
  && Nat.eqb (w_size k) (coeff_size (w_shapes k))
  && forallb (fun ia =>
       let i := fst ia in let n := snd ia in
       if existsb (Nat.eqb i) (w_axes k) then
         match recon_axis (w_per k) (w_F k) (w_L k) n with
         | Some r => Nat.eqb r (nth i (w_recon k) 0%nat)
                     && match crop_rule r n with
                        | CropError => false
                        | c => Nat.eqb (crop_len r c) (nth i (w_final k) 0%nat)
                        end
         | None => false
         end
       else Nat.eqb n (nth i (w_recon k) 0%nat) && Nat.eqb n (nth i (w_final k) 0%nat))
     (combine (seq 0 (length (w_shape k))) (w_shape k)).

Definition qarr := (list nat * list Q)%type.
Record case_wflat := {
  v_coeffs : (qarr * list (list qarr));   (* pywt.wavedecn(x), keys sorted *)
  v_flat : list Q;                        (* W(x) *)
  v_shapes : cshapes;                     (* op._coeff_shapes *)
  v_unflat : (qarr * list (list qarr)) }. (* pywt.unravel_coeffs(W(x), op._coeff_slices, op._coeff_shapes) *)
Definition qs_eqb := all2 Qeq_bool.
Definition arr_eqb (a b : qarr) := nat_list_eqb (fst a) (fst b) && qs_eqb (snd a) (snd b).
Definition coeffs_eqb (a b : qarr * list (list qarr)) :=
  arr_eqb (fst a) (fst b) && all2 (all2 arr_eqb) (snd a) (snd b).
Definition check_wflat (k : case_wflat) : bool :=
  qs_eqb (v_flat k) (flatten (v_coeffs k))
  && shapes_eqb (v_shapes k) (shapes_of (v_coeffs k))
  && coeffs_eqb (v_unflat k) (unflatten (v_shapes k) (v_flat k)).

(* ---- Haar / periodization numerics against WaveletTransform('haar', pad_mode='pywt_periodic') ---- *)
Definition r2Q : Q := 6369051672525773 # 4503599627370496.     (* the double nearest to sqrt 2 *)
Record case_haar := { h_L : nat; h_x : list Q; h_fwd : list Q;      (* W(x) *)
                      h_c : list Q; h_inv : list Q }.                (* W.inverse(c) *)
Definition htol : Q := 1 # 1000000000000.
Definition check_haar (k : case_haar) : bool :=
  Qsclose htol htol (h_fwd k) (haar r2Q (h_L k) (h_x k))
  && Qsclose htol htol (h_inv k) (ihaar r2Q (h_L k) (length (h_x k)) (h_c k)).

(* ---- N-d Haar over a subset of the axes, anisotropic cell sides: values of W, and the adjoint
        identity / right-inverse property of what W.adjoint and W.inverse RETURN, evaluated with
        the model's W and the model's full-cell-volume inner product ---- *)
Record case_haarnd := {
  n_L : nat; n_shape : list nat; n_axes : list nat; n_sides : list Q;
  n_x : list Q; n_fwd : list Q;          (* W(x) *)
  n_xs : list (list Q);                  (* further domain elements *)
  n_c : list Q;                          (* a coefficient vector *)
  n_adj : list Q;                        (* W.adjoint(c) *)
  n_inv : list Q;                        (* W.inverse(c) *)
  n_iadj : list Q }.                     (* W.inverse.adjoint(x) *)
Definition check_haarnd (k : case_haarnd) : bool :=
  let W := haar_nd r2Q (n_L k) (n_shape k) (n_axes k) in
  let sides := n_sides k in
  Qsclose htol htol (n_fwd k) (W (n_x k))
  (* <W x', c>_coeff = <x', W.adjoint c>_dom for x' = x and the extra elements *)
  && forallb (fun x' => Qclose htol htol (inner_dom sides x' (n_adj k)) (dot (W x') (n_c k)))
             (n_x k :: n_xs k)
  (* W (W.inverse c) = c, and W.inverse c is the model's inverse *)
  && Qsclose htol htol (n_c k) (W (n_inv k))
  && Qsclose htol htol (n_inv k) (ihaar_nd r2Q (n_L k) (n_shape k) (n_axes k) (n_c k))
  (* <W.inverse c, x>_dom = <c, W.inverse.adjoint x>_coeff *)
  && Qclose htol htol (dot (n_c k) (n_iadj k)) (inner_dom sides (n_inv k) (n_x k)).
