(* C17/Props.v -- property theorems only (closed by [exact] of a lemma from
   C17/Proofs.v / C17/ArrProofs.v) followed by Print Assumptions. *)
From Coq Require Import ZArith QArith List Bool Arith.
From Verif Require Import Base.Num Lib.Axis C17.Arr C17.Model C17.Proofs.
Import ListNotations.

(* Wrapping an array of matching dtype and shape shares memory with it and
   asarray() round-trips: space.element(arr) is an element whose data buffer IS
   arr's buffer (no new buffer is allocated, the store is unchanged). *)
Theorem wrap_shares_memory :
  forall (T : Type) (cast : dt -> dt -> T -> T)
         (st : @store T) (sp : tspace) (id : nat),
  shape_eqb (a_shape (rd st id)) (ts_shape sp) = true ->
  dt_eqb (a_dt (rd st id)) (ts_dt sp) = true ->
  t_element cast st sp (OpArr id) = Ok (OpTens sp id, st)
  /\ asarray (OpTens sp id : @operand T) = Some id.
Proof. exact @element_shares. Qed.
Print Assumptions wrap_shares_memory.
