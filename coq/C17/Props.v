(* C17/Props.v -- property theorems only (closed by [exact] of a lemma from
   C17/Proofs.v, C17/ProofsDisc.v or C17/ArrProofs.v) + Print Assumptions.

   Reading guide.  [tens_ufunc]/[disc_ufunc] (C17/Model.v) model
   NumpyTensor.__array_ufunc__ / DiscretizedSpaceElement.__array_ufunc__ over a
   store of buffers; [raw_ufunc] is "the same ufunc method called on the
   underlying arrays".  NumPy itself is the parameter [NP] : ANY function from a
   request (method, keyword options, input arrays/scalars, out descriptors) to
   an error or a list of result arrays; [T] (the number type) and [cast] (dtype
   conversion) are arbitrary too.  So every theorem below holds for every
   ufunc, method, dtype, shape, operand mix and keyword option at once.
   [map_opt tens_unwrap ins = Some rins] says: the operands are NumpyTensors,
   ndarrays or scalars in any order, and [rins] are their underlying
   buffers/scalars in the same order. *)
From Coq Require Import ZArith QArith List Bool Arith.
From Coq Require Import Reals.
From Verif Require Import Base.Num Base.Vec Lib.Axis C17.Arr C17.Model C17.Proofs C17.ProofsDisc C17.Corr C17.Refuted C17.ArrProofs.
Import ListNotations.

(* Wrapping an array of matching dtype and shape shares memory with it and
   asarray() round-trips: space.element(arr) is an element whose data buffer IS
   arr's buffer (no new buffer, store unchanged). *)
Theorem wrap_shares_memory :
  forall (T : Type) (cast : dt -> dt -> T -> T) (st : @store T) (sp : tspace) (id : nat),
  shape_eqb (a_shape (rd st id)) (ts_shape sp) = true ->
  dt_eqb (a_dt (rd st id)) (ts_dt sp) = true ->
  t_element cast st sp (OpArr id) = Ok (OpTens sp id, st)
  /\ asarray (OpTens sp id : @operand T) = Some id.
Proof. exact @element_shares. Qed.
Print Assumptions wrap_shares_memory.

(* The layout precondition, explicit: with order=None a writeable array of
   matching dtype and shape is shared whatever its memory layout (C, Fortran,
   transposed, strided, negative strides); ... *)
Theorem wrap_shares_memory_any_layout :
  forall (T : Type) (cast : dt -> dt -> T -> T) (st : @store T) (sp : tspace) (id : nat) (l : layout),
  shape_eqb (a_shape (rd st id)) (ts_shape sp) = true ->
  dt_eqb (a_dt (rd st id)) (ts_dt sp) = true ->
  t_element_lay cast st sp id true l None = Ok (OpTens sp id, st).
Proof. exact @element_shares_any_layout. Qed.
(* ... in every other case (dtype differs, read-only array, or an explicit
   order= the array does not already have) the element lives in a fresh
   converted copy and no existing buffer is touched. *)
Theorem wrap_copies_otherwise :
  forall (T : Type) (cast : dt -> dt -> T -> T) (st : @store T) (sp : tspace) (id : nat)
         (w : bool) (l : layout) (o : option order),
  shape_eqb (a_shape (rd st id)) (ts_shape sp) = true ->
  dt_eqb (a_dt (rd st id)) (ts_dt sp) && w && layout_ok o l = false ->
  t_element_lay cast st sp id w l o
  = Ok (OpTens sp (length st), st ++ [cast_arr cast (ts_dt sp) (rd st id)]).
Proof. exact @element_copies_otherwise. Qed.
Print Assumptions wrap_shares_memory_any_layout.

(* np.<ufunc>(x, ...) without out, NumpyTensor operands mixed with arrays and
   scalars in any order (1 or 2 outputs).  SOUND: whenever ODL returns, NumPy on
   the underlying arrays returns too, leaves the identical store (same numbers,
   nothing else touched) and each returned element is a NumpyTensor over the
   very buffer NumPy produced, in a space with that buffer's shape and dtype. *)
Theorem tensor_call_transparent :
  forall (T : Type) (cast : dt -> dt -> T -> T) (V : variant) (NP : @npsem T) (st : @store T) (sp : tspace)
         (nout : nat) (ins : list (@operand T)) (kw : kwargs) (rins : list (@rop T))
         (rets : list (@operand T)) (st' : @store T),
  map_opt tens_unwrap ins = Some rins ->
  tens_ufunc cast V NP st sp nout MCall ins kw [] = Ok (rets, st') ->
  exists rrets,
    raw_ufunc cast NP st MCall kw rins (repeat None nout) = Ok (rrets, st')
    /\ Forall2 (fun r rr => exists spc id, r = OpTens spc id /\ rr = RRBuf id
                  /\ ts_shape spc = a_shape (rd st' id) /\ ts_dt spc = a_dt (rd st' id))
               rets rrets.
Proof. exact @tens_call_sound. Qed.
Print Assumptions tensor_call_transparent.

(* The converse direction of the FULL property,
     "whenever NumPy succeeds on the underlying arrays, so does the ODL call",
   is FALSE of the faithful model (findings tensor-call-broadcast-grow and
   tensor-dtype-kw-array-weighting; see Refuted.v); what holds is: COMPLETE
   under exactly the two guards the code imposes -- every result has the shape
   of self's space, and the result space can be constructed (an array weighting
   must be safely castable to the result dtype). *)
Theorem tensor_call_complete_partial :
  forall (T : Type) (cast : dt -> dt -> T -> T) (V : variant) (NP : @npsem T) (st : @store T) (sp : tspace)
         (nout : nat) (ins : list (@operand T)) (kw : kwargs) (rins : list (@rop T))
         (rrets : list (@rret T)) (st' : @store T),
  v_grow V = false ->
  map_opt tens_unwrap ins = Some rins ->
  (nout = 1 \/ nout = 2)%nat ->
  raw_ufunc cast NP st MCall kw rins (repeat None nout) = Ok (rrets, st') ->
  Forall (fun rr => exists id, rr = RRBuf id /\ a_shape (rd st' id) = ts_shape sp
                     /\ ts_valid (call_space sp nout (rd st' id)) = true) rrets ->
  exists rets, tens_ufunc cast V NP st sp nout MCall ins kw [] = Ok (rets, st').
Proof. exact @tens_call_complete. Qed.
Print Assumptions tensor_call_complete_partial.

(* With the proposed repair (variant v_grow: result space built from the shape
   of the result) the shape guard disappears for one-output ufuncs: complete
   whenever NumPy succeeds with array results whose space can be built. *)
Theorem tensor_call_complete_repaired :
  forall (T : Type) (cast : dt -> dt -> T -> T) (V : variant) (NP : @npsem T) (st : @store T) (sp : tspace)
         (ins : list (@operand T)) (kw : kwargs) (rins : list (@rop T))
         (rrets : list (@rret T)) (st' : @store T),
  v_grow V = true ->
  map_opt tens_unwrap ins = Some rins ->
  raw_ufunc cast NP st MCall kw rins [None] = Ok (rrets, st') ->
  Forall (fun rr => exists id, rr = RRBuf id /\ ts_valid (meth_space sp (rd st' id)) = true) rrets ->
  exists rets, tens_ufunc cast V NP st sp 1 MCall ins kw [] = Ok (rets, st').
Proof. exact @tens_call_complete_repaired. Qed.
Print Assumptions tensor_call_complete_repaired.

(* reduce / accumulate / outer / at / reduceat without out: SOUND -- same store
   as NumPy; a scalar result is returned as that scalar, None (at) as None, an
   array result as a NumpyTensor over NumPy's buffer with its shape and dtype. *)
Theorem tensor_method_transparent :
  forall (T : Type) (cast : dt -> dt -> T -> T) (V : variant) (NP : @npsem T) (st : @store T) (sp : tspace)
         (nout : nat) (m : meth) (ins : list (@operand T)) (kw : kwargs) (rins : list (@rop T))
         (rets : list (@operand T)) (st' : @store T),
  is_call m = false ->
  map_opt tens_unwrap ins = Some rins ->
  tens_ufunc cast V NP st sp nout m ins kw [] = Ok (rets, st') ->
  exists rr,
    raw_ufunc cast NP st m kw rins (if is_at m then [] else [None]) = Ok ([rr], st')
    /\ exists r, rets = [r] /\
       match rr with
       | RRScal v => r = OpScal v
       | RRNone => r = OpNone
       | RRBuf id => exists spc, r = OpTens spc id
                      /\ ts_shape spc = a_shape (rd st' id) /\ ts_dt spc = a_dt (rd st' id)
       end.
Proof. exact @tens_meth_sound. Qed.
Print Assumptions tensor_method_transparent.

(* ... and COMPLETE for these methods whenever the result space can be built
   (only an array weighting that cannot be cast to the result dtype prevents it). *)
Theorem tensor_method_complete_partial :
  forall (T : Type) (cast : dt -> dt -> T -> T) (V : variant) (NP : @npsem T) (st : @store T) (sp : tspace)
         (nout : nat) (m : meth) (ins : list (@operand T)) (kw : kwargs) (rins : list (@rop T))
         (rr : @rret T) (st' : @store T),
  is_call m = false ->
  map_opt tens_unwrap ins = Some rins ->
  raw_ufunc cast NP st m kw rins (if is_at m then [] else [None]) = Ok ([rr], st') ->
  (forall id, rr = RRBuf id -> ts_valid (meth_space sp (rd st' id)) = true) ->
  exists r, tens_ufunc cast V NP st sp nout m ins kw [] = Ok ([r], st').
Proof. exact @tens_meth_complete. Qed.
Print Assumptions tensor_method_complete_partial.

(* out= given as a NumpyTensor or an ndarray (any method but at, no dtype=
   keyword): ODL returns exactly the given container, and the final store is
   exactly the one NumPy leaves when writing into that container's buffer --
   in both directions (ODL succeeds iff NumPy does). *)
Theorem tensor_out_written_and_returned :
  forall (T : Type) (cast : dt -> dt -> T -> T) (V : variant) (NP : @npsem T) (st : @store T) (sp : tspace)
         (m : meth) (ins : list (@operand T)) (kw : kwargs) (rins : list (@rop T))
         (o : @operand T) (id : nat) (rets : list (@operand T)) (st' : @store T),
  (forall q rs, NP q = Ok rs -> length rs = 1%nat) ->
  is_at m = false -> kw_dtype kw = None ->
  tens_valid_out (Some o) = true -> op_buf o = Some id ->
  map_opt tens_unwrap ins = Some rins ->
  tens_ufunc cast V NP st sp 1 m ins kw [Some o] = Ok (rets, st') ->
  rets = [o] /\ raw_ufunc cast NP st m kw rins [Some id] = Ok ([RRBuf id], st').
Proof. exact @tens_out_sound. Qed.
Print Assumptions tensor_out_written_and_returned.

Theorem tensor_out_complete :
  forall (T : Type) (cast : dt -> dt -> T -> T) (V : variant) (NP : @npsem T) (st : @store T) (sp : tspace)
         (m : meth) (ins : list (@operand T)) (kw : kwargs) (rins : list (@rop T))
         (o : @operand T) (id : nat) (rrets : list (@rret T)) (st' : @store T),
  (forall q rs, NP q = Ok rs -> length rs = 1%nat) ->
  is_at m = false -> kw_dtype kw = None ->
  tens_valid_out (Some o) = true -> op_buf o = Some id ->
  map_opt tens_unwrap ins = Some rins ->
  raw_ufunc cast NP st m kw rins [Some id] = Ok (rrets, st') ->
  tens_ufunc cast V NP st sp 1 m ins kw [Some o] = Ok ([o], st').
Proof. exact @tens_out_complete. Qed.
Print Assumptions tensor_out_complete.

(* out= together with dtype=d where the out buffer has ANOTHER dtype (the
   write-back path of odl.util.writable_array: converted temporary copy,
   NumPy writes into the copy, the copy is assigned back).  Under the facts
   about NumPy that the dtype= keyword fixes the computation (the result [r]
   does not depend on the dtype of out, and has dtype d), that the result has
   out's shape, that d -> out dtype is an admissible 'same_kind' cast and that
   d -> d converts nothing: the ODL call returns the given container, its
   buffer ends with exactly the data and dtype NumPy leaves when called
   directly with out = that buffer, and no other initial buffer changes on
   either side.  (Without the same_kind premise ODL still writes where NumPy
   refuses -- reported as a discrepancy outside the property.) *)
Theorem tensor_out_with_dtype_keyword :
  forall (T : Type) (cast : dt -> dt -> T -> T) (V : variant) (NP : @npsem T) (st : @store T)
         (m : meth) (kw : kwargs) (rins : list (@rop T)) (id : nat) (d : dt) (r : @narr T),
  is_at m = false -> (id < length st)%nat ->
  Forall (fun x => match x with RopBuf i => (i < length st)%nat | RopScal _ => True end) rins ->
  (forall odt, NP (mkReq m kw (map (raw_in st) rins) [Some (odt, a_shape (rd st id))]) = Ok [r]) ->
  a_dt r = d ->
  shape_eqb (a_shape r) (a_shape (rd st id)) = true ->
  can_cast d (a_dt (rd st id)) = true ->
  forall (sp : tspace) (ins : list (@operand T)) (o : @operand T),
  kw_dtype kw = Some d ->
  tens_valid_out (Some o) = true -> op_buf o = Some id ->
  dt_eqb d (a_dt (rd st id)) = false ->
  map_opt tens_unwrap ins = Some rins ->
  (forall v, cast d d v = v) ->
  exists st' str,
    tens_ufunc cast V NP st sp 1 m ins kw [Some o] = Ok ([o], st')
    /\ raw_ufunc cast NP st m kw rins [Some id] = Ok ([RRBuf id], str)
    /\ a_data (rd st' id) = a_data (rd str id) /\ a_dt (rd st' id) = a_dt (rd str id)
    /\ forall j, (j < length st)%nat -> j <> id -> rd st' j = rd st j /\ rd str j = rd st j.
Proof. exact @tens_out_dtype_kw. Qed.
Print Assumptions tensor_out_with_dtype_keyword.

(* "and changes nothing else": a raw ufunc call changes no buffer other than
   the given out buffers (and, for at, its first operand); together with the
   store equalities above this is the frame property of the ODL call. *)
Theorem ufunc_changes_only_out :
  forall (T : Type) (cast : dt -> dt -> T -> T) (NP : @npsem T) (st : @store T) (m : meth)
         (kw : kwargs) (ins : list (@rop T)) (outs : list (option nat))
         (l : list (@rret T)) (st' : @store T),
  raw_ufunc cast NP st m kw ins outs = Ok (l, st') ->
  forall j, (j < length st)%nat ->
    ~ In j (flat_map (fun o => match o with Some i => [i] | None => [] end) outs) ->
    (is_at m = true -> match ins with RopBuf a :: _ => j <> a | _ => True end) ->
    rd st' j = rd st j.
Proof. exact @raw_frame. Qed.
Print Assumptions ufunc_changes_only_out.

(* ------------------------------------------------------------------------
   FULL STATEMENT (kept visible; FALSE of the faithful model):
     forall NP st sp ins kw rins l st',
       map_opt tens_unwrap ins = Some rins ->
       raw_ufunc cast NP st MCall kw rins [None] = Ok (l, st') ->
       exists rets, tens_ufunc cast V NP st sp 1 MCall ins kw [] = Ok (rets, st').
   Refuted by np.add(x, np.ones((2, 3))) with x in rn(3), evaluated with the
   exact semantics of np.add (finding tensor-call-broadcast-grow); the provable
   restriction is tensor_call_complete_partial above. *)
Theorem tensor_call_complete_refuted :
  exists (NP : @npsem Q) st sp ins kw rins l st',
    map_opt tens_unwrap ins = Some rins
    /\ raw_ufunc castQ NP st MCall kw rins [None] = Ok (l, st')
    /\ tens_ufunc castQ as_found NP st sp 1 MCall ins kw [] = Err EValue.
Proof. exact call_complete_refuted. Qed.

(* np.negative(x, dtype='float32'), x in rn(3, weighting=[1,2,3]): NumPy returns,
   ODL raises ValueError (finding tensor-dtype-kw-array-weighting) *)
Theorem tensor_dtype_kw_array_weighting_refuted :
  exists l st', raw_ufunc castQ NPneg32 st_grow MCall kw32 [RopBuf 0] [None] = Ok (l, st')
  /\ tens_ufunc castQ as_found NPneg32 st_grow rn3w 1 MCall [OpTens rn3w 0] kw32 [] = Err EValue.
Proof. exact dtype_kw_array_weighting_refuted. Qed.

(* ---------------- discretized elements ---------------- *)
(* np.<ufunc>(x, ...) on DiscretizedSpaceElements mixed with arrays, scalars,
   tensors, without out (or out=(None,..)): same store as NumPy on the underlying
   arrays; each result is a DiscretizedSpaceElement with the PARTITION OF SELF
   over NumPy's buffer, with matching shape and dtype. *)
Theorem discr_call_transparent :
  forall (T : Type) (cast : dt -> dt -> T -> T) (V : variant) (NP : @npsem T) (st : @store T) (ds : dspace)
         (nout k : nat) (ins : list (@operand T)) (kw : kwargs) (rins : list (@rop T))
         (rets : list (@operand T)) (st' : @store T),
  (k = 0 \/ k = nout)%nat ->
  map_opt tens_unwrap (map to_tensor ins) = Some rins ->
  disc_ufunc cast V NP st ds nout MCall ins kw (repeat None k) = Ok (rets, st') ->
  exists rrets,
    raw_ufunc cast NP st MCall (kw_drop_keepdims kw) rins (repeat None nout) = Ok (rrets, st')
    /\ Forall2 (fun r rr => exists rs id, r = OpDisc rs id /\ rr = RRBuf id
                  /\ ds_axes rs = ds_axes ds
                  /\ ts_shape (ds_ts rs) = a_shape (rd st' id) /\ ts_dt (ds_ts rs) = a_dt (rd st' id)
                  /\ map ax_n (ds_axes ds) = a_shape (rd st' id))
               rets rrets.
Proof. exact @disc_call_sound. Qed.
Print Assumptions discr_call_transparent.

(* out= on discretized elements, given as a DiscretizedSpaceElement, a
   NumpyTensor or an ndarray (__call__, reduce, accumulate, outer; no dtype=):
   the GIVEN container itself is returned (the element, not its tensor) and the
   final store is exactly the one NumPy leaves when writing into its buffer. *)
Theorem discr_out_written_and_returned :
  forall (T : Type) (cast : dt -> dt -> T -> T) (V : variant) (NP : @npsem T) (st : @store T) (ds : dspace)
         (m : meth) (ins : list (@operand T)) (kw : kwargs) (rins : list (@rop T))
         (o : @operand T) (id : nat) (rets : list (@operand T)) (st' : @store T),
  (forall q rs, NP q = Ok rs -> length rs = 1%nat) ->
  is_at m = false -> kw_dtype kw = None ->
  disc_valid_out (Some o) = true -> op_buf o = Some id ->
  map_opt tens_unwrap (map to_tensor ins) = Some rins ->
  disc_ufunc cast V NP st ds 1 m ins kw [Some o] = Ok (rets, st') ->
  rets = [o]
  /\ raw_ufunc cast NP st m (kw_drop_keepdims kw) rins [Some id] = Ok ([RRBuf id], st').
Proof. exact @disc_out_sound. Qed.
Print Assumptions discr_out_written_and_returned.

(* reduce / accumulate / outer / at on discretized elements without out: NumPy
   on the underlying arrays returns too; scalars and None are passed through
   (same store); an array result is a DiscretizedSpaceElement over NumPy's
   buffer with its dtype, whose partition is self's (accumulate) resp. self's
   restricted to the axes the code keeps (reduce).  Its shape is the buffer's
   shape -- except that for reduce k unit axes may have been prepended
   (np.array(..., ndmin=ndim) inside space.element); k = 0 means the final
   store IS NumPy's store, and in every case at most the shape attribute of
   that one buffer differs (same dtype, same numbers).  k > 0 needs NumPy
   to return a lower rank than the kept axes, which reduce never does. *)
Theorem discr_method_transparent :
  forall (T : Type) (cast : dt -> dt -> T -> T) (V : variant) (NP : @npsem T) (st : @store T) (ds : dspace)
         (nout : nat) (m : meth) (ins : list (@operand T)) (kw : kwargs) (rins : list (@rop T))
         (outs : list (option (@operand T))) (rets : list (@operand T)) (st' : @store T),
  is_call m = false ->
  (outs = [] \/ outs = [None]) ->
  map_opt tens_unwrap (map to_tensor ins) = Some rins ->
  disc_ufunc cast V NP st ds nout m ins kw outs = Ok (rets, st') ->
  exists rr st_raw,
    raw_ufunc cast NP st m (kw_drop_keepdims kw) rins (if is_at m then [] else [None]) = Ok ([rr], st_raw)
    /\ (st' = st_raw \/
        exists id shp, st' = wr st_raw id (mkArr (a_dt (rd st_raw id)) shp (a_data (rd st_raw id))))
    /\ exists r, rets = [r] /\
       match rr with
       | RRScal v => r = OpScal v /\ st' = st_raw
       | RRNone => r = OpNone /\ st' = st_raw
       | RRBuf id =>
           exists rs k, r = OpDisc rs id
             /\ ts_dt (ds_ts rs) = a_dt (rd st_raw id)
             /\ ts_shape (ds_ts rs) = repeat 1%nat k ++ a_shape (rd st_raw id)
             /\ (m <> MReduce -> k = 0%nat) /\ (k = 0%nat -> st' = st_raw)
             /\ (m = MAccumulate -> ds_axes rs = ds_axes ds)
             /\ (m = MReduce -> ds_axes rs = pick dummy_ax (ds_axes ds) (kept_axes (ndim ds) (kw_axis kw)))
       end.
Proof. exact @disc_meth_sound. Qed.
Print Assumptions discr_method_transparent.

(* Which axes remain after reduce (live since /repo commit ca9a353, which
   normalises negative axes): for every rank and EVERY axis NumPy accepts --
   int or tuple, negative ones included, or absent -- the code keeps exactly
   the axes NumPy keeps (those not reduced, in order). *)
Theorem discr_reduce_kept_axes_int :
  forall (nd : nat) (z : Z), (- Z.of_nat nd <= z)%Z ->
  kept_axes nd (AxInt z) =
  filter (fun i => negb (existsb (Nat.eqb i)
            [Z.to_nat (if (z <? 0)%Z then z + Z.of_nat nd else z)%Z])) (seq 0 nd).
Proof. exact kept_axes_int_all. Qed.
Theorem discr_reduce_kept_axes_tuple :
  forall (nd : nat) (l : list Z), Forall (fun z => (- Z.of_nat nd <= z)%Z) l ->
  kept_axes nd (AxTuple l) =
  filter (fun i => negb (existsb (Nat.eqb i)
            (map (fun z => Z.to_nat (if (z <? 0)%Z then z + Z.of_nat nd else z)%Z) l))) (seq 0 nd).
Proof. exact kept_axes_tuple_all. Qed.
Theorem discr_reduce_kept_axes_absent :
  forall (nd : nat),
  kept_axes nd AxAbsent = filter (fun i => negb (existsb (Nat.eqb i) [0%nat])) (seq 0 nd).
Proof. exact kept_axes_absent. Qed.
Print Assumptions discr_reduce_kept_axes_tuple.

(* ------------------------------------------------------------------------
   Laws of the ufunc methods themselves (exact semantics C17/Arr.v, validated
   against NumPy by the raw half of every correspondence case), for EVERY
   shape outer x n x inner (i.e. every rank and every axis), every length. *)

(* shape laws *)
Theorem reduce_removes_axis :
  forall (T : Type) (NT : Num T) (o : bop) (outer n inner : nat) (d r : list T),
  length d = (outer * (n * inner))%nat ->
  reduce_ax o outer n inner d = Some r -> length r = (outer * inner)%nat.
Proof. exact @reduce_ax_length. Qed.
Print Assumptions reduce_removes_axis.

Theorem accumulate_keeps_shape :
  forall (T : Type) (NT : Num T) (o : bop) (outer n inner : nat) (d : list T),
  length d = (outer * (n * inner))%nat ->
  length (accumulate_ax o outer n inner d) = (outer * (n * inner))%nat.
Proof. exact @accumulate_ax_length. Qed.
Print Assumptions accumulate_keeps_shape.

Theorem outer_shape_and_entries :
  forall (T : Type) (NT : Num T) (o : bop) (x y : list T),
  length (outer o x y) = (length x * length y)%nat
  /\ forall d i j, (i < length x)%nat -> (j < length y)%nat ->
       nth (i * length y + j) (outer o x y) d = bop_ev o (nth i x d) (nth j y d).
Proof. exact @outer_shape_entries. Qed.
Print Assumptions outer_shape_and_entries.

Theorem reduceat_one_row_per_index :
  forall (T : Type) (NT : Num T) (o : bop) (rs : list (list T)) (idx : list nat),
  length (reduceat_rows o rs idx) = length idx.
Proof. exact @reduceat_rows_length. Qed.

(* accumulate's entry j along the axis is reduce of entries 0..j; its LAST
   entry is reduce of the whole axis (every n >= 1, any row length, any ufunc) *)
Theorem accumulate_prefix_is_reduce :
  forall (T : Type) (NT : Num T) (o : bop) (inner : nat) (rs : list (list T)) (j : nat),
  (j < length rs)%nat ->
  Some (nth j (acc_rows o rs) []) = red_rows o inner (firstn (S j) rs).
Proof. exact @acc_rows_nth. Qed.
Theorem accumulate_last_is_reduce :
  forall (T : Type) (NT : Num T) (o : bop) (inner : nat) (rs : list (list T)),
  rs <> [] -> Some (last (acc_rows o rs) []) = red_rows o inner rs.
Proof. exact @acc_rows_last. Qed.
Print Assumptions accumulate_last_is_reduce.

(* reduceat with the single index 0 is reduce *)
Theorem reduceat_zero_is_reduce :
  forall (T : Type) (NT : Num T) (o : bop) (inner : nat) (rs : list (list T)),
  rs <> [] -> Some (nth 0 (reduceat_rows o rs [0%nat]) []) = red_rows o inner rs.
Proof. exact @reduceat_rows_zero. Qed.

(* ufunc.at: length kept, untouched entries untouched, equal to the buffered
   fancy-index assignment when the indices are distinct ... *)
Theorem at_frame :
  forall (T : Type) (NT : Num T) (o : bop) (a : list T) (ivs : list (nat * T)),
  length (at2 o a ivs) = length a
  /\ forall j d, ~ In j (map fst ivs) -> nth j (at2 o a ivs) d = nth j a d.
Proof. exact @at2_length_frame. Qed.
Theorem at_equals_fancy_when_distinct :
  forall (T : Type) (NT : Num T) (o : bop) (a : list T) (ivs : list (nat * T)),
  NoDup (map fst ivs) -> Forall (fun iv => (fst iv < length a)%nat) ivs ->
  forall j, nth j (at2 o a ivs) nzero = nth j (fancy2 o a ivs) nzero.
Proof. exact @at2_fancy2_nodup. Qed.
Print Assumptions at_equals_fancy_when_distinct.

(* ... and np.add.at ACCUMULATES over repeated indices (any list, any
   repetitions), which the buffered assignment does not *)
Theorem add_at_accumulates_repeated :
  forall (a : list R) (ivs : list (nat * R)) (j : nat),
  (j < length a)%nat ->
  nth j (at2 BAdd a ivs) 0%R = (nth j a 0 + sum_at j ivs)%R.
Proof. exact at2_add_accumulates. Qed.
Print Assumptions add_at_accumulates_repeated.
Theorem at_differs_from_fancy_when_repeated :
  nth 0 (at2 BAdd [0%R] [(0%nat, 1%R); (0%nat, 1%R)]) 0%R = 2%R /\
  nth 0 (fancy2 BAdd [0%R] [(0%nat, 1%R); (0%nat, 1%R)]) 0%R = 1%R.
Proof. exact at_vs_fancy_repeated. Qed.

(* add.reduce along any axis of any array preserves the total; the sum of
   multiply.outer is the product of the sums *)
Theorem add_reduce_preserves_total :
  forall (outer n inner : nat) (d r : list R),
  length d = (outer * (n * inner))%nat ->
  reduce_ax BAdd outer n inner d = Some r -> sumf r = sumf d.
Proof. exact reduce_add_preserves_sum. Qed.
Print Assumptions add_reduce_preserves_total.
Theorem multiply_outer_total :
  forall (x y : list R), sumf (outer BMul x y) = (sumf x * sumf y)%R.
Proof. exact outer_mul_sum. Qed.
Print Assumptions multiply_outer_total.

(* reduce on ARRAY-weighted discretized spaces: NumPy returns, ODL raises
   (finding discr-reduce-array-weighting; not touched by the proposed repairs) *)
Theorem discr_reduce_array_weighting_refuted :
  (exists l st', raw_ufunc castQ NPadd st_d MReduce kwa0 [RopBuf 0] [None] = Ok (l, st')
                 /\ a_data (rd st' 1) = [3; 5; 7]%Q)
  /\ disc_ufunc castQ as_found NPadd st_d d23w 1 MReduce [OpDisc d23w 0] kwa0 [] = Err EValue
  /\ disc_ufunc castQ repaired NPadd st_d d23w 1 MReduce [OpDisc d23w 0] kwa0 [] = Err EValue.
Proof. exact C17.Refuted.discr_reduce_array_weighting_refuted. Qed.

(* add.reduce over ANY list of axes, every rank (each axis valid for the shape
   it is applied to -- NumPy's tuple-of-axes reduce equals reducing the axes one
   after the other from the last to the first): the result has the size of the
   remaining shape, the rank drops by the number of axes, and the total is
   preserved; with all axes: the sum of all entries. *)
Theorem add_reduce_axes_total :
  forall (axes : list nat) (shape : list nat) (d : list R) (shape' : list nat) (d' : list R),
  axes_valid (length shape) axes ->
  length d = prodn shape ->
  reduce_axes BAdd shape axes d = Some (shape', d') ->
  length d' = prodn shape' /\ sumf d' = sumf d
  /\ length shape' = (length shape - length axes)%nat.
Proof. exact reduce_axes_add_total. Qed.
Print Assumptions add_reduce_axes_total.

(* ------------------------------------------------------------------------
   Legacy interface x.ufuncs.<name>() on power spaces (odl/util/ufuncs.py:
   wrap_ufunc_productspace), for element TREES of any nesting depth and any
   number of parts, any one-output elementwise ufunc (F1 = NumPy's result
   dtype, f1 = the function): the result is the element of the same space
   whose leaves are f(leaf) converted back to the leaf dtype ... *)
From Verif Require Import C17.Legacy C17.LegacyProofs.
Theorem legacy_pspace_closed_form :
  forall (T : Type) (cast : dt -> dt -> T -> T) (F1 : dt -> dt) (f1 : dt -> T -> T) (ts : list (@ptree T)),
  legacy1 cast F1 f1 (PNode ts) = legacy1_spec cast F1 f1 (PNode ts).
Proof. exact @legacy1_closed_form. Qed.
Print Assumptions legacy_pspace_closed_form.

(* ... so it agrees with NumPy on the underlying arrays (numbers and dtype)
   whenever every leaf keeps its dtype under the ufunc. *)
Theorem legacy_pspace_agrees_with_numpy_partial :
  forall (T : Type) (cast : dt -> dt -> T -> T) (F1 : dt -> dt) (f1 : dt -> T -> T) (ts : list (@ptree T)),
  dtype_preserved F1 (PNode ts) -> legacy1 cast F1 f1 (PNode ts) = numpy1 F1 f1 (PNode ts).
Proof. exact @legacy1_agrees_with_numpy. Qed.
Print Assumptions legacy_pspace_agrees_with_numpy_partial.

(* FULL STATEMENT (FALSE): the same without the dtype guard.  Refuted by
   true_divide(x, 2) on tensor_space(2, dtype=int)**2: the float results are
   truncated into the integer space (finding
   pspace-integer-space-truncates-float-results). *)
Theorem legacy_pspace_agrees_with_numpy_refuted :
  exists t : @ptree Q, legacy1 castQ Fhalf (lop_f LHalf) t <> numpy1 Fhalf (lop_f LHalf) t.
Proof. exact legacy_vs_numpy_refuted. Qed.

(* ------------------------------------------------------------------------
   Power-space elements through the NumPy API (ProductSpaceElement.__array__ /
   __array_wrap__; model [wrap_pspace]/[pspace_np] in C17/Legacy.v, tied by
   the `pspace` case set).  n parts of shape s, space dtype d, r = what NumPy
   computes on the arrays. *)

(* A result with the shape of the element (every __call__ without broadcast
   growth, accumulate) is wrapped into the same space with NumPy's numbers
   converted to the dtype of the space ... *)
Theorem pspace_wrap_same_shape :
  forall (T : Type) (cast : dt -> dt -> T -> T) (n : nat) (s : list nat) (d : dt) (r : @narr T),
  a_shape r = n :: s ->
  wrap_pspace cast n s d r = Ok (WElem d (n :: s) (map (conv cast (a_dt r) d) (a_data r))).
Proof. exact @wrap_same_shape. Qed.
(* ... hence exactly NumPy's numbers (and dtype) when the result dtype is the
   space dtype; otherwise they are converted (findings
   pspace-result-dtype-forced-to-space-dtype,
   pspace-integer-space-truncates-float-results). *)
Theorem pspace_wrap_same_shape_and_dtype :
  forall (T : Type) (cast : dt -> dt -> T -> T) (n : nat) (s : list nat) (r : @narr T),
  a_shape r = n :: s ->
  wrap_pspace cast n s (a_dt r) r = Ok (WElem (a_dt r) (n :: s) (a_data r)).
Proof. exact @wrap_same_shape_dtype. Qed.
Print Assumptions pspace_wrap_same_shape_and_dtype.

(* FULL STATEMENT (FALSE): "reduce results are wrapped in a space of matching
   shape".  For EVERY power space with at least two parts, of any part shape,
   the result of reduce over the component axis (NumPy's default axis 0), which
   has the shape of one part, is refused with ValueError (finding
   pspace-reduce-not-wrapped). *)
Theorem pspace_reduce_never_wrapped_refuted :
  forall (T : Type) (cast : dt -> dt -> T -> T) (n : nat) (s : list nat) (d : dt) (r : @narr T),
  (2 <= n)%nat -> s <> [] -> a_shape r = s -> wrap_pspace cast n s d r = Err EValue.
Proof. exact @wrap_part_shape_fails. Qed.
Print Assumptions pspace_reduce_never_wrapped_refuted.

(* ------------------------------------------------------------------------
   TRANSFER: the array semantics executed at Q by the correspondence shards is
   the rational restriction of the semantics the R-instance laws above are
   about -- Q2R commutes with every method, for every division-free ufunc
   (all but true_divide / reciprocal), every shape. *)
From Coq Require Import Qreals.
From Verif Require Import Base.Transfer C17.Transfer.
Theorem transfer_reduce :
  forall (o : bop) (outer n inner : nat) (d : list Q), bop_nodiv o = true ->
  option_map (map Q2R) (reduce_ax o outer n inner d) = reduce_ax o outer n inner (map Q2R d).
Proof. exact reduce_ax_transfer. Qed.
Theorem transfer_accumulate :
  forall (o : bop) (outer n inner : nat) (d : list Q), bop_nodiv o = true ->
  map Q2R (accumulate_ax o outer n inner d) = accumulate_ax o outer n inner (map Q2R d).
Proof. exact accumulate_ax_transfer. Qed.
Theorem transfer_outer :
  forall (o : bop) (x y : list Q), bop_nodiv o = true ->
  map Q2R (outer o x y) = outer o (map Q2R x) (map Q2R y).
Proof. exact outer_transfer. Qed.
Theorem transfer_at :
  forall (o : bop) (a : list Q) (ivs : list (nat * Q)), bop_nodiv o = true ->
  map Q2R (at2 o a ivs) = at2 o (map Q2R a) (map (fun iv => (fst iv, Q2R (snd iv))) ivs).
Proof. exact at2_transfer. Qed.
Theorem transfer_call_unary :
  forall (u : uop) (d : list Q), uop_nodiv u = true -> map Q2R (call1 u d) = call1 u (map Q2R d).
Proof. exact call1_transfer. Qed.
Print Assumptions transfer_reduce.

(* ------------------------------------------------------------------------
   TIE BY REGENERATION: Gen/UfuncDispatch.v is re-emitted from the current
   source on every run (translate/ufunc_dispatch.py, fail-closed); the model
   equals the generated decision fragments, so a source change of one of them
   breaks one of these proofs. *)
From Coq Require Import String.
From Verif Require Import C17.Syntax Gen.UfuncDispatch C17.GenTie.
(* the guard on the number of out arguments *)
Theorem generated_out_count_guard :
  forall (m : meth) (nout n : nat),
  len_ok m nout n = negb (gen_len_bad_tens (is_call m) nout n)
  /\ len_ok m nout n = negb (gen_len_bad_disc (is_call m) nout n).
Proof. exact out_count_guard_generated. Qed.
(* the accepted out types *)
Theorem generated_valid_out_types :
  forall (T : Type) (o : option (@operand T)),
  tens_valid_out o = accepts_tens gen_valid_out_tens o
  /\ disc_valid_out o = accepts_disc gen_valid_out_disc o.
Proof. exact valid_out_types_generated. Qed.
(* how NumpyTensor.__array_ufunc__ builds the result space: shape from self or
   from the result, weighting kept / reset / default, as a table over
   (floating result?, shape unchanged?) -- for the other methods, for both
   outputs of a two-output ufunc, and for __call__ (the variant is read off the
   source: [gen_grow]) *)
Theorem generated_result_space_rules :
  forall (T : Type) (sp : tspace) (r : @narr T),
  meth_space sp r = apply_rule (gen_meth_rule (is_floating (a_dt r)) (shape_eqb (a_shape r) (ts_shape sp))) sp r
  /\ call_space sp 2 r = apply_rule (gen_call2_rule (is_floating (a_dt r)) (shape_eqb (a_shape r) (ts_shape sp))) sp r
  /\ (if gen_grow then meth_space sp r else call_space sp 1 r)
     = apply_rule (gen_call_rule (is_floating (a_dt r)) (shape_eqb (a_shape r) (ts_shape sp))) sp r.
Proof. exact result_space_rules_generated. Qed.
(* what the discretized element refuses, with which error class *)
Theorem generated_discr_refusals :
  forall (m : meth) (keepdims all_elems : bool), m <> MCall ->
  disc_reject m keepdims all_elems = table_reject gen_disc_rejects m keepdims all_elems.
Proof. exact disc_reject_generated. Qed.
(* x.ufuncs.sum/prod/min/max use add/multiply/minimum/maximum; wrap_ufunc_base
   supports exactly the arities (1,1), (1,2), (2,1) *)
Theorem generated_legacy_tables :
  gen_legacy_reductions = [("sum", "add"); ("prod", "multiply"); ("min", "minimum"); ("max", "maximum")]%string
  /\ gen_legacy_arities = [(1, 1); (1, 2); (2, 1)]%nat.
Proof. exact legacy_tables_generated. Qed.

(* ------------------------------------------------------------------------
   Binary legacy ufuncs X.ufuncs.f(x2) on nested power spaces ("recursive
   broadcasting"), model [legacy2] in C17/Legacy.v, tied by the `legacy2` case
   set and by regeneration of the wrapper's decision. *)

(* the decision "pair the components iff x2 is in the space of X, else hand the
   same x2 to every component" is the one in the current source *)
Theorem generated_pair_decision :
  forall (T : Type) (t : @ptree T) (a : @arg2 T), pair_decision t a = pair_of gen_pair_cond t a.
Proof. exact pair_decision_generated. Qed.

(* For EVERY nesting depth and number of parts, every binary one-output ufunc
   (F2 = result dtype, f2 = the function) and x2 an element of the space of X
   or of ANY of its inner power / tensor spaces ([inner]): the out-of-place
   call succeeds and returns the closed form [bspec] (components paired where
   the spaces agree, x2 repeated above) ... *)
Theorem legacy_binary_closed_form :
  forall (T : Type) (cast : dt -> dt -> T -> T) (F2 : dt -> dt) (f2 : dt -> T -> T -> T)
         (t u : @ptree T),
  inner t u ->
  exists r, legacy2 cast F2 f2 false t (A2Tree u) = Ok r
            /\ cast_like cast t r = bspec cast F2 f2 t u
            /\ (forall ts, t = PNode ts -> r = bspec cast F2 f2 t u).
Proof. exact @legacy2_inner. Qed.
Print Assumptions legacy_binary_closed_form.

(* ... whose stacked array is the ufunc applied entry by entry to the array of
   X and the array of x2 TILED along the leading axes -- which is what NumPy
   broadcasting of a (k.., n) array against an (m.., k.., n) array is --
   converted into the dtype of the space (uniform leaf dtype d). *)
Theorem legacy_binary_is_numpy_broadcasting :
  forall (T : Type) (cast : dt -> dt -> T -> T) (F2 : dt -> dt) (f2 : dt -> T -> T -> T) (d : dt)
         (ts : list (@ptree T)) (u : @ptree T),
  inner (PNode ts) u -> all_dtype d (PNode ts) ->
  exists r, legacy2 cast F2 f2 false (PNode ts) (A2Tree u) = Ok r
            /\ flat r = map2 (fun v w => conv cast (F2 d) d (f2 d v w))
                             (flat (PNode ts)) (tile (copies (PNode ts) u) (flat u)).
Proof. exact @legacy2_is_numpy_broadcasting. Qed.
Print Assumptions legacy_binary_is_numpy_broadcasting.

(* Legacy tensor / discretized wrappers (binary ufuncs, sum / prod / min / max)
   after /repo commit 5a7f53f: NumPy's tuple form out=(o,) is the bare form
   out=o, which is the NumPy call with that out (hence written and returned by
   tensor_out_written_and_returned); the helper's text and its use in every
   wrapper are pinned by the translator (gen_out_tuple_forms). *)
Theorem legacy_out_tuple_form_is_bare_form :
  forall (T : Type) (cast : dt -> dt -> T -> T) (V : variant) (NP : @npsem T) (st : @store T) (sp : tspace)
         (m : meth) (ins : list (@operand T)) (kw : kwargs) (o : option (@operand T)),
  legacy_tens_call cast V NP st sp m ins kw (LTuple [o]) = legacy_tens_call cast V NP st sp m ins kw (LOne o)
  /\ legacy_tens_call cast V NP st sp m ins kw (LOne o) = tens_ufunc cast V NP st sp 1 m ins kw [o].
Proof. exact @legacy_out_tuple_form. Qed.
