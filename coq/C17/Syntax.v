(* C17/Syntax.v -- the small vocabularies shared by the hand-written model and
   the file GENERATED from the source (Gen/UfuncDispatch.v). *)
(* accepted out types, as written in the source *)
Inductive okind := KSelf | KData | KNdarray | KTensor | KTensorData.
(* how a result space is constructed *)
Inductive shape_src := SrcSelf | SrcRes.            (* self.shape | res.shape *)
Inductive wrule := WKeep | WReset | WDefault.       (* weighting of self | constant 1, same exponent | none passed *)
Record rule := mkRule { r_src : shape_src; r_w : wrule }.
(* when the binary product-space wrapper pairs the components of self and x2 *)
Inductive paircond := PairIfInSpace | PairIfSameType.   (* x2 in self.elem.space | isinstance(x2, type(self.elem)) *)
(* conditions under which the discretized element refuses a method *)
Inductive rcond := RAlways | RKeepdims | RNotAllElems.
