(* C17/Transfer.v -- the array semantics executed at Q by the correspondence
   shards (C17/Arr.v through np_conc) is the rational restriction of the one
   the R-instance laws are about: Q2R commutes with every ufunc method of
   Arr.v, for every division-free ufunc. *)
From Coq Require Import ZArith QArith Qreals Reals Lra Lia List Bool.
From Verif Require Import Base.Num Base.Vec Base.Transfer Lib.Axis C17.Arr.
Import ListNotations.

Notation QR := (map Q2R).

Definition bop_nodiv (o : bop) : bool := match o with BDiv => false | _ => true end.
Definition uop_nodiv (u : uop) : bool := match u with UReciprocal => false | _ => true end.

Lemma of_bool_transfer (c : bool) : Q2R (of_bool c) = of_bool c.
Proof. destruct c; [apply Q2R_none | apply Q2R_nzero]. Qed.
Lemma truthy_transfer (a : Q) : truthy a = truthy (Q2R a).
Proof. unfold truthy. rewrite Q2R_neqb, Q2R_nzero. reflexivity. Qed.
Lemma nmax_transfer (a b : Q) : Q2R (nmax a b) = nmax (Q2R a) (Q2R b).
Proof. unfold nmax. rewrite <- Q2R_nleb. destruct (nleb a b); reflexivity. Qed.
Lemma nmin_transfer (a b : Q) : Q2R (nmin a b) = nmin (Q2R a) (Q2R b).
Proof. unfold nmin. rewrite <- Q2R_nleb. destruct (nleb a b); reflexivity. Qed.
Lemma nsign_transfer (a : Q) : Q2R (nsign a) = nsign (Q2R a).
Proof.
  unfold nsign.
  assert (H1 : nltb nzero a = nltb nzero (Q2R a)) by (rewrite Q2R_nltb, Q2R_nzero; reflexivity).
  assert (H2 : nltb a nzero = nltb (Q2R a) nzero) by (rewrite Q2R_nltb, Q2R_nzero; reflexivity).
  rewrite <- H1, <- H2.
  destruct (nltb nzero a); [apply Q2R_none|].
  destruct (nltb a nzero); [rewrite Q2R_nopp, Q2R_none; reflexivity | apply Q2R_nzero].
Qed.

Lemma bop_ev_transfer (o : bop) (a b : Q) : bop_nodiv o = true ->
  Q2R (bop_ev o a b) = bop_ev o (Q2R a) (Q2R b).
Proof.
  destruct o; intros Hd; try discriminate Hd; cbn [bop_ev];
    rewrite ?Q2R_nadd, ?Q2R_nsub, ?Q2R_nmul, ?nmax_transfer, ?nmin_transfer, ?of_bool_transfer,
            <- ?Q2R_nltb, <- ?Q2R_nleb, <- ?Q2R_neqb, <- ?truthy_transfer; reflexivity.
Qed.
Lemma uop_ev_transfer (u : uop) (a : Q) : uop_nodiv u = true ->
  Q2R (uop_ev u a) = uop_ev u (Q2R a).
Proof.
  destruct u; intros Hd; try discriminate Hd; cbn [uop_ev];
    rewrite ?Q2R_nopp, ?Q2R_nabs, ?Q2R_nmul, ?nsign_transfer, ?of_bool_transfer, <- ?truthy_transfer;
    reflexivity.
Qed.

(* ---- lists ---- *)
Lemma vmap2_transfer (f : Q -> Q -> Q) (g : R -> R -> R) :
  (forall a b, Q2R (f a b) = g (Q2R a) (Q2R b)) ->
  forall x y, QR (vmap2 f x y) = vmap2 g (QR x) (QR y).
Proof.
  intros H. induction x as [|a x IH]; intros [|b y]; cbn; try reflexivity. rewrite H, IH. reflexivity.
Qed.
Lemma chunks_map {A B} (h : A -> B) k n (l : list A) : map (map h) (chunks k n l) = chunks k n (map h l).
Proof.
  revert l; induction n as [|n IH]; intros l; cbn; [reflexivity|].
  rewrite firstn_map, skipn_map, IH. reflexivity.
Qed.
Lemma fold_rows_transfer o (rs : list (list Q)) (r : list Q) : bop_nodiv o = true ->
  QR (fold_left (vmap2 (bop_ev o)) rs r) = fold_left (vmap2 (bop_ev o)) (map QR rs) (QR r).
Proof.
  intros Hd. revert r; induction rs as [|c rs IH]; intros r; cbn; [reflexivity|].
  rewrite IH. f_equal. apply vmap2_transfer. intros; apply bop_ev_transfer; exact Hd.
Qed.
Lemma bop_ident_transfer o : option_map Q2R (bop_ident o) = bop_ident o.
Proof. destruct o; cbn [bop_ident option_map]; rewrite ?Q2R_nzero, ?Q2R_none; reflexivity. Qed.

Lemma map_repeat' {A B} (h : A -> B) a n : map h (repeat a n) = repeat (h a) n.
Proof. induction n; cbn; congruence. Qed.
Lemma red_rows_transfer o inner (rs : list (list Q)) : bop_nodiv o = true ->
  option_map QR (red_rows o inner rs) = red_rows o inner (map QR rs).
Proof.
  intros Hd. destruct rs as [|r rs]; cbn.
  - rewrite <- bop_ident_transfer. destruct (bop_ident o); cbn; [|reflexivity].
    f_equal. apply map_repeat'.
  - f_equal. apply fold_rows_transfer; exact Hd.
Qed.
Lemma scan_transfer (f : list Q -> list Q -> list Q) (g : list R -> list R -> list R) :
  (forall a b, QR (f a b) = g (QR a) (QR b)) ->
  forall l a, map QR (scan f a l) = scan g (QR a) (map QR l).
Proof.
  intros H. induction l as [|b l IH]; intros a; cbn; [reflexivity|]. rewrite IH, H. reflexivity.
Qed.
Lemma acc_rows_transfer o (rs : list (list Q)) : bop_nodiv o = true ->
  map QR (acc_rows o rs) = acc_rows o (map QR rs).
Proof.
  intros Hd. destruct rs as [|r rs]; cbn; [reflexivity|].
  apply scan_transfer. intros a b. apply vmap2_transfer. intros; apply bop_ev_transfer; exact Hd.
Qed.

Lemma opt_all_transfer (l : list (option (list Q))) :
  option_map (map QR) (opt_all l) = opt_all (map (option_map QR) l).
Proof.
  induction l as [|[a|] l IH]; cbn; try reflexivity.
  rewrite <- IH. destruct (opt_all l); reflexivity.
Qed.

(* reduce along an axis, every shape outer x n x inner *)
Theorem reduce_ax_transfer o outer n inner (d : list Q) : bop_nodiv o = true ->
  option_map QR (reduce_ax o outer n inner d) = reduce_ax o outer n inner (QR d).
Proof.
  intros Hd. unfold reduce_ax. rewrite <- bop_ident_transfer.
  assert (Hcore : option_map QR (option_map (@concat Q)
            (opt_all (map (fun blk => red_rows o inner (chunks inner n blk)) (chunks (n * inner) outer d))))
          = option_map (@concat R)
            (opt_all (map (fun blk => red_rows o inner (chunks inner n blk)) (chunks (n * inner) outer (QR d))))).
  { rewrite <- chunks_map, map_map.
    rewrite <- (map_ext (fun blk => option_map QR (red_rows o inner (chunks inner n blk)))).
    2:{ intros blk. rewrite red_rows_transfer by exact Hd. rewrite chunks_map. reflexivity. }
    rewrite <- (map_map (fun blk => red_rows o inner (chunks inner n blk)) (option_map QR)).
    rewrite <- opt_all_transfer. destruct (opt_all _); cbn; [|reflexivity]. f_equal. apply concat_map. }
  destruct n; [destruct (bop_ident o); cbn; [exact Hcore | reflexivity] | destruct (bop_ident o); exact Hcore].
Qed.

Lemma along_rows_transfer outer n inner (G : list (list Q) -> list (list Q)) (G' : list (list R) -> list (list R)) :
  (forall rs, map QR (G rs) = G' (map QR rs)) ->
  forall d, QR (along_rows outer n inner G d) = along_rows outer n inner G' (QR d).
Proof.
  intros HG d. unfold along_rows. rewrite concat_map, map_map, <- chunks_map, map_map.
  f_equal. apply map_ext. intros blk. rewrite concat_map, HG, chunks_map. reflexivity.
Qed.
Theorem accumulate_ax_transfer o outer n inner (d : list Q) : bop_nodiv o = true ->
  QR (accumulate_ax o outer n inner d) = accumulate_ax o outer n inner (QR d).
Proof. intros Hd. apply along_rows_transfer. intros rs. apply acc_rows_transfer; exact Hd. Qed.

Theorem outer_transfer o (x y : list Q) : bop_nodiv o = true ->
  QR (outer o x y) = outer o (QR x) (QR y).
Proof.
  intros Hd. unfold outer. induction x as [|a x IH]; cbn; [reflexivity|].
  rewrite map_app, IH. f_equal. rewrite !map_map. apply map_ext. intros b. apply bop_ev_transfer; exact Hd.
Qed.

Lemma updn_transfer i (g : Q -> Q) (g' : R -> R) : (forall a, Q2R (g a) = g' (Q2R a)) ->
  forall l, QR (updn i g l) = updn i g' (QR l).
Proof.
  intros Hg l. revert i. induction l as [|a l IH]; intros [|i]; cbn; try reflexivity.
  - rewrite Hg. reflexivity.
  - rewrite IH. reflexivity.
Qed.
Theorem at2_transfer o (a : list Q) (ivs : list (nat * Q)) : bop_nodiv o = true ->
  QR (at2 o a ivs) = at2 o (QR a) (map (fun iv => (fst iv, Q2R (snd iv))) ivs).
Proof.
  intros Hd. unfold at2. revert a. induction ivs as [|[i v] ivs IH]; intros a; cbn; [reflexivity|].
  rewrite IH. f_equal. apply updn_transfer. intros x. apply bop_ev_transfer; exact Hd.
Qed.
Theorem call1_transfer u (d : list Q) : uop_nodiv u = true -> QR (call1 u d) = call1 u (QR d).
Proof.
  intros Hd. unfold call1. rewrite !map_map. apply map_ext. intros a. apply uop_ev_transfer; exact Hd.
Qed.
