(* C17/Refuted.v -- the parts of the full property that are FALSE of the
   faithful model, each with a concrete witness evaluated at Q with the exact
   array semantics of C17/Arr.v as NumPy (np_conc from C17/Corr.v).  Each has a
   probe with the same key in harness/c17.py and an entry in findings/C17.json. *)
From Coq Require Import ZArith QArith List Bool Arith.
From Verif Require Import Base.Num Lib.Axis C17.Arr C17.Model C17.Corr.
Import ListNotations.
Local Open Scope Q_scope.

Definition NPadd : @npsem Q := np_conc (UB BAdd) [DF64] (Err EUnmodelled).
Definition rn3 : tspace := ts_default [3%nat] DF64.
Definition st_grow : @store Q :=
  [mkArr DF64 [3%nat] [1; 2; 3]; mkArr DF64 [2%nat; 3%nat] [1; 1; 1; 1; 1; 1]].
Definition kw0 : kwargs := mkKw AxAbsent false None [].

(* finding tensor-call-broadcast-grow: np.add(x, np.ones((2, 3))) with x in rn(3):
   NumPy on the underlying arrays returns a (2, 3) array, the ODL call raises
   ValueError (the result space is built with the shape of self). *)
Lemma grow_raw_ok :
  exists l st', raw_ufunc castQ NPadd st_grow MCall kw0 [RopBuf 0; RopBuf 1] [None] = Ok (l, st')
    /\ a_shape (rd st' 2) = [2%nat; 3%nat] /\ a_data (rd st' 2) = [2; 3; 4; 2; 3; 4].
Proof. eexists; eexists; split; [vm_compute; reflexivity | split; vm_compute; reflexivity]. Qed.
Lemma grow_odl_raises :
  tens_ufunc castQ as_found NPadd st_grow rn3 1 MCall [OpTens rn3 0; OpArr 1] kw0 [] = Err EValue.
Proof. vm_compute. reflexivity. Qed.

Lemma call_complete_refuted :
  exists (NP : @npsem Q) st sp ins kw rins l st',
    map_opt tens_unwrap ins = Some rins
    /\ raw_ufunc castQ NP st MCall kw rins [None] = Ok (l, st')
    /\ tens_ufunc castQ as_found NP st sp 1 MCall ins kw [] = Err EValue.
Proof.
  exists NPadd, st_grow, rn3, [OpTens rn3 0; OpArr 1], kw0, [RopBuf 0; RopBuf 1].
  destruct grow_raw_ok as (l & st' & Hr & _). exists l, st'.
  split; [reflexivity | split; [exact Hr | exact grow_odl_raises]].
Qed.

(* finding tensor-dtype-kw-array-weighting: np.negative(x, dtype='float32') with x in
   rn(3, weighting=[1, 2, 3]): NumPy returns a float32 array, ODL raises ValueError
   (the float64 weight array cannot be cast safely to the float32 result space). *)
Definition NPneg32 : @npsem Q := np_conc (UU UNeg) [DF32] (Err EUnmodelled).
Definition rn3w : tspace := mkTS [3%nat] DF64 (WArr 1 DF64) 2.
Definition kw32 : kwargs := mkKw AxAbsent false (Some DF32) [].
Lemma dtype_kw_array_weighting_refuted :
  exists l st', raw_ufunc castQ NPneg32 st_grow MCall kw32 [RopBuf 0] [None] = Ok (l, st')
  /\ tens_ufunc castQ as_found NPneg32 st_grow rn3w 1 MCall [OpTens rn3w 0] kw32 [] = Err EValue.
Proof. eexists; eexists; split; vm_compute; reflexivity. Qed.

(* FIXED (commit ca9a353; was finding discr-reduce-negative-axis):
   np.add.reduce(y, axis=-1) with y in uniform_discr([0, 0], [1, 3], (2, 3)) now
   returns NumPy's [3; 12] on the partition of axis 0 *)
Definition d23 : dspace :=
  mkDS [mkAx 0 1 2 (1#2) 1; mkAx 0 3 3 1 2] (mkTS [2%nat; 3%nat] DF64 (WConst (1#2)) 2).
Definition st_d : @store Q := [mkArr DF64 [2%nat; 3%nat] [0; 1; 2; 3; 4; 5]].
Definition kwm1 : kwargs := mkKw (AxInt (-1)) false None [].
Example discr_reduce_negative_axis_ok :
  exists rs st', disc_ufunc castQ as_found NPadd st_d d23 1 MReduce [OpDisc d23 0] kwm1 [] = Ok ([OpDisc rs 1], st')
    /\ ds_axes rs = [mkAx 0 1 2 (1#2) 1] /\ a_data (rd st' 1) = [3; 12].
Proof. eexists; eexists; split; [vm_compute; reflexivity | split; vm_compute; reflexivity]. Qed.
(* the same call with the equivalent non-negative axis succeeds, on the partition of axis 0 *)
Definition kwp1 : kwargs := mkKw (AxInt 1) false None [].
Example discr_reduce_axis1_ok :
  exists rs st', disc_ufunc castQ as_found NPadd st_d d23 1 MReduce [OpDisc d23 0] kwp1 [] = Ok ([OpDisc rs 1], st')
    /\ ds_axes rs = [mkAx 0 1 2 (1#2) 1] /\ a_data (rd st' 1) = [3; 12].
Proof. eexists; eexists; split; [vm_compute; reflexivity | split; vm_compute; reflexivity]. Qed.

(* the hypotheses of the positive theorems are satisfiable: a plain call *)
Definition st_ok : @store Q := [mkArr DF64 [3%nat] [1; 2; 3]; mkArr DF64 [3%nat] [1; 1; 1]].
Example call_ok :
  exists st', tens_ufunc castQ as_found NPadd st_ok rn3 1 MCall [OpTens rn3 0; OpArr 1] kw0 [] = Ok ([OpTens rn3 2], st')
    /\ a_data (rd st' 2) = [2; 3; 4].
Proof. eexists; split; vm_compute; reflexivity. Qed.
Example call_out_ok :
  exists st', tens_ufunc castQ as_found NPadd st_ok rn3 1 MCall [OpTens rn3 0; OpArr 1] kw0 [Some (OpTens rn3 0)]
              = Ok ([OpTens rn3 0], st')
    /\ a_data (rd st' 0) = [2; 3; 4] /\ length st' = 2%nat.
Proof. eexists; split; [vm_compute; reflexivity | split; vm_compute; reflexivity]. Qed.
Example arity1_np_add : forall q rs, NPadd q = Ok rs -> length rs = 1%nat.
Proof.
  intros q rs. unfold NPadd, np_conc.
  destruct (q_meth q), (q_ins q) as [|x [|y [|z l]]]; try discriminate;
  repeat match goal with
         | |- context [match ?e with _ => _ end] => destruct e; try discriminate
         end; intros E; inversion E; reflexivity.
Qed.

(* with the repaired variants the three refuting inputs succeed and agree with NumPy *)
Example grow_repaired_ok :
  exists sp' st', tens_ufunc castQ repaired NPadd st_grow rn3 1 MCall [OpTens rn3 0; OpArr 1] kw0 []
                  = Ok ([OpTens sp' 2], st')
    /\ ts_shape sp' = [2%nat; 3%nat] /\ a_data (rd st' 2) = [2; 3; 4; 2; 3; 4].
Proof. eexists; eexists; split; [vm_compute; reflexivity | split; vm_compute; reflexivity]. Qed.

(* finding discr-reduce-array-weighting: reduce on an array-weighted discretized
   space: NumPy returns [3; 5; 7], ODL raises ValueError *)
Definition d23w : dspace :=
  mkDS [mkAx 0 1 2 (1#2) 1; mkAx 0 1 3 (1#3) 2] (mkTS [2%nat; 3%nat] DF64 (WArr 1 DF64) 2).
Definition kwa0 : kwargs := mkKw (AxInt 0) false None [].
Lemma discr_reduce_array_weighting_refuted :
  (exists l st', raw_ufunc castQ NPadd st_d MReduce kwa0 [RopBuf 0] [None] = Ok (l, st')
                 /\ a_data (rd st' 1) = [3; 5; 7])
  /\ disc_ufunc castQ as_found NPadd st_d d23w 1 MReduce [OpDisc d23w 0] kwa0 [] = Err EValue
  /\ disc_ufunc castQ repaired NPadd st_d d23w 1 MReduce [OpDisc d23w 0] kwa0 [] = Err EValue.
Proof.
  split; [eexists; eexists; split; vm_compute; reflexivity | split; vm_compute; reflexivity].
Qed.

(* non-vacuity of tensor_out_with_dtype_keyword: np.add(x, arr, out=<float32 tensor>, dtype='float64') *)
Definition st_dk : @store Q :=
  [mkArr DF64 [3%nat] [1; 2; 3]; mkArr DF64 [3%nat] [1; 1; 1]; mkArr DF32 [3%nat] [7; 7; 7]].
Definition rn3f : tspace := ts_default [3%nat] DF32.
Definition kw64 : kwargs := mkKw AxAbsent false (Some DF64) [].
Example out_dtype_kw_premises_hold :
  let r := mkArr DF64 [3%nat] [2; 3; 4] in
  (forall odt, NPadd (mkReq MCall kw64 (map (raw_in st_dk) [RopBuf 0; RopBuf 1])
                            [Some (odt, a_shape (rd st_dk 2))]) = Ok [r])
  /\ a_dt r = DF64 /\ shape_eqb (a_shape r) (a_shape (rd st_dk 2)) = true
  /\ can_cast DF64 (a_dt (rd st_dk 2)) = true /\ dt_eqb DF64 (a_dt (rd st_dk 2)) = false
  /\ (forall v, castQ DF64 DF64 v = v).
Proof. cbn. repeat split; intros; reflexivity. Qed.
Example out_dtype_kw_runs :
  exists st', tens_ufunc castQ as_found NPadd st_dk rn3 1 MCall [OpTens rn3 0; OpArr 1] kw64 [Some (OpTens rn3f 2)]
              = Ok ([OpTens rn3f 2], st')
    /\ a_data (rd st' 2) = [2; 3; 4] /\ a_dt (rd st' 2) = DF32.
Proof. eexists; split; [vm_compute; reflexivity | split; vm_compute; reflexivity]. Qed.

(* finding pspace-integer-space-truncates-float-results, on the legacy model:
   true_divide by 2 on an integer power space: NumPy gives [1/2; 3/2], the
   legacy interface (and the NumPy call on the element) give [0; 1] *)
From Verif Require Import C17.Legacy.
Definition Fhalf (d : dt) : dt := match d with DI64 | DI32 | DBool => DF64 | _ => d end.
Definition tint : @ptree Q := PNode [PLeaf DI64 [1; 3]; PLeaf DI64 [5; 2]].
Lemma legacy_int_truncates :
  legacy1 castQ Fhalf (lop_f LHalf) tint = PNode [PLeaf DI64 [0; 1]; PLeaf DI64 [2; 1]]
  /\ numpy1 Fhalf (lop_f LHalf) tint = PNode [PLeaf DF64 [1#2; 3#2]; PLeaf DF64 [5#2; 1]].
Proof. split; vm_compute; reflexivity. Qed.
Lemma legacy_vs_numpy_refuted :
  exists t : @ptree Q, legacy1 castQ Fhalf (lop_f LHalf) t <> numpy1 Fhalf (lop_f LHalf) t.
Proof.
  exists tint. destruct legacy_int_truncates as [H1 H2]. rewrite H1, H2. discriminate.
Qed.
(* the guard of the positive theorem is satisfiable: float leaves *)
Example dtype_preserved_example :
  dtype_preserved Fhalf (PNode [PLeaf DF64 [1; 3]; PNode [PLeaf DF64 [5 : Q]]]).
Proof. cbn. repeat split. Qed.

(* non-vacuity of the binary legacy theorems: X in (rn(2)**2)**2, x2 in the inner space rn(2)**2 *)
Definition tX : @ptree Q :=
  PNode [PNode [PLeaf DF64 [0; 1]; PLeaf DF64 [2; 3]]; PNode [PLeaf DF64 [4; 5]; PLeaf DF64 [6; 7]]].
Definition tU : @ptree Q := PNode [PLeaf DF64 [10; 20]; PLeaf DF64 [30; 40]].
Example inner_example : inner tX tU /\ all_dtype DF64 tX /\ copies tX tU = 2%nat.
Proof. cbn. repeat split. Qed.
Example legacy2_example :
  legacy2 castQ (fun d => d) (fun _ => bop_ev BAdd) false tX (A2Tree tU)
  = Ok (PNode [PNode [PLeaf DF64 [10; 21]; PLeaf DF64 [32; 43]]; PNode [PLeaf DF64 [14; 25]; PLeaf DF64 [36; 47]]]).
Proof. vm_compute. reflexivity. Qed.
