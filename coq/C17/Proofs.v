(* C17/Proofs.v -- lemmas about the wrapper-layer model C17/Model.v.
   Everything here is for an ARBITRARY carrier T, an arbitrary dtype conversion
   [cast] and an ARBITRARY NumPy semantics [NP] (any ufunc, any method, any
   keyword options): the statements say that the ODL layer adds nothing to and
   removes nothing from what NumPy computes on the underlying buffers. *)
From Coq Require Import ZArith QArith List Bool Arith Lia.
From Verif Require Import Base.Num Lib.Axis C17.Arr C17.Model.
Import ListNotations.

(* ---------- descriptor equalities ---------- *)
Lemma shape_eqb_eq (a b : list nat) : shape_eqb a b = true -> a = b.
Proof.
  unfold shape_eqb. rewrite andb_true_iff. intros [Hl Hf].
  apply Nat.eqb_eq in Hl. revert b Hl Hf.
  induction a as [|x a IH]; intros [|y b] Hl Hf; cbn in *; try discriminate; auto.
  apply andb_true_iff in Hf as [Hxy Hf]. apply Nat.eqb_eq in Hxy. subst y.
  f_equal. apply IH; [lia | exact Hf].
Qed.
Lemma shape_eqb_refl (a : list nat) : shape_eqb a a = true.
Proof.
  unfold shape_eqb. rewrite Nat.eqb_refl. cbn.
  induction a as [|x a IH]; cbn; auto. rewrite Nat.eqb_refl. exact IH.
Qed.
Lemma dt_eqb_eq (a b : dt) : dt_eqb a b = true -> a = b.
Proof. destruct a, b; cbn; intros E; try discriminate; reflexivity. Qed.
Lemma dt_eqb_refl (a : dt) : dt_eqb a a = true.
Proof. destruct a; reflexivity. Qed.

Lemma is_call_MCall m : is_call m = true -> m = MCall.
Proof. destruct m; cbn; intros E; try discriminate; reflexivity. Qed.

Section Proofs.
Context {T : Type}.
Variable cast : dt -> dt -> T -> T.
Variable V : variant.
Notation store := (@store T).
Notation tens_ufunc := (tens_ufunc cast V).
Notation wrap_call := (@wrap_call T V).
Notation operand := (@operand T).
Notation npsem := (@npsem T).

(* ---------- store lemmas ---------- *)
Lemma wr_length (st : store) i a : length (wr st i a) = length st.
Proof. revert i; induction st as [|b st IH]; intros [|i]; cbn; auto. Qed.
Lemma rd_wr_same (st : store) i a : (i < length st)%nat -> rd (wr st i a) i = a.
Proof.
  revert i; induction st as [|b st IH]; intros [|i] Hi; cbn in *; try lia; auto.
  unfold rd in *. cbn. apply IH. lia.
Qed.
Lemma rd_wr_other (st : store) i j a : i <> j -> rd (wr st i a) j = rd st j.
Proof.
  revert i j; induction st as [|b st IH]; intros [|i] [|j] Hij; cbn; auto; try congruence.
  unfold rd in *. cbn. apply IH. congruence.
Qed.
Lemma rd_alloc_old (st : store) a j : (j < length st)%nat -> rd (fst (alloc st a)) j = rd st j.
Proof. intros Hj. unfold alloc, rd. cbn. apply app_nth1. exact Hj. Qed.
Lemma rd_alloc_new (st : store) a : rd (fst (alloc st a)) (snd (alloc st a)) = a.
Proof. unfold alloc, rd. cbn. rewrite app_nth2 by lia. rewrite Nat.sub_diag. reflexivity. Qed.
Lemma alloc_length (st : store) a : length (fst (alloc st a)) = S (length st).
Proof. unfold alloc. cbn. rewrite app_length. cbn. lia. Qed.

(* ---------- place: results go to the given buffers, nothing else changes ---------- *)
Definition out_ids (outs : list (option nat)) : list nat :=
  flat_map (fun o => match o with Some i => [i] | None => [] end) outs.

Arguments alloc : simpl never.
Lemma place_frame (rs : list (@narr T)) : forall (st : store) outs l st',
  place cast st rs outs = Ok (l, st') ->
  (length st <= length st')%nat /\
  forall j, (j < length st)%nat -> ~ In j (out_ids outs) -> rd st' j = rd st j.
Proof.
  induction rs as [|r rs IH]; intros st outs l st' Hp; cbn in Hp.
  - inversion Hp; subst. split; [lia | auto].
  - destruct outs as [|[id|] outs]; cbn [out_ids flat_map] in *.
    + (* no out entry left: allocate or scalar *)
      destruct (a_shape r) eqn:Es; [destruct (a_data r) eqn:Ed|].
      * destruct (alloc st r) as [st1 id1] eqn:Ea.
        destruct (place cast st1 rs []) as [[l1 st1']|] eqn:Ep; try discriminate.
        inversion Hp; subst. apply IH in Ep as [Hlen Hfr].
        assert (Hl1 : length st1 = S (length st)) by (rewrite <- (alloc_length st r), Ea; reflexivity).
        split; [lia|]. intros j Hj Hn. rewrite Hfr by (auto; lia).
        replace st1 with (fst (alloc st r)) by (rewrite Ea; reflexivity). apply rd_alloc_old; exact Hj.
      * destruct (place cast st rs []) as [[l1 st1']|] eqn:Ep; try discriminate.
        inversion Hp; subst. apply IH in Ep as [Hlen Hfr]. split; auto.
      * destruct (alloc st r) as [st1 id1] eqn:Ea.
        destruct (place cast st1 rs []) as [[l1 st1']|] eqn:Ep; try discriminate.
        inversion Hp; subst. apply IH in Ep as [Hlen Hfr].
        assert (Hl1 : length st1 = S (length st)) by (rewrite <- (alloc_length st r), Ea; reflexivity).
        split; [lia|]. intros j Hj Hn. rewrite Hfr by (auto; lia).
        replace st1 with (fst (alloc st r)) by (rewrite Ea; reflexivity). apply rd_alloc_old; exact Hj.
    + destruct (negb (can_cast (a_dt r) (a_dt (rd st id)))); try discriminate.
      destruct (negb (shape_eqb (a_shape r) (a_shape (rd st id)))); try discriminate.
      destruct (place cast (wr st id (assign_into cast (rd st id) r)) rs outs) as [[l1 st1']|] eqn:Ep;
        try discriminate.
      inversion Hp; subst. apply IH in Ep as [Hlen Hfr]. rewrite wr_length in *.
      split; [exact Hlen|]. intros j Hj Hn. cbn in Hn.
      rewrite Hfr; [apply rd_wr_other; intros E; apply Hn; left; exact E | exact Hj |].
      intros Hin. apply Hn. right. exact Hin.
    + destruct (a_shape r) eqn:Es; [destruct (a_data r) eqn:Ed|].
      * destruct (alloc st r) as [st1 id1] eqn:Ea.
        destruct (place cast st1 rs outs) as [[l1 st1']|] eqn:Ep; try discriminate.
        inversion Hp; subst. apply IH in Ep as [Hlen Hfr].
        assert (Hl1 : length st1 = S (length st)) by (rewrite <- (alloc_length st r), Ea; reflexivity).
        split; [lia|]. intros j Hj Hn. rewrite Hfr by (auto; lia).
        replace st1 with (fst (alloc st r)) by (rewrite Ea; reflexivity). apply rd_alloc_old; exact Hj.
      * destruct (place cast st rs outs) as [[l1 st1']|] eqn:Ep; try discriminate.
        inversion Hp; subst. apply IH in Ep as [Hlen Hfr]. split; auto.
      * destruct (alloc st r) as [st1 id1] eqn:Ea.
        destruct (place cast st1 rs outs) as [[l1 st1']|] eqn:Ep; try discriminate.
        inversion Hp; subst. apply IH in Ep as [Hlen Hfr].
        assert (Hl1 : length st1 = S (length st)) by (rewrite <- (alloc_length st r), Ea; reflexivity).
        split; [lia|]. intros j Hj Hn. rewrite Hfr by (auto; lia).
        replace st1 with (fst (alloc st r)) by (rewrite Ea; reflexivity). apply rd_alloc_old; exact Hj.
Qed.

(* raw NumPy call: only the out buffers (and the first operand of `at`) change *)
Lemma raw_frame (NP : npsem) (st : store) m kw ins outs l st' :
  raw_ufunc cast NP st m kw ins outs = Ok (l, st') ->
  forall j, (j < length st)%nat -> ~ In j (out_ids outs) ->
    (is_at m = true -> match ins with RopBuf a :: _ => j <> a | _ => True end) ->
    rd st' j = rd st j.
Proof.
  unfold raw_ufunc. intros Hr j Hj Hn Hat.
  destruct (NP _) as [rs|e]; try discriminate.
  destruct (is_at m) eqn:Em.
  - destruct ins as [|[a|v] ins]; try discriminate.
    destruct rs as [|r [|r2 rs]]; try discriminate.
    inversion Hr; subst. apply rd_wr_other. specialize (Hat eq_refl). congruence.
  - apply place_frame in Hr as [_ Hfr]. apply Hfr; assumption.
Qed.

(* ---------- writable_array with no dtype conversion is the identity ---------- *)
Lemma enter_all_none (st : store) n d :
  enter_all cast st (repeat None n) d = (st, repeat None n).
Proof. induction n as [|n IH]; cbn; [reflexivity | rewrite IH; reflexivity]. Qed.
Lemma exit_all_none (st : store) n :
  exit_all cast st (repeat None n) (repeat None n) = st.
Proof. induction n as [|n IH]; cbn; auto. Qed.
Lemma pad_none_nil {A} n : @pad_none A n [] = repeat None n.
Proof. unfold pad_none. cbn. rewrite Nat.sub_0_r. reflexivity. Qed.

Lemma wa_enter_nodtype (st : store) o : wa_enter cast st o None = (st, op_buf o).
Proof. unfold wa_enter. destruct (op_buf o); reflexivity. Qed.
Lemma wa_exit_same (st : store) o : wa_exit cast st o (op_buf o) = st.
Proof. unfold wa_exit. destruct (op_buf o); auto. rewrite Nat.eqb_refl. reflexivity. Qed.

(* ---------- __call__ without out ---------- *)
(* what "wrapped in a space of the same kind with matching shape and dtype,
   over the very buffer NumPy produced" means for one returned value *)
Definition wraps_tens (st : store) (sp : tspace) (r : operand) (rr : @rret T) : Prop :=
  exists spc id, r = OpTens spc id /\ rr = RRBuf id
    /\ ts_shape spc = a_shape (rd st id) /\ ts_dt spc = a_dt (rd st id).

Lemma wrap_call_none (st : store) sp nout : forall rets k l,
  wrap_call st sp nout (repeat None k) rets = Ok l ->
  Forall2 (wraps_tens st sp) l rets.
Proof.
  induction rets as [|r rets IH]; intros k l Hw; cbn in Hw.
  - inversion Hw; subst. constructor.
  - assert (Hhd : (match repeat (@None operand) k with o :: _ => o | [] => None end) = None)
      by (destruct k; reflexivity).
    assert (Htl : exists k', (match repeat (@None operand) k with _ :: t => t | [] => [] end) = repeat None k')
      by (destruct k; [exists 0%nat | exists k]; reflexivity).
    destruct Htl as [k' Htl]. rewrite Hhd, Htl in Hw.
    destruct r as [id|v|]; cbn in Hw.
    + destruct (v_grow V && (nout =? 1)%nat).
      * destruct (ts_valid (meth_space sp (rd st id))) eqn:Ev.
        2:{ destruct (wrap_call st sp nout (repeat None k') rets); discriminate. }
        destruct (wrap_call st sp nout (repeat None k') rets) as [l'|] eqn:Ew; try discriminate.
        inversion Hw; subst. apply IH in Ew. constructor; auto.
        exists (meth_space sp (rd st id)), id. repeat split; auto.
        -- unfold meth_space. destruct (is_floating _); [destruct (shape_eqb _ _)|]; reflexivity.
        -- unfold meth_space. destruct (is_floating _); [destruct (shape_eqb _ _)|]; reflexivity.
      * destruct (negb (ts_valid (call_space sp nout (rd st id)))) eqn:Ev.
        { destruct (wrap_call st sp nout (repeat None k') rets); discriminate. }
        destruct (shape_eqb (a_shape (rd st id)) (ts_shape sp)) eqn:Es.
        2:{ destruct (wrap_call st sp nout (repeat None k') rets); discriminate. }
        destruct (wrap_call st sp nout (repeat None k') rets) as [l'|] eqn:Ew; try discriminate.
        inversion Hw; subst. apply IH in Ew. apply shape_eqb_eq in Es.
        constructor; auto.
        exists (call_space sp nout (rd st id)), id. repeat split; auto.
        -- unfold call_space. destruct (_ && _); cbn; congruence.
        -- unfold call_space. destruct (_ && _); cbn; reflexivity.
    + destruct (wrap_call st sp nout (repeat None k') rets); discriminate.
    + destruct (wrap_call st sp nout (repeat None k') rets); discriminate.
Qed.

(* SOUNDNESS, __call__, no out: whenever the ODL call returns, NumPy on the
   underlying arrays returns the same buffers in the same final store, and each
   returned element is a NumpyTensor over that buffer in a space whose shape
   and dtype are the buffer's. *)
Lemma forallb_valid_nones k : forallb (@tens_valid_out T) (repeat None k) = true.
Proof. induction k; cbn; auto. Qed.
Lemma pad_none_nones {A} n k : (k = 0 \/ k = n)%nat -> @pad_none A n (repeat None k) = repeat None n.
Proof.
  unfold pad_none. rewrite repeat_length. intros [->| ->]; cbn.
  - rewrite Nat.sub_0_r. reflexivity.
  - rewrite Nat.sub_diag. cbn. apply app_nil_r.
Qed.

(* out absent, or out=(None, ..., None) *)
Lemma tens_call_sound_gen (NP : npsem) (st : store) sp nout k ins kw rins rets st' :
  (k = 0 \/ k = nout)%nat ->
  map_opt tens_unwrap ins = Some rins ->
  tens_ufunc NP st sp nout MCall ins kw (repeat None k) = Ok (rets, st') ->
  exists rrets,
    raw_ufunc cast NP st MCall kw rins (repeat None nout) = Ok (rrets, st')
    /\ Forall2 (wraps_tens st' sp) rets rrets.
Proof.
  intros Hk Hu Ht. unfold tens_ufunc in Ht. rewrite repeat_length in Ht.
  destruct (negb (len_ok MCall nout k)); try discriminate.
  rewrite forallb_valid_nones in Ht. cbn [negb] in Ht.
  rewrite Hu in Ht. cbn [is_call] in Ht.
  destruct (negb ((nout =? 1)%nat || (nout =? 2)%nat)); try discriminate.
  rewrite (pad_none_nones nout k Hk), enter_all_none in Ht.
  destruct (raw_ufunc cast NP st MCall kw rins (repeat None nout)) as [[rrets st2]|] eqn:Er; try discriminate.
  rewrite exit_all_none in Ht.
  destruct (wrap_call st2 sp nout (repeat None nout) rrets) as [l|] eqn:Ew; try discriminate.
  inversion Ht; subst. exists rrets. split; auto.
  apply wrap_call_none in Ew. exact Ew.
Qed.

Lemma tens_call_sound (NP : npsem) (st : store) sp nout ins kw rins rets st' :
  map_opt tens_unwrap ins = Some rins ->
  tens_ufunc NP st sp nout MCall ins kw [] = Ok (rets, st') ->
  exists rrets,
    raw_ufunc cast NP st MCall kw rins (repeat None nout) = Ok (rrets, st')
    /\ Forall2 (wraps_tens st' sp) rets rrets.
Proof.
  intros Hu Ht. apply (tens_call_sound_gen NP st sp nout 0 ins kw rins rets st'); auto.
Qed.

(* COMPLETENESS, __call__, no out: if NumPy succeeds, every result is an array
   of the shape of self's space and the result space can be built (array
   weighting safely castable), the ODL call succeeds. *)
Lemma wrap_call_complete (st : store) sp nout : v_grow V = false -> forall rets k,
  Forall (fun rr => exists id, rr = RRBuf id /\ a_shape (rd st id) = ts_shape sp
                     /\ ts_valid (call_space sp nout (rd st id)) = true) rets ->
  exists l, wrap_call st sp nout (repeat None k) rets = Ok l.
Proof.
  intros HV. induction rets as [|r rets IH]; intros k HF; cbn.
  - eexists; reflexivity.
  - inversion HF as [|? ? (id & -> & Hs & Hv) HF']; subst.
    assert (Hhd : (match repeat (@None operand) k with o :: _ => o | [] => None end) = None)
      by (destruct k; reflexivity).
    assert (Htl : exists k', (match repeat (@None operand) k with _ :: t => t | [] => [] end) = repeat None k')
      by (destruct k; [exists 0%nat | exists k]; reflexivity).
    destruct Htl as [k' Htl]. rewrite Hhd, Htl.
    destruct (IH k' HF') as [l Hl]. rewrite Hl. cbn. rewrite HV, Hv, Hs, shape_eqb_refl. cbn.
    eexists; reflexivity.
Qed.

Lemma tens_call_complete (NP : npsem) (st : store) sp nout ins kw rins rrets st' :
  v_grow V = false ->
  map_opt tens_unwrap ins = Some rins ->
  (nout = 1 \/ nout = 2)%nat ->
  raw_ufunc cast NP st MCall kw rins (repeat None nout) = Ok (rrets, st') ->
  Forall (fun rr => exists id, rr = RRBuf id /\ a_shape (rd st' id) = ts_shape sp
                     /\ ts_valid (call_space sp nout (rd st' id)) = true) rrets ->
  exists rets, tens_ufunc NP st sp nout MCall ins kw [] = Ok (rets, st').
Proof.
  intros HV Hu Hn Hr HF. unfold Model.tens_ufunc. cbn [length len_ok is_call Nat.eqb orb negb forallb].
  rewrite Hu. cbn [is_call].
  replace (negb ((nout =? 1)%nat || (nout =? 2)%nat)) with false
    by (destruct Hn; subst; reflexivity).
  rewrite pad_none_nil, enter_all_none, Hr, exit_all_none.
  destruct (wrap_call_complete st' sp nout HV rrets nout HF) as [l Hl]. rewrite Hl.
  eexists; reflexivity.
Qed.

(* REPAIRED variant (result space takes the shape of the result), one output:
   complete with no shape guard at all *)
Lemma wrap_call_complete_repaired (st : store) sp : v_grow V = true -> forall rets k,
  Forall (fun rr => exists id, rr = RRBuf id /\ ts_valid (meth_space sp (rd st id)) = true) rets ->
  exists l, wrap_call st sp 1 (repeat None k) rets = Ok l.
Proof.
  intros HV. induction rets as [|r rets IH]; intros k HF; cbn.
  - eexists; reflexivity.
  - inversion HF as [|? ? (id & -> & Hv) HF']; subst.
    assert (Hhd : (match repeat (@None operand) k with o :: _ => o | [] => None end) = None)
      by (destruct k; reflexivity).
    assert (Htl : exists k', (match repeat (@None operand) k with _ :: t => t | [] => [] end) = repeat None k')
      by (destruct k; [exists 0%nat | exists k]; reflexivity).
    destruct Htl as [k' Htl]. rewrite Hhd, Htl.
    destruct (IH k' HF') as [l Hl]. rewrite Hl. cbn. rewrite HV, Hv. cbn.
    eexists; reflexivity.
Qed.
Lemma tens_call_complete_repaired (NP : npsem) (st : store) sp ins kw rins rrets st' :
  v_grow V = true ->
  map_opt tens_unwrap ins = Some rins ->
  raw_ufunc cast NP st MCall kw rins [None] = Ok (rrets, st') ->
  Forall (fun rr => exists id, rr = RRBuf id /\ ts_valid (meth_space sp (rd st' id)) = true) rrets ->
  exists rets, tens_ufunc NP st sp 1 MCall ins kw [] = Ok (rets, st').
Proof.
  intros HV Hu Hr HF. unfold Model.tens_ufunc. cbn [length len_ok is_call Nat.eqb orb negb forallb].
  rewrite Hu. cbn [is_call Nat.eqb orb negb].
  rewrite pad_none_nil. cbn [repeat]. change [@None operand] with (repeat (@None operand) 1).
  rewrite enter_all_none. cbn [repeat]. rewrite Hr.
  change [@None operand] with (repeat (@None operand) 1). change [@None nat] with (repeat (@None nat) 1).
  rewrite exit_all_none.
  destruct (wrap_call_complete_repaired st' sp HV rrets 1 HF) as [l Hl]. rewrite Hl.
  eexists; reflexivity.
Qed.

(* ---------- the other methods without out ---------- *)
Definition wraps_meth (st : store) (r : operand) (rr : @rret T) : Prop :=
  match rr with
  | RRScal v => r = OpScal v
  | RRNone => r = OpNone
  | RRBuf id => exists spc, r = OpTens spc id
                 /\ ts_shape spc = a_shape (rd st id) /\ ts_dt spc = a_dt (rd st id)
  end.

Lemma meth_space_shape sp (r : @narr T) : ts_shape (meth_space sp r) = a_shape r.
Proof. unfold meth_space. destruct (is_floating _); [destruct (shape_eqb _ _)|]; reflexivity. Qed.
Lemma meth_space_dt sp (r : @narr T) : ts_dt (meth_space sp r) = a_dt r.
Proof. unfold meth_space. destruct (is_floating _); [destruct (shape_eqb _ _)|]; reflexivity. Qed.

Lemma tens_meth_sound_gen (NP : npsem) (st : store) sp nout m ins kw rins outs rets st' :
  is_call m = false ->
  (outs = [] \/ outs = [None]) ->
  map_opt tens_unwrap ins = Some rins ->
  tens_ufunc NP st sp nout m ins kw outs = Ok (rets, st') ->
  exists rr,
    raw_ufunc cast NP st m kw rins (if is_at m then [] else [None]) = Ok ([rr], st')
    /\ exists r, rets = [r] /\ wraps_meth st' r rr.
Proof.
  intros Hm Ho Hu Ht. unfold tens_ufunc in Ht.
  assert (Hlen : len_ok m nout (length outs) = true)
    by (unfold len_ok; rewrite Hm; destruct Ho; subst; reflexivity).
  rewrite Hlen in Ht. cbn [negb] in Ht.
  assert (Hval : forallb (@tens_valid_out T) outs = true) by (destruct Ho; subst; reflexivity).
  rewrite Hval in Ht. cbn [negb] in Ht. rewrite Hu, Hm in Ht.
  assert (Hout : match outs with [Some o] => Some o | _ => None end = None)
    by (destruct Ho; subst; reflexivity).
  rewrite Hout in Ht.
  destruct (raw_ufunc cast NP st m kw rins (if is_at m then [] else [None])) as [[rrets st2]|] eqn:Er;
    try discriminate.
  destruct rrets as [|rr [|rr2 rrets]]; try discriminate.
  2:{ destruct rr; discriminate. }
  exists rr. destruct rr as [id|v|].
  - destruct (ts_valid (meth_space sp (rd st2 id))) eqn:Ev; try discriminate.
    inversion Ht; subst. split; auto. eexists; split; [reflexivity|].
    cbn. eexists; split; [reflexivity|]. split; [apply meth_space_shape | apply meth_space_dt].
  - inversion Ht; subst. split; auto. eexists; split; reflexivity.
  - inversion Ht; subst. split; auto. eexists; split; reflexivity.
Qed.

Lemma tens_meth_sound (NP : npsem) (st : store) sp nout m ins kw rins rets st' :
  is_call m = false ->
  map_opt tens_unwrap ins = Some rins ->
  tens_ufunc NP st sp nout m ins kw [] = Ok (rets, st') ->
  exists rr,
    raw_ufunc cast NP st m kw rins (if is_at m then [] else [None]) = Ok ([rr], st')
    /\ exists r, rets = [r] /\ wraps_meth st' r rr.
Proof.
  intros Hm Hu Ht. unfold tens_ufunc in Ht.
  assert (Hlen : len_ok m nout 0 = true) by (unfold len_ok; rewrite Hm; reflexivity).
  cbn [length] in Ht. rewrite Hlen in Ht. cbn [negb forallb] in Ht. rewrite Hu, Hm in Ht.
  destruct (raw_ufunc cast NP st m kw rins (if is_at m then [] else [None])) as [[rrets st2]|] eqn:Er;
    try discriminate.
  destruct rrets as [|rr [|rr2 rrets]]; try discriminate.
  2:{ destruct rr; discriminate. }
  exists rr. destruct rr as [id|v|].
  - destruct (ts_valid (meth_space sp (rd st2 id))) eqn:Ev; try discriminate.
    inversion Ht; subst. split; auto. eexists; split; [reflexivity|].
    cbn. eexists; split; [reflexivity|]. split; [apply meth_space_shape | apply meth_space_dt].
  - inversion Ht; subst. split; auto. eexists; split; reflexivity.
  - inversion Ht; subst. split; auto. eexists; split; reflexivity.
Qed.

Lemma tens_meth_complete (NP : npsem) (st : store) sp nout m ins kw rins rr st' :
  is_call m = false ->
  map_opt tens_unwrap ins = Some rins ->
  raw_ufunc cast NP st m kw rins (if is_at m then [] else [None]) = Ok ([rr], st') ->
  (forall id, rr = RRBuf id -> ts_valid (meth_space sp (rd st' id)) = true) ->
  exists r, tens_ufunc NP st sp nout m ins kw [] = Ok ([r], st').
Proof.
  intros Hm Hu Hr Hv. unfold tens_ufunc.
  assert (Hlen : len_ok m nout 0 = true) by (unfold len_ok; rewrite Hm; reflexivity).
  cbn [length]. rewrite Hlen. cbn [negb forallb]. rewrite Hu, Hm, Hr.
  destruct rr as [id|v|]; try (eexists; reflexivity).
  rewrite (Hv id eq_refl). eexists; reflexivity.
Qed.

(* ---------- out given (element, tensor or ndarray), no dtype= keyword ---------- *)
(* NumPy returns one value per output (one for every method of a 1-output ufunc) *)
Definition arity1 (NP : npsem) : Prop := forall q rs, NP q = Ok rs -> length rs = 1%nat.

Lemma raw_out_shape (NP : npsem) (st : store) m kw rins id rrets st2 :
  arity1 NP -> is_at m = false ->
  raw_ufunc cast NP st m kw rins [Some id] = Ok (rrets, st2) ->
  rrets = [RRBuf id].
Proof.
  intros Ha Hat Hr. unfold raw_ufunc in Hr.
  destruct (NP _) as [rs|e] eqn:En; try discriminate. apply Ha in En.
  rewrite Hat in Hr. destruct rs as [|r [|r2 rs]]; cbn in En; try discriminate.
  cbn in Hr.
  destruct (negb (can_cast (a_dt r) (a_dt (rd st id)))); try discriminate.
  destruct (negb (shape_eqb (a_shape r) (a_shape (rd st id)))); try discriminate.
  inversion Hr; reflexivity.
Qed.

(* The call returns the GIVEN container itself, and the final store is exactly
   the store NumPy leaves when it writes into the container's buffer. *)
Lemma tens_out_sound (NP : npsem) (st : store) sp m ins kw rins o id rets st' :
  arity1 NP -> is_at m = false -> kw_dtype kw = None ->
  tens_valid_out (Some o) = true -> op_buf o = Some id ->
  map_opt tens_unwrap ins = Some rins ->
  tens_ufunc NP st sp 1 m ins kw [Some o] = Ok (rets, st') ->
  rets = [o] /\ raw_ufunc cast NP st m kw rins [Some id] = Ok ([RRBuf id], st').
Proof.
  intros Ha Hat Hd Hv Hb Hu Ht. unfold tens_ufunc in Ht.
  assert (Hlen : len_ok m 1 1 = true) by (unfold len_ok; destruct (is_call m); reflexivity).
  cbn [length] in Ht. rewrite Hlen in Ht. cbn [negb forallb] in Ht. rewrite Hv in Ht.
  cbn [andb negb] in Ht. rewrite Hu in Ht.
  destruct (is_call m) eqn:Em.
  - destruct m; try discriminate. cbn [Nat.eqb orb negb] in Ht.
    unfold pad_none in Ht. cbn [length Nat.sub repeat app] in Ht.
    cbn [enter_all] in Ht. rewrite Hd, wa_enter_nodtype, Hb in Ht. cbn [enter_all] in Ht.
    destruct (raw_ufunc cast NP st MCall kw rins [Some id]) as [[rrets st2]|] eqn:Er; try discriminate.
    pose proof (raw_out_shape _ _ _ _ _ _ _ _ Ha Hat Er) as ->.
    cbn [exit_all] in Ht. rewrite <- Hb, wa_exit_same in Ht. cbn in Ht.
    inversion Ht; subst. split; reflexivity.
  - rewrite Hd, wa_enter_nodtype, Hat, Hb in Ht.
    destruct (raw_ufunc cast NP st m kw rins [Some id]) as [[rrets st2]|] eqn:Er; try discriminate.
    pose proof (raw_out_shape _ _ _ _ _ _ _ _ Ha Hat Er) as ->.
    rewrite <- Hb, wa_exit_same in Ht. inversion Ht; subst. split; reflexivity.
Qed.

Lemma tens_out_complete (NP : npsem) (st : store) sp m ins kw rins o id rrets st' :
  arity1 NP -> is_at m = false -> kw_dtype kw = None ->
  tens_valid_out (Some o) = true -> op_buf o = Some id ->
  map_opt tens_unwrap ins = Some rins ->
  raw_ufunc cast NP st m kw rins [Some id] = Ok (rrets, st') ->
  tens_ufunc NP st sp 1 m ins kw [Some o] = Ok ([o], st').
Proof.
  intros Ha Hat Hd Hv Hb Hu Hr. unfold tens_ufunc.
  assert (Hlen : len_ok m 1 1 = true) by (unfold len_ok; destruct (is_call m); reflexivity).
  cbn [length]. rewrite Hlen. cbn [negb forallb]. rewrite Hv. cbn [andb negb]. rewrite Hu.
  pose proof (raw_out_shape _ _ _ _ _ _ _ _ Ha Hat Hr) as ->.
  destruct (is_call m) eqn:Em.
  - destruct m; try discriminate. cbn [Nat.eqb orb negb].
    unfold pad_none. cbn [length Nat.sub repeat app].
    cbn [enter_all]. rewrite Hd, wa_enter_nodtype, Hb. cbn [enter_all]. rewrite Hr.
    cbn [exit_all]. rewrite <- Hb, wa_exit_same. cbn. reflexivity.
  - rewrite Hd, wa_enter_nodtype, Hat, Hb, Hr. rewrite <- Hb, wa_exit_same. reflexivity.
Qed.


(* ---------- out together with dtype= of another type: writable_array's
   temporary copy and write-back ---------- *)
Lemma rd_app_old (st : store) a j : (j < length st)%nat -> rd (st ++ [a]) j = rd st j.
Proof. intros Hj. unfold rd. apply app_nth1. exact Hj. Qed.
Lemma rd_app_new (st : store) a : rd (st ++ [a]) (length st) = a.
Proof. unfold rd. rewrite app_nth2 by lia. rewrite Nat.sub_diag. reflexivity. Qed.

Definition rop_in_range (n : nat) (r : @rop T) : Prop :=
  match r with RopBuf i => (i < n)%nat | RopScal _ => True end.
Lemma raw_in_app (st : store) a rins :
  Forall (rop_in_range (length st)) rins -> map (raw_in (st ++ [a])) rins = map (raw_in st) rins.
Proof.
  induction 1 as [|r rins Hr _ IH]; cbn; [reflexivity|]. rewrite IH. f_equal.
  destruct r; cbn in *; [rewrite rd_app_old by exact Hr|]; reflexivity.
Qed.

Section OutDtype.
Variables (NP : npsem) (st : store) (m : meth) (kw : kwargs) (rins : list (@rop T))
          (id : nat) (d : dt) (r : @narr T).
Hypothesis Hat : is_at m = false.
Hypothesis Hid : (id < length st)%nat.
Hypothesis Hrng : Forall (rop_in_range (length st)) rins.
(* NumPy: with dtype= given, the result does not depend on the dtype of out *)
Hypothesis HNP : forall odt, NP (mkReq m kw (map (raw_in st) rins) [Some (odt, a_shape (rd st id))]) = Ok [r].
Hypothesis Hrd : a_dt r = d.
Hypothesis Hshape : shape_eqb (a_shape r) (a_shape (rd st id)) = true.
Hypothesis Hcast : can_cast d (a_dt (rd st id)) = true.

Let tmp := cast_arr cast d (rd st id).
Let st1 := st ++ [tmp].

Lemma can_cast_refl x : can_cast x x = true.
Proof. destruct x; reflexivity. Qed.

Lemma raw_on_temporary :
  raw_ufunc cast NP st1 m kw rins [Some (length st)]
  = Ok ([RRBuf (length st)], wr st1 (length st) (assign_into cast tmp r)).
Proof.
  unfold raw_ufunc. cbn [map out_descr option_map]. unfold st1.
  rewrite raw_in_app by exact Hrng. rewrite rd_app_new.
  change (a_shape tmp) with (a_shape (rd st id)). change (a_dt tmp) with d.
  rewrite HNP, Hat. cbn [place]. rewrite rd_app_new.
  change (a_shape tmp) with (a_shape (rd st id)). change (a_dt tmp) with d.
  rewrite Hrd, can_cast_refl, Hshape. reflexivity.
Qed.
Lemma raw_direct :
  raw_ufunc cast NP st m kw rins [Some id]
  = Ok ([RRBuf id], wr st id (assign_into cast (rd st id) r)).
Proof.
  unfold raw_ufunc. cbn [map out_descr option_map]. rewrite HNP, Hat. cbn [place].
  rewrite Hrd, Hcast, Hshape. reflexivity.
Qed.

Lemma write_back (o : operand) : op_buf o = Some id -> (forall v, cast d d v = v) ->
  let st3 := wa_exit cast (wr st1 (length st) (assign_into cast tmp r)) o (Some (length st)) in
  a_data (rd st3 id) = map (cast d (a_dt (rd st id))) (a_data r)
  /\ a_dt (rd st3 id) = a_dt (rd st id)
  /\ forall j, (j < length st)%nat -> j <> id -> rd st3 j = rd st j.
Proof.
  intros Hb Hcc st3. unfold st3, wa_exit. rewrite Hb.
  assert (Hidne : (id =? length st)%nat = false) by (apply Nat.eqb_neq; lia).
  rewrite Hidne.
  assert (Hl1 : length st1 = S (length st)) by (unfold st1; rewrite app_length; cbn; lia).
  rewrite rd_wr_same by (rewrite wr_length; lia).
  rewrite (rd_wr_other _ (length st) id) by lia.
  rewrite rd_wr_same by lia.
  unfold st1 at 1 2. rewrite rd_app_old by exact Hid.
  unfold assign_into. cbn [a_data a_dt]. change (a_dt tmp) with d. rewrite Hrd, map_map.
  split; [apply map_ext; intros v; rewrite Hcc; reflexivity|]. split; [reflexivity|].
  intros j Hj Hjid. rewrite rd_wr_other by congruence. rewrite rd_wr_other by lia.
  unfold st1. apply rd_app_old. exact Hj.
Qed.

(* the ODL call with out=o (buffer id, dtype <> d) and dtype=d *)
Lemma tens_out_dtype_kw sp ins o :
  kw_dtype kw = Some d ->
  tens_valid_out (Some o) = true -> op_buf o = Some id ->
  dt_eqb d (a_dt (rd st id)) = false ->
  map_opt tens_unwrap ins = Some rins ->
  (forall v, cast d d v = v) ->
  exists st' str,
    tens_ufunc NP st sp 1 m ins kw [Some o] = Ok ([o], st')
    /\ raw_ufunc cast NP st m kw rins [Some id] = Ok ([RRBuf id], str)
    /\ a_data (rd st' id) = a_data (rd str id) /\ a_dt (rd st' id) = a_dt (rd str id)
    /\ forall j, (j < length st)%nat -> j <> id -> rd st' j = rd st j /\ rd str j = rd st j.
Proof.
  intros Hd Hv Hb Hne Hu Hcc.
  destruct (write_back o Hb Hcc) as (Hdat & Hdt & Hfr).
  exists (wa_exit cast (wr st1 (length st) (assign_into cast tmp r)) o (Some (length st))),
         (wr st id (assign_into cast (rd st id) r)).
  assert (Henter : wa_enter cast st o (Some d) = (st1, Some (length st))).
  { unfold wa_enter. rewrite Hb, Hne. reflexivity. }
  split; [| split; [exact raw_direct|]].
  - unfold Model.tens_ufunc.
    assert (Hlen : len_ok m 1 1 = true) by (unfold len_ok; destruct (is_call m); reflexivity).
    cbn [length]. rewrite Hlen. cbn [negb forallb]. rewrite Hv. cbn [andb negb]. rewrite Hu.
    destruct (is_call m) eqn:Em.
    + pose proof (is_call_MCall m Em) as Hm. cbn [Nat.eqb orb negb].
      unfold pad_none. cbn [length Nat.sub repeat app].
      cbn [enter_all]. rewrite Hd, Henter. cbn [enter_all]. rewrite <- Hm, raw_on_temporary.
      cbn [exit_all]. cbn. reflexivity.
    + rewrite Hd, Henter, Hat, raw_on_temporary. reflexivity.
  - rewrite rd_wr_same by exact Hid. unfold assign_into at 2 4. cbn [a_data a_dt]. rewrite Hrd.
    split; [exact Hdat|]. split; [exact Hdt|].
    intros j Hj Hjid. split; [apply Hfr; assumption | apply rd_wr_other; congruence].
Qed.
End OutDtype.

(* x.asarray() of space.element(arr) is arr itself when dtype and shape match *)
Lemma element_shares (st : store) (sp : tspace) (id : nat) :
  shape_eqb (a_shape (rd st id)) (ts_shape sp) = true ->
  dt_eqb (a_dt (rd st id)) (ts_dt sp) = true ->
  t_element cast st sp (OpArr id) = Ok (OpTens sp id, st)
  /\ asarray (OpTens sp id : operand) = Some id.
Proof.
  intros Hs Hd. unfold t_element. rewrite Hs, Hd. cbn. split; reflexivity.
Qed.

(* any layout is shared when order is None; an explicit order the array does not
   have, or a read-only array, gives a fresh converted copy and leaves the
   store's old buffers alone *)
Lemma element_shares_any_layout (st : store) (sp : tspace) (id : nat) (l : layout) :
  shape_eqb (a_shape (rd st id)) (ts_shape sp) = true ->
  dt_eqb (a_dt (rd st id)) (ts_dt sp) = true ->
  t_element_lay cast st sp id true l None = Ok (OpTens sp id, st).
Proof. intros Hs Hd. unfold t_element_lay. rewrite Hs, Hd. destruct l; reflexivity. Qed.
Lemma element_copies_otherwise (st : store) (sp : tspace) (id : nat) w l o :
  shape_eqb (a_shape (rd st id)) (ts_shape sp) = true ->
  dt_eqb (a_dt (rd st id)) (ts_dt sp) && w && layout_ok o l = false ->
  t_element_lay cast st sp id w l o
  = Ok (OpTens sp (length st), st ++ [cast_arr cast (ts_dt sp) (rd st id)]).
Proof. intros Hs Hc. unfold t_element_lay. rewrite Hs, Hc. reflexivity. Qed.

(* x.ufuncs.add(y, out=(o,)) = x.ufuncs.add(y, out=o) = np.add(x, y, out=o): the
   tuple form of out is the bare form *)
Lemma legacy_out_tuple_form (NP : npsem) (st : store) sp m ins kw (o : option operand) :
  legacy_tens_call cast V NP st sp m ins kw (LTuple [o]) = legacy_tens_call cast V NP st sp m ins kw (LOne o)
  /\ legacy_tens_call cast V NP st sp m ins kw (LOne o) = tens_ufunc NP st sp 1 m ins kw [o].
Proof. split; reflexivity. Qed.

End Proofs.
