(* C17/Proofs.v -- lemmas about C17/Model.v (abstract carrier, abstract NumPy). *)
From Coq Require Import ZArith QArith List Bool Arith Lia.
From Verif Require Import Base.Num Lib.Axis C17.Arr C17.Model.
Import ListNotations.

Section Proofs.
Context {T : Type} `{Num T}.
Variable cast : dt -> dt -> T -> T.

(* x.asarray() of space.element(arr) is arr itself when dtype and shape match *)
Lemma element_shares (st : @store T) (sp : tspace) (id : nat) :
  shape_eqb (a_shape (rd st id)) (ts_shape sp) = true ->
  dt_eqb (a_dt (rd st id)) (ts_dt sp) = true ->
  t_element cast st sp (OpArr id) = Ok (OpTens sp id, st)
  /\ asarray (OpTens sp id : @operand T) = Some id.
Proof.
  intros Hs Hd. unfold t_element. rewrite Hs, Hd. cbn. split; reflexivity.
Qed.
End Proofs.
