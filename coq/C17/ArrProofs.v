(* C17/ArrProofs.v -- laws of the ufunc methods of C17/Arr.v for ALL sizes:
   shape laws, accumulate vs reduce, at with repeated indices, outer, reduceat.
   Structural facts for an arbitrary carrier, algebraic ones at R. *)
From Coq Require Import ZArith Reals Lra List Bool Arith Lia.
From Verif Require Import Base.Num Base.Vec Base.VecR Lib.Axis C17.Arr.
Import ListNotations.

Section Generic.
Context {T : Type} `{Num T}.

Lemma vmap2_len (f : T -> T -> T) (x y : list T) :
  length x = length y -> length (vmap2 f x y) = length x.
Proof.
  revert y; induction x as [|a x IH]; intros [|b y] Hl; cbn in *; try congruence.
  f_equal; apply IH; congruence.
Qed.

(* ---------- chunks ---------- *)
Lemma chunks_length {A} k n (l : list A) : length (chunks k n l) = n.
Proof. revert l; induction n as [|n IH]; intros l; cbn; auto. Qed.
Lemma chunks_all_length {A} k n (l : list A) : length l = (n * k)%nat ->
  Forall (fun c => length c = k) (chunks k n l).
Proof.
  revert l; induction n as [|n IH]; intros l Hl; cbn; constructor.
  - rewrite firstn_length. cbn in Hl. lia.
  - apply IH. rewrite skipn_length. cbn in Hl. lia.
Qed.
Lemma concat_chunks {A} k n (l : list A) : length l = (n * k)%nat -> concat (chunks k n l) = l.
Proof.
  revert l; induction n as [|n IH]; intros l Hl; cbn.
  - destruct l; cbn in Hl; [reflexivity | discriminate].
  - rewrite IH by (rewrite skipn_length; cbn in Hl; lia). apply firstn_skipn.
Qed.
Lemma concat_length_const {A} k (ls : list (list A)) :
  Forall (fun c => length c = k) ls -> length (concat ls) = (length ls * k)%nat.
Proof. induction 1 as [|c ls Hc _ IH]; cbn; auto. rewrite app_length, IH, Hc. reflexivity. Qed.

(* ---------- rows ---------- *)
Lemma fold_rows_length (f : T -> T -> T) k (rs : list (list T)) (r : list T) :
  length r = k -> Forall (fun c => length c = k) rs ->
  length (fold_left (vmap2 f) rs r) = k.
Proof.
  intros Hr HF. revert r Hr. induction HF as [|c rs Hc _ IH]; intros r Hr; cbn; auto.
  apply IH. rewrite vmap2_len; congruence.
Qed.

Lemma red_rows_length o inner (rs : list (list T)) l :
  Forall (fun c => length c = inner) rs -> red_rows o inner rs = Some l -> length l = inner.
Proof.
  intros HF Hr. destruct rs as [|r rs]; cbn in Hr.
  - destruct (bop_ident o); inversion Hr; subst. apply repeat_length.
  - inversion Hr; subst. inversion HF; subst. apply fold_rows_length; auto.
Qed.

(* scan: entry j is the fold of the first j further elements *)
Lemma scan_length {A} (f : A -> A -> A) a (l : list A) : length (scan f a l) = S (length l).
Proof. revert a; induction l as [|b l IH]; intros a; cbn; auto. Qed.
Lemma scan_nth {A} (f : A -> A -> A) (d : A) (l : list A) : forall a j, (j <= length l)%nat ->
  nth j (scan f a l) d = fold_left f (firstn j l) a.
Proof.
  induction l as [|b l IH]; intros a [|j] Hj; cbn in *; auto; try lia.
  apply IH. lia.
Qed.

(* accumulate keeps the number of rows; entry j is the reduce of rows 0..j; in
   particular THE LAST ENTRY OF accumulate IS reduce (every n >= 1, every inner) *)
Lemma acc_rows_length o (rs : list (list T)) : length (acc_rows o rs) = length rs.
Proof. destruct rs; cbn; auto. apply scan_length. Qed.
Lemma acc_rows_nth o inner (rs : list (list T)) j : (j < length rs)%nat ->
  Some (nth j (acc_rows o rs) []) = red_rows o inner (firstn (S j) rs).
Proof.
  destruct rs as [|r rs]; cbn; intros Hj; [lia|].
  rewrite scan_nth by lia. reflexivity.
Qed.
Lemma last_as_nth {A} (l : list A) d : last l d = nth (length l - 1) l d.
Proof.
  induction l as [|a [|b l] IH]; cbn in *; auto. rewrite IH. rewrite Nat.sub_0_r. reflexivity.
Qed.
Lemma acc_rows_last o inner (rs : list (list T)) : rs <> [] ->
  Some (last (acc_rows o rs) []) = red_rows o inner rs.
Proof.
  intros Hne. destruct rs as [|r rs]; [congruence|].
  rewrite last_as_nth, acc_rows_length. cbn [length]. rewrite Nat.sub_succ, Nat.sub_0_r.
  rewrite (acc_rows_nth o inner) by (cbn; lia).
  rewrite firstn_all2 by (cbn; lia). reflexivity.
Qed.
Lemma scan_all_length (f : T -> T -> T) k (rs : list (list T)) : forall r,
  length r = k -> Forall (fun c => length c = k) rs ->
  Forall (fun c => length c = k) (scan (vmap2 f) r rs).
Proof.
  induction rs as [|c rs IH]; intros r Hr HF; cbn; constructor; auto.
  inversion HF; subst. apply IH; auto. rewrite vmap2_len; congruence.
Qed.
Lemma acc_rows_all_length o k (rs : list (list T)) :
  Forall (fun c => length c = k) rs -> Forall (fun c => length c = k) (acc_rows o rs).
Proof.
  destruct rs as [|r rs]; cbn; intros HF; [constructor|].
  inversion HF; subst. apply scan_all_length; auto.
Qed.

(* ---------- shape laws ---------- *)
Lemma along_rows_length outer n inner n' (G : list (list T) -> list (list T)) (d : list T) :
  length d = (outer * (n * inner))%nat ->
  (forall rs, length rs = n -> Forall (fun c => length c = inner) rs ->
              length (G rs) = n' /\ Forall (fun c => length c = inner) (G rs)) ->
  length (along_rows outer n inner G d) = (outer * (n' * inner))%nat.
Proof.
  intros Hd HG. unfold along_rows.
  rewrite (concat_length_const (n' * inner)).
  - rewrite map_length, chunks_length. reflexivity.
  - apply Forall_map. pose proof (chunks_all_length (n * inner) outer d Hd) as HF.
    eapply Forall_impl; [|exact HF]. cbn. intros blk Hb.
    destruct (HG (chunks inner n blk)) as [Hl HF'].
    + apply chunks_length.
    + apply chunks_all_length. lia.
    + rewrite (concat_length_const inner) by exact HF'. rewrite Hl. reflexivity.
Qed.

(* accumulate keeps the shape *)
Lemma accumulate_ax_length o outer n inner (d : list T) :
  length d = (outer * (n * inner))%nat ->
  length (accumulate_ax o outer n inner d) = (outer * (n * inner))%nat.
Proof.
  intros Hd. apply along_rows_length; auto. intros rs Hl HF. split.
  - rewrite acc_rows_length. exact Hl.
  - apply acc_rows_all_length. exact HF.
Qed.

Lemma opt_all_Some {A} (l : list (option A)) r : opt_all l = Some r ->
  length r = length l /\ Forall2 (fun o a => o = Some a) l r.
Proof.
  revert r; induction l as [|[a|] l IH]; intros r Hr; cbn in Hr; try discriminate.
  - inversion Hr; subst. split; constructor.
  - destruct (opt_all l) as [r'|]; cbn in Hr; inversion Hr; subst.
    destruct (IH r' eq_refl) as [Hl HF]. split; cbn; [congruence | constructor; auto].
Qed.

(* reduce removes the axis: outer x n x inner -> outer x inner *)
Lemma reduce_ax_length o outer n inner (d : list T) r :
  length d = (outer * (n * inner))%nat ->
  reduce_ax o outer n inner d = Some r -> length r = (outer * inner)%nat.
Proof.
  intros Hd Hr. unfold reduce_ax in Hr.
  assert (Hr' : option_map (@concat T)
      (opt_all (map (fun blk => red_rows o inner (chunks inner n blk)) (chunks (n * inner) outer d))) = Some r).
  { destruct n; [destruct (bop_ident o); [exact Hr | discriminate] | exact Hr]. }
  clear Hr. destruct (opt_all _) as [ls|] eqn:Eo; cbn in Hr'; inversion Hr'; subst.
  apply opt_all_Some in Eo as [Hl HF]. rewrite map_length, chunks_length in Hl.
  rewrite (concat_length_const inner); [congruence|].
  pose proof (chunks_all_length (n * inner) outer d Hd) as HC.
  revert HF HC. generalize (chunks (n * inner) outer d) as blks.
  intros blks HF. revert HF. generalize ls as ls'. induction blks as [|b blks IH]; intros ls' HF HC; cbn in HF.
  - inversion HF; constructor.
  - inversion HF; subst. inversion HC; subst. constructor; [| apply IH; auto].
    eapply red_rows_length; [| eauto]. apply chunks_all_length. lia.
Qed.

(* outer: shape is the concatenation of the shapes, entries are all pairs *)
Lemma outer_length o (x y : list T) : length (outer o x y) = (length x * length y)%nat.
Proof.
  unfold outer. induction x as [|a x IH]; cbn; auto.
  rewrite app_length, map_length, IH. reflexivity.
Qed.
Lemma outer_nth o (x y : list T) d i j : (i < length x)%nat -> (j < length y)%nat ->
  nth (i * length y + j) (outer o x y) d = bop_ev o (nth i x d) (nth j y d).
Proof.
  unfold outer. revert i; induction x as [|a x IH]; intros i Hi Hj; cbn in *; [lia|].
  destruct i as [|i]; cbn.
  - rewrite app_nth1 by (rewrite map_length; exact Hj).
    rewrite (nth_indep _ d (bop_ev o a d)) by (rewrite map_length; exact Hj).
    apply map_nth.
  - rewrite app_nth2 by (rewrite map_length; lia). rewrite map_length.
    replace (length y + i * length y + j - length y)%nat with (i * length y + j)%nat by lia.
    apply IH; lia.
Qed.

Lemma outer_shape_entries o (x y : list T) :
  length (outer o x y) = (length x * length y)%nat
  /\ forall d i j, (i < length x)%nat -> (j < length y)%nat ->
       nth (i * length y + j) (outer o x y) d = bop_ev o (nth i x d) (nth j y d).
Proof. split; [apply outer_length | intros; apply outer_nth; assumption]. Qed.

(* reduceat: one output row per index *)
Lemma reduceat_rows_length o (rs : list (list T)) idx : length (reduceat_rows o rs idx) = length idx.
Proof. induction idx as [|i idx IH]; cbn; auto. Qed.
(* reduceat with the single index 0 is reduce (n >= 1) *)
Lemma reduceat_rows_zero o inner (rs : list (list T)) : rs <> [] ->
  Some (nth 0 (reduceat_rows o rs [0%nat]) []) = red_rows o inner rs.
Proof.
  destruct rs as [|r rs]; [congruence|]. intros _. cbn [reduceat_rows nth].
  replace (0 <? length (r :: rs))%nat with true by (cbn; reflexivity).
  unfold slice. cbn [skipn]. rewrite Nat.sub_0_r, firstn_all. reflexivity.
Qed.

(* ---------- at ---------- *)
Lemma updn_length {A} i (g : A -> A) (l : list A) : length (updn i g l) = length l.
Proof. revert i; induction l as [|a l IH]; intros [|i]; cbn; auto. Qed.
Lemma updn_nth_same {A} i (g : A -> A) (l : list A) d : (i < length l)%nat ->
  nth i (updn i g l) d = g (nth i l d).
Proof. revert i; induction l as [|a l IH]; intros [|i] Hi; cbn in *; try lia; auto. apply IH; lia. Qed.
Lemma updn_nth_other {A} i j (g : A -> A) (l : list A) d : i <> j ->
  nth j (updn i g l) d = nth j l d.
Proof.
  revert i j; induction l as [|a l IH]; intros [|i] [|j] Hij; cbn; auto; try congruence.
Qed.

Lemma at2_length o (a : list T) ivs : length (at2 o a ivs) = length a.
Proof.
  unfold at2. revert a; induction ivs as [|iv ivs IH]; intros a; cbn; auto.
  rewrite IH. apply updn_length.
Qed.
(* entries whose index does not occur are untouched *)
Lemma at2_frame o (a : list T) ivs j d : ~ In j (map fst ivs) -> nth j (at2 o a ivs) d = nth j a d.
Proof.
  unfold at2. revert a; induction ivs as [|iv ivs IH]; intros a Hn; cbn in *; auto.
  rewrite IH by tauto. apply updn_nth_other. tauto.
Qed.
Lemma at2_length_frame o (a : list T) ivs :
  length (at2 o a ivs) = length a
  /\ forall j d, ~ In j (map fst ivs) -> nth j (at2 o a ivs) d = nth j a d.
Proof. split; [apply at2_length | intros; apply at2_frame; assumption]. Qed.
(* with distinct indices, at equals the buffered fancy-index assignment *)
Lemma at2_fancy2_nodup o (a : list T) ivs : NoDup (map fst ivs) ->
  Forall (fun iv => (fst iv < length a)%nat) ivs ->
  forall j, nth j (at2 o a ivs) nzero = nth j (fancy2 o a ivs) nzero.
Proof.
  unfold at2, fancy2. intros Hnd Hr j.
  (* generalise: accumulator [acc] agrees with [a] on the indices still to come *)
  assert (G : forall acc acc' : list T,
    length acc = length a -> length acc' = length a ->
    (forall i, In i (map fst ivs) -> nth i acc nzero = nth i a nzero) ->
    (forall i, nth i acc nzero = nth i acc' nzero) ->
    nth j (fold_left (fun acc iv => updn (fst iv) (fun x => bop_ev o x (snd iv)) acc) ivs acc) nzero =
    nth j (fold_left (fun acc iv => updn (fst iv) (fun _ => bop_ev o (nth (fst iv) a nzero) (snd iv)) acc) ivs acc') nzero).
  { revert Hnd Hr. induction ivs as [|[i v] ivs IH]; intros Hnd Hr acc acc' Hl Hl' Hag Heq; cbn in *.
    - apply Heq.
    - inversion Hnd as [|? ? Hni Hnd']; subst. inversion Hr as [|? ? Hi Hr']; subst. cbn in Hi.
      apply IH; auto.
      + rewrite updn_length; exact Hl.
      + rewrite updn_length; exact Hl'.
      + intros k Hk. rewrite updn_nth_other by (intros E; subst; contradiction). apply Hag. right; exact Hk.
      + intros k. destruct (Nat.eq_dec i k) as [->|Hne].
        * rewrite !updn_nth_same by lia. rewrite Hag by (left; reflexivity). reflexivity.
        * rewrite !updn_nth_other by exact Hne. apply Heq. }
  apply G; auto.
Qed.

End Generic.

(* ---------- algebraic laws at R ---------- *)
Local Open Scope R_scope.

(* add.at ACCUMULATES over repeated indices: entry j gets every value whose
   index is j (all lengths, all index lists, any repetitions) *)
Fixpoint sum_at (j : nat) (ivs : list (nat * R)) : R :=
  match ivs with
  | [] => 0
  | (i, v) :: r => (if Nat.eqb i j then v else 0) + sum_at j r
  end.
Lemma at2_add_accumulates (a : list R) ivs j :
  (j < length a)%nat ->
  nth j (at2 BAdd a ivs) 0 = nth j a 0 + sum_at j ivs.
Proof.
  unfold at2. revert a; induction ivs as [|[i v] ivs IH]; intros a Hj; cbn [fold_left sum_at fst snd].
  - lra.
  - rewrite IH by (rewrite updn_length; exact Hj).
    destruct (Nat.eqb_spec i j) as [->|Hne].
    + rewrite updn_nth_same by exact Hj. cbn [bop_ev]. numR. lra.
    + rewrite updn_nth_other by exact Hne. lra.
Qed.
(* ... whereas the buffered a[idx] += v does not: witness *)
Lemma at_vs_fancy_repeated :
  nth 0 (at2 BAdd [0] [(0%nat, 1); (0%nat, 1)]) 0 = 2 /\
  nth 0 (fancy2 BAdd [0] [(0%nat, 1); (0%nat, 1)]) 0 = 1.
Proof. cbn. numR. split; lra. Qed.

(* sums: reduce(add) along any axis preserves the total *)
Lemma sumf_vadd_rows (x y : list R) : length x = length y ->
  sumf (vmap2 (bop_ev BAdd) x y) = sumf x + sumf y.
Proof.
  revert y; induction x as [|a x IH]; intros [|b y] Hl; cbn in *; try congruence.
  - numR. lra.
  - rewrite IH by congruence. numR. lra.
Qed.
Fixpoint sum_rows (rs : list (list R)) : R :=
  match rs with [] => 0 | r :: rs' => sumf r + sum_rows rs' end.
Lemma sumf_concat (rs : list (list R)) : sumf (concat rs) = sum_rows rs.
Proof. induction rs as [|r rs IH]; cbn; [reflexivity | rewrite sumf_app, IH; reflexivity]. Qed.
Lemma sumf_fold_add k (rs : list (list R)) (r : list R) :
  length r = k -> Forall (fun c => length c = k) rs ->
  sumf (fold_left (vmap2 (bop_ev BAdd)) rs r) = sumf r + sum_rows rs.
Proof.
  intros Hr HF. revert r Hr. induction HF as [|c rs Hc _ IH]; intros r Hr; cbn.
  - lra.
  - rewrite IH by (rewrite vmap2_len; congruence). rewrite sumf_vadd_rows by congruence. lra.
Qed.
Lemma sumf_repeat0 n : sumf (repeat (0:R) n) = 0.
Proof. induction n; cbn; numR; [reflexivity | rewrite IHn; lra]. Qed.
Lemma red_rows_add_sum inner (rs : list (list R)) l :
  Forall (fun c => length c = inner) rs -> red_rows BAdd inner rs = Some l ->
  sumf l = sum_rows rs.
Proof.
  intros HF Hr. destruct rs as [|r rs]; cbn in Hr; inversion Hr; subst.
  - cbn. numR. apply sumf_repeat0.
  - inversion HF; subst. cbn. eapply sumf_fold_add; eauto.
Qed.
Lemma reduce_add_preserves_sum outer n inner (d r : list R) :
  length d = (outer * (n * inner))%nat ->
  reduce_ax BAdd outer n inner d = Some r -> sumf r = sumf d.
Proof.
  intros Hd Hr. unfold reduce_ax in Hr.
  assert (Hr' : option_map (@concat R)
      (opt_all (map (fun blk => red_rows BAdd inner (chunks inner n blk)) (chunks (n * inner) outer d))) = Some r).
  { destruct n; exact Hr. }
  clear Hr. destruct (opt_all _) as [ls|] eqn:Eo; cbn in Hr'; inversion Hr'; subst.
  apply opt_all_Some in Eo as [_ HF].
  rewrite <- (concat_chunks (n * inner) outer d Hd) at 1.
  pose proof (chunks_all_length (n * inner) outer d Hd) as HC.
  rewrite !sumf_concat. revert HF HC. generalize (chunks (n * inner) outer d) as blks.
  intros blks HF. revert HF. generalize ls as ls'.
  induction blks as [|b blks IH]; intros ls' HF HC; cbn in HF; inversion HF; subst; cbn; auto.
  inversion HC; subst. rewrite (IH l'); auto. f_equal.
  rewrite (red_rows_add_sum inner (chunks inner n b) y); auto.
  - rewrite <- sumf_concat, concat_chunks by lia. reflexivity.
  - apply chunks_all_length. lia.
Qed.

(* sum of the outer product = product of the sums *)
Lemma sumf_map_mul a (y : list R) : sumf (map (bop_ev BMul a) y) = a * sumf y.
Proof. induction y as [|b y IH]; cbn; numR; [lra | rewrite IH; lra]. Qed.
Lemma outer_mul_sum (x y : list R) : sumf (outer BMul x y) = sumf x * sumf y.
Proof.
  unfold outer. induction x as [|a x IH]; cbn; numR; [lra|].
  rewrite sumf_app, sumf_map_mul, IH. lra.
Qed.

(* ---------- several axes: every rank, every list of valid axes ---------- *)
Lemma prodn_app (a b : list nat) : prodn (a ++ b) = (prodn a * prodn b)%nat.
Proof.
  induction a as [|x a IH]; cbn [app].
  - change (prodn []) with 1%nat. lia.
  - change (prodn (x :: a ++ b)) with (x * prodn (a ++ b))%nat.
    change (prodn (x :: a)) with (x * prodn a)%nat. rewrite IH. apply Nat.mul_assoc.
Qed.
Lemma prodn_split (s : list nat) ax : (ax < length s)%nat ->
  prodn s = (outer_of s ax * (nth ax s 0%nat * inner_of s ax))%nat.
Proof.
  intros Hax. unfold outer_of, inner_of.
  rewrite <- (firstn_skipn ax s) at 1. rewrite prodn_app. f_equal.
  assert (Hs : skipn ax s = nth ax s 0%nat :: skipn (S ax) s).
  { revert ax Hax. induction s as [|x s IH]; intros [|ax] Hax; cbn in *; try lia; auto. apply IH. lia. }
  rewrite Hs. reflexivity.
Qed.
Lemma prodn_remove (s : list nat) ax : prodn (remove_ax s ax) = (outer_of s ax * inner_of s ax)%nat.
Proof. unfold remove_ax, outer_of, inner_of. apply prodn_app. Qed.
Lemma remove_ax_length (s : list nat) ax : (ax < length s)%nat -> length (remove_ax s ax) = (length s - 1)%nat.
Proof.
  intros Hax. unfold remove_ax. rewrite app_length, firstn_length, skipn_length. lia.
Qed.

(* add.reduce over ANY list of axes (each valid for the shape it is applied
   to, e.g. distinct axes in decreasing order): the result has the size of the
   remaining shape and the same total -- in particular reducing all axes gives
   the sum of all entries. *)
Fixpoint axes_valid (rank : nat) (axes : list nat) : Prop :=
  match axes with
  | [] => True
  | ax :: rest => (ax < rank)%nat /\ axes_valid (rank - 1) rest
  end.
Lemma reduce_axes_add_total : forall (axes : list nat) (shape : list nat) (d : list R) shape' d',
  axes_valid (length shape) axes ->
  length d = prodn shape ->
  reduce_axes BAdd shape axes d = Some (shape', d') ->
  length d' = prodn shape' /\ sumf d' = sumf d
  /\ length shape' = (length shape - length axes)%nat.
Proof.
  induction axes as [|ax rest IH]; intros shape d shape' d' Hv Hl Hr; cbn in Hr.
  - inversion Hr; subst. repeat split; auto. cbn. lia.
  - destruct Hv as [Hax Hv].
    destruct (reduce_axis BAdd shape ax d) as [d1|] eqn:E1; try discriminate.
    unfold reduce_axis in E1.
    pose proof (prodn_split shape ax Hax) as Hsplit. rewrite Hsplit in Hl.
    pose proof (reduce_ax_length _ _ _ _ _ _ Hl E1) as Hl1.
    pose proof (reduce_add_preserves_sum _ _ _ _ _ Hl E1) as Hs1.
    rewrite <- prodn_remove in Hl1.
    rewrite <- (remove_ax_length shape ax Hax) in Hv.
    destruct (IH _ _ _ _ Hv Hl1 Hr) as (Hl' & Hs' & Hn').
    repeat split; auto; try congruence.
    rewrite Hn', remove_ax_length by exact Hax. cbn [length]. lia.
Qed.
