(* C17/Model.v -- model of the ufunc protocol of ODL elements
     odl/space/npy_tensors.py : NumpyTensor.__array_ufunc__, NumpyTensorSpace.element
     odl/discr/discr_space.py : DiscretizedSpaceElement.__array_ufunc__
     odl/util/utility.py      : writable_array
   over a store of array buffers.  NumPy itself (the ufunc applied to raw
   arrays) is a parameter [NP] of every definition: the property is that the
   wrapper layer is transparent for ANY ufunc, so the theorems quantify over NP.
   Executable definitions only; proofs are in C17/Proofs.v. *)
From Coq Require Import ZArith QArith List Bool Arith.
From Verif Require Import Base.Num Lib.Axis.
Import ListNotations.

(* ---------------- dtypes, spaces (pure descriptors) ---------------- *)
Inductive dt := DBool | DI32 | DI64 | DF32 | DF64 | DC64 | DC128.
Definition dt_code (d : dt) : nat :=
  match d with DBool => 0 | DI32 => 1 | DI64 => 2 | DF32 => 3 | DF64 => 4 | DC64 => 5 | DC128 => 6 end.
Definition dt_eqb (a b : dt) : bool := Nat.eqb (dt_code a) (dt_code b).
(* odl.util.is_floating_dtype: real or complex floating point *)
Definition is_floating (d : dt) : bool :=
  match d with DF32 | DF64 | DC64 | DC128 => true | _ => false end.
(* NumPy casting='same_kind' on ufunc outputs: bool < int < float < complex *)
Definition dt_kind (d : dt) : nat :=
  match d with DBool => 0 | DI32 | DI64 => 1 | DF32 | DF64 => 2 | DC64 | DC128 => 3 end.
Definition can_cast (from to : dt) : bool := (dt_kind from <=? dt_kind to)%nat.

(* np.can_cast(from, to) with the default 'safe' rule *)
Definition safe_cast (from to : dt) : bool :=
  dt_eqb from to ||
  match from, to with
  | DBool, _ => true
  | DI32, (DI64 | DF64 | DC128) => true
  | DI64, (DF64 | DC128) => true
  | DF32, (DF64 | DC64 | DC128) => true
  | DF64, DC128 => true
  | DC64, DC128 => true
  | _, _ => false
  end.

(* weighting: constant, or an array weighting identified by a tag, with the
   dtype of the weight array *)
Inductive wgt := WConst (c : Q) | WArr (tag : nat) (wdt : dt).
Record tspace := mkTS { ts_shape : list nat; ts_dt : dt; ts_w : wgt; ts_exp : Q }.
(* type(space)(shape, dtype) with default weighting / exponent *)
Definition ts_default (shape : list nat) (d : dt) : tspace := mkTS shape d (WConst 1) 2.
(* NumpyTensorSpace.__init__ with weighting=<Weighting object>: an array
   weighting must be safely castable to the space dtype (else ValueError) *)
Definition ts_valid (t : tspace) : bool :=
  match ts_w t with WArr _ wd => safe_cast wd (ts_dt t) | WConst _ => true end.

Record axisd := mkAx { ax_min : Q; ax_max : Q; ax_n : nat; ax_cell : Q; ax_label : nat }.
Record dspace := mkDS { ds_axes : list axisd; ds_ts : tspace }.

Definition shape_eqb (a b : list nat) : bool :=
  (length a =? length b)%nat && forallb (fun p => (fst p =? snd p)%nat) (combine a b).
Definition wgt_eqb (a b : wgt) : bool :=
  match a, b with
  | WConst x, WConst y => Qeq_bool x y
  | WArr i _, WArr j _ => (i =? j)%nat
  | _, _ => false
  end.
Definition tspace_eqb (a b : tspace) : bool :=
  shape_eqb (ts_shape a) (ts_shape b) && dt_eqb (ts_dt a) (ts_dt b)
  && wgt_eqb (ts_w a) (ts_w b) && Qeq_bool (ts_exp a) (ts_exp b).

(* ---------------- methods, keyword options, errors ---------------- *)
Inductive meth := MCall | MReduce | MAccumulate | MOuter | MAt | MReduceat.
Definition is_call (m : meth) : bool := match m with MCall => true | _ => false end.
Definition is_at (m : meth) : bool := match m with MAt => true | _ => false end.
Inductive axkw := AxAbsent | AxNone | AxInt (a : Z) | AxTuple (l : list Z).
Record kwargs := mkKw { kw_axis : axkw; kw_keepdims : bool; kw_dtype : option dt;
                        kw_idx : list Z (* the indices operand of at / reduceat *) }.
Definition kw_drop_keepdims (k : kwargs) : kwargs :=
  mkKw (kw_axis k) false (kw_dtype k) (kw_idx k).

Inductive errk := EValue | EType | EIndex | EAxis | ENotImpl | ERuntime | EUnmodelled.
Inductive res (A : Type) := Ok (a : A) | Err (e : errk).
Arguments Ok {A} a.
Arguments Err {A} e.

(* Variant switch for the one recorded finding of the modelled code that is
   still open (DESIGN 2.5): [false] = the behaviour of the code as found
   (defect present), [true] = the behaviour after the proposed repair.  The
   harness measures which one the current source exhibits and passes it into
   every correspondence case.  (The former switches for negative reduce axes
   and bool-valued outer are gone: /repo commits ca9a353 and f17fa7b repaired
   them and the model below follows the repaired code.) *)
Record variant := mkVar {
  v_grow : bool }.      (* __call__ result space built from the shape of the RESULT *)
Definition as_found : variant := mkVar false.
Definition repaired : variant := mkVar true.

Section Model.
Context {T : Type} `{Num T}.
(* dtype conversion of one value (astype / assignment into another dtype) *)
Variable cast : dt -> dt -> T -> T.
Variable V : variant.

(* ---------------- store of buffers ---------------- *)
Record narr := mkArr { a_dt : dt; a_shape : list nat; a_data : list T }.
Definition store := list narr.
Definition dummy_arr : narr := mkArr DF64 [] [].
Definition rd (st : store) (i : nat) : narr := nth i st dummy_arr.
Fixpoint wr (st : store) (i : nat) (a : narr) : store :=
  match st, i with
  | [], _ => []
  | _ :: st', O => a :: st'
  | b :: st', S i' => b :: wr st' i' a
  end.
Definition alloc (st : store) (a : narr) : store * nat := (st ++ [a], length st).
Definition cast_arr (d : dt) (a : narr) : narr :=
  mkArr d (a_shape a) (map (cast (a_dt a) d) (a_data a)).
(* dst[:] = src  (same shape): data of src converted to dst's dtype *)
Definition assign_into (dst src : narr) : narr :=
  mkArr (a_dt dst) (a_shape dst) (map (cast (a_dt src) (a_dt dst)) (a_data src)).

(* ---------------- operands ---------------- *)
Inductive operand :=
  | OpArr (id : nat)                      (* numpy.ndarray with buffer id *)
  | OpTens (sp : tspace) (id : nat)       (* NumpyTensor: space + data buffer *)
  | OpDisc (ds : dspace) (id : nat)       (* DiscretizedSpaceElement: space + tensor data buffer *)
  | OpScal (v : T)                        (* Python / NumPy scalar *)
  | OpNone.                               (* None (return value of ufunc.at) *)

(* ---------------- NumPy on raw arrays ---------------- *)
Inductive rawin := RIArr (a : narr) | RIScal (v : T).
Record npreq := mkReq { q_meth : meth; q_kw : kwargs; q_ins : list rawin;
                        q_outs : list (option (dt * list nat)) }.
(* the ufunc: request -> error or result arrays (shape [] = 0-d);
   for method at: the new contents of the first operand *)
Definition npsem := npreq -> res (list narr).

Inductive rop := RopBuf (id : nat) | RopScal (v : T).
Inductive rret := RRBuf (id : nat) | RRScal (v : T) | RRNone.
Definition raw_in (st : store) (r : rop) : rawin :=
  match r with RopBuf id => RIArr (rd st id) | RopScal v => RIScal v end.
Definition out_descr (st : store) (o : option nat) : option (dt * list nat) :=
  option_map (fun id => (a_dt (rd st id), a_shape (rd st id))) o.

(* write results into given out buffers / allocate new ones *)
Fixpoint place (st : store) (rs : list narr) (outs : list (option nat)) : res (list rret * store) :=
  match rs with
  | [] => Ok ([], st)
  | r :: rs' =>
      let o := match outs with o :: _ => o | [] => None end in
      let outs' := match outs with _ :: t => t | [] => [] end in
      match o with
      | Some id =>
          if negb (can_cast (a_dt r) (a_dt (rd st id))) then Err EType
          else if negb (shape_eqb (a_shape r) (a_shape (rd st id))) then Err EValue
          else match place (wr st id (assign_into (rd st id) r)) rs' outs' with
               | Ok (l, st') => Ok (RRBuf id :: l, st')
               | Err e => Err e
               end
      | None =>
          match a_shape r, a_data r with
          | [], v :: _ =>
              match place st rs' outs' with
              | Ok (l, st') => Ok (RRScal v :: l, st')
              | Err e => Err e
              end
          | _, _ =>
              let (st1, id) := alloc st r in
              match place st1 rs' outs' with
              | Ok (l, st') => Ok (RRBuf id :: l, st')
              | Err e => Err e
              end
          end
      end
  end.

(* the ufunc method applied to raw arrays with out=outs and the keyword options: the reference semantics *)
Definition raw_ufunc (NP : npsem) (st : store) (m : meth) (kw : kwargs)
           (ins : list rop) (outs : list (option nat)) : res (list rret * store) :=
  match NP (mkReq m kw (map (raw_in st) ins) (map (out_descr st) outs)) with
  | Err e => Err e
  | Ok rs =>
      if is_at m then
        match ins, rs with
        | RopBuf a :: _, [r] => Ok ([RRNone], wr st a r)
        | _, _ => Err EType
        end
      else place st rs outs
  end.

(* ---------------- writable_array ---------------- *)
Definition op_buf (o : operand) : option nat :=
  match o with OpArr id | OpTens _ id | OpDisc _ id => Some id | _ => None end.
(* __enter__: arr = np.asarray(obj, dtype=dtkw): the same buffer unless a
   different dtype is requested (then a converted copy) *)
Definition wa_enter (st : store) (o : operand) (dtkw : option dt) : store * option nat :=
  match op_buf o with
  | None => (st, None)
  | Some id =>
      match dtkw with
      | None => (st, Some id)
      | Some d => if dt_eqb d (a_dt (rd st id)) then (st, Some id)
                  else let (st', t) := alloc st (cast_arr d (rd st id)) in (st', Some t)
      end
  end.
(* __exit__: obj[:] = arr *)
Definition wa_exit (st : store) (o : operand) (tmp : option nat) : store :=
  match op_buf o, tmp with
  | Some id, Some t => if (id =? t)%nat then st else wr st id (assign_into (rd st id) (rd st t))
  | _, _ => st
  end.
Fixpoint enter_all (st : store) (outs : list (option operand)) (dtkw : option dt)
  : store * list (option nat) :=
  match outs with
  | [] => (st, [])
  | None :: r => let (st', l) := enter_all st r dtkw in (st', None :: l)
  | Some o :: r =>
      let (st1, t) := wa_enter st o dtkw in
      let (st', l) := enter_all st1 r dtkw in (st', t :: l)
  end.
Fixpoint exit_all (st : store) (outs : list (option operand)) (tmps : list (option nat)) : store :=
  match outs, tmps with
  | Some o :: r, t :: ts => exit_all (wa_exit st o t) r ts
  | None :: r, _ :: ts => exit_all st r ts
  | _, _ => st
  end.

(* ---------------- NumpyTensor.__array_ufunc__ ---------------- *)
Definition tens_valid_out (o : option operand) : bool :=
  match o with None | Some (OpArr _) | Some (OpTens _ _) => true | _ => false end.
Definition tens_unwrap (o : operand) : option rop :=
  match o with
  | OpArr id | OpTens _ id => Some (RopBuf id)
  | OpScal v => Some (RopScal v)
  | _ => None
  end.
Fixpoint map_opt {A B} (f : A -> option B) (l : list A) : option (list B) :=
  match l with
  | [] => Some []
  | a :: l' => match f a, map_opt f l' with Some b, Some r => Some (b :: r) | _, _ => None end
  end.
Definition pad_none {A} (n : nat) (l : list (option A)) : list (option A) :=
  l ++ repeat None (n - length l).
Definition len_ok (m : meth) (nout n : nat) : bool :=
  if is_call m then (n =? 0)%nat || (n =? nout)%nat else (n =? 0)%nat || (n =? 1)%nat.

(* result space of the __call__ branch: shape of SELF, dtype of the result,
   weighting kept only for nout = 1 and floating results *)
Definition call_space (sp : tspace) (nout : nat) (r : narr) : tspace :=
  if (nout =? 1)%nat && is_floating (a_dt r)
  then mkTS (ts_shape sp) (a_dt r) (ts_w sp) (ts_exp sp)
  else ts_default (ts_shape sp) (a_dt r).
(* result space of the other methods: shape of the RESULT; weighting kept iff
   floating and shape unchanged, constant 1 (same exponent) if floating and the
   shape changed, default otherwise *)
Definition meth_space (sp : tspace) (r : narr) : tspace :=
  if is_floating (a_dt r)
  then if shape_eqb (a_shape r) (ts_shape sp)
       then mkTS (a_shape r) (a_dt r) (ts_w sp) (ts_exp sp)
       else mkTS (a_shape r) (a_dt r) (WConst 1) (ts_exp sp)
  else ts_default (a_shape r) (a_dt r).

(* wrap the k-th result of the __call__ branch *)
Fixpoint wrap_call (st : store) (sp : tspace) (nout : nat) (outs : list (option operand))
         (rets : list rret) : res (list operand) :=
  match rets with
  | [] => Ok []
  | r :: rets' =>
      let o := match outs with o :: _ => o | [] => None end in
      let outs' := match outs with _ :: t => t | [] => [] end in
      let this :=
        match o, r with
        | Some given, _ => Ok given
        | None, RRBuf id =>
            let a := rd st id in
            if v_grow V && (nout =? 1)%nat then
              (* repaired: the space takes the shape of the result (rule of the other methods) *)
              if ts_valid (meth_space sp a) then Ok (OpTens (meth_space sp a) id) else Err EValue
            else
            (* out_space.element(res): no copy, shape must equal the space shape *)
            if negb (ts_valid (call_space sp nout a)) then Err EValue
            else if shape_eqb (a_shape a) (ts_shape sp) then Ok (OpTens (call_space sp nout a) id)
            else Err EValue
        | None, _ => Err EUnmodelled
        end in
      match this, wrap_call st sp nout outs' rets' with
      | Ok x, Ok l => Ok (x :: l)
      | Err e, _ => Err e
      | _, Err e => Err e
      end
  end.

Definition tens_ufunc (NP : npsem) (st : store) (sp : tspace) (nout : nat) (m : meth)
           (ins : list operand) (kw : kwargs) (outs : list (option operand))
  : res (list operand * store) :=
  if negb (len_ok m nout (length outs)) then Err EValue
  else if negb (forallb tens_valid_out outs) then Err ENotImpl
  else match map_opt tens_unwrap ins with
  | None => Err EUnmodelled
  | Some rins =>
    if is_call m then
      if negb ((nout =? 1)%nat || (nout =? 2)%nat) then Err EUnmodelled else
      let outs' := pad_none nout outs in
      let (st1, tmps) := enter_all st outs' (kw_dtype kw) in
      match raw_ufunc NP st1 MCall kw rins tmps with
      | Err e => Err e
      | Ok (rets, st2) =>
          let st3 := exit_all st2 outs' tmps in
          match wrap_call st3 sp nout outs' rets with
          | Ok l => Ok (l, st3)
          | Err e => Err e
          end
      end
    else
      let out := match outs with [Some o] => Some o | _ => None end in
      let (st1, tmp) := match out with Some o => wa_enter st o (kw_dtype kw) | None => (st, None) end in
      match raw_ufunc NP st1 m kw rins (if is_at m then [] else [tmp]) with
      | Err e => Err e
      | Ok (rets, st2) =>
          let st3 := match out with Some o => wa_exit st2 o tmp | None => st2 end in
          match rets with
          | [RRScal v] => Ok ([OpScal v], st3)
          | [RRNone] => Ok ([OpNone], st3)
          | [RRBuf id] =>
              match out with
              | Some o => Ok ([o], st3)
              | None =>
                  if ts_valid (meth_space sp (rd st3 id))
                  then Ok ([OpTens (meth_space sp (rd st3 id)) id], st3)
                  else Err EValue
              end
          | _ => Err EUnmodelled
          end
      end
  end.

(* ---------------- DiscretizedSpaceElement.__array_ufunc__ ---------------- *)
Definition disc_valid_out (o : option operand) : bool :=
  match o with None | Some (OpArr _) | Some (OpTens _ _) | Some (OpDisc _ _) => true | _ => false end.
(* getattr(o, 'tensor', o) *)
Definition to_tensor (o : operand) : operand :=
  match o with OpDisc ds id => OpTens (ds_ts ds) id | _ => o end.
Definition is_disc (o : operand) : bool := match o with OpDisc _ _ => true | _ => false end.
Definition ndim (ds : dspace) : nat := length (ts_shape (ds_ts ds)).

(* the axes that REMAIN after reduce, as the code computes them *)
Definition zmem (z : Z) (l : list Z) : bool := existsb (Z.eqb z) l.
(* negative axes count from the end: a + ndim for negative a (commit ca9a353) *)
Definition znorm (nd : nat) (z : Z) : Z :=
  if (z <? 0)%Z then (z + Z.of_nat nd)%Z else z.
Definition kept_axes (nd : nat) (a : axkw) : list nat :=
  match a with
  | AxAbsent | AxNone => seq 1 (nd - 1)
  | AxInt z => filter (fun i => negb (zmem (Z.of_nat i) [znorm nd z])) (seq 0 nd)
  | AxTuple l => filter (fun i => negb (zmem (Z.of_nat i) (map (znorm nd) l))) (seq 0 nd)
  end.
Definition pick {A} (d : A) (l : list A) (idx : list nat) : list A := map (fun i => nth i l d) idx.
Definition dummy_ax : axisd := mkAx 0 0 0 0 0.
Definition qprod (l : list Q) : Q := fold_right Qmult 1 l.

(* DiscretizedSpace(partition, tspace): partition.shape must equal tspace.shape *)
Definition mk_dspace (axes : list axisd) (ts : tspace) : res dspace :=
  if shape_eqb (map ax_n axes) (ts_shape ts) then Ok (mkDS axes ts) else Err EValue.

(* self.space.byaxis_in[kept].astype(dtype).
   Constant weighting: the cell volume of the kept axes.
   Array weighting: tspace.byaxis[kept] fancy-indexes the weight array ALONG AXIS 0
   with the list of kept axes (IndexError if an axis number exceeds the first
   extent) and the new tensor space then insists on the array having the new
   shape (ValueError otherwise) -- so reduce fails on array-weighted
   discretized spaces except in degenerate cases (finding
   discr-reduce-array-weighting). *)
Definition byaxis_astype (ds : dspace) (kept : list nat) (d : dt) : res dspace :=
  let axes := pick dummy_ax (ds_axes ds) kept in
  let shape := pick 0%nat (ts_shape (ds_ts ds)) kept in
  let sp := ds_ts ds in
  let finish (w : wgt) :=
    let ts0 := mkTS shape (ts_dt sp) w (ts_exp sp) in
    let ts := if dt_eqb d (ts_dt sp) then ts0
              else if is_floating d then mkTS shape d w (ts_exp sp)
              else ts_default shape d in
    if ts_valid ts then Ok (mkDS axes ts) else Err EValue in
  match ts_w sp with
  | WConst _ => finish (WConst (qprod (map ax_cell axes)))
  | WArr _ wd =>
      let n0 := match ts_shape sp with n :: _ => n | [] => 0%nat end in
      if existsb (fun i => (n0 <=? i)%nat) kept then Err EIndex
      else if negb (shape_eqb (length kept :: tl (ts_shape sp)) shape) then Err EValue
      else finish (WArr 0 wd)
  end.

(* labels of outer: old labels with a suffix; encoded as label + 100 / + 200 *)
Definition relabel (k : nat) (a : axisd) : axisd :=
  mkAx (ax_min a) (ax_max a) (ax_n a) (ax_cell a) (ax_label a + k).

Definition wrap_disc_call (ds : dspace) (out_orig : option operand) (r : operand) : res operand :=
  match out_orig with
  | Some o => Ok o
  | None =>
      match r with
      | OpTens rsp id =>
          match mk_dspace (ds_axes ds) rsp with
          | Ok rs => Ok (OpDisc rs id)
          | Err e => Err e
          end
      | _ => Err EUnmodelled
      end
  end.
Fixpoint wrap_disc_calls (ds : dspace) (outs : list (option operand)) (rs : list operand)
  : res (list operand) :=
  match rs with
  | [] => Ok []
  | r :: rs' =>
      let o := match outs with o :: _ => o | [] => None end in
      let outs' := match outs with _ :: t => t | [] => [] end in
      match wrap_disc_call ds o r, wrap_disc_calls ds outs' rs' with
      | Ok x, Ok l => Ok (x :: l)
      | Err e, _ => Err e
      | _, Err e => Err e
      end
  end.

(* the method combinations the discretized element refuses (before calling NumPy) *)
Definition disc_reject (m : meth) (keepdims all_elems : bool) : option errk :=
  match m with
  | MReduce => if keepdims then Some EValue else None
  | MReduceat => Some EValue
  | MOuter => if negb all_elems then Some EType else None
  | _ => None
  end.

Definition disc_ufunc (NP : npsem) (st : store) (ds : dspace) (nout : nat) (m : meth)
           (ins : list operand) (kw : kwargs) (outs : list (option operand))
  : res (list operand * store) :=
  if negb (len_ok m nout (length outs)) then Err EValue
  else if negb (forallb disc_valid_out outs) then Err ENotImpl
  else
  let outs_t := map (option_map to_tensor) outs in
  let ins_t := map to_tensor ins in
  let kw' := kw_drop_keepdims kw in
  let kept := kept_axes (ndim ds) (kw_axis kw) in
  match m with
  | MCall =>
      if negb ((nout =? 1)%nat || (nout =? 2)%nat) then Err EUnmodelled else
      let outs1 := pad_none nout outs_t in
      match tens_ufunc NP st (ds_ts ds) nout MCall ins_t kw' outs1 with
      | Err e => Err e
      | Ok (rs, st') =>
          match wrap_disc_calls ds (pad_none nout outs) rs with
          | Ok l => Ok (l, st')
          | Err e => Err e
          end
      end
  | _ =>
      match disc_reject m (kw_keepdims kw) (forallb is_disc ins) with
      | Some e => Err e
      | None =>
      let out_t := match outs_t with [o] => o | _ => None end in
      let out_orig := match outs with [o] => o | _ => None end in
      match tens_ufunc NP st (ds_ts ds) nout m ins_t kw' (if is_at m then [] else [out_t]) with
      | Err e => Err e
      | Ok (rs, st') =>
          match rs with
          | [OpScal v] => Ok ([OpScal v], st')
          | [OpNone] => Ok ([OpNone], st')
          | [r] =>
              match out_t, r with
              | Some _, _ => match out_orig with Some o => Ok ([o], st') | None => Err EUnmodelled end
              | None, OpTens rsp id =>
                  match m with
                  | MAccumulate =>
                      match mk_dspace (ds_axes ds) rsp with
                      | Ok rs' => Ok ([OpDisc rs' id], st')
                      | Err e => Err e
                      end
                  | MOuter =>
                      match ins with
                      | [OpDisc d1 _; OpDisc d2 _] =>
                          let axes := map (relabel 100) (ds_axes d1) ++ map (relabel 200) (ds_axes d2) in
                          let ts :=
                            match ts_w (ds_ts d1), ts_w (ds_ts d2) with
                            | WConst c1, WConst c2 =>
                                (* only for numeric result dtypes (commit f17fa7b) *)
                                if dt_eqb (ts_dt rsp) DBool then rsp
                                else mkTS (ts_shape rsp) (ts_dt rsp) (WConst (c1 * c2)) (ts_exp rsp)
                            | _, _ => rsp
                            end in
                          match mk_dspace axes ts with
                          | Ok rs' => Ok ([OpDisc rs' id], st')
                          | Err e => Err e
                          end
                      | _ => Err EValue       (* inp1, inp2 = inputs *)
                      end
                  | MReduce =>
                      match byaxis_astype ds kept (ts_dt rsp) with
                      | Err e => Err e
                      | Ok rs' =>
                      (* res_space.element(res_tens): shapes must agree -- after
                         np.array(..., ndmin=ndim) has prepended unit axes, in which
                         case the element is a reshaped view of the result buffer *)
                      let target := ts_shape (ds_ts rs') in
                      if shape_eqb (ts_shape rsp) target then Ok ([OpDisc rs' id], st')
                      else if shape_eqb (repeat 1%nat (length target - length (ts_shape rsp)) ++ ts_shape rsp) target
                      then Ok ([OpDisc rs' id], wr st' id (mkArr (a_dt (rd st' id)) target (a_data (rd st' id))))
                      else Err EValue
                      end
                  | _ => Err ERuntime
                  end
              | None, _ => Err EUnmodelled
              end
          | _ => Err EUnmodelled
          end
      end
      end
  end.

(* ---------------- legacy x.ufuncs wrappers of tensor-like elements ---------------- *)
(* odl/util/ufuncs.py: the binary wrapper and sum / prod / min / max hand
   out=_as_out_tuple(out) to __array_ufunc__ : a tuple is passed on as it is
   (NumPy's form out=(o,)), anything else is wrapped into a 1-tuple *)
Inductive legacy_out := LOne (o : option operand) | LTuple (l : list (option operand)).
Definition as_out_tuple (o : legacy_out) : list (option operand) :=
  match o with LTuple l => l | LOne x => [x] end.
Definition legacy_tens_call (NP : npsem) (st : store) (sp : tspace) (m : meth)
           (ins : list operand) (kw : kwargs) (o : legacy_out) : res (list operand * store) :=
  tens_ufunc NP st sp 1 m ins kw (as_out_tuple o).

(* ---------------- element wrapping / asarray ---------------- *)
(* NumpyTensorSpace.element(arr) for a writeable ndarray: np.array(arr, copy=False,
   dtype=space.dtype) shares the buffer iff the dtype matches; shape must match *)
Definition t_element (st : store) (sp : tspace) (inp : operand) : res (operand * store) :=
  match inp with
  | OpTens sp' id =>
      if tspace_eqb sp sp' then Ok (inp, st)
      else if negb (shape_eqb (a_shape (rd st id)) (ts_shape sp)) then Err EValue
      else if dt_eqb (a_dt (rd st id)) (ts_dt sp) then Ok (OpTens sp id, st)
      else let (st', t) := alloc st (cast_arr (ts_dt sp) (rd st id)) in Ok (OpTens sp t, st')
  | OpArr id =>
      if negb (shape_eqb (a_shape (rd st id)) (ts_shape sp)) then Err EValue
      else if dt_eqb (a_dt (rd st id)) (ts_dt sp) then Ok (OpTens sp id, st)
      else let (st', t) := alloc st (cast_arr (ts_dt sp) (rd st id)) in Ok (OpTens sp t, st')
  | _ => Err EUnmodelled
  end.
(* The same with the memory LAYOUT of the array, its writeable flag and the
   order= argument made explicit (measured on the code and pinned by the `wrap`
   case set): NumpyTensorSpace.element / DiscretizedSpace.element(arr, order)
   call np.array(arr, copy=False, dtype=space.dtype, ndmin=ndim, order=order) and
   copy read-only arrays.  So the buffer is SHARED iff the dtype matches, the
   array is writeable and (order is None -- then ANY layout is accepted:
   C-contiguous, Fortran-contiguous, transposed, strided, negative strides --
   or the array already has the requested contiguity). *)
Inductive layout := LayC | LayF | LayCF | LayStrided.   (* C-, F-contiguous, both, neither *)
Inductive order := OrdC | OrdF.
Definition layout_ok (o : option order) (l : layout) : bool :=
  match o, l with
  | None, _ => true
  | Some OrdC, (LayC | LayCF) => true
  | Some OrdF, (LayF | LayCF) => true
  | _, _ => false
  end.
Definition t_element_lay (st : store) (sp : tspace) (id : nat) (writeable : bool) (l : layout)
           (o : option order) : res (operand * store) :=
  if negb (shape_eqb (a_shape (rd st id)) (ts_shape sp)) then Err EValue
  else if dt_eqb (a_dt (rd st id)) (ts_dt sp) && writeable && layout_ok o l
  then Ok (OpTens sp id, st)
  else let (st', t) := alloc st (cast_arr (ts_dt sp) (rd st id)) in Ok (OpTens sp t, st').

(* x.asarray(): the data buffer itself *)
Definition asarray (o : operand) : option nat := op_buf o.

End Model.
