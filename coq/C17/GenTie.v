(* C17/GenTie.v -- the hand-written model (C17/Model.v) EQUALS the decision
   fragments regenerated from the current source (Gen/UfuncDispatch.v by
   translate/ufunc_dispatch.py).  If one of these fragments changes in /repo
   (the out-count guard, the accepted out types, how a result space gets its
   shape and weighting, the refusals of the discretized element, which ufunc a
   legacy reduction uses) one of these proofs stops checking. *)
From Coq Require Import ZArith QArith List Bool Arith String.
From Verif Require Import C17.Syntax C17.Model Gen.UfuncDispatch.
Import ListNotations.

(* ---- number of out arguments ---- *)
Lemma len_ok_tens_generated (m : meth) (nout n : nat) :
  len_ok m nout n = negb (gen_len_bad_tens (is_call m) nout n).
Proof.
  unfold len_ok, gen_len_bad_tens. destruct (is_call m); cbn [andb orb negb existsb];
    rewrite ?orb_false_r, ?negb_involutive; reflexivity.
Qed.
Lemma len_ok_disc_generated (m : meth) (nout n : nat) :
  len_ok m nout n = negb (gen_len_bad_disc (is_call m) nout n).
Proof.
  unfold len_ok, gen_len_bad_disc. destruct (is_call m); cbn [andb orb negb existsb];
    rewrite ?orb_false_r, ?negb_involutive; reflexivity.
Qed.

(* ---- accepted out types ---- *)
Definition has (k : okind) (l : list okind) : bool :=
  existsb (fun x => match x, k with
                    | KSelf, KSelf | KData, KData | KNdarray, KNdarray | KTensor, KTensor
                    | KTensorData, KTensorData => true | _, _ => false end) l.
Section Valid.
Context {T : Type}.
(* self is a NumpyTensor: its data is an ndarray *)
Definition accepts_tens (l : list okind) (o : option (@operand T)) : bool :=
  match o with
  | None => true
  | Some (OpTens _ _) => has KSelf l
  | Some (OpArr _) => has KData l || has KNdarray l
  | Some _ => false
  end.
(* self is a DiscretizedSpaceElement over a NumpyTensor *)
Definition accepts_disc (l : list okind) (o : option (@operand T)) : bool :=
  match o with
  | None => true
  | Some (OpDisc _ _) => has KSelf l
  | Some (OpTens _ _) => has KTensor l
  | Some (OpArr _) => has KTensorData l
  | Some _ => false
  end.
Lemma valid_out_tens_generated (o : option (@operand T)) :
  tens_valid_out o = accepts_tens gen_valid_out_tens o.
Proof. destruct o as [[]|]; reflexivity. Qed.
Lemma valid_out_disc_generated (o : option (@operand T)) :
  disc_valid_out o = accepts_disc gen_valid_out_disc o.
Proof. destruct o as [[]|]; reflexivity. Qed.

(* ---- result-space rules ---- *)
Definition apply_rule (rl : rule) (sp : tspace) (r : @narr T) : tspace :=
  let shape := match r_src rl with SrcSelf => ts_shape sp | SrcRes => a_shape r end in
  match r_w rl with
  | WKeep => mkTS shape (a_dt r) (ts_w sp) (ts_exp sp)
  | WReset => mkTS shape (a_dt r) (WConst 1) (ts_exp sp)
  | WDefault => ts_default shape (a_dt r)
  end.
Definition key (sp : tspace) (r : @narr T) : bool * bool :=
  (is_floating (a_dt r), shape_eqb (a_shape r) (ts_shape sp)).

(* reduce / accumulate / outer / reduceat *)
Lemma meth_space_generated (sp : tspace) (r : @narr T) :
  meth_space sp r = apply_rule (gen_meth_rule (fst (key sp r)) (snd (key sp r))) sp r.
Proof.
  unfold meth_space, key, apply_rule. cbn [fst snd].
  destruct (is_floating (a_dt r)); destruct (shape_eqb (a_shape r) (ts_shape sp)); reflexivity.
Qed.
(* both outputs of a two-output ufunc *)
Lemma call2_space_generated (sp : tspace) (r : @narr T) :
  call_space sp 2 r = apply_rule (gen_call2_rule (fst (key sp r)) (snd (key sp r))) sp r.
Proof.
  unfold call_space, key, apply_rule. cbn [fst snd Nat.eqb andb].
  destruct (is_floating (a_dt r)); destruct (shape_eqb (a_shape r) (ts_shape sp)); reflexivity.
Qed.
(* __call__ with one output: the source decides the variant ([gen_grow] = the
   space takes the shape of the result), and the model of that variant is the
   generated rule -- [call_space] for the code as found, the rule of the other
   methods after the broadcast-grow repair *)
Definition gen_grow : bool :=
  match r_src (gen_call_rule true true) with SrcRes => true | SrcSelf => false end.
Lemma call1_space_generated (sp : tspace) (r : @narr T) :
  (if gen_grow then meth_space sp r else call_space sp 1 r)
  = apply_rule (gen_call_rule (fst (key sp r)) (snd (key sp r))) sp r.
Proof.
  unfold gen_grow, meth_space, call_space, key, apply_rule. cbn [fst snd Nat.eqb andb r_src gen_call_rule].
  destruct (is_floating (a_dt r)); destruct (shape_eqb (a_shape r) (ts_shape sp)); reflexivity.
Qed.
End Valid.

(* ---- refusals of the discretized element ---- *)
Definition meth_eqb (a b : meth) : bool :=
  match a, b with
  | MCall, MCall | MReduce, MReduce | MAccumulate, MAccumulate | MOuter, MOuter | MAt, MAt
  | MReduceat, MReduceat => true
  | _, _ => false
  end.
Fixpoint table_reject (tab : list (meth * rcond * errk)) (m : meth) (keepdims all_elems : bool) : option errk :=
  match tab with
  | [] => None
  | (m', c, e) :: rest =>
      if meth_eqb m m' && match c with RAlways => true | RKeepdims => keepdims | RNotAllElems => negb all_elems end
      then Some e else table_reject rest m keepdims all_elems
  end.
Lemma disc_reject_generated (m : meth) (keepdims all_elems : bool) :
  m <> MCall -> disc_reject m keepdims all_elems = table_reject gen_disc_rejects m keepdims all_elems.
Proof. destruct m, keepdims, all_elems; intros H; try reflexivity; congruence. Qed.

(* ---- legacy namespace ---- *)
Local Open Scope string_scope.
Lemma legacy_reductions_generated :
  gen_legacy_reductions = [("sum", "add"); ("prod", "multiply"); ("min", "minimum"); ("max", "maximum")].
Proof. reflexivity. Qed.
Lemma legacy_arities_generated : gen_legacy_arities = [(1, 1); (1, 2); (2, 1)]%nat.
Proof. reflexivity. Qed.

(* ---- pair-or-broadcast decision of the binary product-space wrapper ---- *)
From Verif Require Import C17.Legacy.
Definition pair_of {T} (c : paircond) (t : @ptree T) (a : @arg2 T) : bool :=
  match c, a with
  | PairIfInSpace, A2Tree u => sig_eqb t u          (* x2 in self.elem.space *)
  | PairIfSameType, A2Tree (PNode _) => true        (* isinstance(x2, type(self.elem)) *)
  | _, _ => false
  end.
Lemma pair_decision_generated (T : Type) (t : @ptree T) (a : @arg2 T) :
  pair_decision t a = pair_of gen_pair_cond t a.
Proof. destruct a; reflexivity. Qed.

(* combined statements as used in Props.v *)
Lemma out_count_guard_generated (m : meth) (nout n : nat) :
  len_ok m nout n = negb (gen_len_bad_tens (is_call m) nout n)
  /\ len_ok m nout n = negb (gen_len_bad_disc (is_call m) nout n).
Proof. split; [apply len_ok_tens_generated | apply len_ok_disc_generated]. Qed.
Lemma valid_out_types_generated (T : Type) (o : option (@operand T)) :
  tens_valid_out o = accepts_tens gen_valid_out_tens o
  /\ disc_valid_out o = accepts_disc gen_valid_out_disc o.
Proof. split; [apply valid_out_tens_generated | apply valid_out_disc_generated]. Qed.
Lemma result_space_rules_generated (T : Type) (sp : tspace) (r : @narr T) :
  meth_space sp r = apply_rule (gen_meth_rule (is_floating (a_dt r)) (shape_eqb (a_shape r) (ts_shape sp))) sp r
  /\ call_space sp 2 r = apply_rule (gen_call2_rule (is_floating (a_dt r)) (shape_eqb (a_shape r) (ts_shape sp))) sp r
  /\ (if gen_grow then meth_space sp r else call_space sp 1 r)
     = apply_rule (gen_call_rule (is_floating (a_dt r)) (shape_eqb (a_shape r) (ts_shape sp))) sp r.
Proof.
  split; [apply meth_space_generated | split; [apply call2_space_generated | apply call1_space_generated]].
Qed.
Lemma legacy_tables_generated :
  gen_legacy_reductions = [("sum", "add"); ("prod", "multiply"); ("min", "minimum"); ("max", "maximum")]
  /\ gen_legacy_arities = [(1, 1); (1, 2); (2, 1)]%nat.
Proof. split; [exact legacy_reductions_generated | exact legacy_arities_generated]. Qed.
