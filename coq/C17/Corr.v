(* C17/Corr.v -- correspondence checker, executed at Q by the shards.
   One case = a store of arrays, a ufunc call on ODL elements, what ODL did
   (error class, or returned containers / spaces / data / final buffer contents)
   and what NumPy did on copies of the underlying arrays.  The checker runs
   [tens_ufunc]/[disc_ufunc] (C17/Model.v) and [raw_ufunc] with the concrete
   array semantics [np_conc] (built from C17/Arr.v) as NumPy, and compares. *)
From Coq Require Import ZArith QArith Qabs List Bool Arith.
From Verif Require Import Base.Num Base.Vec Base.Check Lib.Axis C17.Arr C17.Model.
Import ListNotations.

Inductive ufid := UB (o : bop) | UU (u : uop) | UOracle.

(* ---- dtype conversion at Q ---- *)
Definition Qtrunc (q : Q) : Q := inject_Z (Z.quot (Qnum q) (Zpos (Qden q))).
Definition castQ (from to : dt) (v : Q) : Q :=
  match to with
  | DBool => if Qeq_bool v 0 then 0 else 1
  | DI32 | DI64 => Qtrunc v
  | _ => v
  end.

Notation narrQ := (@narr Q).
Notation operandQ := (@operand Q).

(* ---- concrete NumPy for the modelled ufuncs ---- *)
Definition in_shape (r : @rawin Q) : list nat := match r with RIArr a => a_shape a | RIScal _ => [] end.
Definition in_data (r : @rawin Q) : list Q := match r with RIArr a => a_data a | RIScal v => [v] end.

Fixpoint norm_axes (nd : nat) (l : list Z) : option (list nat) :=
  match l with
  | [] => Some []
  | z :: l' => match norm_index nd z, norm_axes nd l' with
               | Some a, Some r => Some (a :: r)
               | _, _ => None
               end
  end.
Fixpoint has_dup (l : list nat) : bool :=
  match l with [] => false | a :: l' => existsb (Nat.eqb a) l' || has_dup l' end.
(* insertion sort, decreasing *)
Fixpoint ins_desc (a : nat) (l : list nat) : list nat :=
  match l with [] => [a] | b :: l' => if (b <=? a)%nat then a :: l else b :: ins_desc a l' end.
Definition sort_desc (l : list nat) : list nat := fold_right ins_desc [] l.
Definition keep_shape (shape : list nat) (axes : list nat) : list nat :=
  map (fun p => if existsb (Nat.eqb (fst p)) axes then 1%nat else snd p) (combine (seq 0 (length shape)) shape).

Definition hd_dt (l : list dt) : dt := match l with d :: _ => d | [] => DF64 end.
Definition out_shape (q : @npreq Q) : option (list nat) :=
  match q_outs q with Some (_, s) :: _ => Some s | _ => None end.
(* broadcast a computed result to the shape of a given out array *)
Definition to_out (q : @npreq Q) (s : list nat) (d : list Q) : res (list nat * list Q) :=
  match out_shape q with
  | None => Ok (s, d)
  | Some os =>
      match bcast_shape s os with
      | Some bs => if shape_eqb bs os then Ok (os, bcast_to s os d) else Err EValue
      | None => Err EValue
      end
  end.

(* comparison ufuncs have no (float, float) -> float loop: reduce, accumulate and
   reduceat raise TypeError on numeric arrays *)
Definition bop_is_cmp (o : bop) : bool :=
  match o with BLess | BLessEq | BGreater | BGreaterEq | BEq | BNe => true | _ => false end.
Definition meth_reduces (m : meth) : bool :=
  match m with MReduce | MAccumulate | MReduceat => true | _ => false end.

(* a computed result stored with NumPy's result dtype (bool results: nonzero -> 1) *)
Definition mkRes (d : dt) (shape : list nat) (data : list Q) : narrQ :=
  mkArr d shape (map (castQ DF64 d) data).

Definition np_conc (uf : ufid) (rdt : list dt) (oracle : res (list narrQ)) (q : @npreq Q)
  : res (list narrQ) :=
  let d0 := hd_dt rdt in
  match uf with
  | UOracle => oracle
  | UU u =>
      match q_meth q, q_ins q with
      | MCall, [x] =>
          match to_out q (in_shape x) (call1 u (in_data x)) with
          | Ok (s, d) => Ok [mkRes d0 s d]
          | Err e => Err e
          end
      | MAt, [RIArr a] =>
          match a_shape a with
          | [] => Err EType
          | n :: rest =>
              match norm_axes n (kw_idx (q_kw q)) with
              | None => Err EIndex
              | Some idx =>
                  let inner := prodn rest in
                  Ok [mkRes (a_dt a) (a_shape a) (concat (at1_rows u (chunks inner n (a_data a)) idx))]
              end
          end
      | _, _ => Err EUnmodelled
      end
  | UB o =>
      match q_meth q, q_ins q with
      | MCall, [x; y] =>
          match call2 o (in_shape x) (in_data x) (in_shape y) (in_data y) with
          | None => Err EValue
          | Some (s, d) =>
              match to_out q s d with
              | Ok (s', d') => Ok [mkRes d0 s' d']
              | Err e => Err e
              end
          end
      | MReduce, [RIArr a] =>
          let shape := a_shape a in
          let nd := length shape in
          let axes := match kw_axis (q_kw q) with
                      | AxAbsent => Some [0%nat]
                      | AxNone => Some (seq 0 nd)
                      | AxInt z => norm_axes nd [z]
                      | AxTuple l => norm_axes nd l
                      end in
          match axes with
          | None => Err EAxis
          | Some ax =>
              if has_dup ax then Err EValue
              else if (1 <? length ax)%nat && negb (bop_reorderable o) then Err EValue
              else if bop_is_cmp o then Err EType
              else match reduce_axes o shape (sort_desc ax) (a_data a) with
                   | None => Err EValue
                   | Some (s, d) =>
                       Ok [mkRes d0 (if kw_keepdims (q_kw q) then keep_shape shape ax else s) d]
                   end
          end
      | MAccumulate, [RIArr a] =>
          let shape := a_shape a in
          let nd := length shape in
          let axis := match kw_axis (q_kw q) with
                      | AxAbsent => Ok 0%nat
                      | AxNone => if (nd =? 1)%nat then Ok 0%nat else Err EValue
                      | AxInt z => match norm_index nd z with Some a => Ok a | None => Err EAxis end
                      | AxTuple [z] => match norm_index nd z with Some a => Ok a | None => Err EAxis end
                      | AxTuple _ => Err EValue
                      end in
          match axis with
          | Err e => Err e
          | Ok ax => if bop_is_cmp o then Err EType
                     else Ok [mkRes d0 shape (accumulate_axis o shape ax (a_data a))]
          end
      | MOuter, [x; y] =>
          Ok [mkRes d0 (in_shape x ++ in_shape y) (outer o (in_data x) (in_data y))]
      | MReduceat, [RIArr a] =>
          let shape := a_shape a in
          let nd := length shape in
          let axis := match kw_axis (q_kw q) with
                      | AxAbsent => Some 0%nat
                      | AxInt z => norm_index nd z
                      | _ => None
                      end in
          match axis with
          | None => Err EAxis
          | Some ax =>
              let n := nth ax shape 0%nat in
              let zs := kw_idx (q_kw q) in
              if forallb (fun z => (0 <=? z)%Z && (z <? Z.of_nat n)%Z) zs
              then if bop_is_cmp o then Err EType else
                   let idx := map Z.to_nat zs in
                   Ok [mkRes d0 (set_ax shape ax (length idx)) (reduceat_axis o shape ax idx (a_data a))]
              else Err EIndex
          end
      | MAt, [RIArr a; v] =>
          match a_shape a with
          | [] => Err EType
          | n :: rest =>
              match norm_axes n (kw_idx (q_kw q)) with
              | None => Err EIndex
              | Some idx =>
                  let inner := prodn rest in
                  let k := length idx in
                  match bcast_shape (in_shape v) (k :: rest) with
                  | None => Err EValue
                  | Some bs =>
                      if negb (shape_eqb bs (k :: rest)) then Err EValue else
                      let vrows := chunks inner k (bcast_to (in_shape v) (k :: rest) (in_data v)) in
                      Ok [mkRes (a_dt a) (a_shape a)
                                (concat (at2_rows o (chunks inner n (a_data a)) (combine idx vrows)))]
                  end
              end
          end
      | _, _ => Err EUnmodelled
      end
  end.

(* ---- observations ---- *)
(* kind: 0 ndarray, 1 NumpyTensor, 2 DiscretizedSpaceElement, 3 scalar, 4 None *)
Record oret := mkORet {
  o_kind : nat;
  o_isout : bool;                 (* the returned object IS the k-th given out object *)
  o_buf : option nat;             (* initial buffer it shares memory with (None = fresh) *)
  o_space : option tspace;        (* tensor space (of the element / of element.tensor) *)
  o_axes : list axisd;            (* partition of a discretized result *)
  o_shape : list nat; o_dt : dt; o_data : list Q }.
Inductive observed := OErr (e : errk) | OOk (rets : list oret) (final : list (list Q)).

Record ucase := mkCase {
  k_var : variant; k_direct : bool (* __array_ufunc__ called directly: no raw half *);
  k_uf : ufid; k_nout : nat; k_rdt : list dt; k_oracle : res (list narrQ);
  k_store : list narrQ;
  k_self : operandQ; k_meth : meth; k_ins : list operandQ; k_kw : kwargs;
  k_outs : list (option operandQ);
  k_odl : observed;               (* what ODL did *)
  k_raw : observed }.             (* what NumPy did on the underlying arrays *)

Definition tol : Q := 1 # 1000000000000.
Definition errk_code (e : errk) : nat :=
  match e with EValue => 0 | EType => 1 | EIndex => 2 | EAxis => 3 | ENotImpl => 4 | ERuntime => 5
             | EUnmodelled => 6 end.
Definition errk_eqb (a b : errk) : bool := (errk_code a =? errk_code b)%nat.

Definition wgt_close (a b : wgt) : bool :=
  match a, b with
  | WConst x, WConst y => Qclose 0 tol x y
  | WArr 0 _, WArr _ _ | WArr _ _, WArr 0 _ => true       (* tag 0: not modelled *)
  | WArr i d, WArr j e => (i =? j)%nat && dt_eqb d e
  | _, _ => false
  end.
Definition tspace_close (a b : tspace) : bool :=
  shape_eqb (ts_shape a) (ts_shape b) && dt_eqb (ts_dt a) (ts_dt b)
  && wgt_close (ts_w a) (ts_w b) && Qeq_bool (ts_exp a) (ts_exp b).
Definition axis_close (a b : axisd) : bool :=
  Qclose tol tol (ax_min a) (ax_min b) && Qclose tol tol (ax_max a) (ax_max b)
  && (ax_n a =? ax_n b)%nat && (ax_label a =? ax_label b)%nat.

Definition opt_nat_eqb (a b : option nat) : bool :=
  match a, b with Some x, Some y => (x =? y)%nat | None, None => true | _, _ => false end.
Definition same_container (a b : operandQ) : bool :=
  match a, b with
  | OpArr i, OpArr j => (i =? j)%nat
  | OpTens _ i, OpTens _ j => (i =? j)%nat
  | OpDisc _ i, OpDisc _ j => (i =? j)%nat
  | _, _ => false
  end.

(* model return value vs observation; n = number of initial buffers *)
Definition ret_ok (n : nat) (st : @store Q) (given : option operandQ) (m : operandQ) (o : oret) : bool :=
  let buf_ok (id : nat) :=
    opt_nat_eqb (if (id <? n)%nat then Some id else None) (o_buf o)
    && shape_eqb (a_shape (rd st id)) (o_shape o) && dt_eqb (a_dt (rd st id)) (o_dt o)
    && Qsclose tol tol (o_data o) (a_data (rd st id)) in
  Bool.eqb (o_isout o) (match given with Some g => same_container g m | None => false end)
  && match m with
     | OpArr id => (o_kind o =? 0)%nat && buf_ok id
     | OpTens sp id =>
         (o_kind o =? 1)%nat && buf_ok id
         && match o_space o with Some s => tspace_close sp s | None => false end
     | OpDisc ds id =>
         (o_kind o =? 2)%nat && buf_ok id
         && match o_space o with Some s => tspace_close (ds_ts ds) s | None => false end
         && all2 axis_close (ds_axes ds) (o_axes o)
     | OpScal v => (o_kind o =? 3)%nat && Qsclose tol tol (o_data o) [v]
     | OpNone => (o_kind o =? 4)%nat
     end.
Fixpoint rets_ok (n : nat) (st : @store Q) (given : list (option operandQ)) (ms : list operandQ)
         (os : list oret) : bool :=
  match ms, os with
  | [], [] => true
  | m :: ms', o :: os' =>
      ret_ok n st (match given with g :: _ => g | [] => None end) m o
      && rets_ok n st (match given with _ :: t => t | [] => [] end) ms' os'
  | _, _ => false
  end.
Definition final_ok (n : nat) (st : @store Q) (final : list (list Q)) : bool :=
  all2 (fun a f => Qsclose tol tol f (a_data a)) (firstn n st) final.

Definition outcome_ok (n : nat) (given : list (option operandQ))
           (m : res (list operandQ * @store Q)) (o : observed) : bool :=
  match m, o with
  | Err e, OErr e' => errk_eqb e e'
  | Ok (ms, st), OOk os final => rets_ok n st given ms os && final_ok n st final
  | _, _ => false
  end.

(* the raw side: same call on the underlying arrays *)
Definition strip (o : operandQ) : operandQ :=
  match o with OpTens _ id | OpDisc _ id => OpArr id | _ => o end.
Definition raw_as_operands (r : res (list (@rret Q) * @store Q)) : res (list operandQ * @store Q) :=
  match r with
  | Err e => Err e
  | Ok (l, st) => Ok (map (fun x => match x with RRBuf id => OpArr id | RRScal v => OpScal v
                                                | RRNone => OpNone end) l, st)
  end.
Definition opt_buf (o : option operandQ) : option nat :=
  match o with Some x => op_buf x | None => None end.

Definition run_odl (k : ucase) : res (list operandQ * @store Q) :=
  let NP := np_conc (k_uf k) (k_rdt k) (k_oracle k) in
  match k_self k with
  | OpTens sp _ => tens_ufunc castQ (k_var k) NP (k_store k) sp (k_nout k) (k_meth k) (k_ins k) (k_kw k) (k_outs k)
  | OpDisc ds _ => disc_ufunc castQ (k_var k) NP (k_store k) ds (k_nout k) (k_meth k) (k_ins k) (k_kw k) (k_outs k)
  | _ => Err EUnmodelled
  end.
Definition run_raw (k : ucase) : res (list operandQ * @store Q) :=
  let NP := np_conc (k_uf k) (k_rdt k) (k_oracle k) in
  match map_opt tens_unwrap (map strip (k_ins k)) with
  | None => Err EUnmodelled
  | Some rins =>
      raw_as_operands
        (raw_ufunc castQ NP (k_store k) (k_meth k) (k_kw k) rins
                   (if is_at (k_meth k) then [] else map opt_buf (k_outs k)))
  end.

Definition check_odl (k : ucase) : bool :=
  outcome_ok (length (k_store k)) (k_outs k) (run_odl k) (k_odl k).
Definition check_raw (k : ucase) : bool :=
  outcome_ok (length (k_store k)) (map (option_map strip) (k_outs k)) (run_raw k) (k_raw k).
Definition check (k : ucase) : bool := check_odl k && (k_direct k || check_raw k).

(* ---------------- legacy x.ufuncs on (nested) power spaces ---------------- *)
From Verif Require Import C17.Legacy.
Inductive lop := LU (u : uop) | LSc (o : bop) (c : Q) | LHalf.
Definition lop_f (l : lop) (d : dt) (v : Q) : Q :=
  match l with LU u => uop_ev u v | LSc o c => bop_ev o v c | LHalf => ndiv v (2 # 1) end.
Fixpoint assoc_dt (tab : list (dt * dt)) (d : dt) : dt :=
  match tab with
  | [] => d
  | (a, b) :: r => if dt_eqb a d then b else assoc_dt r d
  end.
Notation ptreeQ := (@ptree Q).
Fixpoint ptree_close (a b : ptreeQ) : bool :=
  match a, b with
  | PLeaf d x, PLeaf e y => dt_eqb d e && Qsclose tol tol y x
  | PNode ts, PNode us =>
      (fix go (ts us : list ptreeQ) : bool :=
         match ts, us with
         | [], [] => true
         | t :: ts', u :: us' => ptree_close t u && go ts' us'
         | _, _ => false
         end) ts us
  | _, _ => false
  end.
Record lcase := mkLCase {
  l_op : lop; l_rdt : list (dt * dt);       (* NumPy's result dtype per input dtype *)
  l_tree : ptreeQ;
  l_legacy : ptreeQ;                         (* x.ufuncs.<name>(...) *)
  l_npcall : ptreeQ }.                       (* np.<name>(x, ...) on the element *)
Definition is_node (t : ptreeQ) : bool := match t with PNode _ => true | _ => false end.
Definition check_legacy (k : lcase) : bool :=
  let F := assoc_dt (l_rdt k) in
  let f := lop_f (l_op k) in
  ptree_close (legacy1 castQ F f (l_tree k)) (l_legacy k)
  && ptree_close (if is_node (l_tree k) then legacy1_spec castQ F f (l_tree k)
                  else legacy1 castQ F f (l_tree k)) (l_npcall k).

(* ---------------- power-space elements through the NumPy API ---------------- *)
(* kind: 0 ndarray, 1 power-space element, 3 scalar *)
Record pw := mkPW { pw_kind : nat; pw_dt : dt; pw_shape : list nat; pw_data : list Q }.
Inductive pobs := PErr (e : errk) | POk (l : list pw).
Record pcase := mkPCase {
  p_uf : ufid; p_rdt : list dt; p_oracle : res (list narrQ);
  p_n : nat; p_s : list nat; p_d : dt; p_x : list Q;      (* the element: n parts of shape s *)
  p_meth : meth; p_kw : kwargs;
  p_other : list (@rawin Q);                               (* further operands (arrays / scalars) *)
  p_self_second : bool;                                    (* the element is the SECOND operand *)
  p_out_elem : bool;                                       (* out= is a power-space element *)
  p_out_arr : bool;                                        (* out= is an ndarray of the result dtype *)
  p_obs : pobs }.
Definition wrapped_ok (w : @wrapped Q) (o : pw) : bool :=
  match w with
  | WScal v => (pw_kind o =? 3)%nat && Qsclose tol tol (pw_data o) [v]
  | WArrRes r => (pw_kind o =? 0)%nat && dt_eqb (a_dt r) (pw_dt o) && shape_eqb (a_shape r) (pw_shape o)
                 && Qsclose tol tol (pw_data o) (a_data r)
  | WElem d sh x => (pw_kind o =? 1)%nat && dt_eqb d (pw_dt o) && shape_eqb sh (pw_shape o)
                    && Qsclose tol tol (pw_data o) x
  end.
Definition check_pspace (k : pcase) : bool :=
  let xarr := RIArr (mkArr (p_d k) (p_n k :: p_s k) (p_x k)) in
  let ins := if p_self_second k then p_other k ++ [xarr] else xarr :: p_other k in
  let r := np_conc (p_uf k) (p_rdt k) (p_oracle k) (mkReq (p_meth k) (p_kw k) ins []) in
  match pspace_np castQ (p_meth k) (p_out_elem k) (p_out_arr k) (p_n k) (p_s k) (p_d k) r, p_obs k with
  | Err e, PErr e' => errk_eqb e e'
  | Ok ws, POk os => all2 wrapped_ok ws os
  | _, _ => false
  end.

(* ---------------- wrapping: layout / writeable / order ---------------- *)
Record wcase := mkWCase {
  w_shape_ok : bool;            (* array shape equals the space shape *)
  w_dt_arr : dt; w_dt_space : dt;
  w_writeable : bool; w_layout : layout; w_order : option order;
  w_err : bool;                 (* observed: ValueError *)
  w_shares : bool }.            (* observed: np.shares_memory(arr, element.asarray()) *)
Definition check_wrap (k : wcase) : bool :=
  let shp := if w_shape_ok k then [2%nat] else [3%nat] in
  let st : @store Q := [mkArr (w_dt_arr k) shp [0; 0]] in
  let sp := ts_default [2%nat] (w_dt_space k) in
  match t_element_lay castQ st sp 0 (w_writeable k) (w_layout k) (w_order k) with
  | Err _ => w_err k
  | Ok (OpTens _ id, _) => negb (w_err k) && Bool.eqb (w_shares k) (id =? 0)%nat
  | Ok _ => false
  end.

(* ---------------- binary legacy ufuncs on nested power spaces, any second operand ---------------- *)
Inductive tobs := TErr (e : errk) | TOk (t : ptreeQ).
Record l2case := mkL2Case {
  l2_op : bop; l2_rdt : list (dt * dt); l2_out : bool;
  l2_tree : ptreeQ; l2_arg : @arg2 Q;
  l2_legacy : tobs;                 (* X.ufuncs.<name>(x2[, out=...]) *)
  l2_numpy : option (list Q) }.     (* NumPy on the stacked arrays (flat), when it has the shape and dtype of X *)
Definition check_legacy2 (k : l2case) : bool :=
  let F := assoc_dt (l2_rdt k) in
  let f := fun (_ : dt) => bop_ev (l2_op k) in
  match legacy2 castQ F f (l2_out k) (l2_tree k) (l2_arg k), l2_legacy k with
  | Err e, TErr e' => errk_eqb e e'
  | Ok r, TOk t =>
      ptree_close r t
      && match l2_numpy k with Some fl => Qsclose tol tol fl (flat r) | None => true end
  | _, _ => false
  end.
