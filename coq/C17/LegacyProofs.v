(* C17/LegacyProofs.v -- the legacy x.ufuncs interface on arbitrarily nested
   power spaces, by induction over element trees. *)
From Coq Require Import List Bool Arith Lia.
From Verif Require Import C17.Model C17.Proofs C17.Legacy.
Import ListNotations.

Section LegacyProofs.
Context {T : Type}.
Variable cast : dt -> dt -> T -> T.
Variable F1 : dt -> dt.
Variable f1 : dt -> T -> T.
Notation ptree := (@ptree T).
Notation legacy1 := (legacy1 cast F1 f1).
Notation numpy1 := (@numpy1 T F1 f1).
Notation legacy1_spec := (legacy1_spec cast F1 f1).
Notation cast_like := (cast_like cast).

(* induction over trees with the hypothesis for every part *)
Fixpoint ptree_rect' (P : ptree -> Prop)
   (Hl : forall d x, P (PLeaf d x))
   (Hn : forall ts, Forall P ts -> P (PNode ts)) (t : ptree) : P t :=
  match t with
  | PLeaf d x => Hl d x
  | PNode ts =>
      Hn ts ((fix go (l : list ptree) : Forall P l :=
                match l with
                | [] => Forall_nil P
                | a :: l' => Forall_cons a (ptree_rect' P Hl Hn a) (go l')
                end) ts)
  end.

Lemma conv_same d v : conv cast d d v = v.
Proof. unfold conv. rewrite dt_eqb_refl. reflexivity. Qed.

(* zipping the original parts with their processed versions *)
Definition zip_cast (os rs : list ptree) : list ptree :=
  (fix go (os rs : list ptree) : list ptree :=
     match os, rs with
     | o :: os', r :: rs' => cast_like o r :: go os' rs'
     | _, _ => []
     end) os rs.
Lemma cast_like_node os rs : cast_like (PNode os) (PNode rs) = PNode (zip_cast os rs).
Proof. reflexivity. Qed.
Lemma zip_cast_map (g : ptree -> ptree) (ts : list ptree) :
  zip_cast ts (map g ts) = map (fun t => cast_like t (g t)) ts.
Proof. induction ts as [|a ts IH]; cbn; [reflexivity|]. f_equal. exact IH. Qed.

(* converting a closed-form result once more changes nothing *)
Lemma cast_like_spec_idem (t : ptree) : cast_like t (legacy1_spec t) = legacy1_spec t.
Proof.
  induction t as [d x | ts IH] using ptree_rect'.
  - cbn. f_equal. rewrite map_map. apply map_ext. intros v. apply conv_same.
  - cbn [Legacy.legacy1_spec]. rewrite cast_like_node, zip_cast_map. f_equal.
    apply map_ext_in. intros a Ha. rewrite Forall_forall in IH. apply IH. exact Ha.
Qed.

(* THE CLOSED FORM, every nesting depth, every number of parts: on a product
   space x.ufuncs.f() returns the element of the SAME space whose leaves are
   f(leaf) converted back to the leaf's dtype *)
Lemma legacy1_both (t : ptree) :
  cast_like t (legacy1 t) = legacy1_spec t
  /\ (forall ts, t = PNode ts -> legacy1 t = legacy1_spec t).
Proof.
  induction t as [d x | ts IH] using ptree_rect'.
  - split; [|intros ts E; discriminate]. cbn. f_equal. rewrite map_map. reflexivity.
  - assert (Hnode : legacy1 (PNode ts) = legacy1_spec (PNode ts)).
    { cbn [Legacy.legacy1 Legacy.legacy1_spec]. rewrite cast_like_node, zip_cast_map. f_equal.
      apply map_ext_in. intros a Ha. rewrite Forall_forall in IH. apply (IH a Ha). }
    split; [| intros ts' _; exact Hnode].
    rewrite Hnode. apply cast_like_spec_idem.
Qed.
Lemma legacy1_closed_form (ts : list ptree) : legacy1 (PNode ts) = legacy1_spec (PNode ts).
Proof. apply (proj2 (legacy1_both (PNode ts)) ts). reflexivity. Qed.

(* ... hence the legacy interface gives NumPy's numbers (and dtype) on every
   tree all of whose leaves keep their dtype under the ufunc *)
Lemma spec_is_numpy (t : ptree) : dtype_preserved F1 t -> legacy1_spec t = numpy1 t.
Proof.
  induction t as [d x | ts IH] using ptree_rect'; intros Hp.
  - cbn in *. rewrite Hp. f_equal. apply map_ext. intros v. apply conv_same.
  - cbn [Legacy.legacy1_spec Legacy.numpy1]. f_equal. cbn in Hp.
    induction ts as [|a ts IHts]; cbn; [reflexivity|].
    inversion IH as [|? ? Ha IHrest]; subst. destruct Hp as [Hpa Hprest].
    f_equal; [apply Ha; exact Hpa | apply IHts; assumption].
Qed.
Lemma legacy1_agrees_with_numpy (ts : list ptree) :
  dtype_preserved F1 (PNode ts) -> legacy1 (PNode ts) = numpy1 (PNode ts).
Proof. intros Hp. rewrite legacy1_closed_form. apply spec_is_numpy. exact Hp. Qed.

(* ---------- __array_wrap__ of power-space elements ---------- *)
(* a result with the shape of the element is wrapped into the same space: the
   numbers are NumPy's, converted to the dtype of the space *)
Lemma wrap_same_shape n (s : list nat) d (r : @narr T) :
  a_shape r = n :: s ->
  wrap_pspace cast n s d r = Ok (WElem d (n :: s) (map (conv cast (a_dt r) d) (a_data r))).
Proof.
  intros Hs. unfold wrap_pspace. rewrite Hs, Nat.eqb_refl. cbn [negb].
  rewrite Nat.sub_diag. cbn [repeat app]. rewrite shape_eqb_refl. reflexivity.
Qed.
(* ... and unchanged numbers when the result dtype is the dtype of the space *)
Lemma wrap_same_shape_dtype n (s : list nat) (r : @narr T) :
  a_shape r = n :: s ->
  wrap_pspace cast n s (a_dt r) r = Ok (WElem (a_dt r) (n :: s) (a_data r)).
Proof.
  intros Hs. rewrite (wrap_same_shape n s (a_dt r) r Hs). f_equal. f_equal.
  rewrite <- (map_id (a_data r)) at 2. apply map_ext. intros v. apply conv_same.
Qed.

(* reduce over the component axis (axis 0, NumPy's default) of a power space
   with at least two parts of any shape: the result has the shape of ONE part
   and can never be wrapped -- every rank, every part shape *)
Lemma wrap_part_shape_fails n (s : list nat) d (r : @narr T) :
  (2 <= n)%nat -> s <> [] -> a_shape r = s -> wrap_pspace cast n s d r = Err EValue.
Proof.
  intros Hn Hne Hs. unfold wrap_pspace. rewrite Hs. destruct s as [|m rs]; [congruence|].
  destruct (Nat.eqb_spec m n) as [->|Hmn]; cbn [negb]; [|reflexivity].
  cbn [length]. replace (S (length rs) - length rs)%nat with 1%nat by lia. cbn [repeat app].
  destruct (shape_eqb (1%nat :: rs) (n :: rs)) eqn:E; [|reflexivity].
  apply shape_eqb_eq in E. inversion E. lia.
Qed.

End LegacyProofs.
