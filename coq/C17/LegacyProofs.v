(* C17/LegacyProofs.v -- the legacy x.ufuncs interface on arbitrarily nested
   power spaces, by induction over element trees. *)
From Coq Require Import List Bool Arith Lia.
From Verif Require Import C17.Model C17.Proofs C17.Legacy.
Import ListNotations.

Section LegacyProofs.
Context {T : Type}.
Variable cast : dt -> dt -> T -> T.
Variable F1 : dt -> dt.
Variable f1 : dt -> T -> T.
Notation ptree := (@ptree T).
Notation legacy1 := (legacy1 cast F1 f1).
Notation numpy1 := (@numpy1 T F1 f1).
Notation legacy1_spec := (legacy1_spec cast F1 f1).
Notation cast_like := (cast_like cast).

(* induction over trees with the hypothesis for every part *)
Fixpoint ptree_rect' (P : ptree -> Prop)
   (Hl : forall d x, P (PLeaf d x))
   (Hn : forall ts, Forall P ts -> P (PNode ts)) (t : ptree) : P t :=
  match t with
  | PLeaf d x => Hl d x
  | PNode ts =>
      Hn ts ((fix go (l : list ptree) : Forall P l :=
                match l with
                | [] => Forall_nil P
                | a :: l' => Forall_cons a (ptree_rect' P Hl Hn a) (go l')
                end) ts)
  end.

Lemma conv_same d v : conv cast d d v = v.
Proof. unfold conv. rewrite dt_eqb_refl. reflexivity. Qed.

(* zipping the original parts with their processed versions *)
Definition zip_cast (os rs : list ptree) : list ptree :=
  (fix go (os rs : list ptree) : list ptree :=
     match os, rs with
     | o :: os', r :: rs' => cast_like o r :: go os' rs'
     | _, _ => []
     end) os rs.
Lemma cast_like_node os rs : cast_like (PNode os) (PNode rs) = PNode (zip_cast os rs).
Proof. reflexivity. Qed.
Lemma zip_cast_map (g : ptree -> ptree) (ts : list ptree) :
  zip_cast ts (map g ts) = map (fun t => cast_like t (g t)) ts.
Proof. induction ts as [|a ts IH]; cbn; [reflexivity|]. f_equal. exact IH. Qed.

(* converting a closed-form result once more changes nothing *)
Lemma cast_like_spec_idem (t : ptree) : cast_like t (legacy1_spec t) = legacy1_spec t.
Proof.
  induction t as [d x | ts IH] using ptree_rect'.
  - cbn. f_equal. rewrite map_map. apply map_ext. intros v. apply conv_same.
  - cbn [Legacy.legacy1_spec]. rewrite cast_like_node, zip_cast_map. f_equal.
    apply map_ext_in. intros a Ha. rewrite Forall_forall in IH. apply IH. exact Ha.
Qed.

(* THE CLOSED FORM, every nesting depth, every number of parts: on a product
   space x.ufuncs.f() returns the element of the SAME space whose leaves are
   f(leaf) converted back to the leaf's dtype *)
Lemma legacy1_both (t : ptree) :
  cast_like t (legacy1 t) = legacy1_spec t
  /\ (forall ts, t = PNode ts -> legacy1 t = legacy1_spec t).
Proof.
  induction t as [d x | ts IH] using ptree_rect'.
  - split; [|intros ts E; discriminate]. cbn. f_equal. rewrite map_map. reflexivity.
  - assert (Hnode : legacy1 (PNode ts) = legacy1_spec (PNode ts)).
    { cbn [Legacy.legacy1 Legacy.legacy1_spec]. rewrite cast_like_node, zip_cast_map. f_equal.
      apply map_ext_in. intros a Ha. rewrite Forall_forall in IH. apply (IH a Ha). }
    split; [| intros ts' _; exact Hnode].
    rewrite Hnode. apply cast_like_spec_idem.
Qed.
Lemma legacy1_closed_form (ts : list ptree) : legacy1 (PNode ts) = legacy1_spec (PNode ts).
Proof. apply (proj2 (legacy1_both (PNode ts)) ts). reflexivity. Qed.

(* ... hence the legacy interface gives NumPy's numbers (and dtype) on every
   tree all of whose leaves keep their dtype under the ufunc *)
Lemma spec_is_numpy (t : ptree) : dtype_preserved F1 t -> legacy1_spec t = numpy1 t.
Proof.
  induction t as [d x | ts IH] using ptree_rect'; intros Hp.
  - cbn in *. rewrite Hp. f_equal. apply map_ext. intros v. apply conv_same.
  - cbn [Legacy.legacy1_spec Legacy.numpy1]. f_equal. cbn in Hp.
    induction ts as [|a ts IHts]; cbn; [reflexivity|].
    inversion IH as [|? ? Ha IHrest]; subst. destruct Hp as [Hpa Hprest].
    f_equal; [apply Ha; exact Hpa | apply IHts; assumption].
Qed.
Lemma legacy1_agrees_with_numpy (ts : list ptree) :
  dtype_preserved F1 (PNode ts) -> legacy1 (PNode ts) = numpy1 (PNode ts).
Proof. intros Hp. rewrite legacy1_closed_form. apply spec_is_numpy. exact Hp. Qed.

(* ---------- binary legacy ufuncs: pairing vs recursive broadcasting ---------- *)
Section Binary.
Variable F2 : dt -> dt.
Variable f2 : dt -> T -> T -> T.
Notation legacy2 := (legacy2 cast F2 f2).
Notation espec := (legacy2_elem_spec cast F2 f2).

(* named versions of the nested list recursions *)
Fixpoint sigs_eqb (ts us : list ptree) : bool :=
  match ts, us with
  | [], [] => true
  | a :: ts', b :: us' => sig_eqb a b && sigs_eqb ts' us'
  | _, _ => false
  end.
Lemma sig_eqb_node ts us : sig_eqb (PNode ts) (PNode us) = sigs_eqb ts us.
Proof. reflexivity. Qed.
Definition inners (l : list ptree) (u : ptree) : Prop :=
  (fix all (l : list ptree) : Prop :=
     match l with [] => True | a :: l' => inner a u /\ all l' end) l.
Lemma inners_cons a l u : inners (a :: l) u = (inner a u /\ inners l u).
Proof. reflexivity. Qed.
Lemma inner_unfold t u :
  inner t u = if sig_eqb t u then True else match t with PLeaf _ _ => False | PNode ts => inners ts u end.
Proof. destruct t; reflexivity. Qed.
Definition l2_pair (w : bool) (ts us : list ptree) : res (list ptree) :=
  (fix go (ts us : list ptree) : res (list ptree) :=
     match ts, us with
     | x :: ts', u :: us' =>
         match legacy2 w x (A2Tree u) with
         | Err e => Err e
         | Ok r => match go ts' us' with Ok l => Ok (r :: l) | Err e => Err e end
         end
     | _, _ => Ok []
     end) ts us.
Lemma l2_pair_cons w x ts u us :
  l2_pair w (x :: ts) (u :: us) = match legacy2 w x (A2Tree u) with
                                  | Err e => Err e
                                  | Ok r => match l2_pair w ts us with Ok l => Ok (r :: l) | Err e => Err e end
                                  end.
Proof. reflexivity. Qed.
Definition l2_map (w : bool) (ts : list ptree) (a : arg2) : res (list ptree) :=
  (fix go (ts : list ptree) : res (list ptree) :=
     match ts with
     | [] => Ok []
     | x :: ts' =>
         match legacy2 w x a with
         | Err e => Err e
         | Ok r => match go ts' with Ok l => Ok (r :: l) | Err e => Err e end
         end
     end) ts.
Lemma l2_map_cons w x ts a :
  l2_map w (x :: ts) a = match legacy2 w x a with
                         | Err e => Err e
                         | Ok r => match l2_map w ts a with Ok l => Ok (r :: l) | Err e => Err e end
                         end.
Proof. reflexivity. Qed.
Lemma legacy2_node w ts a :
  legacy2 w (PNode ts) a =
  match (if pair_decision (PNode ts) a
         then match a with A2Tree (PNode us) => l2_pair w ts us | _ => Err EUnmodelled end
         else l2_map w ts a) with
  | Ok l => Ok (cast_like (PNode ts) (PNode l))
  | Err e => Err e
  end.
Proof. reflexivity. Qed.

Fixpoint espec_zip (ts us : list ptree) : list ptree :=
  match ts, us with a :: ts', b :: us' => espec a b :: espec_zip ts' us' | _, _ => [] end.
Lemma espec_node ts us : espec (PNode ts) (PNode us) = PNode (espec_zip ts us).
Proof. reflexivity. Qed.

(* the closed form for an operand from the space of t or one of its inner spaces *)
Fixpoint bspec (t u : ptree) : ptree :=
  if sig_eqb t u then espec t u
  else match t with
       | PLeaf _ _ => t
       | PNode ts => PNode (map (fun x => bspec x u) ts)
       end.

Lemma zip_cast_length_nil (ts : list ptree) : zip_cast ts [] = [].
Proof. destruct ts; reflexivity. Qed.

(* conversion of a closed-form result changes nothing *)
Lemma cast_like_espec (t : ptree) : forall u, sig_eqb t u = true -> cast_like t (espec t u) = espec t u.
Proof.
  induction t as [d x | ts IH] using ptree_rect'; intros [e y | us] Hs; try discriminate Hs.
  - cbn. f_equal. rewrite map_map. apply map_ext. intros v. apply conv_same.
  - rewrite espec_node, cast_like_node. f_equal. rewrite sig_eqb_node in Hs.
    revert us Hs. induction IH as [|a ts Ha _ IHl]; intros [|b us] Hs; cbn in *; try discriminate; auto.
    apply andb_prop in Hs as [H1 H2]. rewrite Ha by exact H1. f_equal. apply IHl. exact H2.
Qed.
Lemma cast_like_bspec (t : ptree) : forall u, inner t u -> cast_like t (bspec t u) = bspec t u.
Proof.
  induction t as [d x | ts IH] using ptree_rect'; intros u Hi.
  - cbn [bspec]. destruct (sig_eqb (PLeaf d x) u) eqn:Hs; [apply cast_like_espec; exact Hs|].
    rewrite inner_unfold, Hs in Hi. destruct Hi.
  - cbn [bspec]. destruct (sig_eqb (PNode ts) u) eqn:Hs; [apply cast_like_espec; exact Hs|].
    rewrite inner_unfold, Hs in Hi. rewrite cast_like_node, zip_cast_map. f_equal. clear Hs.
    induction IH as [|a ts Ha _ IHl]; [reflexivity|]. rewrite inners_cons in Hi. destruct Hi as [Hia Hil].
    cbn [map]. rewrite Ha by exact Hia. f_equal. apply IHl. exact Hil.
Qed.

(* MAIN CLOSED FORM (out-of-place): every nesting depth, every number of parts,
   x2 from the space of X or from any of its inner spaces *)
Lemma legacy2_inner (t : ptree) : forall u, inner t u ->
  exists r, legacy2 false t (A2Tree u) = Ok r
            /\ cast_like t r = bspec t u
            /\ (forall ts, t = PNode ts -> r = bspec t u).
Proof.
  induction t as [d x | ts IH] using ptree_rect'; intros u Hi.
  - rewrite inner_unfold in Hi. destruct (sig_eqb (PLeaf d x) u) eqn:Hs; [|destruct Hi].
    destruct u as [e y | us]; [|discriminate Hs]. cbn in Hs. apply andb_prop in Hs as [Hd Hl].
    apply Nat.eqb_eq in Hl.
    exists (PLeaf (F2 d) (map2 (f2 d) x y)). split; [|split].
    + cbn [Legacy.legacy2]. unfold leaf2, opvec. cbn [andb].
      replace (length y =? length x)%nat with true by (symmetry; apply Nat.eqb_eq; congruence). reflexivity.
    + cbn [bspec sig_eqb]. rewrite Hd. replace (length x =? length y)%nat with true
        by (symmetry; apply Nat.eqb_eq; exact Hl). cbn. reflexivity.
    + intros ts E; discriminate E.
  - assert (Hnode : exists l, (if pair_decision (PNode ts) (A2Tree u)
                               then match u with PNode us => l2_pair false ts us | _ => Err EUnmodelled end
                               else l2_map false ts (A2Tree u)) = Ok l
                              /\ PNode (zip_cast ts l) = bspec (PNode ts) u).
    { cbn [pair_decision bspec]. rewrite inner_unfold in Hi.
      destruct (sig_eqb (PNode ts) u) eqn:Hs.
      - destruct u as [e y | us]; [discriminate Hs|]. rewrite sig_eqb_node in Hs. rewrite espec_node.
        clear Hi. revert us Hs. induction IH as [|a ts Ha _ IHl]; intros [|b us] Hs; cbn in Hs; try discriminate.
        + exists []. split; reflexivity.
        + apply andb_prop in Hs as [H1 H2].
          assert (Hia : inner a b) by (rewrite inner_unfold, H1; exact I).
          destruct (Ha b Hia) as (r & Hr & Hc & _).
          destruct (IHl us H2) as (l & Hl & Hz).
          exists (r :: l). rewrite l2_pair_cons, Hr, Hl. split; [reflexivity|].
          cbn [zip_cast espec_zip]. inversion Hz as [Hz']. rewrite Hc.
          unfold bspec at 1. destruct a; cbn [bspec] in *; rewrite H1; reflexivity.
      - clear Hs. induction IH as [|a ts Ha _ IHl].
        + exists []. split; reflexivity.
        + rewrite inners_cons in Hi. destruct Hi as [Hia Hil]. destruct (Ha u Hia) as (r & Hr & Hc & _).
          destruct (IHl Hil) as (l & Hl & Hz).
          exists (r :: l). rewrite l2_map_cons, Hr, Hl. split; [reflexivity|].
          cbn [zip_cast map]. inversion Hz as [Hz']. rewrite Hc. reflexivity. }
    destruct Hnode as (l & Hl & Hz).
    exists (cast_like (PNode ts) (PNode l)). rewrite legacy2_node, Hl, cast_like_node, Hz.
    split; [reflexivity|]. split; [apply cast_like_bspec; exact Hi | intros; reflexivity].
Qed.

(* ---- the closed form IS NumPy broadcasting on the stacked arrays ---- *)
Definition flats (l : list ptree) : list T :=
  (fix go (l : list ptree) : list T := match l with [] => [] | a :: l' => flat a ++ go l' end) l.
Lemma flat_node ts : flat (PNode ts) = flats ts.
Proof. reflexivity. Qed.
Lemma flats_cons a l : flats (a :: l) = flat a ++ flats l.
Proof. reflexivity. Qed.
Definition copies_l (l : list ptree) (u : ptree) : nat :=
  (fix sum (l : list ptree) : nat := match l with [] => 0%nat | a :: l' => (copies a u + sum l')%nat end) l.
Lemma copies_unfold t u :
  copies t u = if sig_eqb t u then 1%nat
               else match t with PLeaf _ _ => 0%nat | PNode ts => copies_l ts u end.
Proof. destruct t; reflexivity. Qed.
Lemma copies_l_cons a l u : copies_l (a :: l) u = (copies a u + copies_l l u)%nat.
Proof. reflexivity. Qed.
Definition all_dtypes (d : dt) (l : list ptree) : Prop :=
  (fix all (l : list ptree) : Prop := match l with [] => True | a :: l' => all_dtype d a /\ all l' end) l.
Lemma all_dtype_node d ts : all_dtype d (PNode ts) = all_dtypes d ts.
Proof. reflexivity. Qed.
Lemma all_dtypes_cons d a l : all_dtypes d (a :: l) = (all_dtype d a /\ all_dtypes d l).
Proof. reflexivity. Qed.

Lemma map2_length {A B C} (g : A -> B -> C) (x : list A) (y : list B) :
  length x = length y -> length (map2 g x y) = length x.
Proof. revert y; induction x as [|a x IH]; intros [|b y] Hl; cbn in *; try congruence. f_equal. apply IH. congruence. Qed.
Lemma map2_app {A B C} (g : A -> B -> C) (a b : list A) (c e : list B) :
  length a = length c -> map2 g (a ++ b) (c ++ e) = map2 g a c ++ map2 g b e.
Proof.
  revert c; induction a as [|x a IH]; intros [|y c] Hl; cbn in *; try congruence.
  f_equal. apply IH. congruence.
Qed.
Lemma map_map2 {A B C D} (h : C -> D) (g : A -> B -> C) (x : list A) (y : list B) :
  map h (map2 g x y) = map2 (fun a b => h (g a b)) x y.
Proof. revert y; induction x as [|a x IH]; intros [|b y]; cbn; try reflexivity. f_equal. apply IH. Qed.
Lemma tile_add k k' (l : list T) : tile (k + k') l = tile k l ++ tile k' l.
Proof. induction k as [|k IH]; cbn; [reflexivity|]. rewrite IH, app_assoc. reflexivity. Qed.
Lemma tile_length k (l : list T) : length (tile k l) = (k * length l)%nat.
Proof. induction k as [|k IH]; cbn; [reflexivity|]. rewrite app_length, IH. reflexivity. Qed.

Lemma sig_eqb_flat_length (t : ptree) : forall u, sig_eqb t u = true -> length (flat t) = length (flat u).
Proof.
  induction t as [d x | ts IH] using ptree_rect'; intros [e y | us] Hs; try discriminate Hs.
  - cbn in Hs. apply andb_prop in Hs as [_ Hl]. apply Nat.eqb_eq in Hl. exact Hl.
  - rewrite sig_eqb_node in Hs. rewrite !flat_node. revert us Hs.
    induction IH as [|a ts Ha _ IHl]; intros [|b us] Hs; cbn in Hs; try discriminate; [reflexivity|].
    apply andb_prop in Hs as [H1 H2]. rewrite !flats_cons, !app_length, (Ha b H1), (IHl us H2). reflexivity.
Qed.

Section Uniform.
Variable d : dt.
(* what one entry becomes: the ufunc, converted back into the space dtype *)
Definition g2 (v w : T) : T := conv cast (F2 d) d (f2 d v w).

Lemma espec_flat (t : ptree) : forall u, sig_eqb t u = true -> all_dtype d t ->
  flat (espec t u) = map2 g2 (flat t) (flat u).
Proof.
  induction t as [e x | ts IH] using ptree_rect'; intros [e' y | us] Hs Hd; try discriminate Hs.
  - cbn in Hd. subst e. cbn. apply map_map2.
  - rewrite espec_node, !flat_node. rewrite sig_eqb_node in Hs. rewrite all_dtype_node in Hd.
    revert us Hs. induction IH as [|a ts Ha _ IHl]; intros [|b us] Hs; cbn in Hs; try discriminate; [reflexivity|].
    apply andb_prop in Hs as [H1 H2]. rewrite all_dtypes_cons in Hd. destruct Hd as [Hda Hdl].
    cbn [espec_zip]. rewrite !flats_cons. rewrite map2_app by (apply sig_eqb_flat_length; exact H1).
    rewrite (Ha b H1 Hda), (IHl Hdl us H2). reflexivity.
Qed.

Lemma inner_flat_length (t : ptree) : forall u, inner t u ->
  length (flat t) = (copies t u * length (flat u))%nat.
Proof.
  induction t as [e x | ts IH] using ptree_rect'; intros u Hi; rewrite inner_unfold in Hi; rewrite copies_unfold.
  - destruct (sig_eqb (PLeaf e x) u) eqn:Hs; [|destruct Hi].
    rewrite (sig_eqb_flat_length _ _ Hs). lia.
  - destruct (sig_eqb (PNode ts) u) eqn:Hs; [rewrite (sig_eqb_flat_length _ _ Hs); lia|].
    rewrite flat_node. clear Hs. induction IH as [|a ts Ha _ IHl]; [reflexivity|].
    rewrite inners_cons in Hi. destruct Hi as [Hia Hil].
    rewrite flats_cons, app_length, copies_l_cons, (Ha u Hia), (IHl Hil). lia.
Qed.

(* NumPy broadcasting of the array of u (shape = a suffix of the shape of t)
   against the array of t is tiling it along the leading axes *)
Lemma bspec_flat (t : ptree) : forall u, inner t u -> all_dtype d t ->
  flat (bspec t u) = map2 g2 (flat t) (tile (copies t u) (flat u)).
Proof.
  induction t as [e x | ts IH] using ptree_rect'; intros u Hi Hd;
    rewrite inner_unfold in Hi; rewrite copies_unfold; cbn [bspec].
  - destruct (sig_eqb (PLeaf e x) u) eqn:Hs; [|destruct Hi].
    rewrite (espec_flat _ _ Hs Hd). cbn [tile]. rewrite app_nil_r. reflexivity.
  - destruct (sig_eqb (PNode ts) u) eqn:Hs.
    + rewrite (espec_flat _ _ Hs Hd). cbn [tile]. rewrite app_nil_r. reflexivity.
    + rewrite !flat_node. rewrite all_dtype_node in Hd. clear Hs.
      induction IH as [|a ts Ha _ IHl]; [reflexivity|].
      rewrite inners_cons in Hi. destruct Hi as [Hia Hil].
      rewrite all_dtypes_cons in Hd. destruct Hd as [Hda Hdl].
      cbn [map]. rewrite !flats_cons, copies_l_cons, tile_add.
      rewrite map2_app by (rewrite tile_length; apply inner_flat_length; exact Hia).
      rewrite (Ha u Hia Hda), (IHl Hil Hdl). reflexivity.
Qed.

(* THEOREM: the legacy call X.ufuncs.f(x2) with x2 from the space of X or any of
   its inner power/tensor spaces returns an element whose stacked array is the
   ufunc applied to the array of X and the array of x2 broadcast (tiled along
   the leading axes), converted into the dtype of the space *)
Lemma legacy2_is_numpy_broadcasting (ts : list ptree) (u : ptree) :
  inner (PNode ts) u -> all_dtype d (PNode ts) ->
  exists r, legacy2 false (PNode ts) (A2Tree u) = Ok r
            /\ flat r = map2 g2 (flat (PNode ts)) (tile (copies (PNode ts) u) (flat u)).
Proof.
  intros Hi Hd. destruct (legacy2_inner (PNode ts) u Hi) as (r & Hr & _ & Hn).
  exists r. split; [exact Hr|]. rewrite (Hn ts eq_refl). apply bspec_flat; assumption.
Qed.
End Uniform.
End Binary.

(* ---------- __array_wrap__ of power-space elements ---------- *)
(* a result with the shape of the element is wrapped into the same space: the
   numbers are NumPy's, converted to the dtype of the space *)
Lemma wrap_same_shape n (s : list nat) d (r : @narr T) :
  a_shape r = n :: s ->
  wrap_pspace cast n s d r = Ok (WElem d (n :: s) (map (conv cast (a_dt r) d) (a_data r))).
Proof.
  intros Hs. unfold wrap_pspace. rewrite Hs, Nat.eqb_refl. cbn [negb].
  rewrite Nat.sub_diag. cbn [repeat app]. rewrite shape_eqb_refl. reflexivity.
Qed.
(* ... and unchanged numbers when the result dtype is the dtype of the space *)
Lemma wrap_same_shape_dtype n (s : list nat) (r : @narr T) :
  a_shape r = n :: s ->
  wrap_pspace cast n s (a_dt r) r = Ok (WElem (a_dt r) (n :: s) (a_data r)).
Proof.
  intros Hs. rewrite (wrap_same_shape n s (a_dt r) r Hs). f_equal. f_equal.
  rewrite <- (map_id (a_data r)) at 2. apply map_ext. intros v. apply conv_same.
Qed.

(* reduce over the component axis (axis 0, NumPy's default) of a power space
   with at least two parts of any shape: the result has the shape of ONE part
   and can never be wrapped -- every rank, every part shape *)
Lemma wrap_part_shape_fails n (s : list nat) d (r : @narr T) :
  (2 <= n)%nat -> s <> [] -> a_shape r = s -> wrap_pspace cast n s d r = Err EValue.
Proof.
  intros Hn Hne Hs. unfold wrap_pspace. rewrite Hs. destruct s as [|m rs]; [congruence|].
  destruct (Nat.eqb_spec m n) as [->|Hmn]; cbn [negb]; [|reflexivity].
  cbn [length]. replace (S (length rs) - length rs)%nat with 1%nat by lia. cbn [repeat app].
  destruct (shape_eqb (1%nat :: rs) (n :: rs)) eqn:E; [|reflexivity].
  apply shape_eqb_eq in E. inversion E. lia.
Qed.

End LegacyProofs.
