(* C17/ProofsDisc.v -- lemmas about DiscretizedSpaceElement.__array_ufunc__
   (disc_ufunc in C17/Model.v): transparency w.r.t. NumPy on the underlying
   arrays, partition of the result, and the remaining-axes computation of reduce
   for every rank and every axis subset. *)
From Coq Require Import ZArith QArith List Bool Arith Lia.
From Verif Require Import Base.Num Lib.Axis C17.Arr C17.Model C17.Proofs.
Import ListNotations.

Section ProofsDisc.
Context {T : Type}.
Variable cast : dt -> dt -> T -> T.
Variable V : variant.
Notation store := (@store T).
Notation tens_ufunc := (tens_ufunc cast V).
Notation disc_ufunc := (disc_ufunc cast V).
Notation operand := (@operand T).
Notation npsem := (@npsem T).

(* a discretized result: same kind, partition [axes], over NumPy's buffer with
   matching shape and dtype *)
Definition wraps_disc (st : store) (axes : list axisd) (r : operand) (rr : @rret T) : Prop :=
  exists rs id, r = OpDisc rs id /\ rr = RRBuf id /\ ds_axes rs = axes
    /\ ts_shape (ds_ts rs) = a_shape (rd st id) /\ ts_dt (ds_ts rs) = a_dt (rd st id)
    /\ map ax_n axes = a_shape (rd st id).

Lemma mk_dspace_ok axes ts rs : mk_dspace axes ts = Ok rs ->
  rs = mkDS axes ts /\ map ax_n axes = ts_shape ts.
Proof.
  unfold mk_dspace. destruct (shape_eqb _ _) eqn:E; intros Hm; inversion Hm; subst.
  split; [reflexivity | apply shape_eqb_eq; exact E].
Qed.

Lemma wrap_disc_calls_none (st : store) ds sp : forall (l : list operand) (rrets : list (@rret T)) k res,
  Forall2 (wraps_tens st sp) l rrets ->
  wrap_disc_calls ds (repeat None k) l = Ok res ->
  Forall2 (wraps_disc st (ds_axes ds)) res rrets.
Proof.
  induction l as [|r l IH]; intros rrets k res HF Hw; inversion HF; subst; cbn in Hw.
  - inversion Hw; subst. constructor.
  - assert (Hhd : (match repeat (@None operand) k with o :: _ => o | [] => None end) = None)
      by (destruct k; reflexivity).
    assert (Htl : exists k', (match repeat (@None operand) k with _ :: t => t | [] => [] end) = repeat None k')
      by (destruct k; [exists 0%nat | exists k]; reflexivity).
    destruct Htl as [k' Htl]. rewrite Hhd, Htl in Hw.
    match goal with H : wraps_tens _ _ r _ |- _ => destruct H as (spc & id & -> & -> & Hs & Hd) end.
    cbn in Hw. destruct (mk_dspace (ds_axes ds) spc) as [rs|] eqn:Em.
    2:{ destruct (wrap_disc_calls ds (repeat None k') l); discriminate. }
    destruct (wrap_disc_calls ds (repeat None k') l) as [res'|] eqn:Ew; try discriminate.
    inversion Hw; subst. apply mk_dspace_ok in Em as [-> Hn].
    constructor; [| eapply IH; eauto].
    exists (mkDS (ds_axes ds) spc), id. cbn. repeat split; auto. congruence.
Qed.

Lemma map_to_tensor_nones k : map (option_map (@to_tensor T)) (repeat None k) = repeat None k.
Proof. induction k; cbn; congruence. Qed.
Lemma forallb_dvalid_nones k : forallb (@disc_valid_out T) (repeat None k) = true.
Proof. induction k; cbn; auto. Qed.

(* np.<ufunc>(x, ...) on discretized elements mixed with arrays / scalars /
   tensors, out absent or (None, ..): same store as NumPy on the underlying
   arrays; every result is a DiscretizedSpaceElement with the partition of self
   over the buffer NumPy produced, with that buffer's shape and dtype. *)
Lemma disc_call_sound (NP : npsem) (st : store) ds nout k ins kw rins rets st' :
  (k = 0 \/ k = nout)%nat ->
  map_opt tens_unwrap (map to_tensor ins) = Some rins ->
  disc_ufunc NP st ds nout MCall ins kw (repeat None k) = Ok (rets, st') ->
  exists rrets,
    raw_ufunc cast NP st MCall (kw_drop_keepdims kw) rins (repeat None nout) = Ok (rrets, st')
    /\ Forall2 (wraps_disc st' (ds_axes ds)) rets rrets.
Proof.
  intros Hk Hu Hd. unfold disc_ufunc in Hd. rewrite repeat_length in Hd.
  destruct (negb (len_ok MCall nout k)); try discriminate.
  rewrite forallb_dvalid_nones in Hd. cbn [negb] in Hd.
  destruct (negb ((nout =? 1)%nat || (nout =? 2)%nat)); try discriminate.
  rewrite map_to_tensor_nones, !(pad_none_nones nout k Hk) in Hd.
  destruct (tens_ufunc NP st (ds_ts ds) nout MCall (map to_tensor ins) (kw_drop_keepdims kw)
                       (repeat None nout)) as [[rs st2]|] eqn:Et; try discriminate.
  destruct (wrap_disc_calls ds (repeat None nout) rs) as [l|] eqn:Ew; try discriminate.
  inversion Hd; subst.
  eapply (tens_call_sound_gen cast V) in Et as (rrets & Hr & HF2); eauto.
  exists rrets. split; auto. eapply wrap_disc_calls_none; eauto.
Qed.

(* ---------- reduce: which axes remain ---------- *)
(* NumPy: the result of reduce over the (normalised, distinct) axes [ax] keeps
   the axes not in [ax], in order *)
Definition np_kept (nd : nat) (ax : list nat) : list nat :=
  filter (fun i => negb (existsb (Nat.eqb i) ax)) (seq 0 nd).

Lemma zmem_nonneg (i : nat) (l : list Z) :
  Forall (fun z => (0 <= z)%Z) l ->
  zmem (Z.of_nat i) l = existsb (Nat.eqb i) (map Z.to_nat l).
Proof.
  induction 1 as [|z l Hz _ IH]; cbn; auto. unfold zmem in IH. rewrite IH. f_equal.
  destruct (Z.eqb_spec (Z.of_nat i) z) as [E|E], (Nat.eqb_spec i (Z.to_nat z)) as [E'|E']; auto; lia.
Qed.

Lemma znorm_nonneg nd z : (0 <= z)%Z -> znorm nd z = z.
Proof. intros Hz. unfold znorm. destruct (Z.ltb_spec z 0); [lia|]. reflexivity. Qed.
Lemma map_znorm_nonneg nd l : Forall (fun z => (0 <= z)%Z) l -> map (znorm nd) l = l.
Proof. induction 1; cbn; [reflexivity|]. rewrite znorm_nonneg by assumption. congruence. Qed.

(* for NON-NEGATIVE axes (any rank, any subset, int or tuple) the code keeps
   exactly the axes NumPy keeps -- in both variants *)
Lemma kept_axes_tuple_nonneg nd (l : list Z) :
  Forall (fun z => (0 <= z)%Z) l ->
  kept_axes nd (AxTuple l) = np_kept nd (map Z.to_nat l).
Proof.
  intros Hl. unfold Model.kept_axes, np_kept. rewrite map_znorm_nonneg by exact Hl.
  apply filter_ext. intros i. rewrite zmem_nonneg by exact Hl. reflexivity.
Qed.
Lemma kept_axes_int_nonneg nd (z : Z) : (0 <= z)%Z ->
  kept_axes nd (AxInt z) = np_kept nd [Z.to_nat z].
Proof.
  intros Hz. unfold Model.kept_axes, np_kept. rewrite znorm_nonneg by exact Hz.
  apply filter_ext. intros i. rewrite zmem_nonneg by (constructor; auto). reflexivity.
Qed.

(* the same for EVERY axis NumPy accepts, negative ones included
   (-nd <= z < nd): the kept axes are those of the normalised axes *)
Definition znormalize (nd : nat) (z : Z) : nat := Z.to_nat (if (z <? 0)%Z then z + Z.of_nat nd else z).
Lemma kept_axes_tuple_all nd (l : list Z) :
  Forall (fun z => (- Z.of_nat nd <= z)%Z) l ->
  kept_axes nd (AxTuple l) = np_kept nd (map (znormalize nd) l).
Proof.
  intros Hl. unfold Model.kept_axes, np_kept. apply filter_ext. intros i. f_equal.
  assert (Hnn : Forall (fun z => (0 <= z)%Z) (map (znorm nd) l)).
  { apply Forall_map. eapply Forall_impl; [|exact Hl]. cbn. intros z Hz. unfold znorm.
    destruct (Z.ltb_spec z 0); lia. }
  rewrite zmem_nonneg by exact Hnn. rewrite map_map. f_equal.
Qed.
Lemma kept_axes_int_all nd (z : Z) : (- Z.of_nat nd <= z)%Z ->
  kept_axes nd (AxInt z) = np_kept nd [znormalize nd z].
Proof.
  intros Hz. unfold Model.kept_axes, np_kept. apply filter_ext. intros i. f_equal.
  assert (Hnn : Forall (fun z => (0 <= z)%Z) [znorm nd z]).
  { constructor; [|constructor]. unfold znorm. destruct (Z.ltb_spec z 0); lia. }
  rewrite zmem_nonneg by exact Hnn. reflexivity.
Qed.

(* axis absent: NumPy reduces axis 0 *)
Lemma kept_axes_absent nd : kept_axes nd AxAbsent = np_kept nd [0%nat].
Proof.
  unfold Model.kept_axes, np_kept. destruct nd as [|nd]; [reflexivity|].
  replace (S nd - 1)%nat with nd by lia. cbn [seq filter existsb Nat.eqb orb negb].
  rewrite <- seq_shift. generalize (seq 0 nd) as l.
  induction l as [|a l IH]; cbn; [reflexivity | rewrite <- IH; reflexivity].
Qed.


(* ---------- reduce / accumulate / outer / at on discretized elements, no out ---------- *)
Lemma byaxis_astype_ok ds kept d rs :
  byaxis_astype ds kept d = Ok rs ->
  ts_dt (ds_ts rs) = d /\ ds_axes rs = pick dummy_ax (ds_axes ds) kept.
Proof.
  unfold byaxis_astype.
  destruct (ts_w (ds_ts ds));
    [| destruct (existsb _ _); try discriminate; destruct (negb _); try discriminate];
    (destruct (ts_valid _); try discriminate; intros E; inversion E; subst; clear E;
     cbn [ds_ts ds_axes]; split; [|reflexivity];
     destruct (dt_eqb d (ts_dt (ds_ts ds))) eqn:Ed;
     [apply dt_eqb_eq in Ed; cbn; congruence | destruct (is_floating d); reflexivity]).
Qed.
Arguments byaxis_astype : simpl never.

(* at most the SHAPE attribute of one buffer differs (same dtype, same numbers) *)
Definition reshape_of (st_raw st' : store) : Prop :=
  st' = st_raw \/
  exists id shp, st' = wr st_raw id (mkArr (a_dt (rd st_raw id)) shp (a_data (rd st_raw id))).

Definition wraps_disc_meth (st_raw st' : store) (ds : dspace) (m : meth) (kw : kwargs)
           (r : operand) (rr : @rret T) : Prop :=
  match rr with
  | RRScal v => r = OpScal v /\ st' = st_raw
  | RRNone => r = OpNone /\ st' = st_raw
  | RRBuf id =>
      exists rs k, r = OpDisc rs id
        /\ ts_dt (ds_ts rs) = a_dt (rd st_raw id)
        /\ ts_shape (ds_ts rs) = repeat 1%nat k ++ a_shape (rd st_raw id)
        /\ (m <> MReduce -> k = 0%nat) /\ (k = 0%nat -> st' = st_raw)
        /\ (m = MAccumulate -> ds_axes rs = ds_axes ds)
        /\ (m = MReduce -> ds_axes rs = pick dummy_ax (ds_axes ds) (kept_axes (ndim ds) (kw_axis kw)))
  end.

Lemma disc_meth_sound (NP : npsem) (st : store) ds nout m ins kw rins outs rets st' :
  is_call m = false ->
  (outs = [] \/ outs = [None]) ->
  map_opt tens_unwrap (map to_tensor ins) = Some rins ->
  disc_ufunc NP st ds nout m ins kw outs = Ok (rets, st') ->
  exists rr st_raw,
    raw_ufunc cast NP st m (kw_drop_keepdims kw) rins (if is_at m then [] else [None]) = Ok ([rr], st_raw)
    /\ reshape_of st_raw st'
    /\ exists r, rets = [r] /\ wraps_disc_meth st_raw st' ds m kw r rr.
Proof.
  intros Hm Ho Hu Hd. unfold disc_ufunc in Hd.
  assert (Hlen : len_ok m nout (length outs) = true)
    by (unfold len_ok; rewrite Hm; destruct Ho; subst; reflexivity).
  rewrite Hlen in Hd. cbn [negb] in Hd.
  assert (Hval : forallb (@disc_valid_out T) outs = true) by (destruct Ho; subst; reflexivity).
  rewrite Hval in Hd. cbn [negb] in Hd.
  assert (Hot : match map (option_map (@to_tensor T)) outs with [o] => o | _ => None end = None)
    by (destruct Ho; subst; reflexivity).
  destruct m; try discriminate;
    repeat match type of Hd with (if ?c then Err _ else _) = _ => destruct c; try discriminate end;
    rewrite Hot in Hd; cbn [is_at] in Hd |- *;
    match type of Hd with
      match Model.tens_ufunc ?c ?v ?np ?s ?sp ?n ?mm ?i ?k ?o with _ => _ end = _ =>
        destruct (Model.tens_ufunc c v np s sp n mm i k o) as [[rs st2]|] eqn:Et; try discriminate;
        eapply (tens_meth_sound_gen cast V) in Et as (rr & Hr & r & -> & Hw); eauto
    end;
    exists rr, st2; (destruct rr as [id|v|]; cbn in Hw; [destruct Hw as (spc & -> & Hs & Hdt) | subst r | subst r]);
    try (inversion Hd; subst; split; [exact Hr|]; split; [left; reflexivity|];
         eexists; split; [reflexivity|]; cbn; split; reflexivity).
  - (* reduce, array result *)
    split; [exact Hr|].
    destruct (byaxis_astype ds _ (ts_dt spc)) as [rs'|] eqn:Eb; try discriminate.
    apply byaxis_astype_ok in Eb as [Hbd Hba].
    destruct (shape_eqb (ts_shape spc) _) eqn:Es.
    + inversion Hd; subst. split; [left; reflexivity|]. eexists; split; [reflexivity|].
      apply shape_eqb_eq in Es. unfold wraps_disc_meth.
      exists rs', 0%nat. split; [reflexivity|].
      split; [congruence|].
      split; [cbn [repeat app]; congruence|].
      split; [auto|]. split; [auto|]. split; [discriminate|]. intros _. exact Hba.
    + destruct (shape_eqb (repeat 1%nat _ ++ ts_shape spc) _) eqn:Es2; try discriminate.
      inversion Hd; subst. split; [right; eexists; eexists; reflexivity|].
      eexists; split; [reflexivity|].
      apply shape_eqb_eq in Es2. unfold wraps_disc_meth.
      exists rs'; eexists. split; [reflexivity|].
      split; [congruence|].
      split; [rewrite <- Hs; symmetry; exact Es2|].
      split; [intros Hne; congruence|].
      split; [|split; [discriminate | intros _; exact Hba]].
      intros Hk. exfalso. rewrite Hk in Es2. cbn [repeat app] in Es2.
      rewrite Es2, shape_eqb_refl in Es. discriminate.
  - (* accumulate *)
    destruct (mk_dspace (ds_axes ds) spc) as [rs'|] eqn:Em; try discriminate.
    apply mk_dspace_ok in Em as [-> Hn]. inversion Hd; subst. split; [exact Hr|].
    split; [left; reflexivity|].
    eexists; split; [reflexivity|]. cbn. eexists; exists 0%nat.
    repeat split; auto; discriminate.
  - (* outer *)
    destruct ins as [|[| |d1 i1| |] [|[| |d2 i2| |] [|? ?]]]; try discriminate.
    match type of Hd with match mk_dspace ?a ?t with _ => _ end = _ =>
      destruct (mk_dspace a t) as [rs'|] eqn:Em; try discriminate end.
    apply mk_dspace_ok in Em as [-> Hn]. inversion Hd; subst. split; [exact Hr|].
    split; [left; reflexivity|].
    eexists; split; [reflexivity|]. cbn. eexists; exists 0%nat.
    repeat split; try discriminate; auto.
    + destruct (ts_w (ds_ts d1)), (ts_w (ds_ts d2)); cbn; auto;
        destruct (dt_eqb (ts_dt spc) DBool); cbn; auto.
    + destruct (ts_w (ds_ts d1)), (ts_w (ds_ts d2)); cbn; auto;
        destruct (dt_eqb (ts_dt spc) DBool); cbn; auto.
  - (* at: an array-valued result cannot occur *)
    discriminate.
Qed.


(* ---------- out= on discretized elements (element, tensor or ndarray) ---------- *)
Lemma to_tensor_buf (o : operand) : op_buf (to_tensor o) = op_buf o.
Proof. destruct o; reflexivity. Qed.
Lemma to_tensor_valid (o : operand) : disc_valid_out (Some o) = true -> tens_valid_out (Some (to_tensor o)) = true.
Proof. destruct o; cbn; auto. Qed.

(* The given container itself is returned (the element, not its tensor), and
   the final store is the one NumPy leaves when writing into its buffer. *)
Lemma disc_out_sound (NP : npsem) (st : store) ds m ins kw rins o id rets st' :
  arity1 NP -> is_at m = false -> kw_dtype kw = None ->
  disc_valid_out (Some o) = true -> op_buf o = Some id ->
  map_opt tens_unwrap (map to_tensor ins) = Some rins ->
  disc_ufunc NP st ds 1 m ins kw [Some o] = Ok (rets, st') ->
  rets = [o]
  /\ raw_ufunc cast NP st m (kw_drop_keepdims kw) rins [Some id] = Ok ([RRBuf id], st').
Proof.
  intros Ha Hat Hd Hv Hb Hu Hdu. unfold Model.disc_ufunc in Hdu.
  assert (Hlen : len_ok m 1 1 = true) by (unfold len_ok; destruct (is_call m); reflexivity).
  cbn [length] in Hdu. rewrite Hlen in Hdu. cbn [negb forallb] in Hdu. rewrite Hv in Hdu.
  cbn [andb negb map option_map] in Hdu.
  assert (Hkd : kw_dtype (kw_drop_keepdims kw) = None) by exact Hd.
  pose proof (to_tensor_valid o Hv) as Hvt.
  assert (Hbt : op_buf (to_tensor o) = Some id) by (rewrite to_tensor_buf; exact Hb).
  destruct m; try discriminate; cbn [is_at] in Hdu.
  - (* __call__ *)
    cbn [Nat.eqb orb negb] in Hdu. unfold pad_none in Hdu. cbn [length Nat.sub repeat app] in Hdu.
    match type of Hdu with
      match Model.tens_ufunc ?c ?v ?np ?s ?sp ?n ?mm ?i ?k ?oo with _ => _ end = _ =>
        destruct (Model.tens_ufunc c v np s sp n mm i k oo) as [[rs st2]|] eqn:Et; try discriminate
    end.
    eapply (tens_out_sound cast V) in Et as [-> Hr]; eauto.
    cbn in Hdu. inversion Hdu; subst. split; [reflexivity | exact Hr].
  - (* reduce *)
    destruct (kw_keepdims kw); try discriminate.
    match type of Hdu with
      match Model.tens_ufunc ?c ?v ?np ?s ?sp ?n ?mm ?i ?k ?oo with _ => _ end = _ =>
        destruct (Model.tens_ufunc c v np s sp n mm i k oo) as [[rs st2]|] eqn:Et; try discriminate
    end.
    eapply (tens_out_sound cast V) in Et as [-> Hr]; eauto.
    destruct (to_tensor o) eqn:Eo; cbn in Hvt; try discriminate Hvt;
      cbn in Hdu; inversion Hdu; subst; (split; [reflexivity | exact Hr]).
  - (* accumulate *)
    match type of Hdu with
      match Model.tens_ufunc ?c ?v ?np ?s ?sp ?n ?mm ?i ?k ?oo with _ => _ end = _ =>
        destruct (Model.tens_ufunc c v np s sp n mm i k oo) as [[rs st2]|] eqn:Et; try discriminate
    end.
    eapply (tens_out_sound cast V) in Et as [-> Hr]; eauto.
    destruct (to_tensor o) eqn:Eo; cbn in Hvt; try discriminate Hvt;
      cbn in Hdu; inversion Hdu; subst; (split; [reflexivity | exact Hr]).
  - (* outer *)
    destruct (negb (forallb is_disc ins)); try discriminate.
    match type of Hdu with
      match Model.tens_ufunc ?c ?v ?np ?s ?sp ?n ?mm ?i ?k ?oo with _ => _ end = _ =>
        destruct (Model.tens_ufunc c v np s sp n mm i k oo) as [[rs st2]|] eqn:Et; try discriminate
    end.
    eapply (tens_out_sound cast V) in Et as [-> Hr]; eauto.
    destruct (to_tensor o) eqn:Eo; cbn in Hvt; try discriminate Hvt;
      cbn in Hdu; inversion Hdu; subst; (split; [reflexivity | exact Hr]).
Qed.

End ProofsDisc.
