(* C17/Arr.v -- exact semantics of the NumPy ufunc methods (__call__, reduce,
   accumulate, outer, at, reduceat) for a few arithmetic ufuncs on flat C-order
   arrays over a Num carrier.  Executable definitions only.
   This is the "NumPy on the underlying arrays" side of the property for the
   modelled ufuncs; it is validated against NumPy itself by the raw half of
   every correspondence case. *)
From Coq Require Import ZArith List Bool Arith.
From Verif Require Import Base.Num Base.Vec Lib.Axis.
Import ListNotations.
Local Open Scope num_scope.

Inductive bop := BAdd | BSub | BMul | BMax | BMin
  | BDiv                                  (* true_divide *)
  | BFmax | BFmin                         (* = maximum / minimum without NaN *)
  | BLess | BLessEq | BGreater | BGreaterEq | BEq | BNe      (* comparisons, 0/1 valued *)
  | BLogAnd | BLogOr | BLogXor.           (* logical ops on "nonzero" *)
Inductive uop := UNeg | UAbs | USquare | USign | UPos | UReciprocal | ULogNot.

Section Arr.
Context {T : Type} `{Num T}.

Definition of_bool (c : bool) : T := if c then none_ else nzero.
Definition truthy (a : T) : bool := negb (a =? nzero).
Definition bop_ev (o : bop) (a b : T) : T :=
  match o with
  | BAdd => a + b | BSub => a - b | BMul => a * b
  | BMax | BFmax => nmax a b | BMin | BFmin => nmin a b
  | BDiv => a / b
  | BLess => of_bool (a <? b) | BLessEq => of_bool (a <=? b)
  | BGreater => of_bool (b <? a) | BGreaterEq => of_bool (b <=? a)
  | BEq => of_bool (a =? b) | BNe => of_bool (negb (a =? b))
  | BLogAnd => of_bool (truthy a && truthy b)
  | BLogOr => of_bool (truthy a || truthy b)
  | BLogXor => of_bool (xorb (truthy a) (truthy b))
  end.
Definition uop_ev (u : uop) (a : T) : T :=
  match u with
  | UNeg => - a | UAbs => nabs a | USquare => a * a | USign => nsign a | UPos => a
  | UReciprocal => none_ / a | ULogNot => of_bool (negb (truthy a))
  end.
(* ufunc.identity; None = "no identity" (reduce over an empty axis raises ValueError) *)
Definition bop_ident (o : bop) : option T :=
  match o with
  | BAdd | BLogOr | BLogXor => Some nzero
  | BMul | BLogAnd => Some none_
  | _ => None
  end.
(* NumPy refuses several reduction axes for non-reorderable ufuncs *)
Definition bop_reorderable (o : bop) : bool :=
  match o with
  | BSub | BDiv | BLess | BLessEq | BGreater | BGreaterEq | BEq | BNe => false
  | _ => true
  end.

(* ---------- rows: a block of n rows of equal length [inner] ---------- *)
Definition rows := list (list T).

(* reduce of the rows of one block; [inner] is needed for the empty case *)
Definition red_rows (o : bop) (inner : nat) (rs : rows) : option (list T) :=
  match rs with
  | [] => option_map (fun e => repeat e inner) (bop_ident o)
  | r :: rs' => Some (fold_left (vmap2 (bop_ev o)) rs' r)
  end.

(* running reduce: scan a [b; c; ...] = [a; a.b; (a.b).c; ...] *)
Fixpoint scan {A} (f : A -> A -> A) (a : A) (l : list A) : list A :=
  a :: match l with [] => [] | b :: l' => scan f (f a b) l' end.
Definition acc_rows (o : bop) (rs : rows) : rows :=
  match rs with [] => [] | r :: rs' => scan (vmap2 (bop_ev o)) r rs' end.

(* rows i .. j-1 *)
Definition slice {A} (i j : nat) (l : list A) : list A := firstn (j - i) (skipn i l).

(* ufunc.reduceat on the rows of one block; every index must be < n
   (checked by the caller) *)
Fixpoint reduceat_rows (o : bop) (rs : rows) (idx : list nat) : rows :=
  match idx with
  | [] => []
  | i :: rest =>
      let stop := match rest with [] => length rs | j :: _ => j end in
      (if (i <? stop)%nat
       then match slice i stop rs with
            | r :: rs' => fold_left (vmap2 (bop_ev o)) rs' r
            | [] => nth i rs []
            end
       else nth i rs []) :: reduceat_rows o rs rest
  end.

(* Array of shape outer x n x inner (flat, C order): G acts on the n rows
   (each of length inner) of every block. *)
Definition along_rows (outer n inner : nat) (G : rows -> rows) (d : list T) : list T :=
  concat (map (fun blk => concat (G (chunks inner n blk))) (chunks (n * inner) outer d)).

Fixpoint opt_all {A} (l : list (option A)) : option (list A) :=
  match l with
  | [] => Some []
  | None :: _ => None
  | Some a :: l' => option_map (cons a) (opt_all l')
  end.

(* reduce along the middle axis; None = ValueError (empty axis, no identity) *)
Definition reduce_ax (o : bop) (outer n inner : nat) (d : list T) : option (list T) :=
  match n, bop_ident o with
  | O, None => None
  | _, _ =>
    option_map (@concat T)
      (opt_all (map (fun blk => red_rows o inner (chunks inner n blk)) (chunks (n * inner) outer d)))
  end.
Definition accumulate_ax (o : bop) (outer n inner : nat) (d : list T) : list T :=
  along_rows outer n inner (acc_rows o) d.
Definition reduceat_ax (o : bop) (outer n inner : nat) (idx : list nat) (d : list T) : list T :=
  along_rows outer n inner (fun rs => reduceat_rows o rs idx) d.

(* shape helpers *)
Definition outer_of (shape : list nat) (ax : nat) : nat := prodn (firstn ax shape).
Definition inner_of (shape : list nat) (ax : nat) : nat := prodn (skipn (S ax) shape).
Definition remove_ax (shape : list nat) (ax : nat) : list nat := firstn ax shape ++ skipn (S ax) shape.
Definition set_ax (shape : list nat) (ax v : nat) : list nat := firstn ax shape ++ v :: skipn (S ax) shape.

Definition reduce_axis (o : bop) (shape : list nat) (ax : nat) (d : list T) : option (list T) :=
  reduce_ax o (outer_of shape ax) (nth ax shape 0%nat) (inner_of shape ax) d.
Definition accumulate_axis (o : bop) (shape : list nat) (ax : nat) (d : list T) : list T :=
  accumulate_ax o (outer_of shape ax) (nth ax shape 0%nat) (inner_of shape ax) d.
Definition reduceat_axis (o : bop) (shape : list nat) (ax : nat) (idx : list nat) (d : list T) : list T :=
  reduceat_ax o (outer_of shape ax) (nth ax shape 0%nat) (inner_of shape ax) idx d.

(* several axes: NumPy's result equals reducing one axis after the other, from
   the last to the first (the axes list must be sorted decreasingly, no repeats);
   returns the remaining shape too *)
Fixpoint reduce_axes (o : bop) (shape : list nat) (axes_desc : list nat) (d : list T)
  : option (list nat * list T) :=
  match axes_desc with
  | [] => Some (shape, d)
  | ax :: rest =>
      match reduce_axis o shape ax d with
      | None => None
      | Some d' => reduce_axes o (remove_ax shape ax) rest d'
      end
  end.

(* ---------- outer ---------- *)
Definition outer (o : bop) (x y : list T) : list T :=
  flat_map (fun a => map (bop_ev o a) y) x.

(* ---------- at (unbuffered in-place on the first axis) ---------- *)
Fixpoint updn {A} (i : nat) (g : A -> A) (l : list A) : list A :=
  match l, i with
  | [], _ => []
  | a :: l', O => g a :: l'
  | a :: l', S i' => a :: updn i' g l'
  end.
(* binary: a[i] = op(a[i], v) for every (i, v) in order; rows of length inner *)
Definition at2_rows (o : bop) (rs : rows) (ivs : list (nat * list T)) : rows :=
  fold_left (fun acc iv => updn (fst iv) (fun r => vmap2 (bop_ev o) r (snd iv)) acc) ivs rs.
Definition at1_rows (u : uop) (rs : rows) (is_ : list nat) : rows :=
  fold_left (fun acc i => updn i (map (uop_ev u)) acc) is_ rs.
(* 1-d versions *)
Definition at2 (o : bop) (a : list T) (ivs : list (nat * T)) : list T :=
  fold_left (fun acc iv => updn (fst iv) (fun x => bop_ev o x (snd iv)) acc) ivs a.
Definition at1 (u : uop) (a : list T) (is_ : list nat) : list T :=
  fold_left (fun acc i => updn i (uop_ev u) acc) is_ a.
(* what the buffered fancy-index assignment a[idx] = op(a[idx], v) computes
   instead (every right-hand side reads the ORIGINAL a; last write wins) *)
Definition fancy2 (o : bop) (a : list T) (ivs : list (nat * T)) : list T :=
  fold_left (fun acc iv => updn (fst iv) (fun _ => bop_ev o (nth (fst iv) a nzero) (snd iv)) acc) ivs a.

(* ---------- broadcasting ---------- *)
(* shapes are first padded with leading 1s to equal rank by the caller *)
Fixpoint bshape (s1 s2 : list nat) : option (list nat) :=
  match s1, s2 with
  | [], [] => Some []
  | a :: s1', b :: s2' =>
      match bshape s1' s2' with
      | None => None
      | Some r =>
          if (a =? b)%nat then Some (a :: r)
          else if (a =? 1)%nat then Some (b :: r)
          else if (b =? 1)%nat then Some (a :: r)
          else None
      end
  | _, _ => None
  end.
Definition pad_rank (r : nat) (s : list nat) : list nat := repeat 1%nat (r - length s) ++ s.
Definition bcast_shape (s1 s2 : list nat) : option (list nat) :=
  let r := Nat.max (length s1) (length s2) in bshape (pad_rank r s1) (pad_rank r s2).
(* data of shape sf (same rank as st, each extent equal or 1) repeated to shape st *)
Fixpoint bto (sf st : list nat) (d : list T) : list T :=
  match sf, st with
  | nf :: sf', nt :: st' =>
      if (nf =? nt)%nat
      then concat (map (bto sf' st') (chunks (prodn sf') nf d))
      else concat (repeat (bto sf' st' d) nt)
  | _, _ => d
  end.
Definition bcast_to (sf st : list nat) (d : list T) : list T :=
  bto (pad_rank (length st) sf) st d.

Definition call1 (u : uop) (d : list T) : list T := map (uop_ev u) d.
(* result shape and data, None = "operands could not be broadcast together" *)
Definition call2 (o : bop) (s1 : list nat) (d1 : list T) (s2 : list nat) (d2 : list T)
  : option (list nat * list T) :=
  match bcast_shape s1 s2 with
  | None => None
  | Some s => Some (s, vmap2 (bop_ev o) (bcast_to s1 s d1) (bcast_to s2 s d2))
  end.

(* ---------- index normalisation ---------- *)
Definition norm_index (n : nat) (i : Z) : option nat :=
  if (0 <=? i)%Z && (i <? Z.of_nat n)%Z then Some (Z.to_nat i)
  else if (i <? 0)%Z && (- Z.of_nat n <=? i)%Z then Some (Z.to_nat (i + Z.of_nat n))
  else None.

End Arr.
