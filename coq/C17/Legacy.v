(* C17/Legacy.v -- the legacy interface x.ufuncs.<name>() on (nested) power
   spaces, odl/util/ufuncs.py:wrap_ufunc_productspace, and the NumPy call on a
   power-space element (ProductSpaceElement.__array__/__array_wrap__), as pure
   functions on element trees.  A leaf is a tensor-like component (dtype + flat
   data), a node a product-space element.  The elementwise ufunc is a parameter
   [F] : input dtype -> value(s) -> (result dtype, value): any one-output ufunc.
   Definitions only; proofs in C17/LegacyProofs.v. *)
From Coq Require Import List Bool Arith.
From Verif Require Import C17.Model.
Import ListNotations.

Section Legacy.
Context {T : Type}.
Variable cast : dt -> dt -> T -> T.

Inductive ptree := PLeaf (d : dt) (data : list T) | PNode (parts : list ptree).

(* conversion into a space of dtype d: nothing happens when the dtype already
   matches (the part is already an element of the space / np.array(copy=False)) *)
Definition conv (d' d : dt) (v : T) : T := if dt_eqb d' d then v else cast d' d v.

(* space.element(result) for the parts of a product space: every leaf is
   converted to the dtype of the corresponding leaf of the ORIGINAL element
   (the structure is the same) *)
Fixpoint cast_like (orig res : ptree) : ptree :=
  match orig, res with
  | PLeaf d _, PLeaf d' y => PLeaf d (map (conv d' d) y)
  | PNode os, PNode rs =>
      PNode ((fix go (os rs : list ptree) : list ptree :=
                match os, rs with
                | o :: os', r :: rs' => cast_like o r :: go os' rs'
                | _, _ => []
                end) os rs)
  | _, _ => res
  end.

(* ---- unary, one output, out=None ---- *)
Variable F1 : dt -> dt.                 (* NumPy's result dtype *)
Variable f1 : dt -> T -> T.             (* the elementwise function at that input dtype *)

(* x.ufuncs.f(): on a tensor the NumPy call (new space of the result dtype);
   on a product space  element([xi.ufuncs.f() for xi in x]) *)
Fixpoint legacy1 (t : ptree) : ptree :=
  match t with
  | PLeaf d x => PLeaf (F1 d) (map (f1 d) x)
  | PNode ts => cast_like t (PNode (map legacy1 ts))
  end.

(* NumPy on the underlying arrays, leaf by leaf (what the property compares with) *)
Fixpoint numpy1 (t : ptree) : ptree :=
  match t with
  | PLeaf d x => PLeaf (F1 d) (map (f1 d) x)
  | PNode ts => PNode (map numpy1 ts)
  end.

(* the closed form of legacy1 on product spaces: result converted back to the leaf dtype *)
Fixpoint legacy1_spec (t : ptree) : ptree :=
  match t with
  | PLeaf d x => PLeaf d (map (fun v => conv (F1 d) d (f1 d v)) x)
  | PNode ts => PNode (map legacy1_spec ts)
  end.

(* every leaf keeps its dtype under the ufunc *)
Fixpoint dtype_preserved (t : ptree) : Prop :=
  match t with
  | PLeaf d _ => F1 d = d
  | PNode ts => (fix all (l : list ptree) : Prop :=
                   match l with [] => True | a :: l' => dtype_preserved a /\ all l' end) ts
  end.

(* ---- binary with a scalar / with an element of the same space ---- *)
Variable F2 : dt -> dt.
Variable f2 : dt -> T -> T -> T.
Fixpoint map2 {A B C} (g : A -> B -> C) (l : list A) (m : list B) : list C :=
  match l, m with a :: l', b :: m' => g a b :: map2 g l' m' | _, _ => [] end.
(* x.ufuncs.f(c) with a scalar c: applied to every component *)
Fixpoint legacy2_scalar (c : T) (t : ptree) : ptree :=
  match t with
  | PLeaf d x => PLeaf (F2 d) (map (fun v => f2 d v c) x)
  | PNode ts => cast_like t (PNode (map (legacy2_scalar c) ts))
  end.
(* x.ufuncs.f(y) with y in the same space: componentwise *)
Fixpoint legacy2_elem (t u : ptree) : ptree :=
  match t, u with
  | PLeaf d x, PLeaf _ y => PLeaf (F2 d) (map2 (f2 d) x y)
  | PNode ts, PNode us =>
      cast_like t (PNode ((fix go (ts us : list ptree) : list ptree :=
                             match ts, us with
                             | a :: ts', b :: us' => legacy2_elem a b :: go ts' us'
                             | _, _ => []
                             end) ts us))
  | _, _ => t
  end.
Fixpoint legacy2_elem_spec (t u : ptree) : ptree :=
  match t, u with
  | PLeaf d x, PLeaf _ y => PLeaf d (map (conv (F2 d) d) (map2 (f2 d) x y))
  | PNode ts, PNode us =>
      PNode ((fix go (ts us : list ptree) : list ptree :=
                match ts, us with
                | a :: ts', b :: us' => legacy2_elem_spec a b :: go ts' us'
                | _, _ => []
                end) ts us)
  | _, _ => t
  end.

(* ---------------- binary legacy ufuncs with ANY second operand ----------------
   wrap_ufunc_productspace, n_in = 2:
       if x2 in self.elem.space:   pair the components of self and x2
       else:                       hand the SAME x2 to every component  ("recursive broadcasting")
   and at a tensor leaf the NumPy call with whatever x2 is.  Leaves are 1-d here
   (shape = [length]).  [with_out]: out= given as an element of the space (the
   leaves of out are written, same_kind casting enforced); otherwise the results
   are converted into the space by space.element. *)
Inductive arg2 :=
  | A2Tree (u : ptree)                           (* an element: tensor leaf or product-space element *)
  | A2Scal (c : T)
  | A2Arr (shape : list nat) (data : list T).    (* ndarray or (nested) list *)

(* x2 in space: x2 is an element of exactly this space (same structure, leaf sizes, dtypes) *)
Fixpoint sig_eqb (t u : ptree) : bool :=
  match t, u with
  | PLeaf d x, PLeaf e y => dt_eqb d e && (length x =? length y)%nat
  | PNode ts, PNode us =>
      (fix go (ts us : list ptree) : bool :=
         match ts, us with
         | [], [] => true
         | a :: ts', b :: us' => sig_eqb a b && go ts' us'
         | _, _ => false
         end) ts us
  | _, _ => false
  end.
(* THE DECISION of the wrapper: pair the components iff x2 is in the space of self *)
Definition pair_decision (t : ptree) (a : arg2) : bool :=
  match a with A2Tree u => sig_eqb t u | _ => false end.

(* the second operand seen from a tensor leaf of length n, broadcast to length n *)
Definition opvec (n : nat) (a : arg2) : res (list T) :=
  let fit (y : list T) :=
    if (length y =? n)%nat then Ok y
    else match y with [c] => Ok (repeat c n) | _ => Err EValue end in
  match a with
  | A2Scal c => Ok (repeat c n)
  | A2Tree (PLeaf _ y) => fit y
  (* a product-space element reaching a tensor leaf: NumPy stacks it with
     __array__(dtype) (accepted since /repo commit f3f904a) and the result would
     have more axes than the leaf: ValueError *)
  | A2Tree (PNode _) => Err EValue
  | A2Arr [] [c] => Ok (repeat c n)
  | A2Arr [k] y => if (k =? length y)%nat then fit y else Err EValue
  | A2Arr _ _ => Err EValue             (* more axes than the leaf: result would grow / cannot broadcast *)
  end.
(* with out= NumPy checks the same_kind cast of the result into out first, and
   reports an operand it cannot broadcast into out as ValueError *)
Definition leaf2 (with_out : bool) (d : dt) (x : list T) (a : arg2) : res ptree :=
  if with_out && negb (can_cast (F2 d) d) then Err EType else
  match opvec (length x) a with
  | Err e => Err (if with_out then EValue else e)
  | Ok ys =>
      if with_out then Ok (PLeaf d (map (conv (F2 d) d) (map2 (f2 d) x ys)))
      else Ok (PLeaf (F2 d) (map2 (f2 d) x ys))
  end.

Fixpoint legacy2 (with_out : bool) (t : ptree) (a : arg2) {struct t} : res ptree :=
  match t with
  | PLeaf d x => leaf2 with_out d x a
  | PNode ts =>
      let rs :=
        if pair_decision t a then
          match a with
          | A2Tree (PNode us) =>
              (fix go (ts us : list ptree) : res (list ptree) :=
                 match ts, us with
                 | x :: ts', u :: us' =>
                     match legacy2 with_out x (A2Tree u) with
                     | Err e => Err e
                     | Ok r => match go ts' us' with Ok l => Ok (r :: l) | Err e => Err e end
                     end
                 | _, _ => Ok []
                 end) ts us
          | _ => Err EUnmodelled
          end
        else
          (fix go (ts : list ptree) : res (list ptree) :=
             match ts with
             | [] => Ok []
             | x :: ts' =>
                 match legacy2 with_out x a with
                 | Err e => Err e
                 | Ok r => match go ts' with Ok l => Ok (r :: l) | Err e => Err e end
                 end
             end) ts in
      match rs with
      | Ok l => Ok (cast_like t (PNode l))
      | Err e => Err e
      end
  end.

(* --- what NumPy broadcasting gives for an operand from an INNER power space --- *)
(* the stacked array of an element, flattened in C order *)
Fixpoint flat (t : ptree) : list T :=
  match t with
  | PLeaf _ x => x
  | PNode ts => (fix go (l : list ptree) : list T :=
                   match l with [] => [] | a :: l' => flat a ++ go l' end) ts
  end.
(* u is an element of the space of t or of one of its (nested) component spaces *)
Fixpoint inner (t u : ptree) : Prop :=
  if sig_eqb t u then True
  else match t with
       | PLeaf _ _ => False
       | PNode ts => (fix all (l : list ptree) : Prop :=
                        match l with [] => True | a :: l' => inner a u /\ all l' end) ts
       end.
(* how many copies of u's array tile the array of t *)
Fixpoint copies (t u : ptree) : nat :=
  if sig_eqb t u then 1%nat
  else match t with
       | PLeaf _ _ => 0%nat
       | PNode ts => (fix sum (l : list ptree) : nat :=
                        match l with [] => 0%nat | a :: l' => (copies a u + sum l')%nat end) ts
       end.
Fixpoint tile (k : nat) (l : list T) : list T :=
  match k with O => [] | S k' => l ++ tile k' l end.
Fixpoint all_dtype (d : dt) (t : ptree) : Prop :=
  match t with
  | PLeaf e _ => e = d
  | PNode ts => (fix all (l : list ptree) : Prop :=
                   match l with [] => True | a :: l' => all_dtype d a /\ all l' end) ts
  end.

(* ---------------- power-space elements through the NumPy API ----------------
   ProductSpaceElement has no __array_ufunc__: NumPy converts the element with
   __array__ (a COPY of shape n :: s for n parts of shape s), runs the ufunc on
   arrays and hands the result to __array_wrap__:
     0-d result -> Python scalar;  otherwise space.element(result), which needs
     len(result) = n and, per part, np.array(result[i], dtype, ndmin=rank) of the
     part shape (ValueError otherwise), and converts to the dtype of the SPACE.
   outer does not call __array_wrap__ (plain ndarray), at refuses a non-array
   first operand, an element as out= is refused (TypeError). *)
Inductive wrapped :=
  | WScal (v : T) | WArrRes (r : @narr T) | WElem (d : dt) (shape : list nat) (data : list T).

Definition wrap_pspace (n : nat) (s : list nat) (d : dt) (r : @narr T) : res wrapped :=
  match a_shape r with
  | [] => match a_data r with v :: _ => Ok (WScal v) | [] => Err EUnmodelled end
  | m :: rs =>
      if negb (m =? n)%nat then Err EValue
      else if shape_eqb (repeat 1%nat (length s - length rs) ++ rs) s
           then Ok (WElem d (n :: s) (map (conv (a_dt r) d) (a_data r)))
           else Err EValue
  end.
Fixpoint wrap_all (n : nat) (s : list nat) (d : dt) (rs : list (@narr T)) : res (list wrapped) :=
  match rs with
  | [] => Ok []
  | r :: rs' => match wrap_pspace n s d r, wrap_all n s d rs' with
                | Ok w, Ok l => Ok (w :: l)
                | Err e, _ => Err e
                | _, Err e => Err e
                end
  end.
(* [r] = what NumPy computes on the arrays *)
Definition pspace_np (m : meth) (out_is_elem out_is_arr : bool) (n : nat) (s : list nat) (d : dt)
           (r : res (list (@narr T))) : res (list wrapped) :=
  if out_is_elem then Err EType
  else if out_is_arr && negb (is_at m)
  then (* an ndarray given as out is returned as it is *)
       match r with Ok rs => Ok (map WArrRes rs) | Err e => Err e end
  else match m with
       | MAt => Err EType
       | MOuter => match r with Ok rs => Ok (map WArrRes rs) | Err e => Err e end
       | _ => match r with Ok rs => wrap_all n s d rs | Err e => Err e end
       end.

End Legacy.
