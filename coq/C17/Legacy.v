(* C17/Legacy.v -- the legacy interface x.ufuncs.<name>() on (nested) power
   spaces, odl/util/ufuncs.py:wrap_ufunc_productspace, and the NumPy call on a
   power-space element (ProductSpaceElement.__array__/__array_wrap__), as pure
   functions on element trees.  A leaf is a tensor-like component (dtype + flat
   data), a node a product-space element.  The elementwise ufunc is a parameter
   [F] : input dtype -> value(s) -> (result dtype, value): any one-output ufunc.
   Definitions only; proofs in C17/LegacyProofs.v. *)
From Coq Require Import List Bool Arith.
From Verif Require Import C17.Model.
Import ListNotations.

Section Legacy.
Context {T : Type}.
Variable cast : dt -> dt -> T -> T.

Inductive ptree := PLeaf (d : dt) (data : list T) | PNode (parts : list ptree).

(* conversion into a space of dtype d: nothing happens when the dtype already
   matches (the part is already an element of the space / np.array(copy=False)) *)
Definition conv (d' d : dt) (v : T) : T := if dt_eqb d' d then v else cast d' d v.

(* space.element(result) for the parts of a product space: every leaf is
   converted to the dtype of the corresponding leaf of the ORIGINAL element
   (the structure is the same) *)
Fixpoint cast_like (orig res : ptree) : ptree :=
  match orig, res with
  | PLeaf d _, PLeaf d' y => PLeaf d (map (conv d' d) y)
  | PNode os, PNode rs =>
      PNode ((fix go (os rs : list ptree) : list ptree :=
                match os, rs with
                | o :: os', r :: rs' => cast_like o r :: go os' rs'
                | _, _ => []
                end) os rs)
  | _, _ => res
  end.

(* ---- unary, one output, out=None ---- *)
Variable F1 : dt -> dt.                 (* NumPy's result dtype *)
Variable f1 : dt -> T -> T.             (* the elementwise function at that input dtype *)

(* x.ufuncs.f(): on a tensor the NumPy call (new space of the result dtype);
   on a product space  element([xi.ufuncs.f() for xi in x]) *)
Fixpoint legacy1 (t : ptree) : ptree :=
  match t with
  | PLeaf d x => PLeaf (F1 d) (map (f1 d) x)
  | PNode ts => cast_like t (PNode (map legacy1 ts))
  end.

(* NumPy on the underlying arrays, leaf by leaf (what the property compares with) *)
Fixpoint numpy1 (t : ptree) : ptree :=
  match t with
  | PLeaf d x => PLeaf (F1 d) (map (f1 d) x)
  | PNode ts => PNode (map numpy1 ts)
  end.

(* the closed form of legacy1 on product spaces: result converted back to the leaf dtype *)
Fixpoint legacy1_spec (t : ptree) : ptree :=
  match t with
  | PLeaf d x => PLeaf d (map (fun v => conv (F1 d) d (f1 d v)) x)
  | PNode ts => PNode (map legacy1_spec ts)
  end.

(* every leaf keeps its dtype under the ufunc *)
Fixpoint dtype_preserved (t : ptree) : Prop :=
  match t with
  | PLeaf d _ => F1 d = d
  | PNode ts => (fix all (l : list ptree) : Prop :=
                   match l with [] => True | a :: l' => dtype_preserved a /\ all l' end) ts
  end.

(* ---- binary with a scalar / with an element of the same space ---- *)
Variable F2 : dt -> dt.
Variable f2 : dt -> T -> T -> T.
Fixpoint map2 {A B C} (g : A -> B -> C) (l : list A) (m : list B) : list C :=
  match l, m with a :: l', b :: m' => g a b :: map2 g l' m' | _, _ => [] end.
(* x.ufuncs.f(c) with a scalar c: applied to every component *)
Fixpoint legacy2_scalar (c : T) (t : ptree) : ptree :=
  match t with
  | PLeaf d x => PLeaf (F2 d) (map (fun v => f2 d v c) x)
  | PNode ts => cast_like t (PNode (map (legacy2_scalar c) ts))
  end.
(* x.ufuncs.f(y) with y in the same space: componentwise *)
Fixpoint legacy2_elem (t u : ptree) : ptree :=
  match t, u with
  | PLeaf d x, PLeaf _ y => PLeaf (F2 d) (map2 (f2 d) x y)
  | PNode ts, PNode us =>
      cast_like t (PNode ((fix go (ts us : list ptree) : list ptree :=
                             match ts, us with
                             | a :: ts', b :: us' => legacy2_elem a b :: go ts' us'
                             | _, _ => []
                             end) ts us))
  | _, _ => t
  end.
Fixpoint legacy2_elem_spec (t u : ptree) : ptree :=
  match t, u with
  | PLeaf d x, PLeaf _ y => PLeaf d (map (conv (F2 d) d) (map2 (f2 d) x y))
  | PNode ts, PNode us =>
      PNode ((fix go (ts us : list ptree) : list ptree :=
                match ts, us with
                | a :: ts', b :: us' => legacy2_elem_spec a b :: go ts' us'
                | _, _ => []
                end) ts us)
  | _, _ => t
  end.

(* ---------------- power-space elements through the NumPy API ----------------
   ProductSpaceElement has no __array_ufunc__: NumPy converts the element with
   __array__ (a COPY of shape n :: s for n parts of shape s), runs the ufunc on
   arrays and hands the result to __array_wrap__:
     0-d result -> Python scalar;  otherwise space.element(result), which needs
     len(result) = n and, per part, np.array(result[i], dtype, ndmin=rank) of the
     part shape (ValueError otherwise), and converts to the dtype of the SPACE.
   outer does not call __array_wrap__ (plain ndarray), at refuses a non-array
   first operand, an element as out= is refused (TypeError). *)
Inductive wrapped :=
  | WScal (v : T) | WArrRes (r : @narr T) | WElem (d : dt) (shape : list nat) (data : list T).

Definition wrap_pspace (n : nat) (s : list nat) (d : dt) (r : @narr T) : res wrapped :=
  match a_shape r with
  | [] => match a_data r with v :: _ => Ok (WScal v) | [] => Err EUnmodelled end
  | m :: rs =>
      if negb (m =? n)%nat then Err EValue
      else if shape_eqb (repeat 1%nat (length s - length rs) ++ rs) s
           then Ok (WElem d (n :: s) (map (conv (a_dt r) d) (a_data r)))
           else Err EValue
  end.
Fixpoint wrap_all (n : nat) (s : list nat) (d : dt) (rs : list (@narr T)) : res (list wrapped) :=
  match rs with
  | [] => Ok []
  | r :: rs' => match wrap_pspace n s d r, wrap_all n s d rs' with
                | Ok w, Ok l => Ok (w :: l)
                | Err e, _ => Err e
                | _, Err e => Err e
                end
  end.
(* [r] = what NumPy computes on the arrays *)
Definition pspace_np (m : meth) (out_is_elem out_is_arr : bool) (n : nat) (s : list nat) (d : dt)
           (r : res (list (@narr T))) : res (list wrapped) :=
  if out_is_elem then Err EType
  else if out_is_arr && negb (is_at m)
  then (* an ndarray given as out is returned as it is *)
       match r with Ok rs => Ok (map WArrRes rs) | Err e => Err e end
  else match m with
       | MAt => Err EType
       | MOuter => match r with Ok rs => Ok (map WArrRes rs) | Err e => Err e end
       | _ => match r with Ok rs => wrap_all n s d rs | Err e => Err e end
       end.

End Legacy.
