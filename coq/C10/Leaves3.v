(* C10/Leaves3.v -- the default operators and the summary lemma [leaf_ok] over all leaves. *)
From Coq Require Import ZArith Reals Lra Lia List Bool Arith.
From Verif Require Import Base.Num Base.Vec C10.Model C10.HeapLemmas C10.Leaves C10.Leaves2.
Import ListNotations.
Local Open Scope num_scope.

Section L5.
Context {T : Type} `{Num T} `{Sqrt T}.
Notation heap := (heap T).
Notation val := (list (list T)).

(* the shape side conditions under which the code accepts its parameters
   (g, element sigma, constants must be elements of the space x lives in) *)
Definition wf_leaf (n : nat) (l : leaf T) : Prop :=
  match l with
  | LL2 _ _ _ _ (Some gv) => length gv = n
  | LL2Sq _ (El sv) (Some _) => length sv = n
  | LCCL2Sq _ (El sv) (Some _) => length sv = n
  | LCCL1 _ (El sv) (Some _) => length sv = n
  | LCCKLCE _ W => forall v, length (W v) = length v
  | LFun F => forall v, length (F v) = length v
  | LConst c => length c = n
  | _ => True
  end.

Lemma leaf_ok (l : leaf T) (h : heap) x out : wf_leaf (length x) l -> pre h x out ->
  post h (leaf_ip l x out h) out (leaf_pure l (get h x)).
Proof.
  intros Hwf Hpre; destruct l; cbn [leaf_ip leaf_pure wf_leaf] in *.
  - apply box_ok; exact Hpre.
  - apply l2_ok; [destruct g; exact Hwf | exact Hpre].
  - apply ccl2sq_ok; [destruct sigma, g; exact Hwf || exact I | exact Hpre].
  - apply l2sq_ok; [destruct sigma, g; exact Hwf || exact I | exact Hpre].
  - apply ccl1_ok; [destruct sigma, g; exact Hwf || exact I | exact Hpre].
  - apply ccl1l2_ok; exact Hpre.
  - apply l1_ok; exact Hpre.
  - apply l1l2_ok; exact Hpre.
  - apply linf_ok; exact Hpre.
  - unfold call_cclinf. apply projl1_ok; exact Hpre.
  - apply cckl_ok; exact Hpre.
  - apply ccklce_ok; [exact Hwf | exact Hpre].
  - apply huber_ok; exact Hpre.
  - split_alias Hpre; unfold call_simplex; run_leaf.
  - apply sumc_ok; exact Hpre.
  - split_alias Hpre; unfold ip_ScalingOperator; run_leaf.
  - split_alias Hpre; unfold ip_ZeroOperator; run_leaf.
  - split_alias Hpre; unfold ip_ConstantOperator; run_leaf.
  - split_alias Hpre; unfold ip_MultiplyOperator; run_leaf.
  - split_alias Hpre; run_leaf.
  - split_alias Hpre; exec.
    all: absorb1.
    all: match goal with |- context [st1 ?G ?a ?b ?hv] => is_var hv;
           assert (W0 : wrote hv (st1 G a b hv) b (G (get hv a))) by (refine (st1_wrote G a b hv _ _); [sd | rewrite Hwf; sd]);
           pose proof (st1_next G a b hv) as N0; set (h1 := st1 G a b hv) in *; clearbody h1; nxt end.
    all: absorb; finish.
Qed.

Lemma leaf_pure_length (l : leaf T) n v : wf_leaf n l -> length v = n -> length (leaf_pure l v) = n.
Proof.
  intros Hwf Hl; destruct l; cbn [leaf_pure wf_leaf] in *;
    unfold pure_box, pure_l2, pure_ccl2sq, pure_l2sq, pure_ccl1, pure_ccl1l2, pure_l1, pure_l1l2, pure_linf,
      pure_projl1, pure_cckl, pure_huber, pure_sumc;
    try (rewrite Hwf; exact Hl);
    repeat match goal with
           | |- context [match ?g with Some _ => _ | None => _ end] => destruct g
           | |- context [match ?s with Sc _ => _ | El _ => _ end] => destruct s
           | |- context [if ?c then _ else _] => destruct c
           end; autorewrite with len; auto.
Qed.
End L5.
