(* C10/Corr.v -- correspondence checker, executed at Q by the shards.
   One case = one operator (reified from the live odl object by harness/c10.py)
   and one input, with the three observations of the implementation:
   P(x), P(y, out=y) with y = x.copy(), and P(x, out=z) with z NaN-filled.
   The model is run on a heap whose unused cells hold junk of the wrong shape. *)
From Coq Require Import ZArith QArith Qabs List Bool.
From Verif Require Import Base.Num Base.Vec Base.Check C10.Model.
Import ListNotations.

(* exact square root on squares of rationals (the generators only produce those) *)
Definition Qsqrt_ps (q : Q) : Q :=
  let r := Qred q in
  match Qnum r with
  | Zpos n => Zpos (Pos.sqrt n) # Pos.sqrt (Qden r)
  | _ => 0
  end.
Global Instance Sqrt_Q : Sqrt Q := {| nsqrt := Qsqrt_ps |}.

Definition junk : list Q := [(-77) # 1; 1 # 3; 5 # 1; 9 # 1; (-2) # 1; 6 # 1; 1 # 1].

Record case := {
  c_op : op Q;
  c_x : list (list Q);
  c_oop : list (list Q);       (* P(x) *)
  c_alias : list (list Q);     (* y = x.copy(); P(y, out=y); y *)
  c_sep : list (list Q)        (* z = NaN-filled; P(x, out=z); z *)
}.

Definition tol : Q := 1 # 10000000000.

Definition heap0 (xv : list (list Q)) : heap Q * ref * ref :=
  let n := length xv in
  let x := seq 0 n in
  let out := seq n n in
  (put x xv (mkH (fun _ => junk) (n + n)), x, out).

(* boolean form of Proofs.diag_ok / Proofs.wfop: evaluated on every case, so the premises of the
   theorems are seen to hold for the operators the library really builds *)
Definition shapeb (a b : list (list Q)) : bool := Zeqs (map (fun l => Z.of_nat (length l)) a) (map (fun l => Z.of_nat (length l)) b).
Fixpoint diag_okb (e : op Q) (v : list (list Q)) : bool :=
  match e with
  | OLeaf _ => true
  | OSum a b | OPw a b => diag_okb a v && diag_okb b v
  | OVecSum a _ | OLScal a _ | OLVec a _ => diag_okb a v
  | OComp a b => diag_okb b v && diag_okb a (pure b v)
  | ORScal a s => diag_okb a (scal s v)
  | ORVec a w => diag_okb a (e2 nmul v w)
  | ODiag k a b => shapeb (pure a (firstn k v)) (firstn k v) && shapeb (pure b (skipn k v)) (skipn k v)
                   && diag_okb a (firstn k v) && diag_okb b (skipn k v)
  end.
Definition wf_leafb (n : nat) (l : leaf Q) : bool :=
  match l with
  | LL2 _ _ _ _ (Some gv) => Nat.eqb (length gv) n
  | LL2Sq _ (El sv) (Some _) => Nat.eqb (length sv) n
  | LCCL2Sq _ (El sv) (Some _) => Nat.eqb (length sv) n
  | LCCL1 _ (El sv) (Some _) => Nat.eqb (length sv) n
  | LConst c => Nat.eqb (length c) n
  | _ => true
  end.
Fixpoint wfopb (n : nat) (e : op Q) : bool :=
  match e with
  | OLeaf l => wf_leafb n l
  | OSum a b | OComp a b | OPw a b => wfopb n a && wfopb n b
  | OVecSum a _ | OLScal a _ | ORScal a _ | OLVec a _ | ORVec a _ => wfopb n a
  | ODiag k a b => Nat.leb k n && wfopb k a && wfopb (n - k) b
  end.

Definition check (k : case) : bool :=
  let '(h, x, out) := heap0 (c_x k) in
  let e := c_op k in
  let want := pure e (c_x k) in
  let h_al := run_ip e x x h in
  let h_sep := run_ip e x out h in
  let '(r, h_oop) := run_oop e x h in
  wfopb (length (c_x k)) e && diag_okb e (c_x k)
  && Qssclose tol tol (c_oop k) want
  && Qssclose tol tol (c_alias k) want
  && Qssclose tol tol (c_sep k) want
  && Qssclose tol tol (c_alias k) (get h_al x)
  && Qssclose tol tol (c_sep k) (get h_sep out)
  && Qssclose 0 0 (c_x k) (get h_sep x)
  && Qssclose tol tol (c_oop k) (get h_oop r)
  && Qssclose 0 0 (c_x k) (get h_oop x).

(* the same, but only the model against itself: used by Examples *)
Definition model_consistent (e : op Q) (xv : list (list Q)) : bool :=
  let '(h, x, out) := heap0 xv in
  let want := pure e xv in
  Qssclose 0 0 (get (run_ip e x x h) x) want
  && Qssclose 0 0 (get (run_ip e x out h) out) want
  && Qssclose 0 0 (get (snd (run_oop e x h)) (fst (run_oop e x h))) want.
