(* C10/Leaves2.v -- remaining leaves: group (product-space) proximals with their
   sequential per-component loop, L-infinity via proj_l1, Huber's masked writes,
   the default operators; then the summary lemma [leaf_ok]. *)
From Coq Require Import ZArith Reals Lra Lia List Bool Arith.
From Verif Require Import Base.Num Base.Vec C10.Model C10.HeapLemmas C10.Leaves.
Import ListNotations.

Section L3.
Context {T : Type} `{Num T} `{Sqrt T}.
Notation heap := (heap T).
Notation val := (list (list T)).

(* ---- for out_i, src_i in zip(out, src): src_i.divide|multiply(d, out=out_i) *)
Fixpoint safe (out diff : ref) : Prop :=
  match out, diff with
  | o :: out', d :: diff' => ~ In o diff' /\ safe out' diff'
  | _, _ => True
  end.
Lemma safe_nodup r : NoDup r -> safe r r.
Proof. induction 1 as [|a r Hni Hnd IH]; cbn; auto. Qed.
Lemma safe_dis out diff : dis diff out -> safe out diff.
Proof.
  revert diff; induction out as [|o out IH]; intros [|d diff] Hd; cbn; auto. split.
  - intros Hi; apply (Hd o); [right; exact Hi | left; reflexivity].
  - apply IH; intros i Hi Ho; apply (Hd i); right; assumption.
Qed.

Lemma zip_loop_next f out diff denom (h : heap) : next (zip_loop f out diff denom h) = next h.
Proof.
  unfold zip_loop; revert diff h; induction out as [|o out IH]; intros [|d diff] h; cbn [combine fold_left]; auto.
  rewrite IH. apply next_put.
Qed.

Lemma zip_loop_wrote f out diff denom (h : heap) :
  NoDup out -> below (next h) out -> length diff = length out -> safe out diff -> dis denom out ->
  wrote h (zip_loop f out diff denom h) out (bzip f (get h diff) (hd [] (get h denom))).
Proof.
  unfold zip_loop; revert diff h; induction out as [|o out IH]; intros [|d diff] h Hnd Hbo Hl Hs Hdn;
    cbn in Hl; try discriminate.
  - split; [reflexivity | intros; reflexivity].
  - inversion Hnd as [|? ? Hni Hnd']; subst. destruct Hs as [Hod Hs].
    assert (Hob : o < next h) by (eapply below_in; [exact Hbo | left; reflexivity]).
    assert (Hbo' : below (next h) out) by (inversion Hbo; assumption).
    cbn [combine fold_left fst snd].
    set (h1 := st2 (e2 f) [d] denom [o] h).
    assert (Hm1 : forall i, i <> o -> mem h1 i = mem h i).
    { intros i Hi; unfold h1, st2; apply mem_put_notin; intros [E|[]]; congruence. }
    assert (Ho1 : mem h1 o = vmap2 f (mem h d) (hd [] (get h denom))).
    { unfold h1, st2; cbn [get map e2 pzip put hd tl]. apply mem_write_same. }
    assert (Hdn' : dis denom out) by (intros i Hi Ho; apply (Hdn i Hi); right; exact Ho).
    assert (Hn1 : next h1 = next h) by (unfold h1; apply st2_next).
    destruct (IH diff h1 Hnd' ltac:(rewrite Hn1; exact Hbo') ltac:(congruence) Hs Hdn') as [Hg Hf].
    split.
    + unfold bzip in *. cbn [get map]. f_equal.
      * rewrite Hf by (rewrite ?Hn1; assumption). exact Ho1.
      * unfold get in Hg; rewrite Hg. unfold get.
        transitivity (map (fun a => vmap2 f a (hd [] (map (mem h) denom))) (map (mem h1) diff)); [|f_equal].
        -- apply map_ext; intros a. do 2 f_equal. apply map_ext_in. intros i Hi. apply Hm1. intros ->. apply (Hdn o Hi). left; reflexivity.
        -- apply map_ext_in; intros i Hi. apply Hm1. intros ->; exact (Hod Hi).
    + intros i Hi Hni'. rewrite Hf.
      * apply Hm1. intros ->; apply Hni'; left; reflexivity.
      * rewrite Hn1; exact Hi.
      * intros Ho; apply Hni'; right; exact Ho.
Qed.

Lemma projl1_wrote radius (h : heap) x out : pre h x out ->
  wrote h (proj_l1 radius x out h) out (pure_projl1 radius (get h x)).
Proof. intros Hp; apply post_wrote, projl1_ok; exact Hp. Qed.
Lemma projl1_next radius (h : heap) x out : pre h x out ->
  next (proj_l1 radius x out h) = next h + (next (proj_l1 radius x out h) - next h).
Proof. intros Hp; eapply post_next, projl1_ok; exact Hp. Qed.
End L3.

Ltac safe_tac := first [ apply safe_nodup; assumption | apply safe_dis; dis_tac ].
Ltac absorb1x :=
  first
  [ absorb1
  | match goal with
    | |- context [zip_loop ?f ?o ?d ?dn ?hv] => is_var hv;
        let hn := fresh "h" in let W := fresh "W" in let N := fresh "N" in
        assert (W : wrote hv (zip_loop f o d dn hv) o (bzip f (get hv d) (hd [] (get hv dn))))
          by (apply zip_loop_wrote; [ first [assumption | apply seq_NoDup] | below_tac | len_tac | safe_tac | dis_tac ]);
        pose proof (zip_loop_next f o d dn hv) as N;
        set (hn := zip_loop f o d dn hv) in *; clearbody hn; nxt
    | |- context [proj_l1 ?r ?a ?b ?hv] => is_var hv;
        let hn := fresh "h" in let W := fresh "W" in let N := fresh "N" in let P := fresh "P" in
        assert (P : pre hv a b) by pre_tac;
        pose proof (projl1_wrote r hv a b P) as W; pose proof (projl1_next r hv a b P) as N;
        set (hn := proj_l1 r a b hv) in *; clearbody hn;
        generalize dependent (next hn - next hv); intros ? N; nxt
    end ].
Ltac absorbx := repeat absorb1x.

Section L4.
Context {T : Type} `{Num T} `{Sqrt T}.
Notation heap := (heap T).
Notation val := (list (list T)).

Lemma l1l2_ok lam sigma g (h : heap) x out : pre h x out ->
  post h (call_l1l2 lam sigma g x out h) out (pure_l1l2 lam sigma g (get h x)).
Proof.
  intros Hpre; split_alias Hpre; unfold call_l1l2; rewrite ?ref_eqb_refl, ?He; destruct g as [gv|];
    exec; absorbx; finish.
Qed.

Lemma ccl1l2_ok lam sigma g (h : heap) x out : pre h x out ->
  post h (call_ccl1l2 lam sigma g x out h) out (pure_ccl1l2 lam sigma g (get h x)).
Proof.
  intros Hpre; split_alias Hpre; unfold call_ccl1l2; destruct g as [gv|]; exec; absorbx; finish.
Qed.

Lemma linf_ok sigma (h : heap) x out : pre h x out ->
  post h (call_linf sigma x out h) out (pure_linf sigma (get h x)).
Proof.
  intros Hpre; split_alias Hpre; unfold call_linf; rewrite ?ref_eqb_refl, ?He; exec; absorbx; finish.
Qed.

Lemma huber_ok ps gamma sigma (h : heap) x out : pre h x out ->
  post h (call_huber ps gamma sigma x out h) out (pure_huber ps gamma sigma (get h x)).
Proof.
  intros Hpre; split_alias Hpre; unfold call_huber, pure_huber; destruct ps; exec; absorbx; finish.
Qed.
End L4.
