(* C10/Proofs.v -- operator trees: structural induction over the nine
   operator-arithmetic classes and DiagonalOperator, for every heap. *)
From Coq Require Import ZArith Reals Lra Lia List Bool Arith.
From Verif Require Import Base.Num Base.Vec C10.Model C10.HeapLemmas C10.Leaves C10.Leaves2 C10.Leaves3.
Import ListNotations.

Section Tree.
Context {T : Type} `{Num T} `{Sqrt T}.
Notation heap := (heap T).
Notation val := (list (list T)).

Fixpoint wfop (n : nat) (e : op T) : Prop :=
  match e with
  | OLeaf l => wf_leaf n l
  | OSum a b | OComp a b | OPw a b => wfop n a /\ wfop n b
  | OVecSum a _ | OLScal a _ | ORScal a _ | OLVec a _ | ORVec a _ => wfop n a
  | ODiag k a b => k <= n /\ wfop k a /\ wfop (n - k) b
  end.

Lemma pure_length (e : op T) : forall n v, wfop n e -> length v = n -> length (pure e v) = n.
Proof.
  induction e; intros n w Hwf Hl; cbn [pure wfop] in *;
    try (destruct Hwf as [Hwa Hwb]); autorewrite with len; eauto using leaf_pure_length.
  - apply IHe. exact Hwf. autorewrite with len; exact Hl.
  - apply IHe. exact Hwf. autorewrite with len; exact Hl.
  - destruct Hwb as [Hwb Hwc].
    rewrite (IHe1 k), (IHe2 (n - k)); auto; autorewrite with len; lia.
Qed.

(* sublists of refs *)
Lemma NoDup_app_inv (a b : ref) : NoDup (a ++ b) -> NoDup a /\ NoDup b /\ dis a b.
Proof.
  induction a as [|u a IH]; cbn; intros Hnd.
  - split; [constructor|]. split; [exact Hnd|]. intros i [].
  - inversion Hnd as [|? ? Hni Hnd']; subst. destruct (IH Hnd') as (Ha & Hb & Hd).
    split; [constructor; [intros Hi; apply Hni, in_or_app; left; exact Hi | exact Ha]|].
    split; [exact Hb|]. intros i [->|Hi] Hj.
    + apply Hni, in_or_app; right; exact Hj.
    + exact (Hd i Hi Hj).
Qed.
Lemma NoDup_firstn_skipn (k : nat) (r : ref) : NoDup r ->
  NoDup (firstn k r) /\ NoDup (skipn k r) /\ dis (firstn k r) (skipn k r).
Proof. intros Hnd. apply NoDup_app_inv. rewrite firstn_skipn. exact Hnd. Qed.
Lemma dis_sub (a b a' b' : ref) : dis a b -> (forall i, In i a' -> In i a) -> (forall i, In i b' -> In i b) -> dis a' b'.
Proof. intros Hd Ha Hb i Hi Hj; exact (Hd i (Ha i Hi) (Hb i Hj)). Qed.

Lemma pre_firstn (h : heap) k x out : pre h x out -> pre h (firstn k x) (firstn k out).
Proof.
  intros (Hnd & Hbx & Hbo & Hal & Hl). repeat split.
  - apply NoDup_firstn_skipn; exact Hnd.
  - apply below_firstn; exact Hbx.
  - apply below_firstn; exact Hbo.
  - destruct Hal as [->|Hd]; [left; reflexivity | right]. eapply dis_sub; [exact Hd | |]; intros i; apply In_firstn.
  - rewrite !firstn_length; lia.
Qed.
Lemma pre_skipn (h : heap) k x out : pre h x out -> pre h (skipn k x) (skipn k out).
Proof.
  intros (Hnd & Hbx & Hbo & Hal & Hl). repeat split.
  - apply NoDup_firstn_skipn; exact Hnd.
  - apply below_skipn; exact Hbx.
  - apply below_skipn; exact Hbo.
  - destruct Hal as [->|Hd]; [left; reflexivity | right]. eapply dis_sub; [exact Hd | |]; intros i; apply In_skipn.
  - rewrite !skipn_length; lia.
Qed.
Lemma pre_mono (h h' : heap) x out : pre h x out -> next h <= next h' -> pre h' x out.
Proof.
  intros (Hnd & Hbx & Hbo & Hal & Hl) Hle. repeat split; auto; eapply below_mono; eauto.
Qed.
End Tree.

(* use an induction hypothesis about run_ip as one symbolic step *)
Ltac absorb_ip IH :=
  match goal with
  | |- context [run_ip ?a ?x ?o ?hv] => is_var hv;
      let hn := fresh "h" in let W := fresh "W" in let N := fresh "N" in let P := fresh "P" in
      let Wf := fresh "Wf" in
      assert (P : pre hv x o) by pre_tac;
      assert (Wf : wfop (length x) a) by (autorewrite with len; first [assumption | congruence]);
      pose proof (post_wrote _ _ _ _ (IH hv x o Wf P)) as W;
      pose proof (post_next _ _ _ _ (IH hv x o Wf P)) as N;
      set (hn := run_ip a x o hv) in *; clearbody hn;
      generalize dependent (next hn - next hv); intros ? N; nxt; clear P Wf
  end.

Section Tree2.
Context {T : Type} `{Num T} `{Sqrt T}.
Notation heap := (heap T).
Notation val := (list (list T)).

Theorem run_ip_ok (e : op T) : forall (h : heap) x out, wfop (length x) e -> pre h x out ->
  post h (run_ip e x out h) out (pure e (get h x)).
Proof.
  induction e as [l | a IHa b IHb | a IHa v | a IHa b IHb | a IHa b IHb | a IHa s | a IHa s | a IHa v | a IHa v
                 | k a IHa b IHb]; intros h x out Hwf Hpre; cbn [run_ip pure wfop] in *.
  - apply leaf_ok; assumption.
  - destruct Hwf as [Hwa Hwb]. split_alias Hpre; try rewrite Hl in *; exec; absorb1; absorb_ip IHa; absorb_ip IHb; absorb; finish.
  - split_alias Hpre; try rewrite Hl in *; exec; absorb_ip IHa; absorb; finish.
  - destruct Hwf as [Hwa Hwb]. split_alias Hpre; try rewrite Hl in *; exec; absorb1; absorb_ip IHb; absorb_ip IHa; absorb; finish.
  - destruct Hwf as [Hwa Hwb]. split_alias Hpre; try rewrite Hl in *; exec; absorb1; absorb_ip IHa; absorb_ip IHb; absorb; finish.
  - split_alias Hpre; try rewrite Hl in *; exec; absorb_ip IHa; absorb; finish.
  - split_alias Hpre; try rewrite Hl in *; exec; absorb1; absorb1; absorb_ip IHa; absorb; finish.
  - split_alias Hpre; try rewrite Hl in *; exec; absorb_ip IHa; absorb; finish.
  - split_alias Hpre; try rewrite Hl in *; exec; absorb1; absorb1; absorb_ip IHa; absorb; finish.
  - destruct Hwf as (Hk & Hwa & Hwb).
    pose proof Hpre as (Hnd & Hbx & Hbo & Hal & Hl).
    destruct (NoDup_firstn_skipn k out Hnd) as (Hnf & Hns & Hdfs).
    assert (Hlf : length (firstn k x) = k) by (rewrite firstn_length; lia).
    assert (Hls : length (skipn k x) = length x - k) by apply skipn_length.
    assert (Hwa' : wfop (length (firstn k x)) a) by (rewrite Hlf; exact Hwa).
    assert (Hwb' : wfop (length (skipn k x)) b) by (rewrite Hls; exact Hwb).
    pose proof (IHa h (firstn k x) (firstn k out) Hwa' (pre_firstn h k x out Hpre)) as [A1 A2 A3].
    set (h1 := run_ip a (firstn k x) (firstn k out) h) in *.
    assert (Hp1 : pre h1 (skipn k x) (skipn k out)) by (eapply pre_mono; [apply pre_skipn; exact Hpre | exact A3]).
    pose proof (IHb h1 (skipn k x) (skipn k out) Hwb' Hp1) as [B1 B2 B3].
    set (h2 := run_ip b (skipn k x) (skipn k out) h1) in *.
    assert (Hx2 : get h1 (skipn k x) = get h (skipn k x)).
    { apply get_ext; intros i Hi. apply A2.
      - eapply below_in; [apply below_skipn; exact Hbx | exact Hi].
      - intros Hj. destruct Hal as [->|Hd].
        + exact (Hdfs i Hj Hi).
        + apply (Hd i); [eapply In_skipn; eauto | eapply In_firstn; eauto]. }
    split.
    + rewrite <- (firstn_skipn k out) at 1. rewrite get_app. f_equal.
      * rewrite <- get_firstn, <- A1. apply get_ext; intros i Hi. apply B2.
        -- assert (i < next h) by (eapply below_in; [apply below_firstn; exact Hbo | exact Hi]). lia.
        -- intros Hj; exact (Hdfs i Hi Hj).
      * rewrite B1, Hx2, get_skipn. reflexivity.
    + intros i Hi Hni. rewrite B2, A2; auto.
      * intros Hj; apply Hni; eapply In_firstn; eauto.
      * lia.
      * intros Hj; apply Hni; eapply In_skipn; eauto.
    + lia.
Qed.
End Tree2.

(* ------------------------------------------------------- out-of-place calls *)
Section Oop.
Context {T : Type} `{Num T} `{Sqrt T}.
Notation heap := (heap T).
Notation val := (list (list T)).

Fixpoint no_diag (e : op T) : Prop :=
  match e with
  | OLeaf _ => True
  | OSum a b | OComp a b | OPw a b => no_diag a /\ no_diag b
  | OVecSum a _ | OLScal a _ | ORScal a _ | OLVec a _ | ORVec a _ => no_diag a
  | ODiag _ _ _ => False
  end.

(* P(x): the result is a NEW element r holding the value; nothing that existed before is modified *)
Definition post_oop (h : heap) (x : ref) (res : ref * heap) (v : val) : Prop :=
  get (snd res) (fst res) = v /\ NoDup (fst res) /\ length (fst res) = length x
  /\ below (next (snd res)) (fst res) /\ above (next h) (fst res)
  /\ (forall i, i < next h -> mem (snd res) i = mem h i) /\ next h <= next (snd res).

Lemma leaf_oop_ok (l : leaf T) (h : heap) x : wf_leaf (length x) l -> below (next h) x ->
  post_oop h x (leaf_oop l x h) (leaf_pure l (get h x)).
Proof.
  intros Hwf Hbx. unfold leaf_oop, post_oop.
  assert (Hgen : post_oop h x (let '(t, h1) := fresh (length x) h in (t, leaf_ip l x t h1)) (leaf_pure l (get h x))).
  { exec. unfold post_oop; cbn [fst snd].
    assert (P : pre (bump (length x) h) x (seq (next h) (length x))).
    { unfold pre; refine (conj _ (conj _ (conj _ (conj _ _)))).
      - apply seq_NoDup.
      - eapply below_mono; [exact Hbx | cbn; lia].
      - apply below_seq; cbn; lia.
      - right; intros i Hi Hj; apply in_seq in Hj; pose proof (below_in _ _ _ Hbx Hi); lia.
      - rewrite seq_length; reflexivity. }
    destruct (leaf_ok l _ _ _ Hwf P) as [A B C]. cbn [next bump] in *.
    repeat split.
    - exact A.
    - apply seq_NoDup.
    - apply seq_length.
    - eapply below_mono; [apply below_seq; reflexivity | lia].
    - apply above_seq; lia.
    - intros i Hi. rewrite B; [reflexivity | lia | intros Hj; apply in_seq in Hj; lia].
    - lia. }
  destruct l; try exact Hgen; clear Hgen; exec; cbn [fst snd leaf_pure wf_leaf] in *.
  all: absorb; repeat split; cbn [fst snd]; try apply seq_NoDup; try apply seq_length;
    [ rdv; reflexivity | nxg; apply below_seq; lia | apply above_seq; lia
    | let i := fresh "i" in let Hi := fresh "Hi" in intros i Hi; frv i; reflexivity | nxg; lia ].
Qed.

Definition kept (hv hn : heap) : Prop := forall i, i < next hv -> mem hn i = mem hv i.
Lemma kept_get hv hn r : kept hv hn -> below (next hv) r -> get hn r = get hv r.
Proof. intros K Hb; apply get_ext; intros i Hi; apply K; eapply below_in; eauto. Qed.
End Oop.

Ltac absorb_oop IH :=
  match goal with
  | |- context [run_oop ?a ?x ?hv] => is_var hv;
      let hn := fresh "h" in let r := fresh "r" in let Q := fresh "Q" in let Hb := fresh "Hb" in
      let Wf := fresh "Wf" in let G := fresh "G" in let K := fresh "K" in let N := fresh "N" in
      assert (Hb : below (next hv) x) by below_tac;
      assert (Wf : wfop (length x) a) by (autorewrite with len; first [assumption | congruence]);
      pose proof (IH hv x Wf Hb) as Q; clear Wf Hb;
      destruct (run_oop a x hv) as [r hn]; unfold post_oop in Q; cbn [fst snd] in Q;
      let Qnd := fresh "Qnd" in let Ql := fresh "Ql" in let Qb := fresh "Qb" in let Qa := fresh "Qa" in
      destruct Q as (G & Qnd & Ql & Qb & Qa & K & N); autorewrite with len in Ql;
      change (kept hv hn) in K;
      assert (next hn = next hv + (next hn - next hv)) as N' by lia; clear N;
      generalize dependent (next hn - next hv); intros ? N; nxt; exec
  end.
Ltac rd2 :=
  first [ rd1
        | match goal with
          | G : get ?hn ?r = _ |- context [get ?hn ?r] => rewrite G
          | K : kept ?hv ?hn |- context [get ?hn ?r] => rewrite (kept_get hv hn r K) by below_tac
          end ].
Ltac rdv2 := repeat rd2.
Ltac fr2 i :=
  first [ fr1 i
        | match goal with K : kept ?hv ?hn |- context [mem ?hn i] => rewrite (K i) by (nxg; lia) end ].
Ltac frv2 i := repeat fr2 i.
Ltac finish_oop :=
  unfold post_oop; cbn [fst snd];
  refine (conj _ (conj _ (conj _ (conj _ (conj _ (conj _ _))))));
  [ rdv2; try reflexivity
  | first [assumption | apply seq_NoDup]
  | len_tac
  | below_tac
  | first [ apply above_seq; nxg; lia | eapply above_mono; [eassumption | nxg; lia] ]
  | let i := fresh "i" in let Hi := fresh "Hi" in intros i Hi; frv2 i; try reflexivity
  | nxg; lia ].

Section Oop2.
Context {T : Type} `{Num T} `{Sqrt T}.
Notation heap := (heap T).
Notation val := (list (list T)).
(* `left(x) + right(x)` out of place, but `out(=right) += tmp(=left)` in place: the two
   agree because + and * of the carrier commute (true of R, Q and IEEE floats alike) *)
Hypothesis add_comm : forall a b : T, nadd a b = nadd b a.
Hypothesis mul_comm : forall a b : T, nmul a b = nmul b a.

Lemma vmap2_comm (f : T -> T -> T) (a b : list T) : (forall u v, f u v = f v u) -> vmap2 f a b = vmap2 f b a.
Proof. intros Hf; revert b; induction a as [|u a IH]; intros [|v b]; cbn; auto. rewrite Hf, IH; reflexivity. Qed.
Lemma pzip_comm (f : list T -> list T -> list T) (a b : val) :
  (forall u v, f u v = f v u) -> length a = length b -> pzip f a b = pzip f b a.
Proof.
  intros Hf; revert b; induction a as [|u a IH]; intros [|v b] Hl; cbn in *; try discriminate; auto.
  rewrite Hf, IH by congruence; reflexivity.
Qed.
Lemma lin11_comm (u v : val) : length u = length v -> lin one one u v = lin one one v u.
Proof. intros Hl; apply pzip_comm; [|exact Hl]. intros a b; apply vmap2_comm; intros; apply add_comm. Qed.
Lemma emul_comm (u v : val) : length u = length v -> e2 nmul u v = e2 nmul v u.
Proof. intros Hl; apply pzip_comm; [|exact Hl]. intros a b; apply vmap2_comm; intros; apply mul_comm. Qed.

Theorem run_oop_ok (e : op T) : no_diag e -> forall (h : heap) x, wfop (length x) e -> below (next h) x ->
  post_oop h x (run_oop e x h) (pure e (get h x)).
Proof.
  induction e as [l | a IHa b IHb | a IHa v | a IHa b IHb | a IHa b IHb | a IHa s | a IHa s | a IHa v | a IHa v
                 | k a IHa b IHb]; intros Hnd h x Hwf Hbx; cbn [run_oop pure wfop no_diag] in *.
  - apply leaf_oop_ok; assumption.
  - destruct Hwf as [Hwa Hwb], Hnd as [Hna Hnb]. specialize (IHa Hna). specialize (IHb Hnb).
    absorb_oop IHa. absorb_oop IHb. absorb. finish_oop.
    apply lin11_comm. rewrite !(pure_length _ (length x)); autorewrite with len; auto.
  - specialize (IHa Hnd). absorb_oop IHa. absorb. finish_oop.
  - destruct Hwf as [Hwa Hwb], Hnd as [Hna Hnb]. specialize (IHa Hna). specialize (IHb Hnb).
    absorb_oop IHb. absorb_oop IHa. unfold post_oop; cbn [fst snd].
    refine (conj _ (conj _ (conj _ (conj _ (conj _ (conj _ _)))))).
    + rdv2; try reflexivity.
    + first [assumption | apply seq_NoDup].
    + len_tac.
    + below_tac.
    + first [ apply above_seq; nxg; lia | eapply above_mono; [eassumption | nxg; lia] ].
    + intros i Hi; frv2 i; try reflexivity.
    + nxg; lia.
  - destruct Hwf as [Hwa Hwb], Hnd as [Hna Hnb]. specialize (IHa Hna). specialize (IHb Hnb).
    absorb_oop IHa. absorb_oop IHb. absorb. finish_oop.
    apply emul_comm. rewrite !(pure_length _ (length x)); autorewrite with len; auto.
  - specialize (IHa Hnd). absorb_oop IHa. absorb. finish_oop.
  - specialize (IHa Hnd). exec. absorb. absorb_oop IHa. finish_oop.
  - specialize (IHa Hnd). absorb_oop IHa. absorb. finish_oop.
  - specialize (IHa Hnd). exec. absorb. absorb_oop IHa. finish_oop.
  - destruct Hnd.

Qed.
End Oop2.

(* ----------------------------------------------- statements used by Props.v *)
Section Final.
Context {T : Type} `{Num T} `{Sqrt T}.
Notation heap := (heap T).

Lemma aliased_gen (e : op T) (h : heap) (x : ref) :
  wfop (length x) e -> NoDup x -> below (next h) x ->
  get (run_ip e x x h) x = pure e (get h x)
  /\ (forall i, i < next h -> ~ In i x -> mem (run_ip e x x h) i = mem h i).
Proof.
  intros Hwf Hnd Hb.
  assert (P : pre h x x) by (unfold pre; auto 10).
  destruct (run_ip_ok e h x x Hwf P) as [A B _]. split; assumption.
Qed.

Lemma separate_gen (e : op T) (h : heap) (x out : ref) :
  wfop (length x) e -> NoDup out -> below (next h) x -> below (next h) out -> dis x out ->
  length x = length out ->
  get (run_ip e x out h) out = pure e (get h x)
  /\ get (run_ip e x out h) x = get h x
  /\ (forall i, i < next h -> ~ In i out -> mem (run_ip e x out h) i = mem h i).
Proof.
  intros Hwf Hnd Hbx Hbo Hd Hl.
  assert (P : pre h x out) by (unfold pre; auto 10).
  destruct (run_ip_ok e h x out Hwf P) as [A B _]. split; [exact A|]. split; [|exact B].
  apply get_ext; intros i Hi. apply B; [exact (below_in _ _ _ Hbx Hi) | intros Hj; exact (Hd i Hi Hj)].
Qed.

Hypothesis add_comm : forall a b : T, nadd a b = nadd b a.
Hypothesis mul_comm : forall a b : T, nmul a b = nmul b a.

Lemma oop_gen (e : op T) (h : heap) (x : ref) :
  no_diag e -> wfop (length x) e -> below (next h) x ->
  get (snd (run_oop e x h)) (fst (run_oop e x h)) = pure e (get h x)
  /\ above (next h) (fst (run_oop e x h))
  /\ (forall i, i < next h -> mem (snd (run_oop e x h)) i = mem h i).
Proof.
  intros Hnd Hwf Hb. destruct (run_oop_ok add_comm mul_comm e Hnd h x Hwf Hb) as (A & _ & _ & _ & B & C & _).
  auto.
Qed.

Lemma aliased_eq_oop_gen (e : op T) (h : heap) (x : ref) :
  no_diag e -> wfop (length x) e -> NoDup x -> below (next h) x ->
  get (run_ip e x x h) x = get (snd (run_oop e x h)) (fst (run_oop e x h)).
Proof.
  intros Hnd Hwf Hn Hb. destruct (aliased_gen e h x Hwf Hn Hb) as [A _].
  destruct (oop_gen e h x Hnd Hwf Hb) as [B _]. congruence.
Qed.
End Final.
