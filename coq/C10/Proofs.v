(* C10/Proofs.v -- operator trees: structural induction over the nine
   operator-arithmetic classes and DiagonalOperator, for every heap. *)
From Coq Require Import ZArith Reals Lra Lia List Bool Arith.
From Verif Require Import Base.Num Base.Vec C10.Model C10.HeapLemmas C10.Leaves C10.Leaves2 C10.Leaves3.
Import ListNotations.

Section Tree.
Context {T : Type} `{Num T} `{Sqrt T}.
Notation heap := (heap T).
Notation val := (list (list T)).

Fixpoint wfop (n : nat) (e : op T) : Prop :=
  match e with
  | OLeaf l => wf_leaf n l
  | OSum a b | OComp a b | OPw a b => wfop n a /\ wfop n b
  | OVecSum a _ | OLScal a _ | ORScal a _ | OLVec a _ | ORVec a _ => wfop n a
  | ODiag k a b => k <= n /\ wfop k a /\ wfop (n - k) b
  end.

Lemma pure_length (e : op T) : forall n v, wfop n e -> length v = n -> length (pure e v) = n.
Proof.
  induction e; intros n w Hwf Hl; cbn [pure wfop] in *;
    try (destruct Hwf as [Hwa Hwb]); autorewrite with len; eauto using leaf_pure_length.
  - apply IHe. exact Hwf. autorewrite with len; exact Hl.
  - apply IHe. exact Hwf. autorewrite with len; exact Hl.
  - destruct Hwb as [Hwb Hwc].
    rewrite (IHe1 k), (IHe2 (n - k)); auto; autorewrite with len; lia.
Qed.

(* sublists of refs *)
Lemma NoDup_app_inv (a b : ref) : NoDup (a ++ b) -> NoDup a /\ NoDup b /\ dis a b.
Proof.
  induction a as [|u a IH]; cbn; intros Hnd.
  - split; [constructor|]. split; [exact Hnd|]. intros i [].
  - inversion Hnd as [|? ? Hni Hnd']; subst. destruct (IH Hnd') as (Ha & Hb & Hd).
    split; [constructor; [intros Hi; apply Hni, in_or_app; left; exact Hi | exact Ha]|].
    split; [exact Hb|]. intros i [->|Hi] Hj.
    + apply Hni, in_or_app; right; exact Hj.
    + exact (Hd i Hi Hj).
Qed.
Lemma NoDup_firstn_skipn (k : nat) (r : ref) : NoDup r ->
  NoDup (firstn k r) /\ NoDup (skipn k r) /\ dis (firstn k r) (skipn k r).
Proof. intros Hnd. apply NoDup_app_inv. rewrite firstn_skipn. exact Hnd. Qed.
Lemma dis_sub (a b a' b' : ref) : dis a b -> (forall i, In i a' -> In i a) -> (forall i, In i b' -> In i b) -> dis a' b'.
Proof. intros Hd Ha Hb i Hi Hj; exact (Hd i (Ha i Hi) (Hb i Hj)). Qed.

Lemma pre_firstn (h : heap) k x out : pre h x out -> pre h (firstn k x) (firstn k out).
Proof.
  intros (Hnd & Hbx & Hbo & Hal & Hl). repeat split.
  - apply NoDup_firstn_skipn; exact Hnd.
  - apply below_firstn; exact Hbx.
  - apply below_firstn; exact Hbo.
  - destruct Hal as [->|Hd]; [left; reflexivity | right]. eapply dis_sub; [exact Hd | |]; intros i; apply In_firstn.
  - rewrite !firstn_length; lia.
Qed.
Lemma pre_skipn (h : heap) k x out : pre h x out -> pre h (skipn k x) (skipn k out).
Proof.
  intros (Hnd & Hbx & Hbo & Hal & Hl). repeat split.
  - apply NoDup_firstn_skipn; exact Hnd.
  - apply below_skipn; exact Hbx.
  - apply below_skipn; exact Hbo.
  - destruct Hal as [->|Hd]; [left; reflexivity | right]. eapply dis_sub; [exact Hd | |]; intros i; apply In_skipn.
  - rewrite !skipn_length; lia.
Qed.
Lemma pre_mono (h h' : heap) x out : pre h x out -> next h <= next h' -> pre h' x out.
Proof.
  intros (Hnd & Hbx & Hbo & Hal & Hl) Hle. repeat split; auto; eapply below_mono; eauto.
Qed.
End Tree.

(* use an induction hypothesis about run_ip as one symbolic step *)
Ltac absorb_ip IH :=
  match goal with
  | |- context [run_ip ?a ?x ?o ?hv] => is_var hv;
      let hn := fresh "h" in let W := fresh "W" in let N := fresh "N" in let P := fresh "P" in
      let Wf := fresh "Wf" in
      assert (P : pre hv x o) by pre_tac;
      assert (Wf : wfop (length x) a) by (autorewrite with len; first [assumption | congruence]);
      pose proof (post_wrote _ _ _ _ (IH hv x o Wf P)) as W;
      pose proof (post_next _ _ _ _ (IH hv x o Wf P)) as N;
      set (hn := run_ip a x o hv) in *; clearbody hn;
      generalize dependent (next hn - next hv); intros ? N; nxt; clear P Wf
  end.

Section Tree2.
Context {T : Type} `{Num T} `{Sqrt T}.
Notation heap := (heap T).
Notation val := (list (list T)).

Theorem run_ip_ok (e : op T) : forall (h : heap) x out, wfop (length x) e -> pre h x out ->
  post h (run_ip e x out h) out (pure e (get h x)).
Proof.
  induction e as [l | a IHa b IHb | a IHa v | a IHa b IHb | a IHa b IHb | a IHa s | a IHa s | a IHa v | a IHa v
                 | k a IHa b IHb]; intros h x out Hwf Hpre; cbn [run_ip pure wfop] in *.
  - apply leaf_ok; assumption.
  - destruct Hwf as [Hwa Hwb]. unfold ip_OperatorSum. split_alias Hpre; try rewrite Hl in *; exec; absorb1; absorb_ip IHa; absorb_ip IHb; absorb; finish.
  - unfold ip_OperatorVectorSum. split_alias Hpre; try rewrite Hl in *; exec; absorb_ip IHa; absorb; finish.
  - destruct Hwf as [Hwa Hwb]. unfold ip_OperatorComp. split_alias Hpre; try rewrite Hl in *; exec; absorb1; absorb_ip IHb; absorb_ip IHa; absorb; finish.
  - destruct Hwf as [Hwa Hwb]. unfold ip_OperatorPointwiseProduct. split_alias Hpre; try rewrite Hl in *; exec; absorb1; absorb_ip IHa; absorb_ip IHb; absorb; finish.
  - unfold ip_OperatorLeftScalarMult. split_alias Hpre; try rewrite Hl in *; exec; absorb_ip IHa; absorb; finish.
  - unfold ip_OperatorRightScalarMult. split_alias Hpre; try rewrite Hl in *; exec; absorb1; absorb1; absorb_ip IHa; absorb; finish.
  - unfold ip_OperatorLeftVectorMult. split_alias Hpre; try rewrite Hl in *; exec; absorb_ip IHa; absorb; finish.
  - unfold ip_OperatorRightVectorMult. split_alias Hpre; try rewrite Hl in *; exec; absorb1; absorb1; absorb_ip IHa; absorb; finish.
  - destruct Hwf as (Hk & Hwa & Hwb).
    pose proof Hpre as (Hnd & Hbx & Hbo & Hal & Hl).
    destruct (NoDup_firstn_skipn k out Hnd) as (Hnf & Hns & Hdfs).
    assert (Hlf : length (firstn k x) = k) by (rewrite firstn_length; lia).
    assert (Hls : length (skipn k x) = length x - k) by apply skipn_length.
    assert (Hwa' : wfop (length (firstn k x)) a) by (rewrite Hlf; exact Hwa).
    assert (Hwb' : wfop (length (skipn k x)) b) by (rewrite Hls; exact Hwb).
    pose proof (IHa h (firstn k x) (firstn k out) Hwa' (pre_firstn h k x out Hpre)) as [A1 A2 A3].
    set (h1 := run_ip a (firstn k x) (firstn k out) h) in *.
    assert (Hp1 : pre h1 (skipn k x) (skipn k out)) by (eapply pre_mono; [apply pre_skipn; exact Hpre | exact A3]).
    pose proof (IHb h1 (skipn k x) (skipn k out) Hwb' Hp1) as [B1 B2 B3].
    set (h2 := run_ip b (skipn k x) (skipn k out) h1) in *.
    assert (Hx2 : get h1 (skipn k x) = get h (skipn k x)).
    { apply get_ext; intros i Hi. apply A2.
      - eapply below_in; [apply below_skipn; exact Hbx | exact Hi].
      - intros Hj. destruct Hal as [->|Hd].
        + exact (Hdfs i Hj Hi).
        + apply (Hd i); [eapply In_skipn; eauto | eapply In_firstn; eauto]. }
    split.
    + rewrite <- (firstn_skipn k out) at 1. rewrite get_app. f_equal.
      * rewrite <- get_firstn, <- A1. apply get_ext; intros i Hi. apply B2.
        -- assert (i < next h) by (eapply below_in; [apply below_firstn; exact Hbo | exact Hi]). lia.
        -- intros Hj; exact (Hdfs i Hi Hj).
      * rewrite B1, Hx2, get_skipn. reflexivity.
    + intros i Hi Hni. rewrite B2, A2; auto.
      * intros Hj; apply Hni; eapply In_firstn; eauto.
      * lia.
      * intros Hj; apply Hni; eapply In_skipn; eauto.
    + lia.
Qed.
End Tree2.

(* ------------------------------------------------------- out-of-place calls *)
Section Oop.
Context {T : Type} `{Num T} `{Sqrt T}.
Notation heap := (heap T).
Notation val := (list (list T)).

Fixpoint no_diag (e : op T) : Prop :=
  match e with
  | OLeaf _ => True
  | OSum a b | OComp a b | OPw a b => no_diag a /\ no_diag b
  | OVecSum a _ | OLScal a _ | ORScal a _ | OLVec a _ | ORVec a _ => no_diag a
  | ODiag _ _ _ => False
  end.

(* each component of a DiagonalOperator maps its space to itself: the out-of-place body
   `out = range.zero(); out[i] += op(x[j])` adds the component result to zeros of the SPACE's shape *)
Definition shape (v : val) : list nat := map (@length T) v.
Fixpoint diag_ok (e : op T) (v : val) : Prop :=
  match e with
  | OLeaf _ => True
  | OSum a b | OPw a b => diag_ok a v /\ diag_ok b v
  | OVecSum a _ | OLScal a _ | OLVec a _ => diag_ok a v
  | OComp a b => diag_ok b v /\ diag_ok a (pure b v)
  | ORScal a s => diag_ok a (scal s v)
  | ORVec a w => diag_ok a (e2 nmul v w)
  | ODiag k a b => shape (pure a (firstn k v)) = shape (firstn k v) /\ shape (pure b (skipn k v)) = shape (skipn k v)
                   /\ diag_ok a (firstn k v) /\ diag_ok b (skipn k v)
  end.
Lemma no_diag_ok (e : op T) : no_diag e -> forall v, diag_ok e v.
Proof. induction e; cbn; intros Hn w; try tauto; try (destruct Hn; split; auto); auto. Qed.

(* P(x): the result is a NEW element r holding the value; nothing that existed before is modified *)
Definition post_oop (h : heap) (x : ref) (res : ref * heap) (v : val) : Prop :=
  get (snd res) (fst res) = v /\ NoDup (fst res) /\ length (fst res) = length x
  /\ below (next (snd res)) (fst res) /\ above (next h) (fst res)
  /\ (forall i, i < next h -> mem (snd res) i = mem h i) /\ next h <= next (snd res).

Lemma leaf_oop_ok (l : leaf T) (h : heap) x : wf_leaf (length x) l -> below (next h) x ->
  post_oop h x (leaf_oop l x h) (leaf_pure l (get h x)).
Proof.
  intros Hwf Hbx. unfold leaf_oop, post_oop.
  assert (Hgen : post_oop h x (let '(t, h1) := fresh (length x) h in (t, leaf_ip l x t h1)) (leaf_pure l (get h x))).
  { exec. unfold post_oop; cbn [fst snd].
    assert (P : pre (bump (length x) h) x (seq (next h) (length x))).
    { unfold pre; refine (conj _ (conj _ (conj _ (conj _ _)))).
      - apply seq_NoDup.
      - eapply below_mono; [exact Hbx | cbn; lia].
      - apply below_seq; cbn; lia.
      - right; intros i Hi Hj; apply in_seq in Hj; pose proof (below_in _ _ _ Hbx Hi); lia.
      - rewrite seq_length; reflexivity. }
    destruct (leaf_ok l _ _ _ Hwf P) as [A B C]. cbn [next bump] in *.
    repeat split.
    - exact A.
    - apply seq_NoDup.
    - apply seq_length.
    - eapply below_mono; [apply below_seq; reflexivity | lia].
    - apply above_seq; lia.
    - intros i Hi. rewrite B; [reflexivity | lia | intros Hj; apply in_seq in Hj; lia].
    - lia. }
  destruct l; try exact Hgen; clear Hgen;
    unfold oop_ScalingOperator, oop_ZeroOperator, oop_ConstantOperator, oop_MultiplyOperator;
    exec; cbn [fst snd leaf_pure wf_leaf] in *.
  all: try absorb1.
  all: try match goal with |- context [st1 ?G ?a ?b ?hv] => is_var hv;
         assert (W0 : wrote hv (st1 G a b hv) b (G (get hv a))) by (refine (st1_wrote G a b hv _ _); [sd | rewrite Hwf; sd]);
         pose proof (st1_next G a b hv) as N0; set (h1 := st1 G a b hv) in *; clearbody h1; nxt end.
  all: absorb; repeat split; cbn [fst snd]; try apply seq_NoDup; try apply seq_length;
    [ rdv; reflexivity | nxg; apply below_seq; lia | apply above_seq; lia
    | let i := fresh "i" in let Hi := fresh "Hi" in intros i Hi; frv i; reflexivity | nxg; lia ].
Qed.

Definition kept (hv hn : heap) : Prop := forall i, i < next hv -> mem hn i = mem hv i.
Lemma kept_get hv hn r : kept hv hn -> below (next hv) r -> get hn r = get hv r.
Proof. intros K Hb; apply get_ext; intros i Hi; apply K; eapply below_in; eauto. Qed.
End Oop.

Ltac rd2 :=
  first [ rd1
        | match goal with
          | G : get ?hn ?r = _ |- context [get ?hn ?r] => rewrite G
          | K : kept ?hv ?hn |- context [get ?hn ?r] => rewrite (kept_get hv hn r K) by below_tac
          end ].
Ltac rdv2 := repeat rd2.
Ltac fr2 i :=
  first [ fr1 i
        | match goal with K : kept ?hv ?hn |- context [mem ?hn i] => rewrite (K i) by (nxg; lia) end ].
Ltac frv2 i := repeat fr2 i.
Ltac absorb_oop IH :=
  match goal with
  | |- context [run_oop ?a ?x ?hv] => is_var hv;
      let hn := fresh "h" in let r := fresh "r" in let Q := fresh "Q" in let Hb := fresh "Hb" in
      let Wf := fresh "Wf" in let G := fresh "G" in let K := fresh "K" in let N := fresh "N" in
      assert (Hb : below (next hv) x) by below_tac;
      assert (Wf : wfop (length x) a) by (autorewrite with len; first [assumption | congruence]);
      let Dg := fresh "Dg" in
      assert (Dg : diag_ok a (get hv x)) by (rdv2; assumption);
      pose proof (IH hv x Dg Wf Hb) as Q; clear Wf Hb Dg;
      destruct (run_oop a x hv) as [r hn]; unfold post_oop in Q; cbn [fst snd] in Q;
      let Qnd := fresh "Qnd" in let Ql := fresh "Ql" in let Qb := fresh "Qb" in let Qa := fresh "Qa" in
      destruct Q as (G & Qnd & Ql & Qb & Qa & K & N); autorewrite with len in Ql;
      change (kept hv hn) in K;
      assert (next hn = next hv + (next hn - next hv)) as N' by lia; clear N;
      generalize dependent (next hn - next hv); intros ? N; nxt; exec
  end.
Ltac finish_oop :=
  unfold post_oop; cbn [fst snd];
  refine (conj _ (conj _ (conj _ (conj _ (conj _ (conj _ _))))));
  [ rdv2; try reflexivity
  | first [assumption | apply seq_NoDup]
  | len_tac
  | below_tac
  | first [ apply above_seq; nxg; lia | eapply above_mono; [eassumption | nxg; lia] ]
  | let i := fresh "i" in let Hi := fresh "Hi" in intros i Hi; frv2 i; try reflexivity
  | nxg; lia ].

Section Oop2.
Context {T : Type} `{Num T} `{Sqrt T}.
Notation heap := (heap T).
Notation val := (list (list T)).
(* `left(x) + right(x)` out of place, but `out(=right) += tmp(=left)` in place: the two
   agree because + and * of the carrier commute (true of R, Q and IEEE floats alike) *)
Hypothesis add_comm : forall a b : T, nadd a b = nadd b a.
Hypothesis mul_comm : forall a b : T, nmul a b = nmul b a.

Lemma vmap2_comm (f : T -> T -> T) (a b : list T) : (forall u v, f u v = f v u) -> vmap2 f a b = vmap2 f b a.
Proof. intros Hf; revert b; induction a as [|u a IH]; intros [|v b]; cbn; auto. rewrite Hf, IH; reflexivity. Qed.
Lemma pzip_comm (f : list T -> list T -> list T) (a b : val) :
  (forall u v, f u v = f v u) -> length a = length b -> pzip f a b = pzip f b a.
Proof.
  intros Hf; revert b; induction a as [|u a IH]; intros [|v b] Hl; cbn in *; try discriminate; auto.
  rewrite Hf, IH by congruence; reflexivity.
Qed.
Lemma lin11_comm (u v : val) : length u = length v -> lin one one u v = lin one one v u.
Proof. intros Hl; apply pzip_comm; [|exact Hl]. intros a b; apply vmap2_comm; intros; apply add_comm. Qed.
Lemma emul_comm (u v : val) : length u = length v -> e2 nmul u v = e2 nmul v u.
Proof. intros Hl; apply pzip_comm; [|exact Hl]. intros a b; apply vmap2_comm; intros; apply mul_comm. Qed.

Hypothesis add_zero : forall v : T, nadd (nmul one nzero) (nmul one v) = v.

Lemma vmap2_zeros (a p : list T) : length a = length p ->
  vmap2 (fun u v => nadd (nmul one u) (nmul one v)) (map (fun _ => nzero) a) p = p.
Proof.
  revert p; induction a as [|u a IH]; intros [|v p] Hl; cbn in *; try discriminate; auto.
  rewrite add_zero, IH by congruence; reflexivity.
Qed.
Lemma lin_zeros (z p : val) : shape p = shape z -> lin one one (zeros_like z) p = p.
Proof.
  unfold shape; revert p; induction z as [|a z IH]; intros [|b p] Hs; cbn in *; try discriminate; auto.
  injection Hs as Hl Hs. unfold lin, e2, zeros_like, e1 in *. cbn [map pzip hd tl]. rewrite IH by exact Hs.
  rewrite vmap2_zeros by congruence. reflexivity.
Qed.
Lemma get_eq_in (h1 h2 : heap) (r : ref) : get h1 r = get h2 r -> forall i, In i r -> mem h1 i = mem h2 i.
Proof.
  induction r as [|u r IH]; intros Hm i Hi; [destruct Hi|]. cbn in Hm. injection Hm as Hu Hm.
  destruct Hi as [->|Hi]; [exact Hu | exact (IH Hm i Hi)].
Qed.
Lemma above_sub N (r r' : ref) : above N r -> (forall i, In i r' -> In i r) -> above N r'.
Proof. intros Ha Hs i Hi; apply Ha, Hs, Hi. Qed.

Theorem run_oop_ok (e : op T) : forall (h : heap) x, diag_ok e (get h x) -> wfop (length x) e -> below (next h) x ->
  post_oop h x (run_oop e x h) (pure e (get h x)).
Proof.
  induction e as [l | a IHa b IHb | a IHa v | a IHa b IHb | a IHa b IHb | a IHa s | a IHa s | a IHa v | a IHa v
                 | k a IHa b IHb]; intros h x Hdg Hwf Hbx; cbn [run_oop pure wfop diag_ok] in *;
    unfold oop_OperatorSum, oop_OperatorVectorSum, oop_OperatorComp, oop_OperatorPointwiseProduct,
      oop_OperatorLeftScalarMult, oop_OperatorRightScalarMult, oop_OperatorLeftVectorMult, oop_OperatorRightVectorMult.
  - apply leaf_oop_ok; assumption.
  - destruct Hwf as [Hwa Hwb], Hdg as [Hda Hdb].
    absorb_oop IHa. absorb_oop IHb. absorb. finish_oop.
    apply lin11_comm. rewrite !(pure_length _ (length x)); autorewrite with len; auto.
  - absorb_oop IHa. absorb. finish_oop.
  - destruct Hwf as [Hwa Hwb], Hdg as [Hdb Hda].
    absorb_oop IHb. absorb_oop IHa. finish_oop.
  - destruct Hwf as [Hwa Hwb], Hdg as [Hda Hdb].
    absorb_oop IHa. absorb_oop IHb. absorb. finish_oop.
    apply emul_comm. rewrite !(pure_length _ (length x)); autorewrite with len; auto.
  - absorb_oop IHa. absorb. finish_oop.
  - exec. absorb. absorb_oop IHa. finish_oop.
  - absorb_oop IHa. absorb. finish_oop.
  - exec. absorb. absorb_oop IHa. finish_oop.
  - destruct Hwf as (Hk & Hwa & Hwb). destruct Hdg as (Hsa & Hsb & Hda & Hdb).
    exec. absorb.
    (* names for the halves *)
    set (z := seq (next h) (length x)) in *.
    assert (Hzb : below (next h + length x) z) by (apply below_seq; lia).
    assert (Hza : above (next h) z) by (apply above_seq; lia).
    assert (Hzn : NoDup z) by apply seq_NoDup.
    destruct (NoDup_firstn_skipn k z Hzn) as (Hzfn & Hzsn & Hzd).
    assert (Hxz : dis x z) by (intros i Hi Hj; pose proof (below_in _ _ _ Hbx Hi); pose proof (Hza i Hj); lia).
    assert (Hg1 : get h1 x = get h x) by (rdv; reflexivity).
    assert (Hz1 : get h1 z = zeros_like (get h x)) by (rdv; reflexivity).
    (* first component *)
    assert (Hlf : length (firstn k x) = k) by (rewrite firstn_length; lia).
    assert (Hb1 : below (next h1) (firstn k x)) by (rewrite N0; eapply below_mono; [apply below_firstn; exact Hbx | lia]).
    assert (Hd1 : diag_ok a (get h1 (firstn k x))) by (rewrite get_firstn, Hg1; exact Hda).
    assert (Hw1 : wfop (length (firstn k x)) a) by (rewrite Hlf; exact Hwa).
    pose proof (IHa h1 (firstn k x) Hd1 Hw1 Hb1) as Q1.
    destruct (run_oop a (firstn k x) h1) as [r1 h2]; unfold post_oop in Q1; cbn [fst snd] in Q1.
    destruct Q1 as (G1 & Qnd1 & Ql1 & Qb1 & Qa1 & K1 & N1). rewrite get_firstn, Hg1 in G1. rewrite N0 in *.
    exec.
    set (h3 := st2 (lin one one) (firstn k z) r1 (firstn k z) h2) in *.
    assert (Hn3 : next h3 = next h2) by apply st2_next.
    assert (Hzf2 : get h2 (firstn k z) = zeros_like (firstn k (get h x))).
    { transitivity (get h1 (firstn k z)).
      - apply get_ext; intros i Hi; apply K1. pose proof (below_in _ _ _ Hzb (In_firstn _ _ _ Hi)); lia.
      - rewrite get_firstn, Hz1. unfold zeros_like, e1. apply firstn_map. }
    assert (W3 : wrote h2 h3 (firstn k z) (pure a (firstn k (get h x)))).
    { assert (W3' := st2_wrote (lin one one) (firstn k z) r1 (firstn k z) h2 Hzfn).
      rewrite Hzf2, G1 in W3'. rewrite lin_zeros in W3' by exact Hsa.
      apply W3'. rewrite (pure_length a k); auto; rewrite !firstn_length, ?get_length; unfold z; rewrite ?seq_length; lia. }
    (* second component *)
    assert (Hls : length (skipn k x) = length x - k) by apply skipn_length.
    assert (Hb3 : below (next h3) (skipn k x)) by (rewrite Hn3; eapply below_mono; [apply below_skipn; exact Hbx | lia]).
    assert (Hg3 : get h3 (skipn k x) = skipn k (get h x)).
    { rewrite <- get_skipn. transitivity (get h2 (skipn k x)).
      - apply (wrote_frame _ _ _ _ _ W3).
        + eapply below_mono; [apply below_skipn; exact Hbx | lia].
        + intros i Hi Hj; exact (Hxz i (In_skipn _ _ _ Hi) (In_firstn _ _ _ Hj)).
      - transitivity (get h1 (skipn k x)).
        + apply get_ext; intros i Hi; apply K1. pose proof (below_in _ _ _ Hbx (In_skipn _ _ _ Hi)); lia.
        + apply get_ext; intros i Hi. apply (get_eq_in _ _ _ Hg1). eapply In_skipn; exact Hi. }
    assert (Hd3 : diag_ok b (get h3 (skipn k x))) by (rewrite Hg3; exact Hdb).
    assert (Hw3 : wfop (length (skipn k x)) b) by (rewrite Hls; exact Hwb).
    pose proof (IHb h3 (skipn k x) Hd3 Hw3 Hb3) as Q2.
    destruct (run_oop b (skipn k x) h3) as [r2 h4]; unfold post_oop in Q2; cbn [fst snd] in Q2.
    destruct Q2 as (G2 & Qnd2 & Ql2 & Qb2 & Qa2 & K2 & N2). rewrite Hg3 in G2. rewrite Hn3 in *.
    exec.
    set (h5 := st2 (lin one one) (skipn k z) r2 (skipn k z) h4) in *.
    assert (Hn5 : next h5 = next h4) by apply st2_next.
    assert (Hzs4 : get h4 (skipn k z) = zeros_like (skipn k (get h x))).
    { transitivity (get h3 (skipn k z)).
      { apply get_ext; intros i Hi; apply K2. pose proof (below_in _ _ _ Hzb (In_skipn _ _ _ Hi)); lia. }
      transitivity (get h2 (skipn k z)).
      { apply (wrote_frame _ _ _ _ _ W3).
        - eapply below_mono; [apply below_skipn; exact Hzb | lia].
        - intros i Hi Hj; exact (Hzd i Hj Hi). }
      transitivity (get h1 (skipn k z)).
      { apply get_ext; intros i Hi; apply K1. pose proof (below_in _ _ _ Hzb (In_skipn _ _ _ Hi)); lia. }
      rewrite get_skipn, Hz1. unfold zeros_like, e1. apply skipn_map. }
    assert (W5 : wrote h4 h5 (skipn k z) (pure b (skipn k (get h x)))).
    { assert (W5' := st2_wrote (lin one one) (skipn k z) r2 (skipn k z) h4 Hzsn).
      rewrite Hzs4, G2 in W5'. rewrite lin_zeros in W5' by exact Hsb.
      apply W5'. rewrite (pure_length b (length x - k)); auto; rewrite !skipn_length, ?get_length; unfold z; rewrite ?seq_length; lia. }
    (* assemble *)
    unfold post_oop; cbn [fst snd].
    refine (conj _ (conj Hzn (conj _ (conj _ (conj Hza (conj _ _)))))).
    + rewrite <- (firstn_skipn k z) at 1. rewrite get_app. f_equal.
      * transitivity (get h4 (firstn k z)).
        { apply (wrote_frame _ _ _ _ _ W5).
          - eapply below_mono; [apply below_firstn; exact Hzb | lia].
          - exact Hzd. }
        transitivity (get h3 (firstn k z)).
        { apply get_ext; intros i Hi; apply K2. pose proof (below_in _ _ _ Hzb (In_firstn _ _ _ Hi)); lia. }
        apply (wrote_get _ _ _ _ W3).
      * apply (wrote_get _ _ _ _ W5).
    + unfold z; apply seq_length.
    + rewrite Hn5. eapply below_mono; [exact Hzb | lia].
    + intros i Hi.
      rewrite (wrote_mem _ _ _ _ i W5) by (try lia; intros Hj; pose proof (Hza i (In_skipn _ _ _ Hj)); lia).
      rewrite K2 by lia.
      rewrite (wrote_mem _ _ _ _ i W3) by (try lia; intros Hj; pose proof (Hza i (In_firstn _ _ _ Hj)); lia).
      rewrite K1 by lia.
      frv i; reflexivity.
    + lia.
Qed.
End Oop2.

(* ----------------------------------------------- statements used by Props.v *)
Section Final.
Context {T : Type} `{Num T} `{Sqrt T}.
Notation heap := (heap T).

Lemma aliased_gen (e : op T) (h : heap) (x : ref) :
  wfop (length x) e -> NoDup x -> below (next h) x ->
  get (run_ip e x x h) x = pure e (get h x)
  /\ (forall i, i < next h -> ~ In i x -> mem (run_ip e x x h) i = mem h i).
Proof.
  intros Hwf Hnd Hb.
  assert (P : pre h x x) by (unfold pre; auto 10).
  destruct (run_ip_ok e h x x Hwf P) as [A B _]. split; assumption.
Qed.

Lemma separate_gen (e : op T) (h : heap) (x out : ref) :
  wfop (length x) e -> NoDup out -> below (next h) x -> below (next h) out -> dis x out ->
  length x = length out ->
  get (run_ip e x out h) out = pure e (get h x)
  /\ get (run_ip e x out h) x = get h x
  /\ (forall i, i < next h -> ~ In i out -> mem (run_ip e x out h) i = mem h i).
Proof.
  intros Hwf Hnd Hbx Hbo Hd Hl.
  assert (P : pre h x out) by (unfold pre; auto 10).
  destruct (run_ip_ok e h x out Hwf P) as [A B _]. split; [exact A|]. split; [|exact B].
  apply get_ext; intros i Hi. apply B; [exact (below_in _ _ _ Hbx Hi) | intros Hj; exact (Hd i Hi Hj)].
Qed.

Hypothesis add_comm : forall a b : T, nadd a b = nadd b a.
Hypothesis mul_comm : forall a b : T, nmul a b = nmul b a.
Hypothesis add_zero : forall v : T, nadd (nmul one nzero) (nmul one v) = v.

Lemma oop_gen (e : op T) (h : heap) (x : ref) :
  diag_ok e (get h x) -> wfop (length x) e -> below (next h) x ->
  get (snd (run_oop e x h)) (fst (run_oop e x h)) = pure e (get h x)
  /\ above (next h) (fst (run_oop e x h))
  /\ (forall i, i < next h -> mem (snd (run_oop e x h)) i = mem h i).
Proof.
  intros Hnd Hwf Hb. destruct (run_oop_ok add_comm mul_comm add_zero e h x Hnd Hwf Hb) as (A & _ & _ & _ & B & C & _).
  auto.
Qed.

Lemma aliased_eq_oop_gen (e : op T) (h : heap) (x : ref) :
  diag_ok e (get h x) -> wfop (length x) e -> NoDup x -> below (next h) x ->
  get (run_ip e x x h) x = get (snd (run_oop e x h)) (fst (run_oop e x h)).
Proof.
  intros Hnd Hwf Hn Hb. destruct (aliased_gen e h x Hwf Hn Hb) as [A _].
  destruct (oop_gen e h x Hnd Hwf Hb) as [B _]. congruence.
Qed.
End Final.

(* the pattern of the aliased solver call sites (admm_linearized, prox_dca, doubleprox_dc):
     x.lincomb(a, x, b, d);  prox(x, out=x)         -- d another live element (gradient / adjoint image) *)
Section Site.
Context {T : Type} `{Num T} `{Sqrt T}.
Definition solver_step (e : op T) (a b : T) (x d : ref) (h : heap T) : heap T :=
  run_ip e x x (st2 (lin a b) x d x h).
Lemma solver_step_gen (e : op T) (a b : T) (h : heap T) (x d : ref) :
  wfop (length x) e -> NoDup x -> below (next h) x -> below (next h) d -> dis d x ->
  get (solver_step e a b x d h) x = pure e (lin a b (get h x) (get h d))
  /\ get (solver_step e a b x d h) d = get h d.
Proof.
  intros Hwf Hnd Hbx Hbd Hdx. unfold solver_step.
  assert (W : wrote h (st2 (lin a b) x d x h) x (lin a b (get h x) (get h d))).
  { apply st2_wrote; [exact Hnd | autorewrite with len; reflexivity]. }
  set (h1 := st2 (lin a b) x d x h) in *.
  assert (N1 : next h1 = next h) by apply st2_next.
  assert (P : pre h1 x x) by (unfold pre; rewrite N1; auto 10).
  destruct (run_ip_ok e h1 x x Hwf P) as [A B _]. split.
  - rewrite A, (wrote_get _ _ _ _ W). reflexivity.
  - transitivity (get h1 d).
    + apply get_ext; intros i Hi. apply B; [rewrite N1; eapply below_in; eauto | intros Hj; exact (Hdx i Hi Hj)].
    + apply (wrote_frame _ _ _ _ _ W); assumption.
Qed.
End Site.

(* ------------------------------------------------------------- instances at R *)
Lemma R_add_zero : forall v : R, (1 * 0 + 1 * v = v)%R.
Proof. intros; ring. Qed.
Lemma l1_alias_R (lam : R) (sigma : sval R) (g : option (list (list R))) (h : heap R) (x : ref) :
  NoDup x -> below (next h) x -> get (call_l1 lam sigma g x x h) x = pure_l1 lam sigma g (get h x).
Proof. intros Hn Hb; exact (proj1 (aliased_gen (OLeaf (LL1 lam sigma g)) h x I Hn Hb)). Qed.
Lemma l1l2_alias_R (lam sigma : R) (g : option (list (list R))) (h : heap R) (x : ref) :
  NoDup x -> below (next h) x -> get (call_l1l2 lam sigma g x x h) x = pure_l1l2 lam sigma g (get h x).
Proof. intros Hn Hb; exact (proj1 (aliased_gen (OLeaf (LL1L2 lam sigma g)) h x I Hn Hb)). Qed.
Lemma cc_alias_R (sigma inv_sigma : sval R) (prox : op R) (h : heap R) (x : ref) :
  wfop (length x) prox -> NoDup x -> below (next h) x ->
  get (run_ip (o_convex_conj sigma inv_sigma prox) x x h) x
  = lin 1%R 1%R (scal (- 1)%R (mult_val sigma (pure prox (mult_val inv_sigma (get h x))))) (scal 1%R (get h x)).
Proof.
  intros Hw Hn Hb.
  exact (proj1 (aliased_gen (o_convex_conj sigma inv_sigma prox) h x (conj I (conj (conj I Hw) I)) Hn Hb)).
Qed.
Lemma hyps_sat_R :
  let e : op R := o_convex_conj (Sc 2%R) (Sc (/ 2)%R) (OLeaf (LL1 1%R (Sc 1%R) (Some [[1%R; 2%R]]))) in
  let h : heap R := mkH (fun _ => [0%R; 0%R]) 1 in
  wfop (length [0%nat]) e /\ NoDup [0%nat] /\ below (next h) [0%nat] /\ diag_ok e (get h [0%nat]).
Proof. cbn. repeat split; auto. constructor; [intros []|constructor]. repeat constructor. Qed.
Lemma diag_sat_R :
  let e : op R := ODiag 1 (OLeaf (LL1 1%R (Sc 1%R) None)) (OLeaf (LBox (BSc 0%R) BNone)) in
  let v : list (list R) := [[1%R; 2%R]; [3%R]] in
  wfop 2 e /\ diag_ok e v.
Proof. cbn. repeat split; auto. Qed.
