(* C10/Proofs.v -- operator trees. *)
From Coq Require Import ZArith Reals Lra Lia List Bool Arith.
From Verif Require Import Base.Num Base.Vec C10.Model C10.HeapLemmas C10.Leaves.
Import ListNotations.
