(* C10/Proofs.v -- operator trees: structural induction over the nine
   operator-arithmetic classes and DiagonalOperator, for every heap. *)
From Coq Require Import ZArith Reals Lra Lia List Bool Arith.
From Verif Require Import Base.Num Base.Vec C10.Model C10.HeapLemmas C10.Leaves C10.Leaves2 C10.Leaves3.
Import ListNotations.

Section Tree.
Context {T : Type} `{Num T} `{Sqrt T}.
Notation heap := (heap T).
Notation val := (list (list T)).

Fixpoint wfop (n : nat) (e : op T) : Prop :=
  match e with
  | OLeaf l => wf_leaf n l
  | OSum a b | OComp a b | OPw a b => wfop n a /\ wfop n b
  | OVecSum a _ | OLScal a _ | ORScal a _ | OLVec a _ | ORVec a _ => wfop n a
  | ODiag k a b => k <= n /\ wfop k a /\ wfop (n - k) b
  end.

Lemma pure_length (e : op T) : forall n v, wfop n e -> length v = n -> length (pure e v) = n.
Proof.
  induction e; intros n w Hwf Hl; cbn [pure wfop] in *;
    try (destruct Hwf as [Hwa Hwb]); autorewrite with len; eauto using leaf_pure_length.
  - apply IHe. exact Hwf. autorewrite with len; exact Hl.
  - apply IHe. exact Hwf. autorewrite with len; exact Hl.
  - destruct Hwb as [Hwb Hwc].
    rewrite (IHe1 k), (IHe2 (n - k)); auto; autorewrite with len; lia.
Qed.

(* sublists of refs *)
Lemma NoDup_app_inv (a b : ref) : NoDup (a ++ b) -> NoDup a /\ NoDup b /\ dis a b.
Proof.
  induction a as [|u a IH]; cbn; intros Hnd.
  - split; [constructor|]. split; [exact Hnd|]. intros i [].
  - inversion Hnd as [|? ? Hni Hnd']; subst. destruct (IH Hnd') as (Ha & Hb & Hd).
    split; [constructor; [intros Hi; apply Hni, in_or_app; left; exact Hi | exact Ha]|].
    split; [exact Hb|]. intros i [->|Hi] Hj.
    + apply Hni, in_or_app; right; exact Hj.
    + exact (Hd i Hi Hj).
Qed.
Lemma NoDup_firstn_skipn (k : nat) (r : ref) : NoDup r ->
  NoDup (firstn k r) /\ NoDup (skipn k r) /\ dis (firstn k r) (skipn k r).
Proof. intros Hnd. apply NoDup_app_inv. rewrite firstn_skipn. exact Hnd. Qed.
Lemma dis_sub (a b a' b' : ref) : dis a b -> (forall i, In i a' -> In i a) -> (forall i, In i b' -> In i b) -> dis a' b'.
Proof. intros Hd Ha Hb i Hi Hj; exact (Hd i (Ha i Hi) (Hb i Hj)). Qed.

Lemma pre_firstn (h : heap) k x out : pre h x out -> pre h (firstn k x) (firstn k out).
Proof.
  intros (Hnd & Hbx & Hbo & Hal & Hl). repeat split.
  - apply NoDup_firstn_skipn; exact Hnd.
  - apply below_firstn; exact Hbx.
  - apply below_firstn; exact Hbo.
  - destruct Hal as [->|Hd]; [left; reflexivity | right]. eapply dis_sub; [exact Hd | |]; intros i; apply In_firstn.
  - rewrite !firstn_length; lia.
Qed.
Lemma pre_skipn (h : heap) k x out : pre h x out -> pre h (skipn k x) (skipn k out).
Proof.
  intros (Hnd & Hbx & Hbo & Hal & Hl). repeat split.
  - apply NoDup_firstn_skipn; exact Hnd.
  - apply below_skipn; exact Hbx.
  - apply below_skipn; exact Hbo.
  - destruct Hal as [->|Hd]; [left; reflexivity | right]. eapply dis_sub; [exact Hd | |]; intros i; apply In_skipn.
  - rewrite !skipn_length; lia.
Qed.
Lemma pre_mono (h h' : heap) x out : pre h x out -> next h <= next h' -> pre h' x out.
Proof.
  intros (Hnd & Hbx & Hbo & Hal & Hl) Hle. repeat split; auto; eapply below_mono; eauto.
Qed.
End Tree.

(* use an induction hypothesis about run_ip as one symbolic step *)
Ltac absorb_ip IH :=
  match goal with
  | |- context [run_ip ?a ?x ?o ?hv] => is_var hv;
      let hn := fresh "h" in let W := fresh "W" in let N := fresh "N" in let P := fresh "P" in
      let Wf := fresh "Wf" in
      assert (P : pre hv x o) by pre_tac;
      assert (Wf : wfop (length x) a) by (autorewrite with len; first [assumption | congruence]);
      pose proof (post_wrote _ _ _ _ (IH hv x o Wf P)) as W;
      pose proof (post_next _ _ _ _ (IH hv x o Wf P)) as N;
      set (hn := run_ip a x o hv) in *; clearbody hn;
      generalize dependent (next hn - next hv); intros ? N; nxt; clear P Wf
  end.

Section Tree2.
Context {T : Type} `{Num T} `{Sqrt T}.
Notation heap := (heap T).
Notation val := (list (list T)).

Theorem run_ip_ok (e : op T) : forall (h : heap) x out, wfop (length x) e -> pre h x out ->
  post h (run_ip e x out h) out (pure e (get h x)).
Proof.
  induction e as [l | a IHa b IHb | a IHa v | a IHa b IHb | a IHa b IHb | a IHa s | a IHa s | a IHa v | a IHa v
                 | k a IHa b IHb]; intros h x out Hwf Hpre; cbn [run_ip pure wfop] in *.
  - apply leaf_ok; assumption.
  - destruct Hwf as [Hwa Hwb]. split_alias Hpre; try rewrite Hl in *; exec; absorb1; absorb_ip IHa; absorb_ip IHb; absorb; finish.
  - split_alias Hpre; try rewrite Hl in *; exec; absorb_ip IHa; absorb; finish.
  - destruct Hwf as [Hwa Hwb]. split_alias Hpre; try rewrite Hl in *; exec; absorb1; absorb_ip IHb; absorb_ip IHa; absorb; finish.
  - destruct Hwf as [Hwa Hwb]. split_alias Hpre; try rewrite Hl in *; exec; absorb1; absorb_ip IHa; absorb_ip IHb; absorb; finish.
  - split_alias Hpre; try rewrite Hl in *; exec; absorb_ip IHa; absorb; finish.
  - split_alias Hpre; try rewrite Hl in *; exec; absorb1; absorb1; absorb_ip IHa; absorb; finish.
  - split_alias Hpre; try rewrite Hl in *; exec; absorb_ip IHa; absorb; finish.
  - split_alias Hpre; try rewrite Hl in *; exec; absorb1; absorb1; absorb_ip IHa; absorb; finish.
  - destruct Hwf as (Hk & Hwa & Hwb).
    pose proof Hpre as (Hnd & Hbx & Hbo & Hal & Hl).
    destruct (NoDup_firstn_skipn k out Hnd) as (Hnf & Hns & Hdfs).
    assert (Hlf : length (firstn k x) = k) by (rewrite firstn_length; lia).
    assert (Hls : length (skipn k x) = length x - k) by apply skipn_length.
    assert (Hwa' : wfop (length (firstn k x)) a) by (rewrite Hlf; exact Hwa).
    assert (Hwb' : wfop (length (skipn k x)) b) by (rewrite Hls; exact Hwb).
    pose proof (IHa h (firstn k x) (firstn k out) Hwa' (pre_firstn h k x out Hpre)) as [A1 A2 A3].
    set (h1 := run_ip a (firstn k x) (firstn k out) h) in *.
    assert (Hp1 : pre h1 (skipn k x) (skipn k out)) by (eapply pre_mono; [apply pre_skipn; exact Hpre | exact A3]).
    pose proof (IHb h1 (skipn k x) (skipn k out) Hwb' Hp1) as [B1 B2 B3].
    set (h2 := run_ip b (skipn k x) (skipn k out) h1) in *.
    assert (Hx2 : get h1 (skipn k x) = get h (skipn k x)).
    { apply get_ext; intros i Hi. apply A2.
      - eapply below_in; [apply below_skipn; exact Hbx | exact Hi].
      - intros Hj. destruct Hal as [->|Hd].
        + exact (Hdfs i Hj Hi).
        + apply (Hd i); [eapply In_skipn; eauto | eapply In_firstn; eauto]. }
    split.
    + rewrite <- (firstn_skipn k out) at 1. rewrite get_app. f_equal.
      * rewrite <- get_firstn, <- A1. apply get_ext; intros i Hi. apply B2.
        -- assert (i < next h) by (eapply below_in; [apply below_firstn; exact Hbo | exact Hi]). lia.
        -- intros Hj; exact (Hdfs i Hi Hj).
      * rewrite B1, Hx2, get_skipn. reflexivity.
    + intros i Hi Hni. rewrite B2, A2; auto.
      * intros Hj; apply Hni; eapply In_firstn; eauto.
      * lia.
      * intros Hj; apply Hni; eapply In_skipn; eauto.
    + lia.
Qed.
End Tree2.
