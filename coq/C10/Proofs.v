(* C10/Proofs.v -- lemmas about the heap model. *)
From Coq Require Import ZArith Reals Lra Lia List Bool Arith.
From Verif Require Import Base.Num Base.Vec C10.Model.
Import ListNotations.

Global Instance Sqrt_R : Sqrt R := {| nsqrt := sqrt |}.
