(* C10/Prims.v -- heap, primitives and value algebra used by the heap-level transcription of the `_call` bodies of
   odl/solvers/nonsmooth/proximal_operators.py (with their `x is out` tests and
   temporaries), of the in-place / out-of-place `_call`s of the operator
   arithmetic classes of odl/operator/operator.py, of the default operators the
   proximal factories and solvers combine them with, and of DiagonalOperator.
   Executable definitions only (run at Q by the correspondence shards, proved
   at R in Proofs.v).

   Heap: buffer id -> flat array.  An element of a (possibly nested product)
   space is the list of the ids of its leaf arrays ([ref]); `x is out` is
   equality of refs.  `space.element()` is [fresh]: it only bumps the
   allocation counter, so a new buffer contains WHATEVER the heap function had
   there (arbitrary garbage of arbitrary length).
   Every library primitive (lincomb, multiply, divide, assign, ufunc with out=,
   augmented assignment) is "read all operands, then write out": [st1]/[st2].
   Operator parameters (g, element-valued sigma, bounds, translation vectors)
   are values, not heap cells. *)
From Coq Require Import ZArith List Bool Arith.
From Verif Require Import Base.Num Base.Vec.
Import ListNotations.
Local Open Scope num_scope.

Class Sqrt (T : Type) := { nsqrt : T -> T }.

Section M.
Context {T : Type} `{Num T} `{Sqrt T}.

(* ------------------------------------------------------------------ heap *)
Record heap := mkH { mem : nat -> list T; next : nat }.
Definition ref := list nat.
Definition val := list (list T).

Definition write (i : nat) (v : list T) (h : heap) : heap :=
  mkH (fun j => if Nat.eqb j i then v else mem h j) (next h).
Definition get (h : heap) (r : ref) : val := map (mem h) r.
Fixpoint put (r : ref) (v : val) (h : heap) : heap :=
  match r, v with
  | i :: r', a :: v' => put r' v' (write i a h)
  | _, _ => h
  end.
Definition bump (n : nat) (h : heap) : heap := mkH (mem h) (next h + n).
Definition fresh (n : nat) (h : heap) : ref * heap := (seq (next h) n, bump n h).
Definition ref_eqb (a b : ref) : bool := if list_eq_dec Nat.eq_dec a b then true else false.

(* primitives: read the operands, then write [out] *)
Definition st0 (V : val) (out : ref) (h : heap) : heap := put out V h.
Definition st1 (F : val -> val) (x out : ref) (h : heap) : heap := put out (F (get h x)) h.
Definition st2 (F : val -> val -> val) (x y out : ref) (h : heap) : heap :=
  put out (F (get h x) (get h y)) h.
(* x.copy() *)
Definition copy (x : ref) (h : heap) : ref * heap :=
  let '(t, h1) := fresh (length x) h in (t, st1 (fun a => a) x t h1).

(* ----------------------------------------------------- value-level algebra *)
(* part-wise zip: the shape (number of parts) is that of the first operand *)
Fixpoint pzip (f : list T -> list T -> list T) (a b : val) : val :=
  match a with
  | [] => []
  | u :: a' => f u (hd [] b) :: pzip f a' (tl b)
  end.
Definition e1 (f : T -> T) : val -> val := map (map f).
Definition e2 (f : T -> T -> T) : val -> val -> val := pzip (vmap2 f).
Definition lin (a b : T) : val -> val -> val := e2 (fun u v => a * u + b * v).
Definition scal (a : T) : val -> val := e1 (fun u => a * u).
Definition zeros_like : val -> val := e1 (fun _ => nzero).
Definition one : T := none_.
Definition two : T := of_Z 2.
Definition four : T := of_Z 4.
Definition half : T := ndiv (of_Z 1) (of_Z 2).

(* scalar-or-element step, optional bounds *)
Inductive sval := Sc (s : T) | El (v : val).
Inductive bound := BNone | BSc (c : T) | BEl (v : val).

Definition sval_scale (s : sval) (c : T) : sval :=      (* self.sigma * lam *)
  match s with Sc a => Sc (a * c) | El v => El (scal c v) end.
Definition idiv_sval (d : val) (s : sval) : val :=        (* d /= s *)
  match s with Sc c => scal (one / c) d | El v => e2 ndiv d v end.
Definition max_bound (a : val) (b : bound) : val :=
  match b with BNone => a | BSc c => e1 (fun u => nmax u c) a | BEl v => e2 nmax a v end.
Definition min_bound (a : val) (b : bound) : val :=
  match b with BNone => a | BSc c => e1 (fun u => nmin u c) a | BEl v => e2 nmin a v end.

(* x.norm() on a space whose inner product is  w * sum x_i y_i  *)
Definition sumsq (v : val) : T := sumf (map (fun a => dot a a) v).
Definition norm2 (w : T) (v : val) : T := nsqrt (w * sumsq v).

(* PointwiseNorm(vfspace, exponent=2) on an unweighted power space *)
Definition sq (a : list T) : list T := vmap2 nmul a a.
Definition pwnorm2 (v : val) : list T :=
  match v with
  | [] => []
  | [a] => map nabs a
  | a :: rest => map (fun s => nsqrt (nabs s)) (fold_left (fun acc b => vmap2 nadd acc (sq b)) rest (sq a))
  end.

(* proj_simplex: sort descending, running averages, last index with crit >= 0 *)
Fixpoint ins_desc (a : T) (l : list T) : list T :=
  match l with
  | [] => [a]
  | b :: l' => if b <=? a then a :: l else b :: ins_desc a l'
  end.
Definition sort_desc (l : list T) : list T := fold_right ins_desc [] l.
(* walk the sorted list with cumulative sum and 1-based index, keep the last avrg with crit >= 0 *)
Fixpoint simplex_tau (d : T) (l : list T) (cum : T) (j : Z) (best : T) : T :=
  match l with
  | [] => best
  | a :: l' =>
      let cum' := cum + a in
      let av := (one / of_Z j) * (cum' - d) in
      let best' := if nzero <=? a - av then av else best in
      simplex_tau d l' cum' (j + 1)%Z best'
  end.
Definition simplex_val (d : T) (v : val) : val :=
  let tau := simplex_tau d (sort_desc (concat v)) nzero 1%Z nzero in
  e1 (fun u => nmax (u - tau) nzero) v.
Definition sum_all (v : val) : T := sumf (concat v).


(* x - g  (LinearSpaceElement.__sub__): tmp = space.element(); lincomb(1, x, -1, g, out=tmp) *)
Definition sub_param (x : ref) (g : val) (h : heap) : ref * heap :=
  let '(t, h1) := fresh (length x) h in (t, st1 (fun a => lin one (- one) a g) x t h1).

(* for out_i, src_i in zip(out, src): src_i.divide|multiply(d, out=out_i)   -- sequential over the parts *)
Definition zip_loop (f : T -> T -> T) (out src d : ref) (h : heap) : heap :=
  fold_left (fun h' od => st2 (e2 f) [snd od] d [fst od] h') (combine out src) h.
(* PointwiseNorm(vfspace, exponent=2)(diff): out-of-place call, fresh base-space element *)
Definition pwnorm_call (diff : ref) (h : heap) : ref * heap :=
  let '(t, h1) := fresh 1 h in (t, st1 (fun a => [pwnorm2 a]) diff t h1).

Definition mult_val (m : sval) (a : val) : val :=
  match m with Sc c => scal c a | El v => e2 (fun u w => w * u) a v end.
Definition bnd_is (b : bound) : bool := match b with BNone => false | _ => true end.
Definition nsize (v : val) : T := sumf (map (fun _ => one) (concat v)).      (* x.size *)

(* element arithmetic producing a new element *)
Definition bin_new (F : val -> val -> val) (a b : ref) (h : heap) : ref * heap :=
  let '(t, h1) := fresh (length a) h in (t, st2 F a b t h1).
Definition un_new (F : val -> val) (a : ref) (h : heap) : ref * heap :=
  let '(t, h1) := fresh (length a) h in (t, st1 F a t h1).
Definition const_new (V : val) (n : nat) (h : heap) : ref * heap :=
  let '(t, h1) := fresh n h in (t, st0 V t h1).
End M.

Arguments heap : clear implicits.
Arguments sval : clear implicits.
Arguments bound : clear implicits.
