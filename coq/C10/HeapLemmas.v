(* C10/HeapLemmas.v -- base lemmas about the heap model and the symbolic-execution tactics.  Almost everything is proved
   for an ARBITRARY carrier (any Num / Sqrt instance): the aliasing argument
   never uses an arithmetic law.  Only Huber's in-place masks need the order
   on R. *)
From Coq Require Import ZArith Reals Lra Lia List Bool Arith.
From Verif Require Import Base.Num Base.Vec C10.Model.
Import ListNotations.

Global Instance Sqrt_R : Sqrt R := {| nsqrt := sqrt |}.

Section G.
Context {T : Type} `{Num T} `{Sqrt T}.
Notation heap := (heap T).
Notation val := (list (list T)).

Definition below (N : nat) (r : ref) : Prop := Forall (fun i => i < N) r.
Definition dis (a b : ref) : Prop := forall i, In i a -> In i b -> False.

Definition above (N : nat) (r : ref) : Prop := forall i, In i r -> N <= i.
Lemma above_in N r i : above N r -> In i r -> N <= i.
Proof. intros Ha; apply Ha. Qed.
Lemma above_seq a n N : N <= a -> above N (seq a n).
Proof. intros Hle i Hi; apply in_seq in Hi; lia. Qed.
Lemma above_mono N M r : above N r -> M <= N -> above M r.
Proof. intros Ha Hle i Hi; specialize (Ha i Hi); lia. Qed.
Lemma below_in N r i : below N r -> In i r -> i < N.
Proof. unfold below; rewrite Forall_forall; auto. Qed.
Lemma below_mono N M r : below N r -> N <= M -> below M r.
Proof. unfold below; rewrite !Forall_forall; intros Hb Hle i Hi; specialize (Hb i Hi); lia. Qed.
Lemma dis_sym a b : dis a b -> dis b a.
Proof. unfold dis; firstorder. Qed.
Lemma below_seq a n N : a + n <= N -> below N (seq a n).
Proof. unfold below; rewrite Forall_forall; intros Hle i Hi; apply in_seq in Hi; lia. Qed.
Lemma In_firstn {A} (k : nat) (l : list A) a : In a (firstn k l) -> In a l.
Proof. revert l; induction k as [|k IH]; intros [|b l] Hi; cbn in *; try contradiction. destruct Hi as [Hi|Hi]; [left; exact Hi | right; apply IH; exact Hi]. Qed.
Lemma In_skipn {A} (k : nat) (l : list A) a : In a (skipn k l) -> In a l.
Proof. revert l; induction k as [|k IH]; intros [|b l] Hi; cbn in *; auto. Qed.
Lemma below_firstn N k r : below N r -> below N (firstn k r).
Proof. unfold below; rewrite !Forall_forall; intros Hb i Hi; apply Hb; eapply In_firstn; eauto. Qed.
Lemma below_skipn N k r : below N r -> below N (skipn k r).
Proof. unfold below; rewrite !Forall_forall; intros Hb i Hi; apply Hb; eapply In_skipn; eauto. Qed.

(* ---- memory *)
Lemma mem_write_same i v (h : heap) : mem (write i v h) i = v.
Proof. cbn. rewrite Nat.eqb_refl. reflexivity. Qed.
Lemma mem_write_other i j v (h : heap) : j <> i -> mem (write i v h) j = mem h j.
Proof. intros Hne; cbn. destruct (Nat.eqb_spec j i); congruence. Qed.
Lemma next_put r v (h : heap) : next (put r v h) = next h.
Proof. revert v h; induction r as [|i r IH]; intros [|a v] h; cbn [put]; auto. rewrite IH; reflexivity. Qed.
Lemma mem_put_notin r v (h : heap) i : ~ In i r -> mem (put r v h) i = mem h i.
Proof.
  revert v h; induction r as [|j r IH]; intros [|a v] h Hni; cbn [put]; auto.
  rewrite IH by (intros Hi; apply Hni; right; exact Hi).
  apply mem_write_other. intros ->; apply Hni; left; reflexivity.
Qed.
Lemma get_length (h : heap) r : length (get h r) = length r.
Proof. apply map_length. Qed.
Lemma get_ext (h1 h2 : heap) r : (forall i, In i r -> mem h1 i = mem h2 i) -> get h1 r = get h2 r.
Proof. intros Hext; apply map_ext_in; exact Hext. Qed.
Lemma get_put_same r v (h : heap) : NoDup r -> length v = length r -> get (put r v h) r = v.
Proof.
  revert v h; induction r as [|i r IH]; intros [|a v] h Hnd Hl; cbn in Hl; try discriminate; [reflexivity|].
  inversion Hnd as [|? ? Hni Hnd']; subst. cbn [put get map].
  f_equal.
  - rewrite mem_put_notin by exact Hni. apply mem_write_same.
  - apply IH; [exact Hnd' | congruence].
Qed.
Lemma get_put_dis r r' v (h : heap) : dis r' r -> get (put r v h) r' = get h r'.
Proof. intros Hd; apply get_ext; intros i Hi; apply mem_put_notin; intros Hj; exact (Hd i Hi Hj). Qed.
Lemma get_mkH (h : heap) n r : get (mkH (mem h) n) r = get h r.
Proof. reflexivity. Qed.
Lemma get_app (h : heap) a b : get h (a ++ b) = get h a ++ get h b.
Proof. apply map_app. Qed.
Lemma get_firstn (h : heap) k r : get h (firstn k r) = firstn k (get h r).
Proof. unfold get; symmetry; apply firstn_map. Qed.
Lemma get_skipn (h : heap) k r : get h (skipn k r) = skipn k (get h r).
Proof. unfold get; symmetry; apply skipn_map. Qed.

Lemma ref_eqb_refl r : ref_eqb r r = true.
Proof. unfold ref_eqb; destruct (list_eq_dec Nat.eq_dec r r); congruence. Qed.
Lemma ref_eqb_neq a b : a <> b -> ref_eqb a b = false.
Proof. unfold ref_eqb; destruct (list_eq_dec Nat.eq_dec a b); congruence. Qed.

(* ---- lengths of value-level operations *)
Lemma pzip_length f (a b : val) : length (pzip f a b) = length a.
Proof. revert b; induction a as [|u a IH]; intros b; cbn; auto. Qed.
Lemma e1_length f (a : val) : length (e1 f a) = length a.
Proof. apply map_length. Qed.
Lemma e2_length f (a b : val) : length (e2 f a b) = length a.
Proof. apply pzip_length. Qed.
Lemma lin_length a b (u v : val) : length (lin a b u v) = length u.
Proof. apply pzip_length. Qed.
Lemma scal_length a (u : val) : length (scal a u) = length u.
Proof. apply map_length. Qed.
Lemma zeros_like_length (u : val) : length (zeros_like u) = length u.
Proof. apply map_length. Qed.
Lemma idiv_sval_length (d : val) s : length (idiv_sval d s) = length d.
Proof. destruct s; cbn; [apply scal_length | apply e2_length]. Qed.
Lemma max_bound_length (a : val) b : length (max_bound a b) = length a.
Proof. destruct b; cbn; auto using e1_length, e2_length. Qed.
Lemma min_bound_length (a : val) b : length (min_bound a b) = length a.
Proof. destruct b; cbn; auto using e1_length, e2_length. Qed.
Lemma mult_val_length m (a : val) : length (mult_val m a) = length a.
Proof. destruct m; cbn; auto using scal_length, e2_length. Qed.
Lemma simplex_val_length d (v : val) : length (simplex_val d v) = length v.
Proof. apply map_length. Qed.
Lemma bzip_length f (v : val) d : length (bzip f v d) = length v.
Proof. apply map_length. Qed.
Lemma bdiv_length (v : val) d : length (bdiv v d) = length v.
Proof. apply map_length. Qed.
End G.

#[export] Hint Rewrite @get_length @pzip_length @e1_length @e2_length @lin_length @scal_length
  @zeros_like_length @idiv_sval_length @max_bound_length @min_bound_length @mult_val_length
  @simplex_val_length @bdiv_length @bzip_length seq_length map_length firstn_length skipn_length
  app_length : len.

(* ------------------------------------------------------------ automation *)
Ltac nx := repeat first [ rewrite next_put | progress cbn [next] ].
Ltac in_arith i :=
  repeat match goal with
  | Hi : In i (seq _ _) |- _ => apply in_seq in Hi
  | Hb : below _ ?r, Ha : above _ ?r, Hi : In i ?r |- _ =>
      pose proof (below_in _ _ _ Hb Hi); pose proof (above_in _ _ _ Ha Hi); clear Hi
  | Hb : below _ ?r, Hi : In i ?r |- _ => pose proof (below_in _ _ _ Hb Hi); clear Hi
  end.
Ltac dis_tac :=
  first [ assumption | apply dis_sym; assumption
        | let i := fresh "i" in let H1 := fresh "H1" in let H2 := fresh "H2" in
          intros i H1 H2; nx; in_arith i; autorewrite with len in *; lia ].
Ltac len_tac := nx; autorewrite with len; first [ reflexivity | assumption | lia | congruence ].
Ltac sd := first [ assumption | apply seq_NoDup | len_tac | dis_tac ].
Ltac notin_tac i :=
  first [ assumption
        | let Hi := fresh "Hi" in intros Hi; nx; in_arith i; autorewrite with len in *; lia ].
(* symbolic execution of reads *)
Ltac rd := repeat first [ rewrite get_mkH
                        | rewrite get_put_same by sd
                        | rewrite get_put_dis by sd ].
