(* C10/Refuted.v -- the theorem is not true of arbitrary code: the transcription of
   ProximalL1._call as it was BEFORE fix dd7df25 (the copy taken for the aliased case was not
   the one used by the final lincomb) violates it.  Kept as evidence that the heap model
   sees exactly this class of defect; the current code (Model.call_l1) is proved correct. *)
From Coq Require Import ZArith QArith List Bool.
From Verif Require Import Base.Num Base.Vec Base.Check C10.Model C10.Corr.
Import ListNotations.

Definition call_l1_before_fix (lam : Q) (sigma : sval Q) (g : option (list (list Q))) (x out : ref) (h : heap Q) : heap Q :=
  let '(diff, h2) := match g with
                     | Some gv => sub_param x gv h                                  (* diff = x - g *)
                     | None => if ref_eqb x out then copy x h else (x, h)           (* diff = x.copy() / diff = x *)
                     end in
  let '(denom, h3) := fresh (length diff) h2 in
  let h4 := st1 (e1 nabs) diff denom h3 in
  let h5 := st1 (fun d => idiv_sval d (sval_scale sigma lam)) denom denom h4 in
  let h6 := st1 (e1 (fun u => nmax u one)) denom denom h5 in
  let h7 := st2 (e2 ndiv) diff denom out h6 in
  st2 (lin one (- one)%num) x out out h7.                                           (* out.lincomb(1, x, -1, out): x IS out *)

(* aliased call of the old code: x - x = 0 instead of the soft-thresholded value *)
Lemma old_prox_l1_aliased_refuted :
  exists (lam : Q) (sigma : sval Q) (g : option (list (list Q))) (h : heap Q) (x : ref),
    NoDup x /\ Forall (fun i => (i < next h)%nat) x /\
    Qssclose 0 0 (get (call_l1_before_fix lam sigma g x x h) x) (pure_l1 lam sigma g (get h x)) = false.
Proof.
  exists 1%Q, (Sc 1%Q), None, (mkH (fun _ => [3 # 1; (-1) # 2]%Q) 1), [0%nat].
  split; [repeat constructor; intros [] | split; [repeat constructor | vm_compute; reflexivity]].
Qed.
(* ... while the non-aliased call of the old code was fine, which is why the test-suite never saw it *)
Lemma old_prox_l1_separate_fine :
  let h := mkH (fun _ => [3 # 1; (-1) # 2]%Q) 2 in
  Qssclose 0 0 (get (call_l1_before_fix 1 (Sc 1%Q) None [0%nat] [1%nat] h) [1%nat]) (pure_l1 1 (Sc 1%Q) None (get h [0%nat])) = true.
Proof. vm_compute; reflexivity. Qed.
(* and the current code on the same input *)
Lemma current_prox_l1_same_input :
  let h := mkH (fun _ => [3 # 1; (-1) # 2]%Q) 1 in
  Qssclose 0 0 (get (call_l1 1 (Sc 1%Q) None [0%nat] [0%nat] h) [0%nat]) (pure_l1 1 (Sc 1%Q) None (get h [0%nat])) = true.
Proof. vm_compute; reflexivity. Qed.
