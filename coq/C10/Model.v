(* C10/Model.v -- the model of C10.
   The heap-level programs of the `_call` bodies are NOT written here: they are regenerated from the
   source on every run by translate/prox_calls.py into Gen/ProxCalls.v (every `_call` of
   proximal_operators.py with its `x is out` tests, copies and temporaries, `proj_l1`, the proximal
   classes of IndicatorSimplex / IndicatorSumConstraint, both bodies of the nine expression classes of
   operator.py and of Scaling/Zero/Constant/MultiplyOperator).  This file only
     - names the operator classes and their parameters ([leaf], [op]) and dispatches to the generated programs,
     - adds the three hand-written programs that have no translatable source body: dense MatrixOperator
       (`matrix.dot(x, out=)`), the default in-place bridge for operators without `out` (`LFun`), and the
       row loop of DiagonalOperator,
     - defines the value-level meaning [pure] the theorems compare the programs with.
   Heap, primitives and value algebra: C10/Prims.v. *)
From Coq Require Import ZArith List Bool Arith.
From Verif Require Import Base.Num Base.Vec.
From Verif Require Export C10.Prims Gen.ProxCalls.
Import ListNotations.
Local Open Scope num_scope.

Section M.
Context {T : Type} `{Num T} `{Sqrt T}.
Notation heap := (heap T).
Notation sval := (sval T).
Notation bound := (bound T).
Notation val := (list (list T)).

(* ------------------------------------------------------------- the leaves *)
Inductive leaf :=
| LBox (lo hi : bound)                                  (* proximal_box_constraint / nonnegativity *)
| LL2 (w e1p lam sigma : T) (g : option val)            (* proximal_l2; e1p = 1 + eps *)
| LCCL2Sq (lam : T) (sigma : sval) (g : option val)     (* proximal_convex_conj_l2_squared *)
| LL2Sq (lam : T) (sigma : sval) (g : option val)       (* proximal_l2_squared *)
| LCCL1 (lam : T) (sigma : sval) (g : option val)       (* proximal_convex_conj_l1; lam already * (1-eps) *)
| LCCL1L2 (lam sigma : T) (g : option val)              (* proximal_convex_conj_l1_l2 *)
| LL1 (lam : T) (sigma : sval) (g : option val)         (* proximal_l1 *)
| LL1L2 (lam sigma : T) (g : option val)                (* proximal_l1_l2 *)
| LLinf (sigma : T)                                     (* proximal_linfty *)
| LCCLinf                                               (* proximal_convex_conj_linfty *)
| LCCKL (lam sigma : T) (g : option val)                (* proximal_convex_conj_kl *)
| LCCKLCE (lam : T) (W : val -> val)                    (* proximal_convex_conj_kl_cross_entropy; W = lambertw(...) opaque *)
| LHuber (pspace : bool) (gamma sigma : T)              (* proximal_huber; pspace = domain is a ProductSpace *)
| LSimplex (diam : T)                                   (* IndicatorSimplex.proximal *)
| LSumC (sum_value : T)                                 (* IndicatorSumConstraint.proximal *)
| LScaling (s : T)                                      (* ScalingOperator / IdentityOperator *)
| LZero                                                 (* ZeroOperator (domain = range) *)
| LConst (c : val)                                      (* ConstantOperator *)
| LMult (m : sval)                                      (* MultiplyOperator *)
| LMat (m : list (list T))                              (* MatrixOperator (dense, 1-d range; may be non-square inside a composition) *)
| LFun (F : val -> val).                                (* any operator whose _call has no `out` (e.g. NuclearNorm proximal): F opaque *)

Definition leaf_ip (l : leaf) (x out : ref) (h : heap) : heap :=
  match l with
  | LBox lo hi => call_box lo hi x out h
  | LL2 w e1p lam sigma g => call_l2 w e1p lam sigma g x out h
  | LCCL2Sq lam sigma g => call_ccl2sq lam sigma g x out h
  | LL2Sq lam sigma g => call_l2sq lam sigma g x out h
  | LCCL1 lam sigma g => call_ccl1 lam sigma g x out h
  | LCCL1L2 lam sigma g => call_ccl1l2 lam sigma g x out h
  | LL1 lam sigma g => call_l1 lam sigma g x out h
  | LL1L2 lam sigma g => call_l1l2 lam sigma g x out h
  | LLinf sigma => call_linf sigma x out h
  | LCCLinf => call_cclinf x out h
  | LCCKL lam sigma g => call_cckl lam sigma g x out h
  | LCCKLCE lam W => call_ccklce lam W x out h
  | LHuber ps gamma sigma => call_huber ps gamma sigma x out h
  | LSimplex d => call_simplex d x out h
  | LSumC s => call_sumc s x out h
  | LScaling s => ip_ScalingOperator s x out h
  | LZero => ip_ZeroOperator x out h
  | LConst c => ip_ConstantOperator c x out h
  | LMult m => ip_MultiplyOperator m x out h
  | LMat m => st1 (map (mvec m)) x out h                                  (* self.matrix.dot(x, out=out_arr) *)
  | LFun F =>                                  (* _default_call_in_place: out.assign(range.element(op._call_out_of_place(x))) *)
      let '(t, h1) := un_new F x h in
      st1 (fun a => a) t out h1
  end.

(* out-of-place evaluation of a leaf.  The proximal classes have a mandatory `out`, so Operator.__call__
   goes through _default_call_out_of_place: out = self.range.element(); self._call_in_place(x, out). *)
Definition leaf_oop (l : leaf) (x : ref) (h : heap) : ref * heap :=
  match l with
  | LScaling s => oop_ScalingOperator s x h
  | LZero => oop_ZeroOperator x h
  | LConst c => oop_ConstantOperator c x h
  | LMult m => oop_MultiplyOperator m x h
  | LMat m => un_new (map (mvec m)) x h                                   (* np.tensordot(self.matrix, x, ...) *)
  | LFun F => un_new F x h                                                (* self._call(x) *)
  | _ => let '(t, h1) := fresh (length x) h in (t, leaf_ip l x t h1)
  end.

(* ------------------------------------------- value the call is supposed to have *)
Definition pure_l1 (lam : T) (sigma : sval) (g : option val) (v : val) : val :=
  let diff := match g with Some gv => lin one (- one) v gv | None => v end in
  let denom := e1 (fun u => nmax u one) (idiv_sval (e1 nabs diff) (sval_scale sigma lam)) in
  lin one (- one) v (e2 ndiv diff denom).
Definition pure_ccl1 (lam : T) (sigma : sval) (g : option val) (v : val) : val :=
  let diff := match g with
              | Some gv => match sigma with Sc s => lin one (- s) v gv | El sv => lin one (- one) v (e2 nmul sv gv) end
              | None => v end in
  e2 ndiv diff (scal (one / lam) (e1 (fun u => nmax u lam) (e1 nabs diff))).
Definition pure_l2sq (lam : T) (sigma : sval) (g : option val) (v : val) : val :=
  match sigma, g with
  | Sc s, None => scal (one / (one + two * s * lam)) v
  | Sc s, Some gv => lin (one / (one + two * s * lam)) (two * s * lam / (one + two * s * lam)) v gv
  | El sv, None => e2 ndiv v (e1 (fun s => one + two * s * lam) sv)
  | El sv, Some gv => e2 ndiv (lin one one v (e2 nmul sv (scal (two * lam) gv)))
                              (e1 (fun s => one + two * s * lam) sv)
  end.
Definition pure_ccl2sq (lam : T) (sigma : sval) (g : option val) (v : val) : val :=
  match sigma, g with
  | Sc s, None => scal (one / (one + half * s / lam)) v
  | Sc s, Some gv => lin (one / (one + half * s / lam)) (- s / (one + half * s / lam)) v gv
  | El sv, None => e2 ndiv v (e1 (fun s => one + half / lam * s) sv)
  | El sv, Some gv => e2 ndiv (lin one (- one) v (e2 nmul sv gv)) (e1 (fun s => one + half / lam * s) sv)
  end.
Definition pure_box (lo hi : bound) (v : val) : val := min_bound (max_bound v lo) hi.
Definition pure_l2 (w e1p lam sigma : T) (g : option val) (v : val) : val :=
  match g with
  | None =>
      let xn := norm2 w v * e1p in
      if nzero <? xn then
        let step := sigma * lam / xn in
        if step <? one then scal (one - step) v else zeros_like v
      else zeros_like v
  | Some gv =>
      let xn := norm2 w (lin one (- one) v gv) * e1p in
      if nzero <? xn then
        let step := sigma * lam / xn in
        if step <? one then lin (one - step) step v gv else gv
      else gv
  end.
Definition bzip (f : T -> T -> T) (v : val) (d : list T) : val := map (fun a => vmap2 f a d) v.
Definition bdiv : val -> list T -> val := bzip ndiv.
Definition pure_l1l2 (lam sigma : T) (g : option val) (v : val) : val :=
  let diff := match g with Some gv => lin one (- one) v gv | None => v end in
  let denom := map (fun u => nmax u one) (map (fun u => (one / (sigma * lam)) * u) (pwnorm2 diff)) in
  lin one (- one) v (bdiv diff denom).
Definition pure_ccl1l2 (lam sigma : T) (g : option val) (v : val) : val :=
  let diff := match g with Some gv => lin one (- sigma) v gv | None => v end in
  let denom := map (fun u => (one / lam) * u) (map (fun u => nmax u lam) (pwnorm2 diff)) in
  bdiv diff denom.
Definition pure_projl1 (radius : T) (v : val) : val :=
  let u := e1 nabs v in
  if sum_all u <=? radius then v else e2 nmul (simplex_val radius u) (e1 nsign v).
Definition pure_linf (sigma : T) (v : val) : val := lin (- one) one (pure_projl1 sigma v) v.
Definition pure_cckl (lam sigma : T) (g : option val) (v : val) : val :=
  let s := e1 (fun u => u * u) (e1 (fun u => u - lam) v) in
  let s' := match g with None => e1 (fun u => u + four * lam * sigma) s
                       | Some gv => lin one (four * lam * sigma) s gv end in
  scal (one / two) (e1 (fun u => u + lam) (lin one (- one) v (e1 nsqrt s'))).
Definition pure_huber (pspace : bool) (gamma sigma : T) (v : val) : val :=
  let nrm := if pspace then [pwnorm2 v] else e1 nabs v in
  let fac := e1 (fun n => if n <=? gamma + sigma then gamma / (gamma + sigma) else one - sigma / n) nrm in
  if pspace then bzip nmul v (hd [] fac) else e2 nmul v fac.
Definition pure_sumc (s : T) (v : val) : val := e1 (fun u => u + (one / nsize v) * (s - sum_all v)) v.

Definition leaf_pure (l : leaf) (v : val) : val :=
  match l with
  | LBox lo hi => pure_box lo hi v
  | LL2 w e1p lam sigma g => pure_l2 w e1p lam sigma g v
  | LCCL2Sq lam sigma g => pure_ccl2sq lam sigma g v
  | LL2Sq lam sigma g => pure_l2sq lam sigma g v
  | LCCL1 lam sigma g => pure_ccl1 lam sigma g v
  | LCCL1L2 lam sigma g => pure_ccl1l2 lam sigma g v
  | LL1 lam sigma g => pure_l1 lam sigma g v
  | LL1L2 lam sigma g => pure_l1l2 lam sigma g v
  | LLinf sigma => pure_linf sigma v
  | LCCLinf => pure_projl1 one v
  | LCCKL lam sigma g => pure_cckl lam sigma g v
  | LCCKLCE lam W => lin one (- lam) v (W v)
  | LHuber ps gamma sigma => pure_huber ps gamma sigma v
  | LSimplex d => simplex_val d v
  | LSumC s => pure_sumc s v
  | LScaling s => scal s v
  | LZero => scal nzero v
  | LConst c => c
  | LMult m => mult_val m v
  | LMat m => map (mvec m) v
  | LFun F => F v
  end.

(* ----------------------------------------- operator arithmetic (operator.py) *)
Inductive op :=
| OLeaf (l : leaf)
| OSum (a b : op)                 (* OperatorSum *)
| OVecSum (a : op) (v : val)      (* OperatorVectorSum *)
| OComp (a b : op)                (* OperatorComp: a o b *)
| OPw (a b : op)                  (* OperatorPointwiseProduct *)
| OLScal (a : op) (s : T)         (* OperatorLeftScalarMult *)
| ORScal (a : op) (s : T)         (* OperatorRightScalarMult *)
| OLVec (a : op) (v : val)        (* OperatorLeftVectorMult *)
| ORVec (a : op) (v : val)        (* OperatorRightVectorMult *)
| ODiag (k : nat) (a b : op).     (* DiagonalOperator(a, b...) : a on the first k leaf arrays, b on the rest *)

(* the bodies are the regenerated ip_<Class> / oop_<Class>; the children are passed as runners *)
Fixpoint run_ip (e : op) (x out : ref) (h : heap) : heap :=
  match e with
  | OLeaf l => leaf_ip l x out h
  | OSum a b => ip_OperatorSum (run_ip a) (run_ip b) x out h
  | OVecSum a v => ip_OperatorVectorSum (run_ip a) v x out h
  | OComp a b => ip_OperatorComp (run_ip a) (run_ip b) x out h
  | OPw a b => ip_OperatorPointwiseProduct (run_ip a) (run_ip b) x out h
  | OLScal a s => ip_OperatorLeftScalarMult (run_ip a) s x out h
  | ORScal a s => ip_OperatorRightScalarMult (run_ip a) s x out h
  | OLVec a v => ip_OperatorLeftVectorMult (run_ip a) v x out h
  | ORVec a v => ip_OperatorRightVectorMult (run_ip a) v x out h
  | ODiag k a b =>                                       (* for i, j, op: op(x[j], out=out[i]) -- row by row *)
      let h1 := run_ip a (firstn k x) (firstn k out) h in
      run_ip b (skipn k x) (skipn k out) h1
  end.

Fixpoint run_oop (e : op) (x : ref) (h : heap) : ref * heap :=
  match e with
  | OLeaf l => leaf_oop l x h
  | OSum a b => oop_OperatorSum (run_oop a) (run_oop b) x h
  | OVecSum a v => oop_OperatorVectorSum (run_oop a) v x h
  | OComp a b => oop_OperatorComp (run_oop a) (run_oop b) x h
  | OPw a b => oop_OperatorPointwiseProduct (run_oop a) (run_oop b) x h
  | OLScal a s => oop_OperatorLeftScalarMult (run_oop a) s x h
  | ORScal a s => oop_OperatorRightScalarMult (run_oop a) s x h
  | OLVec a v => oop_OperatorLeftVectorMult (run_oop a) v x h
  | ORVec a v => oop_OperatorRightVectorMult (run_oop a) v x h
  | ODiag k a b =>                                       (* out = range.zero(); out[i] += op(x[j]) *)
      let '(z, h0) := fresh (length x) h in
      let h1 := st1 zeros_like x z h0 in
      let '(r1, h2) := run_oop a (firstn k x) h1 in
      let h3 := st2 (lin one one) (firstn k z) r1 (firstn k z) h2 in
      let '(r2, h4) := run_oop b (skipn k x) h3 in
      (z, st2 (lin one one) (skipn k z) r2 (skipn k z) h4)
  end.

Fixpoint pure (e : op) (v : val) : val :=
  match e with
  | OLeaf l => leaf_pure l v
  | OSum a b => lin one one (pure b v) (pure a v)
  | OVecSum a w => lin one one (pure a v) w
  | OComp a b => pure a (pure b v)
  | OPw a b => e2 nmul (pure b v) (pure a v)
  | OLScal a s => scal s (pure a v)
  | ORScal a s => pure a (scal s v)
  | OLVec a w => e2 nmul (pure a v) w
  | ORVec a w => pure a (e2 nmul v w)
  | ODiag k a b => pure a (firstn k v) ++ pure b (skipn k v)
  end.

(* the compositions built by the factories of proximal_operators.py *)
Definition o_id : op := OLeaf (LScaling one).
Definition o_mult (m : sval) : op := OLeaf (LMult m).
(* proximal_convex_conj:  Id - mult_outer * prox(1/sigma) * mult_inner,  A - B = A + (-1) * B *)
Definition o_convex_conj (sigma inv_sigma : sval) (prox : op) : op :=
  OSum o_id (OLScal (OComp (OComp (o_mult sigma) prox) (o_mult inv_sigma)) (- one)).
(* proximal_translation:  Const(y) + prox * (Id - Const(y)) *)
Definition o_translation (y : val) (prox : op) : op :=
  OSum (OLeaf (LConst y)) (OComp prox (OSum o_id (OLScal (OLeaf (LConst y)) (- one)))).
(* proximal_arg_scaling:  mult_outer * prox * mult_inner *)
Definition o_arg_scaling (scaling inv_scaling : sval) (prox : op) : op :=
  OComp (OComp (o_mult inv_scaling) prox) (o_mult scaling).
(* proximal_quadratic_perturbation *)
Definition o_quad_perturb (c : sval) (shift : option val) (prox : op) : op :=
  match shift with
  | None => OComp (OComp (o_mult c) prox) (o_mult c)
  | Some u => OComp (OComp (o_mult c) prox) (OVecSum (o_mult c) u)     (* Mult(const) - sigma*const*u *)
  end.
End M.

Arguments leaf : clear implicits.
Arguments op : clear implicits.
