(* C10/Model.v -- heap-level transcription of the `_call` bodies of
   odl/solvers/nonsmooth/proximal_operators.py (with their `x is out` tests and
   temporaries), of the in-place / out-of-place `_call`s of the operator
   arithmetic classes of odl/operator/operator.py, of the default operators the
   proximal factories and solvers combine them with, and of DiagonalOperator.
   Executable definitions only (run at Q by the correspondence shards, proved
   at R in Proofs.v).

   Heap: buffer id -> flat array.  An element of a (possibly nested product)
   space is the list of the ids of its leaf arrays ([ref]); `x is out` is
   equality of refs.  `space.element()` is [fresh]: it only bumps the
   allocation counter, so a new buffer contains WHATEVER the heap function had
   there (arbitrary garbage of arbitrary length).
   Every library primitive (lincomb, multiply, divide, assign, ufunc with out=,
   augmented assignment) is "read all operands, then write out": [st1]/[st2].
   Operator parameters (g, element-valued sigma, bounds, translation vectors)
   are values, not heap cells. *)
From Coq Require Import ZArith List Bool Arith.
From Verif Require Import Base.Num Base.Vec.
Import ListNotations.
Local Open Scope num_scope.

Class Sqrt (T : Type) := { nsqrt : T -> T }.

Section M.
Context {T : Type} `{Num T} `{Sqrt T}.

(* ------------------------------------------------------------------ heap *)
Record heap := mkH { mem : nat -> list T; next : nat }.
Definition ref := list nat.
Definition val := list (list T).

Definition write (i : nat) (v : list T) (h : heap) : heap :=
  mkH (fun j => if Nat.eqb j i then v else mem h j) (next h).
Definition get (h : heap) (r : ref) : val := map (mem h) r.
Fixpoint put (r : ref) (v : val) (h : heap) : heap :=
  match r, v with
  | i :: r', a :: v' => put r' v' (write i a h)
  | _, _ => h
  end.
Definition bump (n : nat) (h : heap) : heap := mkH (mem h) (next h + n).
Definition fresh (n : nat) (h : heap) : ref * heap := (seq (next h) n, bump n h).
Definition ref_eqb (a b : ref) : bool := if list_eq_dec Nat.eq_dec a b then true else false.

(* primitives: read the operands, then write [out] *)
Definition st0 (V : val) (out : ref) (h : heap) : heap := put out V h.
Definition st1 (F : val -> val) (x out : ref) (h : heap) : heap := put out (F (get h x)) h.
Definition st2 (F : val -> val -> val) (x y out : ref) (h : heap) : heap :=
  put out (F (get h x) (get h y)) h.
(* x.copy() *)
Definition copy (x : ref) (h : heap) : ref * heap :=
  let '(t, h1) := fresh (length x) h in (t, st1 (fun a => a) x t h1).

(* ----------------------------------------------------- value-level algebra *)
(* part-wise zip: the shape (number of parts) is that of the first operand *)
Fixpoint pzip (f : list T -> list T -> list T) (a b : val) : val :=
  match a with
  | [] => []
  | u :: a' => f u (hd [] b) :: pzip f a' (tl b)
  end.
Definition e1 (f : T -> T) : val -> val := map (map f).
Definition e2 (f : T -> T -> T) : val -> val -> val := pzip (vmap2 f).
Definition lin (a b : T) : val -> val -> val := e2 (fun u v => a * u + b * v).
Definition scal (a : T) : val -> val := e1 (fun u => a * u).
Definition zeros_like : val -> val := e1 (fun _ => nzero).
Definition one : T := none_.
Definition two : T := of_Z 2.
Definition four : T := of_Z 4.
Definition half : T := ndiv (of_Z 1) (of_Z 2).

(* scalar-or-element step, optional bounds *)
Inductive sval := Sc (s : T) | El (v : val).
Inductive bound := BNone | BSc (c : T) | BEl (v : val).

Definition sval_scale (s : sval) (c : T) : sval :=      (* self.sigma * lam *)
  match s with Sc a => Sc (a * c) | El v => El (scal c v) end.
Definition idiv_sval (d : val) (s : sval) : val :=        (* d /= s *)
  match s with Sc c => scal (one / c) d | El v => e2 ndiv d v end.
Definition max_bound (a : val) (b : bound) : val :=
  match b with BNone => a | BSc c => e1 (fun u => nmax u c) a | BEl v => e2 nmax a v end.
Definition min_bound (a : val) (b : bound) : val :=
  match b with BNone => a | BSc c => e1 (fun u => nmin u c) a | BEl v => e2 nmin a v end.

(* x.norm() on a space whose inner product is  w * sum x_i y_i  *)
Definition sumsq (v : val) : T := sumf (map (fun a => dot a a) v).
Definition norm2 (w : T) (v : val) : T := nsqrt (w * sumsq v).

(* PointwiseNorm(vfspace, exponent=2) on an unweighted power space *)
Definition sq (a : list T) : list T := vmap2 nmul a a.
Definition pwnorm2 (v : val) : list T :=
  match v with
  | [] => []
  | [a] => map nabs a
  | a :: rest => map (fun s => nsqrt (nabs s)) (fold_left (fun acc b => vmap2 nadd acc (sq b)) rest (sq a))
  end.

(* proj_simplex: sort descending, running averages, last index with crit >= 0 *)
Fixpoint ins_desc (a : T) (l : list T) : list T :=
  match l with
  | [] => [a]
  | b :: l' => if b <=? a then a :: l else b :: ins_desc a l'
  end.
Definition sort_desc (l : list T) : list T := fold_right ins_desc [] l.
(* walk the sorted list with cumulative sum and 1-based index, keep the last avrg with crit >= 0 *)
Fixpoint simplex_tau (d : T) (l : list T) (cum : T) (j : Z) (best : T) : T :=
  match l with
  | [] => best
  | a :: l' =>
      let cum' := cum + a in
      let av := (one / of_Z j) * (cum' - d) in
      let best' := if nzero <=? a - av then av else best in
      simplex_tau d l' cum' (j + 1)%Z best'
  end.
Definition simplex_val (d : T) (v : val) : val :=
  let tau := simplex_tau d (sort_desc (concat v)) nzero 1%Z nzero in
  e1 (fun u => nmax (u - tau) nzero) v.
Definition sum_all (v : val) : T := sumf (concat v).

(* out[mask] = a[mask]  on flat arrays: shape of [a] *)
Fixpoint where3 (m : list bool) (a b : list T) : list T :=
  match a with
  | [] => []
  | u :: a' => (if hd false m then u else hd nzero b) :: where3 (tl m) a' (tl b)
  end.
Fixpoint pwhere (m : list (list bool)) (a b : val) : val :=
  match a with
  | [] => []
  | u :: a' => where3 (hd [] m) u (hd [] b) :: pwhere (tl m) a' (tl b)
  end.

(* ------------------------------------------------------------- the leaves *)
Inductive leaf :=
| LBox (lo hi : bound)                                  (* proximal_box_constraint / nonnegativity *)
| LL2 (w e1p lam sigma : T) (g : option val)            (* proximal_l2; e1p = 1 + eps *)
| LCCL2Sq (lam : T) (sigma : sval) (g : option val)     (* proximal_convex_conj_l2_squared *)
| LL2Sq (lam : T) (sigma : sval) (g : option val)       (* proximal_l2_squared *)
| LCCL1 (lam sigma : T) (g : option val)                (* proximal_convex_conj_l1; lam already * (1-eps) *)
| LCCL1L2 (lam sigma : T) (g : option val)              (* proximal_convex_conj_l1_l2 *)
| LL1 (lam : T) (sigma : sval) (g : option val)         (* proximal_l1 *)
| LL1L2 (lam sigma : T) (g : option val)                (* proximal_l1_l2 *)
| LLinf (sigma : T)                                     (* proximal_linfty *)
| LCCLinf                                               (* proximal_convex_conj_linfty *)
| LCCKL (lam sigma : T) (g : option val)                (* proximal_convex_conj_kl *)
| LCCKLCE (lam : T) (W : val -> val)                    (* proximal_convex_conj_kl_cross_entropy; W = lambertw(sigma/lam*g*exp(./lam)) opaque *)
| LHuber (gamma sigma : T)                              (* proximal_huber on a non-product space *)
| LSimplex (diam : T)                                   (* IndicatorSimplex.proximal *)
| LScaling (s : T)                                      (* ScalingOperator / IdentityOperator *)
| LZero                                                 (* ZeroOperator (domain = range) *)
| LConst (c : val)                                      (* ConstantOperator *)
| LMult (m : sval)                                      (* MultiplyOperator *)
| LMat (m : list (list T))                              (* MatrixOperator (dense, 1-d range; may be non-square inside a composition) *)
| LFun (F : list (list T) -> list (list T)).            (* any operator whose _call has no `out` (e.g. NuclearNorm proximal): F opaque *)

(* x - g  (LinearSpaceElement.__sub__): tmp = space.element(); lincomb(1, x, -1, g, out=tmp) *)
Definition sub_param (x : ref) (g : val) (h : heap) : ref * heap :=
  let '(t, h1) := fresh (length x) h in (t, st1 (fun a => lin one (- one) a g) x t h1).

(* ProximalL1._call *)
Definition call_l1 (lam : T) (sigma : sval) (g : option val) (x out : ref) (h : heap) : heap :=
  let '(x', h1) := if ref_eqb x out then copy x h else (x, h) in          (* if x is out: x = x.copy() *)
  let '(diff, h2) := match g with
                     | Some gv => sub_param x' gv h1                       (* diff = x - g *)
                     | None => (x', h1) end in                             (* diff = x *)
  let '(denom, h3) := fresh (length diff) h2 in
  let h4 := st1 (e1 nabs) diff denom h3 in                                 (* denom = diff.ufuncs.absolute() *)
  let h5 := st1 (fun d => idiv_sval d (sval_scale sigma lam)) denom denom h4 in   (* denom /= self.sigma * lam *)
  let h6 := st1 (e1 (fun u => nmax u one)) denom denom h5 in               (* denom.ufuncs.maximum(1, out=denom) *)
  let h7 := st2 (e2 ndiv) diff denom out h6 in                             (* diff.ufuncs.divide(denom, out=out) *)
  st2 (lin one (- one)) x' out out h7.                                     (* out.lincomb(1, x, -1, out) *)

(* ProximalConvexConjL1._call *)
Definition call_ccl1 (lam sigma : T) (g : option val) (x out : ref) (h : heap) : heap :=
  let '(diff, h1) :=
    match g with
    | Some gv => let '(t, h') := fresh (length x) h in                     (* diff = self.domain.element() *)
                 (t, st1 (fun a => lin one (- sigma) a gv) x t h')          (* diff.lincomb(1, x, -self.sigma, g) *)
    | None => if ref_eqb x out then copy x h else (x, h)                   (* elif x is out: diff = x.copy() else diff = x *)
    end in
  let h2 := st1 (e1 nabs) diff out h1 in                                   (* diff.ufuncs.absolute(out=out) *)
  let h3 := st1 (e1 (fun u => nmax u lam)) out out h2 in                   (* out.ufuncs.maximum(lam, out=out) *)
  let h4 := st1 (scal (one / lam)) out out h3 in                           (* out /= lam *)
  st2 (e2 ndiv) diff out out h4.                                           (* diff.divide(out, out=out) *)

(* ProximalL2Squared._call *)
Definition call_l2sq (lam : T) (sigma : sval) (g : option val) (x out : ref) (h : heap) : heap :=
  match sigma, g with
  | Sc s, None => st1 (scal (one / (one + two * s * lam))) x out h
  | Sc s, Some gv => st1 (fun a => lin (one / (one + two * s * lam))
                                       (two * s * lam / (one + two * s * lam)) a gv) x out h
  | El sv, None => st1 (fun a => e2 ndiv a (e1 (fun s => one + two * s * lam) sv)) x out h
  | El sv, Some gv =>
      let sg := e2 nmul sv (scal (two * lam) gv) in                        (* sig.multiply(2 * lam * g ...) *)
      let h2 := if ref_eqb x out
                then let '(tmp, h1) := fresh (length x) h in               (* tmp = sig.multiply(2 * lam * g) *)
                     let h1' := st0 sg tmp h1 in
                     st2 (lin one one) x tmp out h1'                       (* out.lincomb(1, x, 1, tmp) *)
                else let h1 := st0 sg out h in                             (* sig.multiply(2 * lam * g, out=out) *)
                     st2 (lin one one) x out out h1 in                     (* out.lincomb(1, x, 1, out) *)
      st1 (fun a => e2 ndiv a (e1 (fun s => one + two * s * lam) sv)) out out h2   (* out.divide(1 + 2*sig*lam, out=out) *)
  end.

(* ProximalConvexConjL2Squared._call *)
Definition call_ccl2sq (lam : T) (sigma : sval) (g : option val) (x out : ref) (h : heap) : heap :=
  match sigma, g with
  | Sc s, None => st1 (scal (one / (one + half * s / lam))) x out h
  | Sc s, Some gv => st1 (fun a => lin (one / (one + half * s / lam))
                                       (- s / (one + half * s / lam)) a gv) x out h
  | El sv, None => st1 (fun a => e2 ndiv a (e1 (fun s => one + half / lam * s) sv)) x out h
  | El sv, Some gv =>
      let sg := e2 nmul sv gv in
      let h2 := if ref_eqb x out
                then let '(tmp, h1) := fresh (length x) h in               (* tmp = sig.multiply(g) *)
                     let h1' := st0 sg tmp h1 in
                     st2 (lin one (- one)) x tmp out h1'                   (* out.lincomb(1, x, -1, tmp) *)
                else let h1 := st0 sg out h in                             (* sig.multiply(g, out=out) *)
                     st2 (lin one (- one)) x out out h1 in                 (* out.lincomb(1, x, -1, out) *)
      st1 (fun a => e2 ndiv a (e1 (fun s => one + half / lam * s) sv)) out out h2
  end.

(* ProxOpBoxConstraint._call *)
Definition call_box (lo hi : bound) (x out : ref) (h : heap) : heap :=
  match lo, hi with
  | BNone, BNone => st1 (fun a => a) x out h                               (* out.assign(x) *)
  | _, BNone => st1 (fun a => max_bound a lo) x out h                      (* x.ufuncs.maximum(lower, out=out) *)
  | BNone, _ => st1 (fun a => min_bound a hi) x out h                      (* x.ufuncs.minimum(upper, out=out) *)
  | _, _ => let h1 := st1 (fun a => max_bound a lo) x out h in
            st1 (fun a => min_bound a hi) out out h1                       (* out.ufuncs.minimum(upper, out=out) *)
  end.

(* ProximalL2._call *)
Definition call_l2 (w e1p lam sigma : T) (g : option val) (x out : ref) (h : heap) : heap :=
  match g with
  | None =>
      let xn := norm2 w (get h x) * e1p in                                 (* x_norm = x.norm() * (1 + eps) *)
      if nzero <? xn then
        let step := sigma * lam / xn in
        if step <? one then st1 (scal (one - step)) x out h                (* out.lincomb(1.0 - step, x) *)
        else st1 zeros_like x out h                                        (* out.set_zero() *)
      else st1 zeros_like x out h
  | Some gv =>
      let '(d, h1) := sub_param x gv h in                                  (* (x - g) *)
      let xn := norm2 w (get h1 d) * e1p in
      if nzero <? xn then
        let step := sigma * lam / xn in
        if step <? one then st1 (fun a => lin (one - step) step a gv) x out h1   (* out.lincomb(1.0 - step, x, step, g) *)
        else st0 gv out h1                                                 (* out.assign(g) *)
      else st0 gv out h1
  end.

(* for out_i, diff_i in zip(out, diff): diff_i.divide(denom, out=out_i)   -- sequential over the parts *)
Definition div_loop (out diff denom : ref) (h : heap) : heap :=
  fold_left (fun h' od => st2 (e2 ndiv) [snd od] denom [fst od] h') (combine out diff) h.
(* denom = PointwiseNorm(domain, exponent=2)(diff): out-of-place call, fresh base-space element *)
Definition pwnorm_call (diff : ref) (h : heap) : ref * heap :=
  let '(t, h1) := fresh 1 h in (t, st1 (fun a => [pwnorm2 a]) diff t h1).

(* ProximalL1L2._call *)
Definition call_l1l2 (lam sigma : T) (g : option val) (x out : ref) (h : heap) : heap :=
  let '(x', h1) := if ref_eqb x out then copy x h else (x, h) in
  let '(diff, h2) := match g with Some gv => sub_param x' gv h1 | None => (x', h1) end in
  let '(denom, h3) := pwnorm_call diff h2 in
  let h4 := st1 (scal (one / (sigma * lam))) denom denom h3 in             (* denom /= self.sigma * lam *)
  let h5 := st1 (e1 (fun u => nmax u one)) denom denom h4 in               (* denom.ufuncs.maximum(1, out=denom) *)
  let h6 := div_loop out diff denom h5 in
  st2 (lin one (- one)) x' out out h6.                                     (* out.lincomb(1, x, -1, out) *)

(* ProximalConvexConjL1L2._call *)
Definition call_ccl1l2 (lam sigma : T) (g : option val) (x out : ref) (h : heap) : heap :=
  let '(diff, h1) :=
    match g with
    | Some gv => let '(t, h') := fresh (length x) h in
                 (t, st1 (fun a => lin one (- sigma) a gv) x t h')
    | None => (x, h)                                                       (* diff = x   (no copy) *)
    end in
  let '(denom, h2) := pwnorm_call diff h1 in
  let h3 := st1 (e1 (fun u => nmax u lam)) denom denom h2 in               (* denom.ufuncs.maximum(lam, out=denom) *)
  let h4 := st1 (scal (one / lam)) denom denom h3 in                       (* denom /= lam *)
  div_loop out diff denom h4.

(* proj_l1(x, radius, out) *)
Definition proj_l1 (radius : T) (x out : ref) (h : heap) : heap :=
  let '(u, h1) := fresh (length x) h in
  let h2 := st1 (e1 nabs) x u h1 in                                        (* u = x.ufuncs.absolute() *)
  if sum_all (get h2 u) <=? radius then st1 (fun a => a) x out h2          (* out[:] = x *)
  else
    let '(v, h3) := fresh (length x) h2 in
    let h4 := st1 (e1 nsign) x v h3 in                                     (* v = x.ufuncs.sign() *)
    let h5 := st1 (simplex_val radius) u out h4 in                         (* proj_simplex(u, radius, out) *)
    st2 (e2 nmul) out v out h5.                                            (* out *= v *)

(* ProximalLInfty._call *)
Definition call_linf (sigma : T) (x out : ref) (h : heap) : heap :=
  let '(x', h1) := if ref_eqb x out then copy x h else (x, h) in
  let h2 := proj_l1 sigma x' out h1 in
  st2 (lin (- one) one) out x' out h2.                                     (* out.lincomb(-1, out, 1, x) *)

(* ProximalConvexConjKL._call *)
Definition call_cckl (lam sigma : T) (g : option val) (x out : ref) (h : heap) : heap :=
  let '(x', h1) := if ref_eqb x out then copy x h
                   else (x, st1 (fun a => a) x out h) in                   (* else: out.assign(x) *)
  let h2 := st1 (e1 (fun u => u - lam)) out out h1 in                      (* out -= lam *)
  let h3 := st1 (e1 (fun u => u * u)) out out h2 in                        (* out.ufuncs.square(out=out) *)
  let h4 := match g with
            | None => st1 (e1 (fun u => u + four * lam * sigma)) out out h3          (* out += 4.0 * lam * self.sigma *)
            | Some gv => st1 (fun a => lin one (four * lam * sigma) a gv) out out h3 (* out.lincomb(1, out, 4.0*lam*sigma, g) *)
            end in
  let h5 := st1 (e1 nsqrt) out out h4 in                                   (* out.ufuncs.sqrt(out=out) *)
  let h6 := st2 (lin one (- one)) x' out out h5 in                         (* out.lincomb(1, x, -1, out) *)
  let h7 := st1 (e1 (fun u => u + lam)) out out h6 in                      (* out += lam *)
  st1 (scal (one / two)) out out h7.                                       (* out /= 2 *)

(* ProximalConvexConjKLCrossEntropy._call *)
Definition call_ccklce (lam : T) (W : val -> val) (x out : ref) (h : heap) : heap :=
  let '(lw, h1) := fresh (length x) h in
  let h2 := st1 W x lw h1 in                                               (* lambw = x.space.element(lambertw(...x...)) *)
  st2 (lin one (- lam)) x lw out h2.                                       (* out.lincomb(1, x, -lam, lambw) *)

(* ProximalHuber._call, non-product domain *)
Definition bmask (f : T -> bool) (v : val) : list (list bool) := map (map f) v.
Definition call_huber (gamma sigma : T) (x out : ref) (h : heap) : heap :=
  let '(nrm, h1) := fresh (length x) h in
  let h2 := st1 (e1 nabs) x nrm h1 in                                      (* norm = x.ufuncs.absolute() *)
  let m := bmask (fun u => u <=? gamma + sigma) (get h2 nrm) in            (* mask = norm.ufuncs.less_equal(gamma + sigma) *)
  let h3 := st2 (fun a o => pwhere m (scal (gamma / (gamma + sigma)) a) o) x out out h2 in   (* out[mask] = gamma/(gamma+sigma) * x[mask] *)
  let m' := map (map negb) m in                                            (* mask.ufuncs.logical_not(out=mask) *)
  let '(sg, h4) := fresh (length x) h3 in
  let h5 := st1 (e1 nsign) x sg h4 in                                      (* sign_x = x.ufuncs.sign() *)
  st2 (fun a o => pwhere m' (lin one (- sigma) a (get h5 sg)) o) x out out h5.    (* out[mask] = x[mask] - sigma * sign_x[mask] *)

Definition mult_val (m : sval) (a : val) : val :=
  match m with Sc c => scal c a | El v => e2 (fun u w => w * u) a v end.

Definition leaf_ip (l : leaf) (x out : ref) (h : heap) : heap :=
  match l with
  | LBox lo hi => call_box lo hi x out h
  | LL2 w e1p lam sigma g => call_l2 w e1p lam sigma g x out h
  | LCCL2Sq lam sigma g => call_ccl2sq lam sigma g x out h
  | LL2Sq lam sigma g => call_l2sq lam sigma g x out h
  | LCCL1 lam sigma g => call_ccl1 lam sigma g x out h
  | LCCL1L2 lam sigma g => call_ccl1l2 lam sigma g x out h
  | LL1 lam sigma g => call_l1 lam sigma g x out h
  | LL1L2 lam sigma g => call_l1l2 lam sigma g x out h
  | LLinf sigma => call_linf sigma x out h
  | LCCLinf => proj_l1 one x out h                                        (* proj_l1(x, radius=1, out=out) *)
  | LCCKL lam sigma g => call_cckl lam sigma g x out h
  | LCCKLCE lam W => call_ccklce lam W x out h
  | LHuber gamma sigma => call_huber gamma sigma x out h
  | LSimplex d => st1 (simplex_val d) x out h                             (* proj_simplex(x, diameter, out) *)
  | LScaling s => st1 (scal s) x out h                                    (* out.lincomb(self.scalar, x) *)
  | LZero => st1 (scal nzero) x out h                                     (* out.lincomb(0, x) *)
  | LConst c => st0 c out h                                               (* out.assign(self.constant) *)
  | LMult m =>                                                            (* out.assign(self.multiplicand * x) *)
      let '(t, h1) := fresh (length x) h in
      let h2 := st1 (mult_val m) x t h1 in
      st1 (fun a => a) t out h2
  | LMat m => st1 (map (mvec m)) x out h                                  (* self.matrix.dot(x, out=out_arr) *)
  | LFun F =>                                  (* _default_call_in_place: out.assign(range.element(op._call_out_of_place(x))) *)
      let '(t, h1) := fresh (length x) h in
      let h2 := st1 F x t h1 in
      st1 (fun a => a) t out h2
  end.

(* out-of-place evaluation of a leaf.  The proximal classes have a mandatory
   `out`, so Operator.__call__ goes through _default_call_out_of_place:
   out = self.range.element(); self._call_in_place(x, out).  The default
   operators build their result with element arithmetic (a new element). *)
Definition leaf_oop (l : leaf) (x : ref) (h : heap) : ref * heap :=
  let '(t, h1) := fresh (length x) h in
  match l with
  | LScaling s => (t, st1 (scal s) x t h1)                                (* out = self.scalar * x *)
  | LZero => (t, st1 (scal nzero) x t h1)                                 (* out = 0 * x *)
  | LConst c => (t, st0 c t h1)                                           (* range.element(copy(constant)) *)
  | LMult m => (t, st1 (mult_val m) x t h1)                               (* x * self.multiplicand *)
  | LMat m => (t, st1 (map (mvec m)) x t h1)                              (* np.tensordot(self.matrix, x, ...) *)
  | LFun F => (t, st1 F x t h1)                                           (* self._call(x) *)
  | _ => (t, leaf_ip l x t h1)
  end.

(* ------------------------------------------- value the call is supposed to have *)
Definition pure_l1 (lam : T) (sigma : sval) (g : option val) (v : val) : val :=
  let diff := match g with Some gv => lin one (- one) v gv | None => v end in
  let denom := e1 (fun u => nmax u one) (idiv_sval (e1 nabs diff) (sval_scale sigma lam)) in
  lin one (- one) v (e2 ndiv diff denom).
Definition pure_ccl1 (lam sigma : T) (g : option val) (v : val) : val :=
  let diff := match g with Some gv => lin one (- sigma) v gv | None => v end in
  e2 ndiv diff (scal (one / lam) (e1 (fun u => nmax u lam) (e1 nabs diff))).
Definition pure_l2sq (lam : T) (sigma : sval) (g : option val) (v : val) : val :=
  match sigma, g with
  | Sc s, None => scal (one / (one + two * s * lam)) v
  | Sc s, Some gv => lin (one / (one + two * s * lam)) (two * s * lam / (one + two * s * lam)) v gv
  | El sv, None => e2 ndiv v (e1 (fun s => one + two * s * lam) sv)
  | El sv, Some gv => e2 ndiv (lin one one v (e2 nmul sv (scal (two * lam) gv)))
                              (e1 (fun s => one + two * s * lam) sv)
  end.
Definition pure_ccl2sq (lam : T) (sigma : sval) (g : option val) (v : val) : val :=
  match sigma, g with
  | Sc s, None => scal (one / (one + half * s / lam)) v
  | Sc s, Some gv => lin (one / (one + half * s / lam)) (- s / (one + half * s / lam)) v gv
  | El sv, None => e2 ndiv v (e1 (fun s => one + half / lam * s) sv)
  | El sv, Some gv => e2 ndiv (lin one (- one) v (e2 nmul sv gv)) (e1 (fun s => one + half / lam * s) sv)
  end.
Definition pure_box (lo hi : bound) (v : val) : val := min_bound (max_bound v lo) hi.
Definition pure_l2 (w e1p lam sigma : T) (g : option val) (v : val) : val :=
  match g with
  | None =>
      let xn := norm2 w v * e1p in
      if nzero <? xn then
        let step := sigma * lam / xn in
        if step <? one then scal (one - step) v else zeros_like v
      else zeros_like v
  | Some gv =>
      let xn := norm2 w (lin one (- one) v gv) * e1p in
      if nzero <? xn then
        let step := sigma * lam / xn in
        if step <? one then lin (one - step) step v gv else gv
      else gv
  end.
Definition bdiv (v : val) (d : list T) : val := map (fun a => vmap2 ndiv a d) v.
Definition pure_l1l2 (lam sigma : T) (g : option val) (v : val) : val :=
  let diff := match g with Some gv => lin one (- one) v gv | None => v end in
  let denom := map (fun u => nmax u one) (map (fun u => (one / (sigma * lam)) * u) (pwnorm2 diff)) in
  lin one (- one) v (bdiv diff denom).
Definition pure_ccl1l2 (lam sigma : T) (g : option val) (v : val) : val :=
  let diff := match g with Some gv => lin one (- sigma) v gv | None => v end in
  let denom := map (fun u => (one / lam) * u) (map (fun u => nmax u lam) (pwnorm2 diff)) in
  bdiv diff denom.
Definition pure_projl1 (radius : T) (v : val) : val :=
  let u := e1 nabs v in
  if sum_all u <=? radius then v else e2 nmul (simplex_val radius u) (e1 nsign v).
Definition pure_linf (sigma : T) (v : val) : val := lin (- one) one (pure_projl1 sigma v) v.
Definition pure_cckl (lam sigma : T) (g : option val) (v : val) : val :=
  let s := e1 (fun u => u * u) (e1 (fun u => u - lam) v) in
  let s' := match g with None => e1 (fun u => u + four * lam * sigma) s
                       | Some gv => lin one (four * lam * sigma) s gv end in
  scal (one / two) (e1 (fun u => u + lam) (lin one (- one) v (e1 nsqrt s'))).
Definition pure_huber (gamma sigma : T) (v : val) : val :=
  e1 (fun u => if nabs u <=? gamma + sigma then gamma / (gamma + sigma) * u
               else one * u + (- sigma) * nsign u) v.

Definition leaf_pure (l : leaf) (v : val) : val :=
  match l with
  | LBox lo hi => pure_box lo hi v
  | LL2 w e1p lam sigma g => pure_l2 w e1p lam sigma g v
  | LCCL2Sq lam sigma g => pure_ccl2sq lam sigma g v
  | LL2Sq lam sigma g => pure_l2sq lam sigma g v
  | LCCL1 lam sigma g => pure_ccl1 lam sigma g v
  | LCCL1L2 lam sigma g => pure_ccl1l2 lam sigma g v
  | LL1 lam sigma g => pure_l1 lam sigma g v
  | LL1L2 lam sigma g => pure_l1l2 lam sigma g v
  | LLinf sigma => pure_linf sigma v
  | LCCLinf => pure_projl1 one v
  | LCCKL lam sigma g => pure_cckl lam sigma g v
  | LCCKLCE lam W => lin one (- lam) v (W v)
  | LHuber gamma sigma => pure_huber gamma sigma v
  | LSimplex d => simplex_val d v
  | LScaling s => scal s v
  | LZero => scal nzero v
  | LConst c => c
  | LMult m => mult_val m v
  | LMat m => map (mvec m) v
  | LFun F => F v
  end.

(* ----------------------------------------- operator arithmetic (operator.py) *)
Inductive op :=
| OLeaf (l : leaf)
| OSum (a b : op)                 (* OperatorSum *)
| OVecSum (a : op) (v : val)      (* OperatorVectorSum *)
| OComp (a b : op)                (* OperatorComp: a o b *)
| OPw (a b : op)                  (* OperatorPointwiseProduct *)
| OLScal (a : op) (s : T)         (* OperatorLeftScalarMult *)
| ORScal (a : op) (s : T)         (* OperatorRightScalarMult *)
| OLVec (a : op) (v : val)        (* OperatorLeftVectorMult *)
| ORVec (a : op) (v : val)        (* OperatorRightVectorMult *)
| ODiag (k : nat) (a b : op).     (* DiagonalOperator(a, b...) : a on the first k leaf arrays, b on the rest *)

Fixpoint run_ip (e : op) (x out : ref) (h : heap) : heap :=
  match e with
  | OLeaf l => leaf_ip l x out h
  | OSum a b =>
      let '(tmp, h1) := fresh (length out) h in          (* tmp = self.range.element() *)
      let h2 := run_ip a x tmp h1 in                     (* self.left(x, out=tmp) *)
      let h3 := run_ip b x out h2 in                     (* self.right(x, out=out) *)
      st2 (lin one one) out tmp out h3                   (* out += tmp *)
  | OVecSum a v =>
      let h1 := run_ip a x out h in                      (* self.operator(x, out=out) *)
      st1 (fun o => lin one one o v) out out h1          (* out += self.vector *)
  | OComp a b =>
      let '(tmp, h1) := fresh (length x) h in            (* tmp = self.right.range.element() *)
      let h2 := run_ip b x tmp h1 in                     (* self.right(x, out=tmp) *)
      run_ip a tmp out h2                                (* self.left(tmp, out=out) *)
  | OPw a b =>
      let '(tmp, h1) := fresh (length out) h in
      let h2 := run_ip a x tmp h1 in
      let h3 := run_ip b x out h2 in
      st2 (e2 nmul) out tmp out h3                       (* out *= tmp *)
  | OLScal a s =>
      let h1 := run_ip a x out h in
      st1 (scal s) out out h1                            (* out *= self.scalar *)
  | ORScal a s =>
      let '(tmp, h1) := fresh (length x) h in            (* tmp = self.domain.element() *)
      let h2 := st1 (scal s) x tmp h1 in                 (* tmp.lincomb(self.scalar, x) *)
      run_ip a tmp out h2                                (* self.operator(tmp, out=out) *)
  | OLVec a v =>
      let h1 := run_ip a x out h in
      st1 (fun o => e2 nmul o v) out out h1              (* out *= self.vector *)
  | ORVec a v =>
      let '(tmp, h1) := fresh (length x) h in
      let h2 := st1 (fun a => e2 nmul a v) x tmp h1 in   (* x.multiply(self.vector, out=tmp) *)
      run_ip a tmp out h2
  | ODiag k a b =>                                       (* for i, j, op: op(x[j], out=out[i]) -- row by row *)
      let h1 := run_ip a (firstn k x) (firstn k out) h in
      run_ip b (skipn k x) (skipn k out) h1
  end.

(* binary element arithmetic between two elements: a new element *)
Definition bin_new (F : val -> val -> val) (a b : ref) (h : heap) : ref * heap :=
  let '(t, h1) := fresh (length a) h in (t, st2 F a b t h1).
Definition un_new (F : val -> val) (a : ref) (h : heap) : ref * heap :=
  let '(t, h1) := fresh (length a) h in (t, st1 F a t h1).

Fixpoint run_oop (e : op) (x : ref) (h : heap) : ref * heap :=
  match e with
  | OLeaf l => leaf_oop l x h
  | OSum a b =>                                          (* self.left(x) + self.right(x) *)
      let '(r1, h1) := run_oop a x h in
      let '(r2, h2) := run_oop b x h1 in
      bin_new (lin one one) r1 r2 h2
  | OVecSum a v =>                                       (* self.operator(x) + self.vector *)
      let '(r1, h1) := run_oop a x h in
      un_new (fun o => lin one one o v) r1 h1
  | OComp a b =>                                         (* self.left(self.right(x)) *)
      let '(r1, h1) := run_oop b x h in
      run_oop a r1 h1
  | OPw a b =>                                           (* self.left(x) * self.right(x) *)
      let '(r1, h1) := run_oop a x h in
      let '(r2, h2) := run_oop b x h1 in
      bin_new (e2 nmul) r1 r2 h2
  | OLScal a s =>                                        (* self.scalar * self.operator(x) *)
      let '(r1, h1) := run_oop a x h in
      un_new (scal s) r1 h1
  | ORScal a s =>                                        (* self.operator(self.scalar * x) *)
      let '(t, h1) := un_new (scal s) x h in
      run_oop a t h1
  | OLVec a v =>                                         (* self.operator(x) * self.vector *)
      let '(r1, h1) := run_oop a x h in
      un_new (fun o => e2 nmul o v) r1 h1
  | ORVec a v =>                                         (* self.operator(x * self.vector) *)
      let '(t, h1) := un_new (fun a => e2 nmul a v) x h in
      run_oop a t h1
  | ODiag k a b =>                                       (* out = range.zero(); out[i] += op(x[j]) *)
      let '(z, h0) := fresh (length x) h in
      let h1 := st1 zeros_like x z h0 in
      let '(r1, h2) := run_oop a (firstn k x) h1 in
      let h3 := st2 (lin one one) (firstn k z) r1 (firstn k z) h2 in
      let '(r2, h4) := run_oop b (skipn k x) h3 in
      (z, st2 (lin one one) (skipn k z) r2 (skipn k z) h4)
  end.

Fixpoint pure (e : op) (v : val) : val :=
  match e with
  | OLeaf l => leaf_pure l v
  | OSum a b => lin one one (pure b v) (pure a v)
  | OVecSum a w => lin one one (pure a v) w
  | OComp a b => pure a (pure b v)
  | OPw a b => e2 nmul (pure b v) (pure a v)
  | OLScal a s => scal s (pure a v)
  | ORScal a s => pure a (scal s v)
  | OLVec a w => e2 nmul (pure a v) w
  | ORVec a w => pure a (e2 nmul v w)
  | ODiag k a b => pure a (firstn k v) ++ pure b (skipn k v)
  end.

(* the compositions built by the factories of proximal_operators.py *)
Definition o_id : op := OLeaf (LScaling one).
Definition o_mult (m : sval) : op := OLeaf (LMult m).
(* proximal_convex_conj:  Id - mult_outer * prox(1/sigma) * mult_inner,  A - B = A + (-1) * B *)
Definition o_convex_conj (sigma inv_sigma : sval) (prox : op) : op :=
  OSum o_id (OLScal (OComp (OComp (o_mult sigma) prox) (o_mult inv_sigma)) (- one)).
(* proximal_translation:  Const(y) + prox * (Id - Const(y)) *)
Definition o_translation (y : val) (prox : op) : op :=
  OSum (OLeaf (LConst y)) (OComp prox (OSum o_id (OLScal (OLeaf (LConst y)) (- one)))).
(* proximal_arg_scaling:  mult_outer * prox * mult_inner *)
Definition o_arg_scaling (scaling inv_scaling : sval) (prox : op) : op :=
  OComp (OComp (o_mult inv_scaling) prox) (o_mult scaling).
(* proximal_quadratic_perturbation *)
Definition o_quad_perturb (c : sval) (shift : option val) (prox : op) : op :=
  match shift with
  | None => OComp (OComp (o_mult c) prox) (o_mult c)
  | Some u => OComp (OComp (o_mult c) prox) (OVecSum (o_mult c) u)     (* Mult(const) - sigma*const*u *)
  end.
End M.

Arguments heap : clear implicits.
Arguments leaf : clear implicits.
Arguments op : clear implicits.
Arguments sval : clear implicits.
Arguments bound : clear implicits.
