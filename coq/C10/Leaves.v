(* C10/Leaves.v -- every leaf `_call`: the in-place call writes the value-level
   result of the OLD x into out (aliased or not), frames everything else. *)
From Coq Require Import ZArith Reals Lra Lia List Bool Arith.
From Verif Require Import Base.Num Base.Vec C10.Model C10.HeapLemmas.
Import ListNotations.

Section L.
Context {T : Type} `{Num T} `{Sqrt T}.
Notation heap := (heap T).
Notation val := (list (list T)).

(* what an in-place call P(x, out=out) started in h and ending in h' must satisfy *)
Record post (h h' : heap) (out : ref) (res : val) : Prop := {
  p_out : get h' out = res;
  p_frame : forall i, i < next h -> ~ In i out -> mem h' i = mem h i;
  p_next : next h <= next h' }.

Definition pre (h : heap) (x out : ref) : Prop :=
  NoDup out /\ below (next h) x /\ below (next h) out /\ (x = out \/ dis x out) /\ length x = length out.

(* one primitive step / one allocation, as facts about an abstracted heap *)
Definition wrote (hv hn : heap) (w : ref) (v : val) : Prop :=
  get hn w = v /\ (forall i, i < next hv -> ~ In i w -> mem hn i = mem hv i).
Definition bumped (hv hn : heap) : Prop := forall i, mem hn i = mem hv i.

Lemma st0_wrote V out (h : heap) : NoDup out -> length V = length out -> wrote h (st0 V out h) out V.
Proof. intros Hnd Hl; split; [apply get_put_same; auto | intros i _ Hi; apply mem_put_notin; exact Hi]. Qed.
Lemma st1_wrote F x out (h : heap) : NoDup out -> length (F (get h x)) = length out ->
  wrote h (st1 F x out h) out (F (get h x)).
Proof. intros; apply st0_wrote; auto. Qed.
Lemma st2_wrote F x y out (h : heap) : NoDup out -> length (F (get h x) (get h y)) = length out ->
  wrote h (st2 F x y out h) out (F (get h x) (get h y)).
Proof. intros; apply st0_wrote; auto. Qed.
Lemma st0_next V out (h : heap) : next (st0 V out h) = next h. Proof. apply next_put. Qed.
Lemma st1_next F x out (h : heap) : next (st1 F x out h) = next h. Proof. apply next_put. Qed.
Lemma st2_next F x y out (h : heap) : next (st2 F x y out h) = next h. Proof. apply next_put. Qed.
Lemma bump_bumped n (h : heap) : bumped h (bump n h). Proof. intros i; reflexivity. Qed.
Lemma bump_next n (h : heap) : next (bump n h) = next h + n. Proof. reflexivity. Qed.

Lemma wrote_get hv hn w v : wrote hv hn w v -> get hn w = v. Proof. intros [A _]; exact A. Qed.
Lemma wrote_frame hv hn w v r : wrote hv hn w v -> below (next hv) r -> dis r w -> get hn r = get hv r.
Proof.
  intros [_ B] Hb Hd; apply get_ext; intros i Hi; apply B; [eapply below_in; eauto | intros Hj; exact (Hd i Hi Hj)].
Qed.
Lemma wrote_mem hv hn w v i : wrote hv hn w v -> i < next hv -> ~ In i w -> mem hn i = mem hv i.
Proof. intros [_ B]; apply B. Qed.
Lemma post_wrote h h' out res : post h h' out res -> wrote h h' out res.
Proof. intros [A B _]; split; assumption. Qed.
Lemma post_next h h' out res : post h h' out res -> next h' = next h + (next h' - next h).
Proof. intros [_ _ C]; lia. Qed.
Lemma bumped_get hv hn r : bumped hv hn -> get hn r = get hv r.
Proof. intros B; apply get_ext; intros i _; apply B. Qed.

(* case split used by every leaf: x and out identical, or disjoint and ref_eqb false *)
Lemma alias_cases (h : heap) x out : pre h x out ->
  (x = out /\ NoDup x /\ below (next h) x) \/
  (ref_eqb x out = false /\ dis x out /\ NoDup out /\ below (next h) x /\ below (next h) out /\ length x = length out).
Proof.
  intros (Hnd & Hbx & Hbo & Hal & Hl).
  destruct (list_eq_dec Nat.eq_dec x out) as [->|Hne]; [left; auto|].
  right. destruct Hal as [->|Hd]; [congruence|]. rewrite ref_eqb_neq by exact Hne. auto 10.
Qed.
End L.

(* ------------------------------------------------ symbolic execution tactics *)
Ltac exec := cbv beta iota zeta delta [copy sub_param fresh pwnorm_call un_new bin_new const_new].

Ltac nxg := repeat match goal with N : next ?hn = _ |- context [next ?hn] => is_var hn; rewrite N end.
Ltac below_tac :=
  match goal with |- below _ _ => idtac end; nxg;
  first [ assumption
        | eapply below_mono; [eassumption | lia]
        | apply below_seq; autorewrite with len; lia ].
Ltac pre_tac :=
  unfold pre; refine (conj _ (conj _ (conj _ (conj _ _))));
  [ first [assumption | apply seq_NoDup] | below_tac | below_tac
  | first [left; reflexivity | right; dis_tac] | len_tac ].
Ltac nxt := repeat match goal with N : next ?hn = _ |- _ => is_var hn; rewrite N in * end.
(* abstract the innermost step (the one whose heap argument is a variable) *)
Ltac absorb1 :=
  match goal with
  | |- context [bump ?n ?hv] => is_var hv;
      let hn := fresh "h" in let B := fresh "B" in let N := fresh "N" in
      pose proof (bump_bumped n hv) as B; pose proof (bump_next n hv) as N;
      set (hn := bump n hv) in *; clearbody hn; nxt
  | |- context [st0 ?V ?b ?hv] => is_var hv;
      let hn := fresh "h" in let W := fresh "W" in let N := fresh "N" in
      assert (W : wrote hv (st0 V b hv) b V) by (refine (st0_wrote V b hv _ _); sd);
      pose proof (st0_next V b hv) as N;
      set (hn := st0 V b hv) in *; clearbody hn; nxt
  | |- context [st1 ?F ?a ?b ?hv] => is_var hv;
      let hn := fresh "h" in let W := fresh "W" in let N := fresh "N" in
      assert (W : wrote hv (st1 F a b hv) b (F (get hv a))) by (refine (st1_wrote F a b hv _ _); sd);
      cbv beta in W;
      pose proof (st1_next F a b hv) as N;
      set (hn := st1 F a b hv) in *; clearbody hn; nxt
  | |- context [st2 ?F ?a ?c ?b ?hv] => is_var hv;
      let hn := fresh "h" in let W := fresh "W" in let N := fresh "N" in
      assert (W : wrote hv (st2 F a c b hv) b (F (get hv a) (get hv c))) by (refine (st2_wrote F a c b hv _ _); sd);
      cbv beta in W;
      pose proof (st2_next F a c b hv) as N;
      set (hn := st2 F a c b hv) in *; clearbody hn; nxt
  end.
Ltac absorb := repeat absorb1.

(* evaluate reads through the recorded steps *)
Ltac rd1 :=
  match goal with
  | W : wrote ?hv ?hn ?w ?v |- context [get ?hn ?w] => rewrite (wrote_get _ _ _ _ W)
  | W : wrote ?hv ?hn ?w ?v |- context [get ?hn ?r] => rewrite (wrote_frame _ _ _ _ r W) by first [below_tac | dis_tac]
  | B : bumped ?hv ?hn |- context [get ?hn ?r] => rewrite (bumped_get _ _ r B)
  end.
Ltac rdv := repeat rd1.
Ltac fr1 i :=
  match goal with
  | W : wrote ?hv ?hn ?w ?v |- context [mem ?hn i] => rewrite (wrote_mem _ _ _ _ i W) by first [nxg; lia | notin_tac i]
  | B : bumped ?hv ?hn |- context [mem ?hn i] => rewrite (B i)
  end.
Ltac frv i := repeat fr1 i.
Ltac finish :=
  split; [ rdv; try reflexivity
         | let i := fresh "i" in let Hi := fresh "Hi" in let Hni := fresh "Hni" in
           intros i Hi Hni; frv i; try reflexivity
         | try lia ].

Ltac split_alias Hpre :=
  destruct (alias_cases _ _ _ Hpre) as [(-> & Hnd & Hb) | (He & Hd & Hnd & Hbx & Hbo & Hl)].
Ltac run_leaf := exec; absorb; finish.
Ltac case_ifs := repeat match goal with |- context [if ?c then _ else _] => destruct c end.

Section L2.
Context {T : Type} `{Num T} `{Sqrt T}.
Notation heap := (heap T).

(* every lemma: unfold the REGENERATED program, split on the operator parameters and on x-is-out,
   execute symbolically *)
Lemma l1_ok lam sigma g (h : heap) x out : pre h x out ->
  post h (call_l1 lam sigma g x out h) out (pure_l1 lam sigma g (get h x)).
Proof.
  intros Hpre; split_alias Hpre; unfold call_l1; destruct g as [gv|]; rewrite ?ref_eqb_refl, ?He; run_leaf.
Qed.

Lemma ccl1_ok lam sigma g (h : heap) x out :
  match sigma, g with El sv, Some _ => length sv = length x | _, _ => True end -> pre h x out ->
  post h (call_ccl1 lam sigma g x out h) out (pure_ccl1 lam sigma g (get h x)).
Proof.
  intros Hs Hpre; split_alias Hpre; unfold call_ccl1; destruct g as [gv|], sigma as [s|sv];
    rewrite ?ref_eqb_refl, ?He; run_leaf.
Qed.

Lemma l2sq_ok lam sigma g (h : heap) x out :
  match sigma, g with El sv, Some _ => length sv = length x | _, _ => True end -> pre h x out ->
  post h (call_l2sq lam sigma g x out h) out (pure_l2sq lam sigma g (get h x)).
Proof.
  intros Hs Hpre; split_alias Hpre; unfold call_l2sq; destruct sigma as [s|sv], g as [gv|];
    rewrite ?ref_eqb_refl, ?He; run_leaf.
Qed.

Lemma ccl2sq_ok lam sigma g (h : heap) x out :
  match sigma, g with El sv, Some _ => length sv = length x | _, _ => True end -> pre h x out ->
  post h (call_ccl2sq lam sigma g x out h) out (pure_ccl2sq lam sigma g (get h x)).
Proof.
  intros Hs Hpre; split_alias Hpre; unfold call_ccl2sq; destruct sigma as [s|sv], g as [gv|];
    rewrite ?ref_eqb_refl, ?He; run_leaf.
Qed.

Lemma box_ok lo hi (h : heap) x out : pre h x out ->
  post h (call_box lo hi x out h) out (pure_box lo hi (get h x)).
Proof.
  intros Hpre; split_alias Hpre; unfold call_box, pure_box; destruct lo, hi; cbn [bnd_is andb negb]; run_leaf.
Qed.

Lemma l2_ok w e1p lam sigma g (h : heap) x out :
  match g with Some gv => length gv = length x | None => True end -> pre h x out ->
  post h (call_l2 w e1p lam sigma g x out h) out (pure_l2 w e1p lam sigma g (get h x)).
Proof.
  intros Hg Hpre; split_alias Hpre; unfold call_l2, pure_l2; destruct g as [gv|];
    exec; absorb; rdv; case_ifs; finish.
Qed.

Lemma cckl_ok lam sigma g (h : heap) x out : pre h x out ->
  post h (call_cckl lam sigma g x out h) out (pure_cckl lam sigma g (get h x)).
Proof.
  intros Hpre; split_alias Hpre; unfold call_cckl; rewrite ?ref_eqb_refl, ?He; destruct g as [gv|]; run_leaf.
Qed.

Lemma ccklce_ok lam W (h : heap) x out : (forall v, length (W v) = length v) -> pre h x out ->
  post h (call_ccklce lam W x out h) out (lin one (- lam)%num (get h x) (W (get h x))).
Proof.
  intros HW Hpre; split_alias Hpre; unfold call_ccklce; exec.
  all: absorb1.
  all: match goal with |- context [st1 ?F ?a ?b ?hv] => is_var hv;
         assert (W0 : wrote hv (st1 F a b hv) b (F (get hv a))) by (refine (st1_wrote F a b hv _ _); [sd | rewrite HW; sd]);
         pose proof (st1_next F a b hv) as N0; set (h1 := st1 F a b hv) in *; clearbody h1; nxt end.
  all: absorb; finish.
Qed.

Lemma projl1_ok radius (h : heap) x out : pre h x out ->
  post h (proj_l1 radius x out h) out (pure_projl1 radius (get h x)).
Proof.
  intros Hpre; split_alias Hpre; unfold proj_l1, pure_projl1; exec; absorb; rdv; case_ifs; finish.
Qed.

Lemma sumc_ok s (h : heap) x out : pre h x out ->
  post h (call_sumc s x out h) out (pure_sumc s (get h x)).
Proof.
  intros Hpre; split_alias Hpre; unfold call_sumc, pure_sumc; run_leaf.
Qed.
End L2.
