(* C10/Props.v -- property theorems only; each is closed by [exact] of a lemma
   of C10/Proofs.v and followed by Print Assumptions.

   THE PROGRAMS THE THEOREMS SPEAK ABOUT ARE REGENERATED FROM THE SOURCE ON EVERY RUN:
   [run_ip] / [run_oop] dispatch to the definitions of Gen/ProxCalls.v, which
   translate/prox_calls.py (fail-closed Python-ast translator) re-emits from the current
   `_call` bodies of odl/solvers/nonsmooth/proximal_operators.py (all classes, `proj_l1`),
   of the proximal classes of IndicatorSimplex / IndicatorSumConstraint, and of the in-place and
   out-of-place bodies of the nine expression classes of odl/operator/operator.py and of
   Scaling/Zero/Constant/MultiplyOperator -- with their `x is out` tests, copies and
   temporaries.  Dropping a copy, swapping the aliased / non-aliased branch, or reusing `out`
   as scratch before the last read of `x` makes the proofs below fail.

   Objects (C10/Model.v):  [heap] = buffer id -> array plus an allocation counter;
   an element of a space is the list [ref] of the ids of its leaf arrays; [run_ip e x out h]
   is the heap after the in-place call  e(x, out=out)  (Operator.__call__ -> _call with its
   `x is out` tests and temporaries), [run_oop e x h] the pair (result ref, heap) of the
   out-of-place call  e(x);  [pure e v] is the value-level meaning of the operator tree e
   (leaves: the closed formulas of the proximal factories);  [wfop n e] says that the
   parameters stored in e (g, element-valued sigma, constants) are elements of the space of
   x (they have n leaf arrays) -- the condition under which the library accepts them. *)
From Coq Require Import QArith Reals List Bool.
From Verif Require Import Base.Num Base.Vec C10.Model C10.HeapLemmas C10.Leaves C10.Leaves2 C10.Leaves3 C10.Proofs C10.Values C10.Corr C10.Refuted.
Import ListNotations.

(* T1 (the property).  For EVERY operator tree e over the modelled classes (every proximal
   factory x option at the leaves; OperatorSum, OperatorVectorSum, OperatorComp,
   OperatorPointwiseProduct, Left/RightScalarMult, Left/RightVectorMult, DiagonalOperator
   above them, to any depth), every heap h and every element x living in it:
   after  e(x, out=x)  the buffers of x hold exactly the value-level result computed from the
   OLD contents of x, and no other live buffer has changed. *)
Theorem aliased_call_ok : forall (e : op R) (h : heap R) (x : ref),
  wfop (length x) e -> NoDup x -> below (next h) x ->
  get (run_ip e x x h) x = pure e (get h x)
  /\ (forall i, (i < next h)%nat -> ~ In i x -> mem (run_ip e x x h) i = mem h i).
Proof. exact aliased_gen. Qed.
Print Assumptions aliased_call_ok.

(* T1.  The same call with a separate out (whatever out contained before): same value,
   x itself and every other live buffer unchanged. *)
Theorem separate_call_ok : forall (e : op R) (h : heap R) (x out : ref),
  wfop (length x) e -> NoDup out -> below (next h) x -> below (next h) out -> dis x out ->
  length x = length out ->
  get (run_ip e x out h) out = pure e (get h x)
  /\ get (run_ip e x out h) x = get h x
  /\ (forall i, (i < next h)%nat -> ~ In i out -> mem (run_ip e x out h) i = mem h i).
Proof. exact separate_gen. Qed.
Print Assumptions separate_call_ok.

(* T1.  The out-of-place call  e(x)  returns a NEW element holding the same value and
   modifies nothing that existed before.  [diag_ok e v] is trivially true for trees without
   DiagonalOperator ([no_diag_ok]); for a DiagonalOperator it says that each component operator
   returns an element of its own space (same array lengths) on the input at hand -- the body
   `out = range.zero(); out[i] += op(x[j])` adds the component result to zeros of the SPACE. *)
Theorem out_of_place_call_ok : forall (e : op R) (h : heap R) (x : ref),
  diag_ok e (get h x) -> wfop (length x) e -> below (next h) x ->
  get (snd (run_oop e x h)) (fst (run_oop e x h)) = pure e (get h x)
  /\ above (next h) (fst (run_oop e x h))
  /\ (forall i, (i < next h)%nat -> mem (snd (run_oop e x h)) i = mem h i).
Proof. exact (oop_gen Rplus_comm Rmult_comm R_add_zero). Qed.
Print Assumptions out_of_place_call_ok.

(* T1, literally the property text:  prox(x, out=x) leaves in x exactly the value that
   prox(x) would have returned. *)
Theorem aliased_equals_out_of_place : forall (e : op R) (h : heap R) (x : ref),
  diag_ok e (get h x) -> wfop (length x) e -> NoDup x -> below (next h) x ->
  get (run_ip e x x h) x = get (snd (run_oop e x h)) (fst (run_oop e x h)).
Proof. exact (aliased_eq_oop_gen Rplus_comm Rmult_comm R_add_zero). Qed.
Print Assumptions aliased_equals_out_of_place.

(* ... and so does the separate-out statement: the result is a function of the old x alone, for
   every heap -- in particular over a poisoned carrier (option F with None = NaN/uninitialised,
   every operation strict) a result without None is obtained even when out was None everywhere:
   the old contents of out (and of every fresh temporary) are never read. *)
Theorem separate_call_ok_any_carrier : forall (T : Type) (N : Num T) (S : Sqrt T)
    (e : op T) (h : heap T) (x out : ref),
  wfop (length x) e -> NoDup out -> below (next h) x -> below (next h) out -> dis x out ->
  length x = length out ->
  get (run_ip e x out h) out = pure e (get h x)
  /\ get (run_ip e x out h) x = get h x
  /\ (forall i, (i < next h)%nat -> ~ In i out -> mem (run_ip e x out h) i = mem h i).
Proof. intros T N S; exact separate_gen. Qed.
Print Assumptions separate_call_ok_any_carrier.

Theorem diag_free_trees_need_no_shape_condition : forall (e : op R), no_diag e -> forall v, diag_ok e v.
Proof. exact no_diag_ok. Qed.

(* The aliasing argument uses no law of arithmetic: T1 holds over ANY carrier with the Num
   operations and a square root -- in particular for the executed rational instance and for
   any model of IEEE floats. *)
Theorem aliased_call_ok_any_carrier : forall (T : Type) (N : Num T) (S : Sqrt T)
    (e : op T) (h : heap T) (x : ref),
  wfop (length x) e -> NoDup x -> below (next h) x ->
  get (run_ip e x x h) x = pure e (get h x)
  /\ (forall i, (i < next h)%nat -> ~ In i x -> mem (run_ip e x x h) i = mem h i).
Proof. intros T N S; exact aliased_gen. Qed.
Print Assumptions aliased_call_ok_any_carrier.

(* Instances spelled out for the two factories repaired by fix dd7df25 and for the wrapper
   every Functional.convex_conj.proximal goes through. *)
Theorem prox_l1_aliased_ok : forall (lam : R) (sigma : sval R) (g : option (list (list R))) (h : heap R) (x : ref),
  NoDup x -> below (next h) x ->
  get (call_l1 lam sigma g x x h) x = pure_l1 lam sigma g (get h x).
Proof. exact l1_alias_R. Qed.
Theorem prox_l1_l2_aliased_ok : forall (lam sigma : R) (g : option (list (list R))) (h : heap R) (x : ref),
  NoDup x -> below (next h) x ->
  get (call_l1l2 lam sigma g x x h) x = pure_l1l2 lam sigma g (get h x).
Proof. exact l1l2_alias_R. Qed.
Theorem proximal_convex_conj_aliased_ok : forall (sigma inv_sigma : sval R) (prox : op R) (h : heap R) (x : ref),
  wfop (length x) prox -> NoDup x -> below (next h) x ->
  get (run_ip (o_convex_conj sigma inv_sigma prox) x x h) x
  = lin 1%R 1%R (scal (- 1)%R (mult_val sigma (pure prox (mult_val inv_sigma (get h x))))) (scal 1%R (get h x)).
Proof. exact cc_alias_R. Qed.

(* T1 at the aliased solver call sites (admm_linearized: x.lincomb(1, x, -tau/sigma, tmp_dom);
   prox_tau_f(x, out=x) -- prox_dca / doubleprox_dc: f.proximal(gamma)(x.lincomb(1, x, gamma, grad), out=x)):
   after the two statements x holds prox(a x + b d) of the OLD x, and d is untouched. *)
Theorem solver_call_site_ok : forall (e : op R) (a b : R) (h : heap R) (x d : ref),
  wfop (length x) e -> NoDup x -> below (next h) x -> below (next h) d -> dis d x ->
  get (solver_step e a b x d h) x = pure e (lin a b (get h x) (get h d))
  /\ get (solver_step e a b x d h) d = get h d.
Proof. exact solver_step_gen. Qed.
Print Assumptions solver_call_site_ok.

(* T2.  "The value prox(x) would have returned": the value-level functions are the familiar
   closed forms.  proximal_l1 (scalar step, no data term) is soft thresholding, written as
   u - clip(u) and as sign(u) max(|u| - c, 0); proximal_convex_conj_l1 is the projection onto the
   box [-lam, lam]; the box proximal is min(max(u, lo), hi).  (That these ARE the proximal
   operators of the respective functionals is property C07.) *)
Theorem prox_l1_is_soft_thresholding : forall (lam s : R) (v : list (list R)), (0 < s * lam)%R ->
  pure_l1 lam (Sc s) None v = e1 (fun u => u - clip (s * lam) u)%R v.
Proof. exact l1_value. Qed.
Theorem soft_thresholding_form : forall (c u : R), (0 <= c)%R ->
  (u - clip c u = nsign u * Rmax (Rabs u - c) 0)%R.
Proof. exact soft_threshold. Qed.
Theorem prox_cc_l1_is_box_projection : forall (lam : R) (sigma : sval R) (v : list (list R)), (0 < lam)%R ->
  pure_ccl1 lam sigma None v = e1 (clip lam) v.
Proof. exact ccl1_value. Qed.
Theorem prox_box_is_clamp : forall (lo hi : R) (v : list (list R)),
  pure_box (BSc lo) (BSc hi) v = e1 (fun u => Rmin (Rmax u lo) hi) v.
Proof. exact box_value. Qed.

(* The theorem is sensitive to exactly the defect the property is about: the transcription of
   ProximalL1._call as it was BEFORE fix dd7df25 returns x - x = 0 on an aliased call
   (Refuted.v; executed at Q). *)
Theorem prox_l1_before_fix_dd7df25_refuted :
  exists (lam : Q) (sigma : sval Q) (g : option (list (list Q))) (h : heap Q) (x : ref),
    NoDup x /\ Forall (fun i => (i < next h)%nat) x /\
    Check.Qssclose 0 0 (get (call_l1_before_fix lam sigma g x x h) x) (pure_l1 lam sigma g (get h x)) = false.
Proof. exact old_prox_l1_aliased_refuted. Qed.

(* non-vacuity: the hypotheses are met by a concrete heap and a tree of depth 4, and by a
   DiagonalOperator of two different proximals *)
Example hypotheses_satisfiable :
  let e : op R := o_convex_conj (Sc 2%R) (Sc (/ 2)%R) (OLeaf (LL1 1%R (Sc 1%R) (Some [[1%R; 2%R]]))) in
  let h : heap R := mkH (fun _ => [0%R; 0%R]) 1 in
  wfop (length [0%nat]) e /\ NoDup [0%nat] /\ below (next h) [0%nat] /\ diag_ok e (get h [0%nat]).
Proof. exact hyps_sat_R. Qed.
Example diag_hypotheses_satisfiable :
  let e : op R := ODiag 1 (OLeaf (LL1 1%R (Sc 1%R) None)) (OLeaf (LBox (BSc 0%R) BNone)) in
  let v : list (list R) := [[1%R; 2%R]; [3%R]] in
  wfop 2 e /\ diag_ok e v.
Proof. exact diag_sat_R. Qed.
