(* C10/Props.v -- property theorems only. *)
From Coq Require Import Reals List Bool.
From Verif Require Import Base.Num Base.Vec C10.Model C10.Proofs.
Import ListNotations.
