(* C10/Values.v -- the value-level functions the heap theorems speak about are the familiar
   closed forms (at R): soft thresholding, projection onto a box. *)
From Coq Require Import ZArith Reals Lra Lia List Bool Arith Psatz.
From Verif Require Import Base.Num Base.Vec C10.Model C10.HeapLemmas.
Import ListNotations.
Local Open Scope R_scope.

Definition clip (c d : R) : R := Rmax (- c) (Rmin c d).

Ltac rabs d := destruct (Rle_lt_dec 0 d) as [Hd|Hd]; [rewrite (Rabs_pos_eq d Hd) in * | rewrite (Rabs_left d Hd) in *].
Ltac ifs := repeat match goal with |- context [Rle_dec ?a ?b] => destruct (Rle_dec a b) end.

Lemma div_max_clip (c d : R) : 0 < c -> d / Rmax (1 / c * Rabs d) 1 = clip c d.
Proof.
  intros Hc. unfold clip.
  assert (Hic : 0 < 1 / c) by (unfold Rdiv; rewrite Rmult_1_l; apply Rinv_0_lt_compat; exact Hc).
  assert (E : 1 / c * c = 1) by (field; lra).
  assert (Hk : forall t, 1 / c * t <= 1 <-> t <= c).
  { intros t. generalize dependent (1 / c). intros k Hk E. split; intros Ht; nra. }
  unfold Rmax at 1. destruct (Rle_dec (1 / c * Rabs d) 1) as [Hle|Hgt].
  - apply Hk in Hle. rabs d; unfold Rmin; ifs; unfold Rmax; ifs; try lra; try (field; lra);
      try (replace d with c by lra; field; lra); try (replace d with (- c) by lra; field; lra).
  - assert (Habs : c < Rabs d) by (apply Rnot_le_lt; intros Hle; apply Hgt, Hk, Hle).
    rabs d; unfold Rmin; ifs; unfold Rmax; ifs; try lra; try (field; lra);
      try (replace d with c by lra; field; lra); try (replace d with (- c) by lra; field; lra).
Qed.

Lemma div_maxlam_clip (lam d : R) : 0 < lam -> d / (1 / lam * Rmax (Rabs d) lam) = clip lam d.
Proof.
  intros Hc. unfold clip. rabs d; unfold Rmin; ifs; unfold Rmax; ifs; try lra; try (field; lra);
    try (replace d with lam by lra; field; lra); try (replace d with (- lam) by lra; field; lra).
Qed.

(* zip of a value with a map of itself *)
Lemma vmap2_map_self (f : R -> R -> R) (g : R -> R) (a : list R) :
  vmap2 f a (map g a) = map (fun d => f d (g d)) a.
Proof. induction a as [|u a IH]; cbn; [reflexivity | rewrite IH; reflexivity]. Qed.
Lemma e2_e1_self (f : R -> R -> R) (g : R -> R) (v : list (list R)) :
  e2 f v (e1 g v) = e1 (fun d => f d (g d)) v.
Proof.
  unfold e2, e1. induction v as [|a v IH]; cbn [map pzip hd tl]; [reflexivity|].
  rewrite IH, vmap2_map_self; reflexivity.
Qed.
Lemma e1_e1 (f g : R -> R) (v : list (list R)) : e1 f (e1 g v) = e1 (fun d => f (g d)) v.
Proof. unfold e1. rewrite map_map. apply map_ext; intros a; apply map_map. Qed.
Lemma e1_ext (f g : R -> R) (v : list (list R)) : (forall d, f d = g d) -> e1 f v = e1 g v.
Proof. intros Hfg; unfold e1; apply map_ext; intros a; apply map_ext; exact Hfg. Qed.

Lemma ccl1_value (lam : R) (sigma : sval R) (v : list (list R)) : 0 < lam ->
  pure_ccl1 lam sigma None v = e1 (clip lam) v.
Proof.
  intros Hl. unfold pure_ccl1, scal. rewrite !e1_e1, e2_e1_self. apply e1_ext; intros d.
  numR. rewrite nmax_R. unfold one; numR. apply div_maxlam_clip; exact Hl.
Qed.

Lemma l1_value (lam s : R) (v : list (list R)) : 0 < s * lam ->
  pure_l1 lam (Sc s) None v = e1 (fun u => u - clip (s * lam) u) v.
Proof.
  intros Hc. unfold pure_l1, sval_scale, idiv_sval, scal, lin. rewrite !e1_e1, !e2_e1_self. apply e1_ext; intros d.
  numR. rewrite nmax_R. unfold one; numR. rewrite div_max_clip by exact Hc. lra.
Qed.

Lemma box_value (lo hi : R) (v : list (list R)) :
  pure_box (BSc lo) (BSc hi) v = e1 (fun u => Rmin (Rmax u lo) hi) v.
Proof.
  unfold pure_box, max_bound, min_bound. rewrite e1_e1. apply e1_ext; intros d. rewrite nmin_R, nmax_R. reflexivity.
Qed.

(* u - clip c u  is soft thresholding  sign(u) * max(|u| - c, 0) *)
Lemma soft_threshold (c u : R) : 0 <= c -> u - clip c u = nsign u * Rmax (Rabs u - c) 0.
Proof.
  intros Hc. unfold clip, nsign; numR. unfold Rltb.
  destruct (Rlt_dec 0 u); destruct (Rlt_dec u 0); rabs u; unfold Rmin; ifs; unfold Rmax; ifs; lra.
Qed.
