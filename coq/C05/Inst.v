(* C05/Inst.v -- the two proof instances of the carrier: R (conj = id) and
   R*R (complex numbers); both satisfy the premise [cring_ok] of C05/Alg.v. *)
From Coq Require Import ZArith Reals Lra Field List Bool Ring.
From Verif Require Import Base.Num Base.Vec C05.Model C05.Alg.
Import ListNotations.
Local Open Scope R_scope.

Global Instance Conj_R : Conj R := {| nconj := fun x => x |}.

Lemma cring_ok_R : cring_ok R.
Proof.
  constructor; try (intros; reflexivity).
  - cbn. exact RTheory.
  - intros a b Hb; cbn in *. field. exact Hb.
  - intros a b Hh; cbn in Hh. destruct (Reqb_spec a b); [assumption | discriminate].
Qed.

Notation C := (R * R)%type.
Lemma cring_ok_C : cring_ok C.
Proof.
  constructor.
  - constructor; intros; repeat match goal with p : C |- _ => destruct p end;
      cbn; unfold cx_mul; cbn; f_equal; ring.
  - intros [a1 a2] [b1 b2]; cbn; f_equal; ring.
  - intros [a1 a2] [b1 b2]; cbn; unfold cx_mul; cbn; f_equal; ring.
  - intros [a1 a2]; cbn; f_equal; ring.
  - cbn; f_equal; ring.
  - cbn; f_equal; ring.
  - intros [a1 a2]; cbn; f_equal; ring.
  - intros [a1 a2] [b1 b2] Hb; cbn; unfold cx_mul, cx_div; cbn.
    assert (Hd : b1 * b1 + b2 * b2 <> 0).
    { intros Hz. apply Hb. cbn. assert (b1 = 0) by nra. assert (b2 = 0) by nra. subst; reflexivity. }
    f_equal; field; exact Hd.
  - intros [a1 a2] [b1 b2] Hh; cbn in Hh. apply andb_true_iff in Hh; destruct Hh as [H1 H2].
    destruct (Reqb_spec a1 b1); [| discriminate]. destruct (Reqb_spec a2 b2); [| discriminate]. subst; reflexivity.
Qed.
