(* C05/Transfer.v -- the model executed by the correspondence shards (carriers Q and Q*Q) is the
   restriction of the model the theorems are about (carriers R and R*R): every carrier homomorphism
   [h] (all Num operations, conjugation, the equality test; division where the divisor is not zero)
   commutes with [eval] and with [adjoint].  Instantiated with Q2R (Base/Transfer.v) and with its
   componentwise lift to complex pairs. *)
From Coq Require Import ZArith QArith Qreals Reals Lra Lia List Bool.
From Verif Require Import Base.Num Base.Vec Base.Transfer Lib.Axis C13.Syntax Gen.FiniteDiff C13.Model C13.ModelNd
  C05.Model C05.Proofs.
Import ListNotations.
Local Open Scope num_scope.

Section Hom.
Context {A B : Type} {NA : Num A} {CA : Conj A} {NB : Num B} {CB : Conj B}.
Variable h : A -> B.
Record hom_ok : Prop := {
  h_zero : h nzero = nzero; h_one : h none_ = none_;
  h_add : forall a b, h (a + b) = h a + h b; h_sub : forall a b, h (a - b) = h a - h b;
  h_mul : forall a b, h (a * b) = h a * h b; h_opp : forall a, h (- a) = - h a;
  h_conj : forall a, h (nconj a) = nconj (h a);
  h_div : forall a b, (b =? nzero) = false -> h (a / b) = h a / h b;
  h_eqb : forall a b, (a =? b) = (h a =? h b) }.
Hypothesis HH : hom_ok.
Notation hv := (map h).
Notation hm := (map (map h)).

Lemma h_vmap2 (f : A -> A -> A) (g : B -> B -> B) (x y : list A) :
  (forall a b, h (f a b) = g (h a) (h b)) -> hv (vmap2 f x y) = vmap2 g (hv x) (hv y).
Proof.
  intros Hf. revert y; induction x as [|a x IH]; intros [|b y]; try reflexivity.
  cbn [vmap2 map]. rewrite Hf, IH. reflexivity.
Qed.
Lemma h_vadd x y : hv (vadd x y) = vadd (hv x) (hv y). Proof. apply h_vmap2, (h_add HH). Qed.
Lemma h_vsub x y : hv (vsub x y) = vsub (hv x) (hv y). Proof. apply h_vmap2, (h_sub HH). Qed.
Lemma h_vmul x y : hv (vmul x y) = vmul (hv x) (hv y). Proof. apply h_vmap2, (h_mul HH). Qed.
Lemma h_vscal s x : hv (vscal s x) = vscal (h s) (hv x).
Proof. unfold vscal. rewrite !map_map. apply map_ext. intros; apply (h_mul HH). Qed.
Lemma h_vconj x : hv (vconj x) = vconj (hv x).
Proof. unfold vconj. rewrite !map_map. apply map_ext. intros; apply (h_conj HH). Qed.
Lemma h_sumf (l : list A) : h (sumf l) = sumf (hv l).
Proof. induction l as [|a l IH]; cbn [sumf map]; [apply (h_zero HH)|]. rewrite (h_add HH), IH. reflexivity. Qed.
Lemma h_dot x y : h (dot x y) = dot (hv x) (hv y).
Proof. unfold dot. rewrite h_sumf, h_vmul. reflexivity. Qed.
Lemma h_cinner w x y : h (cinner w x y) = cinner (hv w) (hv x) (hv y).
Proof. unfold cinner, wdot. rewrite h_sumf, !h_vmul, h_vconj. reflexivity. Qed.
Lemma map_repeat' {X Y} (f : X -> Y) (a : X) n : map f (repeat a n) = repeat (f a) n.
Proof. induction n; [reflexivity|]. cbn [repeat map]. f_equal. assumption. Qed.
Lemma h_zeros n : hv (zeros n) = zeros n.
Proof. unfold zeros. rewrite map_repeat', (h_zero HH). reflexivity. Qed.
Lemma h_ones n : hv (ones n) = ones n.
Proof. unfold ones. rewrite map_repeat', (h_one HH). reflexivity. Qed.
Lemma h_nth (l : list A) i : h (nth i l nzero) = nth i (hv l) nzero.
Proof. rewrite <- (h_zero HH). symmetry. apply map_nth. Qed.
Lemma h_gather idx x : hv (gather idx x) = gather idx (hv x).
Proof. unfold gather. rewrite map_map. apply map_ext. intros; apply h_nth. Qed.
Lemma h_add_at i v (l : list A) : hv (add_at i v l) = add_at i (h v) (hv l).
Proof.
  revert i; induction l as [|a l IH]; intros [|i]; cbn [add_at map]; try reflexivity.
  - rewrite (h_add HH). reflexivity.
  - rewrite IH. reflexivity.
Qed.
Lemma h_scatter n idx y : hv (scatter n idx y) = scatter n idx (hv y).
Proof.
  revert y; induction idx as [|i idx IH]; intros y; cbn [scatter]; [apply h_zeros|].
  destruct y as [|b y]; cbn [map scatter]; [apply h_zeros|]. rewrite h_add_at, IH. reflexivity.
Qed.
Lemma h_mvec M x : hv (mvec M x) = mvec (hm M) (hv x).
Proof. unfold mvec. rewrite !map_map. apply map_ext. intros; apply h_dot. Qed.
Lemma h_zipcons (r : list A) cols : hm (zipcons r cols) = zipcons (hv r) (hm cols).
Proof.
  revert cols; induction r as [|a r IH]; intros [|c cols]; try reflexivity.
  cbn [zipcons map]. rewrite IH. reflexivity.
Qed.
Lemma h_transpose n M : hm (transpose n M) = transpose n (hm M).
Proof.
  induction M as [|r M IH]; cbn [transpose map]; [rewrite map_repeat'; reflexivity|].
  rewrite h_zipcons, IH. reflexivity.
Qed.
Lemma h_conjT n M : hm (conjT n M) = conjT n (hm M).
Proof.
  unfold conjT. rewrite h_transpose. f_equal. rewrite !map_map. apply map_ext. intros; apply h_vconj.
Qed.
Lemma h_pweights pw ws : hv (pweights pw ws) = pweights (hv pw) (hm ws).
Proof.
  revert ws; induction pw as [|p pw IH]; intros [|w ws]; try reflexivity.
  cbn [pweights map]. rewrite map_app, IH. f_equal. rewrite !map_map. apply map_ext. intros; apply (h_mul HH).
Qed.
Lemma h_ptinner n g ow x : hv (ptinner n g ow x) = ptinner n (hm g) (hv ow) (hv x).
Proof.
  revert ow x; induction g as [|gi g IH]; intros [|o ow] x; cbn [ptinner map]; try apply h_zeros.
  assert (E : hv (map (nmul o) (vmul (firstn n x) (vconj gi))) =
              map (nmul (h o)) (vmul (firstn n (hv x)) (vconj (hv gi)))).
  { change (map (nmul o)) with (vscal o). rewrite h_vscal, h_vmul, h_vconj, firstn_map. reflexivity. }
  destruct g as [|g2 g]; cbn [map]; [exact E|].
  rewrite h_vadd, E, IH, skipn_map. reflexivity.
Qed.
Definition nz (a : A) : Prop := (a =? nzero) = false.
Lemma h_ptinner_adj g pw ow f : Forall nz pw ->
  hv (ptinner_adj g pw ow f) = ptinner_adj (hm g) (hv pw) (hv ow) (hv f).
Proof.
  intros Hpw; revert g ow; induction Hpw as [|p pw Hp _ IH]; intros [|gi g] [|o ow]; try reflexivity.
  cbn [ptinner_adj map]. rewrite map_app, IH. f_equal.
  rewrite <- (h_eqb HH). destruct (o =? p); [apply h_vmul|].
  rewrite !map_map. rewrite <- h_vmul. rewrite map_map. apply map_ext. intros a.
  rewrite (h_mul HH), (h_div HH) by exact Hp. reflexivity.
Qed.
Lemma h_cscale sr si x : hv (cscale sr si x) = cscale (h sr) (h si) (hv x).
Proof.
  unfold cscale. rewrite map_length, map_app, h_vsub, h_vadd, !h_vscal, firstn_map, skipn_map. reflexivity.
Qed.

(* ---- N-d: "apply along an axis" commutes with an elementwise map ---- *)
Lemma h_chunks k n (l : list A) : hm (chunks k n l) = chunks k n (hv l).
Proof.
  revert l; induction n as [|n IH]; intros l; cbn [chunks map]; [reflexivity|].
  rewrite IH, firstn_map, skipn_map. reflexivity.
Qed.
Lemma h_azipcons (r : list A) cols : hm (Axis.zipcons r cols) = Axis.zipcons (hv r) (hm cols).
Proof.
  revert cols; induction r as [|a r IH]; intros [|c cols]; try reflexivity.
  cbn [Axis.zipcons map]. rewrite IH. reflexivity.
Qed.
Lemma h_transp n (M : list (list A)) : hm (transp n M) = transp n (hm M).
Proof.
  induction M as [|r M IH]; cbn [transp map]; [rewrite map_repeat'; reflexivity|].
  rewrite h_azipcons, IH. reflexivity.
Qed.
Lemma h_along outer n inner n' (F : list A -> list A) (G : list B -> list B) (x : list A) :
  (forall l, hv (F l) = G (hv l)) -> hv (along outer n inner n' F x) = along outer n inner n' G (hv x).
Proof.
  intros HF. unfold along. rewrite concat_map, map_map, <- h_chunks, map_map. f_equal. apply map_ext. intros blk.
  unfold along_block. rewrite concat_map, h_transp, <- h_chunks, <- (h_transp inner (chunks inner n blk)). f_equal. f_equal.
  rewrite !map_map. apply map_ext. intros l. apply HF.
Qed.

(* ---- leaves and trees ---- *)
Definition lmap (l : leaf A) : leaf B :=
  match l with
  | LScaling w s => LScaling (hv w) (h s)
  | LMultiply w v => LMultiply (hv w) (hv v)
  | LMulField w v => LMulField (hv w) (hv v)
  | LInner w v => LInner (hv w) (hv v)
  | LZero wd wr => LZero (hv wd) (hv wr)
  | LMatrix wd wr M => LMatrix (hv wd) (hv wr) (hm M)
  | LMatrixAx wd wr sh ax M => LMatrixAx (hv wd) (hv wr) sh ax (hm M)
  | LSampling wd idx b cv => LSampling (hv wd) idx b (h cv)
  | LWSum wr idx b cv => LWSum (hv wr) idx b (h cv)
  | LFlatten wd perm cv => LFlatten (hv wd) perm (h cv)
  | LUnflatten wr perm cv => LUnflatten (hv wr) perm (h cv)
  | LProj ws pw i => LProj (hm ws) (hv pw) i
  | LProjAdj ws pw i => LProjAdj (hm ws) (hv pw) i
  | LProjM ws pw idxs acc => LProjM (hm ws) (hv pw) idxs acc
  | LProjMAdj ws pw idxs acc => LProjMAdj (hm ws) (hv pw) idxs acc
  | LPtInner wb pw g ow => LPtInner (hv wb) (hv pw) (hm g) (hv ow)
  | LPtInnerAdj wb pw g ow => LPtInnerAdj (hv wb) (hv pw) (hm g) (hv ow)
  | LResize wd wr rm i o f => LResize (hv wd) (hv wr) rm i o f
  | LResizeAdj wd wr rm i o f => LResizeAdj (hv wd) (hv wr) rm i o f
  | LPDeriv wd wr sh ax m p dx => LPDeriv (hv wd) (hv wr) sh ax m p (h dx)
  | LGrad wd wr sh m p dxs => LGrad (hv wd) (hv wr) sh m p (hv dxs)
  | LDiv wd wr sh m p dxs => LDiv (hv wd) (hv wr) sh m p (hv dxs)
  | LLap wd wr sh p dxs => LLap (hv wd) (hv wr) sh p (hv dxs)
  | LRealR w => LRealR (hv w) | LImagR w => LImagR (hv w)
  | LRealC w => LRealC (hv w) | LImagC w => LImagC (hv w)
  | LEmbedR w sr si => LEmbedR (hv w) (h sr) (h si)
  | LEmbedC w sr si => LEmbedC (hv w) (h sr) (h si)
  end.
Fixpoint omap (e : oexpr A) : oexpr B :=
  match e with
  | Leaf l => Leaf (lmap l)
  | Sum a b => Sum (omap a) (omap b)
  | Comp a b => Comp (omap a) (omap b)
  | LScal s a => LScal (h s) (omap a)
  | RScal a s => RScal (omap a) (h s)
  | LVec v a => LVec (hv v) (omap a)
  | RVec a v => RVec (omap a) (hv v)
  | FLVec wv v a => FLVec (hv wv) (hv v) (omap a)
  | Reduce l => Reduce (map omap l)
  | Bcast l => Bcast (map omap l)
  | Diag l => Diag (map omap l)
  end.

(* leaves whose evaluation is built from the carrier operations only (finite differences and
   resizing go through the interpreters of C13 / C16, whose own transfer theorems are
   C13.Transfer.fd_transfer and C16.Transfer.resize1_transfer) *)
Definition algebraic (l : leaf A) : Prop :=
  match l with
  | LResize _ _ _ _ _ _ | LResizeAdj _ _ _ _ _ _ | LPDeriv _ _ _ _ _ _ _ | LGrad _ _ _ _ _ _
  | LDiv _ _ _ _ _ _ | LLap _ _ _ _ _ => False
  | _ => True
  end.
(* divisors that occur in the evaluation / in the returned adjoint are not zero *)
Definition divs_ok (l : leaf A) : Prop :=
  match l with
  | LSampling _ _ _ cv | LWSum _ _ _ cv | LFlatten _ _ cv | LUnflatten _ _ cv => nz cv
  | LPtInner _ pw _ _ | LPtInnerAdj _ pw _ _ => Forall nz pw
  | _ => True
  end.

Lemma hm_nth (ws : list (list A)) i : hv (nth i ws []) = nth i (hm ws) [].
Proof. change (@nil B) with (hv []). symmetry. apply map_nth. Qed.
Lemma hm_firstn_concat (ws : list (list A)) i : length (concat (firstn i (hm ws))) = length (concat (firstn i ws)).
Proof. rewrite firstn_map, <- concat_map, map_length. reflexivity. Qed.
Lemma h_offset (ws : list (list A)) i : offset (hm ws) i = offset ws i.
Proof. unfold offset. apply hm_firstn_concat. Qed.
Lemma h_total (ws : list (list A)) : total (hm ws) = total ws.
Proof. unfold total. rewrite <- concat_map, map_length. reflexivity. Qed.

Lemma h_blocks_w (ws : list (list A)) idxs :
  hv (concat (map (fun i => nth i ws []) idxs)) = concat (map (fun i => nth i (hm ws) []) idxs).
Proof. rewrite concat_map, map_map. f_equal. apply map_ext. intros i. apply hm_nth. Qed.
Lemma leaf_dom_lmap l : leaf_dom (lmap l) = hv (leaf_dom l).
Proof.
  destruct l; cbn [lmap leaf_dom]; rewrite ?map_length, ?h_ones, ?map_app, ?h_pweights; try reflexivity;
    first [ apply (eq_sym (hm_nth _ _)) | apply (eq_sym (h_blocks_w _ _))
          | (f_equal; rewrite !map_map; reflexivity) | (cbn; rewrite (h_one HH); reflexivity) ].
Qed.
Lemma leaf_ran_lmap l : leaf_ran (lmap l) = hv (leaf_ran l).
Proof.
  destruct l; cbn [lmap leaf_ran]; rewrite ?map_length, ?h_ones, ?map_app, ?h_pweights; try reflexivity;
    first [ apply (eq_sym (hm_nth _ _)) | apply (eq_sym (h_blocks_w _ _))
          | (f_equal; rewrite !map_map; reflexivity) | (cbn; rewrite (h_one HH); reflexivity) ].
Qed.

Lemma h_block (ws : list (list A)) i x : hv (block ws i x) = block (hm ws) i (hv x).
Proof. unfold block. rewrite <- hm_nth, map_length, h_offset, skipn_map, firstn_map. reflexivity. Qed.
Lemma h_set_block (ws : list (list A)) i b out : hv (set_block ws i b out) = set_block (hm ws) i (hv b) (hv out).
Proof. unfold set_block. rewrite !map_app, <- hm_nth, map_length, h_offset, skipn_map, firstn_map. reflexivity. Qed.
Lemma h_add_block (ws : list (list A)) i b out : hv (add_block ws i b out) = add_block (hm ws) i (hv b) (hv out).
Proof.
  unfold add_block. rewrite !map_app, h_vadd, h_block, <- hm_nth, map_length, h_offset, skipn_map, firstn_map. reflexivity.
Qed.
Lemma h_put_blocks acc (ws : list (list A)) idxs : forall y out,
  hv (put_blocks acc ws idxs y out) = put_blocks acc (hm ws) idxs (hv y) (hv out).
Proof.
  induction idxs as [|i r IH]; intros y out; [reflexivity|]. cbn [put_blocks].
  rewrite IH. destruct acc; rewrite ?h_set_block, ?h_add_block, <- hm_nth, map_length, skipn_map, firstn_map; reflexivity.
Qed.

Theorem eval_leaf_transfer (l : leaf A) (x : list A) : algebraic l -> divs_ok l ->
  hv (eval_leaf l x) = eval_leaf (lmap l) (hv x).
Proof.
  destruct l; cbn [algebraic divs_ok lmap eval_leaf]; intros Ha Hd; try contradiction.
  - apply h_vscal.
  - apply h_vmul.
  - rewrite h_vscal, h_nth. reflexivity.
  - cbn [map]. rewrite h_cinner. reflexivity.
  - rewrite map_length. apply h_zeros.
  - apply h_mvec.
  - rewrite map_length. apply h_along. intros; apply h_mvec.
  - destruct integrate; [|apply h_gather]. rewrite map_map, <- h_gather, map_map. apply map_ext. intros; apply (h_mul HH).
  - rewrite map_length. destruct dirac; [|apply h_scatter].
    rewrite map_map, <- h_scatter, map_map. apply map_ext. intros; apply (h_div HH); exact Hd.
  - apply h_gather.
  - rewrite map_length. apply h_scatter.
  - rewrite <- hm_nth, map_length, h_offset, skipn_map, firstn_map. reflexivity.
  - rewrite !map_app, !h_zeros, h_offset, h_total, <- hm_nth, map_length. reflexivity.
  - rewrite concat_map, map_map. f_equal. apply map_ext. intros; apply h_block.
  - rewrite h_put_blocks, h_zeros, h_total. reflexivity.
  - rewrite map_length. apply h_ptinner.
  - apply h_ptinner_adj; exact Hd.
  - reflexivity.
  - rewrite map_length. apply h_zeros.
  - rewrite map_length, firstn_map. reflexivity.
  - rewrite map_length, skipn_map. reflexivity.
  - rewrite map_app, !h_vscal. reflexivity.
  - apply h_cscale.
Qed.

(* ---- trees ---- *)
Lemma dom_omap (e : oexpr A) : dom (omap e) = hv (dom e).
Proof.
  induction e as [l|a b IHa IHb|a b IHa IHb|s a IHa|a s IHa|v a IHa|a v IHa|wv v a IHa|l IHl|l IHl|l IHl]
    using oexpr_ind'; cbn [omap dom]; auto using leaf_dom_lmap.
  - rewrite concat_map, !map_map. f_equal. induction IHl as [|c m Hc _ IHm]; [reflexivity|]. cbn [map]. rewrite Hc, IHm. reflexivity.
  - destruct IHl as [|c m Hc _]; [reflexivity|]. cbn [map]. exact Hc.
  - rewrite concat_map, !map_map. f_equal. induction IHl as [|c m Hc _ IHm]; [reflexivity|]. cbn [map]. rewrite Hc, IHm. reflexivity.
Qed.
Lemma ran_omap (e : oexpr A) : ran (omap e) = hv (ran e).
Proof.
  induction e as [l|a b IHa IHb|a b IHa IHb|s a IHa|a s IHa|v a IHa|a v IHa|wv v a IHa|l IHl|l IHl|l IHl]
    using oexpr_ind'; cbn [omap ran]; auto using leaf_ran_lmap.
  - destruct IHl as [|c m Hc _]; [reflexivity|]. cbn [map]. exact Hc.
  - rewrite concat_map, !map_map. f_equal. induction IHl as [|c m Hc _ IHm]; [reflexivity|]. cbn [map]. rewrite Hc, IHm. reflexivity.
  - rewrite concat_map, !map_map. f_equal. induction IHl as [|c m Hc _ IHm]; [reflexivity|]. cbn [map]. rewrite Hc, IHm. reflexivity.
Qed.
Lemma len_dom_omap (e : oexpr A) : length (dom (omap e)) = length (dom e).
Proof. rewrite dom_omap. apply map_length. Qed.

Definition leaf_fine (l : leaf A) : Prop := algebraic l /\ divs_ok l.

Theorem eval_transfer_gen (P : leaf A -> Prop) :
  (forall l x, P l -> hv (eval_leaf l x) = eval_leaf (lmap l) (hv x)) ->
  forall e : oexpr A, Forall P (leaves e) -> forall x, hv (eval e x) = eval (omap e) (hv x).
Proof.
  intros HP e.
  induction e as [l|a b IHa IHb|a b IHa IHb|s a IHa|a s IHa|v a IHa|a v IHa|wv v a IHa|l IHl|l IHl|l IHl]
    using oexpr_ind'; cbn [leaves]; intros Hl x.
  - cbn [omap eval]. apply HP. exact (Forall_inv Hl).
  - apply Forall_app in Hl; destruct Hl as [L1 L2]. cbn [omap eval]. rewrite h_vadd, IHa, IHb by assumption. reflexivity.
  - apply Forall_app in Hl; destruct Hl as [L1 L2]. cbn [omap eval]. rewrite IHa, IHb by assumption. reflexivity.
  - cbn [omap eval]. rewrite h_vscal, IHa by assumption. reflexivity.
  - cbn [omap eval]. rewrite IHa, h_vscal by assumption. reflexivity.
  - cbn [omap eval]. rewrite h_vmul, IHa by assumption. reflexivity.
  - cbn [omap eval]. rewrite IHa, h_vmul by assumption. reflexivity.
  - cbn [omap eval]. rewrite h_vscal, h_nth, IHa by assumption. reflexivity.
  - cbn [omap]. rewrite !eval_Reduce. revert x Hl. induction IHl as [|c m Hc _ IHm]; intros x Hl; [reflexivity|].
    cbn [flat_map] in Hl. apply Forall_app in Hl; destruct Hl as [L1 L2].
    cbn [map reduce_go]. rewrite len_dom_omap. destruct m as [|c2 m].
    + cbn [map]. rewrite Hc, firstn_map by assumption. reflexivity.
    + cbn [map]. cbn [map] in IHm. rewrite h_vadd, Hc, IHm, firstn_map, skipn_map by assumption. reflexivity.
  - cbn [omap]. rewrite !eval_Bcast. revert Hl. induction IHl as [|c m Hc _ IHm]; intros Hl; [reflexivity|].
    cbn [flat_map] in Hl. apply Forall_app in Hl; destruct Hl as [L1 L2].
    cbn [map bcast_go]. rewrite map_app, Hc, IHm by assumption. reflexivity.
  - cbn [omap]. rewrite !eval_Diag. revert x Hl. induction IHl as [|c m Hc _ IHm]; intros x Hl; [reflexivity|].
    cbn [flat_map] in Hl. apply Forall_app in Hl; destruct Hl as [L1 L2].
    cbn [map diag_go]. rewrite len_dom_omap, map_app, Hc, IHm, firstn_map, skipn_map by assumption. reflexivity.
Qed.
Corollary eval_transfer (e : oexpr A) : Forall leaf_fine (leaves e) ->
  forall x, hv (eval e x) = eval (omap e) (hv x).
Proof. apply eval_transfer_gen. intros l x [Ha Hd]. apply eval_leaf_transfer; assumption. Qed.

(* ---- the returned adjoint ---- *)
Lemma omap_mk_lscal s (e : oexpr A) : omap (mk_lscal s e) = mk_lscal (h s) (omap e).
Proof. destruct e; try reflexivity. cbn [mk_lscal omap]. rewrite (h_mul HH). reflexivity. Qed.
Lemma leaf_adjoint_transfer (l : leaf A) : divs_ok l -> omap (leaf_adjoint l) = leaf_adjoint (lmap l).
Proof.
  destruct l; cbn [divs_ok leaf_adjoint lmap omap]; intros Hd;
    rewrite ?(h_conj HH), ?h_vconj, ?h_conjT, ?map_length, ?(h_opp HH), ?(h_one HH), ?(h_zero HH); try reflexivity.
  - rewrite (h_div HH), (h_one HH) by exact Hd. reflexivity.
  - rewrite <- !(h_zero HH), <- !(h_eqb HH), ?(h_zero HH).
    destruct (si =? nzero); [reflexivity|]. destruct (sr =? nzero); reflexivity.
Qed.
Theorem adjoint_transfer (e : oexpr A) : Forall divs_ok (leaves e) -> omap (adjoint e) = adjoint (omap e).
Proof.
  induction e as [l|a b IHa IHb|a b IHa IHb|s a IHa|a s IHa|v a IHa|a v IHa|wv v a IHa|l IHl|l IHl|l IHl]
    using oexpr_ind'; cbn [leaves]; intros Hl; cbn [adjoint omap].
  - apply leaf_adjoint_transfer. exact (Forall_inv Hl).
  - apply Forall_app in Hl; destruct Hl as [L1 L2]. rewrite IHa, IHb by assumption. reflexivity.
  - apply Forall_app in Hl; destruct Hl as [L1 L2]. rewrite IHa, IHb by assumption. reflexivity.
  - rewrite omap_mk_lscal, (h_conj HH), IHa by assumption. reflexivity.
  - rewrite omap_mk_lscal, (h_conj HH), IHa by assumption. reflexivity.
  - rewrite h_vconj, IHa by assumption. reflexivity.
  - rewrite h_vconj, IHa by assumption. reflexivity.
  - rewrite IHa by assumption. reflexivity.
  - f_equal. rewrite !map_map. revert Hl. induction IHl as [|c m Hc _ IHm]; intros Hl; [reflexivity|].
    cbn [flat_map] in Hl. apply Forall_app in Hl; destruct Hl as [L1 L2]. cbn [map]. rewrite Hc, IHm by assumption. reflexivity.
  - f_equal. rewrite !map_map. revert Hl. induction IHl as [|c m Hc _ IHm]; intros Hl; [reflexivity|].
    cbn [flat_map] in Hl. apply Forall_app in Hl; destruct Hl as [L1 L2]. cbn [map]. rewrite Hc, IHm by assumption. reflexivity.
  - f_equal. rewrite !map_map. revert Hl. induction IHl as [|c m Hc _ IHm]; intros Hl; [reflexivity|].
    cbn [flat_map] in Hl. apply Forall_app in Hl; destruct Hl as [L1 L2]. cbn [map]. rewrite Hc, IHm by assumption. reflexivity.
Qed.
End Hom.

(* ================= the two instances ================= *)
From Verif Require Import C05.Inst.

Lemma Qnz (b : Q) : (b =? nzero)%num = false -> ~ (b == 0)%Q.
Proof. cbn [neqb nzero Num_Q]. intros Hb E. apply Qeq_bool_iff in E. congruence. Qed.

Lemma hom_ok_Q2R : hom_ok Q2R.
Proof.
  constructor.
  - exact Q2R_nzero.
  - exact Q2R_none.
  - exact Q2R_nadd.
  - exact Q2R_nsub.
  - exact Q2R_nmul.
  - exact Q2R_nopp.
  - reflexivity.
  - intros a b Hb. apply Q2R_ndiv, Qnz, Hb.
  - exact Q2R_neqb.
Qed.

Definition Q2C (z : Q * Q) : R * R := (Q2R (fst z), Q2R (snd z)).
Lemma hom_ok_Q2C : hom_ok Q2C.
Proof.
  constructor; unfold Q2C.
  - cbn [nzero Num_Cx fst snd]. rewrite Q2R_nzero. reflexivity.
  - cbn [nzero none_ Num_Cx fst snd]. rewrite Q2R_nzero, Q2R_none. reflexivity.
  - intros [a1 a2] [b1 b2]. cbn [nadd Num_Cx fst snd]. rewrite !Q2R_nadd. reflexivity.
  - intros [a1 a2] [b1 b2]. cbn [nsub Num_Cx fst snd]. rewrite !Q2R_nsub. reflexivity.
  - intros [a1 a2] [b1 b2]. cbn [nmul Num_Cx cx_mul fst snd]. rewrite Q2R_nsub, Q2R_nadd, !Q2R_nmul. reflexivity.
  - intros [a1 a2]. cbn [nopp Num_Cx fst snd]. rewrite !Q2R_nopp. reflexivity.
  - intros [a1 a2]. cbn [nconj Conj_Cx fst snd]. rewrite Q2R_nopp. reflexivity.
  - intros [a1 a2] [b1 b2] Hb. cbn [ndiv Num_Cx cx_div fst snd].
    assert (Hd : ~ ((b1 * b1 + b2 * b2)%num == 0)%Q).
    { intros E. apply Qeq_eqR in E. rewrite Q2R_nadd, !Q2R_nmul in E. cbn [nadd nmul Num_R] in E.
      change (Q2R 0) with (Q2R (0 # 1)) in E. rewrite RMicromega.Q2R_0 in E.
      assert (E1 : Q2R b1 = 0%R) by nra. assert (E2 : Q2R b2 = 0%R) by nra.
      cbn [neqb Num_Cx nzero fst snd Num_Q] in Hb.
      rewrite <- RMicromega.Q2R_0 in E1, E2. apply eqR_Qeq in E1, E2.
      apply Qeq_bool_iff in E1, E2. rewrite E1, E2 in Hb. discriminate. }
    rewrite !Q2R_ndiv by exact Hd. rewrite !Q2R_nadd, !Q2R_nsub, !Q2R_nmul. reflexivity.
  - intros [a1 a2] [b1 b2]. cbn [neqb Num_Cx fst snd]. rewrite <- !Q2R_neqb. reflexivity.
Qed.

Lemma fine_divs {X} {NX : Num X} (ls : list (leaf X)) : Forall leaf_fine ls -> Forall divs_ok ls.
Proof. induction 1 as [|l ls [_ Hd] _ IH]; constructor; assumption. Qed.

(* the model executed at Q is the rational restriction of the model at R: evaluation of the operator,
   the expression returned as adjoint, and its evaluation *)
Lemma transfer_real (e : oexpr Q) : Forall leaf_fine (leaves e) -> Forall leaf_fine (leaves (adjoint e)) ->
  (forall x, map Q2R (eval e x) = eval (omap Q2R e) (map Q2R x)) /\
  omap Q2R (adjoint e) = adjoint (omap Q2R e) /\
  (forall y, map Q2R (eval (adjoint e) y) = eval (adjoint (omap Q2R e)) (map Q2R y)).
Proof.
  intros H1 H2. split; [|split].
  - apply (eval_transfer Q2R hom_ok_Q2R); assumption.
  - apply (adjoint_transfer Q2R hom_ok_Q2R), fine_divs; assumption.
  - intros y. rewrite <- (adjoint_transfer Q2R hom_ok_Q2R) by (apply fine_divs; assumption).
    apply (eval_transfer Q2R hom_ok_Q2R); assumption.
Qed.
Lemma transfer_complex (e : oexpr (Q * Q)) : Forall leaf_fine (leaves e) -> Forall leaf_fine (leaves (adjoint e)) ->
  (forall x, map Q2C (eval e x) = eval (omap Q2C e) (map Q2C x)) /\
  omap Q2C (adjoint e) = adjoint (omap Q2C e) /\
  (forall y, map Q2C (eval (adjoint e) y) = eval (adjoint (omap Q2C e)) (map Q2C y)).
Proof.
  intros H1 H2. split; [|split].
  - apply (eval_transfer Q2C hom_ok_Q2C); assumption.
  - apply (adjoint_transfer Q2C hom_ok_Q2C), fine_divs; assumption.
  - intros y. rewrite <- (adjoint_transfer Q2C hom_ok_Q2C) by (apply fine_divs; assumption).
    apply (eval_transfer Q2C hom_ok_Q2C); assumption.
Qed.
