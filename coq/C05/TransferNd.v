(* C05/TransferNd.v -- the Q -> R transfer for the leaves that go through the interpreters of C13
   (finite differences) and C16 (resizing): with C13.Transfer.fd_transfer and C16.Transfer.resize1_transfer
   every leaf of the model transfers, hence every tree. *)
From Coq Require Import ZArith QArith Qreals Reals Lra Lia List Bool.
From Verif Require Import Base.Num Base.Vec Base.Transfer Lib.Axis C13.Syntax Gen.FiniteDiff C13.Model C13.ModelNd
  C05.Model C05.Proofs C05.Inst C05.Transfer.
From Verif Require C13.Transfer C16.Syntax Gen.Padding C16.Model C16.ModelNd C16.Transfer.
Import ListNotations.
Local Open Scope num_scope.

Notation QR := (map Q2R).
Notation HQ := hom_ok_Q2R.

Lemma nzQ (a : Q) : nz a -> ~ (a == 0)%Q.
Proof. exact (Qnz a). Qed.

Lemma pderiv_t sh ax m p (dx : Q) (x : list Q) : nz dx ->
  QR (pderiv sh ax m p nzero dx x) = pderiv sh ax m p nzero (Q2R dx) (QR x).
Proof.
  intros Hdx. unfold pderiv, along_axis. apply (h_along Q2R).
  intros l. rewrite (C13.Transfer.fd_transfer m p nzero dx l (nzQ dx Hdx)). rewrite Q2R_nzero. reflexivity.
Qed.
Lemma gradient_from_t sh m p : forall (dxs : list Q) ax (x : list Q), Forall nz dxs ->
  map QR (gradient_from sh ax m p nzero dxs x) = gradient_from sh ax m p nzero (QR dxs) (QR x).
Proof.
  induction dxs as [|dx dxs IH]; intros ax x Hd; [reflexivity|].
  cbn [gradient_from map]. rewrite pderiv_t by exact (Forall_inv Hd). rewrite IH by exact (Forall_inv_tail Hd). reflexivity.
Qed.
Lemma divergence_from_t sh m p : forall (dxs : list Q) (xs : list (list Q)) ax (acc : option (list Q)), Forall nz dxs ->
  option_map QR (divergence_from sh ax m p nzero dxs xs acc) =
  divergence_from sh ax m p nzero (QR dxs) (map QR xs) (option_map QR acc).
Proof.
  induction dxs as [|dx dxs IH]; intros [|x xs] ax acc Hd; try reflexivity.
  cbn [divergence_from map]. rewrite IH by exact (Forall_inv_tail Hd). f_equal.
  rewrite <- pderiv_t by exact (Forall_inv Hd). destruct acc as [a|]; cbn [option_map]; [|reflexivity].
  rewrite (h_vadd Q2R HQ). reflexivity.
Qed.
Lemma split_at_t ns (x : list Q) : map QR (split_at ns x) = split_at ns (QR x).
Proof. revert x; induction ns as [|n ns IH]; intros x; [reflexivity|]. cbn [split_at map]. rewrite IH, firstn_map, skipn_map. reflexivity. Qed.
Lemma nz_sq (dx : Q) : nz dx -> nz (dx * dx).
Proof.
  intros Hd. unfold nz in *. cbn [neqb nzero nmul Num_Q] in *.
  destruct (Qeq_bool (Qred (dx * dx)) 0) eqn:E; [|reflexivity]. exfalso.
  apply Qeq_bool_iff in E. rewrite Qred_correct in E.
  assert (dx == 0)%Q by (destruct (Qmult_integral _ _ E); assumption).
  apply Qeq_bool_iff in H. congruence.
Qed.
Lemma laplacian_from_t sh p : forall (dxs : list Q) ax (x acc : list Q), Forall nz dxs ->
  QR (laplacian_from sh ax p nzero dxs x acc) = laplacian_from sh ax p nzero (QR dxs) (QR x) (QR acc).
Proof.
  induction dxs as [|dx dxs IH]; intros ax x acc Hd; [reflexivity|].
  cbn [laplacian_from map]. rewrite IH by exact (Forall_inv_tail Hd). f_equal.
  rewrite (h_vsub Q2R HQ), (h_vadd Q2R HQ), !pderiv_t by (apply nz_sq; exact (Forall_inv Hd)).
  rewrite Q2R_nmul. reflexivity.
Qed.

(* resizing *)
Lemma resize1_tot_t rm d cast n off (l : list Q) :
  QR (C16.ModelNd.resize1_tot rm d nzero cast n off l) = C16.ModelNd.resize1_tot rm d nzero cast n off (QR l).
Proof.
  unfold C16.ModelNd.resize1_tot.
  pose proof (C16.Transfer.resize1_transfer rm d nzero cast l n off) as E. rewrite Q2R_nzero in E.
  rewrite <- E. destruct (C16.Model.resize1 rm d nzero cast l n off); cbn [C16.Transfer.omap].
  - reflexivity.
  - rewrite map_repeat', Q2R_nzero. reflexivity.
Qed.
Lemma sep_loop_t rm d cast : forall ish osh offs outer (x : list Q),
  QR (C16.ModelNd.sep_loop rm d nzero cast outer ish osh offs x) =
  C16.ModelNd.sep_loop rm d nzero cast outer ish osh offs (QR x).
Proof.
  induction ish as [|n ish IH]; intros [|n' osh] [|off offs] outer x; try reflexivity.
  cbn [C16.ModelNd.sep_loop]. rewrite IH. f_equal. apply (h_along Q2R). intros l. apply resize1_tot_t.
Qed.

Definition all_divs_ok (l : leaf Q) : Prop :=
  match l with
  | LPDeriv _ _ _ _ _ _ dx => nz dx
  | LGrad _ _ _ _ _ dxs | LDiv _ _ _ _ _ dxs | LLap _ _ _ _ dxs => Forall nz dxs
  | _ => divs_ok l
  end.

Theorem eval_leaf_transfer_Q (l : leaf Q) (x : list Q) : all_divs_ok l ->
  QR (eval_leaf l x) = eval_leaf (lmap Q2R l) (QR x).
Proof.
  destruct l; intros Hd; try (apply (eval_leaf_transfer Q2R HQ); [exact I | exact Hd]);
    cbn [all_divs_ok lmap eval_leaf] in *.
  - rewrite sep_loop_t. rewrite ?Q2R_nzero. reflexivity.
  - rewrite sep_loop_t. rewrite ?Q2R_nzero. reflexivity.
  - rewrite pderiv_t by exact Hd. rewrite ?Q2R_nzero. reflexivity.
  - rewrite concat_map. unfold gradient. rewrite gradient_from_t by exact Hd. rewrite ?Q2R_nzero. reflexivity.
  - unfold divergence.
    replace (map (fun _ : R => prodn shape) (QR dxs)) with (map (fun _ : Q => prodn shape) dxs)
      by (rewrite map_map; reflexivity).
    pose proof (divergence_from_t shape m p dxs (split_at (map (fun _ => prodn shape) dxs) x) 0 None Hd) as E.
    cbn [option_map] in E. rewrite split_at_t in E. rewrite <- E.
    destruct (divergence_from shape 0 m p nzero dxs _ None); reflexivity.
  - unfold laplacian. rewrite laplacian_from_t by exact Hd. rewrite map_repeat', map_length, ?Q2R_nzero. reflexivity.
Qed.

(* every tree of the model, all leaf kinds *)
Theorem eval_transfer_Q (e : oexpr Q) : Forall all_divs_ok (leaves e) ->
  forall x, QR (eval e x) = eval (omap Q2R e) (QR x).
Proof. apply (eval_transfer_gen Q2R HQ). intros l x Hl. apply eval_leaf_transfer_Q, Hl. Qed.

Lemma all_divs_divs (ls : list (leaf Q)) : Forall all_divs_ok ls -> Forall divs_ok ls.
Proof.
  induction 1 as [|l ls Hl _ IH]; constructor; [|assumption]. destruct l; try exact Hl; exact I.
Qed.
Theorem transfer_real_all (e : oexpr Q) : Forall all_divs_ok (leaves e) -> Forall all_divs_ok (leaves (adjoint e)) ->
  (forall x, QR (eval e x) = eval (omap Q2R e) (QR x)) /\
  omap Q2R (adjoint e) = adjoint (omap Q2R e) /\
  (forall y, QR (eval (adjoint e) y) = eval (adjoint (omap Q2R e)) (QR y)).
Proof.
  intros H1 H2. split; [|split].
  - apply eval_transfer_Q; assumption.
  - apply (adjoint_transfer Q2R HQ), all_divs_divs; assumption.
  - intros y. rewrite <- (adjoint_transfer Q2R HQ) by (apply all_divs_divs; assumption).
    apply eval_transfer_Q; assumption.
Qed.

(* the boolean the shards evaluate on every case gives the premise *)
Lemma forallb_nz (l : list Q) : forallb nzb l = true -> Forall nz l.
Proof.
  induction l as [|a l IH]; intros Hb; constructor; cbn [forallb] in Hb; apply andb_true_iff in Hb; destruct Hb as [B1 B2].
  - unfold nzb in B1. apply negb_true_iff in B1. exact B1.
  - apply IH; assumption.
Qed.
Lemma ldivb_ok (l : leaf Q) : ldivb l = true -> all_divs_ok l.
Proof.
  destruct l; cbn [ldivb all_divs_ok divs_ok]; intros Hb; try exact I;
    try (apply forallb_nz; exact Hb); unfold nzb in Hb; apply negb_true_iff in Hb; exact Hb.
Qed.
Lemma divsb_ok (e : oexpr Q) : divsb e = true -> Forall all_divs_ok (leaves e).
Proof.
  induction e as [l|a b IHa IHb|a b IHa IHb|s a IHa|a s IHa|v a IHa|a v IHa|wv v a IHa|l IHl|l IHl|l IHl]
    using oexpr_ind'; cbn [divsb leaves]; intros Hb; auto.
  - constructor; [apply ldivb_ok; assumption | constructor].
  - apply andb_true_iff in Hb; destruct Hb. apply Forall_app; split; auto.
  - apply andb_true_iff in Hb; destruct Hb. apply Forall_app; split; auto.
  - induction IHl as [|c m Hc _ IHm]; [constructor|]. cbn [forallb] in Hb. apply andb_true_iff in Hb; destruct Hb.
    cbn [flat_map]. apply Forall_app; split; auto.
  - induction IHl as [|c m Hc _ IHm]; [constructor|]. cbn [forallb] in Hb. apply andb_true_iff in Hb; destruct Hb.
    cbn [flat_map]. apply Forall_app; split; auto.
  - induction IHl as [|c m Hc _ IHm]; [constructor|]. cbn [forallb] in Hb. apply andb_true_iff in Hb; destruct Hb.
    cbn [flat_map]. apply Forall_app; split; auto.
Qed.
Theorem transfer_real_checked (e : oexpr Q) : divsb e = true -> divsb (adjoint e) = true ->
  (forall x, QR (eval e x) = eval (omap Q2R e) (QR x)) /\
  omap Q2R (adjoint e) = adjoint (omap Q2R e) /\
  (forall y, QR (eval (adjoint e) y) = eval (adjoint (omap Q2R e)) (QR y)).
Proof. intros H1 H2. apply transfer_real_all; apply divsb_ok; assumption. Qed.
