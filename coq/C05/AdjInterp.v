(* C05/AdjInterp.v -- interpreter of the tables REGENERATED from the `adjoint`
   properties (Gen/Adjoints.v) into the expression model, and the proof that the
   hand-written [adjoint] / [leaf_adjoint] of C05/Model.v ARE the interpreted tables.
   A dropped conjugate, a swapped operand, another class or another space argument in
   the source changes the generated table and breaks [adjoint_generated] /
   [leaf_adjoint_generated] below.

   [cplx]: how the conditions that only ask "is this real?" are resolved
   (self.vector.space.is_real, complex(self.scalar).imag == 0.0, isinstance(self.domain,
   RealNumbers), self.domain.is_complex): true = the complex branch (the one with the
   conjugations), false = the real branch.  The model is the complex reading; for a carrier
   whose conjugation is the identity both readings give the same operator
   ([real_reading_agrees_*]). *)
From Coq Require Import ZArith QArith List Bool.
From Verif Require Import Base.Num Base.Vec Lib.Axis C13.Syntax Gen.FiniteDiff C05.Model C05.AdjSyntax Gen.Adjoints.
Import ListNotations.
Local Open Scope num_scope.

Section Interp.
Context {T : Type} `{Num T} `{Conj T}.
Notation oexpr := (oexpr T).
Notation leaf := (leaf T).
Variable cplx : bool.

(* ================= expression classes ================= *)
Record env := { e_adj : fld -> oexpr; e_adjs : list oexpr; e_scal : T; e_vec : list T; e_wv : list T }.
Definition dummy : oexpr := Diag [].
Definition sx_kind (s : sx) : sval := match s with SV k | SConj k => k end.
Definition sx_scal (E : env) (s : sx) : T := match s with SV _ => e_scal E | SConj _ => nconj (e_scal E) end.
Definition sx_vec (E : env) (s : sx) : list T := match s with SV _ => e_vec E | SConj _ => vconj (e_vec E) end.

Fixpoint interp_ox (E : env) (o : ox) : oexpr :=
  match o with
  | OAdj f => e_adj E f
  | OT _ => Leaf (LInner (e_wv E) (e_vec E))                  (* x.T is InnerProductOperator(x) *)
  | OMulL s o' =>                                              (* Operator.__rmul__ *)
      match sx_kind s with
      | SScalar => mk_lscal (sx_scal E s) (interp_ox E o')     (* Number: OperatorLeftScalarMult (merging) *)
      | SVector => LVec (sx_vec E s) (interp_ox E o')          (* element of the range: OperatorLeftVectorMult *)
      end
  | OMulR o' s =>                                              (* Operator.__mul__ *)
      match sx_kind s with
      | SScalar => mk_lscal (sx_scal E s) (interp_ox E o')     (* Number and linear: other * self *)
      | SVector => RVec (interp_ox E o') (sx_vec E s)          (* element of the domain: OperatorRightVectorMult *)
      end
  | ONew KSum [a; b] => Sum (interp_ox E a) (interp_ox E b)
  | ONew KComp [a; b] => Comp (interp_ox E a) (interp_ox E b)
  | ONew _ _ => dummy
  | ONewMap KReduction _ => Reduce (e_adjs E)
  | ONewMap KBroadcast _ => Bcast (e_adjs E)
  | ONewMap KDiagonal _ => Diag (e_adjs E)
  | ONewMap _ _ => dummy
  end.
Fixpoint interp_rule (E : env) (r : rule) : oexpr :=
  match r with
  | RRet o => interp_ox E o
  | RIfRealVec a b => if cplx then interp_rule E b else interp_rule E a
  end.

(* ================= leaves ================= *)
Definition lclass (l : leaf) : lcls :=
  match l with
  | LScaling _ _ => CScaling
  | LMultiply _ _ | LMulField _ _ => CMultiply
  | LInner _ _ => CInnerProduct
  | LZero _ _ => CZero
  | LMatrix _ _ _ | LMatrixAx _ _ _ _ _ => CMatrix
  | LSampling _ _ _ _ => CSampling
  | LWSum _ _ _ _ => CWeightedSumSampling
  | LFlatten _ _ _ => CFlattening
  | LUnflatten _ _ _ => CFlatteningInverse
  | LProj _ _ _ | LProjM _ _ _ _ => CComponentProjection
  | LProjAdj _ _ _ | LProjMAdj _ _ _ _ => CComponentProjectionAdjoint
  | LPtInner _ _ _ _ => CPointwiseInner
  | LPtInnerAdj _ _ _ _ => CPointwiseInnerAdjoint
  | LResize _ _ _ _ _ _ => CResizing
  | LResizeAdj _ _ _ _ _ _ => CResizingAdjoint
  | LPDeriv _ _ _ _ _ _ _ => CPartialDerivative
  | LGrad _ _ _ _ _ _ => CGradient
  | LDiv _ _ _ _ _ _ => CDivergence
  | LLap _ _ _ _ _ => CLaplacian
  | LRealR _ | LRealC _ => CRealPart
  | LImagR _ | LImagC _ => CImagPart
  | LEmbedR _ _ _ | LEmbedC _ _ _ => CComplexEmbedding
  end.

Definition space_of (l : leaf) (p : spc) : option (list T) :=
  match p with
  | PDom => Some (leaf_dom l)
  | PRan => Some (leaf_ran l)
  | PField => Some [none_]
  | PBase => match l with LPtInner wb _ _ _ | LPtInnerAdj wb _ _ _ => Some wb | _ => None end
  end.
(* for the real <-> complex leaves: the real weights, and whether self.domain / self.range is complex *)
Definition rc_info (l : leaf) (p : spc) : option (list T * bool) :=
  match l, p with
  | LRealR w, (PDom | PRan) | LImagR w, (PDom | PRan) => Some (w, false)
  | LRealC w, PDom | LImagC w, PDom => Some (w, true)
  | LRealC w, PRan | LImagC w, PRan => Some (w, false)
  | LEmbedR w _ _, PDom => Some (w, false)
  | LEmbedR w _ _, PRan => Some (w, true)
  | LEmbedC w _ _, (PDom | PRan) => Some (w, true)
  | _, _ => None
  end.
Definition sp (l : leaf) (k : akey) (args : list (akey * gval)) : option (list T) :=
  match arg k args with Some (VSpace p) => space_of l p | _ => None end.
Definition is_attr (a : attr) (v : option gval) : bool :=
  match v, a with
  | Some (VAttr AScalar), AScalar | Some (VAttr AVector), AVector | Some (VAttr AMultiplicand), AMultiplicand
  | Some (VAttr AMatrix), AMatrix | Some (VAttr AAxis), AAxis | Some (VAttr ASamplingPoints), ASamplingPoints
  | Some (VAttr AVariant), AVariant | Some (VAttr AVecfield), AVecfield | Some (VAttr AWeights), AWeights
  | Some (VAttr AIndex), AIndex | Some (VAttr AMethod), AMethod | Some (VAttr APadMode), APadMode
  | Some (VAttr APadConst), APadConst => true
  | _, _ => false
  end.
Definition is_space (p : spc) (v : option gval) : bool :=
  match v, p with
  | Some (VSpace PDom), PDom | Some (VSpace PRan), PRan | Some (VSpace PField), PField
  | Some (VSpace PBase), PBase => true
  | _, _ => false
  end.
Definition qscal (q : Q) : T := if Qeq_bool q 1 then none_ else if Qeq_bool q 0 then nzero else of_Q q.

Definition build (c : lcls) (args : list (akey * gval)) (l : leaf) : option oexpr :=
  match c, l with
  | CScaling, LScaling _ s =>
      match sp l KDomain args, arg KScalar args with
      | Some w', Some (VConj AScalar) => Some (Leaf (LScaling w' (nconj s)))
      | Some w', Some (VAttr AScalar) => Some (Leaf (LScaling w' s))
      | _, _ => None
      end
  | CMultiply, LMultiply _ v =>
      match sp l KDomain args, sp l KRange args, arg KMultiplicand args with
      | Some wd, Some _, Some (VConj AMultiplicand) => Some (Leaf (LMultiply wd (vconj v)))
      | Some wd, Some _, Some (VAttr AMultiplicand) => Some (Leaf (LMultiply wd v))
      | _, _, _ => None
      end
  | CMultiply, LInner w v =>          (* MultiplyOperator(x, domain=field): range defaults to x.space *)
      if is_space PField (arg KDomain args) && match arg KRange args with None => true | _ => false end then
        match arg KMultiplicand args with
        | Some (VAttr AVector) => Some (Leaf (LMulField w v))
        | Some (VConj AVector) => Some (Leaf (LMulField w (vconj v)))
        | _ => None
        end
      else None
  | CInnerProduct, LMulField w v =>
      match arg KVector args with
      | Some (VAttr AMultiplicand) => Some (Leaf (LInner w v))
      | Some (VConj AMultiplicand) => Some (Leaf (LInner w (vconj v)))
      | _ => None
      end
  | CZero, _ =>
      match sp l KDomain args with
      | Some a =>
          match arg KRange args with
          | None => Some (Leaf (LZero a a))                  (* range defaults to the domain *)
          | Some (VSpace p) => match space_of l p with Some b => Some (Leaf (LZero a b)) | None => None end
          | _ => None
          end
      | None => None
      end
  | CComplexEmbedding, _ =>
      match arg KSpace args with
      | Some (VSpace p) =>
          match rc_info l p, arg KScalar args with
          | Some (w, isc), Some (VNum q) =>
              Some (Leaf (if isc then LEmbedC w (qscal q) nzero else LEmbedR w (qscal q) nzero))
          | Some (w, isc), Some VImagUnit =>
              Some (Leaf (if isc then LEmbedC w nzero none_ else LEmbedR w nzero none_))
          | Some (w, isc), Some (VConj AScalar) =>
              match l with
              | LEmbedC _ sr si | LEmbedR _ sr si =>
                  Some (Leaf (if isc then LEmbedC w sr (- si) else LEmbedR w sr (- si)))
              | _ => None
              end
          | _, _ => None
          end
      | _ => None
      end
  | CRealPart, _ =>
      match arg KSpace args with
      | Some (VSpace p) =>
          match rc_info l p with
          | Some (w, isc) => Some (Leaf (if isc then LRealC w else LRealR w))
          | None => None
          end
      | _ => None
      end
  | CImagPart, _ =>
      match arg KSpace args with
      | Some (VSpace p) =>
          match rc_info l p with
          | Some (w, isc) => Some (Leaf (if isc then LImagC w else LImagR w))
          | None => None
          end
      | _ => None
      end
  | CPointwiseInnerAdjoint, LPtInner wb pw g ow =>
      if is_space PBase (arg KSspace args) && is_attr AVecfield (arg KVecfield args)
         && is_space PDom (arg KVfspace args) && is_attr AWeights (arg KWeighting args)
      then Some (Leaf (LPtInnerAdj wb pw g ow)) else None
  | CPointwiseInner, LPtInnerAdj wb pw g ow =>
      if is_attr AVecfield (arg KVecfield args) && is_space PRan (arg KVfspace args)
         && is_attr AWeights (arg KWeighting args)
      then Some (Leaf (LPtInner wb pw g ow)) else None
  | CMatrix, LMatrix wd _ M =>
      match sp l KDomain args, sp l KRange args, arg KMatrix args with
      | Some a, Some b, Some (VConjT AMatrix) => Some (Leaf (LMatrix a b (conjT (length wd) M)))
      | Some a, Some b, Some (VTransp AMatrix) => Some (Leaf (LMatrix a b (transpose (length wd) M)))
      | Some a, Some b, Some (VAttr AMatrix) => Some (Leaf (LMatrix a b M))
      | _, _, _ => None
      end
  | CMatrix, LMatrixAx _ _ shape ax M =>
      if is_attr AAxis (arg KAxis args) then
        match sp l KDomain args, sp l KRange args, arg KMatrix args with
        | Some a, Some b, Some (VConjT AMatrix) =>
            Some (Leaf (LMatrixAx a b (firstn ax shape ++ length M :: skipn (S ax) shape) ax
                                  (conjT (nth ax shape O) M)))
        | _, _, _ => None
        end
      else None
  | CWeightedSumSampling, LSampling _ idx integrate cv =>
      if is_attr ASamplingPoints (arg KSamplingPoints args) then
        match sp l KRange args, arg KVariant args with
        | Some a, Some (VVarMap m) =>
            match vlookup (if integrate then NIntegrate else NPointEval) m with
            | Some NDirac => Some (Leaf (LWSum a idx true cv))
            | Some NCharFun => Some (Leaf (LWSum a idx false cv))
            | _ => None
            end
        | _, _ => None
        end
      else None
  | CSampling, LWSum _ idx dirac cv =>
      if is_attr ASamplingPoints (arg KSamplingPoints args) then
        match sp l KDomain args, arg KVariant args with
        | Some a, Some (VVarMap m) =>
            match vlookup (if dirac then NDirac else NCharFun) m with
            | Some NIntegrate => Some (Leaf (LSampling a idx true cv))
            | Some NPointEval => Some (Leaf (LSampling a idx false cv))
            | _ => None
            end
        | _, _ => None
        end
      else None
  | CComponentProjectionAdjoint, LProj ws pw i =>
      if is_space PDom (arg KSpace args) && is_attr AIndex (arg KIndex args)
      then Some (Leaf (LProjAdj ws pw i)) else None
  | CComponentProjectionAdjoint, LProjM ws pw idxs acc =>
      if is_space PDom (arg KSpace args) && is_attr AIndex (arg KIndex args)
      then Some (Leaf (LProjMAdj ws pw idxs acc)) else None
  | CComponentProjection, LProjMAdj ws pw idxs acc =>
      if is_space PRan (arg KSpace args) && is_attr AIndex (arg KIndex args)
      then Some (Leaf (LProjM ws pw idxs acc)) else None
  | CComponentProjection, LProjAdj ws pw i =>
      if is_space PRan (arg KSpace args) && is_attr AIndex (arg KIndex args)
      then Some (Leaf (LProj ws pw i)) else None
  | CPartialDerivative, LPDeriv _ _ shape ax m p dx =>
      if is_attr AAxis (arg KAxis args) && is_attr APadConst (arg KPadConst args) then
        match sp l KDomain args, sp l KRange args, arg KMethod args, arg KPadMode args with
        | Some a, Some b, Some (VTab TAdjMethod AMethod), Some (VTab TAdjPadding APadMode) =>
            Some (Leaf (LPDeriv a b shape ax (adj_method m) (adj_padding p) dx))
        | Some a, Some b, Some (VAttr AMethod), Some (VAttr APadMode) => Some (Leaf (LPDeriv a b shape ax m p dx))
        | _, _, _, _ => None
        end
      else None
  | CDivergence, LGrad _ _ shape m p dxs =>
      match sp l KDomain args, sp l KRange args, arg KMethod args, arg KPadMode args with
      | Some a, Some b, Some (VTab TAdjMethod AMethod), Some (VTab TAdjPadding APadMode) =>
          Some (Leaf (LDiv a b shape (adj_method m) (adj_padding p) dxs))
      | _, _, _, _ => None
      end
  | CGradient, LDiv _ _ shape m p dxs =>
      match sp l KDomain args, sp l KRange args, arg KMethod args, arg KPadMode args with
      | Some a, Some b, Some (VTab TAdjMethod AMethod), Some (VTab TAdjPadding APadMode) =>
          Some (Leaf (LGrad a b shape (adj_method m) (adj_padding p) dxs))
      | _, _, _, _ => None
      end
  | CLaplacian, LLap _ _ shape p dxs =>
      match sp l KDomain args, sp l KRange args, arg KPadMode args with
      | Some a, Some b, Some (VAttr APadMode) => Some (Leaf (LLap a b shape p dxs))
      | Some a, Some b, Some (VTab TAdjPadding APadMode) => Some (Leaf (LLap a b shape (adj_padding p) dxs))
      | _, _, _ => None
      end
  | CResizingAdjoint, LResize _ _ rm ish osh offs =>
      match sp l KDomain args, sp l KRange args with
      | Some a, Some b => Some (Leaf (LResizeAdj a b rm ish osh offs))
      | _, _ => None
      end
  | _, _ => None
  end.

Definition lsc_val (s : lsc) (l : leaf) : option T :=
  match s, l with
  | SAttrReal, LEmbedR _ sr _ | SAttrReal, LEmbedC _ sr _ => Some sr
  | SAttrImag, LEmbedR _ _ si | SAttrImag, LEmbedC _ _ si => Some si
  | SCellVol, LFlatten _ _ cv | SCellVol, LUnflatten _ _ cv => Some cv
  | SInvCellVol, LFlatten _ _ cv | SInvCellVol, LUnflatten _ _ cv => Some (none_ / cv)
  | _, _ => None
  end.

Fixpoint interp_lx (l : leaf) (x : lx) : option oexpr :=
  match x with
  | XSelf => Some (Leaf l)
  | XOp =>       (* the operator a closure class was created by *)
      match l with
      | LUnflatten wr perm cv => Some (Leaf (LFlatten wr perm cv))
      | LResizeAdj wd wr rm ish osh offs => Some (Leaf (LResize wr wd rm ish osh offs))
      | _ => None
      end
  | XInverse => match l with LFlatten wd perm cv => Some (Leaf (LUnflatten wd perm cv)) | _ => None end
  | XNew c args => build c args l
  | XScale s o =>          (* Number * Operator: Operator.__rmul__ -> OperatorLeftScalarMult *)
      match lsc_val s l, interp_lx l o with
      | Some v, Some e => Some (mk_lscal v e)
      | _, _ => None
      end
  | XNeg o => match interp_lx l o with Some e => Some (mk_lscal (- none_) e) | None => None end   (* -A = -1 * A *)
  | XAdd a b =>
      match interp_lx l a, interp_lx l b with Some ea, Some eb => Some (Sum ea eb) | _, _ => None end
  end.

Definition cond_val (c : cond) (l : leaf) : bool :=
  match c with
  | CNotLinear => false                         (* every modelled leaf is linear (pad_const = 0) *)
  | CScalarImagZero | CDomainIsRealNumbers => negb cplx
  | CDomainIsComplexNumbers | CDomainIsComplex => cplx
  | CDomainIsField => match l with LMulField _ _ => true | _ => false end
  | CSpaceIsReal => match l with LRealR _ | LImagR _ => true | _ => false end
  | CDomainIsReal => match l with LEmbedR _ _ _ => true | _ => false end
  | CScalarIsReal => match l with LEmbedR _ _ si => si =? nzero | _ => false end
  | CScalarIsImag => match l with LEmbedR _ sr _ => sr =? nzero | _ => false end
  end.
Fixpoint interp_lrule (l : leaf) (r : lrule) : option oexpr :=
  match r with
  | LRet x => interp_lx l x
  | LRaise => None
  | LIf c a b => if cond_val c l then interp_lrule l a else interp_lrule l b
  end.

Definition leaf_adjoint_gen (l : leaf) : option oexpr := interp_lrule l (leaf_rules (lclass l)).
End Interp.

Section Gen.
Context {T : Type} `{Num T} `{Conj T}.
Notation oexpr := (oexpr T).
Variable cplx : bool.

Definition mkenv (adj : fld -> oexpr) (adjs : list oexpr) (s : T) (v wv : list T) : env :=
  {| e_adj := adj; e_adjs := adjs; e_scal := s; e_vec := v; e_wv := wv |}.

Fixpoint adjoint_gen (e : oexpr) : oexpr :=
  match e with
  | Leaf l => match leaf_adjoint_gen cplx l with Some a => a | None => dummy end
  | Sum a b =>
      interp_rule cplx (mkenv (fun f => match f with FLeft => adjoint_gen a | FRight => adjoint_gen b | _ => dummy end)
                              [] nzero [] []) (expr_rules ESum)
  | Comp a b =>
      interp_rule cplx (mkenv (fun f => match f with FLeft => adjoint_gen a | FRight => adjoint_gen b | _ => dummy end)
                              [] nzero [] []) (expr_rules EComp)
  | LScal s a =>
      interp_rule cplx (mkenv (fun f => match f with FOperator => adjoint_gen a | _ => dummy end) [] s [] [])
                  (expr_rules ELScal)
  | RScal a s =>
      interp_rule cplx (mkenv (fun f => match f with FOperator => adjoint_gen a | _ => dummy end) [] s [] [])
                  (expr_rules ERScal)
  | LVec v a =>
      interp_rule cplx (mkenv (fun f => match f with FOperator => adjoint_gen a | _ => dummy end) [] nzero v [])
                  (expr_rules ELVec)
  | RVec a v =>
      interp_rule cplx (mkenv (fun f => match f with FOperator => adjoint_gen a | _ => dummy end) [] nzero v [])
                  (expr_rules ERVec)
  | FLVec wv v a =>
      interp_rule cplx (mkenv (fun f => match f with FFunctional => adjoint_gen a | _ => dummy end) [] nzero v wv)
                  (expr_rules EFLVec)
  | Reduce l => interp_rule cplx (mkenv (fun _ => dummy) (map adjoint_gen l) nzero [] []) (expr_rules EReduce)
  | Bcast l => interp_rule cplx (mkenv (fun _ => dummy) (map adjoint_gen l) nzero [] []) (expr_rules EBcast)
  | Diag l => interp_rule cplx (mkenv (fun _ => dummy) (map adjoint_gen l) nzero [] []) (expr_rules EDiag)
  end.
End Gen.
