(* C05/ProofsLeaf.v -- the adjoint identity for the built-in pairs, over the
   abstract carrier: all sizes, all index lists, all weights (with the exact
   weighting precondition where the code returns the plain transpose). *)
From Coq Require Import ZArith List Bool Ring Lia.
From Verif Require Import Base.Num Base.Vec C05.Model C05.Alg C05.Proofs.
Import ListNotations.
Local Open Scope num_scope.

Section Leaf.
Context {T : Type} {NT : Num T} {CT : Conj T}.
Hypothesis OK : cring_ok T.
Add Ring Tring3 : (ck_ring T OK).
Notation vec := (list T).

Lemma adj_id (w : vec) : adj_pair w w (fun x => x) (fun y => y).
Proof. split; [|split]; [intros x Hx; exact Hx | intros y Hy; exact Hy | intros; reflexivity]. Qed.

(* ---------------- Scaling / Identity ---------------- *)
Lemma leaf_ok_scaling (w : vec) s : leaf_ok (LScaling w s).
Proof.
  split; [|split; reflexivity]. cbn [leaf_dom leaf_ran leaf_adjoint].
  exact (adj_lscal OK w w s _ _ (adj_id w)).
Qed.

(* ---------------- Multiply by a vector ---------------- *)
Lemma leaf_ok_multiply (w v : vec) : length v = length w -> leaf_ok (LMultiply w v).
Proof.
  intros Hv. split; [|split; reflexivity]. cbn [leaf_dom leaf_ran leaf_adjoint].
  exact (adj_lvec OK w w v _ _ Hv (adj_id w)).
Qed.

(* ---------------- InnerProduct / Multiply with field domain ---------------- *)
Lemma leaf_ok_inner (w v : vec) : length v = length w -> leaf_ok (LInner w v).
Proof.
  intros Hv. split; [|split; reflexivity]. cbn [leaf_dom leaf_ran leaf_adjoint].
  split; [|split].
  - intros x Hx; reflexivity.
  - intros t Ht; cbn [eval eval_leaf]. rewrite vscal_len; assumption.
  - intros x t Hx Ht. cbn [eval eval_leaf]. rewrite (length1 t Ht) at 1.
    rewrite (cinner_one OK), (cinner_vscal_r OK). ring.
Qed.
Lemma leaf_ok_mulfield (w v : vec) : length v = length w -> vconj w = w -> leaf_ok (LMulField w v).
Proof.
  intros Hv Hw. split; [|split; reflexivity]. cbn [leaf_dom leaf_ran leaf_adjoint].
  exact (adj_flvec OK [none_] w v _ _ Hv Hw (adj_id [none_])).
Qed.

(* ---------------- Zero ---------------- *)
Lemma leaf_ok_zero (wd wr : vec) : leaf_ok (LZero wd wr).
Proof.
  split; [|split; reflexivity]. cbn [leaf_dom leaf_ran leaf_adjoint]. split; [|split].
  - intros x _; apply zeros_len.
  - intros y _; apply zeros_len.
  - intros x y _ _. cbn [eval eval_leaf]. rewrite (cinner_zeros_l OK), (cinner_zeros_r OK). reflexivity.
Qed.

(* ---------------- constant weights ---------------- *)
Lemma wdot_const c n (u v : vec) : length u = n -> wdot (repeat c n) u v = c * dot u v.
Proof.
  revert u v; induction n as [|n IH]; intros u v Hu.
  - destruct u; [|discriminate]. cbn. ring.
  - destruct u as [|a u]; [discriminate|]. destruct v as [|b v].
    + cbn [repeat]. rewrite wdot_nil_y. unfold dot; cbn. ring.
    + cbn [repeat]. rewrite wdot_cons, IH by (cbn in Hu; lia). unfold dot; cbn [vmul vmap2 sumf]. fold (vmul u v). ring.
Qed.
Lemma cinner_const c n (u y : vec) : length u = n -> cinner (repeat c n) u y = c * dot u (vconj y).
Proof. intros; unfold cinner; apply wdot_const; assumption. Qed.
Lemma cinner_ones n (u y : vec) : length u = n -> cinner (ones n) u y = dot u (vconj y).
Proof. intros; unfold ones; rewrite cinner_const by assumption; ring. Qed.

(* ---------------- Matrix: <Mx, y> = <x, M^H y> without weights ---------------- *)
Lemma dot_nil_r (x : vec) : dot x [] = nzero.
Proof. destruct x; reflexivity. Qed.
Lemma dot_cons a b (x y : vec) : dot (a :: x) (b :: y) = a * b + dot x y.
Proof. reflexivity. Qed.
Lemma dot_comm (x y : vec) : dot x y = dot y x.
Proof.
  revert y; induction x as [|a x IH]; intros [|b y]; try reflexivity.
  rewrite !dot_cons, IH; ring.
Qed.
Lemma dot_vadd_r (x u v : vec) : length u = length v -> dot x (vadd u v) = dot x u + dot x v.
Proof.
  revert u v; induction x as [|a x IH]; intros [|b u] [|c v] Hl; cbn in Hl; try congruence;
    try (unfold dot; cbn; ring).
  unfold vadd; cbn [vmap2]; rewrite !dot_cons. fold (vadd u v). rewrite IH by congruence. ring.
Qed.
Lemma dot_vscal_r s (x u : vec) : dot x (vscal s u) = s * dot x u.
Proof.
  revert u; induction x as [|a x IH]; intros [|b u]; try (unfold dot; cbn; ring).
  unfold vscal; cbn [map]; rewrite !dot_cons. fold (vscal s u). rewrite IH. ring.
Qed.
Lemma dot_zeros_r (x : vec) n : dot x (zeros n) = nzero.
Proof.
  revert n; induction x as [|a x IH]; intros [|n]; try reflexivity.
  unfold zeros in *; cbn [repeat]; rewrite dot_cons, IH; ring.
Qed.

Definition rect (n : nat) (M : list vec) : Prop := Forall (fun r => length r = n) M.

Lemma zipcons_len (r : vec) (cols : list vec) : length cols = length r -> length (zipcons r cols) = length r.
Proof.
  revert cols; induction r as [|a r IH]; intros [|c cols] Hl; cbn in *; try discriminate; [reflexivity|].
  f_equal; apply IH; lia.
Qed.
Lemma transpose_len n (M : list vec) : rect n M -> length (transpose n M) = n.
Proof.
  induction 1 as [|r M Hr _ IH]; cbn [transpose]; [apply repeat_length|]. rewrite zipcons_len; congruence.
Qed.
Lemma mvec_repeat_nil n (y : vec) : mvec (repeat [] n) y = @zeros T _ n.
Proof. induction n; [reflexivity|]. cbn [repeat mvec map]. unfold mvec in IHn. rewrite IHn. reflexivity. Qed.
Lemma mvec_zipcons (r : vec) (cols : list vec) b (y : vec) : length cols = length r ->
  mvec (zipcons r cols) (b :: y) = vadd (vscal b r) (mvec cols y).
Proof.
  revert cols; induction r as [|a r IH]; intros [|c cols] Hl; cbn in Hl; try discriminate; [reflexivity|].
  cbn [zipcons mvec map vscal vadd vmap2]. rewrite dot_cons. f_equal; [ring|]. apply IH. lia.
Qed.
Lemma mvec_cons (r : vec) (M : list vec) (x : vec) : mvec (r :: M) x = dot r x :: mvec M x.
Proof. reflexivity. Qed.
Lemma mvec_len (M : list vec) (x : vec) : length (mvec M x) = length M.
Proof. apply map_length. Qed.

(* bilinear transposition: (Mx) . y = x . (M^T y) *)
Lemma dot_mvec_transpose n (M : list vec) (x y : vec) : rect n M -> length x = n -> length y = length M ->
  dot (mvec M x) y = dot x (mvec (transpose n M) y).
Proof.
  intros HM Hx; revert y; induction HM as [|r M Hr HM IH]; intros y Hy.
  - destruct y; [|discriminate]. cbn [transpose]. rewrite mvec_repeat_nil, dot_zeros_r. reflexivity.
  - destruct y as [|b y]; [discriminate|]. rewrite mvec_cons, dot_cons.
    cbn [transpose]. rewrite mvec_zipcons by (rewrite transpose_len; [congruence | exact HM]).
    rewrite dot_vadd_r by (rewrite vscal_len, mvec_len, transpose_len; [assumption | exact HM]).
    rewrite dot_vscal_r, IH by (cbn in Hy; lia). rewrite (dot_comm r x). ring.
Qed.
Lemma vconj_mvec (M : list vec) (y : vec) : vconj (mvec M y) = mvec (map vconj M) (vconj y).
Proof.
  unfold mvec, vconj at 1. rewrite !map_map. apply map_ext. intros r.
  revert y; induction r as [|a r IH]; intros [|b y]; try (cbn; apply (ck_conj_zero T OK)).
  cbn [vconj map]. rewrite !dot_cons, (ck_conj_add T OK), (ck_conj_mul T OK). f_equal. apply IH.
Qed.
Lemma transpose_map_vconj n (M : list vec) : transpose n (map vconj M) = map vconj (transpose n M).
Proof.
  induction M as [|r M IH]; cbn [map transpose].
  - induction n; [reflexivity|]. cbn [repeat map]. f_equal; assumption.
  - rewrite IH. generalize (transpose n M). clear. intros cols; revert cols.
    induction r as [|a r IH]; intros [|c cols]; try reflexivity. cbn [vconj map zipcons]. f_equal. apply IH.
Qed.

Lemma map_vconj_invol (M : list vec) : map vconj (map vconj M) = M.
Proof. induction M as [|r M IH]; [reflexivity|]. cbn [map]. rewrite IH, (vconj_invol OK). reflexivity. Qed.
Lemma ones_len n : length (@ones T _ n) = n.
Proof. apply repeat_length. Qed.
Lemma matrix_unweighted n m (M : list vec) : rect n M -> length M = m ->
  adj_pair (ones n) (ones m) (mvec M) (mvec (conjT n M)).
Proof.
  intros HM Hm. split; [|split].
  - intros x _. rewrite ones_len, mvec_len; assumption.
  - intros y _. rewrite ones_len, mvec_len. unfold conjT. apply transpose_len.
    clear -HM. induction HM; constructor; [rewrite vconj_len; assumption | assumption].
  - intros x y Hx Hy. rewrite ones_len in Hx, Hy.
    rewrite !cinner_ones by (rewrite ?mvec_len; congruence).
    unfold conjT. rewrite transpose_map_vconj, vconj_mvec, map_vconj_invol.
    apply dot_mvec_transpose; [assumption | assumption | rewrite vconj_len; congruence].
Qed.

(* plain conjugate transpose is the adjoint when both spaces carry the SAME constant weight *)
Lemma adj_pair_const_of_unweighted c n m A B :
  adj_pair (ones n) (ones m) A B -> adj_pair (repeat c n) (repeat c m) A B.
Proof.
  intros (H1 & H2 & H3). rewrite !ones_len in H1, H2.
  split; [|split]; rewrite ?repeat_length; try assumption.
  intros x y Hx Hy. rewrite !cinner_const by auto.
  specialize (H3 x y). rewrite !ones_len in H3. specialize (H3 Hx Hy).
  rewrite !cinner_ones in H3 by auto. rewrite H3. reflexivity.
Qed.
Lemma leaf_ok_matrix_const c n m (M : list vec) : rect n M -> length M = m ->
  leaf_ok (LMatrix (repeat c n) (repeat c m) M).
Proof.
  intros HM Hm. split; [|split; reflexivity]. cbn [leaf_dom leaf_ran leaf_adjoint eval eval_leaf].
  rewrite repeat_length. apply adj_pair_const_of_unweighted. apply matrix_unweighted; assumption.
Qed.

(* ---------------- Sampling / WeightedSumSampling / Flattening ---------------- *)
Lemma add_at_len i v (l : vec) : length (add_at i v l) = length l.
Proof. revert i; induction l as [|a l IH]; intros [|i]; cbn; try reflexivity; f_equal; apply IH. Qed.
Lemma scatter_len n idx (y : vec) : length (scatter n idx y) = n.
Proof.
  revert y; induction idx as [|i idx IH]; intros y; cbn [scatter]; [apply zeros_len|].
  destruct y; [apply zeros_len|]. rewrite add_at_len; apply IH.
Qed.
Lemma dot_add_at (x : vec) i v (l : vec) : (i < length l)%nat -> length x = length l ->
  dot x (add_at i v l) = dot x l + nth i x nzero * v.
Proof.
  revert i x; induction l as [|a l IH]; intros i x Hi Hx; [cbn in Hi; lia|].
  destruct x as [|b x]; [discriminate|]. destruct i as [|i]; cbn [add_at nth]; rewrite !dot_cons.
  - ring.
  - rewrite IH by (cbn in *; lia). ring.
Qed.
Lemma dot_gather_scatter n idx (x y : vec) : Forall (fun i => (i < n)%nat) idx -> length x = n ->
  length y = length idx -> dot (gather idx x) y = dot x (scatter n idx y).
Proof.
  intros Hidx Hx; revert y; induction Hidx as [|i idx Hi _ IH]; intros y Hy.
  - destruct y; [|discriminate]. cbn [gather map scatter]. rewrite dot_zeros_r. reflexivity.
  - destruct y as [|b y]; [discriminate|]. cbn [gather map scatter]. fold (gather idx x).
    rewrite dot_cons, dot_add_at by (rewrite scatter_len; lia). rewrite IH by (cbn in Hy; lia). ring.
Qed.
Lemma gather_len idx (x : vec) : length (gather idx x) = length idx.
Proof. apply map_length. Qed.

Lemma vconj_add_at i v (l : vec) : vconj (add_at i v l) = add_at i (nconj v) (vconj l).
Proof.
  revert i; induction l as [|a l IH]; intros [|i]; try reflexivity.
  - cbn [add_at]. unfold vconj; cbn [map]. rewrite (ck_conj_add T OK); reflexivity.
  - cbn [add_at]. unfold vconj in *; cbn [map]. f_equal. apply IH.
Qed.
Lemma vconj_scatter n idx (y : vec) : vconj (scatter n idx y) = scatter n idx (vconj y).
Proof.
  revert y; induction idx as [|i idx IH]; intros y.
  - cbn [scatter]. apply (vconj_zeros OK).
  - destruct y as [|b y]; [cbn [scatter]; apply (vconj_zeros OK)|].
    change (vconj (b :: y)) with (nconj b :: vconj y). cbn [scatter]. rewrite vconj_add_at, IH. reflexivity.
Qed.
Lemma vconj_gather idx (x : vec) : vconj (gather idx x) = gather idx (vconj x).
Proof.
  unfold gather, vconj. rewrite !map_map. apply map_ext. intros i.
  rewrite <- (ck_conj_zero T OK) at 2. symmetry. apply map_nth.
Qed.
Lemma vconj_repeat c n : nconj c = c -> vconj (repeat c n) = repeat c n.
Proof. intros Hc; induction n; [reflexivity|]. cbn [repeat vconj map]. rewrite Hc. f_equal. exact IHn. Qed.
Lemma vconj_ones n : vconj (ones n) = @ones T _ n.
Proof. apply vconj_repeat. apply (ck_conj_one T OK). Qed.

(* Hermitian symmetry turns an adjoint pair around (real weights) *)
Lemma adj_pair_sym (wd wr : vec) A B : vconj wd = wd -> vconj wr = wr ->
  adj_pair wd wr A B -> adj_pair wr wd B A.
Proof.
  intros Hd Hr (H1 & H2 & H3). split; [|split]; try assumption.
  intros y x Hy Hx. rewrite <- (cinner_conj_sym OK wd x (B y) Hd), <- H3 by assumption.
  apply (cinner_conj_sym OK); assumption.
Qed.

Lemma gather_scatter_unweighted n idx : Forall (fun i => (i < n)%nat) idx ->
  adj_pair (ones n) (ones (length idx)) (gather idx) (scatter n idx).
Proof.
  intros Hidx. split; [|split].
  - intros x _; rewrite ones_len; apply gather_len.
  - intros y _; rewrite ones_len; apply scatter_len.
  - intros x y Hx Hy. rewrite ones_len in Hx, Hy. rewrite !cinner_ones by (rewrite ?gather_len; auto).
    rewrite (dot_gather_scatter n) by (rewrite ?vconj_len; auto). rewrite vconj_scatter. reflexivity.
Qed.

Lemma map_mul_r c (u : vec) : map (fun a => a * c) u = vscal c u.
Proof. unfold vscal; apply map_ext; intros; ring. Qed.
Lemma dot_vscal_l s (u x : vec) : dot (vscal s u) x = s * dot u x.
Proof. rewrite dot_comm, dot_vscal_r, dot_comm. reflexivity. Qed.
(* undoing a division by a real constant under the conjugate *)
Lemma dot_unscale (f : T -> T) cv (x s : vec) : (forall a, f a * cv = a) -> nconj cv = cv ->
  cv * dot x (vconj (map f s)) = dot x (vconj s).
Proof.
  intros Hf Hcv. revert s; induction x as [|a x IH]; intros s.
  - unfold dot; cbn. ring.
  - destruct s as [|b s]; [cbn [map]; change (vconj []) with (@nil T); rewrite !dot_nil_r; ring|].
    change (vconj (map f (b :: s))) with (nconj (f b) :: vconj (map f s)).
    change (vconj (b :: s)) with (nconj b :: vconj s).
    rewrite !dot_cons, <- (IH s).
    assert (E : nconj (f b) * cv = nconj b) by (rewrite <- Hcv at 1; rewrite <- (ck_conj_mul T OK), Hf; reflexivity).
    rewrite <- E. ring.
Qed.
Lemma dot_unscale_l (f : T -> T) cv (s y : vec) : (forall a, f a * cv = a) ->
  cv * dot (map f s) y = dot s y.
Proof.
  intros Hf. revert y; induction s as [|b s IH]; intros y.
  - unfold dot; cbn. ring.
  - destruct y as [|c y]; [rewrite !dot_nil_r; ring|].
    cbn [map]. rewrite !dot_cons, <- IH. rewrite <- (Hf b) at 2. ring.
Qed.
Lemma div_mul_cv cv : cv <> nzero -> forall a : T, a / cv * cv = a.
Proof. intros Hc a; apply (ck_div_mul T OK); assumption. Qed.
Lemma inv_mul_cv cv : cv <> nzero -> forall a : T, (none_ / cv * a) * cv = a.
Proof. intros Hc a. transitivity (a * (none_ / cv * cv)); [ring|]. rewrite (ck_div_mul T OK) by assumption. ring. Qed.

(* SamplingOperator on a space whose weights all equal the cell volume the code divides by *)
Lemma leaf_ok_sampling cv n idx integrate : Forall (fun i => (i < n)%nat) idx ->
  nconj cv = cv -> cv <> nzero -> leaf_ok (LSampling (repeat cv n) idx integrate cv).
Proof.
  intros Hidx Hcv Hnz. split; [|split; reflexivity]. cbn [leaf_dom leaf_ran leaf_adjoint eval].
  destruct (gather_scatter_unweighted n idx Hidx) as (G1 & G2 & G3). rewrite !ones_len in G1, G2.
  split; [|split]; rewrite ?repeat_length, ?ones_len.
  - intros x Hx. cbn [eval_leaf]. destruct integrate; rewrite ?map_length; apply gather_len.
  - intros y Hy. cbn [eval_leaf]. rewrite repeat_length. destruct integrate; cbn [negb]; rewrite ?map_length; apply scatter_len.
  - intros x y Hx Hy. cbn [eval_leaf]. rewrite repeat_length.
    specialize (G3 x y). rewrite !ones_len in G3. specialize (G3 Hx Hy).
    rewrite !cinner_ones in G3 by (rewrite ?gather_len; auto).
    destruct integrate; cbn [negb].
    + rewrite cinner_ones by (rewrite map_length, gather_len; auto).
      rewrite cinner_const by auto. rewrite map_mul_r, dot_vscal_l, G3. reflexivity.
    + rewrite cinner_ones by (rewrite gather_len; auto). rewrite cinner_const by auto.
      rewrite (dot_unscale (fun a => a / cv) cv) by (try apply div_mul_cv; assumption). exact G3.
Qed.
Lemma leaf_ok_wsum cv n idx dirac : Forall (fun i => (i < n)%nat) idx ->
  nconj cv = cv -> cv <> nzero -> leaf_ok (LWSum (repeat cv n) idx dirac cv).
Proof.
  intros Hidx Hcv Hnz. split; [|split; reflexivity]. cbn [leaf_dom leaf_ran leaf_adjoint].
  destruct (leaf_ok_sampling cv n idx (negb dirac) Hidx Hcv Hnz) as (Hp & _).
  cbn [leaf_dom leaf_ran leaf_adjoint] in Hp. rewrite negb_involutive in Hp.
  apply adj_pair_sym; [apply vconj_repeat; assumption | apply vconj_ones | exact Hp].
Qed.

(* FlatteningOperator and its inverse on a uniformly weighted space *)
Lemma leaf_ok_flatten cv n perm : Forall (fun i => (i < n)%nat) perm ->
  nconj cv = cv -> cv <> nzero -> leaf_ok (LFlatten (repeat cv n) perm cv).
Proof.
  intros Hidx Hcv Hnz. split; [|split; reflexivity]. cbn [leaf_dom leaf_ran leaf_adjoint].
  destruct (gather_scatter_unweighted n perm Hidx) as (G1 & G2 & G3). rewrite !ones_len in G1, G2.
  split; [|split]; rewrite ?repeat_length, ?ones_len.
  - intros x Hx. apply gather_len.
  - intros y Hy. cbn [eval eval_leaf]. rewrite vscal_len, repeat_length. apply scatter_len.
  - intros x y Hx Hy. cbn [eval eval_leaf]. rewrite repeat_length.
    specialize (G3 x y). rewrite !ones_len in G3. specialize (G3 Hx Hy).
    rewrite !cinner_ones in G3 by (rewrite ?gather_len; auto).
    rewrite cinner_ones by (rewrite gather_len; auto). rewrite cinner_const by auto.
    unfold vscal. rewrite (dot_unscale (nmul (none_ / cv)) cv) by (try apply inv_mul_cv; assumption). exact G3.
Qed.
Lemma leaf_ok_unflatten cv n perm : Forall (fun i => (i < n)%nat) perm ->
  nconj cv = cv -> leaf_ok (LUnflatten (repeat cv n) perm cv).
Proof.
  intros Hidx Hcv. split; [|split; reflexivity]. cbn [leaf_dom leaf_ran leaf_adjoint].
  destruct (gather_scatter_unweighted n perm Hidx) as (G1 & G2 & G3). rewrite !ones_len in G1, G2.
  split; [|split]; rewrite ?repeat_length, ?ones_len.
  - intros x Hx. cbn [eval_leaf]. rewrite repeat_length. apply scatter_len.
  - intros y Hy. cbn [eval eval_leaf]. rewrite vscal_len. apply gather_len.
  - intros x y Hx Hy. cbn [eval eval_leaf]. rewrite repeat_length.
    specialize (G3 y x). rewrite !ones_len in G3. specialize (G3 Hy Hx).
    rewrite !cinner_ones in G3 by (rewrite ?gather_len; auto).
    rewrite cinner_const by (apply scatter_len). rewrite cinner_ones by auto.
    rewrite (vconj_vscal OK), Hcv, dot_vscal_r. f_equal.
    (* dot (scatter x) (conj y) = dot x (conj (gather y)) *)
    rewrite vconj_gather, (dot_comm x), (dot_gather_scatter n) by (rewrite ?vconj_len; auto).
    apply dot_comm.
Qed.

(* ---------------- ComponentProjection / ComponentProjectionAdjoint ---------------- *)
Lemma pweights_app (pl pr : vec) (l r : list vec) : length pl = length l ->
  pweights (pl ++ pr) (l ++ r) = pweights pl l ++ pweights pr r.
Proof.
  revert l; induction pl as [|p pl IH]; intros [|w l] Hl; cbn in Hl; try discriminate; [reflexivity|].
  cbn [app pweights]. rewrite IH by lia. apply app_assoc.
Qed.
Lemma pweights_len (pl : vec) (l : list vec) : length pl = length l ->
  length (pweights pl l) = length (concat l).
Proof.
  revert l; induction pl as [|p pl IH]; intros [|w l] Hl; cbn in Hl; try discriminate; [reflexivity|].
  cbn [pweights concat]. rewrite !app_length, map_length, IH by lia. reflexivity.
Qed.
Lemma skipn_skipn' {X} (a b : nat) (l : list X) : skipn a (skipn b l) = skipn (b + a) l.
Proof. revert l; induction b as [|b IH]; intros l; [reflexivity|]. destruct l; [destruct a; reflexivity|]. cbn [skipn plus]. apply IH. Qed.
Lemma skipn_repeat' {X} (a : X) n k : skipn k (repeat a n) = repeat a (n - k).
Proof. revert k; induction n as [|n IH]; intros [|k]; cbn; try reflexivity. apply IH. Qed.
Lemma firstn_repeat' {X} (a : X) n k : firstn k (repeat a n) = repeat a (Nat.min k n).
Proof. revert k; induction n as [|n IH]; intros [|k]; cbn; try reflexivity. f_equal. apply IH. Qed.
Lemma map_one (w : vec) : map (nmul none_) w = w.
Proof. rewrite <- (map_id w) at 2. apply map_ext. intros; ring. Qed.

Lemma proj_split (ws : list vec) (pw : vec) i : (i < length ws)%nat -> length pw = length ws ->
  exists L R PL PR, ws = L ++ nth i ws [] :: R /\ pw = PL ++ nth i pw nzero :: PR /\
    length L = i /\ length PL = i.
Proof.
  intros Hi Hl.
  destruct (nth_split ws [] Hi) as (L & R & E1 & E2).
  assert (Hi' : (i < length pw)%nat) by lia.
  destruct (nth_split pw nzero Hi') as (PL & PR & E3 & E4).
  exists L, R, PL, PR. auto.
Qed.

Lemma leaf_ok_proj (ws : list vec) (pw : vec) i : (i < length ws)%nat -> length pw = length ws ->
  nth i pw nzero = none_ -> leaf_ok (LProj ws pw i).
Proof.
  intros Hi Hl Hp. split; [|split; reflexivity]. cbn [leaf_dom leaf_ran leaf_adjoint eval].
  destruct (proj_split ws pw i Hi Hl) as (L & R & PL & PR & E1 & E2 & HL & HPL).
  set (wi := nth i ws []) in *. rewrite Hp in E2.
  assert (HR : length PR = length R).
  { rewrite E1, E2, !app_length in Hl. cbn [length] in Hl. lia. }
  assert (Eoff : offset ws i = length (concat L)).
  { unfold offset. rewrite E1, firstn_app, HL, Nat.sub_diag, firstn_O, app_nil_r.
    rewrite <- HL, firstn_all. reflexivity. }
  assert (Etot : total ws = (length (concat L) + (length wi + length (concat R)))%nat).
  { unfold total. rewrite E1, concat_app. cbn [concat]. rewrite !app_length. reflexivity. }
  assert (Ew : pweights pw ws = pweights PL L ++ (wi ++ pweights PR R)).
  { rewrite E1 at 1. rewrite E2. rewrite pweights_app by lia. cbn [pweights]. rewrite map_one. reflexivity. }
  assert (Hlen : length (pweights pw ws) = total ws).
  { rewrite pweights_len by assumption. reflexivity. }
  split; [|split].
  - intros x Hx. cbn [eval_leaf]. fold wi. rewrite Hlen, Etot in Hx.
    rewrite firstn_length, skipn_length, Eoff. lia.
  - intros y Hy. cbn [eval_leaf]. fold wi. rewrite !app_length, !zeros_len, Hlen, Eoff, Etot. lia.
  - intros x y Hx Hy. cbn [eval_leaf]. fold wi. rewrite Hlen, Etot in Hx.
    set (x1 := firstn (length (concat L)) x). set (xr := skipn (length (concat L)) x).
    assert (Ex : x = x1 ++ (firstn (length wi) xr ++ skipn (length wi) xr)).
    { unfold x1, xr. rewrite firstn_skipn, firstn_skipn. reflexivity. }
    assert (H1 : length x1 = length (pweights PL L)).
    { unfold x1. rewrite firstn_length, pweights_len by lia. lia. }
    assert (H2 : length (firstn (length wi) xr) = length wi).
    { unfold xr. rewrite firstn_length, skipn_length. lia. }
    rewrite Eoff. fold xr. rewrite Ew. clearbody x1 xr. rewrite Ex.
    assert (Hz : length (pweights PL L) = length (concat L)) by (apply pweights_len; lia).
    rewrite (cinner_app OK) by (rewrite ?zeros_len; lia).
    rewrite (cinner_app OK) by (rewrite ?zeros_len; lia).
    rewrite !(cinner_zeros_r OK). ring.
Qed.
Lemma leaf_ok_projadj (ws : list vec) (pw : vec) i : (i < length ws)%nat -> length pw = length ws ->
  nth i pw nzero = none_ -> vconj (pweights pw ws) = pweights pw ws -> vconj (nth i ws []) = nth i ws [] ->
  leaf_ok (LProjAdj ws pw i).
Proof.
  intros Hi Hl Hp Hr1 Hr2. split; [|split; reflexivity]. cbn [leaf_dom leaf_ran leaf_adjoint].
  destruct (leaf_ok_proj ws pw i Hi Hl Hp) as (Hq & _). cbn [leaf_dom leaf_ran leaf_adjoint] in Hq.
  apply adj_pair_sym; assumption.
Qed.

(* ---------------- PointwiseInner / PointwiseInnerAdjoint (all weights) ---------------- *)
Lemma wdot_scale_w p (w x y : vec) : wdot (vscal p w) x y = p * wdot w x y.
Proof.
  revert x y; induction w as [|c w IH]; intros x y; [cbn; ring|].
  destruct x as [|a x]; [cbn [vscal map]; rewrite !wdot_nil_x; ring|].
  destruct y as [|b y]; [cbn [vscal map]; rewrite !wdot_nil_y; ring|].
  unfold vscal; cbn [map]. rewrite !wdot_cons. fold (vscal p w). rewrite IH. ring.
Qed.
Lemma vmul_comm (u v : vec) : vmul u v = vmul v u.
Proof.
  revert v; induction u as [|a u IH]; intros [|b v]; try reflexivity.
  unfold vmul in *; cbn [vmap2]. rewrite IH. f_equal. ring.
Qed.

Definition pt_block (o : T) (gi : vec) (x : vec) : vec := map (nmul o) (vmul x (vconj gi)).
Definition pt_block_adj (p o : T) (gi : vec) (f : vec) : vec :=
  if o =? p then vmul gi f else map (fun a => a * (o / p)) (vmul gi f).

Lemma pt_block_pair (wb gi : vec) p o : length gi = length wb -> nconj p = p -> nconj o = o -> p <> nzero ->
  adj_pair (map (nmul p) wb) wb (pt_block o gi) (pt_block_adj p o gi).
Proof.
  intros Hg Hp Ho Hnz. split; [|split]; rewrite ?map_length.
  - intros x Hx. unfold pt_block. rewrite map_length, vmul_len; [assumption | rewrite vconj_len; congruence].
  - intros f Hf. unfold pt_block_adj. destruct (o =? p); rewrite ?map_length, vmul_len; congruence.
  - intros x f Hx Hf. unfold pt_block, pt_block_adj.
    change (map (nmul o) (vmul x (vconj gi))) with (vscal o (vmul x (vconj gi))).
    change (map (nmul p) wb) with (vscal p wb).
    rewrite (cinner_vscal_l OK), (cinner_vmul_move OK), (vconj_invol OK).
    unfold cinner at 2. rewrite wdot_scale_w. fold (cinner wb x (if o =? p then vmul gi f else map (fun a => a * (o / p)) (vmul gi f))).
    destruct (o =? p) eqn:E.
    + apply (ck_eqb T OK) in E. subst o. rewrite (vmul_comm gi f). reflexivity.
    + rewrite map_mul_r, (cinner_vscal_r OK), (vmul_comm gi f).
      assert (Ec : p * nconj (o / p) = o).
      { rewrite <- Hp at 1. rewrite <- (ck_conj_mul T OK).
        replace (p * (o / p)) with (o / p * p) by ring. rewrite (ck_div_mul T OK) by assumption. exact Ho. }
      rewrite <- Ec at 1. ring.
Qed.

Lemma ptinner_pair (wb : vec) : forall (g : list vec) (pw ow : vec), g <> [] ->
  length pw = length g -> length ow = length g ->
  Forall (fun gi => length gi = length wb) g ->
  Forall (fun p => nconj p = p /\ p <> nzero) pw -> Forall (fun o => nconj o = o) ow ->
  adj_pair (pweights pw (map (fun _ => wb) pw)) wb (ptinner (length wb) g ow) (ptinner_adj g pw ow).
Proof.
  induction g as [|gi g IH]; intros pw ow Hne Hp Ho Hg Hpw How; [congruence|].
  destruct pw as [|p pw]; [discriminate|]. destruct ow as [|o ow]; [discriminate|].
  destruct (Forall_inv Hpw) as [Hpr Hpz].
  pose proof (pt_block_pair wb gi p o (Forall_inv Hg) Hpr (Forall_inv How) Hpz) as Hb.
  destruct g as [|g2 g].
  - destruct pw; [|discriminate]. destruct ow; [|discriminate].
    cbn [map pweights ptinner ptinner_adj]. rewrite app_nil_r.
    eapply adj_pair_ext; [| | exact Hb].
    + intros x Hx. unfold pt_block. rewrite map_length in Hx. rewrite firstn_all2 by lia. reflexivity.
    + intros f _. rewrite app_nil_r. reflexivity.
  - assert (IH' := IH pw ow ltac:(discriminate) ltac:(cbn in *; lia) ltac:(cbn in *; lia)
                     (Forall_inv_tail Hg) (Forall_inv_tail Hpw) (Forall_inv_tail How)).
    pose proof (adj_hcat OK _ _ _ _ _ _ _ Hb IH') as Hc.
    cbn [map pweights].
    eapply adj_pair_ext; [| | exact Hc].
    + intros x Hx. rewrite map_length. reflexivity.
    + intros f _. reflexivity.
Qed.

Lemma leaf_ok_ptinner (wb pw : vec) (g : list vec) (ow : vec) : g <> [] ->
  length pw = length g -> length ow = length g ->
  Forall (fun gi => length gi = length wb) g ->
  Forall (fun p => nconj p = p /\ p <> nzero) pw -> Forall (fun o => nconj o = o) ow ->
  leaf_ok (LPtInner wb pw g ow).
Proof.
  intros. split; [|split; reflexivity]. cbn [leaf_dom leaf_ran leaf_adjoint eval eval_leaf].
  apply ptinner_pair; assumption.
Qed.
Lemma vconj_pweights_const (wb pw : vec) : vconj wb = wb -> Forall (fun p => nconj p = p /\ p <> nzero) pw ->
  vconj (pweights pw (map (fun _ => wb) pw)) = pweights pw (map (fun _ => wb) pw).
Proof.
  intros Hw. induction 1 as [|p pw [Hp _] _ IH]; [reflexivity|].
  cbn [map pweights]. rewrite vconj_app, IH. f_equal.
  change (map (nmul p) wb) with (vscal p wb). rewrite (vconj_vscal OK), Hp, Hw. reflexivity.
Qed.
Lemma leaf_ok_ptinner_adj (wb pw : vec) (g : list vec) (ow : vec) : g <> [] ->
  length pw = length g -> length ow = length g ->
  Forall (fun gi => length gi = length wb) g ->
  Forall (fun p => nconj p = p /\ p <> nzero) pw -> Forall (fun o => nconj o = o) ow ->
  vconj wb = wb -> leaf_ok (LPtInnerAdj wb pw g ow).
Proof.
  intros Hne Hp Ho Hg Hpw How Hwb. split; [|split; reflexivity]. cbn [leaf_dom leaf_ran leaf_adjoint eval eval_leaf].
  apply adj_pair_sym; [apply vconj_pweights_const; assumption | assumption |].
  apply ptinner_pair; assumption.
Qed.

(* ---------------- leaves whose returned adjoint is again a good leaf ---------------- *)
Lemma rect_conjT n (M : list vec) : rect n M -> rect (length M) (conjT n M).
Proof.
  intros HM. unfold conjT.
  assert (Hr : rect n (map vconj M)) by (clear -HM; induction HM; constructor; [rewrite vconj_len; assumption | assumption]).
  rewrite <- (map_length vconj M). generalize (map vconj M) Hr. clear. intros M HM.
  induction HM as [|r M Hr HM IH]; cbn [transpose length].
  - induction n; constructor; [reflexivity | assumption].
  - assert (Hl : length (transpose n M) = length r) by (rewrite transpose_len; [congruence | exact HM]).
    revert Hl IH. generalize (transpose n M). clear. intros cols. revert cols.
    induction r as [|a r IHr]; intros [|c cols] Hl IH; cbn in Hl; try discriminate; constructor.
    + cbn [length]. f_equal. exact (Forall_inv IH).
    + apply IHr; [lia | exact (Forall_inv_tail IH)].
Qed.
Lemma leaf_good_scaling (w : vec) s : leaf_good (LScaling w s).
Proof. split; [apply leaf_ok_scaling | cbn; apply leaf_ok_scaling]. Qed.
Lemma leaf_good_multiply (w v : vec) : length v = length w -> leaf_good (LMultiply w v).
Proof. intros Hv; split; [apply leaf_ok_multiply; assumption | cbn; apply leaf_ok_multiply; rewrite vconj_len; assumption]. Qed.
Lemma leaf_good_zero (wd wr : vec) : leaf_good (LZero wd wr).
Proof. split; [apply leaf_ok_zero | cbn; apply leaf_ok_zero]. Qed.
Lemma leaf_good_inner (w v : vec) : length v = length w -> vconj w = w -> leaf_good (LInner w v).
Proof. intros Hv Hw; split; [apply leaf_ok_inner; assumption | cbn; apply leaf_ok_mulfield; assumption]. Qed.
Lemma leaf_good_mulfield (w v : vec) : length v = length w -> vconj w = w -> leaf_good (LMulField w v).
Proof. intros Hv Hw; split; [apply leaf_ok_mulfield; assumption | cbn; apply leaf_ok_inner; assumption]. Qed.
Lemma leaf_good_matrix_const c n m (M : list vec) : rect n M -> length M = m ->
  leaf_good (LMatrix (repeat c n) (repeat c m) M).
Proof.
  intros HM Hm; split; [apply leaf_ok_matrix_const; assumption|]. cbn [leaf_adjoint wf]. rewrite repeat_length.
  apply leaf_ok_matrix_const.
  - subst m. apply rect_conjT; assumption.
  - unfold conjT. apply transpose_len. clear -HM. induction HM; constructor; [rewrite vconj_len; assumption | assumption].
Qed.
Lemma leaf_good_sampling cv n idx integrate : Forall (fun i => (i < n)%nat) idx ->
  nconj cv = cv -> cv <> nzero -> leaf_good (LSampling (repeat cv n) idx integrate cv).
Proof. intros; split; [apply leaf_ok_sampling; assumption | cbn; apply leaf_ok_wsum; assumption]. Qed.
Lemma leaf_good_wsum cv n idx dirac : Forall (fun i => (i < n)%nat) idx ->
  nconj cv = cv -> cv <> nzero -> leaf_good (LWSum (repeat cv n) idx dirac cv).
Proof. intros; split; [apply leaf_ok_wsum; assumption | cbn; apply leaf_ok_sampling; assumption]. Qed.
Lemma leaf_good_flatten cv n perm : Forall (fun i => (i < n)%nat) perm ->
  nconj cv = cv -> cv <> nzero -> leaf_good (LFlatten (repeat cv n) perm cv).
Proof. intros; split; [apply leaf_ok_flatten; assumption | cbn; apply leaf_ok_unflatten; assumption]. Qed.
Lemma leaf_good_unflatten cv n perm : Forall (fun i => (i < n)%nat) perm ->
  nconj cv = cv -> cv <> nzero -> leaf_good (LUnflatten (repeat cv n) perm cv).
Proof. intros; split; [apply leaf_ok_unflatten; assumption | cbn; apply leaf_ok_flatten; assumption]. Qed.
Lemma leaves_good_all :
  (forall (w : vec) s, leaf_good (LScaling w s)) /\
  (forall w v : vec, length v = length w -> leaf_good (LMultiply w v)) /\
  (forall wd wr : vec, leaf_good (LZero wd wr)) /\
  (forall w v : vec, length v = length w -> vconj w = w -> leaf_good (LInner w v)) /\
  (forall w v : vec, length v = length w -> vconj w = w -> leaf_good (LMulField w v)) /\
  (forall (c : T) n m (M : list vec), rect n M -> length M = m -> leaf_good (LMatrix (repeat c n) (repeat c m) M)) /\
  (forall (cv : T) n idx b, Forall (fun i => (i < n)%nat) idx -> nconj cv = cv -> cv <> nzero ->
     leaf_good (LSampling (repeat cv n) idx b cv) /\ leaf_good (LWSum (repeat cv n) idx b cv) /\
     leaf_good (LFlatten (repeat cv n) idx cv) /\ leaf_good (LUnflatten (repeat cv n) idx cv)).
Proof.
  repeat match goal with |- _ /\ _ => split end.
  - apply leaf_good_scaling.
  - apply leaf_good_multiply.
  - apply leaf_good_zero.
  - apply leaf_good_inner.
  - apply leaf_good_mulfield.
  - apply leaf_good_matrix_const.
  - intros; repeat match goal with |- _ /\ _ => split end;
      [apply leaf_good_sampling | apply leaf_good_wsum | apply leaf_good_flatten | apply leaf_good_unflatten]; assumption.
Qed.
Lemma leaf_good_proj (ws : list vec) (pw : vec) i : (i < length ws)%nat -> length pw = length ws ->
  nth i pw nzero = none_ -> vconj (pweights pw ws) = pweights pw ws -> vconj (nth i ws []) = nth i ws [] ->
  leaf_good (LProj ws pw i) /\ leaf_good (LProjAdj ws pw i).
Proof.
  intros. split; split; cbn [leaf_adjoint wf]; first [apply leaf_ok_proj | apply leaf_ok_projadj]; assumption.
Qed.
Lemma leaf_good_ptinner (wb pw : vec) (g : list vec) (ow : vec) : g <> [] ->
  length pw = length g -> length ow = length g ->
  Forall (fun gi => length gi = length wb) g ->
  Forall (fun p => nconj p = p /\ p <> nzero) pw -> Forall (fun o => nconj o = o) ow ->
  vconj wb = wb -> leaf_good (LPtInner wb pw g ow) /\ leaf_good (LPtInnerAdj wb pw g ow).
Proof.
  intros. split; split; cbn [leaf_adjoint wf]; first [apply leaf_ok_ptinner | apply leaf_ok_ptinner_adj]; assumption.
Qed.

(* ---------------- ComponentProjection with a slice / list index ---------------- *)
Lemma offset_S (ws : list vec) j : (j < length ws)%nat ->
  offset ws (S j) = (offset ws j + length (nth j ws []))%nat.
Proof.
  revert j; induction ws as [|w ws IH]; intros j Hj; [cbn in Hj; lia|].
  destruct j as [|j]; unfold offset in *.
  - cbn [firstn concat nth]. rewrite app_nil_r. cbn. lia.
  - cbn [firstn concat nth]. rewrite !app_length. specialize (IH j ltac:(cbn in Hj; lia)).
    cbn [firstn concat] in IH. rewrite IH. lia.
Qed.
Lemma offset_le (ws : list vec) i j : (j < i)%nat -> (i <= length ws)%nat ->
  (offset ws j + length (nth j ws []) <= offset ws i)%nat.
Proof.
  intros Hji Hi. induction i as [|i IH]; [lia|].
  destruct (Nat.eq_dec j i) as [->|Hne].
  - rewrite offset_S by lia. lia.
  - specialize (IH ltac:(lia) ltac:(lia)). rewrite offset_S by lia. lia.
Qed.
Lemma offset_total (ws : list vec) i : (i < length ws)%nat ->
  (offset ws i + length (nth i ws []) <= total ws)%nat.
Proof.
  intros Hi. rewrite <- offset_S by assumption. unfold offset, total.
  rewrite <- (firstn_skipn (S i) ws) at 2. rewrite concat_app, app_length. lia.
Qed.

(* a vector of the product space, cut at component i *)
Lemma cut3 (ws : list vec) i (v : vec) : (i < length ws)%nat -> length v = total ws ->
  v = firstn (offset ws i) v ++ block ws i v ++ skipn (offset ws i + length (nth i ws [])) v.
Proof.
  intros Hi Hv. unfold block. rewrite <- (firstn_skipn (offset ws i) v) at 1. f_equal.
  rewrite <- (firstn_skipn (length (nth i ws [])) (skipn (offset ws i) v)) at 1. f_equal.
  rewrite skipn_skipn'. reflexivity.
Qed.
Lemma block_len (ws : list vec) i (v : vec) : (i < length ws)%nat -> length v = total ws ->
  length (block ws i v) = length (nth i ws []).
Proof.
  intros Hi Hv. unfold block. rewrite firstn_length, skipn_length. pose proof (offset_total ws i Hi). lia.
Qed.
Lemma set_block_len (ws : list vec) i (b out : vec) : (i < length ws)%nat -> length out = total ws ->
  length b = length (nth i ws []) -> length (set_block ws i b out) = total ws.
Proof.
  intros Hi Ho Hb. unfold set_block. rewrite !app_length, firstn_length, skipn_length.
  pose proof (offset_total ws i Hi). lia.
Qed.
Lemma block_set_same (ws : list vec) i (b out : vec) : (i < length ws)%nat -> length out = total ws ->
  length b = length (nth i ws []) -> block ws i (set_block ws i b out) = b.
Proof.
  intros Hi Ho Hb. unfold block, set_block. pose proof (offset_total ws i Hi).
  rewrite skipn_app, firstn_length, Nat.min_l, Nat.sub_diag by lia. cbn [skipn].
  rewrite (skipn_all2 (firstn _ out)) by (rewrite firstn_length; lia). cbn [app].
  rewrite firstn_app, <- Hb, Nat.sub_diag, firstn_O, app_nil_r. apply firstn_all.
Qed.
Lemma block_set_other (ws : list vec) i j (b out : vec) : (i < length ws)%nat -> (j < length ws)%nat ->
  i <> j -> length out = total ws -> length b = length (nth i ws []) ->
  block ws j (set_block ws i b out) = block ws j out.
Proof.
  intros Hi Hj Hne Ho Hb.
  pose proof (offset_total ws i Hi) as Ti. pose proof (offset_total ws j Hj) as Tj.
  assert (HB : length (block ws i out) = length (nth i ws [])) by (apply block_len; assumption).
  rewrite (cut3 ws i out Hi Ho) at 2. unfold set_block.
  remember (block ws i out) as B eqn:EB. clear EB.
  remember (firstn (offset ws i) out) as A eqn:EA.
  remember (skipn (offset ws i + length (nth i ws [])) out) as C eqn:EC. clear EC.
  assert (HA : length A = offset ws i) by (subst A; rewrite firstn_length; lia). clear EA.
  unfold block. destruct (Nat.lt_ge_cases j i) as [Hlt|Hge].
  - pose proof (offset_le ws i j Hlt ltac:(lia)) as Hle.
    rewrite !skipn_app, HA. replace (offset ws j - offset ws i)%nat with 0%nat by lia. cbn [skipn].
    rewrite !firstn_app, skipn_length, HA.
    replace (length (nth j ws []) - (offset ws i - offset ws j))%nat with 0%nat by lia.
    cbn [firstn]. reflexivity.
  - assert (Hlt : (i < j)%nat) by lia. pose proof (offset_le ws j i Hlt ltac:(lia)) as Hle.
    rewrite !skipn_app, HA. rewrite (skipn_all2 A) by lia. cbn [app].
    rewrite Hb, HB. rewrite (skipn_all2 b), (skipn_all2 B) by lia. reflexivity.
Qed.

(* the product-space weights, cut at component i *)
Lemma pweights_cut (ws : list vec) (pw : vec) i : (i < length ws)%nat -> length pw = length ws ->
  exists Wl Wr, pweights pw ws = Wl ++ map (nmul (nth i pw nzero)) (nth i ws []) ++ Wr /\
                length Wl = offset ws i.
Proof.
  intros Hi Hl. destruct (proj_split ws pw i Hi Hl) as (L & R & PL & PR & E1 & E2 & HL & HPL).
  exists (pweights PL L), (pweights PR R). split.
  - rewrite E1 at 1. rewrite E2 at 1. rewrite pweights_app by lia. reflexivity.
  - rewrite pweights_len by lia. unfold offset. rewrite E1 at 1.
    rewrite firstn_app, HL, Nat.sub_diag, firstn_O, app_nil_r, <- HL, firstn_all. reflexivity.
Qed.
Lemma cinner_scale_w p (w x y : vec) : cinner (map (nmul p) w) x y = p * cinner w x y.
Proof. unfold cinner. change (map (nmul p) w) with (vscal p w). apply wdot_scale_w. Qed.

Lemma set_block_inner (ws : list vec) (pw : vec) i (x b out : vec) :
  (i < length ws)%nat -> length pw = length ws -> length x = total ws -> length out = total ws ->
  length b = length (nth i ws []) -> block ws i out = zeros (length (nth i ws [])) ->
  cinner (pweights pw ws) x (set_block ws i b out) =
  cinner (pweights pw ws) x out + nth i pw nzero * cinner (nth i ws []) (block ws i x) b.
Proof.
  intros Hi Hl Hx Ho Hb Hz. destruct (pweights_cut ws pw i Hi Hl) as (Wl & Wr & EW & HWl).
  pose proof (offset_total ws i Hi) as Ti.
  rewrite (cut3 ws i out Hi Ho) at 2. rewrite Hz. unfold set_block.
  rewrite (cut3 ws i x Hi Hx) at 1 2. rewrite EW.
  assert (H1 : length (firstn (offset ws i) x) = length Wl) by (rewrite firstn_length; lia).
  assert (H2 : length (firstn (offset ws i) out) = length Wl) by (rewrite firstn_length; lia).
  assert (H3 : length (block ws i x) = length (map (nmul (nth i pw nzero)) (nth i ws [])))
    by (rewrite map_length; apply block_len; assumption).
  assert (H4 : length b = length (map (nmul (nth i pw nzero)) (nth i ws []))) by (rewrite map_length; exact Hb).
  assert (H5 : length (zeros (length (nth i ws []))) = length (map (nmul (nth i pw nzero)) (nth i ws [])))
    by (rewrite map_length; apply zeros_len).
  rewrite (cinner_app OK Wl) by assumption. rewrite (cinner_app OK Wl) by assumption.
  rewrite (cinner_app OK (map (nmul (nth i pw nzero)) (nth i ws []))) by assumption.
  rewrite (cinner_app OK (map (nmul (nth i pw nzero)) (nth i ws []))) by assumption.
  rewrite !cinner_scale_w, (cinner_zeros_r OK). ring.
Qed.

Fixpoint multi_inner (ws : list vec) (idxs : list nat) (x y : vec) : T :=
  match idxs with
  | [] => nzero
  | i :: r => let n := length (nth i ws []) in
      cinner (nth i ws []) (block ws i x) (firstn n y) + multi_inner ws r x (skipn n y)
  end.
Lemma multi_inner_concat (ws : list vec) (idxs : list nat) (x y : vec) :
  Forall (fun i => (i < length ws)%nat) idxs -> length x = total ws ->
  length y = length (concat (map (fun i => nth i ws []) idxs)) ->
  cinner (concat (map (fun i => nth i ws []) idxs)) (concat (map (fun i => block ws i x) idxs)) y =
  multi_inner ws idxs x y.
Proof.
  intros Hidx Hx. revert y; induction Hidx as [|i r Hi _ IH]; intros y Hy; [reflexivity|].
  cbn [map concat multi_inner] in *. rewrite app_length in Hy.
  rewrite <- (firstn_skipn (length (nth i ws [])) y) at 1.
  rewrite (cinner_app OK) by (rewrite ?firstn_length, ?block_len; auto; lia).
  rewrite IH by (rewrite skipn_length; lia). reflexivity.
Qed.

Lemma add_block_len (ws : list vec) i (b out : vec) : (i < length ws)%nat -> length out = total ws ->
  length b = length (nth i ws []) -> length (add_block ws i b out) = total ws.
Proof.
  intros Hi Ho Hb. unfold add_block. rewrite !app_length, firstn_length, skipn_length, vadd_len;
    rewrite ?block_len by assumption; pose proof (offset_total ws i Hi); lia.
Qed.
Lemma add_block_inner (ws : list vec) (pw : vec) i (x b out : vec) :
  (i < length ws)%nat -> length pw = length ws -> length x = total ws -> length out = total ws ->
  length b = length (nth i ws []) ->
  cinner (pweights pw ws) x (add_block ws i b out) =
  cinner (pweights pw ws) x out + nth i pw nzero * cinner (nth i ws []) (block ws i x) b.
Proof.
  intros Hi Hl Hx Ho Hb. destruct (pweights_cut ws pw i Hi Hl) as (Wl & Wr & EW & HWl).
  pose proof (offset_total ws i Hi) as Ti.
  rewrite (cut3 ws i out Hi Ho) at 2. unfold add_block.
  rewrite (cut3 ws i x Hi Hx) at 1 2. rewrite EW.
  assert (HBo : length (block ws i out) = length (nth i ws [])) by (apply block_len; assumption).
  assert (H1 : length (firstn (offset ws i) x) = length Wl) by (rewrite firstn_length; lia).
  assert (H2 : length (firstn (offset ws i) out) = length Wl) by (rewrite firstn_length; lia).
  assert (H3 : length (block ws i x) = length (map (nmul (nth i pw nzero)) (nth i ws [])))
    by (rewrite map_length; apply block_len; assumption).
  assert (H4 : length (vadd (block ws i out) b) = length (map (nmul (nth i pw nzero)) (nth i ws [])))
    by (rewrite map_length, vadd_len; congruence).
  assert (H5 : length (block ws i out) = length (map (nmul (nth i pw nzero)) (nth i ws [])))
    by (rewrite map_length; exact HBo).
  rewrite (cinner_app OK Wl) by assumption. rewrite (cinner_app OK Wl) by assumption.
  rewrite (cinner_app OK (map (nmul (nth i pw nzero)) (nth i ws []))) by assumption.
  rewrite (cinner_app OK (map (nmul (nth i pw nzero)) (nth i ws []))) by assumption.
  rewrite !cinner_scale_w, (cinner_vadd_r OK) by congruence. ring.
Qed.

(* accumulation: any index list (repetitions allowed) *)
Lemma put_blocks_acc_inner (ws : list vec) (pw : vec) (x : vec) : forall (idxs : list nat) (y out : vec),
  length pw = length ws -> length x = total ws -> length out = total ws ->
  Forall (fun i => (i < length ws)%nat /\ nth i pw nzero = none_) idxs ->
  length y = length (concat (map (fun i => nth i ws []) idxs)) ->
  length (put_blocks true ws idxs y out) = total ws /\
  cinner (pweights pw ws) x (put_blocks true ws idxs y out) =
  cinner (pweights pw ws) x out + multi_inner ws idxs x y.
Proof.
  induction idxs as [|i r IH]; intros y out Hl Hx Ho Hall Hy.
  - cbn [put_blocks multi_inner]. split; [assumption | ring].
  - destruct (Forall_inv Hall) as (Hi & Hp). pose proof (Forall_inv_tail Hall) as Hr.
    cbn [map concat] in Hy. rewrite app_length in Hy. cbn [put_blocks multi_inner].
    assert (Hb : length (firstn (length (nth i ws [])) y) = length (nth i ws [])) by (rewrite firstn_length; lia).
    destruct (IH (skipn (length (nth i ws [])) y) (add_block ws i (firstn (length (nth i ws [])) y) out))
      as (L1 & L2); try assumption.
    + apply add_block_len; assumption.
    + rewrite skipn_length. lia.
    + split; [exact L1|]. rewrite L2, (add_block_inner ws pw i x) by assumption. rewrite Hp. ring.
Qed.
(* assignment: distinct indices *)
Lemma put_blocks_inner (ws : list vec) (pw : vec) (x : vec) : forall (idxs : list nat) (y out : vec),
  NoDup idxs -> length pw = length ws -> length x = total ws -> length out = total ws ->
  Forall (fun i => (i < length ws)%nat /\ nth i pw nzero = none_ /\
                   block ws i out = zeros (length (nth i ws []))) idxs ->
  length y = length (concat (map (fun i => nth i ws []) idxs)) ->
  length (put_blocks false ws idxs y out) = total ws /\
  cinner (pweights pw ws) x (put_blocks false ws idxs y out) =
  cinner (pweights pw ws) x out + multi_inner ws idxs x y.
Proof.
  induction idxs as [|i r IH]; intros y out Hnd Hl Hx Ho Hall Hy.
  - cbn [put_blocks multi_inner]. split; [assumption | ring].
  - destruct (Forall_inv Hall) as (Hi & Hp & Hz). pose proof (Forall_inv_tail Hall) as Hr.
    inversion Hnd as [|? ? Hnin Hnd']; subst.
    cbn [map concat] in Hy. rewrite app_length in Hy.
    cbn [put_blocks multi_inner].
    assert (Hb : length (firstn (length (nth i ws [])) y) = length (nth i ws [])) by (rewrite firstn_length; lia).
    destruct (IH (skipn (length (nth i ws [])) y) (set_block ws i (firstn (length (nth i ws [])) y) out))
      as (L1 & L2); try assumption.
    + apply set_block_len; assumption.
    + clear -Hr Hnin Hi Ho Hb. induction Hr as [|j r (Hj & Hpj & Hzj) _ IHr]; constructor.
      * split; [assumption|]. split; [assumption|].
        rewrite block_set_other; try assumption. intros ->. apply Hnin. left; reflexivity.
      * apply IHr. intros Hin. apply Hnin. right; assumption.
    + rewrite skipn_length. lia.
    + split; [exact L1|]. rewrite L2, (set_block_inner ws pw i x) by assumption. rewrite Hp. ring.
Qed.

(* [acc = true] (list index, accumulating adjoint): ANY index list; [acc = false] (slice, assignment): distinct *)
Lemma leaf_ok_projm (ws : list vec) (pw : vec) (idxs : list nat) (acc : bool) :
  (acc = false -> NoDup idxs) -> length pw = length ws ->
  Forall (fun i => (i < length ws)%nat /\ nth i pw nzero = none_) idxs ->
  leaf_ok (LProjM ws pw idxs acc).
Proof.
  intros Hnd Hl Hall. split; [|split; reflexivity]. cbn [leaf_dom leaf_ran leaf_adjoint eval eval_leaf].
  assert (Hlen : length (pweights pw ws) = total ws) by (rewrite pweights_len by assumption; reflexivity).
  assert (Hidx : Forall (fun i => (i < length ws)%nat) idxs)
    by (clear -Hall; induction Hall as [|i r [Hi _] _ IH]; constructor; assumption).
  assert (Hz : forall i, (i < length ws)%nat -> block ws i (zeros (total ws)) = zeros (length (nth i ws []))).
  { intros i Hi. unfold block, zeros. rewrite skipn_repeat', firstn_repeat'. f_equal.
    pose proof (offset_total ws i Hi). lia. }
  assert (Hall' : Forall (fun i => (i < length ws)%nat /\ nth i pw nzero = none_ /\
                     block ws i (zeros (total ws)) = zeros (length (nth i ws []))) idxs).
  { clear -Hall Hz. induction Hall as [|i r [Hi Hp] _ IH]; constructor; auto. }
  assert (Hput : forall x y, length x = total ws ->
            length y = length (concat (map (fun i => nth i ws []) idxs)) ->
            length (put_blocks acc ws idxs y (zeros (total ws))) = total ws /\
            cinner (pweights pw ws) x (put_blocks acc ws idxs y (zeros (total ws))) =
            cinner (pweights pw ws) x (zeros (total ws)) + multi_inner ws idxs x y).
  { intros x y Hx Hy. destruct acc.
    - apply put_blocks_acc_inner; try assumption; apply zeros_len.
    - apply put_blocks_inner; try assumption; [apply Hnd; reflexivity | apply zeros_len]. }
  split; [|split]; rewrite ?Hlen.
  - intros x Hx. cbn [eval_leaf]. clear -Hidx Hx. induction Hidx as [|i r Hi _ IH]; [reflexivity|].
    cbn [map concat]. rewrite !app_length, IH, block_len by assumption. reflexivity.
  - intros y Hy. cbn [eval eval_leaf]. apply (Hput (zeros (total ws)) y); [apply zeros_len | assumption].
  - intros x y Hx Hy. cbn [eval eval_leaf]. rewrite multi_inner_concat by assumption.
    destruct (Hput x y Hx Hy) as (_ & L2). rewrite L2, (cinner_zeros_r OK). ring.
Qed.
Lemma leaf_ok_projm_adj (ws : list vec) (pw : vec) (idxs : list nat) (acc : bool) :
  (acc = false -> NoDup idxs) -> length pw = length ws ->
  Forall (fun i => (i < length ws)%nat /\ nth i pw nzero = none_) idxs ->
  vconj (pweights pw ws) = pweights pw ws ->
  vconj (concat (map (fun i => nth i ws []) idxs)) = concat (map (fun i => nth i ws []) idxs) ->
  leaf_ok (LProjMAdj ws pw idxs acc).
Proof.
  intros Hnd Hl Hall Hr1 Hr2. split; [|split; reflexivity]. cbn [leaf_dom leaf_ran leaf_adjoint].
  destruct (leaf_ok_projm ws pw idxs acc Hnd Hl Hall) as (Hq & _). cbn [leaf_dom leaf_ran leaf_adjoint] in Hq.
  apply adj_pair_sym; assumption.
Qed.
End Leaf.
