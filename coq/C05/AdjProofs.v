(* C05/AdjProofs.v -- the hand-written adjoint model IS the interpretation of the
   tables regenerated from the `adjoint` properties of the source. *)
From Coq Require Import ZArith QArith List Bool.
From Verif Require Import Base.Num Base.Vec Lib.Axis C13.Syntax Gen.FiniteDiff C05.Model C05.AdjSyntax
  Gen.Adjoints C05.AdjInterp C05.Proofs.
Import ListNotations.
Local Open Scope num_scope.

Section P.
Context {T : Type} {NT : Num T} {CT : Conj T}.
Notation oexpr := (oexpr T).
Notation leaf := (leaf T).

Lemma leaf_adjoint_generated (l : leaf) : leaf_adjoint_gen true l = Some (leaf_adjoint l).
Proof.
  destruct l; try reflexivity.
  - (* Sampling *) destruct integrate; reflexivity.
  - (* WeightedSumSampling *) destruct dirac; reflexivity.
  - (* ComplexEmbedding on a real space: the three branches *)
    unfold leaf_adjoint_gen. cbn [lclass leaf_rules interp_lrule cond_val leaf_adjoint].
    destruct (si =? nzero); [reflexivity|]. cbn [interp_lrule cond_val]. destruct (sr =? nzero); reflexivity.
Qed.

Lemma map_adjoint_gen (l : list oexpr) :
  Forall (fun e => adjoint_gen true e = adjoint e) l -> map (adjoint_gen true) l = map adjoint l.
Proof. induction 1 as [|a l Ha _ IH]; [reflexivity|]. cbn [map]. rewrite Ha, IH. reflexivity. Qed.

Theorem adjoint_generated (e : oexpr) : adjoint_gen true e = adjoint e.
Proof.
  induction e as [l|a b IHa IHb|a b IHa IHb|s a IHa|a s IHa|v a IHa|a v IHa|wv v a IHa|l IHl|l IHl|l IHl]
    using oexpr_ind'; cbn [adjoint_gen adjoint].
  - rewrite leaf_adjoint_generated. reflexivity.
  - cbn. rewrite IHa, IHb. reflexivity.
  - cbn. rewrite IHa, IHb. reflexivity.
  - cbn. rewrite IHa. reflexivity.
  - cbn. rewrite IHa. reflexivity.
  - cbn. rewrite IHa. reflexivity.
  - cbn. rewrite IHa. reflexivity.
  - cbn. rewrite IHa. reflexivity.
  - cbn [expr_rules interp_rule interp_ox mkenv e_adjs]. rewrite (map_adjoint_gen l IHl). reflexivity.
  - cbn [expr_rules interp_rule interp_ox mkenv e_adjs]. rewrite (map_adjoint_gen l IHl). reflexivity.
  - cbn [expr_rules interp_rule interp_ox mkenv e_adjs]. rewrite (map_adjoint_gen l IHl). reflexivity.
Qed.

(* every expression class whose adjoint the model mirrors raises for nonlinear operands first *)
Lemma expression_adjoints_guarded :
  forallb expr_guarded [ESum; EComp; ELScal; ERScal; EFLVec; ELVec; ERVec] = true.
Proof. reflexivity. Qed.

(* ---- the real reading (the branches taken on real spaces) gives the same operators
        when the conjugation of the carrier is the identity ---- *)
Section Real.
Hypothesis conj_id : forall a : T, nconj a = a.
Lemma vconj_id (v : list T) : vconj v = v.
Proof. unfold vconj. rewrite <- (map_id v) at 2. apply map_ext. exact conj_id. Qed.

Lemma real_reading_agrees_leaf (l : leaf) : leaf_adjoint_gen false l = leaf_adjoint_gen true l.
Proof.
  destruct l; try reflexivity.
  - (* Scaling: `return self` *) cbn. rewrite conj_id. reflexivity.
  - (* Multiply *) cbn - [vconj]. rewrite vconj_id. reflexivity.
Qed.
Theorem real_reading_agrees (e : oexpr) : adjoint_gen false e = adjoint_gen true e.
Proof.
  induction e as [l|a b IHa IHb|a b IHa IHb|s a IHa|a s IHa|v a IHa|a v IHa|wv v a IHa|l IHl|l IHl|l IHl]
    using oexpr_ind'; cbn [adjoint_gen].
  - rewrite real_reading_agrees_leaf. reflexivity.
  - cbn. rewrite IHa, IHb. reflexivity.
  - cbn. rewrite IHa, IHb. reflexivity.
  - cbn. rewrite IHa. reflexivity.
  - cbn. rewrite IHa. reflexivity.
  - cbn - [vconj]. rewrite IHa, vconj_id. reflexivity.
  - cbn - [vconj]. rewrite IHa, vconj_id. reflexivity.
  - cbn. rewrite IHa. reflexivity.
  - cbn [expr_rules interp_rule interp_ox mkenv e_adjs]. f_equal.
    induction IHl as [|c m Hc _ IHm]; [reflexivity|]. cbn [map]. rewrite Hc, IHm. reflexivity.
  - cbn [expr_rules interp_rule interp_ox mkenv e_adjs]. f_equal.
    induction IHl as [|c m Hc _ IHm]; [reflexivity|]. cbn [map]. rewrite Hc, IHm. reflexivity.
  - cbn [expr_rules interp_rule interp_ox mkenv e_adjs]. f_equal.
    induction IHl as [|c m Hc _ IHm]; [reflexivity|]. cbn [map]. rewrite Hc, IHm. reflexivity.
Qed.
End Real.
End P.
