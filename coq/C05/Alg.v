(* C05/Alg.v -- vector algebra over an abstract commutative ring with an
   involution (the carrier class instantiated by R with conj = id and by R*R).
   Everything here is a Section lemma: the ring laws are a premise [cring_ok],
   discharged for both instances in C05/Inst.v. *)
From Coq Require Import ZArith List Bool Ring Lia.
From Verif Require Import Base.Num Base.Vec C05.Model.
Import ListNotations.
Local Open Scope num_scope.

Record cring_ok (T : Type) {NT : Num T} {CT : Conj T} : Prop := {
  ck_ring : ring_theory (@nzero T NT) none_ nadd nmul nsub nopp (@eq T);
  ck_conj_add : forall a b : T, nconj (a + b) = nconj a + nconj b;
  ck_conj_mul : forall a b : T, nconj (a * b) = nconj a * nconj b;
  ck_conj_opp : forall a : T, nconj (- a) = - nconj a;
  ck_conj_zero : nconj (@nzero T NT) = nzero;
  ck_conj_one : nconj (@none_ T NT) = none_;
  ck_conj_invol : forall a : T, nconj (nconj a) = a;
  ck_div_mul : forall a b : T, b <> nzero -> (a / b) * b = a;
  ck_eqb : forall a b : T, (a =? b) = true -> a = b }.

Section Alg.
Context {T : Type} {NT : Num T} {CT : Conj T}.
Hypothesis OK : cring_ok T.
Add Ring Tring : (ck_ring T OK).

Notation vec := (list T).

(* ---- lengths ---- *)
Lemma vmap2_len (f : T -> T -> T) (x y : vec) : length x = length y -> length (vmap2 f x y) = length x.
Proof.
  revert y; induction x as [|a x IH]; intros [|b y] Hl; cbn in *; try congruence.
  f_equal; apply IH; congruence.
Qed.
Lemma vadd_len (x y : vec) : length x = length y -> length (vadd x y) = length x.
Proof. apply vmap2_len. Qed.
Lemma vmul_len (x y : vec) : length x = length y -> length (vmul x y) = length x.
Proof. apply vmap2_len. Qed.
Lemma vscal_len (s : T) (x : vec) : length (vscal s x) = length x.
Proof. apply map_length. Qed.
Lemma vconj_len (x : vec) : length (vconj x) = length x.
Proof. apply map_length. Qed.
Lemma zeros_len n : length (@zeros T _ n) = n.
Proof. apply repeat_length. Qed.

(* ---- sums ---- *)
Lemma sumf_app (x y : vec) : sumf (x ++ y) = sumf x + sumf y.
Proof. induction x as [|a x IH]; cbn [sumf app]; [ring | rewrite IH; ring]. Qed.

Lemma wdot_nil_l (x y : vec) : wdot [] x y = nzero.
Proof. reflexivity. Qed.
Lemma wdot_cons w a b (ws x y : vec) : wdot (w :: ws) (a :: x) (b :: y) = w * (a * b) + wdot ws x y.
Proof. reflexivity. Qed.
Lemma wdot_nil_x (w y : vec) : wdot w [] y = nzero.
Proof. destruct w; reflexivity. Qed.
Lemma wdot_nil_y (w x : vec) : wdot w x [] = nzero.
Proof. destruct w, x; reflexivity. Qed.

Lemma wdot_vadd_l (w u v y : vec) : length u = length v ->
  wdot w (vadd u v) y = wdot w u y + wdot w v y.
Proof.
  revert u v y; induction w as [|c w IH]; intros u v y Hl.
  - rewrite !wdot_nil_l; ring.
  - destruct u as [|a u], v as [|b v]; cbn in Hl; try congruence.
    + rewrite !wdot_nil_x; ring.
    + destruct y as [|d y]; [rewrite !wdot_nil_y; ring|].
      unfold vadd; cbn [vmap2]; rewrite !wdot_cons. fold (vadd u v). rewrite IH by congruence. ring.
Qed.
Lemma wdot_vadd_r (w x u v : vec) : length u = length v ->
  wdot w x (vadd u v) = wdot w x u + wdot w x v.
Proof.
  revert x u v; induction w as [|c w IH]; intros x u v Hl.
  - rewrite !wdot_nil_l; ring.
  - destruct x as [|d x]; [rewrite !wdot_nil_x; ring|].
    destruct u as [|a u], v as [|b v]; cbn in Hl; try congruence.
    + rewrite !wdot_nil_y; ring.
    + unfold vadd; cbn [vmap2]; rewrite !wdot_cons. fold (vadd u v). rewrite IH by congruence. ring.
Qed.
Lemma wdot_vscal_l (w : vec) s (u y : vec) : wdot w (vscal s u) y = s * wdot w u y.
Proof.
  revert u y; induction w as [|c w IH]; intros u y.
  - rewrite !wdot_nil_l; ring.
  - destruct u as [|a u]; [cbn [vscal map]; rewrite !wdot_nil_x; ring|].
    destruct y as [|d y]; [rewrite !wdot_nil_y; ring|].
    unfold vscal; cbn [map]; rewrite !wdot_cons. fold (vscal s u). rewrite IH. ring.
Qed.
Lemma wdot_vscal_r (w : vec) s (x u : vec) : wdot w x (vscal s u) = s * wdot w x u.
Proof.
  revert x u; induction w as [|c w IH]; intros x u.
  - rewrite !wdot_nil_l; ring.
  - destruct x as [|d x]; [rewrite !wdot_nil_x; ring|].
    destruct u as [|a u]; [cbn [vscal map]; rewrite !wdot_nil_y; ring|].
    unfold vscal; cbn [map]; rewrite !wdot_cons. fold (vscal s u). rewrite IH. ring.
Qed.
(* moving a pointwise factor across *)
Lemma wdot_vmul_move (w x v y : vec) : wdot w (vmul x v) y = wdot w x (vmul y v).
Proof.
  revert x v y; induction w as [|c w IH]; intros x v y.
  - reflexivity.
  - destruct x as [|a x]; [rewrite !wdot_nil_x; reflexivity|].
    destruct v as [|b v].
    + replace (vmul (a :: x) []) with (@nil T) by reflexivity.
      replace (vmul y []) with (@nil T) by (destruct y; reflexivity).
      rewrite wdot_nil_x, wdot_nil_y; reflexivity.
    + destruct y as [|d y]; [rewrite !wdot_nil_y; reflexivity|].
      unfold vmul; cbn [vmap2]; rewrite !wdot_cons. fold (vmul x v) (vmul y v). rewrite IH. ring.
Qed.
Lemma wdot_app (w1 w2 x1 x2 y1 y2 : vec) : length x1 = length w1 -> length y1 = length w1 ->
  wdot (w1 ++ w2) (x1 ++ x2) (y1 ++ y2) = wdot w1 x1 y1 + wdot w2 x2 y2.
Proof.
  revert x1 y1; induction w1 as [|c w1 IH]; intros [|a x1] [|b y1] H1 H2; cbn in H1, H2; try congruence.
  - cbn [app]; rewrite wdot_nil_l; ring.
  - cbn [app]; rewrite !wdot_cons, IH by congruence. ring.
Qed.

(* ---- conjugation ---- *)
Lemma vconj_vadd (u v : vec) : vconj (vadd u v) = vadd (vconj u) (vconj v).
Proof.
  revert v; induction u as [|a u IH]; intros [|b v]; try reflexivity.
  unfold vadd, vconj in *; cbn [vmap2 map]; rewrite IH, (ck_conj_add T OK); reflexivity.
Qed.
Lemma vconj_vmul (u v : vec) : vconj (vmul u v) = vmul (vconj u) (vconj v).
Proof.
  revert v; induction u as [|a u IH]; intros [|b v]; try reflexivity.
  unfold vmul, vconj in *; cbn [vmap2 map]; rewrite IH, (ck_conj_mul T OK); reflexivity.
Qed.
Lemma vconj_vscal s (u : vec) : vconj (vscal s u) = vscal (nconj s) (vconj u).
Proof.
  induction u as [|a u IH]; [reflexivity|].
  unfold vscal, vconj in *; cbn [map]; rewrite IH, (ck_conj_mul T OK); reflexivity.
Qed.
Lemma vconj_invol (u : vec) : vconj (vconj u) = u.
Proof.
  induction u as [|a u IH]; [reflexivity|]. unfold vconj in *; cbn [map]; rewrite IH, (ck_conj_invol T OK); reflexivity.
Qed.
Lemma vconj_app (u v : vec) : vconj (u ++ v) = vconj u ++ vconj v.
Proof. apply map_app. Qed.
Lemma vconj_zeros n : vconj (zeros n) = @zeros T _ n.
Proof. induction n; [reflexivity|]. unfold vconj, zeros in *; cbn [repeat map]. rewrite IHn, (ck_conj_zero T OK); reflexivity. Qed.

(* ---- the inner product <x,y>_w = sum w x conj(y) ---- *)
Lemma cinner_vadd_l (w u v y : vec) : length u = length v ->
  cinner w (vadd u v) y = cinner w u y + cinner w v y.
Proof. intros; unfold cinner; apply wdot_vadd_l; assumption. Qed.
Lemma cinner_vadd_r (w x u v : vec) : length u = length v ->
  cinner w x (vadd u v) = cinner w x u + cinner w x v.
Proof. intros; unfold cinner; rewrite vconj_vadd; apply wdot_vadd_r; rewrite !vconj_len; assumption. Qed.
Lemma cinner_vscal_l (w : vec) s (u y : vec) : cinner w (vscal s u) y = s * cinner w u y.
Proof. unfold cinner; apply wdot_vscal_l. Qed.
Lemma cinner_vscal_r (w : vec) s (x u : vec) : cinner w x (vscal s u) = nconj s * cinner w x u.
Proof. unfold cinner; rewrite vconj_vscal; apply wdot_vscal_r. Qed.
Lemma cinner_vmul_move (w x v y : vec) : cinner w (vmul x v) y = cinner w x (vmul y (vconj v)).
Proof. unfold cinner; rewrite vconj_vmul, vconj_invol; apply wdot_vmul_move. Qed.
Lemma cinner_app (w1 w2 x1 x2 y1 y2 : vec) : length x1 = length w1 -> length y1 = length w1 ->
  cinner (w1 ++ w2) (x1 ++ x2) (y1 ++ y2) = cinner w1 x1 y1 + cinner w2 x2 y2.
Proof. intros; unfold cinner; rewrite vconj_app; apply wdot_app; rewrite ?vconj_len; assumption. Qed.
Lemma cinner_zeros_l (w y : vec) n : cinner w (zeros n) y = nzero.
Proof.
  unfold cinner. revert n y; induction w as [|c w IH]; intros n y; [reflexivity|].
  destruct n; [apply wdot_nil_x|]. destruct y as [|d y]; [apply wdot_nil_y|].
  unfold zeros, vconj in *; cbn [repeat map]; rewrite wdot_cons, IH; ring.
Qed.
Lemma cinner_zeros_r (w x : vec) n : cinner w x (zeros n) = nzero.
Proof.
  unfold cinner; rewrite vconj_zeros. revert n x; induction w as [|c w IH]; intros n x; [reflexivity|].
  destruct x as [|d x]; [apply wdot_nil_x|]. destruct n; [apply wdot_nil_y|].
  unfold zeros in *; cbn [repeat]; rewrite wdot_cons, IH; ring.
Qed.

(* vscal facts *)
Lemma vscal_vscal s t (u : vec) : vscal s (vscal t u) = vscal (s * t) u.
Proof. unfold vscal; rewrite map_map; apply map_ext; intros; ring. Qed.
Lemma vscal_vadd s (u v : vec) : vscal s (vadd u v) = vadd (vscal s u) (vscal s v).
Proof.
  revert v; induction u as [|a u IH]; intros [|b v]; try reflexivity.
  unfold vscal, vadd in *; cbn [vmap2 map]; rewrite IH; f_equal; ring.
Qed.
Lemma vscal_vmul_l s (u v : vec) : vmul (vscal s u) v = vscal s (vmul u v).
Proof.
  revert v; induction u as [|a u IH]; intros [|b v]; try reflexivity.
  unfold vscal, vmul in *; cbn [vmap2 map]; rewrite IH; f_equal; ring.
Qed.
Lemma vscal_app s (u v : vec) : vscal s (u ++ v) = vscal s u ++ vscal s v.
Proof. apply map_app. Qed.
Lemma vscal_firstn s n (u : vec) : firstn n (vscal s u) = vscal s (firstn n u).
Proof. unfold vscal; apply firstn_map. Qed.
Lemma vscal_skipn s n (u : vec) : skipn n (vscal s u) = vscal s (skipn n u).
Proof. unfold vscal; apply skipn_map. Qed.

(* ---- adjoint pairs between weighted spaces ---- *)
Definition maps (A : vec -> vec) (n m : nat) : Prop := forall x, length x = n -> length (A x) = m.
Definition adj_pair (wd wr : vec) (A B : vec -> vec) : Prop :=
  maps A (length wd) (length wr) /\ maps B (length wr) (length wd) /\
  forall x y, length x = length wd -> length y = length wr -> cinner wr (A x) y = cinner wd x (B y).

Lemma adj_pair_ext wd wr A A' B B' :
  (forall x, length x = length wd -> A x = A' x) -> (forall y, length y = length wr -> B y = B' y) ->
  adj_pair wd wr A B -> adj_pair wd wr A' B'.
Proof.
  intros HA HB (H1 & H2 & H3); repeat split.
  - intros x Hx; rewrite <- HA; auto.
  - intros y Hy; rewrite <- HB; auto.
  - intros x y Hx Hy; rewrite <- HA, <- HB; auto.
Qed.

Lemma adj_sum wd wr A B A' B' : adj_pair wd wr A B -> adj_pair wd wr A' B' ->
  adj_pair wd wr (fun x => vadd (A x) (A' x)) (fun y => vadd (B y) (B' y)).
Proof.
  intros (H1 & H2 & H3) (H1' & H2' & H3'); repeat split.
  - intros x Hx; rewrite vadd_len; [auto | rewrite H1, H1'; auto].
  - intros y Hy; rewrite vadd_len; [auto | rewrite H2, H2'; auto].
  - intros x y Hx Hy. rewrite cinner_vadd_l by (rewrite H1, H1'; auto).
    rewrite cinner_vadd_r by (rewrite H2, H2'; auto). rewrite H3, H3' by assumption. reflexivity.
Qed.
Lemma adj_comp w1 w2 w3 A B A' B' : adj_pair w2 w3 A B -> adj_pair w1 w2 A' B' ->
  adj_pair w1 w3 (fun x => A (A' x)) (fun y => B' (B y)).
Proof.
  intros (H1 & H2 & H3) (H1' & H2' & H3'); repeat split.
  - intros x Hx; auto.
  - intros y Hy; auto.
  - intros x y Hx Hy. rewrite H3 by auto. rewrite H3' by auto. reflexivity.
Qed.
Lemma adj_lscal wd wr s A B : adj_pair wd wr A B ->
  adj_pair wd wr (fun x => vscal s (A x)) (fun y => vscal (nconj s) (B y)).
Proof.
  intros (H1 & H2 & H3); repeat split.
  - intros x Hx; rewrite vscal_len; auto.
  - intros y Hy; rewrite vscal_len; auto.
  - intros x y Hx Hy. rewrite cinner_vscal_l, cinner_vscal_r, (ck_conj_invol T OK), H3 by assumption. reflexivity.
Qed.
Lemma adj_rscal wd wr s A B : adj_pair wd wr A B ->
  adj_pair wd wr (fun x => A (vscal s x)) (fun y => vscal (nconj s) (B y)).
Proof.
  intros (H1 & H2 & H3); repeat split.
  - intros x Hx; apply H1; rewrite vscal_len; auto.
  - intros y Hy; rewrite vscal_len; auto.
  - intros x y Hx Hy. rewrite H3 by (rewrite ?vscal_len; assumption).
    rewrite cinner_vscal_l, cinner_vscal_r, (ck_conj_invol T OK). reflexivity.
Qed.
Lemma adj_lvec wd wr v A B : length v = length wr -> adj_pair wd wr A B ->
  adj_pair wd wr (fun x => vmul (A x) v) (fun y => B (vmul y (vconj v))).
Proof.
  intros Hv (H1 & H2 & H3); repeat split.
  - intros x Hx; rewrite vmul_len; [auto | rewrite H1; auto].
  - intros y Hy; apply H2. rewrite vmul_len; [auto | rewrite vconj_len; congruence].
  - intros x y Hx Hy. rewrite cinner_vmul_move. apply H3; [assumption|].
    rewrite vmul_len; [auto | rewrite vconj_len; congruence].
Qed.
Lemma adj_rvec wd wr v A B : length v = length wd -> adj_pair wd wr A B ->
  adj_pair wd wr (fun x => A (vmul x v)) (fun y => vmul (B y) (vconj v)).
Proof.
  intros Hv (H1 & H2 & H3); repeat split.
  - intros x Hx; apply H1. rewrite vmul_len; [auto | congruence].
  - intros y Hy; rewrite vmul_len; [auto | rewrite vconj_len, H2; auto].
  - intros x y Hx Hy. rewrite H3 by (rewrite ?vmul_len; congruence).
    apply cinner_vmul_move.
Qed.
End Alg.
