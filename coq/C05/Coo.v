(* C05/Coo.v -- ProductSpaceOperator as the code stores it: a list of COO triples (row, col, operator), duplicates
   allowed (the forward evaluation sums them), rows / columns possibly empty, any block shape.  Evaluation
   out[row] += op(x[col]) over the triples; the adjoint is the triple list with row and column exchanged and every
   entry replaced by its adjoint (regenerated rule [psop_rule] of Gen/Adjoints.v).  Theorem: adjoint identity for
   every triple list whose entries satisfy it, between unweighted product spaces (the constructor rejects
   weighted ones). *)
From Coq Require Import ZArith List Bool Ring Lia.
From Verif Require Import Base.Num Base.Vec C05.Model C05.Alg C05.Proofs C05.ProofsLeaf C05.AdjSyntax Gen.Adjoints.
Import ListNotations.
Local Open Scope num_scope.

Section Coo.
Context {T : Type} {NT : Num T} {CT : Conj T}.
Notation vec := (list T).
Notation oexpr := (oexpr T).
Definition entry : Type := (nat * nat * oexpr)%type.

Definition coo_step (rs cs : list vec) (x : vec) (out : vec) (e : entry) : vec :=
  let '(r, c, op) := e in add_block rs r (eval op (block cs c x)) out.
Definition coo_eval (rs cs : list vec) (es : list entry) (x : vec) : vec :=
  fold_left (coo_step rs cs x) es (zeros (total rs)).
Definition coo_adjoint (es : list entry) : list entry :=
  map (fun e : entry => let '(r, c, op) := e in (c, r, adjoint op)) es.

(* interpretation of the regenerated rule *)
Definition pick (s : coosrc) (r c : nat) : nat := match s with CooRow => r | CooCol => c end.
Definition coo_adjoint_gen (rule : psrule) (es : list entry) : list entry :=
  map (fun e : entry => let '(r, c, op) := e in
         (pick (ps_row_src rule) r c, pick (ps_col_src rule) r c, if ps_adj_entries rule then adjoint op else op)) es.
Lemma coo_adjoint_generated (es : list entry) :
  coo_adjoint_gen psop_rule es = coo_adjoint es
  /\ ps_shape_swapped psop_rule = true /\ ps_domain psop_rule = PRan /\ ps_range psop_rule = PDom.
Proof. repeat split. Qed.

Hypothesis OK : cring_ok T.
Add Ring TringCoo : (ck_ring T OK).

Lemma pweights_ones (ws : list vec) : pweights (ones (length ws)) ws = concat ws.
Proof.
  induction ws as [|w ws IH]; [reflexivity|]. cbn [length ones repeat pweights concat].
  fold (@ones T _ (length ws)). rewrite IH, (map_one OK). reflexivity.
Qed.
Lemma nth_ones_T n i : (i < n)%nat -> nth i (@ones T _ n) nzero = none_.
Proof. revert i; induction n; intros i Hi; [lia|]. destruct i; [reflexivity|]. cbn. apply IHn; lia. Qed.

(* the left-argument version of add_block_inner, for unweighted product spaces *)
Lemma add_block_inner_l (ws : list vec) i (b out y : vec) :
  (i < length ws)%nat -> length y = total ws -> length out = total ws -> length b = length (nth i ws []) ->
  cinner (concat ws) (add_block ws i b out) y = cinner (concat ws) out y + cinner (nth i ws []) b (block ws i y).
Proof.
  intros Hi Hy Ho Hb.
  destruct (pweights_cut ws (ones (length ws)) i Hi (ones_len _)) as (Wl & Wr & EW & HWl).
  rewrite pweights_ones, nth_ones_T, (map_one OK) in EW by assumption.
  pose proof (offset_total ws i Hi) as Ti.
  rewrite (cut3 ws i out Hi Ho) at 2. unfold add_block.
  rewrite (cut3 ws i y Hi Hy) at 1 2. rewrite EW.
  assert (HBo : length (block ws i out) = length (nth i ws [])) by (apply block_len; assumption).
  assert (HBy : length (block ws i y) = length (nth i ws [])) by (apply block_len; assumption).
  assert (H1 : length (firstn (offset ws i) y) = length Wl) by (rewrite firstn_length; lia).
  assert (H2 : length (firstn (offset ws i) out) = length Wl) by (rewrite firstn_length; lia).
  assert (H4 : length (vadd (block ws i out) b) = length (nth i ws [])) by (rewrite vadd_len; congruence).
  rewrite (cinner_app OK Wl) by assumption. rewrite (cinner_app OK Wl) by assumption.
  rewrite (cinner_app OK (nth i ws [])) by assumption.
  rewrite (cinner_app OK (nth i ws [])) by assumption.
  rewrite (cinner_vadd_l OK) by congruence. ring.
Qed.
Lemma add_block_inner_r (ws : list vec) i (x b out : vec) :
  (i < length ws)%nat -> length x = total ws -> length out = total ws -> length b = length (nth i ws []) ->
  cinner (concat ws) x (add_block ws i b out) = cinner (concat ws) x out + cinner (nth i ws []) (block ws i x) b.
Proof.
  intros Hi Hx Ho Hb.
  pose proof (add_block_inner OK ws (ones (length ws)) i x b out Hi (ones_len _) Hx Ho Hb) as E.
  rewrite pweights_ones, nth_ones_T in E by assumption. rewrite E. ring.
Qed.

Definition entry_ok (rs cs : list vec) (e : entry) : Prop :=
  let '(r, c, op) := e in
  (r < length rs)%nat /\ (c < length cs)%nat /\
  adj_pair (nth c cs []) (nth r rs []) (eval op) (eval (adjoint op)).

Fixpoint coo_sum (rs cs : list vec) (x y : vec) (es : list entry) : T :=
  match es with
  | [] => nzero
  | (r, c, op) :: es' => cinner (nth r rs []) (eval op (block cs c x)) (block rs r y) + coo_sum rs cs x y es'
  end.

Lemma coo_fold_l (rs cs : list vec) (x y : vec) : length x = total cs -> length y = total rs ->
  forall (es : list entry) (out : vec), Forall (entry_ok rs cs) es -> length out = total rs ->
  length (fold_left (coo_step rs cs x) es out) = total rs /\
  cinner (concat rs) (fold_left (coo_step rs cs x) es out) y = cinner (concat rs) out y + coo_sum rs cs x y es.
Proof.
  intros Hx Hy. induction es as [|[[r c] op] es IH]; intros out Hes Ho.
  - cbn [fold_left coo_sum]. split; [assumption | ring].
  - destruct (Forall_inv Hes) as (Hr & Hc & (M1 & M2 & M3)). cbn [fold_left coo_step coo_sum].
    assert (Hb : length (eval op (block cs c x)) = length (nth r rs [])) by (apply M1; apply block_len; assumption).
    destruct (IH (add_block rs r (eval op (block cs c x)) out) (Forall_inv_tail Hes)) as (L1 & L2).
    + apply add_block_len; assumption.
    + split; [exact L1|]. rewrite L2, add_block_inner_l by assumption. ring.
Qed.
Lemma coo_fold_r (rs cs : list vec) (x y : vec) : length x = total cs -> length y = total rs ->
  forall (es : list entry) (out : vec), Forall (entry_ok rs cs) es -> length out = total cs ->
  length (fold_left (coo_step cs rs y) (coo_adjoint es) out) = total cs /\
  cinner (concat cs) x (fold_left (coo_step cs rs y) (coo_adjoint es) out) =
  cinner (concat cs) x out + coo_sum rs cs x y es.
Proof.
  intros Hx Hy. induction es as [|[[r c] op] es IH]; intros out Hes Ho.
  - cbn [coo_adjoint map fold_left coo_sum]. split; [assumption | ring].
  - destruct (Forall_inv Hes) as (Hr & Hc & (M1 & M2 & M3)). cbn [coo_adjoint map fold_left coo_step coo_sum].
    fold (coo_adjoint es).
    assert (Hb : length (eval (adjoint op) (block rs r y)) = length (nth c cs [])) by (apply M2; apply block_len; assumption).
    destruct (IH (add_block cs c (eval (adjoint op) (block rs r y)) out) (Forall_inv_tail Hes)) as (L1 & L2).
    + apply add_block_len; assumption.
    + split; [exact L1|]. rewrite L2, add_block_inner_r by assumption.
      rewrite (M3 (block cs c x) (block rs r y)) by (apply block_len; assumption). ring.
Qed.

(* the theorem: any triple list (duplicates, empty rows / columns, any block shape) *)
Theorem coo_adjoint_identity (rs cs : list vec) (es : list entry) : Forall (entry_ok rs cs) es ->
  adj_pair (concat cs) (concat rs) (coo_eval rs cs es) (coo_eval cs rs (coo_adjoint es)).
Proof.
  intros Hes. split; [|split].
  - intros x Hx. unfold coo_eval.
    destruct (coo_fold_l rs cs x (zeros (total rs)) Hx (zeros_len _) es (zeros (total rs)) Hes (zeros_len _)) as (L & _).
    exact L.
  - intros y Hy. unfold coo_eval.
    destruct (coo_fold_r rs cs (zeros (total cs)) y (zeros_len _) Hy es (zeros (total cs)) Hes (zeros_len _)) as (L & _).
    exact L.
  - intros x y Hx Hy. unfold coo_eval.
    destruct (coo_fold_l rs cs x y Hx Hy es (zeros (total rs)) Hes (zeros_len _)) as (_ & L1).
    destruct (coo_fold_r rs cs x y Hx Hy es (zeros (total cs)) Hes (zeros_len _)) as (_ & L2).
    rewrite L1, L2, (cinner_zeros_l OK), (cinner_zeros_r OK). reflexivity.
Qed.
End Coo.
