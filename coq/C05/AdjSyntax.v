(* C05/AdjSyntax.v -- the syntax translate/adjoints.py emits into Gen/Adjoints.v
   (hand-written, fixed): the `adjoint` properties of the operator classes read as
   constructor expressions. *)
From Coq Require Import ZArith QArith List.
Import ListNotations.

(* ---- expression classes (operator.py, pspace_ops.py) ---- *)
Inductive ecls := ESum | EComp | ELScal | ERScal | EFLVec | ELVec | ERVec | EBcast | EReduce | EDiag.
Inductive fld := FLeft | FRight | FOperator | FFunctional.     (* operator-valued attributes of self *)
Inductive sval := SScalar | SVector.                            (* self.scalar / self.vector *)
Inductive sx := SV (v : sval) | SConj (v : sval).               (* x  |  x.conjugate() / x.conj() *)
Inductive newk := KSum | KComp | KBroadcast | KReduction | KDiagonal.
Inductive ox :=
| OAdj (f : fld)                    (* self.<f>.adjoint *)
| OT (v : sval)                     (* self.vector.T *)
| OMulL (s : sx) (o : ox)           (* s * o   (Python operator; dispatched by Operator.__rmul__) *)
| OMulR (o : ox) (s : sx)           (* o * s   (Operator.__mul__) *)
| ONew (k : newk) (args : list ox)  (* K(args)   (temporaries self.__tmp* dropped) *)
| ONewMap (k : newk) (swapped : bool).
   (* K( *[op.adjoint for op in self.operators] [, domain=self.range, range=self.domain] ) *)
Inductive rule := RRet (o : ox) | RIfRealVec (a b : rule).     (* if self.vector.space.is_real: a else: b *)

(* ---- leaf classes ---- *)
Inductive lcls := CScaling | CMultiply | CInnerProduct | CZero | CRealPart | CImagPart | CComplexEmbedding
  | CPointwiseInner | CPointwiseInnerAdjoint | CMatrix | CSampling | CWeightedSumSampling
  | CFlattening | CFlatteningInverse | CComponentProjection | CComponentProjectionAdjoint
  | CPartialDerivative | CGradient | CDivergence | CLaplacian | CResizing | CResizingAdjoint.
Inductive spc := PDom | PRan | PField | PBase.   (* self.domain | self.range | self.vector.space.field | self.base_space *)
Inductive attr := AScalar | AVector | AMultiplicand | AMatrix | AAxis | ASamplingPoints | AVariant
  | AVecfield | AWeights | AIndex | AMethod | APadMode | APadConst.
Inductive akey := KDomain | KRange | KSpace | KScalar | KVector | KMultiplicand | KMatrix | KAxis
  | KSamplingPoints | KVariant | KSspace | KVecfield | KVfspace | KWeighting | KIndex | KMethod | KPadMode
  | KPadConst | KLinear.
Inductive vname := NPointEval | NIntegrate | NDirac | NCharFun.
Inductive tab := TAdjMethod | TAdjPadding.
Inductive gval :=
| VSpace (p : spc) | VAttr (a : attr)
| VConj (a : attr)                  (* a.conjugate() | a.conj() | np.conj(a) *)
| VConjT (a : attr)                 (* a.conj().T *)
| VTransp (a : attr)                (* a.T *)
| VTab (t : tab) (a : attr)         (* _ADJ_METHOD[self.method] | _ADJ_PADDING[self.pad_mode] *)
| VNum (q : Q) | VImagUnit | VTrue
| VVarMap (m : list (vname * vname)).   (* the local `variant` chosen by an if-chain on self.variant *)
Inductive lsc := SAttrReal | SAttrImag | SCellVol | SInvCellVol.
   (* self.scalar.real | self.scalar.imag | getattr(self.domain,'cell_volume',1.0) | 1 / that *)
Inductive lx :=
| XSelf | XOp | XInverse            (* self | the enclosing operator of a closure class | self.inverse *)
| XNew (c : lcls) (args : list (akey * gval))
| XScale (s : lsc) (o : lx) | XNeg (o : lx) | XAdd (a b : lx).
Inductive cond := CScalarImagZero | CDomainIsField | CDomainIsRealNumbers | CDomainIsComplexNumbers
  | CDomainIsComplex | CSpaceIsReal | CDomainIsReal | CScalarIsReal | CScalarIsImag | CNotLinear.
Inductive lrule := LRet (o : lx) | LIf (c : cond) (a b : lrule) | LRaise.

(* ---- ProductSpaceOperator.adjoint: the COO transposition ---- *)
Inductive coosrc := CooRow | CooCol.      (* self.ops.row | self.ops.col *)
Record psrule := { ps_adj_entries : bool;   (* data = [op.adjoint for op in self.ops.data] *)
                   ps_row_src : coosrc; ps_col_src : coosrc;   (* indices = [<rows>, <cols>] *)
                   ps_shape_swapped : bool;  (* shape = (self.ops.shape[1], self.ops.shape[0]) *)
                   ps_domain : spc; ps_range : spc }.   (* ProductSpaceOperator(adj_matrix, <domain>, <range>) *)

Definition akey_eqb (a b : akey) : bool :=
  match a, b with
  | KDomain, KDomain | KRange, KRange | KSpace, KSpace | KScalar, KScalar | KVector, KVector
  | KMultiplicand, KMultiplicand | KMatrix, KMatrix | KAxis, KAxis | KSamplingPoints, KSamplingPoints
  | KVariant, KVariant | KSspace, KSspace | KVecfield, KVecfield | KVfspace, KVfspace
  | KWeighting, KWeighting | KIndex, KIndex | KMethod, KMethod | KPadMode, KPadMode
  | KPadConst, KPadConst | KLinear, KLinear => true
  | _, _ => false
  end.
Fixpoint arg (k : akey) (l : list (akey * gval)) : option gval :=
  match l with
  | [] => None
  | (k', v) :: l' => if akey_eqb k k' then Some v else arg k l'
  end.
Definition vname_eqb (a b : vname) : bool :=
  match a, b with
  | NPointEval, NPointEval | NIntegrate, NIntegrate | NDirac, NDirac | NCharFun, NCharFun => true
  | _, _ => false
  end.
Fixpoint vlookup (n : vname) (m : list (vname * vname)) : option vname :=
  match m with
  | [] => None
  | (a, b) :: m' => if vname_eqb n a then Some b else vlookup n m'
  end.
