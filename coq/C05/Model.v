(* C05/Model.v -- executable model of the adjoints ODL exposes (definitions only).

   Elements of every space are FLAT lists over a carrier T (C order; product
   spaces = concatenation of the parts).  A space is described by the diagonal
   of its Gram matrix, the list of weights [w]: <x,y>_w = sum_i w_i x_i conj(y_i).
   (constant weighting c: w = [c;..;c]; array weighting: the array; uniform
   discretisations: cell volume; nodes_on_bdry: cell volume times the boundary
   fractions; product spaces: concat of p_i * w_i.)  The field itself is the
   space [1].

   The carrier is a [Num] with a conjugation: Q, R (conj = id) and pairs
   (complex numbers).  The same definitions run at Q / Q*Q in the shards and
   are proved over an abstract commutative ring with involution (C05/Proofs.v),
   instantiated at R and R*R in Props.v.

   [adjoint] mirrors the code: odl/operator/operator.py (the .adjoint properties of the
   expression classes, including the dispatch of the Python operators * used
   there and the scalar merging of OperatorLeftScalarMult.__init__),
   default_ops.py, tensor_ops.py, pspace_ops.py, diff_ops.py. *)
From Coq Require Import ZArith QArith List Bool.
From Verif Require Import Base.Num Base.Vec Lib.Axis C13.Syntax Gen.FiniteDiff C13.Model C13.ModelNd.
(* resize_array: model and generated slice arithmetic of C16 (qualified names: its pmode / Forward clash with C13's) *)
From Verif Require C16.Syntax Gen.Padding C16.Model C16.ModelNd.
Import ListNotations.
Local Open Scope num_scope.

Class Conj (T : Type) := { nconj : T -> T }.

Global Instance Conj_Q : Conj Q := {| nconj := fun x => x |}.

(* complex numbers over any carrier, as pairs (re, im) *)
Section Cx.
Context {T : Type} `{Num T}.
Definition cx_mul (a b : T * T) : T * T :=
  (fst a * fst b - snd a * snd b, fst a * snd b + snd a * fst b).
Definition cx_div (a b : T * T) : T * T :=
  let d := fst b * fst b + snd b * snd b in
  ((fst a * fst b + snd a * snd b) / d, (snd a * fst b - fst a * snd b) / d).
(* nabs / nltb / nleb are NOT the complex modulus / an order; nothing in this
   property's model uses them at the complex instance. *)
Global Instance Num_Cx : Num (T * T) := {|
  nzero := (nzero, nzero); none_ := (none_, nzero);
  nadd := fun a b => (fst a + fst b, snd a + snd b);
  nsub := fun a b => (fst a - fst b, snd a - snd b);
  nmul := cx_mul; ndiv := cx_div;
  nopp := fun a => (- fst a, - snd a);
  nabs := fun a => (nabs (fst a) + nabs (snd a), nzero);
  nltb := fun a b => nltb (fst a) (fst b); nleb := fun a b => nleb (fst a) (fst b);
  neqb := fun a b => neqb (fst a) (fst b) && neqb (snd a) (snd b);
  of_Z := fun z => (of_Z z, nzero) |}.
Global Instance Conj_Cx : Conj (T * T) := {| nconj := fun a => (fst a, - snd a) |}.
End Cx.

Section M.
Context {T : Type} `{Num T} `{Conj T}.

Definition vconj (x : list T) : list T := map nconj x.
Definition zeros (n : nat) : list T := repeat nzero n.
Definition ones (n : nat) : list T := repeat none_ n.
(* <x,y>_w, linear in x, conjugate-linear in y (x.inner(y) of the library) *)
Definition cinner (w x y : list T) : T := wdot w x (vconj y).

(* x.ravel()[idx] *)
Definition gather (idx : list nat) (x : list T) : list T := map (fun i => nth i x nzero) idx.
(* np.bincount(idx, weights=y, minlength=n) *)
Fixpoint add_at (i : nat) (v : T) (l : list T) : list T :=
  match l, i with
  | [], _ => []
  | a :: l', O => (a + v) :: l'
  | a :: l', S i' => a :: add_at i' v l'
  end.
Fixpoint scatter (n : nat) (idx : list nat) (y : list T) : list T :=
  match idx, y with
  | i :: idx', v :: y' => add_at i v (scatter n idx' y')
  | _, _ => zeros n
  end.

Definition conjT (ncols : nat) (m : list (list T)) : list (list T) :=
  transpose ncols (map vconj m).

(* C-flat indices of an array of the given shape enumerated in Fortran order *)
Fixpoint ravelF (shape : list nat) : list nat :=
  match shape with
  | [] => [O]
  | n :: rest =>
      let r := ravelF rest in let p := prodn rest in
      flat_map (fun c => map (fun i => i * p + c)%nat (seq 0 n)) r
  end.

(* product space: component weights [ws], product weights [pw] *)
Fixpoint pweights (pw : list T) (ws : list (list T)) : list T :=
  match pw, ws with
  | p :: pw', w :: ws' => map (nmul p) w ++ pweights pw' ws'
  | _, _ => []
  end.
Definition offset (ws : list (list T)) (i : nat) : nat := length (concat (firstn i ws)).
Definition total (ws : list (list T)) : nat := length (concat ws).

(* component i of a flat product-space element; overwrite component i *)
Definition block (ws : list (list T)) (i : nat) (x : list T) : list T :=
  firstn (length (nth i ws [])) (skipn (offset ws i) x).
Definition set_block (ws : list (list T)) (i : nat) (b out : list T) : list T :=
  firstn (offset ws i) out ++ b ++ skipn (offset ws i + length (nth i ws [])) out.
(* out[index] = y for an index list: the parts of y are ASSIGNED to the listed components, in order *)
Definition add_block (ws : list (list T)) (i : nat) (b out : list T) : list T :=
  firstn (offset ws i) out ++ vadd (block ws i out) b ++ skipn (offset ws i + length (nth i ws [])) out.
(* ComponentProjectionAdjoint._call on out = 0: for a LIST index  out[j] += y[k]  (acc = true, /repo abf8b3b),
   for a slice  out[index] = y  (acc = false: assignment) *)
Fixpoint put_blocks (acc : bool) (ws : list (list T)) (idxs : list nat) (y out : list T) : list T :=
  match idxs with
  | [] => out
  | i :: r => let n := length (nth i ws []) in
      put_blocks acc ws r (skipn n y) ((if acc then add_block else set_block) ws i (firstn n y) out)
  end.

(* ------------------------------------------------------------------ leaves *)
Inductive leaf :=
| LScaling (w : list T) (s : T)                       (* ScalingOperator / IdentityOperator *)
| LMultiply (w v : list T)                            (* MultiplyOperator(v) on v.space *)
| LMulField (w v : list T)                            (* MultiplyOperator(v, domain=field) *)
| LInner (w v : list T)                               (* InnerProductOperator(v) *)
| LZero (wd wr : list T)                              (* ZeroOperator(domain, range) *)
| LMatrix (wd wr : list T) (M : list (list T))        (* MatrixOperator(M, domain, range), 1-d *)
| LMatrixAx (wd wr : list T) (shape : list nat) (ax : nat) (M : list (list T))  (* N-d domain, axis *)
| LSampling (wd : list T) (idx : list nat) (integrate : bool) (cv : T)
| LWSum (wr : list T) (idx : list nat) (dirac : bool) (cv : T)
| LFlatten (wd : list T) (perm : list nat) (cv : T)   (* FlatteningOperator *)
| LUnflatten (wr : list T) (perm : list nat) (cv : T) (* FlatteningOperator.inverse *)
| LProj (ws : list (list T)) (pw : list T) (i : nat)  (* ComponentProjection *)
| LProjAdj (ws : list (list T)) (pw : list T) (i : nat)
(* ComponentProjection with a list (acc = true) / slice (acc = false) index *)
| LProjM (ws : list (list T)) (pw : list T) (idxs : list nat) (acc : bool)
| LProjMAdj (ws : list (list T)) (pw : list T) (idxs : list nat) (acc : bool)
| LPtInner (wb pw : list T) (g : list (list T)) (ow : list T)     (* PointwiseInner *)
| LPtInnerAdj (wb pw : list T) (g : list (list T)) (ow : list T)  (* PointwiseInnerAdjoint *)
(* ResizingOperator (pad_const = 0) and the operator it returns as adjoint: resize_array along axis 0, 1, ...
   (C16.ModelNd.sep_loop), direction 'forward' from ishape to oshape / 'adjoint' from oshape back to ishape *)
| LResize (wd wr : list T) (rm : C16.Syntax.pmode) (ishape oshape : list nat) (offs : list Z)
| LResizeAdj (wd wr : list T) (rm : C16.Syntax.pmode) (ishape oshape : list nat) (offs : list Z)
| LPDeriv (wd wr : list T) (shape : list nat) (ax : nat) (m : meth) (p : pmode) (dx : T)
| LGrad (wd wr : list T) (shape : list nat) (m : meth) (p : pmode) (dxs : list T)
| LDiv (wd wr : list T) (shape : list nat) (m : meth) (p : pmode) (dxs : list T)
| LLap (wd wr : list T) (shape : list nat) (p : pmode) (dxs : list T)
(* real <-> complex (used at the real carriers only: C^n is R^2n = re ++ im, weights w ++ w) *)
| LRealR (w : list T) | LImagR (w : list T)           (* RealPart / ImagPart on a real space *)
| LRealC (w : list T) | LImagC (w : list T)           (* on a complex space, w = real weights *)
| LEmbedR (w : list T) (sr si : T)                    (* ComplexEmbedding(real space, s) *)
| LEmbedC (w : list T) (sr si : T).                   (* ComplexEmbedding(complex space, s) *)

Definition leaf_dom (l : leaf) : list T :=
  match l with
  | LScaling w _ | LMultiply w _ | LInner w _ => w
  | LMulField _ _ => [none_]
  | LZero wd _ | LMatrix wd _ _ | LMatrixAx wd _ _ _ _ | LSampling wd _ _ _ | LFlatten wd _ _ => wd
  | LWSum _ idx _ _ => ones (length idx)
  | LUnflatten _ perm _ => ones (length perm)
  | LProj ws pw _ | LProjM ws pw _ _ => pweights pw ws
  | LProjAdj ws _ i => nth i ws []
  | LProjMAdj ws _ idxs _ => concat (map (fun i => nth i ws []) idxs)
  | LPtInner wb pw _ _ => pweights pw (map (fun _ => wb) pw)
  | LPtInnerAdj wb _ _ _ => wb
  | LPDeriv wd _ _ _ _ _ _ | LGrad wd _ _ _ _ _ | LDiv wd _ _ _ _ _ | LLap wd _ _ _ _ => wd
  | LResize wd _ _ _ _ _ | LResizeAdj wd _ _ _ _ _ => wd
  | LRealR w | LImagR w | LEmbedR w _ _ => w
  | LRealC w | LImagC w | LEmbedC w _ _ => w ++ w
  end.
Definition leaf_ran (l : leaf) : list T :=
  match l with
  | LScaling w _ | LMultiply w _ | LMulField w _ => w
  | LInner _ _ => [none_]
  | LZero _ wr | LMatrix _ wr _ | LMatrixAx _ wr _ _ _ | LWSum wr _ _ _ | LUnflatten wr _ _ => wr
  | LSampling _ idx _ _ => ones (length idx)
  | LFlatten _ perm _ => ones (length perm)
  | LProj ws _ i => nth i ws []
  | LProjM ws _ idxs _ => concat (map (fun i => nth i ws []) idxs)
  | LProjAdj ws pw _ | LProjMAdj ws pw _ _ => pweights pw ws
  | LPtInner wb _ _ _ => wb
  | LPtInnerAdj wb pw _ _ => pweights pw (map (fun _ => wb) pw)
  | LPDeriv _ wr _ _ _ _ _ | LGrad _ wr _ _ _ _ | LDiv _ wr _ _ _ _ | LLap _ wr _ _ _ => wr
  | LResize _ wr _ _ _ _ | LResizeAdj _ wr _ _ _ _ => wr
  | LRealR w | LImagR w | LRealC w | LImagC w => w
  | LEmbedR w _ _ | LEmbedC w _ _ => w ++ w
  end.

(* sum_i ow_i * x_i * conj(g_i) over the k blocks of x (block length n) *)
Fixpoint ptinner (n : nat) (g : list (list T)) (ow : list T) (x : list T) : list T :=
  match g, ow with
  | gi :: g', wi :: ow' =>
      let t := map (nmul wi) (vmul (firstn n x) (vconj gi)) in
      match g' with
      | [] => t
      | _ => vadd t (ptinner n g' ow' (skipn n x))
      end
  | _, _ => zeros n
  end.
(* blocks g_i * f, scaled by ow_i / pw_i unless they are equal *)
Fixpoint ptinner_adj (g : list (list T)) (pw ow : list T) (f : list T) : list T :=
  match g, pw, ow with
  | gi :: g', p :: pw', o :: ow' =>
      (if o =? p then vmul gi f else map (fun a => a * (o / p)) (vmul gi f)) ++ ptinner_adj g' pw' ow' f
  | _, _, _ => []
  end.

(* split a flat list into blocks of the given lengths *)
Fixpoint split_at (ns : list nat) (x : list T) : list (list T) :=
  match ns with
  | [] => []
  | n :: ns' => firstn n x :: split_at ns' (skipn n x)
  end.

Definition cscale (sr si : T) (x : list T) : list T :=   (* (sr + i si) * (re ++ im) *)
  let n := Nat.div2 (length x) in
  let re := firstn n x in let im := skipn n x in
  vsub (vscal sr re) (vscal si im) ++ vadd (vscal si re) (vscal sr im).

Definition eval_leaf (l : leaf) (x : list T) : list T :=
  match l with
  | LScaling _ s => vscal s x
  | LMultiply _ v => vmul x v
  | LMulField _ v => vscal (nth 0 x nzero) v
  | LInner w v => [cinner w x v]
  | LZero _ wr => zeros (length wr)
  | LMatrix _ _ M => mvec M x
  | LMatrixAx _ _ shape ax M =>     (* np.tensordot(M, x, axes=(1, axis)) moved back to position axis *)
      along (prodn (firstn ax shape)) (nth ax shape O) (prodn (skipn (S ax) shape)) (length M) (mvec M) x
  | LSampling _ idx integrate cv =>
      if integrate then map (fun a => a * cv) (gather idx x) else gather idx x
  | LWSum wr idx dirac cv =>
      if dirac then map (fun a => a / cv) (scatter (length wr) idx x) else scatter (length wr) idx x
  | LFlatten _ perm _ => gather perm x
  | LUnflatten wr perm _ => scatter (length wr) perm x
  | LProj ws _ i => firstn (length (nth i ws [])) (skipn (offset ws i) x)
  | LProjAdj ws _ i => zeros (offset ws i) ++ x ++ zeros (total ws - offset ws i - length (nth i ws []))
  | LProjM ws _ idxs _ => concat (map (fun i => block ws i x) idxs)
  | LProjMAdj ws _ idxs acc => put_blocks acc ws idxs x (zeros (total ws))
  | LPtInner wb _ g ow => ptinner (length wb) g ow x
  | LPtInnerAdj _ pw g ow => ptinner_adj g pw ow x
  | LResize _ _ rm ishape oshape offs =>
      C16.ModelNd.sep_loop rm C16.Syntax.Forward nzero true 1 ishape oshape offs x
  | LResizeAdj _ _ rm ishape oshape offs =>
      C16.ModelNd.sep_loop rm C16.Syntax.Adjoint nzero true 1 oshape ishape offs x
  | LPDeriv _ _ shape ax m p dx => pderiv shape ax m p nzero dx x
  | LGrad _ _ shape m p dxs => concat (gradient shape m p nzero dxs x)
  | LDiv _ _ shape m p dxs =>
      divergence shape m p nzero dxs (split_at (map (fun _ => prodn shape) dxs) x)
  | LLap _ _ shape p dxs => laplacian shape p nzero dxs x
  | LRealR _ => x
  | LImagR w => zeros (length w)
  | LRealC w => firstn (length w) x
  | LImagC w => skipn (length w) x
  | LEmbedR _ sr si => vscal sr x ++ vscal si x
  | LEmbedC _ sr si => cscale sr si x
  end.

(* ------------------------------------------------------------ expressions *)
Inductive oexpr :=
| Leaf (l : leaf)
| Sum (a b : oexpr)                       (* OperatorSum *)
| Comp (a b : oexpr)                      (* OperatorComp(left=a, right=b) *)
| LScal (s : T) (a : oexpr)               (* OperatorLeftScalarMult *)
| RScal (a : oexpr) (s : T)               (* OperatorRightScalarMult *)
| LVec (v : list T) (a : oexpr)           (* OperatorLeftVectorMult *)
| RVec (a : oexpr) (v : list T)           (* OperatorRightVectorMult *)
| FLVec (wv v : list T) (a : oexpr)       (* FunctionalLeftVectorMult, v in the space wv *)
| Reduce (l : list oexpr)                 (* ReductionOperator / one block row *)
| Bcast (l : list oexpr)                  (* BroadcastOperator / one block column *)
| Diag (l : list oexpr).                  (* DiagonalOperator *)

Fixpoint dom (e : oexpr) : list T :=
  match e with
  | Leaf l => leaf_dom l
  | Sum a _ => dom a
  | Comp _ b => dom b
  | LScal _ a | RScal a _ | LVec _ a | RVec a _ | FLVec _ _ a => dom a
  | Reduce l | Diag l => concat (map dom l)
  | Bcast l => match l with a :: _ => dom a | [] => [] end
  end.
Fixpoint ran (e : oexpr) : list T :=
  match e with
  | Leaf l => leaf_ran l
  | Sum a _ => ran a
  | Comp a _ => ran a
  | LScal _ a | RScal a _ | LVec _ a | RVec a _ => ran a
  | FLVec wv _ _ => wv
  | Reduce l => match l with a :: _ => ran a | [] => [] end
  | Bcast l | Diag l => concat (map ran l)
  end.

Fixpoint eval (e : oexpr) (x : list T) : list T :=
  match e with
  | Leaf l => eval_leaf l x
  | Sum a b => vadd (eval a x) (eval b x)
  | Comp a b => eval a (eval b x)
  | LScal s a => vscal s (eval a x)
  | RScal a s => eval a (vscal s x)
  | LVec v a => vmul (eval a x) v
  | RVec a v => eval a (vmul x v)
  | FLVec _ v a => vscal (nth 0 (eval a x) nzero) v
  | Reduce l =>
      (fix go (l : list oexpr) (x : list T) : list T :=
         match l with
         | [] => []
         | a :: l' =>
             let n := length (dom a) in
             match l' with
             | [] => eval a (firstn n x)
             | _ => vadd (eval a (firstn n x)) (go l' (skipn n x))
             end
         end) l x
  | Bcast l => (fix go (l : list oexpr) : list T :=
         match l with [] => [] | a :: l' => eval a x ++ go l' end) l
  | Diag l =>
      (fix go (l : list oexpr) (x : list T) : list T :=
         match l with
         | [] => []
         | a :: l' => let n := length (dom a) in eval a (firstn n x) ++ go l' (skipn n x)
         end) l x
  end.

(* OperatorLeftScalarMult.__init__ merges nested left scalar multiples *)
Definition mk_lscal (s : T) (e : oexpr) : oexpr :=
  match e with
  | LScal t e' => LScal (s * t) e'
  | _ => LScal s e
  end.

(* how the code decides 'scalar is real / purely imaginary' in ComplexEmbedding.adjoint *)
Definition leaf_adjoint (l : leaf) : oexpr :=
  match l with
  | LScaling w s => Leaf (LScaling w (nconj s))
  | LMultiply w v => Leaf (LMultiply w (vconj v))
  | LMulField w v => Leaf (LInner w v)
  | LInner w v => Leaf (LMulField w v)
  | LZero wd wr => Leaf (LZero wr wd)
  | LMatrix wd wr M => Leaf (LMatrix wr wd (conjT (length wd) M))
  | LMatrixAx wd wr shape ax M =>
      Leaf (LMatrixAx wr wd (firstn ax shape ++ length M :: skipn (S ax) shape) ax (conjT (nth ax shape O) M))
  | LSampling wd idx integrate cv => Leaf (LWSum wd idx (negb integrate) cv)
  | LWSum wr idx dirac cv => Leaf (LSampling wr idx (negb dirac) cv)
  | LFlatten wd perm cv => LScal (none_ / cv) (Leaf (LUnflatten wd perm cv))
  | LUnflatten wr perm cv => LScal cv (Leaf (LFlatten wr perm cv))
  | LProj ws pw i => Leaf (LProjAdj ws pw i)
  | LProjAdj ws pw i => Leaf (LProj ws pw i)
  | LProjM ws pw idxs acc => Leaf (LProjMAdj ws pw idxs acc)
  | LProjMAdj ws pw idxs acc => Leaf (LProjM ws pw idxs acc)
  | LPtInner wb pw g ow => Leaf (LPtInnerAdj wb pw g ow)
  | LPtInnerAdj wb pw g ow => Leaf (LPtInner wb pw g ow)
  | LResize wd wr rm ishape oshape offs => Leaf (LResizeAdj wr wd rm ishape oshape offs)
  | LResizeAdj wd wr rm ishape oshape offs => Leaf (LResize wr wd rm ishape oshape offs)
  | LPDeriv wd wr shape ax m p dx =>
      LScal (- none_) (Leaf (LPDeriv wr wd shape ax (adj_method m) (adj_padding p) dx))
  | LGrad wd wr shape m p dxs =>
      LScal (- none_) (Leaf (LDiv wr wd shape (adj_method m) (adj_padding p) dxs))
  | LDiv wd wr shape m p dxs =>
      LScal (- none_) (Leaf (LGrad wr wd shape (adj_method m) (adj_padding p) dxs))
  | LLap wd wr shape p dxs => Leaf (LLap wr wd shape p dxs)
  | LRealR w => Leaf (LRealR w)
  | LImagR w => Leaf (LZero w w)
  | LRealC w => Leaf (LEmbedR w none_ nzero)            (* ComplexEmbedding(self.range, 1) *)
  | LImagC w => Leaf (LEmbedR w nzero none_)            (* ComplexEmbedding(self.range, 1j) *)
  | LEmbedR w sr si =>
      if si =? nzero then LScal sr (Leaf (LRealC w))
      else if sr =? nzero then LScal si (Leaf (LImagC w))
      else Sum (LScal sr (Leaf (LRealC w))) (LScal si (Leaf (LImagC w)))
  | LEmbedC w sr si => Leaf (LEmbedC w sr (- si))
  end.

Fixpoint adjoint (e : oexpr) : oexpr :=
  match e with
  | Leaf l => leaf_adjoint l
  | Sum a b => Sum (adjoint a) (adjoint b)
  | Comp a b => Comp (adjoint b) (adjoint a)
  | LScal s a => mk_lscal (nconj s) (adjoint a)          (* conj(s) * op.adjoint *)
  | RScal a s => mk_lscal (nconj s) (adjoint a)          (* op.adjoint * conj(s): linear => left mult *)
  | LVec v a => RVec (adjoint a) (vconj v)               (* op.adjoint * conj(v) *)
  | RVec a v => LVec (vconj v) (adjoint a)               (* conj(v) * op.adjoint *)
  | FLVec wv v a => Comp (adjoint a) (Leaf (LInner wv v)) (* OperatorComp(f.adjoint, v.T) *)
  | Reduce l => Bcast (map adjoint l)
  | Bcast l => Reduce (map adjoint l)
  | Diag l => Diag (map adjoint l)
  end.

(* structural well-formedness, as a boolean (what the constructors of operator.py / pspace_ops.py
   check: equal domains / ranges, vector in the right space); leaves are not inspected *)
Fixpoint veqb (x y : list T) : bool :=
  match x, y with
  | [], [] => true
  | a :: x', b :: y' => (a =? b) && veqb x' y'
  | _, _ => false
  end.
Fixpoint wfb (e : oexpr) : bool :=
  match e with
  | Leaf _ => true
  | Sum a b => wfb a && wfb b && veqb (dom a) (dom b) && veqb (ran a) (ran b)
  | Comp a b => wfb a && wfb b && veqb (dom a) (ran b)
  | LScal _ a | RScal a _ => wfb a
  | LVec v a => wfb a && Nat.eqb (length v) (length (ran a))
  | RVec a v => wfb a && Nat.eqb (length v) (length (dom a))
  | FLVec wv v a => wfb a && veqb (ran a) [none_] && Nat.eqb (length v) (length wv) && veqb (vconj wv) wv
  | Reduce l => forallb wfb l && negb (Nat.eqb (length l) 0)
                && forallb (fun a => veqb (ran a) (match l with a0 :: _ => ran a0 | [] => [] end)) l
  | Bcast l => forallb wfb l && negb (Nat.eqb (length l) 0)
               && forallb (fun a => veqb (dom a) (match l with a0 :: _ => dom a0 | [] => [] end)) l
  | Diag l => forallb wfb l
  end.

(* every divisor occurring in the evaluation of a leaf or in its returned adjoint is non-zero
   (premise of the transfer theorems of C05/Transfer*.v; evaluated on every correspondence case) *)
Definition nzb (a : T) : bool := negb (a =? nzero).
Definition ldivb (l : leaf) : bool :=
  match l with
  | LSampling _ _ _ cv | LWSum _ _ _ cv | LFlatten _ _ cv | LUnflatten _ _ cv => nzb cv
  | LPtInner _ pw _ _ | LPtInnerAdj _ pw _ _ => forallb nzb pw
  | LPDeriv _ _ _ _ _ _ dx => nzb dx
  | LGrad _ _ _ _ _ dxs | LDiv _ _ _ _ _ dxs | LLap _ _ _ _ dxs => forallb nzb dxs
  | _ => true
  end.
Fixpoint divsb (e : oexpr) : bool :=
  match e with
  | Leaf l => ldivb l
  | Sum a b | Comp a b => divsb a && divsb b
  | LScal _ a | RScal a _ | LVec _ a | RVec a _ | FLVec _ _ a => divsb a
  | Reduce l | Bcast l | Diag l => forallb divsb l
  end.

(* the unique adjoint w.r.t. the weights, built from the unweighted one:
   W_dom^-1 o B o W_ran  (variant switch of the recorded findings) *)
Definition true_adjoint_of (wd wr : list T) (B : list T -> list T) (y : list T) : list T :=
  vdiv (B (vmul wr y)) wd.
End M.

Arguments leaf : clear implicits.
Arguments oexpr : clear implicits.
