(* C05/ProofsR.v -- facts at the real instance: refutations of the full
   statement for the plain-transpose adjoints on non-uniformly weighted spaces
   (witnesses by computation), finite differences via C13, real <-> complex. *)
From Coq Require Import ZArith QArith Reals Lra List Bool.
From Verif Require Import Base.Num Base.Vec Base.VecR C13.Syntax Gen.FiniteDiff C13.Model C13.ModelNd C13.Proofs
  C05.Model C05.Alg C05.Inst C05.Proofs.
Import ListNotations.
Local Open Scope R_scope.

Definition identity_fails (l : leaf R) : Prop :=
  exists x y, length x = length (leaf_dom l) /\ length y = length (leaf_ran l) /\
    cinner (leaf_ran l) (eval_leaf l x) y <> cinner (leaf_dom l) x (eval (leaf_adjoint l) y).

Ltac witness x y := exists x, y; split; [reflexivity | split; [reflexivity|]];
  unfold cinner, wdot, dot; cbn; unfold dot; cbn; lra.

(* MatrixOperator between differently weighted spaces: rn(1) -> rn(1, weighting=2) *)
Lemma matrix_weighted_refuted : identity_fails (LMatrix [1] [2] [[1]]).
Proof. witness [1] [1]. Qed.
(* MatrixOperator on an array-weighted space: rn(2, weighting=[1,2]), M = [[0,1],[0,0]] *)
Lemma matrix_array_weighted_refuted : identity_fails (LMatrix [1; 2] [1; 2] [[0; 1]; [0; 0]]).
Proof. witness [0; 1] [1; 0]. Qed.
(* SamplingOperator on rn(1, weighting=2) (no cell_volume attribute => cv = 1) *)
Lemma sampling_weighted_refuted : identity_fails (LSampling [2] [0%nat] false 1).
Proof. witness [1] [1]. Qed.
(* ... and on uniform_discr(0, 1, 3, nodes_on_bdry=True): cell volume 1/2, weights (1/4, 1/2, 1/4) *)
Lemma sampling_bdry_refuted : identity_fails (LSampling [1/4; 1/2; 1/4] [0%nat] false (1/2)).
Proof. witness [1; 0; 0] [1]. Qed.
Lemma flatten_weighted_refuted : identity_fails (LFlatten [2] [0%nat] 1).
Proof. witness [1] [1]. Qed.
(* ComponentProjection on ProductSpace(rn(1), rn(1), weighting=[2, 3]) *)
Lemma proj_weighted_refuted : identity_fails (LProj [[1]; [1]] [2; 3] 0).
Proof. witness [1; 0] [1]. Qed.
(* PartialDerivative (forward, zero padding) on uniform_discr(0, 1, 3, nodes_on_bdry=True) *)
Lemma pderiv_bdry_refuted :
  identity_fails (LPDeriv [1/4; 1/2; 1/4] [1/4; 1/2; 1/4] [3%nat] 0 Forward PConstant (1/2)).
Proof.
  exists [0; 1; 0], [1; 0; 0]. split; [reflexivity | split; [reflexivity|]].
  cbn. unfold cinner, wdot, dot. cbn. lra.
Qed.

(* ---------------- finite differences (1-d): reuse of C13 ---------------- *)
From Verif Require Import Lib.Axis C05.ProofsLeaf.
From Coq Require Import Lia.

Lemma vconj_R (g : list R) : vconj g = g.
Proof. unfold vconj; cbn. apply map_id. Qed.

Lemma chunks1 (x : list R) : chunks 1 (length x) x = map (fun a => [a]) x.
Proof. induction x as [|a x IH]; [reflexivity|]. cbn [length chunks map firstn skipn]. f_equal. exact IH. Qed.
Lemma transp1 (x : list R) : transp 1 (map (fun a => [a]) x) = [x].
Proof. induction x as [|a x IH]; [reflexivity|]. cbn [map transp]. rewrite IH. reflexivity. Qed.
Lemma zipcons_nil (y : list R) : Axis.zipcons y (repeat [] (length y)) = map (fun a => [a]) y.
Proof. induction y as [|a y IH]; [reflexivity|]. cbn [length repeat Axis.zipcons map]. f_equal. exact IH. Qed.
Lemma concat_singletons (y : list R) : concat (map (fun a => [a]) y) = y.
Proof. induction y as [|a y IH]; [reflexivity|]. cbn [map concat app]. f_equal. exact IH. Qed.

Lemma along_axis_1d (F : list R -> list R) (x : list R) : length (F x) = length x ->
  along_axis [length x] 0 F x = F x.
Proof.
  intros HF. unfold along_axis, along. cbn [nth firstn skipn prodn fold_right].
  rewrite Nat.mul_1_r. cbn [chunks map]. rewrite firstn_all. cbn [concat]. rewrite app_nil_r.
  unfold along_block. rewrite chunks1, transp1. cbn [map transp].
  rewrite <- HF at 1. rewrite zipcons_nil. apply concat_singletons.
Qed.

Lemma pderiv_1d m p c dx (x : list R) : (2 <= length x)%nat ->
  pderiv [length x] 0 m p c dx x = fd m p c dx x.
Proof. intros Hn. unfold pderiv. apply along_axis_1d. apply fd_length; assumption. Qed.
Lemma pderiv_1d' n m p c dx (x : list R) : length x = n -> (2 <= n)%nat ->
  pderiv [n] 0 m p c dx x = fd m p c dx x.
Proof. intros Hx Hn; subst n; apply pderiv_1d; assumption. Qed.

(* PartialDerivative on a 1-d uniformly weighted discretisation (weights all equal c) *)
Lemma leaf_ok_pderiv_1d (c dx : R) (n : nat) (m : meth) (p : pmode) :
  dx <> 0 -> (2 <= n)%nat ->
  bnd_in_range n (boundary_tab p m) = true ->
  bnd_in_range n (boundary_tab (adj_padding p) (adj_method m)) = true ->
  leaf_ok (LPDeriv (repeat c n) (repeat c n) [n] 0 m p dx).
Proof.
  intros Hdx Hn Hb1 Hb2. split; [|split; reflexivity]. cbn [leaf_dom leaf_ran leaf_adjoint].
  split; [|split]; rewrite ?repeat_length.
  - intros x Hx. cbn [eval_leaf]. rewrite (pderiv_1d' n) by assumption. rewrite fd_length; lia.
  - intros y Hy. cbn [eval eval_leaf]. rewrite vscal_len. rewrite (pderiv_1d' n) by assumption.
    rewrite fd_length; lia.
  - intros x y Hx Hy. cbn [eval eval_leaf].
    assert (Hxy : length x = length y) by congruence.
    rewrite !(pderiv_1d' n) by assumption.
    rewrite !(cinner_const cring_ok_R) by (rewrite ?fd_length; lia).
    rewrite !vconj_R. rewrite (dot_vscal_r cring_ok_R).
    change (@nzero R Num_R) with 0.
    rewrite (fd_adjoint_all m p dx x y Hdx Hxy) by (rewrite ?Hx; assumption).
    cbn. ring.
Qed.

(* ---------------- real <-> complex, realified: C^n = R^2n (re ++ im), weights w ++ w ---------------- *)
Notation OKR := cring_ok_R.
Lemma cinner_split (w x y : list R) : length x = (length w + length w)%nat -> length y = (length w + length w)%nat ->
  cinner (w ++ w) x y =
  cinner w (firstn (length w) x) (firstn (length w) y) + cinner w (skipn (length w) x) (skipn (length w) y).
Proof.
  intros Hx Hy. rewrite <- (firstn_skipn (length w) x) at 1. rewrite <- (firstn_skipn (length w) y) at 1.
  apply (cinner_app OKR); rewrite firstn_length; lia.
Qed.
Lemma half_len (w x : list R) : length x = length (w ++ w) -> length x = (length w + length w)%nat.
Proof. rewrite app_length; auto. Qed.
Lemma conjR (a : R) : nconj a = a. Proof. reflexivity. Qed.
Lemma firstn_app_exact (a b : list R) n : length a = n -> firstn n (a ++ b) = a.
Proof. intros; subst n. rewrite firstn_app, Nat.sub_diag, firstn_O, app_nil_r. apply firstn_all. Qed.
Lemma skipn_app_exact (a b : list R) n : length a = n -> skipn n (a ++ b) = b.
Proof. intros; subst n. rewrite skipn_app, Nat.sub_diag, skipn_O, skipn_all. reflexivity. Qed.

Lemma leaf_ok_realR (w : list R) : leaf_ok (LRealR w).
Proof. split; [|split; reflexivity]. exact (adj_id w). Qed.
Lemma leaf_ok_imagR (w : list R) : leaf_ok (LImagR w).
Proof.
  split; [|split; reflexivity]. cbn [leaf_dom leaf_ran leaf_adjoint]. split; [|split].
  - intros x _; apply zeros_len.
  - intros y _; apply zeros_len.
  - intros x y _ _. cbn [eval eval_leaf]. rewrite (cinner_zeros_l OKR), (cinner_zeros_r OKR). reflexivity.
Qed.

(* RealPart(X).adjoint = ComplexEmbedding(X.real_space, 1)  (fix 8efcc84 of finding realpart-complex-adjoint-domain) *)
Lemma leaf_ok_realC (w : list R) : leaf_ok (LRealC w).
Proof.
  split; [|split; reflexivity]. cbn [leaf_dom leaf_ran leaf_adjoint]. split; [|split].
  - intros x Hx. apply half_len in Hx. cbn [eval_leaf]. rewrite firstn_length; lia.
  - intros y Hy. cbn [eval eval_leaf]. rewrite !app_length, !vscal_len. lia.
  - intros x y Hx Hy. apply half_len in Hx. cbn [eval eval_leaf].
    rewrite cinner_split by (rewrite ?app_length, ?vscal_len; lia).
    rewrite firstn_app_exact, skipn_app_exact by (rewrite vscal_len; lia).
    rewrite !(cinner_vscal_r OKR), !conjR. cbn. ring.
Qed.
Lemma leaf_ok_imagC (w : list R) : leaf_ok (LImagC w).
Proof.
  split; [|split; reflexivity]. cbn [leaf_dom leaf_ran leaf_adjoint]. split; [|split].
  - intros x Hx. apply half_len in Hx. cbn [eval_leaf]. rewrite skipn_length; lia.
  - intros y Hy. cbn [eval eval_leaf]. rewrite !app_length, !vscal_len. lia.
  - intros x y Hx Hy. apply half_len in Hx. cbn [eval eval_leaf].
    rewrite cinner_split by (rewrite ?app_length, ?vscal_len; lia).
    rewrite firstn_app_exact, skipn_app_exact by (rewrite vscal_len; lia).
    rewrite !(cinner_vscal_r OKR), !conjR. cbn. ring.
Qed.
Lemma embedR_form (w x y : list R) sr si : length x = length w -> length y = (length w + length w)%nat ->
  cinner (w ++ w) (vscal sr x ++ vscal si x) y =
  sr * cinner w x (firstn (length w) y) + si * cinner w x (skipn (length w) y).
Proof.
  intros Hx Hy. rewrite cinner_split by (rewrite ?app_length, ?vscal_len; lia).
  rewrite firstn_app_exact, skipn_app_exact by (rewrite vscal_len; lia).
  rewrite !(cinner_vscal_l OKR). reflexivity.
Qed.
Lemma leaf_ok_embedR (w : list R) sr si : leaf_ok (LEmbedR w sr si).
Proof.
  assert (Hdr : dom (leaf_adjoint (LEmbedR w sr si)) = w ++ w /\ ran (leaf_adjoint (LEmbedR w sr si)) = w).
  { cbn [leaf_adjoint]. destruct (si =? nzero)%num; [split; reflexivity|]. destruct (sr =? nzero)%num; split; reflexivity. }
  split; [|exact Hdr]. cbn [leaf_dom leaf_ran]. split; [|split].
  - intros x Hx. cbn [eval_leaf]. rewrite !app_length, !vscal_len. lia.
  - intros y Hy. apply half_len in Hy. cbn [leaf_adjoint].
    destruct (si =? nzero)%num; [|destruct (sr =? nzero)%num]; cbn [eval eval_leaf];
      rewrite ?vadd_len, ?vscal_len, ?firstn_length, ?skipn_length; try lia.
    rewrite !vscal_len, firstn_length, skipn_length. lia.
  - intros x y Hx Hy. apply half_len in Hy. cbn [eval_leaf]. rewrite embedR_form by assumption.
    cbn [leaf_adjoint]. cbn [neqb Num_R nzero].
    destruct (Reqb_spec si 0) as [Hsi|Hsi]; [|destruct (Reqb_spec sr 0) as [Hsr|Hsr]]; cbn [eval eval_leaf].
    + rewrite (cinner_vscal_r OKR), conjR, Hsi. numR. ring.
    + rewrite (cinner_vscal_r OKR), conjR, Hsr. numR. ring.
    + rewrite (cinner_vadd_r OKR) by (rewrite !vscal_len, firstn_length, skipn_length; lia).
      rewrite !(cinner_vscal_r OKR), !conjR. reflexivity.
Qed.

(* ComplexEmbedding(complex space, s): multiplication by s = sr + i si on re ++ im *)
Lemma wdot_vsub_l_R (w u v y : list R) : length u = length v ->
  wdot w (vsub u v) y = wdot w u y - wdot w v y.
Proof.
  revert u v y; induction w as [|c w IH]; intros u v y Hl.
  - rewrite !wdot_nil_l. numR. ring.
  - destruct u as [|a u], v as [|b v]; cbn in Hl; try congruence.
    + unfold vsub; cbn [vmap2]. rewrite !wdot_nil_x. numR. ring.
    + destruct y as [|d y]; [rewrite !wdot_nil_y; numR; ring|].
      unfold vsub; cbn [vmap2]; rewrite !wdot_cons. fold (vsub u v). rewrite IH by congruence. numR. ring.
Qed.
Lemma wdot_vsub_r_R (w x u v : list R) : length u = length v ->
  wdot w x (vsub u v) = wdot w x u - wdot w x v.
Proof.
  revert x u v; induction w as [|c w IH]; intros x u v Hl.
  - rewrite !wdot_nil_l. numR. ring.
  - destruct x as [|d x]; [rewrite !wdot_nil_x; numR; ring|].
    destruct u as [|a u], v as [|b v]; cbn in Hl; try congruence.
    + unfold vsub; cbn [vmap2]. rewrite !wdot_nil_y. numR. ring.
    + unfold vsub; cbn [vmap2]; rewrite !wdot_cons. fold (vsub u v). rewrite IH by congruence. numR. ring.
Qed.
Lemma cinner_R (w x y : list R) : cinner w x y = wdot w x y.
Proof. unfold cinner. rewrite vconj_R. reflexivity. Qed.
Lemma div2_double n : Nat.div2 (n + n) = n.
Proof. replace (n + n)%nat with (2 * n)%nat by lia. apply Nat.div2_double. Qed.
Lemma vsub_len (x y : list R) : length x = length y -> length (vsub x y) = length x.
Proof. apply vmap2_len. Qed.

Lemma cscale_len sr si (x : list R) n : length x = (n + n)%nat -> length (cscale sr si x) = (n + n)%nat.
Proof.
  intros Hx. unfold cscale. rewrite Hx, div2_double, app_length.
  rewrite vsub_len, vadd_len; rewrite ?vscal_len, ?firstn_length, ?skipn_length; lia.
Qed.
Lemma leaf_ok_embedC (w : list R) sr si : leaf_ok (LEmbedC w sr si).
Proof.
  split; [|split; reflexivity]. cbn [leaf_dom leaf_ran leaf_adjoint]. split; [|split]; rewrite ?app_length.
  - intros x Hx. cbn [eval_leaf]. apply cscale_len; assumption.
  - intros y Hy. cbn [eval eval_leaf]. apply cscale_len; assumption.
  - intros x y Hx Hy. cbn [eval eval_leaf]. set (n := length w) in *.
    assert (L1 : length (firstn n x) = n) by (rewrite firstn_length; lia).
    assert (L2 : length (skipn n x) = n) by (rewrite skipn_length; lia).
    assert (L3 : length (firstn n y) = n) by (rewrite firstn_length; lia).
    assert (L4 : length (skipn n y) = n) by (rewrite skipn_length; lia).
    rewrite (cinner_split w (cscale sr si x) y) by (fold n; first [assumption | rewrite (cscale_len sr si x n) by assumption; reflexivity]).
    rewrite (cinner_split w x (cscale sr (- si) y)) by (fold n; first [assumption | rewrite (cscale_len sr (- si) y n) by assumption; reflexivity]).
    fold n. unfold cscale. rewrite Hx, Hy, div2_double.
    rewrite !firstn_app_exact, !skipn_app_exact
      by (rewrite ?vsub_len, ?vadd_len, ?vscal_len; rewrite ?vscal_len; congruence).
    rewrite !cinner_R.
    rewrite wdot_vsub_l_R, wdot_vsub_r_R by (rewrite !vscal_len; congruence).
    rewrite (wdot_vadd_l OKR), (wdot_vadd_r OKR) by (rewrite !vscal_len; congruence).
    rewrite !(wdot_vscal_l OKR), !(wdot_vscal_r OKR). numR. ring.
Qed.

(* ---------------- the precondition of matrix_adjoint_partial is necessary ---------------- *)
Definition unitv (n j : nat) : list R := add_at j 1 (zeros n).
Lemma unitv_len n j : length (unitv n j) = n.
Proof. unfold unitv. rewrite (add_at_len), zeros_len. reflexivity. Qed.
Lemma dot_unitv (u : list R) j : (j < length u)%nat -> dot u (unitv (length u) j) = nth j u 0.
Proof.
  intros Hj. unfold unitv. rewrite (dot_add_at OKR) by (rewrite ?zeros_len; auto).
  rewrite (dot_zeros_r OKR). numR. ring.
Qed.
Lemma vmul_assoc_R (a b c : list R) : vmul a (vmul b c) = vmul (vmul a b) c.
Proof.
  revert b c; induction a as [|x a IH]; intros [|y b] [|z c]; try reflexivity.
  unfold vmul in *; cbn [vmap2]. rewrite IH. f_equal. numR. ring.
Qed.
Lemma wdot_as_dot (w u y : list R) : wdot w u y = dot (vmul w u) y.
Proof. unfold wdot, dot. rewrite vmul_assoc_R. reflexivity. Qed.
Lemma nth_vmul (a b : list R) i : (i < length a)%nat -> length a = length b ->
  nth i (vmul a b) 0 = nth i a 0 * nth i b 0.
Proof.
  revert b i; induction a as [|x a IH]; intros [|y b] i Hi Hl; cbn in Hi, Hl; try lia; try discriminate.
  destruct i as [|i]; [reflexivity|]. unfold vmul in *; cbn [vmap2 nth]. apply IH; lia.
Qed.
Lemma wdot_unitv (w u : list R) i : (i < length w)%nat -> length u = length w ->
  wdot w u (unitv (length w) i) = nth i w 0 * nth i u 0.
Proof.
  intros Hi Hl. rewrite wdot_as_dot.
  replace (length w) with (length (vmul w u)) by (apply vmul_len; congruence).
  rewrite dot_unitv by (rewrite vmul_len; congruence). apply nth_vmul; congruence.
Qed.
Lemma nth_mvec_ones n m (x : list R) i : (i < m)%nat -> nth i (mvec (repeat (ones n) m) x) 0 = dot (ones n) x.
Proof.
  revert i; induction m as [|m IH]; intros i Hi; [lia|].
  cbn [repeat]. rewrite (mvec_cons). destruct i; [reflexivity|]. cbn [nth]. apply IH; lia.
Qed.
Lemma nth_ones n j : (j < n)%nat -> nth j (@ones R _ n) 0 = 1.
Proof. revert j; induction n; intros j Hj; [lia|]. destruct j; [reflexivity|]. cbn. apply IHn; lia. Qed.

Lemma matrix_identity_forces_equal_weights (wd wr : list R) :
  (forall x y, length x = length wd -> length y = length wr ->
     cinner wr (eval_leaf (LMatrix wd wr (repeat (ones (length wd)) (length wr))) x) y =
     cinner wd x (eval (leaf_adjoint (LMatrix wd wr (repeat (ones (length wd)) (length wr)))) y)) ->
  forall i j, (i < length wr)%nat -> (j < length wd)%nat -> nth i wr 0 = nth j wd 0.
Proof.
  intros Hid i j Hi Hj. remember (length wd) as n eqn:En. remember (length wr) as m eqn:Em.
  remember (repeat (ones n) m) as M eqn:EM.
  assert (HM : rect n M) by (subst M; clear; induction m; constructor; [apply ones_len | assumption]).
  assert (Hm : length M = m) by (subst M; apply repeat_length).
  destruct (matrix_unweighted OKR n m M HM Hm) as (U1 & U2 & U3). rewrite !ones_len in U1, U2.
  specialize (Hid (unitv n j) (unitv m i) (unitv_len n j) (unitv_len m i)).
  cbn [eval_leaf leaf_adjoint eval] in Hid. rewrite <- En in Hid.
  specialize (U3 (unitv n j) (unitv m i)). rewrite !ones_len in U3.
  specialize (U3 (unitv_len n j) (unitv_len m i)).
  rewrite !(cinner_ones OKR) in U3 by (rewrite ?mvec_len, ?unitv_len; auto).
  rewrite !cinner_R in Hid. rewrite !vconj_R in U3.
  assert (E1 : nth i (mvec M (unitv n j)) 0 = 1).
  { subst M. rewrite nth_mvec_ones by assumption. rewrite <- (ones_len n) at 2.
    rewrite dot_unitv by (rewrite ones_len; assumption). apply nth_ones; assumption. }
  (* left side: wr_i * (M e_j)_i *)
  rewrite Em in Hid at 1. rewrite wdot_unitv in Hid by (rewrite ?mvec_len; congruence).
  rewrite E1 in Hid.
  (* right side: wd_j * (P e_i)_j with (P e_i)_j = (M e_j)_i by the unweighted identity *)
  rewrite (wdot_swap OKR) in Hid. rewrite En in Hid at 2.
  rewrite wdot_unitv in Hid by (rewrite ?U2; rewrite ?unitv_len; congruence).
  assert (E2 : nth j (mvec (conjT n M) (unitv m i)) 0 = 1).
  { rewrite <- E1.
    rewrite <- (dot_unitv (mvec (conjT n M) (unitv m i)) j) by (rewrite U2; rewrite ?unitv_len; auto).
    rewrite U2 by apply unitv_len. rewrite (dot_comm OKR), <- U3.
    replace m with (length (mvec M (unitv n j))) at 1 by (rewrite mvec_len; exact Hm).
    apply dot_unitv. rewrite mvec_len, Hm. assumption. }
  rewrite E2 in Hid. lra.
Qed.

(* ---------------- Gradient / Divergence on a 1-d discretisation ---------------- *)
Lemma grad_1d n m p dx (x : list R) :
  eval_leaf (LGrad (repeat 0 0) (repeat 0 0) [n] m p [dx]) x = pderiv [n] 0 m p 0 dx x.
Proof. cbn [eval_leaf]. unfold gradient; cbn [gradient_from concat]. apply app_nil_r. Qed.
Lemma div_1d n m p dx (y : list R) : length y = n ->
  eval_leaf (LDiv (repeat 0 0) (repeat 0 0) [n] m p [dx]) y = pderiv [n] 0 m p 0 dx y.
Proof.
  intros Hy. cbn [eval_leaf map split_at prodn fold_right]. rewrite Nat.mul_1_r.
  unfold divergence; cbn [divergence_from]. rewrite firstn_all2 by lia. reflexivity.
Qed.

Lemma leaf_ok_grad_1d (c dx : R) (n : nat) (m : meth) (p : pmode) :
  dx <> 0 -> (2 <= n)%nat ->
  bnd_in_range n (boundary_tab p m) = true ->
  bnd_in_range n (boundary_tab (adj_padding p) (adj_method m)) = true ->
  leaf_ok (LGrad (repeat c n) (repeat c n) [n] m p [dx]) /\
  leaf_ok (LDiv (repeat c n) (repeat c n) [n] m p [dx]).
Proof.
  intros Hdx Hn Hb1 Hb2.
  destruct (leaf_ok_pderiv_1d c dx n m p Hdx Hn Hb1 Hb2) as (Hp & _).
  cbn [leaf_dom leaf_ran leaf_adjoint] in Hp.
  split; (split; [|split; reflexivity]); cbn [leaf_dom leaf_ran leaf_adjoint].
  - eapply (adj_pair_ext); [| | exact Hp].
    + intros x Hx. symmetry. apply (grad_1d n m p dx x).
    + intros y Hy. rewrite repeat_length in Hy. cbn [eval]. f_equal. symmetry. apply (div_1d n _ _ dx y Hy).
  - eapply (adj_pair_ext); [| | exact Hp].
    + intros x Hx. rewrite repeat_length in Hx. symmetry. apply (div_1d n m p dx x Hx).
    + intros y Hy. cbn [eval]. f_equal. symmetry. apply (grad_1d n _ _ dx y).
Qed.

(* ---------------- closure (leaf_good) for the finite-difference leaf ---------------- *)
Lemma adj_method_invol m : adj_method (adj_method m) = m.
Proof. destruct m; reflexivity. Qed.
Lemma adj_padding_invol p : adj_padding (adj_padding p) = p.
Proof. destruct p; reflexivity. Qed.
Lemma leaf_good_pderiv_1d (c dx : R) (n : nat) (m : meth) (p : pmode) :
  dx <> 0 -> (2 <= n)%nat ->
  bnd_in_range n (boundary_tab p m) = true ->
  bnd_in_range n (boundary_tab (adj_padding p) (adj_method m)) = true ->
  leaf_good (LPDeriv (repeat c n) (repeat c n) [n] 0 m p dx).
Proof.
  intros Hdx Hn Hb1 Hb2. split; [apply leaf_ok_pderiv_1d; assumption|].
  cbn [leaf_adjoint wf]. apply leaf_ok_pderiv_1d; try assumption.
  rewrite adj_method_invol, adj_padding_invol. assumption.
Qed.

(* ---------------- the precondition of sampling_adjoint_partial is necessary ---------------- *)
Lemma nth_add_at_same (l : list R) j v : (j < length l)%nat -> nth j (add_at j v l) 0 = nth j l 0 + v.
Proof.
  revert j; induction l as [|a l IH]; intros j Hj; [cbn in Hj; lia|].
  destruct j; [reflexivity|]. cbn [add_at nth]. apply IH. cbn in Hj; lia.
Qed.
Lemma nth_zeros n j : nth j (@zeros R _ n) 0 = 0.
Proof. revert j; induction n; intros [|j]; try reflexivity. cbn. apply IHn. Qed.
Lemma nth_unitv n j : (j < n)%nat -> nth j (unitv n j) 0 = 1.
Proof. intros Hj. unfold unitv. rewrite nth_add_at_same by (rewrite zeros_len; assumption). rewrite nth_zeros. lra. Qed.

Lemma nth_map_divc (cv : R) (l : list R) j : nth j (map (fun a : R => (a / cv)%num) l) 0 = nth j l 0 / cv.
Proof.
  revert j; induction l as [|a l IH]; intros [|j]; cbn [map nth]; try apply IH; try reflexivity;
    unfold Rdiv; ring.
Qed.
Lemma sampling_identity_forces_cell_volume (wd : list R) (cv : R) (j : nat) :
  cv <> 0 -> (j < length wd)%nat ->
  (forall x y, length x = length wd -> length y = 1%nat ->
     cinner (ones 1) (eval_leaf (LSampling wd [j] false cv) x) y =
     cinner wd x (eval (leaf_adjoint (LSampling wd [j] false cv)) y)) ->
  nth j wd 0 = cv.
Proof.
  intros Hcv Hj Hid. specialize (Hid (unitv (length wd) j) [1] (unitv_len _ _) eq_refl).
  cbn [eval_leaf leaf_adjoint eval negb gather map scatter] in Hid.
  fold (unitv (length wd) j) in Hid. rewrite nth_unitv in Hid by assumption.
  rewrite !cinner_R in Hid. rewrite (wdot_swap OKR wd) in Hid.
  rewrite wdot_unitv in Hid by (rewrite ?map_length, ?unitv_len; auto).
  assert (E : nth j (map (fun a : R => (a / cv)%num) (unitv (length wd) j)) 0 = 1 / cv).
  { rewrite nth_map_divc, nth_unitv by assumption. reflexivity. }
  rewrite E in Hid. unfold wdot, ones in Hid. cbn in Hid.
  assert (H1 : nth j wd 0 * (1 / cv) = 1) by lra.
  assert (H2 : nth j wd 0 = nth j wd 0 * (1 / cv) * cv) by (field; assumption).
  rewrite H2, H1. ring.
Qed.

(* regression: with the OLD assignment semantics (acc = false; /repo before abf8b3b used it for lists too)
   ComponentProjection(P, [0, 0]) on ProductSpace(rn(1), rn(1)) violates the identity *)
Lemma projm_repeated_refuted : identity_fails (LProjM [[1]; [1]] [1; 1] [0%nat; 0%nat] false).
Proof. witness [1; 0] [1; 0]. Qed.
