(* C05/ProofsR.v -- facts at the real instance: refutations of the full
   statement for the plain-transpose adjoints on non-uniformly weighted spaces
   (witnesses by computation), finite differences via C13, real <-> complex. *)
From Coq Require Import ZArith QArith Reals Lra List Bool.
From Verif Require Import Base.Num Base.Vec Base.VecR C13.Syntax Gen.FiniteDiff C13.Model C13.ModelNd C13.Proofs
  C05.Model C05.Alg C05.Inst C05.Proofs.
Import ListNotations.
Local Open Scope R_scope.

Definition identity_fails (l : leaf R) : Prop :=
  exists x y, length x = length (leaf_dom l) /\ length y = length (leaf_ran l) /\
    cinner (leaf_ran l) (eval_leaf l x) y <> cinner (leaf_dom l) x (eval (leaf_adjoint l) y).

Ltac witness x y := exists x, y; split; [reflexivity | split; [reflexivity|]];
  unfold cinner, wdot, dot; cbn; unfold dot; cbn; lra.

(* MatrixOperator between differently weighted spaces: rn(1) -> rn(1, weighting=2) *)
Lemma matrix_weighted_refuted : identity_fails (LMatrix [1] [2] [[1]]).
Proof. witness [1] [1]. Qed.
(* MatrixOperator on an array-weighted space: rn(2, weighting=[1,2]), M = [[0,1],[0,0]] *)
Lemma matrix_array_weighted_refuted : identity_fails (LMatrix [1; 2] [1; 2] [[0; 1]; [0; 0]]).
Proof. witness [0; 1] [1; 0]. Qed.
(* SamplingOperator on rn(1, weighting=2) (no cell_volume attribute => cv = 1) *)
Lemma sampling_weighted_refuted : identity_fails (LSampling [2] [0%nat] false 1).
Proof. witness [1] [1]. Qed.
(* ... and on uniform_discr(0, 1, 3, nodes_on_bdry=True): cell volume 1/2, weights (1/4, 1/2, 1/4) *)
Lemma sampling_bdry_refuted : identity_fails (LSampling [1/4; 1/2; 1/4] [0%nat] false (1/2)).
Proof. witness [1; 0; 0] [1]. Qed.
Lemma flatten_weighted_refuted : identity_fails (LFlatten [2] [0%nat] 1).
Proof. witness [1] [1]. Qed.
(* ComponentProjection on ProductSpace(rn(1), rn(1), weighting=[2, 3]) *)
Lemma proj_weighted_refuted : identity_fails (LProj [[1]; [1]] [2; 3] 0).
Proof. witness [1; 0] [1]. Qed.
(* PartialDerivative (forward, zero padding) on uniform_discr(0, 1, 3, nodes_on_bdry=True) *)
Lemma pderiv_bdry_refuted :
  identity_fails (LPDeriv [1/4; 1/2; 1/4] [1/4; 1/2; 1/4] [3%nat] 0 Forward PConstant (1/2)).
Proof.
  exists [0; 1; 0], [1; 0; 0]. split; [reflexivity | split; [reflexivity|]].
  cbn. unfold cinner, wdot, dot. cbn. lra.
Qed.
