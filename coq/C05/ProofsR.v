(* C05/ProofsR.v -- facts at the real instance: refutations of the full
   statement for the plain-transpose adjoints on non-uniformly weighted spaces
   (witnesses by computation), finite differences via C13, real <-> complex. *)
From Coq Require Import ZArith QArith Reals Lra List Bool.
From Verif Require Import Base.Num Base.Vec Base.VecR C13.Syntax Gen.FiniteDiff C13.Model C13.ModelNd C13.Proofs
  C05.Model C05.Alg C05.Inst C05.Proofs.
Import ListNotations.
Local Open Scope R_scope.

Definition identity_fails (l : leaf R) : Prop :=
  exists x y, length x = length (leaf_dom l) /\ length y = length (leaf_ran l) /\
    cinner (leaf_ran l) (eval_leaf l x) y <> cinner (leaf_dom l) x (eval (leaf_adjoint l) y).

Ltac witness x y := exists x, y; split; [reflexivity | split; [reflexivity|]];
  unfold cinner, wdot, dot; cbn; unfold dot; cbn; lra.

(* MatrixOperator between differently weighted spaces: rn(1) -> rn(1, weighting=2) *)
Lemma matrix_weighted_refuted : identity_fails (LMatrix [1] [2] [[1]]).
Proof. witness [1] [1]. Qed.
(* MatrixOperator on an array-weighted space: rn(2, weighting=[1,2]), M = [[0,1],[0,0]] *)
Lemma matrix_array_weighted_refuted : identity_fails (LMatrix [1; 2] [1; 2] [[0; 1]; [0; 0]]).
Proof. witness [0; 1] [1; 0]. Qed.
(* SamplingOperator on rn(1, weighting=2) (no cell_volume attribute => cv = 1) *)
Lemma sampling_weighted_refuted : identity_fails (LSampling [2] [0%nat] false 1).
Proof. witness [1] [1]. Qed.
(* ... and on uniform_discr(0, 1, 3, nodes_on_bdry=True): cell volume 1/2, weights (1/4, 1/2, 1/4) *)
Lemma sampling_bdry_refuted : identity_fails (LSampling [1/4; 1/2; 1/4] [0%nat] false (1/2)).
Proof. witness [1; 0; 0] [1]. Qed.
Lemma flatten_weighted_refuted : identity_fails (LFlatten [2] [0%nat] 1).
Proof. witness [1] [1]. Qed.
(* ComponentProjection on ProductSpace(rn(1), rn(1), weighting=[2, 3]) *)
Lemma proj_weighted_refuted : identity_fails (LProj [[1]; [1]] [2; 3] 0).
Proof. witness [1; 0] [1]. Qed.
(* PartialDerivative (forward, zero padding) on uniform_discr(0, 1, 3, nodes_on_bdry=True) *)
Lemma pderiv_bdry_refuted :
  identity_fails (LPDeriv [1/4; 1/2; 1/4] [1/4; 1/2; 1/4] [3%nat] 0 Forward PConstant (1/2)).
Proof.
  exists [0; 1; 0], [1; 0; 0]. split; [reflexivity | split; [reflexivity|]].
  cbn. unfold cinner, wdot, dot. cbn. lra.
Qed.

(* ---------------- finite differences (1-d): reuse of C13 ---------------- *)
From Verif Require Import Lib.Axis C05.ProofsLeaf.
From Coq Require Import Lia.

Lemma vconj_R (g : list R) : vconj g = g.
Proof. unfold vconj; cbn. apply map_id. Qed.

Lemma chunks1 (x : list R) : chunks 1 (length x) x = map (fun a => [a]) x.
Proof. induction x as [|a x IH]; [reflexivity|]. cbn [length chunks map firstn skipn]. f_equal. exact IH. Qed.
Lemma transp1 (x : list R) : transp 1 (map (fun a => [a]) x) = [x].
Proof. induction x as [|a x IH]; [reflexivity|]. cbn [map transp]. rewrite IH. reflexivity. Qed.
Lemma zipcons_nil (y : list R) : Axis.zipcons y (repeat [] (length y)) = map (fun a => [a]) y.
Proof. induction y as [|a y IH]; [reflexivity|]. cbn [length repeat Axis.zipcons map]. f_equal. exact IH. Qed.
Lemma concat_singletons (y : list R) : concat (map (fun a => [a]) y) = y.
Proof. induction y as [|a y IH]; [reflexivity|]. cbn [map concat app]. f_equal. exact IH. Qed.

Lemma along_axis_1d (F : list R -> list R) (x : list R) : length (F x) = length x ->
  along_axis [length x] 0 F x = F x.
Proof.
  intros HF. unfold along_axis, along. cbn [nth firstn skipn prodn fold_right].
  rewrite Nat.mul_1_r. cbn [chunks map]. rewrite firstn_all. cbn [concat]. rewrite app_nil_r.
  unfold along_block. rewrite chunks1, transp1. cbn [map transp].
  rewrite <- HF at 1. rewrite zipcons_nil. apply concat_singletons.
Qed.

Lemma pderiv_1d m p c dx (x : list R) : (2 <= length x)%nat ->
  pderiv [length x] 0 m p c dx x = fd m p c dx x.
Proof. intros Hn. unfold pderiv. apply along_axis_1d. apply fd_length; assumption. Qed.
Lemma pderiv_1d' n m p c dx (x : list R) : length x = n -> (2 <= n)%nat ->
  pderiv [n] 0 m p c dx x = fd m p c dx x.
Proof. intros Hx Hn; subst n; apply pderiv_1d; assumption. Qed.

(* PartialDerivative on a 1-d uniformly weighted discretisation (weights all equal c) *)
Lemma leaf_ok_pderiv_1d (c dx : R) (n : nat) (m : meth) (p : pmode) :
  dx <> 0 -> (2 <= n)%nat ->
  bnd_in_range n (boundary_tab p m) = true ->
  bnd_in_range n (boundary_tab (adj_padding p) (adj_method m)) = true ->
  leaf_ok (LPDeriv (repeat c n) (repeat c n) [n] 0 m p dx).
Proof.
  intros Hdx Hn Hb1 Hb2. split; [|split; reflexivity]. cbn [leaf_dom leaf_ran leaf_adjoint].
  split; [|split]; rewrite ?repeat_length.
  - intros x Hx. cbn [eval_leaf]. rewrite (pderiv_1d' n) by assumption. rewrite fd_length; lia.
  - intros y Hy. cbn [eval eval_leaf]. rewrite vscal_len. rewrite (pderiv_1d' n) by assumption.
    rewrite fd_length; lia.
  - intros x y Hx Hy. cbn [eval eval_leaf].
    assert (Hxy : length x = length y) by congruence.
    rewrite !(pderiv_1d' n) by assumption.
    rewrite !(cinner_const cring_ok_R) by (rewrite ?fd_length; lia).
    rewrite !vconj_R. rewrite (dot_vscal_r cring_ok_R).
    change (@nzero R Num_R) with 0.
    rewrite (fd_adjoint_all m p dx x y Hdx Hxy) by (rewrite ?Hx; assumption).
    cbn. ring.
Qed.
