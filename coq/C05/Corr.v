(* C05/Corr.v -- correspondence checkers (executed at Q and Q*Q by the shards).
   A case carries the model expression [c_e] read off the implementation's
   operator object, the Gram diagonals of the four spaces involved, and the
   implementation's outputs A(x), A.adjoint(y), A.adjoint.adjoint(x) on full
   bases (plus random vectors) of the respective domains. *)
From Coq Require Import ZArith QArith List Bool.
From Verif Require Import Base.Num Base.Vec Base.Check C13.Syntax Gen.FiniteDiff C05.Model.
Import ListNotations.

Section Corr.
Context {T : Type} `{Num T} `{Conj T}.
Variable close : T -> T -> bool.       (* impl vs model *)

Definition vclose := all2 close.
Definition vsclose := all2 vclose.

Record case := {
  c_e : oexpr T;
  c_dom : list T; c_ran : list T;        (* Gram diagonals of A.domain, A.range *)
  c_adom : list T; c_aran : list T;      (* ... of A.adjoint.domain, A.adjoint.range *)
  c_xs : list (list T); c_Ax : list (list T);
  c_ys : list (list T); c_By : list (list T);
  c_xs2 : list (list T);                 (* c_xs as elements of A.adjoint.adjoint.domain (cast by __call__) *)
  c_BBx : option (list (list T));        (* None: A.adjoint.adjoint raised *)
  c_holds : bool                         (* Python's verdict on <Ax,y> = <x,A*y> over the bases *)
}.

(* unit vectors of length n *)
Definition unit (n j : nat) : list T := map (fun i => if Nat.eqb i j then none_ else nzero) (seq 0 n).
(* the unique adjoint of the model's forward map w.r.t. the weights:
   (B y)_j = <y, A e_j>_wr / wd_j *)
Definition true_adjoint (e : oexpr T) (y : list T) : list T :=
  let wd := dom e in let wr := ran e in
  vdiv (map (fun j => cinner wr y (eval e (unit (length wd) j))) (seq 0 (length wd))) wd.

(* the property itself, decided on outputs: <Ax,y>_ran = <x,By>_dom for all listed x, y *)
Definition identity_on (wd wr : list T) (xs Ax ys By : list (list T)) : bool :=
  forallb (fun xa => forallb (fun yb =>
     close (cinner wr (snd xa) (fst yb)) (cinner wd (fst xa) (snd yb))) (combine ys By)) (combine xs Ax).

Definition check_spaces (k : case) : bool :=
  vclose (c_dom k) (dom (c_e k)) && vclose (c_ran k) (ran (c_e k))
  && vclose (c_adom k) (dom (adjoint (c_e k))) && vclose (c_aran k) (ran (adjoint (c_e k))).
Definition check_forward (k : case) : bool :=
  vsclose (c_Ax k) (map (eval (c_e k)) (c_xs k)).
Definition check_adjoint (k : case) : bool :=
  vsclose (c_By k) (map (eval (adjoint (c_e k))) (c_ys k))
  || vsclose (c_By k) (map (true_adjoint (c_e k)) (c_ys k)).
Definition check_double (k : case) : bool :=
  match c_BBx k with
  | Some bb => vsclose bb (map (eval (adjoint (adjoint (c_e k)))) (c_xs2 k))
  | None => true
  end.
(* the verdict recomputed in Coq from the implementation's own outputs; only
   meaningful when adjoint domain/range are the swapped spaces *)
Definition check_verdict (k : case) : bool :=
  negb (vclose (c_adom k) (c_ran k) && vclose (c_aran k) (c_dom k))
  || Bool.eqb (identity_on (c_dom k) (c_ran k) (c_xs k) (c_Ax k) (c_ys k) (c_By k)) (c_holds k).

(* the structural premise [wf] of the tree theorems and the non-zero-divisor premise of the transfer
   theorems hold for the expression read off the object *)
Definition check_wf (k : case) : bool := wfb (c_e k) && divsb (c_e k) && divsb (adjoint (c_e k)).
Definition check (k : case) : bool :=
  check_wf k && check_spaces k && check_forward k && check_adjoint k && check_double k && check_verdict k.
End Corr.

(* ProductSpaceOperator through its COO triples (C05/Coo.v): forward = sum of all triples, adjoint = the
   transposed triple list with adjoint entries (rule regenerated into Gen/Adjoints.v) *)
From Verif Require Import C05.Coo.
Section CorrCoo.
Context {T : Type} `{Num T} `{Conj T}.
Variable close : T -> T -> bool.
Record pcase := { p_rs : list (list T); p_cs : list (list T); p_es : list (nat * nat * oexpr T);
                  p_xs : list (list T); p_Ax : list (list T); p_ys : list (list T); p_By : list (list T) }.
Definition checkp (k : pcase) : bool :=
  vsclose close (p_Ax k) (map (coo_eval (p_rs k) (p_cs k) (p_es k)) (p_xs k))
  && vsclose close (p_By k) (map (coo_eval (p_cs k) (p_rs k) (coo_adjoint (p_es k))) (p_ys k)).
End CorrCoo.

Definition tolq : Q := 1 # 1000000000.
Definition closeQ (a b : Q) : bool := Qclose tolq tolq a b.
Definition closeC (a b : Q * Q) : bool := closeQ (fst a) (fst b) && closeQ (snd a) (snd b).
Definition checkQ : @case Q -> bool := check closeQ.
Definition checkC : @case (Q * Q) -> bool := check closeC.
Definition checkpQ : @pcase Q -> bool := checkp closeQ.
Definition checkpC : @pcase (Q * Q) -> bool := checkp closeC.

From Coq Require Import Qabs Qminmax.
(* purely RELATIVE closeness (no absolute floor): for the extreme-magnitude cases, whose arithmetic is exact
   (small integers times powers of two), so that a defect of relative size O(1) in a tiny quantity is visible *)
Definition relq : Q := 1 # 1000000000000.
Definition closeRelQ (a b : Q) : bool := Qle_bool (Qabs (a - b)) (relq * Qmax (Qabs a) (Qabs b)).
Definition closeRelC (a b : Q * Q) : bool :=
  let m := Qmax (Qabs (fst a) + Qabs (snd a)) (Qabs (fst b) + Qabs (snd b)) in
  Qle_bool (Qabs (fst a - fst b)) (relq * m) && Qle_bool (Qabs (snd a - snd b)) (relq * m).
Definition checkRelQ : @case Q -> bool := check closeRelQ.
Definition checkRelC : @case (Q * Q) -> bool := check closeRelC.
