(* C05/ProofsNd.v -- the adjoint identity in the weighted inner product for the N-d
   operators (every shape): PartialDerivative, Gradient, Divergence, Laplacian (lifting
   C13/ProofsNd.v, C13/ProofsLap.v) and MatrixOperator along an axis (Lib/AxisR.v). *)
From Coq Require Import ZArith QArith Reals Lra Lia List Bool.
From Verif Require Import Base.Num Base.Vec Base.VecR Lib.Axis Lib.AxisR
  C13.Syntax Gen.FiniteDiff C13.Model C13.ModelNd C13.Proofs C13.ProofsNd C13.ProofsLap
  C05.Model C05.Alg C05.Inst C05.Proofs C05.ProofsLeaf C05.ProofsR.
Import ListNotations.
Local Open Scope R_scope.

Lemma cinner_const_R c n (u y : list R) : length u = n -> cinner (repeat c n) u y = c * dot u y.
Proof. intros Hu. rewrite (cinner_const cring_ok_R) by assumption. rewrite vconj_R. reflexivity. Qed.
Lemma vscal_m1 (v : list R) : vscal (- none_)%num v = vopp v.
Proof. unfold vscal, vopp. apply map_ext. intros a. numR. ring. Qed.

(* ---------------- PartialDerivative, any shape and axis ---------------- *)
Lemma leaf_ok_pderiv_nd (c dx : R) (shape : list nat) (ax : nat) (m : meth) (p : pmode) :
  (ax < length shape)%nat -> axis_ok shape m p ax -> dx <> 0 ->
  leaf_ok (LPDeriv (repeat c (prodn shape)) (repeat c (prodn shape)) shape ax m p dx).
Proof.
  intros Hax Hok Hdx. destruct Hok as (H2 & Hb1 & Hb2).
  split; [|split; reflexivity]. cbn [leaf_dom leaf_ran leaf_adjoint].
  split; [|split]; rewrite ?repeat_length.
  - intros x Hx. cbn [eval_leaf]. apply pderiv_length; assumption.
  - intros y Hy. cbn [eval eval_leaf]. rewrite vscal_len. apply pderiv_length; assumption.
  - intros x y Hx Hy. cbn [eval eval_leaf].
    rewrite !cinner_const_R by (rewrite ?vscal_len, ?pderiv_length; auto).
    rewrite vscal_m1, dot_vopp_r. change (@nzero R Num_R) with 0.
    rewrite pderiv_adjoint_nd by (try assumption; repeat split; assumption). ring.
Qed.

(* ---------------- Laplacian, any shape ---------------- *)
Lemma laplacian_from_length shape p : forall (dxs : list R) (ax : nat) (y acc : list R),
  (ax + length dxs <= length shape)%nat ->
  (forall i, (ax <= i < ax + length dxs)%nat -> (2 <= nth i shape 0)%nat) ->
  length y = prodn shape -> length acc = prodn shape ->
  length (laplacian_from shape ax p 0 dxs y acc) = prodn shape.
Proof.
  induction dxs as [|dx dxs IH]; intros ax y acc Hax H2 Hy Hacc; cbn [length] in *; cbn [laplacian_from]; [assumption|].
  apply IH; try assumption; try lia.
  - intros i Hi; apply H2; lia.
  - rewrite vsub_length; rewrite vadd_length; rewrite ?pderiv_length; try assumption; try lia; try (apply H2; lia).
Qed.
Lemma laplacian_length shape p (dxs y : list R) : length dxs = length shape ->
  (forall i, (i < length shape)%nat -> (2 <= nth i shape 0)%nat) -> length y = prodn shape ->
  length (laplacian shape p 0 dxs y) = prodn shape.
Proof.
  intros Hd H2 Hy. unfold laplacian. apply laplacian_from_length; try assumption; try lia.
  - intros i Hi; apply H2; lia.
  - rewrite repeat_length; assumption.
Qed.
Lemma leaf_ok_laplacian_nd (c : R) (shape : list nat) (p : pmode) (dxs : list R) :
  lap_mode p = true -> length dxs = length shape ->
  (forall i, (i < length shape)%nat -> (2 <= nth i shape 0)%nat) -> Forall (fun dx => dx <> 0) dxs ->
  leaf_ok (LLap (repeat c (prodn shape)) (repeat c (prodn shape)) shape p dxs).
Proof.
  intros Hp Hd H2 Hdx. split; [|split; reflexivity]. cbn [leaf_dom leaf_ran leaf_adjoint].
  split; [|split]; rewrite ?repeat_length.
  - intros x Hx. cbn [eval_leaf]. apply laplacian_length; assumption.
  - intros y Hy. cbn [eval eval_leaf]. apply laplacian_length; assumption.
  - intros x y Hx Hy. cbn [eval eval_leaf]. change (@nzero R Num_R) with 0.
    rewrite !cinner_const_R by (rewrite ?laplacian_length; auto).
    rewrite (laplacian_selfadjoint_nd shape p dxs x y) by assumption. reflexivity.
Qed.

(* ---------------- MatrixOperator along an axis of an N-d domain ---------------- *)
Lemma firstn_replace_axis (shape : list nat) ax (v : nat) : (ax < length shape)%nat ->
  firstn ax (firstn ax shape ++ v :: skipn (S ax) shape) = firstn ax shape.
Proof.
  intros Hax. rewrite firstn_app, firstn_length, Nat.min_l, Nat.sub_diag, firstn_O, app_nil_r by lia.
  apply firstn_all2. rewrite firstn_length. lia.
Qed.
Lemma nth_replace_axis (shape : list nat) ax (v : nat) : (ax < length shape)%nat ->
  nth ax (firstn ax shape ++ v :: skipn (S ax) shape) 0%nat = v.
Proof.
  intros Hax. rewrite app_nth2; rewrite firstn_length, Nat.min_l by lia; [|lia]. rewrite Nat.sub_diag. reflexivity.
Qed.
Lemma skipn_replace_axis (shape : list nat) ax (v : nat) : (ax < length shape)%nat ->
  skipn (S ax) (firstn ax shape ++ v :: skipn (S ax) shape) = skipn (S ax) shape.
Proof.
  intros Hax. rewrite skipn_app, firstn_length, Nat.min_l by lia.
  rewrite (skipn_all2 (firstn ax shape)) by (rewrite firstn_length; lia).
  replace (S ax - ax)%nat with 1%nat by lia. reflexivity.
Qed.
Lemma prodn_replace_axis (shape : list nat) ax (v : nat) : (ax < length shape)%nat ->
  prodn (firstn ax shape ++ v :: skipn (S ax) shape) =
  (prodn (firstn ax shape) * (v * prodn (skipn (S ax) shape)))%nat.
Proof.
  intros Hax. rewrite (prodn_split _ ax) by (rewrite app_length, firstn_length; cbn [length]; lia).
  rewrite firstn_replace_axis, nth_replace_axis, skipn_replace_axis by assumption. reflexivity.
Qed.

Lemma mvec_dot_adjoint n (M : list (list R)) (l g : list R) : ProofsLeaf.rect n M ->
  length l = n -> length g = length M -> dot (mvec M l) g = dot l (mvec (conjT n M) g).
Proof.
  intros HM Hl Hg.
  destruct (matrix_unweighted cring_ok_R n (length M) M HM eq_refl) as (_ & _ & H3).
  specialize (H3 l g). rewrite !(ones_len) in H3. specialize (H3 Hl Hg).
  rewrite !(cinner_ones cring_ok_R) in H3 by (rewrite ?mvec_len; auto). rewrite !vconj_R in H3. exact H3.
Qed.
Lemma conjT_len n (M : list (list R)) : ProofsLeaf.rect n M -> length (conjT n M) = n.
Proof.
  intros HM. unfold conjT. apply transpose_len. clear -HM.
  induction HM; constructor; [rewrite vconj_len; assumption | assumption].
Qed.

Lemma leaf_ok_matrix_axis (c : R) (shape : list nat) (ax : nat) (M : list (list R)) :
  (ax < length shape)%nat -> ProofsLeaf.rect (nth ax shape 0%nat) M ->
  leaf_ok (LMatrixAx (repeat c (prodn shape))
                     (repeat c (prodn (firstn ax shape ++ length M :: skipn (S ax) shape)))
                     shape ax M).
Proof.
  intros Hax HM. set (n := nth ax shape 0%nat) in *. set (m := length M).
  set (outer := prodn (firstn ax shape)). set (inner := prodn (skipn (S ax) shape)).
  assert (Ed : prodn shape = (outer * (n * inner))%nat) by (apply prodn_split; assumption).
  assert (Er : prodn (firstn ax shape ++ m :: skipn (S ax) shape) = (outer * (m * inner))%nat)
    by (apply prodn_replace_axis; assumption).
  assert (HF : forall l, length l = n -> length (mvec M l) = m) by (intros; apply mvec_len).
  assert (HG : forall g, length g = m -> length (mvec (conjT n M) g) = n)
    by (intros; rewrite mvec_len; apply conjT_len; assumption).
  split; [|split; reflexivity]. cbn [leaf_dom leaf_ran leaf_adjoint].
  split; [|split]; rewrite ?repeat_length.
  - intros x Hx. cbn [eval_leaf]. fold n m outer inner. rewrite Er. apply along_length; [assumption | congruence].
  - intros y Hy. cbn [eval eval_leaf]. fold m.
    rewrite firstn_replace_axis, nth_replace_axis, skipn_replace_axis by assumption. fold n outer inner.
    rewrite conjT_len by assumption. rewrite Ed. apply along_length; [assumption | congruence].
  - intros x y Hx Hy. cbn [eval eval_leaf]. fold m.
    rewrite firstn_replace_axis, nth_replace_axis, skipn_replace_axis by assumption. fold n m outer inner.
    rewrite conjT_len by assumption.
    rewrite !cinner_const_R; [| congruence | rewrite Er; apply along_length; [assumption | congruence]].
    rewrite (along_adjoint 1 outer n inner m (mvec M) (mvec (conjT n M))); try assumption; try congruence; [ring|].
    intros l g Hl Hg. rewrite (mvec_dot_adjoint n) by assumption. ring.
Qed.

(* ---------------- Gradient / Divergence, any shape ---------------- *)
Lemma gradient_from_rect shape m p : forall (dxs : list R) (ax : nat) (x : list R),
  (ax + length dxs <= length shape)%nat ->
  (forall i, (ax <= i < ax + length dxs)%nat -> (2 <= nth i shape 0)%nat) ->
  length x = prodn shape ->
  AxisR.rect (length dxs) (prodn shape) (gradient_from shape ax m p 0 dxs x).
Proof.
  induction dxs as [|dx dxs IH]; intros ax x Hax H2 Hx; cbn [length] in *; cbn [gradient_from].
  - apply rect_nil.
  - apply rect_cons.
    + apply pderiv_length; [lia | apply H2; lia | assumption].
    + apply IH; [lia | intros i Hi; apply H2; lia | assumption].
Qed.
Lemma divergence_from_length shape m p : forall (dxs : list R) (xs : list (list R)) (ax : nat) (acc : option (list R)),
  (ax + length dxs <= length shape)%nat -> length xs = length dxs ->
  (forall i, (ax <= i < ax + length dxs)%nat -> (2 <= nth i shape 0)%nat) ->
  Forall (fun x => length x = prodn shape) xs ->
  match acc with Some a => length a = prodn shape | None => (0 < length dxs)%nat end ->
  exists r, divergence_from shape ax m p 0 dxs xs acc = Some r /\ length r = prodn shape.
Proof.
  induction dxs as [|dx dxs IH]; intros [|x xs] ax acc Hax Hl H2 Hxs Hacc; cbn [length] in *; try congruence.
  - destruct acc as [a|]; [exists a; split; [reflexivity | assumption] | lia].
  - cbn [divergence_from].
    assert (Hpl : length (pderiv shape ax m p 0 dx x) = prodn shape)
      by (apply pderiv_length; [lia | apply H2; lia | exact (Forall_inv Hxs)]).
    apply IH; try lia; [intros i Hi; apply H2; lia | exact (Forall_inv_tail Hxs) |].
    destruct acc as [a|]; [rewrite vadd_length; congruence | assumption].
Qed.
Lemma divergence_length shape m p (dxs : list R) (xs : list (list R)) :
  (0 < length shape)%nat -> length dxs = length shape -> length xs = length shape ->
  (forall i, (i < length shape)%nat -> (2 <= nth i shape 0)%nat) ->
  Forall (fun x => length x = prodn shape) xs ->
  length (divergence shape m p 0 dxs xs) = prodn shape.
Proof.
  intros H0 Hd Hx H2 Hxs. unfold divergence.
  destruct (divergence_from_length shape m p dxs xs 0 None) as (r & Er & Hr); try assumption; try lia.
  - intros i Hi; apply H2; lia.
  - rewrite Er. exact Hr.
Qed.
Lemma split_at_chunks (N : nat) (dxs : list R) (y : list R) :
  split_at (map (fun _ => N) dxs) y = chunks N (length dxs) y.
Proof. revert y; induction dxs as [|d dxs IH]; intros y; cbn [map split_at length chunks]; [reflexivity|]. f_equal. apply IH. Qed.
Lemma rect_Forall r c (m : list (list R)) : AxisR.rect r c m -> Forall (fun row => length row = c) m.
Proof. intros [_ H]; exact H. Qed.
Lemma rect_len r c (m : list (list R)) : AxisR.rect r c m -> length m = r.
Proof. intros [H _]; exact H. Qed.
Lemma concat_map_vopp (G : list (list R)) : concat (map vopp G) = vopp (concat G).
Proof. induction G as [|g G IH]; [reflexivity|]. cbn [map concat]. rewrite IH. unfold vopp. rewrite map_app. reflexivity. Qed.
Lemma map_vopp_rect r c (G : list (list R)) : AxisR.rect r c G -> AxisR.rect r c (map vopp G).
Proof.
  intros [H1 H2]. split; [rewrite map_length; assumption|].
  clear H1. induction H2; constructor; [unfold vopp; rewrite map_length; assumption | assumption].
Qed.

Lemma leaf_ok_gradient_divergence_nd (c : R) (shape : list nat) (m : meth) (p : pmode) (dxs : list R) :
  (0 < length shape)%nat -> length dxs = length shape ->
  (forall i, (i < length shape)%nat -> axis_ok shape m p i) -> Forall (fun dx => dx <> 0) dxs ->
  leaf_ok (LGrad (repeat c (prodn shape)) (repeat c (length shape * prodn shape)) shape m p dxs) /\
  leaf_ok (LDiv (repeat c (length shape * prodn shape)) (repeat c (prodn shape)) shape
                (adj_method m) (adj_padding p) dxs).
Proof.
  intros H0 Hd Hok Hdx. set (N := prodn shape). set (k := length shape).
  assert (H2 : forall i, (i < k)%nat -> (2 <= nth i shape 0)%nat) by (intros i Hi; apply (Hok i Hi)).
  assert (Hok' : forall i, (i < k)%nat -> axis_ok shape (adj_method m) (adj_padding p) i).
  { intros i Hi. destruct (Hok i Hi) as (A & B & C). repeat split; try assumption.
    rewrite adj_method_invol, adj_padding_invol. assumption. }
  assert (Hgr : forall m' p' x, length x = N -> AxisR.rect k N (gradient shape m' p' 0 dxs x)).
  { intros m' p' x Hx. unfold gradient, k. rewrite <- Hd. apply gradient_from_rect; try assumption; try lia.
    intros i Hi; apply H2; lia. }
  assert (Hch : forall y, length y = (k * N)%nat -> AxisR.rect k N (chunks N k y)) by (intros; apply chunks_rect; assumption).
  assert (Hdl : forall m' p' y, length y = (k * N)%nat ->
             length (divergence shape m' p' 0 dxs (chunks N k y)) = N).
  { intros m' p' y Hy. apply divergence_length; try assumption.
    - apply (rect_len _ _ _ (Hch y Hy)).
    - apply (rect_Forall _ _ _ (Hch y Hy)). }
  split; (split; [|split; reflexivity]); cbn [leaf_dom leaf_ran leaf_adjoint]; (split; [|split]); rewrite ?repeat_length.
  - intros x Hx. cbn [eval_leaf]. change (@nzero R Num_R) with 0. rewrite (concat_rect_length k N); auto.
  - intros y Hy. cbn [eval eval_leaf]. change (@nzero R Num_R) with 0.
    rewrite vscal_len, split_at_chunks, Hd. apply Hdl; assumption.
  - intros x y Hx Hy. cbn [eval eval_leaf]. change (@nzero R Num_R) with 0.
    rewrite split_at_chunks, Hd. fold k N.
    rewrite !cinner_const_R by (rewrite ?vscal_len, ?(concat_rect_length k N); auto).
    rewrite vscal_m1. rewrite <- (concat_chunks N k y Hy) at 1.
    rewrite (dot_concat _ _ k N) by auto.
    rewrite (gradient_adjoint_nd shape m p dxs x (chunks N k y)); try assumption.
    + reflexivity.
    + apply (rect_len _ _ _ (Hch y Hy)).
    + apply (rect_Forall _ _ _ (Hch y Hy)).
  - intros x Hx. cbn [eval_leaf]. change (@nzero R Num_R) with 0. rewrite split_at_chunks, Hd. apply Hdl; assumption.
  - intros y Hy. cbn [eval eval_leaf]. change (@nzero R Num_R) with 0.
    rewrite vscal_len, (concat_rect_length k N); auto.
  - intros x y Hx Hy. cbn [eval eval_leaf]. change (@nzero R Num_R) with 0.
    rewrite split_at_chunks, Hd. fold k N.
    rewrite !cinner_const_R by (rewrite ?vscal_len, ?(concat_rect_length k N); auto).
    rewrite vscal_m1, <- concat_map_vopp.
    rewrite (divergence_adjoint_nd shape (adj_method m) (adj_padding p) dxs (chunks N k x) y); try assumption.
    + unfold divergence_adjoint. rewrite <- (concat_chunks N k x Hx) at 2.
      rewrite (dot_concat _ _ k N); [reflexivity | auto | apply map_vopp_rect; auto].
    + apply (rect_len _ _ _ (Hch x Hx)).
    + apply (rect_Forall _ _ _ (Hch x Hx)).
Qed.

(* ---------------- ResizingOperator (C16) ---------------- *)
From Verif Require C16.Syntax Gen.Padding C16.Model C16.ModelNd C16.PNd C16.PNd3 C16.PComm3.

Lemma config_ok_len (rm : C16.Syntax.pmode) ish osh offs : C16.ModelNd.config_ok rm ish osh offs = true ->
  length ish = length osh /\ length ish = length offs.
Proof.
  revert osh offs; induction ish as [|n ish IH]; intros [|n' osh] [|off offs] Hc; cbn in Hc; try discriminate; auto.
  apply andb_true_iff in Hc; destruct Hc as [_ Hc]. destruct (IH _ _ Hc). cbn; split; lia.
Qed.

(* the separable resize and the separable adjoint resize (axes in reverse order) are adjoint for EVERY
   admissible configuration: any number of axes, growing in some and shrinking in others *)
Lemma resize_sep_adj_pair (c : R) (rm : C16.Syntax.pmode) ish osh offs :
  C16.ModelNd.config_ok rm ish osh offs = true ->
  adj_pair (repeat c (prodn ish)) (repeat c (prodn osh))
    (C16.ModelNd.sep_loop rm C16.Syntax.Forward 0 true 1 ish osh offs)
    (C16.ModelNd.sep_rev_loop rm C16.Syntax.Adjoint 0 true 1 ish osh offs).
Proof.
  intros Hc. destruct (config_ok_len _ _ _ _ Hc) as [L1 L2].
  split; [|split]; rewrite ?repeat_length.
  - intros x Hx. rewrite C16.PNd3.sep_loop_length by (try assumption; lia). lia.
  - intros y Hy. rewrite C16.PNd.sep_rev_length by (try assumption; lia). lia.
  - intros x y Hx Hy.
    rewrite !cinner_const_R;
      [| assumption | rewrite C16.PNd3.sep_loop_length by (try assumption; lia); lia].
    rewrite (C16.PNd.sep_adjoint rm 1 ish osh offs x y) by (try assumption; lia). reflexivity.
Qed.

(* ResizingOperator and the operator the code returns as its adjoint (same axis order, axis 0 first, in
   both directions): ANY number of resized axes (C16.PComm3: the axis order is immaterial) *)
Lemma leaf_ok_resize (c : R) (rm : C16.Syntax.pmode) ish osh offs :
  C16.ModelNd.config_ok rm ish osh offs = true ->
  leaf_ok (LResize (repeat c (prodn ish)) (repeat c (prodn osh)) rm ish osh offs) /\
  leaf_ok (LResizeAdj (repeat c (prodn osh)) (repeat c (prodn ish)) rm ish osh offs).
Proof.
  intros Hc. destruct (config_ok_len _ _ _ _ Hc) as [L1 L2].
  assert (Hp : adj_pair (repeat c (prodn ish)) (repeat c (prodn osh))
                 (eval_leaf (LResize (repeat c (prodn ish)) (repeat c (prodn osh)) rm ish osh offs))
                 (eval_leaf (LResizeAdj (repeat c (prodn osh)) (repeat c (prodn ish)) rm ish osh offs))).
  { split; [|split]; rewrite ?repeat_length.
    - intros x Hx. cbn [eval_leaf]. change (@nzero R Num_R) with 0.
      rewrite C16.PNd3.sep_loop_length by (try assumption; lia). lia.
    - intros y Hy. cbn [eval_leaf]. change (@nzero R Num_R) with 0.
      rewrite C16.PNd3.sep_loop_length by (try lia). lia.
    - intros x y Hx Hy. cbn [eval_leaf]. change (@nzero R Num_R) with 0.
      rewrite !cinner_const_R;
        [| assumption | rewrite C16.PNd3.sep_loop_length by (try assumption; lia); lia].
      rewrite (C16.PComm3.sep_adjoint_code_order rm 1 ish osh offs x y) by (try assumption; lia). reflexivity. }
  split; (split; [|split; reflexivity]); cbn [leaf_dom leaf_ran leaf_adjoint].
  - exact Hp.
  - apply (adj_pair_sym cring_ok_R); [apply vconj_R | apply vconj_R | exact Hp].
Qed.
