(* C05/Proofs.v -- the expression-tree theorems, over the abstract carrier. *)
From Coq Require Import ZArith List Bool Ring Lia.
From Verif Require Import Base.Num Base.Vec C05.Model C05.Alg.
Import ListNotations.
Local Open Scope num_scope.

Section Tree.
Context {T : Type} {NT : Num T} {CT : Conj T}.
Hypothesis OK : cring_ok T.
Add Ring Tring2 : (ck_ring T OK).
Notation vec := (list T).
Notation oexpr := (oexpr T).
Notation leaf := (leaf T).

(* ---- induction principle with Forall for the list constructors ---- *)
Section Ind.
Variable P : oexpr -> Prop.
Hypothesis HLeaf : forall l, P (Leaf l).
Hypothesis HSum : forall a b, P a -> P b -> P (Sum a b).
Hypothesis HComp : forall a b, P a -> P b -> P (Comp a b).
Hypothesis HLScal : forall s a, P a -> P (LScal s a).
Hypothesis HRScal : forall a s, P a -> P (RScal a s).
Hypothesis HLVec : forall v a, P a -> P (LVec v a).
Hypothesis HRVec : forall a v, P a -> P (RVec a v).
Hypothesis HFLVec : forall wv v a, P a -> P (FLVec wv v a).
Hypothesis HReduce : forall l, Forall P l -> P (Reduce l).
Hypothesis HBcast : forall l, Forall P l -> P (Bcast l).
Hypothesis HDiag : forall l, Forall P l -> P (Diag l).
Fixpoint oexpr_ind' (e : oexpr) : P e :=
  let go := fix go (l : list oexpr) : Forall P l :=
    match l with [] => Forall_nil P | a :: l' => Forall_cons a (oexpr_ind' a) (go l') end in
  match e with
  | Leaf l => HLeaf l
  | Sum a b => HSum a b (oexpr_ind' a) (oexpr_ind' b)
  | Comp a b => HComp a b (oexpr_ind' a) (oexpr_ind' b)
  | LScal s a => HLScal s a (oexpr_ind' a)
  | RScal a s => HRScal a s (oexpr_ind' a)
  | LVec v a => HLVec v a (oexpr_ind' a)
  | RVec a v => HRVec a v (oexpr_ind' a)
  | FLVec wv v a => HFLVec wv v a (oexpr_ind' a)
  | Reduce l => HReduce l (go l)
  | Bcast l => HBcast l (go l)
  | Diag l => HDiag l (go l)
  end.
End Ind.

(* ---- well-formed trees whose leaves satisfy a predicate ---- *)
Definition hd_ran (l : list oexpr) : vec := match l with a :: _ => ran a | [] => [] end.
Definition hd_dom (l : list oexpr) : vec := match l with a :: _ => dom a | [] => [] end.
Fixpoint wf (P : leaf -> Prop) (e : oexpr) : Prop :=
  let all := fix all (l : list oexpr) : Prop :=
    match l with [] => True | a :: l' => wf P a /\ all l' end in
  match e with
  | Leaf l => P l
  | Sum a b => wf P a /\ wf P b /\ dom a = dom b /\ ran a = ran b
  | Comp a b => wf P a /\ wf P b /\ dom a = ran b
  | LScal _ a | RScal a _ => wf P a
  | LVec v a => wf P a /\ length v = length (ran a)
  | RVec a v => wf P a /\ length v = length (dom a)
  | FLVec wv v a => wf P a /\ ran a = [none_] /\ length v = length wv /\ vconj wv = wv
  | Reduce l => all l /\ l <> [] /\ Forall (fun a => ran a = hd_ran l) l
  | Bcast l => all l /\ l <> [] /\ Forall (fun a => dom a = hd_dom l) l
  | Diag l => all l
  end.
Definition wf_all (P : leaf -> Prop) : list oexpr -> Prop :=
  fix all (l : list oexpr) : Prop :=
    match l with [] => True | a :: l' => wf P a /\ all l' end.
Lemma wf_all_Forall P l : wf_all P l <-> Forall (wf P) l.
Proof.
  induction l as [|a l IH]; cbn.
  - split; intros; constructor.
  - split.
    + intros [Ha Hl]; constructor; [assumption | apply IH; assumption].
    + intros Hh; inversion Hh; subst; split; [assumption | apply IH; assumption].
Qed.

(* ---- named versions of the nested fixpoints of [eval] ---- *)
Fixpoint reduce_go (l : list oexpr) (x : vec) : vec :=
  match l with
  | [] => []
  | a :: l' =>
      let n := length (dom a) in
      match l' with
      | [] => eval a (firstn n x)
      | _ => vadd (eval a (firstn n x)) (reduce_go l' (skipn n x))
      end
  end.
Fixpoint bcast_go (l : list oexpr) (x : vec) : vec :=
  match l with [] => [] | a :: l' => eval a x ++ bcast_go l' x end.
Fixpoint diag_go (l : list oexpr) (x : vec) : vec :=
  match l with
  | [] => []
  | a :: l' => let n := length (dom a) in eval a (firstn n x) ++ diag_go l' (skipn n x)
  end.
Lemma eval_Reduce l x : eval (Reduce l) x = reduce_go l x.
Proof. reflexivity. Qed.
Lemma eval_Bcast l x : eval (Bcast l) x = bcast_go l x.
Proof. induction l as [|a l IH]; [reflexivity|]. cbn [bcast_go]. rewrite <- IH. reflexivity. Qed.
Lemma eval_Diag l x : eval (Diag l) x = diag_go l x.
Proof. reflexivity. Qed.

(* ---- mk_lscal behaves like LScal ---- *)
Lemma dom_mk_lscal s e : dom (mk_lscal s e) = dom e.
Proof. destruct e; reflexivity. Qed.
Lemma ran_mk_lscal s e : ran (mk_lscal s e) = ran e.
Proof. destruct e; reflexivity. Qed.
Lemma eval_mk_lscal s e x : eval (mk_lscal s e) x = vscal s (eval e x).
Proof. destruct e; try reflexivity. cbn [mk_lscal eval]. rewrite (vscal_vscal OK). reflexivity. Qed.

(* ---- block lemmas ---- *)
Lemma firstn_len_le (x : vec) n m : length x = (n + m)%nat -> length (firstn n x) = n.
Proof. intros; rewrite firstn_length; lia. Qed.
Lemma skipn_len_eq (x : vec) n m : length x = (n + m)%nat -> length (skipn n x) = m.
Proof. intros; rewrite skipn_length; lia. Qed.

Lemma adj_hcat w1 w2 r A B A' B' : adj_pair w1 r A B -> adj_pair w2 r A' B' ->
  adj_pair (w1 ++ w2) r (fun x => vadd (A (firstn (length w1) x)) (A' (skipn (length w1) x)))
           (fun y => B y ++ B' y).
Proof.
  intros (H1 & H2 & H3) (H1' & H2' & H3'); repeat split.
  - intros x Hx; rewrite app_length in Hx. rewrite (vadd_len).
    + apply H1; eapply firstn_len_le; eassumption.
    + rewrite H1, H1'; [reflexivity | eapply skipn_len_eq; eassumption | eapply firstn_len_le; eassumption].
  - intros y Hy; rewrite !app_length, H2, H2' by assumption; reflexivity.
  - intros x y Hx Hy. rewrite app_length in Hx.
    assert (Hf : length (firstn (length w1) x) = length w1) by (eapply firstn_len_le; eassumption).
    assert (Hs : length (skipn (length w1) x) = length w2) by (eapply skipn_len_eq; eassumption).
    rewrite (cinner_vadd_l OK) by (rewrite H1, H1'; auto).
    rewrite H3, H3' by assumption.
    rewrite <- (firstn_skipn (length w1) x) at 3.
    rewrite (cinner_app OK); [reflexivity | assumption | apply H2; assumption].
Qed.
Lemma adj_vcat d w1 w2 A B A' B' : adj_pair d w1 A B -> adj_pair d w2 A' B' ->
  adj_pair d (w1 ++ w2) (fun x => A x ++ A' x)
           (fun y => vadd (B (firstn (length w1) y)) (B' (skipn (length w1) y))).
Proof.
  intros (H1 & H2 & H3) (H1' & H2' & H3'); repeat split.
  - intros x Hx; rewrite !app_length, H1, H1' by assumption; reflexivity.
  - intros y Hy; rewrite app_length in Hy. rewrite (vadd_len).
    + apply H2; eapply firstn_len_le; eassumption.
    + rewrite H2, H2'; [reflexivity | eapply skipn_len_eq; eassumption | eapply firstn_len_le; eassumption].
  - intros x y Hx Hy. rewrite app_length in Hy.
    assert (Hf : length (firstn (length w1) y) = length w1) by (eapply firstn_len_le; eassumption).
    assert (Hs : length (skipn (length w1) y) = length w2) by (eapply skipn_len_eq; eassumption).
    rewrite (cinner_vadd_r OK) by (rewrite H2, H2'; auto).
    rewrite <- H3, <- H3' by assumption.
    rewrite <- (firstn_skipn (length w1) y) at 1.
    rewrite (cinner_app OK); [reflexivity | apply H1; assumption | assumption].
Qed.
Lemma adj_dcat w1 w2 r1 r2 A B A' B' : adj_pair w1 r1 A B -> adj_pair w2 r2 A' B' ->
  adj_pair (w1 ++ w2) (r1 ++ r2)
           (fun x => A (firstn (length w1) x) ++ A' (skipn (length w1) x))
           (fun y => B (firstn (length r1) y) ++ B' (skipn (length r1) y)).
Proof.
  intros (H1 & H2 & H3) (H1' & H2' & H3'); repeat split.
  - intros x Hx; rewrite app_length in Hx. rewrite !app_length, H1, H1';
      [reflexivity | eapply skipn_len_eq; eassumption | eapply firstn_len_le; eassumption].
  - intros y Hy; rewrite app_length in Hy. rewrite !app_length, H2, H2';
      [reflexivity | eapply skipn_len_eq; eassumption | eapply firstn_len_le; eassumption].
  - intros x y Hx Hy. rewrite app_length in Hx, Hy.
    assert (Hf : length (firstn (length w1) x) = length w1) by (eapply firstn_len_le; eassumption).
    assert (Hs : length (skipn (length w1) x) = length w2) by (eapply skipn_len_eq; eassumption).
    assert (Hf' : length (firstn (length r1) y) = length r1) by (eapply firstn_len_le; eassumption).
    assert (Hs' : length (skipn (length r1) y) = length r2) by (eapply skipn_len_eq; eassumption).
    rewrite <- (firstn_skipn (length r1) y) at 1.
    rewrite (cinner_app OK); [| apply H1; assumption | assumption].
    rewrite <- (firstn_skipn (length w1) x) at 3.
    rewrite (cinner_app OK); [| assumption | apply H2; assumption].
    rewrite H3, H3' by assumption. reflexivity.
Qed.
Lemma adj_nil : adj_pair (@nil T) [] (fun _ => []) (fun _ => []).
Proof. repeat split; intros; reflexivity. Qed.

(* FunctionalLeftVectorMult: x |-> f(x) * v, adjoint y |-> f*( <y,v> ) *)
Lemma cinner_one a c : cinner [none_] [a] [c] = a * nconj c.
Proof. unfold cinner, wdot; cbn. ring. Qed.
Lemma wdot_conj (w x y : vec) : nconj (wdot w x y) = wdot (vconj w) (vconj x) (vconj y).
Proof.
  revert x y; induction w as [|c w IH]; intros x y.
  - cbn. apply (ck_conj_zero T OK).
  - destruct x as [|a x]; [rewrite wdot_nil_x; cbn [vconj map]; rewrite wdot_nil_x; apply (ck_conj_zero T OK)|].
    destruct y as [|b y]; [rewrite wdot_nil_y; cbn [vconj map]; rewrite wdot_nil_y; apply (ck_conj_zero T OK)|].
    unfold vconj in *; cbn [map]. rewrite !wdot_cons, (ck_conj_add T OK), !(ck_conj_mul T OK), IH. reflexivity.
Qed.
Lemma wdot_swap (w x y : vec) : wdot w x y = wdot w y x.
Proof.
  revert x y; induction w as [|c w IH]; intros x y; [reflexivity|].
  destruct x as [|a x]; [rewrite wdot_nil_x, wdot_nil_y; reflexivity|].
  destruct y as [|b y]; [rewrite wdot_nil_x, wdot_nil_y; reflexivity|].
  rewrite !wdot_cons, IH. ring.
Qed.
(* Hermitian symmetry for real weights *)
Lemma cinner_conj_sym (w x y : vec) : vconj w = w -> nconj (cinner w x y) = cinner w y x.
Proof.
  intros Hw; unfold cinner. rewrite wdot_conj, Hw, (vconj_invol OK). apply wdot_swap.
Qed.
Lemma length1 (u : vec) : length u = 1%nat -> u = [nth 0 u nzero].
Proof. destruct u as [|a [|b u]]; cbn; intros; try discriminate; reflexivity. Qed.

Lemma adj_flvec wd wv v A B : length v = length wv -> vconj wv = wv ->
  adj_pair wd [none_] A B ->
  adj_pair wd wv (fun x => vscal (nth 0 (A x) nzero) v) (fun y => B [cinner wv y v]).
Proof.
  intros Hv Hw (H1 & H2 & H3); repeat split.
  - intros x Hx; rewrite vscal_len; assumption.
  - intros y Hy; apply H2; reflexivity.
  - intros x y Hx Hy. rewrite (cinner_vscal_l OK).
    rewrite <- H3 by (auto; reflexivity).
    rewrite (length1 (A x)) at 2 by (apply H1; assumption).
    rewrite cinner_one, (cinner_conj_sym _ _ _ Hw). reflexivity.
Qed.

(* ---- list versions ---- *)
Lemma reduce_adj (l : list oexpr) r : l <> [] ->
  Forall (fun a => adj_pair (dom a) r (eval a) (eval (adjoint a))) l ->
  adj_pair (concat (map dom l)) r (reduce_go l) (bcast_go (map adjoint l)).
Proof.
  induction l as [|a l IH]; intros Hne Hall; [congruence|].
  pose proof (Forall_inv Hall) as Ha. pose proof (Forall_inv_tail Hall) as Hl.
  destruct l as [|b l].
  - cbn [map concat reduce_go bcast_go]. rewrite app_nil_r.
    eapply adj_pair_ext; [| | exact Ha].
    + intros x Hx; cbn beta. rewrite firstn_all2 by lia. reflexivity.
    + intros y _; rewrite app_nil_r; reflexivity.
  - specialize (IH ltac:(discriminate) Hl).
    pose proof (adj_hcat _ _ _ _ _ _ _ Ha IH) as Hc.
    eapply adj_pair_ext; [| | exact Hc].
    + intros x Hx. reflexivity.
    + intros y Hy. reflexivity.
Qed.
Lemma bcast_adj (l : list oexpr) d : l <> [] ->
  Forall (fun a => adj_pair d (ran a) (eval a) (eval (adjoint a)) /\ dom (adjoint a) = ran a) l ->
  adj_pair d (concat (map ran l)) (bcast_go l) (reduce_go (map adjoint l)).
Proof.
  induction l as [|a l IH]; intros Hne Hall; [congruence|].
  destruct (Forall_inv Hall) as [Ha Hda]. pose proof (Forall_inv_tail Hall) as Hl.
  destruct l as [|b l].
  - cbn [map concat reduce_go bcast_go]. rewrite app_nil_r.
    eapply adj_pair_ext; [| | exact Ha].
    + intros x _; rewrite app_nil_r; reflexivity.
    + intros y Hy; cbn beta. rewrite Hda, firstn_all2 by lia. reflexivity.
  - specialize (IH ltac:(discriminate) Hl).
    pose proof (adj_vcat _ _ _ _ _ _ _ Ha IH) as Hc.
    eapply adj_pair_ext; [| | exact Hc].
    + intros x Hx. reflexivity.
    + intros y Hy. cbn [map reduce_go]. rewrite Hda. reflexivity.
Qed.
Lemma diag_adj (l : list oexpr) :
  Forall (fun a => adj_pair (dom a) (ran a) (eval a) (eval (adjoint a)) /\ dom (adjoint a) = ran a) l ->
  adj_pair (concat (map dom l)) (concat (map ran l)) (diag_go l) (diag_go (map adjoint l)).
Proof.
  induction l as [|a l IH]; intros Hall.
  - exact adj_nil.
  - destruct (Forall_inv Hall) as [Ha Hda]. pose proof (Forall_inv_tail Hall) as Hl.
    specialize (IH Hl). pose proof (adj_dcat _ _ _ _ _ _ _ _ Ha IH) as Hc.
    eapply adj_pair_ext; [| | exact Hc].
    + intros x Hx. reflexivity.
    + intros y Hy. cbn [map diag_go]. rewrite Hda. reflexivity.
Qed.

(* ---- the theorem for all trees ---- *)
Definition leaf_ok (l : leaf) : Prop :=
  adj_pair (leaf_dom l) (leaf_ran l) (eval_leaf l) (eval (leaf_adjoint l))
  /\ dom (leaf_adjoint l) = leaf_ran l /\ ran (leaf_adjoint l) = leaf_dom l.
Definition sound (e : oexpr) : Prop :=
  adj_pair (dom e) (ran e) (eval e) (eval (adjoint e))
  /\ dom (adjoint e) = ran e /\ ran (adjoint e) = dom e.

Lemma Forall_sound (l : list oexpr) :
  Forall (fun e => wf leaf_ok e -> sound e) l -> wf_all leaf_ok l -> Forall sound l.
Proof.
  induction l as [|a l IH]; intros Hh Hw; constructor.
  - apply (Forall_inv Hh); apply Hw.
  - apply IH; [exact (Forall_inv_tail Hh) | apply Hw].
Qed.
Lemma map_dom_adjoint (l : list oexpr) : Forall sound l -> map dom (map adjoint l) = map ran l.
Proof.
  induction 1 as [|a l (_ & Hd & _) _ IH]; [reflexivity|]. cbn [map]; rewrite Hd, IH; reflexivity.
Qed.
Lemma map_ran_adjoint (l : list oexpr) : Forall sound l -> map ran (map adjoint l) = map dom l.
Proof.
  induction 1 as [|a l (_ & _ & Hr) _ IH]; [reflexivity|]. cbn [map]; rewrite Hr, IH; reflexivity.
Qed.

Theorem expr_adjoint_sound_all (e : oexpr) : wf leaf_ok e -> sound e.
Proof.
  induction e as [l|a b IHa IHb|a b IHa IHb|s a IHa|a s IHa|v a IHa|a v IHa|wv v a IHa|l IHl|l IHl|l IHl]
    using oexpr_ind'; intros Hwf.
  - exact Hwf.
  - destruct Hwf as (Wa & Wb & Hd & Hr).
    destruct (IHa Wa) as (Pa & Da & Ra), (IHb Wb) as (Pb & Db & Rb).
    unfold sound; cbn [dom ran adjoint]. split; [|split; assumption].
    rewrite <- Hd, <- Hr in Pb. exact (adj_sum OK _ _ _ _ _ _ Pa Pb).
  - destruct Hwf as (Wa & Wb & Hd).
    destruct (IHa Wa) as (Pa & Da & Ra), (IHb Wb) as (Pb & Db & Rb).
    unfold sound; cbn [dom ran adjoint]. split; [|split; assumption].
    rewrite Hd in Pa. exact (adj_comp _ _ _ _ _ _ _ Pa Pb).
  - destruct (IHa Hwf) as (Pa & Da & Ra).
    unfold sound; cbn [dom ran adjoint]. rewrite dom_mk_lscal, ran_mk_lscal. split; [|split; assumption].
    eapply adj_pair_ext; [| | exact (adj_lscal OK _ _ s _ _ Pa)].
    + intros; reflexivity.
    + intros; rewrite eval_mk_lscal; reflexivity.
  - destruct (IHa Hwf) as (Pa & Da & Ra).
    unfold sound; cbn [dom ran adjoint]. rewrite dom_mk_lscal, ran_mk_lscal. split; [|split; assumption].
    eapply adj_pair_ext; [| | exact (adj_rscal OK _ _ s _ _ Pa)].
    + intros; reflexivity.
    + intros; rewrite eval_mk_lscal; reflexivity.
  - destruct Hwf as (Wa & Hv). destruct (IHa Wa) as (Pa & Da & Ra).
    unfold sound; cbn [dom ran adjoint]. split; [|split; assumption].
    exact (adj_lvec OK _ _ v _ _ Hv Pa).
  - destruct Hwf as (Wa & Hv). destruct (IHa Wa) as (Pa & Da & Ra).
    unfold sound; cbn [dom ran adjoint]. split; [|split; assumption].
    exact (adj_rvec OK _ _ v _ _ Hv Pa).
  - destruct Hwf as (Wa & Hr1 & Hv & Hw). destruct (IHa Wa) as (Pa & Da & Ra).
    unfold sound; cbn [dom ran adjoint]. split; [|split; [reflexivity | assumption]].
    rewrite Hr1 in Pa. exact (adj_flvec _ _ v _ _ Hv Hw Pa).
  - destruct Hwf as (Wl & Hne & Hr).
    pose proof (Forall_sound l IHl Wl) as Hs.
    unfold sound; cbn [dom ran adjoint]. split; [|split].
    + eapply adj_pair_ext; [| | apply (reduce_adj l (hd_ran l) Hne)].
      * intros; reflexivity.
      * intros; rewrite eval_Bcast; reflexivity.
      * clear -Hs Hr. induction l as [|a l IH]; [constructor|].
        assert (Hh : forall l0, Forall (fun a0 => ran a0 = hd_ran l0) (a :: l) -> Forall sound (a :: l) ->
          Forall (fun a0 => adj_pair (dom a0) (hd_ran l0) (eval a0) (eval (adjoint a0))) (a :: l)).
        { clear. intros l0 H1 H2. induction H1 as [|c m Hc _ IHm]; [constructor|].
          constructor; [| apply IHm; exact (Forall_inv_tail H2)].
          destruct (Forall_inv H2) as (Pc & _). rewrite <- Hc. exact Pc. }
        apply Hh; assumption.
    + destruct l as [|a l]; [congruence|]. cbn [map hd_ran]. exact (proj1 (proj2 (Forall_inv Hs))).
    + rewrite (map_ran_adjoint l Hs). reflexivity.
  - destruct Hwf as (Wl & Hne & Hd).
    pose proof (Forall_sound l IHl Wl) as Hs.
    unfold sound; cbn [dom ran adjoint]. split; [|split].
    + eapply adj_pair_ext; [| | apply (bcast_adj l (hd_dom l) Hne)].
      * intros; rewrite eval_Bcast; reflexivity.
      * intros; reflexivity.
      * assert (Hh : forall l0, Forall (fun a0 => dom a0 = hd_dom l0) l -> Forall sound l ->
          Forall (fun a0 => adj_pair (hd_dom l0) (ran a0) (eval a0) (eval (adjoint a0))
                            /\ dom (adjoint a0) = ran a0) l).
        { clear. intros l0 H1 H2. induction H1 as [|c m Hc _ IHm]; [constructor|].
          constructor; [| apply IHm; exact (Forall_inv_tail H2)].
          destruct (Forall_inv H2) as (Pc & Dc & _). rewrite <- Hc. split; assumption. }
        apply Hh; assumption.
    + rewrite (map_dom_adjoint l Hs). reflexivity.
    + destruct l as [|a l]; [congruence|]. cbn [map hd_dom]. exact (proj2 (proj2 (Forall_inv Hs))).
  - pose proof (Forall_sound l IHl Hwf) as Hs.
    unfold sound; cbn [dom ran adjoint]. split; [|split].
    + eapply adj_pair_ext; [| | apply (diag_adj l)].
      * intros; reflexivity.
      * intros; reflexivity.
      * clear -Hs. induction Hs as [|c m (Pc & Dc & _) _ IHm]; constructor; [split; assumption | assumption].
    + rewrite (map_dom_adjoint l Hs). reflexivity.
    + rewrite (map_ran_adjoint l Hs). reflexivity.
Qed.

(* the same with [sound]/[adj_pair]/[maps] written out *)
Lemma expr_adjoint_sound_flat (e : oexpr) : wf leaf_ok e ->
  (forall x, length x = length (dom e) -> length (eval e x) = length (ran e)) /\
  (forall y, length y = length (ran e) -> length (eval (adjoint e) y) = length (dom e)) /\
  (forall x y, length x = length (dom e) -> length y = length (ran e) ->
     cinner (ran e) (eval e x) y = cinner (dom e) x (eval (adjoint e) y)) /\
  dom (adjoint e) = ran e /\ ran (adjoint e) = dom e.
Proof. intros Hw. destruct (expr_adjoint_sound_all e Hw) as ((H1 & H2 & H3) & H4). auto. Qed.

(* ---- the boolean structural check [wfb] (evaluated on every correspondence case) gives [wf] ---- *)
Fixpoint leaves (e : oexpr) : list leaf :=
  match e with
  | Leaf l => [l]
  | Sum a b | Comp a b => leaves a ++ leaves b
  | LScal _ a | RScal a _ | LVec _ a | RVec a _ | FLVec _ _ a => leaves a
  | Reduce l | Bcast l | Diag l => flat_map leaves l
  end.
Lemma veqb_eq (x y : vec) : veqb x y = true -> x = y.
Proof.
  revert y; induction x as [|a x IH]; intros [|b y] Hh; cbn in Hh; try discriminate; [reflexivity|].
  apply andb_true_iff in Hh; destruct Hh as [H1 H2]. f_equal; [apply (ck_eqb T OK); assumption | apply IH; assumption].
Qed.
Lemma wf_all_of_wfb P (l : list oexpr) :
  Forall (fun e => wfb e = true -> Forall P (leaves e) -> wf P e) l ->
  forallb wfb l = true -> Forall P (flat_map leaves l) -> wf_all P l.
Proof.
  induction 1 as [|c m Hc _ IHm]; intros Hb Hl; [exact I|].
  cbn [forallb] in Hb. apply andb_true_iff in Hb; destruct Hb as [B1 B2].
  cbn [flat_map] in Hl. apply Forall_app in Hl; destruct Hl as [L1 L2].
  split; [apply Hc; assumption | apply IHm; assumption].
Qed.
Lemma forallb_Forall_veqb (f : oexpr -> vec) (r : vec) (l : list oexpr) :
  forallb (fun a => veqb (f a) r) l = true -> Forall (fun a => f a = r) l.
Proof.
  induction l as [|a l IH]; intros Hb; [constructor|]. cbn [forallb] in Hb.
  apply andb_true_iff in Hb; destruct Hb as [B1 B2]. constructor; [apply veqb_eq; assumption | apply IH; assumption].
Qed.
Theorem wf_of_wfb P (e : oexpr) : wfb e = true -> Forall P (leaves e) -> wf P e.
Proof.
  induction e as [l|a b IHa IHb|a b IHa IHb|s a IHa|a s IHa|v a IHa|a v IHa|wv v a IHa|l IHl|l IHl|l IHl]
    using oexpr_ind'; cbn [wfb leaves wf]; intros Hb Hl.
  - exact (Forall_inv Hl).
  - apply Forall_app in Hl; destruct Hl as [L1 L2].
    repeat (apply andb_true_iff in Hb; destruct Hb as [Hb ?]).
    repeat split; auto using veqb_eq.
  - apply Forall_app in Hl; destruct Hl as [L1 L2].
    repeat (apply andb_true_iff in Hb; destruct Hb as [Hb ?]).
    repeat split; auto using veqb_eq.
  - auto.
  - auto.
  - apply andb_true_iff in Hb; destruct Hb as [B1 B2]. split; [auto | apply Nat.eqb_eq; assumption].
  - apply andb_true_iff in Hb; destruct Hb as [B1 B2]. split; [auto | apply Nat.eqb_eq; assumption].
  - repeat (apply andb_true_iff in Hb; destruct Hb as [Hb ?]).
    repeat split; auto using veqb_eq. apply Nat.eqb_eq; assumption.
  - repeat (apply andb_true_iff in Hb; destruct Hb as [Hb ?]).
    split; [exact (wf_all_of_wfb P l IHl Hb Hl)|]. split.
    + intros ->. discriminate.
    + apply (forallb_Forall_veqb ran). assumption.
  - repeat (apply andb_true_iff in Hb; destruct Hb as [Hb ?]).
    split; [exact (wf_all_of_wfb P l IHl Hb Hl)|]. split.
    + intros ->. discriminate.
    + apply (forallb_Forall_veqb dom). assumption.
  - exact (wf_all_of_wfb P l IHl Hb Hl).
Qed.

(* premises in the form the harness checks on every case: [wfb] + the leaves *)
Corollary expr_adjoint_sound_checked (e : oexpr) : wfb e = true -> Forall leaf_ok (leaves e) -> sound e.
Proof. intros; apply expr_adjoint_sound_all; apply wf_of_wfb; assumption. Qed.

(* ---- the adjoint of a good tree is again a good tree ---- *)
Definition leaf_good (l : leaf) : Prop := leaf_ok l /\ wf leaf_ok (leaf_adjoint l).

Lemma wf_weaken (P Q : leaf -> Prop) (e : oexpr) : (forall l, P l -> Q l) -> wf P e -> wf Q e.
Proof.
  intros HPQ.
  induction e as [l|a b IHa IHb|a b IHa IHb|s a IHa|a s IHa|v a IHa|a v IHa|wv v a IHa|l IHl|l IHl|l IHl]
    using oexpr_ind'; cbn [wf]; intros Hw; try tauto; try (apply HPQ; assumption).
  - destruct Hw as (Wl & Hne & Hr). split; [|split; assumption].
    clear Hne Hr. induction IHl as [|c m Hc _ IHm]; [exact I|]. destruct Wl as [W1 W2]. split; [apply Hc; assumption | apply IHm; assumption].
  - destruct Hw as (Wl & Hne & Hr). split; [|split; assumption].
    clear Hne Hr. induction IHl as [|c m Hc _ IHm]; [exact I|]. destruct Wl as [W1 W2]. split; [apply Hc; assumption | apply IHm; assumption].
  - induction IHl as [|c m Hc _ IHm]; [exact I|]. destruct Hw as [W1 W2]. split; [apply Hc; assumption | apply IHm; assumption].
Qed.
Lemma wf_mk_lscal P s e : wf P e -> wf P (mk_lscal s e).
Proof. destruct e; cbn [mk_lscal wf]; auto. Qed.
Lemma leaf_ok_inner_gen (w v : vec) : length v = length w -> leaf_ok (LInner w v).
Proof.
  intros Hv. split; [|split; reflexivity]. cbn [leaf_dom leaf_ran leaf_adjoint]. split; [|split].
  - intros x Hx; reflexivity.
  - intros t Ht; cbn [eval eval_leaf]. rewrite vscal_len; assumption.
  - intros x t Hx Ht. cbn [eval eval_leaf]. rewrite (length1 t Ht) at 1.
    rewrite cinner_one, (cinner_vscal_r OK). ring.
Qed.

Lemma wf_all_adjoint (l : list oexpr) :
  Forall (fun e => wf leaf_good e -> wf leaf_ok (adjoint e)) l -> wf_all leaf_good l ->
  wf_all leaf_ok (map adjoint l).
Proof.
  induction 1 as [|c m Hc _ IHm]; intros Hw; [exact I|]. destruct Hw as [W1 W2].
  cbn [map]. split; [apply Hc; assumption | apply IHm; assumption].
Qed.
Lemma sound_all_of_good (l : list oexpr) : wf_all leaf_good l -> Forall sound l.
Proof.
  induction l as [|a l IH]; intros Hw; constructor.
  - apply expr_adjoint_sound_all. eapply wf_weaken; [|apply Hw]. intros ? [? _]; assumption.
  - apply IH; apply Hw.
Qed.

Theorem adjoint_wf (e : oexpr) : wf leaf_good e -> wf leaf_ok (adjoint e).
Proof.
  assert (Hweak : forall e, wf leaf_good e -> wf leaf_ok e)
    by (intros e0 H0; eapply wf_weaken; [|exact H0]; intros ? [? _]; assumption).
  induction e as [l|a b IHa IHb|a b IHa IHb|s a IHa|a s IHa|v a IHa|a v IHa|wv v a IHa|l IHl|l IHl|l IHl]
    using oexpr_ind'; intros Hw.
  - exact (proj2 Hw).
  - destruct Hw as (Wa & Wb & Hd & Hr).
    destruct (expr_adjoint_sound_all a (Hweak a Wa)) as (_ & Da & Ra).
    destruct (expr_adjoint_sound_all b (Hweak b Wb)) as (_ & Db & Rb).
    cbn [adjoint wf]. repeat split; auto; congruence.
  - destruct Hw as (Wa & Wb & Hd).
    destruct (expr_adjoint_sound_all a (Hweak a Wa)) as (_ & Da & Ra).
    destruct (expr_adjoint_sound_all b (Hweak b Wb)) as (_ & Db & Rb).
    cbn [adjoint wf]. repeat split; auto; congruence.
  - cbn [adjoint]. apply wf_mk_lscal. apply IHa. exact Hw.
  - cbn [adjoint]. apply wf_mk_lscal. apply IHa. exact Hw.
  - destruct Hw as (Wa & Hv). destruct (expr_adjoint_sound_all a (Hweak a Wa)) as (_ & Da & Ra).
    cbn [adjoint wf]. split; [apply IHa; assumption|]. rewrite vconj_len, Da. assumption.
  - destruct Hw as (Wa & Hv). destruct (expr_adjoint_sound_all a (Hweak a Wa)) as (_ & Da & Ra).
    cbn [adjoint wf]. split; [apply IHa; assumption|]. rewrite vconj_len, Ra. assumption.
  - destruct Hw as (Wa & Hr1 & Hv & Hwv). destruct (expr_adjoint_sound_all a (Hweak a Wa)) as (_ & Da & Ra).
    cbn [adjoint wf]. split; [apply IHa; assumption|]. split; [apply leaf_ok_inner_gen; assumption|].
    cbn [ran leaf_ran]. congruence.
  - destruct Hw as (Wl & Hne & Hr). pose proof (sound_all_of_good l Wl) as Hs.
    cbn [adjoint wf]. split; [exact (wf_all_adjoint l IHl Wl)|]. split; [destruct l; [congruence | discriminate]|].
    destruct l as [|a0 l0]; [congruence|]. cbn [map hd_dom].
    assert (Hh : forall r m, Forall (fun a => ran a = r) m -> Forall sound m ->
                 Forall (fun a => dom a = r) (map adjoint m)).
    { clear. intros r m H1 H2. induction H1 as [|c m Hc _ IHm]; [constructor|].
      cbn [map]. constructor; [| apply IHm; exact (Forall_inv_tail H2)].
      destruct (Forall_inv H2) as (_ & Dc & _). congruence. }
    destruct (Forall_inv Hs) as (_ & D0 & _). rewrite D0. apply (Hh (ran a0) (a0 :: l0)); assumption.
  - destruct Hw as (Wl & Hne & Hd). pose proof (sound_all_of_good l Wl) as Hs.
    cbn [adjoint wf]. split; [exact (wf_all_adjoint l IHl Wl)|]. split; [destruct l; [congruence | discriminate]|].
    destruct l as [|a0 l0]; [congruence|]. cbn [map hd_ran].
    assert (Hh : forall r m, Forall (fun a => dom a = r) m -> Forall sound m ->
                 Forall (fun a => ran a = r) (map adjoint m)).
    { clear. intros r m H1 H2. induction H1 as [|c m Hc _ IHm]; [constructor|].
      cbn [map]. constructor; [| apply IHm; exact (Forall_inv_tail H2)].
      destruct (Forall_inv H2) as (_ & _ & Rc). congruence. }
    destruct (Forall_inv Hs) as (_ & _ & R0). rewrite R0. apply (Hh (dom a0) (a0 :: l0)); assumption.
  - cbn [adjoint wf]. exact (wf_all_adjoint l IHl Hw).
Qed.

(* ---- A.adjoint.adjoint acts like A: uniqueness of the adjoint ---- *)
Definition invertible (w : vec) : Prop := Forall (fun c => exists c', c' * c = none_) w.

Lemma cinner_cons c a b (w u y : vec) : cinner (c :: w) (a :: u) (b :: y) = c * (a * nconj b) + cinner w u y.
Proof. reflexivity. Qed.
Lemma cinner_sep (w u v : vec) : invertible w -> length u = length w -> length v = length w ->
  (forall y, length y = length w -> cinner w u y = cinner w v y) -> u = v.
Proof.
  intros Hinv; revert u v; induction Hinv as [|c w (c' & Hc) _ IH]; intros u v Hu Hv Hy.
  - destruct u, v; try discriminate; reflexivity.
  - destruct u as [|a u], v as [|b v]; try discriminate. cbn in Hu, Hv. f_equal.
    + specialize (Hy (none_ :: zeros (length w))). cbn [length] in Hy. rewrite zeros_len in Hy.
      specialize (Hy eq_refl). rewrite !cinner_cons, !(cinner_zeros_r OK), (ck_conj_one T OK) in Hy.
      transitivity (c' * c * a); [rewrite Hc; ring|]. transitivity (c' * c * b); [|rewrite Hc; ring].
      transitivity (c' * (c * (a * none_) + nzero)); [ring|]. rewrite Hy. ring.
    + apply IH; [lia | lia |]. intros y Hl. specialize (Hy (nzero :: y)). cbn [length] in Hy.
      specialize (Hy (f_equal S Hl)). rewrite !cinner_cons, (ck_conj_zero T OK) in Hy.
      transitivity (c * (a * nzero) + cinner w u y); [ring|]. rewrite Hy. ring.
Qed.
Lemma adjoint_unique (wd wr : vec) A B C : vconj wd = wd -> vconj wr = wr -> invertible wr ->
  adj_pair wd wr A B -> adj_pair wr wd B C -> forall x, length x = length wd -> C x = A x.
Proof.
  intros Hd Hr Hinv (A1 & A2 & A3) (B1 & B2 & B3) x Hx.
  apply (cinner_sep wr); [assumption | apply B2; assumption | apply A1; assumption |].
  intros y Hy. rewrite A3 by assumption.
  rewrite <- (cinner_conj_sym wr y (C x) Hr), <- B3 by assumption.
  apply cinner_conj_sym; assumption.
Qed.
Theorem double_adjoint_all (e : oexpr) : wf leaf_ok e -> wf leaf_ok (adjoint e) ->
  vconj (dom e) = dom e -> vconj (ran e) = ran e -> invertible (ran e) ->
  forall x, length x = length (dom e) -> eval (adjoint (adjoint e)) x = eval e x.
Proof.
  intros W1 W2 Hd Hr Hinv.
  destruct (expr_adjoint_sound_all e W1) as (P1 & D1 & R1).
  destruct (expr_adjoint_sound_all (adjoint e) W2) as (P2 & _ & _).
  rewrite D1, R1 in P2. exact (adjoint_unique _ _ _ _ _ Hd Hr Hinv P1 P2).
Qed.
(* with the closure of good trees under adjoint the second premise disappears *)
Theorem double_adjoint_good (e : oexpr) : wf leaf_good e ->
  vconj (dom e) = dom e -> vconj (ran e) = ran e -> invertible (ran e) ->
  forall x, length x = length (dom e) -> eval (adjoint (adjoint e)) x = eval e x.
Proof.
  intros W. apply double_adjoint_all; [|apply adjoint_wf; assumption].
  eapply wf_weaken; [|exact W]. intros ? [? _]; assumption.
Qed.
End Tree.
