(* C05/Proofs.v -- lemmas (under construction) *)
From Coq Require Import List.
From Verif Require Import Base.Num Base.Vec C05.Model.
