(* C05/Props.v -- property theorems (under construction) *)
From Coq Require Import List.
From Verif Require Import Base.Num Base.Vec C05.Model C05.Proofs.
