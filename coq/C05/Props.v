(* C05/Props.v -- property theorems only; each is closed by [exact] of a lemma
   from C05/Proofs*.v and followed by Print Assumptions.

   Model: C05/Model.v.  Elements are flat lists, a space is the list [w] of its
   Gram diagonal, <x,y>_w = sum_i w_i x_i conj(y_i) ([cinner]).  [eval e] is the
   action of the operator expression [e], [adjoint e] the expression the
   library returns as [e.adjoint].  The carrier is R (conj = id) or C = R*R. *)
From Coq Require Import Reals List Bool.
From Verif Require Import Base.Num Base.Vec C05.Model C05.Alg C05.Inst C05.Proofs.
Import ListNotations.

(* T1 (all trees, any depth and width): if the expression is well-formed (spaces of
   operands match as the constructors of odl/operator/operator.py and pspace_ops.py
   require) and every LEAF satisfies the adjoint identity in its own weighted spaces,
   then the operator returned by .adjoint (order reversal for compositions,
   conj(s) for scalar multiples on either side, conj(v) with sides swapped for
   vector multiples, v.T for functional-times-vector, Broadcast <-> Reduction,
   Diagonal) maps range to domain and satisfies <Ax,y>_ran = <x,A*y>_dom for all x,y. *)
Theorem expr_adjoint_sound_real : forall e : oexpr R, wf leaf_ok e ->
  (forall x, length x = length (dom e) -> length (eval e x) = length (ran e)) /\
  (forall y, length y = length (ran e) -> length (eval (adjoint e) y) = length (dom e)) /\
  (forall x y, length x = length (dom e) -> length y = length (ran e) ->
     cinner (ran e) (eval e x) y = cinner (dom e) x (eval (adjoint e) y)) /\
  dom (adjoint e) = ran e /\ ran (adjoint e) = dom e.
Proof. exact (expr_adjoint_sound_flat cring_ok_R). Qed.
Print Assumptions expr_adjoint_sound_real.

(* the same over the complex numbers (scalars and vectors are conjugated) *)
Theorem expr_adjoint_sound_complex : forall e : oexpr (R * R), wf leaf_ok e ->
  (forall x, length x = length (dom e) -> length (eval e x) = length (ran e)) /\
  (forall y, length y = length (ran e) -> length (eval (adjoint e) y) = length (dom e)) /\
  (forall x y, length x = length (dom e) -> length y = length (ran e) ->
     cinner (ran e) (eval e x) y = cinner (dom e) x (eval (adjoint e) y)) /\
  dom (adjoint e) = ran e /\ ran (adjoint e) = dom e.
Proof. exact (expr_adjoint_sound_flat cring_ok_C). Qed.
Print Assumptions expr_adjoint_sound_complex.
