(* C05/Props.v -- property theorems only; each is closed by [exact] of a lemma
   from C05/Proofs*.v and followed by Print Assumptions.

   Model: C05/Model.v.  Elements are flat lists, a space is the list [w] of its
   Gram diagonal, <x,y>_w = sum_i w_i x_i conj(y_i) ([cinner]).  [eval e] is the
   action of the operator expression [e], [adjoint e] the expression the
   library returns as [e.adjoint].  The carrier is R (conj = id) or C = R*R. *)
From Coq Require Import Reals Lra List Bool.
From Verif Require Import Base.Num Base.Vec C13.Syntax Gen.FiniteDiff C13.Model C05.Model C05.Alg C05.Inst C05.Proofs.
Import ListNotations.

(* T1 (all trees, any depth and width): if the expression is well-formed (spaces of
   operands match as the constructors of odl/operator/operator.py and pspace_ops.py
   require) and every LEAF satisfies the adjoint identity in its own weighted spaces,
   then the operator returned by .adjoint (order reversal for compositions,
   conj(s) for scalar multiples on either side, conj(v) with sides swapped for
   vector multiples, v.T for functional-times-vector, Broadcast <-> Reduction,
   Diagonal) maps range to domain and satisfies <Ax,y>_ran = <x,A*y>_dom for all x,y. *)
Theorem expr_adjoint_sound_real : forall e : oexpr R, wf leaf_ok e ->
  (forall x, length x = length (dom e) -> length (eval e x) = length (ran e)) /\
  (forall y, length y = length (ran e) -> length (eval (adjoint e) y) = length (dom e)) /\
  (forall x y, length x = length (dom e) -> length y = length (ran e) ->
     cinner (ran e) (eval e x) y = cinner (dom e) x (eval (adjoint e) y)) /\
  dom (adjoint e) = ran e /\ ran (adjoint e) = dom e.
Proof. exact (expr_adjoint_sound_flat cring_ok_R). Qed.
Print Assumptions expr_adjoint_sound_real.

(* the same over the complex numbers (scalars and vectors are conjugated) *)
Theorem expr_adjoint_sound_complex : forall e : oexpr (R * R), wf leaf_ok e ->
  (forall x, length x = length (dom e) -> length (eval e x) = length (ran e)) /\
  (forall y, length y = length (ran e) -> length (eval (adjoint e) y) = length (dom e)) /\
  (forall x y, length x = length (dom e) -> length y = length (ran e) ->
     cinner (ran e) (eval e x) y = cinner (dom e) x (eval (adjoint e) y)) /\
  dom (adjoint e) = ran e /\ ran (adjoint e) = dom e.
Proof. exact (expr_adjoint_sound_flat cring_ok_C). Qed.
Print Assumptions expr_adjoint_sound_complex.

(* The premise in the form the correspondence checks on every case: the boolean structural check
   [wfb e] (evaluated by Coq on the expression read off each ODL operator object, see C05/Corr.v:check_wf)
   together with the leaves being good implies [wf leaf_ok e], hence the identity. *)
Theorem wfb_gives_wf_real : forall (P : leaf R -> Prop) (e : oexpr R),
  wfb e = true -> Forall P (leaves e) -> wf P e.
Proof. exact (wf_of_wfb cring_ok_R). Qed.
Theorem wfb_gives_wf_complex : forall (P : leaf (R * R) -> Prop) (e : oexpr (R * R)),
  wfb e = true -> Forall P (leaves e) -> wf P e.
Proof. exact (wf_of_wfb cring_ok_C). Qed.

(* TIE TO THE SOURCE BY PROOF.  Gen/Adjoints.v is regenerated on every run by translate/adjoints.py from the
   `adjoint` properties of operator.py (7 expression classes), pspace_ops.py (Broadcast/Reduction/Diagonal and the
   projections), default_ops.py, tensor_ops.py, diff_ops.py, discr_ops.py, read as constructor expressions (class,
   operand order, conjugations, space arguments).  C05/AdjInterp.v interprets these tables ([adjoint_gen],
   [leaf_adjoint_gen]; the Python `*` is dispatched as Operator.__mul__/__rmul__ do).  The model the theorems of
   this file are about IS that interpretation -- for every tree and every leaf: *)
From Verif Require Import C05.AdjSyntax Gen.Adjoints C05.AdjInterp C05.AdjProofs.
Theorem adjoint_model_is_generated : forall (T : Type) (NT : Num T) (CT : Conj T) (e : oexpr T),
  adjoint_gen true e = adjoint e.
Proof. exact (@adjoint_generated). Qed.
Theorem leaf_adjoint_model_is_generated : forall (T : Type) (NT : Num T) (CT : Conj T) (l : leaf T),
  leaf_adjoint_gen true l = Some (leaf_adjoint l).
Proof. exact (@leaf_adjoint_generated). Qed.
(* [true] selects the complex branch of the purely "is it real?" conditions of the source; on a carrier with
   trivial conjugation (real spaces) the real branches give the same expression: *)
Theorem adjoint_real_branches_agree : forall (T : Type) (NT : Num T) (CT : Conj T),
  (forall a : T, nconj a = a) -> forall e : oexpr T, adjoint_gen false e = adjoint_gen true e.
Proof. exact (@real_reading_agrees). Qed.
Print Assumptions adjoint_model_is_generated.

(* ProductSpaceOperator as the code stores it (C05/Coo.v): a list of COO triples (row, col, operator) --
   DUPLICATE (row, col) pairs allowed (the evaluation sums them), empty rows / columns, any block shape -- between
   unweighted product spaces with components [cs] (domain) and [rs] (range).  [coo_adjoint] exchanges row and
   column of every triple and takes the adjoint of every entry; it IS the interpretation of the rule regenerated
   from ProductSpaceOperator.adjoint ([psop_adjoint_is_generated]: which index array goes where, entries adjointed,
   spaces swapped).  If every entry satisfies the adjoint identity, so does the block operator. *)
From Verif Require Import C05.Coo.
Theorem product_space_operator_adjoint : forall (T : Type) (NT : Num T) (CT : Conj T), cring_ok T ->
  forall (rs cs : list (list T)) (es : list (nat * nat * oexpr T)), Forall (entry_ok rs cs) es ->
  adj_pair (concat cs) (concat rs) (coo_eval rs cs es) (coo_eval cs rs (coo_adjoint es)).
Proof. exact (@coo_adjoint_identity). Qed.
Theorem psop_adjoint_is_generated : forall (T : Type) (NT : Num T) (CT : Conj T) (es : list (nat * nat * oexpr T)),
  coo_adjoint_gen psop_rule es = coo_adjoint es
  /\ ps_shape_swapped psop_rule = true /\ ps_domain psop_rule = PRan /\ ps_range psop_rule = PDom.
Proof. exact (@coo_adjoint_generated). Qed.
Print Assumptions product_space_operator_adjoint.

(* TRANSFER.  The model the correspondence shards EXECUTE (carriers Q and Q*Q) is the restriction of the model
   the theorems are ABOUT (carriers R and R*R): Q2R (and its componentwise lift Q2C to complex pairs) is a carrier
   homomorphism and commutes with the evaluation of every tree, with [adjoint], and with the evaluation of the
   returned adjoint.  [all_divs_ok]: the divisors occurring in a leaf (cell volumes, product-space weights, cell
   sides) are not zero.  Real carrier: every leaf kind (finite differences through C13.fd_transfer, resizing through
   C16.resize1_transfer); complex carrier: the leaves built from the carrier operations only ([leaf_fine]). *)
From Verif Require Import Base.Transfer C05.Transfer C05.TransferNd.
From Coq Require Import QArith Qreals.
Theorem model_transfer_real : forall e : oexpr Q,      (* [divsb]: evaluated on every case by Corr.check_wf *)
  divsb e = true -> divsb (adjoint e) = true ->
  (forall x, map Q2R (eval e x) = eval (omap Q2R e) (map Q2R x)) /\
  omap Q2R (adjoint e) = adjoint (omap Q2R e) /\
  (forall y, map Q2R (eval (adjoint e) y) = eval (adjoint (omap Q2R e)) (map Q2R y)).
Proof. exact transfer_real_checked. Qed.
Theorem model_transfer_complex : forall e : oexpr (Q * Q),
  Forall leaf_fine (leaves e) -> Forall leaf_fine (leaves (adjoint e)) ->
  (forall x, map Q2C (eval e x) = eval (omap Q2C e) (map Q2C x)) /\
  omap Q2C (adjoint e) = adjoint (omap Q2C e) /\
  (forall y, map Q2C (eval (adjoint e) y) = eval (adjoint (omap Q2C e)) (map Q2C y)).
Proof. exact transfer_complex. Qed.
Print Assumptions model_transfer_complex.

(* T1 (A.adjoint.adjoint acts like A, all trees): whenever the expression and the expression
   returned as its adjoint are both well-formed with good leaves, and the weights are real
   and invertible, the double adjoint evaluates like the operator itself (uniqueness of the
   adjoint in a non-degenerate inner product). *)
Theorem double_adjoint_real : forall e : oexpr R, wf leaf_ok e -> wf leaf_ok (adjoint e) ->
  vconj (dom e) = dom e -> vconj (ran e) = ran e -> invertible (ran e) ->
  forall x, length x = length (dom e) -> eval (adjoint (adjoint e)) x = eval e x.
Proof. exact (double_adjoint_all cring_ok_R). Qed.
Theorem double_adjoint_complex : forall e : oexpr (R * R), wf leaf_ok e -> wf leaf_ok (adjoint e) ->
  vconj (dom e) = dom e -> vconj (ran e) = ran e -> invertible (ran e) ->
  forall x, length x = length (dom e) -> eval (adjoint (adjoint e)) x = eval e x.
Proof. exact (double_adjoint_all cring_ok_C). Qed.
Print Assumptions double_adjoint_complex.

(* T1: the expression returned as adjoint of a good tree is again a well-formed tree with good
   leaves ([leaf_good l] = [leaf_ok l] and the expression returned as l.adjoint has good leaves), so
   A.adjoint.adjoint acts like A for every such tree without a premise on [adjoint e]. *)
Theorem adjoint_well_formed_real : forall e : oexpr R, wf leaf_good e -> wf leaf_ok (adjoint e).
Proof. exact (adjoint_wf cring_ok_R). Qed.
Theorem adjoint_well_formed_complex : forall e : oexpr (R * R), wf leaf_good e -> wf leaf_ok (adjoint e).
Proof. exact (adjoint_wf cring_ok_C). Qed.
Theorem double_adjoint_good_real : forall e : oexpr R, wf leaf_good e ->
  vconj (dom e) = dom e -> vconj (ran e) = ran e -> invertible (ran e) ->
  forall x, length x = length (dom e) -> eval (adjoint (adjoint e)) x = eval e x.
Proof. exact (double_adjoint_good cring_ok_R). Qed.
Theorem double_adjoint_good_complex : forall e : oexpr (R * R), wf leaf_good e ->
  vconj (dom e) = dom e -> vconj (ran e) = ran e -> invertible (ran e) ->
  forall x, length x = length (dom e) -> eval (adjoint (adjoint e)) x = eval e x.
Proof. exact (double_adjoint_good cring_ok_C). Qed.
Print Assumptions double_adjoint_good_complex.

(* ------------------------------------------------------------------------
   Built-in pairs.  Stated once for every carrier T that is a commutative ring
   with an involution and a partial division ([cring_ok]); the two carriers
   used, R with conj = id and C = R*R, satisfy the premise: *)
From Verif Require Import C05.ProofsLeaf C05.ProofsR.
Theorem carrier_real : cring_ok R.
Proof. exact cring_ok_R. Qed.
Theorem carrier_complex : cring_ok (R * R).
Proof. exact cring_ok_C. Qed.

(* [leaf_ok l] is, written out:
     adjoint identity  <A x, y>_ran = <x, A* y>_dom  for all x, y of the right lengths,
     A maps dom -> ran and A* maps ran -> dom (lengths), and the operator returned
     as adjoint has the swapped spaces. *)
Example leaf_ok_unfolded : forall (T : Type) (NT : Num T) (CT : Conj T) (l : leaf T),
  leaf_ok l <->
  ((forall x, length x = length (leaf_dom l) -> length (eval_leaf l x) = length (leaf_ran l)) /\
   (forall y, length y = length (leaf_ran l) -> length (eval (leaf_adjoint l) y) = length (leaf_dom l)) /\
   (forall x y, length x = length (leaf_dom l) -> length y = length (leaf_ran l) ->
      cinner (leaf_ran l) (eval_leaf l x) y = cinner (leaf_dom l) x (eval (leaf_adjoint l) y))) /\
  dom (leaf_adjoint l) = leaf_ran l /\ ran (leaf_adjoint l) = leaf_dom l.
Proof. intros; reflexivity. Qed.

Section Builtins.
Context {T : Type} {NT : Num T} {CT : Conj T}.
Hypothesis OK : cring_ok T.

(* T1: ScalingOperator / IdentityOperator -- any weights, any (complex) scalar; adjoint scales by conj(s) *)
Theorem scaling_adjoint : forall (w : list T) (s : T), leaf_ok (LScaling w s).
Proof. exact (leaf_ok_scaling OK). Qed.
(* T1: MultiplyOperator(v) on v.space -- any diagonal weights; adjoint multiplies by conj(v) *)
Theorem multiply_adjoint : forall w v : list T, length v = length w -> leaf_ok (LMultiply w v).
Proof. exact (leaf_ok_multiply OK). Qed.
(* T1: InnerProductOperator(v) <-> MultiplyOperator(v, domain=field) -- any (real) weights *)
Theorem innerproduct_adjoint : forall w v : list T, length v = length w -> leaf_ok (LInner w v).
Proof. exact (leaf_ok_inner OK). Qed.
Theorem multiply_field_adjoint : forall w v : list T, length v = length w -> vconj w = w -> leaf_ok (LMulField w v).
Proof. exact (leaf_ok_mulfield OK). Qed.
(* T1: ZeroOperator between any two spaces *)
Theorem zero_adjoint : forall wd wr : list T, leaf_ok (LZero wd wr).
Proof. exact (leaf_ok_zero OK). Qed.

(* MatrixOperator.adjoint is the plain conjugate transpose between the swapped spaces.
   FULL STATEMENT (false, see matrix_adjoint_refuted below):
     forall wd wr M, rect (length wd) M -> length M = length wr -> leaf_ok (LMatrix wd wr M).
   _partial: exactly when both spaces carry the same constant weight c (c = 1: unweighted),
   for every matrix shape m x n and all entries. *)
Theorem matrix_adjoint_partial : forall (c : T) (n m : nat) (M : list (list T)),
  rect n M -> length M = m -> leaf_ok (LMatrix (repeat c n) (repeat c m) M).
Proof. exact (leaf_ok_matrix_const OK). Qed.

(* SamplingOperator / WeightedSumSamplingOperator: every index list (repetitions allowed),
   both variants.  FULL STATEMENT (false): for every domain weight list wd.
   _partial: when every domain weight equals the constant cv the code reads from
   `getattr(domain, 'cell_volume', 1.0)` (uniform_discr without boundary nodes; unweighted rn). *)
Theorem sampling_adjoint_partial : forall (cv : T) (n : nat) (idx : list nat) (integrate : bool),
  Forall (fun i => (i < n)%nat) idx -> nconj cv = cv -> cv <> nzero ->
  leaf_ok (LSampling (repeat cv n) idx integrate cv).
Proof. exact (leaf_ok_sampling OK). Qed.
Theorem weighted_sum_sampling_adjoint_partial : forall (cv : T) (n : nat) (idx : list nat) (dirac : bool),
  Forall (fun i => (i < n)%nat) idx -> nconj cv = cv -> cv <> nzero ->
  leaf_ok (LWSum (repeat cv n) idx dirac cv).
Proof. exact (leaf_ok_wsum OK). Qed.
(* FlatteningOperator (any order = any index permutation) and its inverse; same precondition *)
Theorem flattening_adjoint_partial : forall (cv : T) (n : nat) (perm : list nat),
  Forall (fun i => (i < n)%nat) perm -> nconj cv = cv -> cv <> nzero ->
  leaf_ok (LFlatten (repeat cv n) perm cv).
Proof. exact (leaf_ok_flatten OK). Qed.
Theorem flattening_inverse_adjoint_partial : forall (cv : T) (n : nat) (perm : list nat),
  Forall (fun i => (i < n)%nat) perm -> nconj cv = cv -> leaf_ok (LUnflatten (repeat cv n) perm cv).
Proof. exact (leaf_ok_unflatten OK). Qed.
(* ComponentProjection(Adjoint).  FULL STATEMENT (false): for all product weights pw.
   _partial: when the weight of the projected component is 1 (any other weights, any component spaces). *)
Theorem component_projection_adjoint_partial : forall (ws : list (list T)) (pw : list T) (i : nat),
  (i < length ws)%nat -> length pw = length ws -> nth i pw nzero = none_ -> leaf_ok (LProj ws pw i).
Proof. exact (leaf_ok_proj OK). Qed.
Theorem component_projection_adjoint_adjoint_partial : forall (ws : list (list T)) (pw : list T) (i : nat),
  (i < length ws)%nat -> length pw = length ws -> nth i pw nzero = none_ ->
  vconj (pweights pw ws) = pweights pw ws -> vconj (nth i ws []) = nth i ws [] -> leaf_ok (LProjAdj ws pw i).
Proof. exact (leaf_ok_projadj OK). Qed.
(* T1: PointwiseInner / PointwiseInnerAdjoint (and PointwiseSum): k >= 1 components, any vector field g,
   any real base weights, any real nonzero product-space weights pw and any real operator weights ow
   (the `dom_w / ran_w` correction of PointwiseInnerAdjoint is exactly what is needed). *)
Theorem pointwise_inner_adjoint : forall (wb pw : list T) (g : list (list T)) (ow : list T), g <> [] ->
  length pw = length g -> length ow = length g ->
  Forall (fun gi => length gi = length wb) g ->
  Forall (fun p => nconj p = p /\ p <> nzero) pw -> Forall (fun o => nconj o = o) ow ->
  leaf_ok (LPtInner wb pw g ow).
Proof. exact (leaf_ok_ptinner OK). Qed.
Theorem pointwise_inner_adjoint_adjoint : forall (wb pw : list T) (g : list (list T)) (ow : list T), g <> [] ->
  length pw = length g -> length ow = length g ->
  Forall (fun gi => length gi = length wb) g ->
  Forall (fun p => nconj p = p /\ p <> nzero) pw -> Forall (fun o => nconj o = o) ow ->
  vconj wb = wb -> leaf_ok (LPtInnerAdj wb pw g ow).
Proof. exact (leaf_ok_ptinner_adj OK). Qed.
(* the built-ins above are [leaf_good] under the same preconditions (their adjoints are again such built-ins) *)
Theorem builtin_leaves_good :
  (forall (w : list T) s, leaf_good (LScaling w s)) /\
  (forall w v : list T, length v = length w -> leaf_good (LMultiply w v)) /\
  (forall wd wr : list T, leaf_good (LZero wd wr)) /\
  (forall w v : list T, length v = length w -> vconj w = w -> leaf_good (LInner w v)) /\
  (forall w v : list T, length v = length w -> vconj w = w -> leaf_good (LMulField w v)) /\
  (forall (c : T) n m (M : list (list T)), rect n M -> length M = m -> leaf_good (LMatrix (repeat c n) (repeat c m) M)) /\
  (forall (cv : T) n idx b, Forall (fun i => (i < n)%nat) idx -> nconj cv = cv -> cv <> nzero ->
     leaf_good (LSampling (repeat cv n) idx b cv) /\ leaf_good (LWSum (repeat cv n) idx b cv) /\
     leaf_good (LFlatten (repeat cv n) idx cv) /\ leaf_good (LUnflatten (repeat cv n) idx cv)).
Proof. exact (leaves_good_all OK). Qed.
(* ComponentProjection(Adjoint) with an index list ([acc = true]: the adjoint accumulates out[j] += y[k], /repo
   abf8b3b) or a slice ([acc = false]: the adjoint assigns out[index] = y): any selection of components in any
   order; for lists REPEATED indices are allowed, for the assignment form they must be distinct (slices are).
   _partial: every selected component has product weight 1 (the weighted case is the open finding). *)
Theorem component_projection_multi_adjoint_partial :
  forall (ws : list (list T)) (pw : list T) (idxs : list nat) (acc : bool),
  (acc = false -> NoDup idxs) -> length pw = length ws ->
  Forall (fun i => (i < length ws)%nat /\ nth i pw nzero = none_) idxs ->
  leaf_ok (LProjM ws pw idxs acc).
Proof. exact (leaf_ok_projm OK). Qed.
Theorem component_projection_multi_adjoint_adjoint_partial :
  forall (ws : list (list T)) (pw : list T) (idxs : list nat) (acc : bool),
  (acc = false -> NoDup idxs) -> length pw = length ws ->
  Forall (fun i => (i < length ws)%nat /\ nth i pw nzero = none_) idxs ->
  vconj (pweights pw ws) = pweights pw ws ->
  vconj (concat (map (fun i => nth i ws []) idxs)) = concat (map (fun i => nth i ws []) idxs) ->
  leaf_ok (LProjMAdj ws pw idxs acc).
Proof. exact (leaf_ok_projm_adj OK). Qed.
Theorem projection_and_pointwise_leaves_good :
  (forall (ws : list (list T)) (pw : list T) i, (i < length ws)%nat -> length pw = length ws ->
     nth i pw nzero = none_ -> vconj (pweights pw ws) = pweights pw ws -> vconj (nth i ws []) = nth i ws [] ->
     leaf_good (LProj ws pw i) /\ leaf_good (LProjAdj ws pw i)) /\
  (forall (wb pw : list T) (g : list (list T)) (ow : list T), g <> [] ->
     length pw = length g -> length ow = length g ->
     Forall (fun gi => length gi = length wb) g ->
     Forall (fun p => nconj p = p /\ p <> nzero) pw -> Forall (fun o => nconj o = o) ow ->
     vconj wb = wb -> leaf_good (LPtInner wb pw g ow) /\ leaf_good (LPtInnerAdj wb pw g ow)).
Proof. exact (conj (leaf_good_proj OK) (leaf_good_ptinner OK)). Qed.
End Builtins.
Print Assumptions scaling_adjoint.
Print Assumptions matrix_adjoint_partial.
Print Assumptions sampling_adjoint_partial.
Print Assumptions flattening_adjoint_partial.
Print Assumptions component_projection_adjoint_partial.
Print Assumptions component_projection_multi_adjoint_partial.
Print Assumptions pointwise_inner_adjoint.
Print Assumptions builtin_leaves_good.

(* PartialDerivative on a 1-d discretisation: the operator named by the regenerated
   _ADJ_METHOD/_ADJ_PADDING tables, negated, IS the adjoint for all 30 (method, padding)
   pairs, every length n >= 2 on which both are defined, every cell side dx <> 0 -- when
   all weights are equal (uniform_discr without nodes_on_bdry).  Reuses C13.fd_adjoint.
   FULL STATEMENT (false, partial_derivative_nodes_on_bdry_refuted): for all weights. *)
Theorem partial_derivative_adjoint_partial : forall (c dx : R) (n : nat) (m : meth) (p : pmode),
  dx <> 0%R -> (2 <= n)%nat ->
  bnd_in_range n (boundary_tab p m) = true ->
  bnd_in_range n (boundary_tab (adj_padding p) (adj_method m)) = true ->
  leaf_ok (LPDeriv (repeat c n) (repeat c n) [n] 0 m p dx).
Proof. exact leaf_ok_pderiv_1d. Qed.
Print Assumptions partial_derivative_adjoint_partial.
(* Gradient and Divergence on a 1-d discretisation (range / domain = space^1), same precondition *)
Theorem gradient_divergence_1d_adjoint_partial : forall (c dx : R) (n : nat) (m : meth) (p : pmode),
  dx <> 0%R -> (2 <= n)%nat ->
  bnd_in_range n (boundary_tab p m) = true ->
  bnd_in_range n (boundary_tab (adj_padding p) (adj_method m)) = true ->
  leaf_ok (LGrad (repeat c n) (repeat c n) [n] m p [dx]) /\
  leaf_ok (LDiv (repeat c n) (repeat c n) [n] m p [dx]).
Proof. exact leaf_ok_grad_1d. Qed.
(* ... and the 1-d PartialDerivative leaf is [leaf_good] (the tables are involutive), so trees containing it
   satisfy double_adjoint_good_real *)
Theorem partial_derivative_leaf_good : forall (c dx : R) (n : nat) (m : meth) (p : pmode),
  dx <> 0%R -> (2 <= n)%nat ->
  bnd_in_range n (boundary_tab p m) = true ->
  bnd_in_range n (boundary_tab (adj_padding p) (adj_method m)) = true ->
  leaf_good (LPDeriv (repeat c n) (repeat c n) [n] 0 m p dx).
Proof. exact leaf_good_pderiv_1d. Qed.

(* ------------------------------------------------------------------------
   N-d operators, EVERY shape (lifting C13.pderiv_adjoint_nd / gradient_adjoint_nd /
   divergence_adjoint_nd / laplacian_selfadjoint_nd and Lib.AxisR.along_adjoint into the weighted inner
   product of a uniformly weighted space: all weights equal c, e.g. uniform_discr without boundary nodes).
   [axis_ok shape m p ax]: axis length >= 2 and both table rows in range on that axis. *)
From Verif Require Import Lib.Axis C13.ProofsNd C13.ProofsLap C05.ProofsNd.
Theorem partial_derivative_nd_adjoint_partial : forall (c dx : R) (shape : list nat) (ax : nat) (m : meth) (p : pmode),
  (ax < length shape)%nat -> axis_ok shape m p ax -> dx <> 0%R ->
  leaf_ok (LPDeriv (repeat c (prodn shape)) (repeat c (prodn shape)) shape ax m p dx).
Proof. exact leaf_ok_pderiv_nd. Qed.
Print Assumptions partial_derivative_nd_adjoint_partial.
(* Gradient: space -> space^ndim and Divergence: space^ndim -> space (flat concatenation of the components) *)
Theorem gradient_divergence_nd_adjoint_partial : forall (c : R) (shape : list nat) (m : meth) (p : pmode) (dxs : list R),
  (0 < length shape)%nat -> length dxs = length shape ->
  (forall i, (i < length shape)%nat -> axis_ok shape m p i) -> Forall (fun dx => dx <> 0%R) dxs ->
  leaf_ok (LGrad (repeat c (prodn shape)) (repeat c (length shape * prodn shape)) shape m p dxs) /\
  leaf_ok (LDiv (repeat c (length shape * prodn shape)) (repeat c (prodn shape)) shape
                (adj_method m) (adj_padding p) dxs).
Proof. exact leaf_ok_gradient_divergence_nd. Qed.
Print Assumptions gradient_divergence_nd_adjoint_partial.
(* Laplacian with the pad modes its constructor accepts ([lap_mode]): self-adjoint, as the code claims *)
Theorem laplacian_nd_adjoint_partial : forall (c : R) (shape : list nat) (p : pmode) (dxs : list R),
  lap_mode p = true -> length dxs = length shape ->
  (forall i, (i < length shape)%nat -> (2 <= nth i shape 0)%nat) -> Forall (fun dx => dx <> 0%R) dxs ->
  leaf_ok (LLap (repeat c (prodn shape)) (repeat c (prodn shape)) shape p dxs).
Proof. exact leaf_ok_laplacian_nd. Qed.
Print Assumptions laplacian_nd_adjoint_partial.
(* MatrixOperator(M, domain, axis=ax) on an N-d tensor space: conj-transpose along the same axis *)
Theorem matrix_axis_adjoint_partial : forall (c : R) (shape : list nat) (ax : nat) (M : list (list R)),
  (ax < length shape)%nat -> ProofsLeaf.rect (nth ax shape 0%nat) M ->
  leaf_ok (LMatrixAx (repeat c (prodn shape))
                     (repeat c (prodn (firstn ax shape ++ length M :: skipn (S ax) shape))) shape ax M).
Proof. exact leaf_ok_matrix_axis. Qed.
Print Assumptions matrix_axis_adjoint_partial.

(* ResizingOperator (pad_const = 0; resize_array of C16 along axis 0, 1, ...) between uniformly weighted
   discretisations with the same cell volume c, and the operator the code returns as its adjoint (same axis
   order, axis 0 first, in both directions).  [config_ok]: every axis offset in range and the padding legal
   for the mode (C16).  All 5 pad modes, all shapes/offsets, ANY number of axes resized at once (growing in some
   and shrinking in others): uses C16.axis_order_immaterial.
   FULL STATEMENT for nodes_on_bdry spaces is false (finding resizing-adjoint-nodes-on-bdry). *)
Theorem resizing_adjoint_partial : forall (c : R) (rm : C16.Syntax.pmode) (ish osh : list nat) (offs : list Z),
  C16.ModelNd.config_ok rm ish osh offs = true ->
  leaf_ok (LResize (repeat c (prodn ish)) (repeat c (prodn osh)) rm ish osh offs) /\
  leaf_ok (LResizeAdj (repeat c (prodn osh)) (repeat c (prodn ish)) rm ish osh offs).
Proof. exact leaf_ok_resize. Qed.
(* Print Assumptions resizing_adjoint_partial: walks all of C16 (~30 s); its axioms are those of
   C16.Props.axis_order_immaterial and resize_adjoint_nd *)

(* Real <-> complex operators, realified (C^n = R^2n as re ++ im with weights w ++ w, so that
   [cinner] is the REAL PART of the complex inner product): RealPart/ImagPart of a real and of a
   complex space, ComplexEmbedding(s) of a complex space (any s, any weights) and of a real space in all
   three branches of its adjoint (s real / imaginary / general).  RealPart(X).adjoint is modelled as the
   repaired code returns it (ComplexEmbedding on X.real_space, /repo commit 8efcc84). *)
Theorem realpart_real_adjoint : forall w : list R, leaf_ok (LRealR w).
Proof. exact leaf_ok_realR. Qed.
Theorem imagpart_real_adjoint : forall w : list R, leaf_ok (LImagR w).
Proof. exact leaf_ok_imagR. Qed.
Theorem complex_embedding_complex_adjoint : forall (w : list R) (sr si : R), leaf_ok (LEmbedC w sr si).
Proof. exact leaf_ok_embedC. Qed.
Theorem realpart_complex_adjoint : forall w : list R, leaf_ok (LRealC w).
Proof. exact leaf_ok_realC. Qed.
Theorem imagpart_complex_adjoint : forall w : list R, leaf_ok (LImagC w).
Proof. exact leaf_ok_imagC. Qed.
Theorem complex_embedding_real_adjoint : forall (w : list R) (sr si : R), leaf_ok (LEmbedR w sr si).
Proof. exact leaf_ok_embedR. Qed.
Print Assumptions complex_embedding_real_adjoint.

(* ------------------------------------------------------------------------
   The full statement is FALSE of the faithful model on non-uniformly weighted
   spaces (recorded findings; witnesses by computation at R). *)
Local Open Scope R_scope.
Theorem matrix_adjoint_refuted : identity_fails (LMatrix [1; 2] [1; 2] [[0; 1]; [0; 0]]).
Proof. exact matrix_array_weighted_refuted. Qed.
(* ... and the precondition of matrix_adjoint_partial is NECESSARY for the class: if the identity holds
   for the all-ones matrix between spaces with weights wd, wr, then every range weight equals every
   domain weight (one common constant). *)
Theorem matrix_adjoint_precondition_necessary : forall wd wr : list R,
  (forall x y, length x = length wd -> length y = length wr ->
     cinner wr (eval_leaf (LMatrix wd wr (repeat (ones (length wd)) (length wr))) x) y =
     cinner wd x (eval (leaf_adjoint (LMatrix wd wr (repeat (ones (length wd)) (length wr)))) y)) ->
  forall i j, (i < length wr)%nat -> (j < length wd)%nat -> nth i wr 0 = nth j wd 0.
Proof. exact matrix_identity_forces_equal_weights. Qed.
Print Assumptions matrix_adjoint_precondition_necessary.
Theorem matrix_adjoint_other_range_refuted : identity_fails (LMatrix [1] [2] [[1]]).
Proof. exact matrix_weighted_refuted. Qed.
Theorem sampling_adjoint_const_weight_refuted : identity_fails (LSampling [2] [0%nat] false 1).
Proof. exact sampling_weighted_refuted. Qed.
(* the precondition of sampling_adjoint_partial is NECESSARY: if the identity holds for the single sampling
   point j then the domain weight at j is the cell volume the code divides by *)
Theorem sampling_adjoint_precondition_necessary : forall (wd : list R) (cv : R) (j : nat),
  cv <> 0 -> (j < length wd)%nat ->
  (forall x y, length x = length wd -> length y = 1%nat ->
     cinner (ones 1) (eval_leaf (LSampling wd [j] false cv) x) y =
     cinner wd x (eval (leaf_adjoint (LSampling wd [j] false cv)) y)) ->
  nth j wd 0 = cv.
Proof. exact sampling_identity_forces_cell_volume. Qed.
Theorem sampling_adjoint_nodes_on_bdry_refuted : identity_fails (LSampling [1/4; 1/2; 1/4] [0%nat] false (1/2)).
Proof. exact sampling_bdry_refuted. Qed.
Theorem flattening_adjoint_refuted : identity_fails (LFlatten [2] [0%nat] 1).
Proof. exact flatten_weighted_refuted. Qed.
Theorem component_projection_adjoint_refuted : identity_fails (LProj [[1]; [1]] [2; 3] 0).
Proof. exact proj_weighted_refuted. Qed.
(* regression theorem: the assignment semantics (acc = false), used for index lists before /repo abf8b3b,
   violates the identity on a repeated index -- the NoDup premise above is needed for acc = false *)
Theorem component_projection_assignment_repeated_index_refuted :
  identity_fails (LProjM [[1]; [1]] [1; 1] [0%nat; 0%nat] false).
Proof. exact projm_repeated_refuted. Qed.
Theorem partial_derivative_nodes_on_bdry_refuted :
  identity_fails (LPDeriv [1/4; 1/2; 1/4] [1/4; 1/2; 1/4] [3%nat] 0 Forward PConstant (1/2)).
Proof. exact pderiv_bdry_refuted. Qed.

(* ------------------------------------------------------------------------
   Non-vacuity: a concrete complex tree (scalar multiples on both sides, vector
   multiple, sum, composition, broadcast) satisfies the premises of
   expr_adjoint_sound_complex and of double_adjoint_complex. *)
Definition c1 : R * R := (1, 0). Definition ci : R * R := (0, 1). Definition c2i : R * R := (2, -1).
Definition ex_tree : oexpr (R * R) :=
  Bcast [ Sum (LScal c2i (Leaf (LMatrix [c1; c1] [c1; c1] [[c1; ci]; [c2i; c1]])))
              (Comp (Leaf (LScaling [c1; c1] ci)) (RVec (Leaf (LMultiply [c1; c1] [ci; c2i])) [c1; ci]));
          RScal (Leaf (LZero [c1; c1] [c1])) c2i ].
Example ex_tree_premises :
  wf leaf_ok ex_tree /\ wf leaf_ok (adjoint ex_tree) /\
  vconj (dom ex_tree) = dom ex_tree /\ vconj (ran ex_tree) = ran ex_tree /\ invertible (ran ex_tree).
Proof.
  assert (HM : forall M : list (list (R * R)), rect 2 M -> length M = 2%nat -> leaf_ok (LMatrix [c1; c1] [c1; c1] M))
    by (intros M H1 H2; exact (leaf_ok_matrix_const cring_ok_C c1 2 2 M H1 H2)).
  assert (Hc1 : nconj c1 = c1) by (unfold c1; cbn; f_equal; lra).
  split; [|split; [|split; [|split]]].
  - cbn [ex_tree wf]. repeat match goal with |- _ /\ _ => split end; try reflexivity; try discriminate; try exact I.
    + apply HM; [repeat constructor | reflexivity].
    + apply (leaf_ok_scaling cring_ok_C).
    + apply (leaf_ok_multiply cring_ok_C); reflexivity.
    + apply (leaf_ok_zero cring_ok_C).
    + repeat constructor.
  - cbn [ex_tree adjoint map mk_lscal leaf_adjoint wf]. repeat match goal with |- _ /\ _ => split end; try reflexivity; try discriminate; try exact I.
    + apply HM; [cbn; repeat constructor | reflexivity].
    + apply (leaf_ok_multiply cring_ok_C); reflexivity.
    + apply (leaf_ok_scaling cring_ok_C).
    + apply (leaf_ok_zero cring_ok_C).
    + repeat constructor.
  - change (dom ex_tree) with [c1; c1]. unfold vconj; cbn [map]. rewrite Hc1. reflexivity.
  - change (ran ex_tree) with [c1; c1; c1]. unfold vconj; cbn [map]. rewrite Hc1. reflexivity.
  - change (ran ex_tree) with [c1; c1; c1]. repeat constructor; exists c1; cbn; unfold cx_mul; cbn; f_equal; lra.
Qed.
Example ex_tree_good : wf leaf_good ex_tree.
Proof.
  cbn [ex_tree wf]. repeat match goal with |- _ /\ _ => split end; try reflexivity; try discriminate; try exact I.
  - apply (leaf_good_matrix_const cring_ok_C c1 2 2); [repeat constructor | reflexivity].
  - apply (leaf_good_scaling cring_ok_C).
  - apply (leaf_good_multiply cring_ok_C); reflexivity.
  - apply (leaf_good_zero cring_ok_C).
  - repeat constructor.
Qed.

(* non-vacuity for the realified reading: a real <-> complex tree satisfies the
   premise of expr_adjoint_sound_real, so the identity holds for it in the real part *)
Definition ex_mixed : oexpr R :=
  Comp (Sum (LScal 2 (Leaf (LRealC [1; 1]))) (LScal 3 (Leaf (LImagC [1; 1]))))
       (Leaf (LEmbedR [1; 1] 1 2)).
Example ex_mixed_premises : wf leaf_ok ex_mixed.
Proof.
  cbn [ex_mixed wf]. repeat match goal with |- _ /\ _ => split end; try reflexivity.
  - apply leaf_ok_realC.
  - apply leaf_ok_imagC.
  - apply leaf_ok_embedR.
Qed.
