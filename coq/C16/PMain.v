(* C16/PMain.v -- the 1-d theorems in (n_out, offset) form. *)
From Coq Require Import ZArith Reals Lia Lra List Bool.
From Verif Require Import Base.Num Base.Vec Base.VecR C16.Syntax Gen.Padding C16.Model
  C16.PLists C16.PPatterns C16.PGather C16.PResize C16.PAdjoint C16.POrder C16.PResize2 C16.PAdjointAll.
Import ListNotations.
Local Open Scope R_scope.

Lemma split3 {X} (y : list X) pl n : (pl + n <= length y)%nat ->
  exists A B C, y = A ++ B ++ C /\ length A = pl /\ length B = n /\ length C = (length y - pl - n)%nat.
Proof.
  intros Hle. exists (firstn pl y), (firstn n (skipn pl y)), (skipn n (skipn pl y)).
  rewrite !firstn_skipn. repeat split.
  - rewrite firstn_length; lia.
  - rewrite firstn_length, skipn_length; lia.
  - rewrite !skipn_length; lia.
Qed.

Lemma pad_legal_ok m n n_out pl pr :
  n_out = (pl + n + pr)%nat -> (0 < pl + pr)%nat ->
  pad_legal m n n_out (Z.of_nat pl) = true -> pads_ok m n pl pr.
Proof.
  intros -> Hpos. unfold pad_legal.
  destruct (Nat.leb_spec (pl + n + pr) n); [lia|].
  replace (Z.of_nat (pl + n + pr) - Z.of_nat n - Z.of_nat pl)%Z with (Z.of_nat pr) by lia.
  destruct m; cbn [pads_ok]; auto; intros E.
  - apply andb_true_iff in E as [E1 E2]. apply Z.ltb_lt in E1, E2. lia.
  - apply andb_true_iff in E as [E1 E2]. apply Z.leb_le in E1, E2. lia.
  - apply Nat.leb_le in E; lia.
  - apply Nat.leb_le in E; lia.
Qed.

Lemma offset_ok_spec n n_out off : offset_ok n n_out off = true ->
  (0 <= off)%Z /\ (Z.to_nat off + Nat.min n n_out <= Nat.max n n_out)%nat.
Proof.
  unfold offset_ok. intros E. apply andb_true_iff in E as [E1 E2].
  apply Z.leb_le in E1, E2. lia.
Qed.

(* T1: both directions succeed on every admissible input and are transposes of
   each other -- growing, shrinking and equal sizes, every mode *)
Lemma adjoint_all m (x y : list R) off :
  offset_ok (length x) (length y) off = true ->
  pad_legal m (length x) (length y) off = true ->
  exists fx ay,
    resize1 m Forward 0 true x (length y) off = Ok fx /\
    resize1 m Adjoint 0 true y (length x) off = Ok ay /\
    length fx = length y /\ length ay = length x /\
    dot fx y = dot x ay.
Proof.
  intros Hoff Hleg. apply offset_ok_spec in Hoff as [H0 Hoff].
  destruct (lt_eq_lt_dec (length x) (length y)) as [[Hlt|Heq]|Hgt].
  - (* growing *)
    rewrite Nat.min_l, Nat.max_r in Hoff by lia.
    destruct (split3 y (Z.to_nat off) (length x) Hoff) as (A & B & C & -> & HA & HB & HC).
    rewrite !app_length in *.
    assert (Hpos : (0 < length A + length C)%nat) by lia.
    assert (Eoff : off = Z.of_nat (length A)) by lia.
    assert (Hok : pads_ok m (length x) (length A) (length C)).
    { eapply pad_legal_ok; [| exact Hpos | rewrite <- Eoff; exact Hleg]. lia. }
    exists (fwd_struct m 0 x (length A) (length C)), (adj_struct m A B C).
    replace (length A + (length B + length C))%nat with (length A + length x + length C)%nat by lia.
    rewrite Eoff. split; [apply resize1_fwd_grow_all; auto|].
    split; [rewrite <- HB; apply resize1_adj_shrink_all; rewrite ?HB; auto|].
    split.
    { pose proof (resize1_fwd_grow_all m 0 x (length A) (length C) Hpos Hok) as E.
      destruct m; cbn [fwd_struct]; rewrite !app_length, ?repeat_length, ?geti_length, ?IL_length, ?IR_length;
        try lia; unfold ramp_l, ramp_r; rewrite !map_length, !arange_length; lia. }
    split; [now rewrite adj_struct_length|].
    apply dot_fwd_adj_struct; auto.
  - (* equal sizes *)
    exists x, y. rewrite <- Heq at 1. rewrite Heq at 2.
    rewrite !resize1_same by (intros; reflexivity). repeat split; auto.
  - (* shrinking *)
    rewrite Nat.min_r, Nat.max_l in Hoff by lia.
    destruct (split3 x (Z.to_nat off) (length y) Hoff) as (A & B & C & -> & HA & HB & HC).
    rewrite !app_length in *.
    assert (Hpos : (0 < length A + length C)%nat) by lia.
    assert (Eoff : off = Z.of_nat (length A)) by lia.
    exists B, (repeat 0 (length A) ++ y ++ repeat 0 (length C)).
    subst off. split.
    { rewrite <- HB. apply resize1_fwd_shrink; auto. }
    split.
    { replace (length A + (length B + length C))%nat with (length A + length y + length C)%nat by lia.
      apply resize1_adj_grow; auto. }
    split; [exact HB|]. split; [rewrite !app_length, !repeat_length; lia|].
    rewrite !dot_app by (rewrite ?repeat_length; auto). rewrite dot_repeat0_r, dot_repeat0_r. lra.
Qed.
