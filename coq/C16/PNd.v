(* C16/PNd.v -- N-d: the separable adjoint is the transpose of the separable forward map, all shapes. *)
From Coq Require Import ZArith Reals Lia Lra List Bool.
From Verif Require Import Base.Num Base.Vec Base.VecR Lib.Axis C16.Syntax Gen.Padding C16.Model C16.ModelNd
  C16.PAdjoint C16.PMain C16.PAxis.
Import ListNotations.
Local Open Scope R_scope.

(* the 1-d facts in the form [along] needs *)
Lemma line_facts m n n' off :
  offset_ok n n' off = true -> pad_legal m n n' off = true ->
  let F := resize1_tot m Forward 0 true n' off in
  let G := resize1_tot m Adjoint 0 true n off in
  (forall u : list R, length u = n -> length (F u) = n') /\
  (forall v : list R, length v = n' -> length (G v) = n) /\
  (forall u v : list R, length u = n -> length v = n' -> dot (F u) v = dot u (G v)).
Proof.
  intros Hoff Hleg F G. subst F G. unfold resize1_tot.
  assert (K : forall u v : list R, length u = n -> length v = n' ->
     exists fx ay, resize1 m Forward 0 true u n' off = Ok fx /\ resize1 m Adjoint 0 true v n off = Ok ay /\
                   length fx = n' /\ length ay = n /\ dot fx v = dot u ay).
  { intros u v Hu Hv. subst n n'. apply adjoint_all; assumption. }
  repeat split.
  - intros u Hu. destruct (K u (repeat 0 n') Hu (repeat_length _ _)) as (fx & ay & -> & _ & H1 & _). exact H1.
  - intros v Hv. destruct (K (repeat 0 n) v (repeat_length _ _) Hv) as (fx & ay & _ & -> & _ & H2 & _). exact H2.
  - intros u v Hu Hv. destruct (K u v Hu Hv) as (fx & ay & -> & -> & _ & _ & H3). exact H3.
Qed.

Lemma sep_rev_length m outer ish osh offs (y : list R) :
  config_ok m ish osh offs = true -> length y = (outer * prodn osh)%nat ->
  length (sep_rev_loop m Adjoint 0 true outer ish osh offs y) = (outer * prodn ish)%nat.
Proof.
  revert outer osh offs y; induction ish as [|n ish IH]; intros outer [|n' osh] [|off offs] y Hc Hy;
    cbn [config_ok] in Hc; try discriminate; cbn [sep_rev_loop]; [exact Hy|].
  apply andb_true_iff in Hc as [Hc Hrest]. apply andb_true_iff in Hc as [Hoff Hleg].
  destruct (line_facts m n n' off Hoff Hleg) as (HF & HG & _).
  cbn [prodn fold_right] in *. fold (prodn ish). fold (prodn osh) in Hy.
  rewrite along_length with (n' := n); auto.
  rewrite IH; auto. lia. lia.
Qed.

(* T1 (N-d): for every number of axes, every shape pair (growing in some axes while
   shrinking in others), admissible offsets and all contents, the separable adjoint
   is the transpose of the separable forward map *)
Lemma sep_adjoint m outer ish osh offs (x y : list R) :
  config_ok m ish osh offs = true ->
  length x = (outer * prodn ish)%nat -> length y = (outer * prodn osh)%nat ->
  dot (sep_loop m Forward 0 true outer ish osh offs x) y
  = dot x (sep_rev_loop m Adjoint 0 true outer ish osh offs y).
Proof.
  revert outer osh offs x y; induction ish as [|n ish IH]; intros outer [|n' osh] [|off offs] x y Hc Hx Hy;
    cbn [config_ok] in Hc; try discriminate; cbn [sep_loop sep_rev_loop]; [reflexivity|].
  apply andb_true_iff in Hc as [Hc Hrest]. apply andb_true_iff in Hc as [Hoff Hleg].
  destruct (line_facts m n n' off Hoff Hleg) as (HF & HG & Hadj).
  cbn [prodn fold_right] in Hx, Hy. fold (prodn ish) in Hx. fold (prodn osh) in Hy.
  rewrite IH; auto.
  - apply along_adj; auto. rewrite sep_rev_length; auto; lia.
  - rewrite along_length with (n' := n'); auto; lia.
  - lia.
Qed.
