(* C16/Model.v -- 1-d model of odl/util/numerics.py:resize_array (executable
   definitions only).  The slice arithmetic and the legality guards come from
   Gen/Padding.v (regenerated from the source on every run); hand-written here:
   Python slice semantics, NumPy 1-d broadcasting of assignments, the statement
   sequences of _assign_intersection / _apply_padding / resize_array. *)
From Coq Require Import ZArith List Bool.
From Verif Require Import Base.Num Base.Vec C16.Syntax Gen.Padding.
Import ListNotations.

(* ---------------- Python slice semantics (PySlice_AdjustIndices) ------------- *)
Definition adj_pos (n v : Z) : Z :=          (* step > 0: clip to [0, n] *)
  let v := if (v <? 0)%Z then (v + n)%Z else v in
  if (v <? 0)%Z then 0%Z else if (n <=? v)%Z then n else v.
Definition adj_neg (n v : Z) : Z :=          (* step < 0: clip to [-1, n-1] *)
  let v := if (v <? 0)%Z then (v + n)%Z else v in
  if (v <? 0)%Z then (-1)%Z else if (n <=? v)%Z then (n - 1)%Z else v.

(* first index and number of selected entries *)
Definition slice_range (s : pslice) (n : Z) : Z * Z :=
  if (0 <? s_step s)%Z then
    let a := match s_start s with None => 0%Z | Some v => adj_pos n v end in
    let b := match s_stop s with None => n | Some v => adj_pos n v end in
    (a, Z.max 0 (b - a))
  else
    let a := match s_start s with None => (n - 1)%Z | Some v => adj_neg n v end in
    let b := match s_stop s with None => (-1)%Z | Some v => adj_neg n v end in
    (a, Z.max 0 (a - b)).

Definition slice_indices (s : pslice) (n : nat) : list nat :=
  let '(a, k) := slice_range s (Z.of_nat n) in
  map (fun j => Z.to_nat (a + s_step s * Z.of_nat j)) (seq 0 (Z.to_nat k)).

Inductive outcome (A : Type) := Ok (r : A) | ValueErr.
Arguments Ok {A} r.
Arguments ValueErr {A}.

Definition is_fwd (d : direction) : bool := match d with Forward => true | Adjoint => false end.

Section Model.
Context {T : Type} `{Num T}.
Local Open Scope num_scope.

Definition geti (a : list T) (idx : list nat) : list T := map (fun i => nth i a nzero) idx.

Fixpoint upd (i : nat) (g : T -> T) (l : list T) : list T :=
  match l, i with
  | [], _ => []
  | a :: l', O => g a :: l'
  | a :: l', S i' => a :: upd i' g l'
  end.

(* NumPy broadcasting of a 1-d value to k entries: equal length or a single value *)
Definition bcast (k : nat) (vals : list T) : option (list T) :=
  if (length vals =? k)%nat then Some vals
  else match vals with [v] => Some (repeat v k) | _ => None end.

(* binary ufunc on 1-d operands with broadcasting *)
Definition bop (f : T -> T -> T) (a b : list T) : option (list T) :=
  if (length a =? length b)%nat then Some (vmap2 f a b)
  else match a, b with
       | [x], _ => Some (map (f x) b)
       | _, [y] => Some (map (fun x => f x y) a)
       | _, _ => None
       end.

Fixpoint set_at (idx : list nat) (vals : list T) (a : list T) : list T :=
  match idx, vals with
  | i :: idx', v :: vals' => set_at idx' vals' (upd i (fun _ => v) a)
  | _, _ => a
  end.
Fixpoint add_at (idx : list nat) (vals : list T) (a : list T) : list T :=
  match idx, vals with
  | i :: idx', v :: vals' => add_at idx' vals' (upd i (fun o => o + v) a)
  | _, _ => a
  end.

(* a[idx] = vals   /   a[idx] += vals   (ValueError when shapes do not broadcast) *)
Definition assign (idx : list nat) (vals : list T) (a : list T) : option (list T) :=
  match bcast (length idx) vals with Some v => Some (set_at idx v a) | None => None end.
Definition addto (idx : list nat) (vals : list T) (a : list T) : option (list T) :=
  match bcast (length idx) vals with Some v => Some (add_at idx v a) | None => None end.

Definition zlen (a : list T) : Z := Z.of_nat (length a).

(* _assign_intersection(lhs_arr, rhs_arr, offset) *)
Definition assign_intersection (lhs rhs : list T) (off : Z) : option (list T) :=
  let '(ls, rs) := intersection_slices off (zlen lhs) (zlen rhs) in
  assign (slice_indices ls (length lhs)) (geti rhs (slice_indices rs (length rhs))) lhs.

Definition arange (a b : Z) : list T :=
  map (fun k => of_Z (a + Z.of_nat k)) (seq 0 (Z.to_nat (b - a))).
Fixpoint diff1 (l : list T) : list T :=
  match l with
  | a :: ((b :: _) as l') => (b - a) :: diff1 l'
  | _ => []
  end.

Definition obind {A B} (o : option A) (f : A -> option B) : option B :=
  match o with Some a => f a | None => None end.
Definition of_opt {A} (o : option A) : outcome A :=
  match o with Some a => Ok a | None => ValueErr end.

(* The per-axis body of _apply_padding on a 1-d array [lhs]; only the length
   [n_rhs] of the other array is used. *)
Definition apply_padding1 (m : pmode) (d : direction) (lhs : list T) (n_rhs : nat) (off : Z)
  : outcome (list T) :=
  let nl := zlen lhs in let nr := Z.of_nat n_rhs in
  if size_guard_before_skip && illegal_size m nr then ValueErr else
  if padding_skipped nl nr then Ok lhs else
  let pl := n_pad_l off nl nr in let pr := n_pad_r off nl nr in
  if illegal_size m nr || illegal_padlen m pl nr || illegal_padlen m pr nr then ValueErr else
  let n := length lhs in
  let '(so_l, so_r) := padding_slices_outer off nl nr in
  let '(si_l, si_r) := padding_slices_inner m off nl nr in
  let ol := slice_indices so_l n in let or_ := slice_indices so_r n in
  let il := slice_indices si_l n in let ir := slice_indices si_r n in
  match m with
  | PConstant => Ok lhs
  | PPeriodic | PSymmetric =>
      if is_fwd d then
        of_opt (obind (assign ol (geti lhs il) lhs) (fun l1 => assign or_ (geti l1 ir) l1))
      else
        of_opt (obind (addto il (geti lhs ol) lhs) (fun l1 => addto ir (geti l1 or_) l1))
  | POrder0 =>
      if is_fwd d then
        of_opt (obind (assign ol (geti lhs il) lhs) (fun l1 => assign or_ (geti l1 ir) l1))
      else
        of_opt (obind (addto il [sumf (geti lhs ol)] lhs)
                      (fun l1 => addto ir [sumf (geti l1 or_)] l1))
  | POrder1 =>
      let sl_l := Slice (s_start si_l) (option_map (fun v => (v + 1)%Z) (s_stop si_l)) 1 in
      let sl_r := Slice (option_map (fun v => (v - 1)%Z) (s_start si_r)) (s_stop si_r) 1 in
      let sli_l := slice_indices sl_l n in let sli_r := slice_indices sl_r n in
      let ar_l := arange (- pl) 0 in
      let ar_r := arange 1 (pr + 1) in
      if is_fwd d then
        let slope_l := diff1 (geti lhs sli_l) in
        let slope_r := diff1 (geti lhs sli_r) in
        of_opt (
          obind (bop nmul ar_l slope_l) (fun t_l =>
          obind (bop nadd (geti lhs il) t_l) (fun v_l =>
          obind (assign ol v_l lhs) (fun l1 =>
          obind (bop nmul ar_r slope_r) (fun t_r =>
          obind (bop nadd (geti l1 ir) t_r) (fun v_r =>
          assign or_ v_r l1))))))
      else
        of_opt (
          obind (addto il [sumf (geti lhs ol)] lhs) (fun l1 =>
          obind (addto ir [sumf (geti l1 or_)] l1) (fun l2 =>
          obind (bop nmul ar_l (geti l2 ol)) (fun w_l =>
          obind (bop nmul ar_r (geti l2 or_)) (fun w_r =>
          let m_l := sumf w_l in let m_r := sumf w_r in
          obind (addto sli_l [m_l * of_Z (-1); m_l * of_Z 1] l2) (fun l3 =>
          addto sli_r [m_r * of_Z (-1); m_r * of_Z 1] l3))))))
  end.

(* resize_array on a 1-d array.  [castable] is np.can_cast(pad_const, out.dtype). *)
Definition resize1_core (m : pmode) (d : direction) (c : T) (castable : bool)
           (arr : list T) (n_out : nat) (off : Z) : outcome (list T) :=
  let n_arr := length arr in
  if pmode_eqb m PConstant && negb castable && (n_arr <? n_out)%nat then ValueErr
  else if negb (is_fwd d) && pmode_eqb m PConstant && negb (c =? nzero) then ValueErr
  else
    let fillv := if is_fwd d && pmode_eqb m PConstant && negb (c =? nzero) then c else nzero in
    let out := repeat fillv n_out in
    if is_fwd d then
      match assign_intersection out arr off with
      | None => ValueErr
      | Some out1 => if padding_applies m then apply_padding1 m Forward out1 n_arr off else Ok out1
      end
    else if padding_applies m then
      match apply_padding1 m Adjoint arr n_out off with
      | ValueErr => ValueErr
      | Ok tmp => of_opt (assign_intersection out tmp off)
      end
    else of_opt (assign_intersection out arr off).

(* the offset validation loop (Gen.Padding.offset_invalid) comes first *)
Definition resize1 (m : pmode) (d : direction) (c : T) (castable : bool)
           (arr : list T) (n_out : nat) (off : Z) : outcome (list T) :=
  if offset_invalid (Z.of_nat (length arr)) (Z.of_nat n_out) off then ValueErr
  else resize1_core m d c castable arr n_out off.

(* ---------------- reference: the named rule as an index formula -------------
   [ext_ref m c x j] is the value at (signed) position j of the extension of x
   (length n) by rule m; positions 0 .. n-1 are x itself. *)
Definition nthZ (x : list T) (j : Z) : T := nth (Z.to_nat j) x nzero.
Definition ext_ref (m : pmode) (c : T) (x : list T) (j : Z) : T :=
  let n := zlen x in
  if ((0 <=? j) && (j <? n))%Z then nthZ x j else
  match m with
  | PConstant => c
  | PPeriodic => nthZ x (j mod n)
  | PSymmetric => if (j <? 0)%Z then nthZ x (- j) else nthZ x (2 * (n - 1) - j)
  | POrder0 => if (j <? 0)%Z then nthZ x 0 else nthZ x (n - 1)
  | POrder1 =>
      if (j <? 0)%Z then nthZ x 0 + of_Z j * (nthZ x 1 - nthZ x 0)
      else nthZ x (n - 1) + of_Z (j - (n - 1)) * (nthZ x (n - 1) - nthZ x (n - 2))
  end.
(* the resized array: entry i of the result is position i - off of the extension
   (growing) resp. entry i + off of the input (shrinking) *)
Definition resize_ref (m : pmode) (c : T) (x : list T) (n_out : nat) (off : Z) : list T :=
  if (length x <=? n_out)%nat
  then map (fun i => ext_ref m c x (Z.of_nat i - off)) (seq 0 n_out)
  else map (fun i => nthZ x (Z.of_nat i + off)) (seq 0 n_out).

(* which (size, offset, mode) combinations the code accepts in an axis of
   input length n and output length n_out *)
Definition offset_ok (n n_out : nat) (off : Z) : bool :=
  ((0 <=? off) && (off + Z.of_nat (Nat.min n n_out) <=? Z.of_nat (Nat.max n n_out)))%Z.
Definition pad_legal (m : pmode) (n n_out : nat) (off : Z) : bool :=
  if (n_out <=? n)%nat then true else
  let pl := off in let pr := (Z.of_nat n_out - Z.of_nat n - off)%Z in
  match m with
  | PConstant => true
  | PPeriodic => ((pl <=? Z.of_nat n) && (pr <=? Z.of_nat n))%Z
  | PSymmetric => ((pl <? Z.of_nat n) && (pr <? Z.of_nat n))%Z
  | POrder0 => (1 <=? n)%nat
  | POrder1 => (2 <=? n)%nat
  end.
End Model.
