(* C16/PLinear.v -- with pad_const = 0 the forward resize is linear in the array (R). *)
From Coq Require Import ZArith Reals Lia Lra List Bool.
From Verif Require Import Base.Num Base.Vec Base.VecR C16.Syntax Gen.Padding C16.Model C16.PMain2.
Import ListNotations.
Local Open Scope R_scope.

Lemma nth_vlin (a b : R) (x y : list R) k : length x = length y ->
  nth k (vlin a x b y) 0 = a * nth k x 0 + b * nth k y 0.
Proof.
  revert y k; induction x as [|u x IH]; intros [|v y] k Hl; cbn in Hl; try lia.
  - destruct k; cbn; lra.
  - destruct k as [|k]; unfold vlin in *; cbn [vmap2 nth]; [numR; lra | apply IH; lia].
Qed.
Lemma vlin_length (a b : R) (x y : list R) : length x = length y -> length (vlin a x b y) = length x.
Proof. intros Hl; unfold vlin; now apply vmap2_length. Qed.

Lemma ext_ref_linear m (a b : R) (x y : list R) j : length x = length y ->
  ext_ref m 0 (vlin a x b y) j = a * ext_ref m 0 x j + b * ext_ref m 0 y j.
Proof.
  intros Hl. unfold ext_ref, zlen, nthZ. rewrite vlin_length by exact Hl. rewrite <- Hl.
  destruct ((0 <=? j)%Z && (j <? Z.of_nat (length x))%Z); [apply nth_vlin; exact Hl|].
  destruct m; numR.
  - lra.
  - destruct (j <? 0)%Z; apply nth_vlin; exact Hl.
  - apply nth_vlin; exact Hl.
  - destruct (j <? 0)%Z; apply nth_vlin; exact Hl.
  - destruct (j <? 0)%Z; rewrite !nth_vlin by exact Hl; ring.
Qed.

Lemma vlin_map_seq (a b : R) (f g : nat -> R) s k :
  vlin a (map f (seq s k)) b (map g (seq s k)) = map (fun i => a * f i + b * g i) (seq s k).
Proof.
  revert s; induction k as [|k IH]; intros s; cbn [seq map]; [reflexivity|].
  unfold vlin in *. cbn [vmap2]. rewrite IH. reflexivity.
Qed.

(* the named rule with pad_const = 0 is linear in the array *)
Lemma resize_ref_linear m (a b : R) (x y : list R) n_out off : length x = length y ->
  resize_ref m 0 (vlin a x b y) n_out off
  = vlin a (resize_ref m 0 x n_out off) b (resize_ref m 0 y n_out off).
Proof.
  intros Hl. unfold resize_ref. rewrite vlin_length by exact Hl. rewrite <- Hl.
  destruct (length x <=? n_out)%nat; rewrite vlin_map_seq; apply map_ext; intros i.
  - apply ext_ref_linear; exact Hl.
  - unfold nthZ. apply nth_vlin; exact Hl.
Qed.

(* T1: every resizing variant except constant padding with c <> 0 is linear *)
Lemma resize_linear m (a b : R) (x y : list R) n_out off : length x = length y ->
  offset_ok (length x) n_out off = true -> pad_legal m (length x) n_out off = true ->
  exists rx ry, resize1 m Forward 0 true x n_out off = Ok rx /\
                resize1 m Forward 0 true y n_out off = Ok ry /\
                resize1 m Forward 0 true (vlin a x b y) n_out off = Ok (vlin a rx b ry).
Proof.
  intros Hl Hoff Hleg.
  exists (resize_ref m 0 x n_out off), (resize_ref m 0 y n_out off).
  split; [apply forward_is_ref; assumption|].
  split; [apply forward_is_ref; rewrite <- Hl; assumption|].
  rewrite forward_is_ref by (rewrite vlin_length by exact Hl; assumption).
  now rewrite resize_ref_linear by exact Hl.
Qed.
