(* C16/ModelOp.v -- odl/discr/discr_ops.py: the range constructed by
   ResizingOperator(domain, ran_shp=..., offset=...) (_resize_discr) and the
   offset recovered from two spaces (_offset_from_spaces), per axis.
   Executable definitions only. *)
From Coq Require Import ZArith List Bool.
From Verif Require Import Base.Num.
Import ListNotations.

Section Op.
Context {T : Type} `{Num T}.
Local Open Scope num_scope.

(* one axis of a uniform partition: interval, number of cells, nodes_on_bdry flags *)
Record axis := { a_min : T; a_max : T; a_n : Z; a_bl : bool; a_br : bool }.

(* uniform_grid_fromintv: the extremal grid points *)
Definition gmin (a : axis) : T :=
  let ext := a_max a - a_min a in
  if a_bl a then a_min a
  else if a_br a then a_min a + ext / of_Z (2 * a_n a - 1)
  else a_min a + ext / of_Z (2 * a_n a).
Definition gmax (a : axis) : T :=
  let ext := a_max a - a_min a in
  if a_br a then a_max a
  else if a_bl a then a_max a - ext / of_Z (2 * a_n a - 1)
  else a_max a - ext / of_Z (2 * a_n a).
(* RectPartition.cell_sides: the grid stride, or the extent for a single cell *)
Definition cell_side (a : axis) : T :=
  if (a_n a =? 1)%Z then a_max a - a_min a else (gmax a - gmin a) / of_Z (a_n a - 1).

(* _resize_discr: cells added on the left / right.  [fixed] selects the repaired
   sign convention for a restriction with an explicit offset (finding
   range-restrict-explicit-offset); the code as it stands is [fixed = false]. *)
Definition num_lr (fixed : bool) (n n_new : Z) (off : option Z) : Z * Z :=
  if (n_new =? n)%Z then (0, 0)%Z else
  let nd := (n_new - n)%Z in
  match off with
  | None => let r := (nd / 2)%Z in ((nd - r)%Z, r)
  | Some o => if fixed && (nd <? 0)%Z then ((- o)%Z, (nd + o)%Z) else (o, (nd - o)%Z)
  end.

Definition resize_axis (fixed : bool) (a : axis) (n_new : Z) (off : option Z) (bl br : bool) : axis :=
  let '(nl, nr) := num_lr fixed (a_n a) n_new off in
  let cs := cell_side a in
  let half := of_Z 1 / of_Z 2 in
  let new_min := if bl then gmin a - of_Z nl * cs else gmin a - (of_Z nl + half) * cs in
  let new_max := if br then gmax a + of_Z nr * cs else gmax a + (of_Z nr + half) * cs in
  {| a_min := new_min; a_max := new_max; a_n := n_new; a_bl := bl; a_br := br |}.

(* _offset_from_spaces, before rounding: |ran.grid.min - dom.grid.min| / dom.cell_sides *)
Definition offset_float (dom ran : axis) : T := nabs (gmin ran - gmin dom) / cell_side dom.
End Op.
