(* C16/ModelOp.v -- odl/discr/discr_ops.py: the range constructed by
   ResizingOperator(domain, ran_shp=..., offset=...) (_resize_discr) and the
   offset recovered from two spaces (_offset_from_spaces), per axis.
   Executable definitions only. *)
From Coq Require Import ZArith List Bool.
From Verif Require Import Base.Num Gen.ResizeDiscr.
Import ListNotations.

Section Op.
Context {T : Type} `{Num T}.
Local Open Scope num_scope.

(* one axis of a uniform partition: interval, number of cells, nodes_on_bdry flags *)
Record axis := { a_min : T; a_max : T; a_n : Z; a_bl : bool; a_br : bool }.

(* uniform_grid_fromintv: the extremal grid points *)
Definition gmin (a : axis) : T :=
  let ext := a_max a - a_min a in
  if a_bl a then a_min a
  else if a_br a then a_min a + ext / of_Z (2 * a_n a - 1)
  else a_min a + ext / of_Z (2 * a_n a).
Definition gmax (a : axis) : T :=
  let ext := a_max a - a_min a in
  if a_br a then a_max a
  else if a_bl a then a_max a - ext / of_Z (2 * a_n a - 1)
  else a_max a - ext / of_Z (2 * a_n a).
(* RectPartition.cell_sides: the grid stride, or the extent for a single cell *)
Definition cell_side (a : axis) : T :=
  if (a_n a =? 1)%Z then a_max a - a_min a else (gmax a - gmin a) / of_Z (a_n a - 1).

(* _resize_discr: [num_lr] (cells added on the left / right), [new_minpt], [new_maxpt] are
   REGENERATED from the source into Gen/ResizeDiscr.v *)
Definition resize_axis (a : axis) (n_new : Z) (off : option Z) (bl br : bool) : axis :=
  let '(nl, nr) := num_lr (a_n a) n_new off in
  let cs := cell_side a in
  {| a_min := new_minpt bl (gmin a) cs nl; a_max := new_maxpt br (gmax a) cs nr;
     a_n := n_new; a_bl := bl; a_br := br |}.

(* _offset_from_spaces, before rounding (Gen.ResizeDiscr.offset_float) *)
Definition offset_float_ax (dom ran : axis) : T :=
  offset_float (a_n dom <? a_n ran)%Z (gmin ran) (gmin dom) (cell_side dom).
End Op.
