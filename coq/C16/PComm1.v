(* C16/PComm1.v -- linear maps on lists are matrices; acting along the row index commutes with a linear map on rows (R). *)
From Coq Require Import ZArith Reals Lia Lra List Bool.
From Verif Require Import Base.Num Base.Vec Base.VecR Lib.Axis C16.PAdjoint C16.PAxis C16.PNd2 C16.PLinear C16.PNd3.
Import ListNotations.
Local Open Scope R_scope.

(* linear maps on lists of fixed length *)
Definition LinF (n n' : nat) (F : list R -> list R) : Prop :=
  (forall u, length u = n -> length (F u) = n') /\
  (forall a b u v, length u = n -> length v = n -> F (vlin a u b v) = vlin a (F u) b (F v)).

Lemma vlin_cons a b x y (u v : list R) : vlin a (x :: u) b (y :: v) = (a * x + b * y) :: vlin a u b v.
Proof. unfold vlin; cbn [vmap2]. numR. reflexivity. Qed.
Lemma vlin_00 (w : list R) : vlin 0 w 0 w = repeat 0 (length w).
Proof. induction w as [|x w IH]; [reflexivity|]. rewrite vlin_cons, IH. cbn [length repeat]. f_equal. lra. Qed.

Lemma lin_zero n n' F : LinF n n' F -> F (repeat 0 n) = repeat 0 n'.
Proof.
  intros [HL Hlin].
  assert (E : repeat 0 n = vlin 0 (repeat 0 n) 0 (repeat 0 n)) by (rewrite vlin_00, repeat_length; reflexivity).
  rewrite E at 1. rewrite Hlin by apply repeat_length. rewrite vlin_00, HL by apply repeat_length. reflexivity.
Qed.

Lemma cons_decomp a (w : list R) : a :: w = vlin a (1 :: repeat 0 (length w)) 1 (0 :: w).
Proof.
  rewrite vlin_cons. f_equal; [lra|].
  induction w as [|x w IH]; [reflexivity|]. cbn [length repeat]. rewrite vlin_cons, <- IH. f_equal; lra.
Qed.

Lemma lin_shift k n' F : LinF (S k) n' F -> LinF k n' (fun w => F (0 :: w)).
Proof.
  intros [HL Hlin]. split.
  - intros u Hu. apply HL. cbn; lia.
  - intros a b u v Hu Hv.
    replace (0 :: vlin a u b v) with (vlin a (0 :: u) b (0 :: v)) by (rewrite vlin_cons; f_equal; lra).
    apply Hlin; cbn; lia.
Qed.

Definition mvecR (M : list (list R)) (u : list R) : list R := map (fun r => dot r u) M.

Lemma mvecR_zipcons (v : list R) M' a w : length M' = length v ->
  mvecR (zipcons v M') (a :: w) = vlin a v 1 (mvecR M' w).
Proof.
  revert M'; induction v as [|x v IH]; intros [|r M'] Hl; cbn in Hl; try lia; [reflexivity|].
  cbn [zipcons]. unfold mvecR in *. cbn [map]. rewrite vlin_cons, IH by lia. rewrite dot_cons. f_equal. lra.
Qed.

(* every linear map is multiplication by a matrix *)
Lemma lin_repr n : forall n' F, LinF n n' F ->
  exists M, rect n' n M /\ forall u, length u = n -> F u = mvecR M u.
Proof.
  induction n as [|k IH]; intros n' F HF.
  - exists (repeat [] n'). split; [apply repeat_nil_rect|].
    intros [|x u] Hu; [|discriminate]. pose proof (lin_zero 0 n' F HF) as E. cbn [repeat] in E. rewrite E.
    unfold mvecR. clear. induction n'; cbn; [reflexivity|]. f_equal; auto.
  - destruct (IH n' _ (lin_shift k n' F HF)) as (M' & RM' & HM').
    destruct HF as [HL Hlin].
    set (v := F (1 :: repeat 0 k)).
    assert (Hv : length v = n') by (apply HL; cbn; rewrite repeat_length; lia).
    exists (zipcons v M'). split.
    + apply zipcons_rect; [exact Hv | exact RM'].
    + intros [|a w] Hu; [discriminate|]. cbn in Hu.
      rewrite mvecR_zipcons by (destruct RM'; lia).
      rewrite (cons_decomp a w) at 1.
      rewrite Hlin by (cbn; rewrite ?repeat_length; lia).
      replace (length w) with k by lia. fold v. rewrite HM' by lia. reflexivity.
Qed.

(* ---- the block action of a matrix, row by row ---- *)
Lemma zipcons_map2 {A B} (f : B -> A) (g : B -> list A) (M : list B) :
  zipcons (map f M) (map g M) = map (fun w => f w :: g w) M.
Proof. induction M as [|w M IH]; cbn; [reflexivity | now rewrite IH]. Qed.
Lemma map_const_nil {B} (M : list B) : map (fun _ => @nil R) M = repeat [] (length M).
Proof. induction M; cbn; [reflexivity | now f_equal]. Qed.

Lemma transp_mvec n' (M C : list (list R)) : length M = n' ->
  transp n' (map (mvecR M) C) = map (fun w => map (dot w) C) M.
Proof.
  intros HM. induction C as [|c C IH]; cbn [map transp].
  - now rewrite map_const_nil, HM.
  - rewrite IH. unfold mvecR. apply zipcons_map2.
Qed.

Lemma rowcomb_cons a (w r : list R) T : length T = length r ->
  map (dot (a :: w)) (zipcons r T) = vlin a r 1 (map (dot w) T).
Proof.
  revert T; induction r as [|x r IH]; intros [|t T] Hl; cbn in Hl; try lia; [reflexivity|].
  cbn [zipcons map]. rewrite vlin_cons, IH by lia. rewrite dot_cons. f_equal. lra.
Qed.
Lemma rowcomb_nil P : map (dot []) (repeat (@nil R) P) = repeat 0 P.
Proof. induction P; cbn; [reflexivity | now f_equal]. Qed.

(* a linear map on rows commutes with taking linear combinations of the rows *)
Lemma lin_rowcomb P P' S : LinF P P' S -> forall k rows w, rect k P rows -> length w = k ->
  S (map (dot w) (transp P rows)) = map (dot w) (transp P' (map S rows)).
Proof.
  intros HS. induction k as [|k IH]; intros rows w HR Hw.
  - destruct HR as [HR _]. destruct rows; [|discriminate]. destruct w; [|discriminate].
    cbn [map transp]. rewrite !rowcomb_nil. apply (lin_zero P P' S HS).
  - destruct rows as [|r rows]; [destruct HR; discriminate|]. destruct w as [|a w]; [discriminate|].
    apply rect_inv in HR as (k' & Ek & Hr & HR). injection Ek as <-. cbn in Hw.
    cbn [map transp].
    pose proof (transp_rect _ _ _ HR) as [HT _].
    assert (HR' : rect k P' (map S rows)) by (eapply map_rect; [apply HS | exact HR]).
    pose proof (transp_rect _ _ _ HR') as [HT' _].
    rewrite rowcomb_cons by lia. rewrite rowcomb_cons by (destruct HS as [HL _]; rewrite HL; lia).
    destruct HS as [HL Hlin].
    rewrite Hlin; [| exact Hr | rewrite map_length; exact HT].
    f_equal. apply IH; [exact HR | lia].
Qed.

Lemma along_block_ext n inner n' (F G : list R -> list R) blk :
  (forall u, length u = n -> F u = G u) -> length blk = (n * inner)%nat ->
  along_block n inner n' F blk = along_block n inner n' G blk.
Proof.
  intros H Hl. unfold along_block. f_equal. f_equal.
  apply (map_ext_rect inner n); [exact H|]. apply transp_rect, chunks_rect, Hl.
Qed.

(* K: acting with a linear F along the row index commutes with a linear map S applied to every row *)
Lemma along_block_rowmap n n' P P' F S rows :
  LinF n n' F -> LinF P P' S -> rect n P rows ->
  along_block n P' n' F (concat (map S rows))
  = concat (map S (chunks P n' (along_block n P n' F (concat rows)))).
Proof.
  intros HF HS HR.
  destruct (lin_repr n n' F HF) as (M & RM & HM).
  assert (HR' : rect n P' (map S rows)) by (eapply map_rect; [apply HS | exact HR]).
  rewrite (along_block_ext n P' n' F (mvecR M)) by (auto; rewrite (concat_rect_length _ _ _ HR'); lia).
  rewrite (along_block_ext n P n' F (mvecR M)) by (auto; rewrite (concat_rect_length _ _ _ HR); lia).
  unfold along_block.
  rewrite (chunks_concat _ _ _ HR'), (chunks_concat _ _ _ HR).
  destruct RM as [HMl HMf].
  rewrite !transp_mvec by exact HMl.
  rewrite chunks_concat.
  - f_equal. rewrite map_map. apply map_ext_in. intros w Hw.
    symmetry. apply (lin_rowcomb P P' S HS n); [exact HR|]. rewrite Forall_forall in HMf; auto.
  - split; [now rewrite map_length|]. apply Forall_forall. intros x Hx. apply in_map_iff in Hx as (w & <- & _).
    rewrite map_length. apply (transp_rect _ _ _ HR).
Qed.
