(* C16/Proofs.v -- lemmas about the model of resize_array (collects the P*.v files). *)
From Verif Require Export C16.PLists C16.PPatterns C16.PGather C16.PResize C16.PAdjoint C16.POrder
  C16.PResize2 C16.PAdjointAll C16.PMain C16.PRef C16.PMain2 C16.POp C16.PAxis C16.PNd C16.PNd2 C16.PExtra C16.PLinear C16.PNd3 C16.PComm1 C16.PComm2 C16.PComm3.
