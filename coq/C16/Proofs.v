(* C16/Proofs.v -- lemmas about the model of resize_array. *)
From Coq Require Import ZArith Reals Lia Lra List Bool.
From Verif Require Import Base.Num Base.Vec Base.VecR C16.Syntax Gen.Padding C16.Model.
Import ListNotations.
