(* C16/Syntax.v -- the syntax the translator of odl/util/numerics.py
   (_intersection_slice_tuples, _padding_slices_outer/_inner, the legality
   checks of _apply_padding) emits into Gen/Padding.v (hand-written, fixed). *)
From Coq Require Import ZArith List.
Import ListNotations.

(* _SUPPORTED_RESIZE_PAD_MODES *)
Inductive pmode := PConstant | PSymmetric | PPeriodic | POrder0 | POrder1.
Inductive direction := Forward | Adjoint.

(* a Python slice object  slice(start, stop, step)  with step = +1 / -1;
   None is the missing bound *)
Record pslice := Slice { s_start : option Z; s_stop : option Z; s_step : Z }.

Definition all_pmodes := [PConstant; PSymmetric; PPeriodic; POrder0; POrder1].

Definition pmode_eqb (a b : pmode) : bool :=
  match a, b with
  | PConstant, PConstant | PSymmetric, PSymmetric | PPeriodic, PPeriodic
  | POrder0, POrder0 | POrder1, POrder1 => true
  | _, _ => false
  end.
