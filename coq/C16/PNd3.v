(* C16/PNd3.v -- resize1 always returns the requested length; with at most one resized axis the axis order is immaterial. *)
From Coq Require Import ZArith Reals Lia Lra List Bool.
From Verif Require Import Base.Num Base.Vec Base.VecR Lib.Axis C16.Syntax Gen.Padding C16.Model C16.ModelNd
  C16.PLists C16.PAdjointAll C16.PMain C16.PMain2 C16.PAxis C16.PNd C16.PNd2.
Import ListNotations.
Local Open Scope R_scope.

Lemma map_ext_rect {A} r c (F G : list A -> list A) M :
  (forall u, length u = c -> F u = G u) -> rect r c M -> map F M = map G M.
Proof.
  intros HF [_ Hf]. apply map_ext_in; intros u Hu. apply HF. rewrite Forall_forall in Hf; auto.
Qed.

Lemma along_id (outer n inner : nat) (F : list R -> list R) x :
  (forall u, length u = n -> F u = u) -> length x = (outer * (n * inner))%nat ->
  along outer n inner n F x = x.
Proof.
  intros HF Hl. unfold along.
  set (X := chunks (n * inner) outer x).
  assert (RX : rect outer (n * inner) X) by (apply chunks_rect; exact Hl).
  rewrite (map_ext_rect outer (n * inner) _ (fun u => u)); [|  | exact RX].
  - rewrite map_id. unfold X. apply concat_chunks; exact Hl.
  - intros blk Hb. unfold along_block.
    set (B := chunks inner n blk).
    assert (RB : rect n inner B) by (apply chunks_rect; exact Hb).
    assert (RBt : rect inner n (transp inner B)) by (apply transp_rect; exact RB).
    rewrite (map_ext_rect inner n F (fun u => u)) by auto. rewrite map_id.
    rewrite (transp_transp _ _ _ RB). unfold B. apply concat_chunks; exact Hb.
Qed.

Lemma resize1_tot_id m d (u : list R) : resize1_tot m d 0 true (length u) 0 u = u.
Proof. unfold resize1_tot. now rewrite resize1_same by (intros; reflexivity). Qed.

(* ---- resize1 always returns an array of the requested length ---- *)
Lemma assign_len (idx : list nat) (v l l' : list R) : assign idx v l = Some l' -> length l' = length l.
Proof. unfold assign. destruct (bcast _ _); intros E; inversion E; apply set_at_length. Qed.
Lemma addto_len (idx : list nat) (v l l' : list R) : addto idx v l = Some l' -> length l' = length l.
Proof. unfold addto. destruct (bcast _ _); intros E; inversion E; apply add_at_length. Qed.

Ltac len_chain :=
  repeat match goal with
  | H : obind ?o _ = Some _ |- _ => let E := fresh "E" in destruct o eqn:E; cbn [obind] in H; [|discriminate H]
  | H : assign _ _ _ = Some _ |- _ => apply assign_len in H
  | H : addto _ _ _ = Some _ |- _ => apply addto_len in H
  end.

Lemma ap1_length m d (lhs : list R) n_rhs off r :
  apply_padding1 m d lhs n_rhs off = Ok r -> length r = length lhs.
Proof.
  unfold apply_padding1. change size_guard_before_skip with false; cbn [andb].
  match goal with |- (if ?b then _ else _) = _ -> _ => destruct b; [intros E; now inversion E|] end.
  cbv zeta. match goal with |- (if ?b then _ else _) = _ -> _ => destruct b; [discriminate|] end.
  destruct (padding_slices_outer _ _ _) as [so_l so_r].
  destruct (padding_slices_inner _ _ _ _) as [si_l si_r].
  destruct m; try (intros E; now inversion E); destruct (is_fwd d);
    unfold of_opt; match goal with |- match ?o with _ => _ end = _ -> _ => destruct o eqn:EO end;
    intros E; inversion E; subst; len_chain; congruence.
Qed.

Lemma assign_intersection_len (lhs rhs l' : list R) off :
  assign_intersection lhs rhs off = Some l' -> length l' = length lhs.
Proof.
  unfold assign_intersection. destruct (intersection_slices _ _ _) as [ls rs]. apply assign_len.
Qed.

Lemma resize1_length m d (c : R) cast arr n_out off r :
  resize1 m d c cast arr n_out off = Ok r -> length r = n_out.
Proof.
  unfold resize1. destruct (offset_invalid _ _ _); [discriminate|]. unfold resize1_core.
  match goal with |- (if ?b then _ else _) = _ -> _ => destruct b; [discriminate|] end.
  match goal with |- (if ?b then _ else _) = _ -> _ => destruct b; [discriminate|] end.
  cbv zeta. match goal with |- context [repeat ?f n_out] => set (fillv := f) end.
  destruct (is_fwd d).
  - destruct (assign_intersection _ _ _) as [out1|] eqn:E1; [|discriminate].
    apply assign_intersection_len in E1. rewrite repeat_length in E1.
    destruct (padding_applies m); intros E.
    + apply ap1_length in E. congruence.
    + inversion E; congruence.
  - destruct (padding_applies m).
    + destruct (apply_padding1 _ _ _ _ _) as [tmp|]; [|discriminate].
      unfold of_opt. destruct (assign_intersection _ _ _) as [l'|] eqn:E1; intros E; inversion E; subst.
      apply assign_intersection_len in E1. now rewrite repeat_length in E1.
    + unfold of_opt. destruct (assign_intersection _ _ _) as [l'|] eqn:E1; intros E; inversion E; subst.
      apply assign_intersection_len in E1. now rewrite repeat_length in E1.
Qed.

Lemma resize1_tot_length m d (c : R) cast n_out off u : length (resize1_tot m d c cast n_out off u) = n_out.
Proof.
  unfold resize1_tot. destruct (resize1 _ _ _ _ _ _ _) eqn:E; [eapply resize1_length; eauto | apply repeat_length].
Qed.

Lemma sep_loop_length m d (c : R) cast outer ish osh offs (x : list R) :
  length ish = length osh -> length ish = length offs ->
  length x = (outer * prodn ish)%nat ->
  length (sep_loop m d c cast outer ish osh offs x) = (outer * prodn osh)%nat.
Proof.
  revert outer osh offs x; induction ish as [|n ish IH]; intros outer [|n' osh] [|off offs] x H1 H2 Hx;
    cbn in H1, H2; try discriminate; cbn [sep_loop]; auto.
  cbn [prodn fold_right] in *. fold (prodn ish) in Hx. fold (prodn osh).
  rewrite IH; auto; try lia.
  rewrite along_length with (n' := n'); [lia | intros; apply resize1_tot_length | lia].
Qed.

(* every axis unchanged *)
Fixpoint all_id (ish osh : list nat) (offs : list Z) : bool :=
  match ish, osh, offs with
  | n :: i', n' :: o', off :: f' => (n =? n')%nat && (off =? 0)%Z && all_id i' o' f'
  | [], [], [] => true
  | _, _, _ => false
  end.
(* at most one axis is resized (ResizingOperator restricted to one axis) *)
Fixpoint at_most_one (ish osh : list nat) (offs : list Z) : bool :=
  match ish, osh, offs with
  | n :: i', n' :: o', off :: f' =>
      if (n =? n')%nat && (off =? 0)%Z then at_most_one i' o' f' else all_id i' o' f'
  | [], [], [] => true
  | _, _, _ => false
  end.

Lemma all_id_eq ish osh offs : all_id ish osh offs = true -> ish = osh.
Proof.
  revert osh offs; induction ish as [|n ish IH]; intros [|n' osh] [|off offs] H; cbn in H; try discriminate; auto.
  apply andb_true_iff in H as [H Hr]. apply andb_true_iff in H as [H1 _]. apply Nat.eqb_eq in H1.
  f_equal; eauto.
Qed.

Lemma sep_loop_all_id m d outer ish osh offs (x : list R) :
  all_id ish osh offs = true -> length x = (outer * prodn ish)%nat ->
  sep_loop m d 0 true outer ish osh offs x = x.
Proof.
  revert outer osh offs x; induction ish as [|n ish IH]; intros outer [|n' osh] [|off offs] x H Hx;
    cbn in H; try discriminate; cbn [sep_loop]; auto.
  apply andb_true_iff in H as [H Hr]. apply andb_true_iff in H as [H1 H2].
  apply Nat.eqb_eq in H1. apply Z.eqb_eq in H2. subst n' off.
  cbn [prodn fold_right] in Hx. fold (prodn ish) in Hx.
  rewrite along_id; [apply IH; auto; lia | | lia].
  intros u Hu. rewrite <- Hu. apply resize1_tot_id.
Qed.
Lemma sep_rev_all_id m d outer ish osh offs (y : list R) :
  all_id ish osh offs = true -> length y = (outer * prodn osh)%nat ->
  sep_rev_loop m d 0 true outer ish osh offs y = y.
Proof.
  revert outer osh offs y; induction ish as [|n ish IH]; intros outer [|n' osh] [|off offs] y H Hy;
    cbn in H; try discriminate; cbn [sep_rev_loop]; auto.
  pose proof (all_id_eq (n :: ish) (n' :: osh) (off :: offs) H) as E. injection E as -> ->.
  apply andb_true_iff in H as [H Hr]. apply andb_true_iff in H as [_ H2]. apply Z.eqb_eq in H2. subst off.
  cbn [prodn fold_right] in Hy. fold (prodn osh) in Hy.
  rewrite IH by (auto; lia).
  apply along_id; [|lia]. intros u Hu. rewrite <- Hu. apply resize1_tot_id.
Qed.

Lemma all_id_len ish osh offs : all_id ish osh offs = true -> length ish = length osh /\ length ish = length offs.
Proof.
  revert osh offs; induction ish as [|n ish IH]; intros [|n' osh] [|off offs] H; cbn in H; try discriminate; auto.
  apply andb_true_iff in H as [_ Hr]. destruct (IH _ _ Hr); cbn; split; lia.
Qed.
Lemma at_most_one_len ish osh offs : at_most_one ish osh offs = true ->
  length ish = length osh /\ length ish = length offs.
Proof.
  revert osh offs; induction ish as [|n ish IH]; intros [|n' osh] [|off offs] H; cbn in H; try discriminate; auto.
  destruct ((n =? n')%nat && (off =? 0)%Z).
  - destruct (IH _ _ H); cbn; split; lia.
  - destruct (all_id_len _ _ _ H); cbn; split; lia.
Qed.

(* with at most one resized axis the axis order is immaterial: the way back in the
   opposite order equals the way back in the code's order (axis 0 first) *)
Lemma sep_rev_is_sep m d outer ish osh offs (y : list R) :
  at_most_one ish osh offs = true -> length y = (outer * prodn osh)%nat ->
  sep_rev_loop m d 0 true outer ish osh offs y = sep_loop m d 0 true outer osh ish offs y.
Proof.
  revert outer osh offs y; induction ish as [|n ish IH]; intros outer [|n' osh] [|off offs] y H Hy;
    cbn in H; try discriminate; cbn [sep_loop sep_rev_loop]; auto.
  cbn [prodn fold_right] in Hy. fold (prodn osh) in Hy.
  destruct ((n =? n')%nat && (off =? 0)%Z) eqn:E.
  - apply andb_true_iff in E as [H1 H2]. apply Nat.eqb_eq in H1. apply Z.eqb_eq in H2. subst n' off.
    destruct (at_most_one_len _ _ _ H) as [L1 L2].
    rewrite IH by (auto; lia).
    assert (Hid : forall u : list R, length u = n -> resize1_tot m d 0 true n 0 u = u)
      by (intros u Hu; rewrite <- Hu; apply resize1_tot_id).
    rewrite (along_id outer n (prodn osh)) by (auto; lia).
    apply along_id; [exact Hid|].
    rewrite sep_loop_length; auto; lia.
  - destruct (all_id_len _ _ _ H) as [L1 L2].
    pose proof (all_id_eq _ _ _ H) as ->.
    rewrite sep_rev_all_id by (auto; lia).
    rewrite sep_loop_all_id; [reflexivity | exact H | ].
    rewrite along_length with (n' := n); [lia | intros; apply resize1_tot_length | lia].
Qed.

(* hence, for operators that resize a single axis of an N-d array (any position),
   the adjoint identity and crop-after-extend hold in the code's own axis order *)
Lemma sep_adjoint_single_axis m outer ish osh offs (x y : list R) :
  config_ok m ish osh offs = true -> at_most_one ish osh offs = true ->
  length x = (outer * prodn ish)%nat -> length y = (outer * prodn osh)%nat ->
  dot (sep_loop m Forward 0 true outer ish osh offs x) y
  = dot x (sep_loop m Adjoint 0 true outer osh ish offs y).
Proof.
  intros Hc H1 Hx Hy. rewrite <- (sep_rev_is_sep m Adjoint outer ish osh offs y) by assumption.
  apply sep_adjoint; assumption.
Qed.
Lemma sep_crop_extend_single_axis m m' outer ish osh offs (x : list R) :
  config_ok m ish osh offs = true -> all_grow ish osh = true -> at_most_one ish osh offs = true ->
  length x = (outer * prodn ish)%nat ->
  sep_loop m' Forward 0 true outer osh ish offs (sep_loop m Forward 0 true outer ish osh offs x) = x.
Proof.
  intros Hc Hg H1 Hx. destruct (at_most_one_len _ _ _ H1) as [L1 L2].
  rewrite <- (sep_rev_is_sep m' Forward outer ish osh offs); [apply sep_crop_extend; assumption | assumption |].
  apply sep_loop_length; auto.
Qed.

(* ---- the size guard of a mode is consulted only for axes that are extended ---- *)
Lemma ap_axis_skipped m d shape W ax n_rhs off (lhs : list R) :
  (nth ax shape 0 <= n_rhs)%nat -> ap_axis m d shape W ax n_rhs off lhs = Ok lhs.
Proof.
  intros Hle. unfold ap_axis. change size_guard_before_skip with false; cbn [andb].
  unfold padding_skipped. destruct (Z.leb_spec (Z.of_nat (nth ax shape 0%nat)) (Z.of_nat n_rhs)); [reflexivity | lia].
Qed.

Lemma pad_legal_nonext m n n_out off : (n_out <= n)%nat -> pad_legal m n n_out off = true.
Proof. intros H. unfold pad_legal. destruct (Nat.leb_spec n_out n); [reflexivity | lia]. Qed.

Lemma nonextended_never_rejected m (c : R) (x : list R) n_out off :
  (n_out <= length x)%nat -> offset_ok (length x) n_out off = true ->
  (exists r, resize1 m Forward c true x n_out off = Ok r /\ length r = n_out) /\
  (forall y : list R, length y = n_out ->
     exists ay, resize1 m Adjoint 0 true y (length x) off = Ok ay /\ length ay = length x).
Proof.
  intros Hle Hoff. split.
  - exists (resize_ref m c x n_out off).
    assert (E : resize1 m Forward c true x n_out off = Ok (resize_ref m c x n_out off))
      by (apply forward_is_ref; [exact Hoff | apply pad_legal_nonext; exact Hle]).
    split; [exact E | eapply resize1_length; exact E].
  - intros y Hy. subst n_out.
    destruct (adjoint_all m x y off Hoff (pad_legal_nonext m _ _ off Hle)) as (fx & ay & _ & Ha & _ & Hl & _).
    exists ay. split; assumption.
Qed.
