(* C16/PExtra.v -- weighted adjoint identity; constant padding is affine with zero padding as linear part. *)
From Coq Require Import ZArith Reals Lia Lra List Bool.
From Verif Require Import Base.Num Base.Vec Base.VecR C16.Syntax Gen.Padding C16.Model
  C16.PLists C16.PPatterns C16.PGather C16.PResize C16.PAdjoint C16.POrder C16.PResize2 C16.PAdjointAll
  C16.PMain C16.PRef C16.PMain2.
Import ListNotations.
Local Open Scope R_scope.

(* the adjoint identity in the constant-weighted inner products  w * <.,.>  of a
   uniformly discretized domain and the range built from it (same cell volume w) *)
Lemma adjoint_weighted (w : R) m (x y : list R) off :
  offset_ok (length x) (length y) off = true ->
  pad_legal m (length x) (length y) off = true ->
  exists fx ay,
    resize1 m Forward 0 true x (length y) off = Ok fx /\
    resize1 m Adjoint 0 true y (length x) off = Ok ay /\
    cdot w fx y = cdot w x ay.
Proof.
  intros Hoff Hleg. destruct (adjoint_all m x y off Hoff Hleg) as (fx & ay & H1 & H2 & _ & _ & H3).
  exists fx, ay. repeat split; auto. unfold cdot. numR. now rewrite H3.
Qed.

(* constant padding with c <> 0 is affine: its linear part is zero padding *)
Lemma ext_ref_const_affine (c : R) (x h : list R) j : length x = length h ->
  ext_ref PConstant c (vadd x h) j - ext_ref PConstant c x j = ext_ref PConstant 0 h j.
Proof.
  intros Hl. unfold ext_ref, zlen. unfold vadd. rewrite vmap2_length by exact Hl. rewrite <- Hl.
  destruct ((0 <=? j)%Z && (j <? Z.of_nat (length x))%Z) eqn:E; [|lra].
  apply andb_true_iff in E as [E1 E2]. apply Z.leb_le in E1. apply Z.ltb_lt in E2.
  unfold nthZ. assert (Hj : (Z.to_nat j < length x)%nat) by lia.
  clear E1 E2. revert Hj. generalize (Z.to_nat j) as k. clear j.
  revert h Hl. induction x as [|a x IH]; intros [|b h] Hl k Hk; cbn in Hl, Hk; try lia.
  destruct k as [|k]; cbn [vmap2 nth]; [numR; lra|]. apply IH; lia.
Qed.

Lemma vsub_map_seq (f g : nat -> R) s k :
  vsub (map f (seq s k)) (map g (seq s k)) = map (fun i => f i - g i) (seq s k).
Proof.
  revert s; induction k as [|k IH]; intros s; cbn [seq map]; [reflexivity|].
  unfold vsub in *. cbn [vmap2]. rewrite IH. reflexivity.
Qed.

Lemma const_affine (c : R) (x h : list R) n_out off : length x = length h ->
  vsub (resize_ref PConstant c (vadd x h) n_out off) (resize_ref PConstant c x n_out off)
  = resize_ref PConstant 0 h n_out off.
Proof.
  intros Hl. unfold resize_ref. unfold vadd at 1. rewrite vmap2_length by exact Hl. rewrite <- Hl.
  destruct (length x <=? n_out)%nat.
  - rewrite vsub_map_seq. apply map_ext; intros i. apply ext_ref_const_affine; exact Hl.
  - rewrite vsub_map_seq. apply map_ext; intros i. unfold nthZ.
    generalize (Z.to_nat (Z.of_nat i + off)) as k. clear i.
    revert h Hl. induction x as [|a x IH]; intros [|b h] Hl k; cbn in Hl; try lia.
    + destruct k; cbn; numR; lra.
    + destruct k as [|k]; cbn [vadd vmap2 nth]; [numR; lra|]. apply IH; lia.
Qed.

(* offsets outside 0 .. |n_out - n| are rejected whatever the mode, direction and contents
   (the validation loop regenerated into Gen.Padding.offset_invalid); was finding
   offset-out-of-range-accepted, repaired in /repo by 675e308 *)
Lemma offset_invalid_iff n n_out off :
  offset_invalid (Z.of_nat n) (Z.of_nat n_out) off = negb (Nat.eqb n n_out) && negb (offset_ok n n_out off).
Proof.
  unfold offset_invalid, offset_ok.
  destruct (Z.eqb_spec (Z.of_nat n) (Z.of_nat n_out)) as [E|E]; destruct (Nat.eqb_spec n n_out) as [E'|E']; try lia;
    cbn [negb andb]; try reflexivity.
  f_equal. destruct (Z.leb_spec 0 off); cbn [andb]; [|reflexivity].
  destruct (Z.leb_spec off (Z.abs (Z.of_nat n_out - Z.of_nat n)));
    destruct (Z.leb_spec (off + Z.of_nat (Nat.min n n_out)) (Z.of_nat (Nat.max n n_out))); try reflexivity; lia.
Qed.

Lemma offset_out_of_range_rejected m d (c : R) cast (arr : list R) n_out off :
  length arr <> n_out -> offset_ok (length arr) n_out off = false ->
  resize1 m d c cast arr n_out off = ValueErr.
Proof.
  intros Hne Hoff. unfold resize1. rewrite offset_invalid_iff, Hoff.
  destruct (Nat.eqb_spec (length arr) n_out); [contradiction|]. reflexivity.
Qed.
