(* C16/PComm3.v -- the line maps are linear (forward: by the named rule; adjoint: as transposes); N-d theorems in the code axis order. *)
From Coq Require Import ZArith Reals Lia Lra List Bool.
From Verif Require Import Base.Num Base.Vec Base.VecR Lib.Axis C16.Syntax Gen.Padding C16.Model C16.ModelNd
  C16.PAdjoint C16.PAdjointAll C16.PMain C16.PMain2 C16.PAxis C16.PNd C16.PNd2 C16.PNd3 C16.PLinear C16.PComm1 C16.PComm2.
Import ListNotations.
Local Open Scope R_scope.

Lemma dot_vlin_r (a b : R) (x v w : list R) : length x = length v -> length x = length w ->
  dot x (vlin a v b w) = a * dot x v + b * dot x w.
Proof.
  revert v w; induction x as [|p x IH]; intros [|q v] [|r w] H1 H2; cbn in H1, H2; try lia.
  - unfold vlin; cbn [vmap2]. rewrite !dot_nil_l. lra.
  - rewrite vlin_cons, !dot_cons, IH by lia. lra.
Qed.

(* <u, p> = <u, q> for all u  =>  p = q *)
Lemma dot_nondeg n : forall p q : list R, length p = n -> length q = n ->
  (forall u, length u = n -> dot u p = dot u q) -> p = q.
Proof.
  induction n as [|n IH]; intros [|a p] [|b q] Hp Hq H; cbn in Hp, Hq; try lia; [reflexivity|].
  f_equal.
  - specialize (H (1 :: repeat 0 n) ltac:(cbn; rewrite repeat_length; lia)).
    rewrite !dot_cons, !dot_repeat0_l in H. lra.
  - apply IH; try lia. intros u Hu. specialize (H (0 :: u) ltac:(cbn; lia)).
    rewrite !dot_cons in H. lra.
Qed.

(* the transpose of a linear map is linear *)
Lemma transpose_LinF n n' F G : LinF n n' F ->
  (forall v, length v = n' -> length (G v) = n) ->
  (forall u v, length u = n -> length v = n' -> dot (F u) v = dot u (G v)) ->
  LinF n' n G.
Proof.
  intros [HL Hlin] HG Hadj. split; [exact HG|].
  intros a b v w Hv Hw. apply (dot_nondeg n).
  - apply HG. rewrite vlin_length; auto. congruence.
  - rewrite vlin_length; rewrite !HG; auto.
  - intros u Hu. rewrite <- Hadj; [| exact Hu | rewrite vlin_length; congruence].
    rewrite dot_vlin_r by (rewrite ?HL, ?HG; auto; congruence).
    rewrite dot_vlin_r by (rewrite ?HL, ?HG; auto; congruence).
    now rewrite !Hadj by assumption.
Qed.

Lemma fwd_line_LinF m n n' off : offset_ok n n' off = true -> pad_legal m n n' off = true ->
  LinF n n' (resize1_tot m Forward 0 true n' off).
Proof.
  intros Hoff Hleg. split; [intros; apply resize1_tot_length|].
  intros a b u v Hu Hv. unfold resize1_tot.
  destruct (resize_linear m a b u v n' off ltac:(congruence) ltac:(now rewrite Hu) ltac:(now rewrite Hu))
    as (rx & ry & -> & -> & ->). reflexivity.
Qed.
Lemma adj_line_LinF m n n' off : offset_ok n n' off = true -> pad_legal m n n' off = true ->
  LinF n' n (resize1_tot m Adjoint 0 true n off).
Proof.
  intros Hoff Hleg. destruct (line_facts m n n' off Hoff Hleg) as (HF & HG & Hadj).
  eapply transpose_LinF; [apply fwd_line_LinF; eassumption | exact HG | exact Hadj].
Qed.

Lemma offset_ok_sym n n' off : offset_ok n' n off = offset_ok n n' off.
Proof. unfold offset_ok. now rewrite Nat.min_comm, Nat.max_comm. Qed.

(* forward maps of any admissible configuration are linear; so are the adjoint maps of the way back *)
Lemma lines_lin_fwd m : forall ish osh offs, config_ok m ish osh offs = true ->
  lines_lin m Forward ish osh offs.
Proof.
  induction ish as [|n ish IH]; intros [|n' osh] [|off offs] H; cbn [config_ok] in H; try discriminate; cbn [lines_lin]; auto.
  apply andb_true_iff in H as [H Hr]. apply andb_true_iff in H as [Hoff Hleg].
  split; [apply fwd_line_LinF; assumption | apply IH; assumption].
Qed.
Lemma lines_lin_adj m : forall ish osh offs, config_ok m ish osh offs = true ->
  lines_lin m Adjoint osh ish offs.
Proof.
  induction ish as [|n ish IH]; intros [|n' osh] [|off offs] H; cbn [config_ok] in H; try discriminate; cbn [lines_lin]; auto.
  apply andb_true_iff in H as [H Hr]. apply andb_true_iff in H as [Hoff Hleg].
  split; [apply adj_line_LinF; assumption | apply IH; assumption].
Qed.
(* cropping back: forward maps osh -> ish, legal whenever every axis shrinks (or stays) *)
Lemma lines_lin_crop m' : forall ish osh offs, config_ok PConstant ish osh offs = true -> all_grow ish osh = true ->
  lines_lin m' Forward osh ish offs.
Proof.
  induction ish as [|n ish IH]; intros [|n' osh] [|off offs] H Hg; cbn [config_ok] in H; try discriminate; cbn [lines_lin]; auto.
  apply andb_true_iff in H as [H Hr]. apply andb_true_iff in H as [Hoff _].
  cbn [all_grow] in Hg. apply andb_true_iff in Hg as [Hle Hg]. apply Nat.leb_le in Hle.
  split; [|apply IH; assumption].
  apply fwd_line_LinF; [now rewrite offset_ok_sym|].
  unfold pad_legal. destruct (Nat.leb_spec n n'); [reflexivity | lia].
Qed.

Lemma config_ok_const m : forall ish osh offs, config_ok m ish osh offs = true -> config_ok PConstant ish osh offs = true.
Proof.
  induction ish as [|n ish IH]; intros [|n' osh] [|off offs] H; cbn [config_ok] in *; try discriminate; auto.
  apply andb_true_iff in H as [H Hr]. apply andb_true_iff in H as [Hoff _].
  rewrite Hoff, (IH _ _ Hr). unfold pad_legal. destruct (n' <=? n)%nat; reflexivity.
Qed.

(* T1 (N-d, the code's own axis order in both directions, any number of resized axes) *)
Lemma sep_adjoint_code_order m outer ish osh offs (x y : list R) :
  config_ok m ish osh offs = true ->
  length x = (outer * prodn ish)%nat -> length y = (outer * prodn osh)%nat ->
  dot (sep_loop m Forward 0 true outer ish osh offs x) y
  = dot x (sep_loop m Adjoint 0 true outer osh ish offs y).
Proof.
  intros Hc Hx Hy. rewrite <- (sep_rev_eq_sep m Adjoint ish osh offs outer y) by (auto using lines_lin_adj).
  apply sep_adjoint; assumption.
Qed.

Lemma config_lengths m : forall ish osh offs, config_ok m ish osh offs = true ->
  length ish = length osh /\ length ish = length offs.
Proof.
  induction ish as [|n ish IH]; intros [|n' osh] [|off offs] H; cbn [config_ok] in H; try discriminate; auto.
  apply andb_true_iff in H as [_ Hr]. destruct (IH _ _ Hr). cbn; split; lia.
Qed.

Lemma sep_crop_extend_code_order m m' outer ish osh offs (x : list R) :
  config_ok m ish osh offs = true -> all_grow ish osh = true ->
  length x = (outer * prodn ish)%nat ->
  sep_loop m' Forward 0 true outer osh ish offs (sep_loop m Forward 0 true outer ish osh offs x) = x.
Proof.
  intros Hc Hg Hx. destruct (config_lengths _ _ _ _ Hc) as [L1 L2].
  rewrite <- (sep_rev_eq_sep m' Forward ish osh offs outer).
  - apply sep_crop_extend; assumption.
  - apply lines_lin_crop; [eapply config_ok_const; eassumption | assumption].
  - apply sep_loop_length; auto.
Qed.
