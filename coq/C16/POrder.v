(* C16/POrder.v -- _apply_padding for order0 / order1 on A ++ B ++ C, both directions. *)
From Coq Require Import ZArith Reals Lia Lra List Bool.
From Verif Require Import Base.Num Base.Vec C16.Syntax Gen.Padding C16.Model
  C16.PLists C16.PPatterns C16.PGather C16.PResize.
Import ListNotations.
Section Order.
Context {T : Type} `{Num T}.
Local Open Scope num_scope.

Lemma bcast_single k (v : T) : bcast k [v] = Some (repeat v k).
Proof. unfold bcast; cbn [length]. destruct (Nat.eqb_spec 1 k) as [<-|]; reflexivity. Qed.
Lemma bop_r1 f (a : list T) y : bop f a [y] = Some (map (fun x => f x y) a).
Proof. destruct a as [|a0 [|a1 a']]; reflexivity. Qed.
Lemma bop_l1 f x (b : list T) : bop f [x] b = Some (map (f x) b).
Proof. destruct b as [|b0 [|b1 b']]; reflexivity. Qed.
Lemma bop_eq f (a b : list T) : length a = length b -> bop f a b = Some (vmap2 f a b).
Proof. intros E; unfold bop; now rewrite E, Nat.eqb_refl. Qed.

Lemma geti_mid1 (A B C : list T) j : (j < length B)%nat ->
  geti (A ++ B ++ C) [(length A + j)%nat] = [nth j B nzero].
Proof.
  intros Hj. pose proof (geti_mid A B C [j]) as E. cbn [map] in E. apply E.
  constructor; [exact Hj | constructor].
Qed.
Lemma geti_mid2 (A B C : list T) j k : (j < length B)%nat -> (k < length B)%nat ->
  geti (A ++ B ++ C) [(length A + j)%nat; (length A + k)%nat] = [nth j B nzero; nth k B nzero].
Proof.
  intros Hj Hk. pose proof (geti_mid A B C [j; k]) as E. cbn [map] in E. apply E.
  repeat constructor; assumption.
Qed.

(* assign a broadcast value / a full-length value to the left and right outer parts *)
Lemma assign_left (A R v : list T) : length v = length A ->
  assign (seq 0 (length A)) v (A ++ R) = Some (v ++ R).
Proof.
  intros Hl. pose proof (assign_seq [] v R A) as E. cbn [length app] in E. apply E. auto.
Qed.
Lemma assign_right (P C v : list T) : length v = length C ->
  assign (seq (length P) (length C)) v (P ++ C) = Some (P ++ v).
Proof.
  intros Hl. pose proof (assign_seq P v [] C) as E. rewrite !app_nil_r in E. apply E. auto.
Qed.
Lemma assign_left1 (A R : list T) v :
  assign (seq 0 (length A)) [v] (A ++ R) = Some (repeat v (length A) ++ R).
Proof.
  unfold assign. rewrite seq_length, bcast_single.
  pose proof (set_at_seq [] (repeat v (length A)) R A) as E. cbn [length app] in E.
  rewrite repeat_length in E. rewrite E by reflexivity. reflexivity.
Qed.
Lemma assign_right1 (P C : list T) v :
  assign (seq (length P) (length C)) [v] (P ++ C) = Some (P ++ repeat v (length C)).
Proof.
  unfold assign. rewrite seq_length, bcast_single.
  pose proof (set_at_seq P (repeat v (length C)) [] C) as E.
  rewrite repeat_length, !app_nil_r in E. rewrite E by reflexivity. reflexivity.
Qed.

Definition order_mode (m : pmode) : bool := match m with POrder0 | POrder1 => true | _ => false end.

Lemma inner_order (m : pmode) (A B C : list T) :
  let a := Z.of_nat (length A) in let b := Z.of_nat (length B) in let c := Z.of_nat (length C) in
  order_mode m = true -> (1 <= length B)%nat ->
  padding_slices_inner m a (a + b + c) b
  = (Slice (Some a) (Some (a + 1)%Z) 1, Slice (Some (a + b - 1)%Z) (Some (a + b)%Z) 1).
Proof.
  intros a b c Hm HB. unfold padding_slices_inner. cbv zeta.
  rewrite Z.min_r by lia. destruct m; try discriminate Hm; reflexivity.
Qed.

Lemma slice_one (A B C : list T) j : (j < length B)%nat ->
  slice_indices (Slice (Some (Z.of_nat (length A) + Z.of_nat j)%Z)
                       (Some (Z.of_nat (length A) + Z.of_nat j + 1)%Z) 1) (length (A ++ B ++ C))
  = [(length A + j)%nat].
Proof.
  intros Hj. rewrite slice_up_ss by (rewrite ?app_length; lia).
  replace (Z.to_nat (_ + 1 - _)) with 1%nat by lia. cbn [seq]. f_equal. lia.
Qed.
Lemma slice_two (A B C : list T) j : (j + 1 < length B)%nat ->
  slice_indices (Slice (Some (Z.of_nat (length A) + Z.of_nat j)%Z)
                       (Some (Z.of_nat (length A) + Z.of_nat j + 2)%Z) 1) (length (A ++ B ++ C))
  = [(length A + j)%nat; (length A + (j + 1))%nat].
Proof.
  intros Hj. rewrite slice_up_ss by (rewrite ?app_length; lia).
  replace (Z.to_nat (_ + 2 - _)) with 2%nat by lia. cbn [seq]. f_equal; [lia|f_equal; lia].
Qed.

Definition lastn (B : list T) := nth (length B - 1) B nzero.

Lemma ap1_order0 (d : direction) (A B C : list T) :
  (0 < length A + length C)%nat -> (1 <= length B)%nat ->
  apply_padding1 POrder0 d (A ++ B ++ C) (length B) (Z.of_nat (length A))
  = Ok (if is_fwd d
        then repeat (nth 0 B nzero) (length A) ++ B ++ repeat (lastn B) (length C)
        else A ++ add_at [(length B - 1)%nat] [sumf C] (add_at [0%nat] [sumf A] B) ++ C).
Proof.
  intros Hpos HB.
  unfold apply_padding1. change size_guard_before_skip with false; cbn [andb]. rewrite zlen3.
  set (a := Z.of_nat (length A)). set (b := Z.of_nat (length B)). set (c := Z.of_nat (length C)).
  unfold padding_skipped. destruct (Z.leb_spec (a + b + c) b) as [Hle|_]; [lia|].
  unfold illegal_size, illegal_padlen. cbn [orb].
  destruct (Z.eqb_spec b 0) as [E0|_]; [lia|].
  destruct (outer_slices A B C) as [Eol Eor]. cbv zeta in Eol, Eor. fold a b c in Eol, Eor.
  destruct (padding_slices_outer a (a + b + c) b) as [so_l so_r].
  pose proof (inner_order POrder0 A B C eq_refl HB) as Ein. cbv zeta in Ein. fold a b c in Ein.
  rewrite Ein. cbn [fst snd] in *. rewrite Eol, Eor.
  pose proof (slice_one A B C 0 ltac:(lia)) as S0. fold a in S0.
  replace (a + Z.of_nat 0)%Z with a in S0 by lia. rewrite S0.
  pose proof (slice_one A B C (length B - 1) ltac:(lia)) as S1. fold a in S1.
  replace (a + Z.of_nat (length B - 1))%Z with (a + b - 1)%Z in S1 by lia.
  replace (a + b - 1 + 1)%Z with (a + b)%Z in S1 by lia. rewrite S1.
  destruct d; cbn [is_fwd].
  - rewrite geti_mid1 by lia. rewrite assign_left1. cbn [obind].
    set (L := repeat (nth 0 B nzero) (length A)).
    replace (length A) with (length L) at 1 2 by (unfold L; now rewrite repeat_length).
    rewrite geti_mid1 by lia.
    rewrite app_assoc, <- app_length, assign_right1. rewrite <- app_assoc. reflexivity.
  - rewrite geti_pre. unfold addto at 1. cbn [length]. rewrite bcast_single. cbn [repeat obind].
    pose proof (add_at_mid A B C [0%nat] [sumf A]) as E1. cbn [map] in E1.
    rewrite E1 by (repeat constructor; lia). clear E1.
    set (B1 := add_at [0%nat] [sumf A] B).
    assert (HB1 : length B1 = length B) by (unfold B1; now rewrite add_at_length).
    replace (length A + length B)%nat with (length (A ++ B1)) by (rewrite app_length; lia).
    rewrite (app_assoc A B1 C), geti_post.
    unfold addto. cbn [length]. rewrite bcast_single. cbn [repeat]. rewrite <- app_assoc.
    pose proof (add_at_mid A B1 C [(length B - 1)%nat] [sumf C]) as E2. cbn [map] in E2.
    rewrite E2 by (repeat constructor; lia). reflexivity.
Qed.


Lemma bcast_pair (x y : T) : bcast 2 [x; y] = Some [x; y].
Proof. reflexivity. Qed.

Lemma arange_length (a b : Z) : length (@arange T _ a b) = Z.to_nat (b - a).
Proof. unfold arange; now rewrite map_length, seq_length. Qed.

Definition ramp_l (B : list T) (pl : nat) : list T :=
  map (fun k => nth 0 B nzero + k * (nth 1 B nzero - nth 0 B nzero)) (arange (- Z.of_nat pl) 0).
Definition ramp_r (B : list T) (pr : nat) : list T :=
  map (fun k => lastn B + k * (lastn B - nth (length B - 2) B nzero)) (arange 1 (Z.of_nat pr + 1)).
Definition mom_l (A : list T) : T := sumf (vmap2 nmul (arange (- Z.of_nat (length A)) 0) A).
Definition mom_r (C : list T) : T := sumf (vmap2 nmul (arange 1 (Z.of_nat (length C) + 1)) C).

Lemma ap1_order1 (d : direction) (A B C : list T) :
  (0 < length A + length C)%nat -> (2 <= length B)%nat ->
  apply_padding1 POrder1 d (A ++ B ++ C) (length B) (Z.of_nat (length A))
  = Ok (if is_fwd d
        then ramp_l B (length A) ++ B ++ ramp_r B (length C)
        else A ++ add_at [(length B - 2)%nat; (length B - 1)%nat]
                         [mom_r C * of_Z (-1); mom_r C * of_Z 1]
                    (add_at [0%nat; 1%nat] [mom_l A * of_Z (-1); mom_l A * of_Z 1]
                      (add_at [(length B - 1)%nat] [sumf C] (add_at [0%nat] [sumf A] B))) ++ C).
Proof.
  intros Hpos HB.
  unfold apply_padding1. change size_guard_before_skip with false; cbn [andb]. rewrite zlen3.
  set (a := Z.of_nat (length A)). set (b := Z.of_nat (length B)). set (c := Z.of_nat (length C)).
  unfold padding_skipped. destruct (Z.leb_spec (a + b + c) b) as [Hle|_]; [lia|].
  unfold illegal_size, illegal_padlen. cbn [orb].
  destruct (Z.ltb_spec b 2) as [E0|_]; [lia|].
  unfold n_pad_l, n_pad_r. cbv zeta. unfold n_pad_l. replace (a + b + c - b - a)%Z with c by lia.
  destruct (outer_slices A B C) as [Eol Eor]. cbv zeta in Eol, Eor. fold a b c in Eol, Eor.
  destruct (padding_slices_outer a (a + b + c) b) as [so_l so_r].
  pose proof (inner_order POrder1 A B C eq_refl ltac:(lia)) as Ein. cbv zeta in Ein. fold a b c in Ein.
  rewrite Ein. cbn [fst snd s_start s_stop option_map] in *. rewrite Eol, Eor.
  pose proof (slice_one A B C 0 ltac:(lia)) as S0. fold a in S0.
  replace (a + Z.of_nat 0)%Z with a in S0 by lia. rewrite S0.
  pose proof (slice_one A B C (length B - 1) ltac:(lia)) as S1. fold a in S1.
  replace (a + Z.of_nat (length B - 1))%Z with (a + b - 1)%Z in S1 by lia.
  replace (a + b - 1 + 1)%Z with (a + b)%Z in S1 by lia. rewrite S1.
  pose proof (slice_two A B C 0 ltac:(lia)) as T0. fold a in T0.
  replace (a + Z.of_nat 0)%Z with a in T0 by lia.
  replace (a + 2)%Z with (a + 1 + 1)%Z in T0 by lia. rewrite T0.
  pose proof (slice_two A B C (length B - 2) ltac:(lia)) as T1. fold a in T1.
  replace (a + Z.of_nat (length B - 2))%Z with (a + b - 1 - 1)%Z in T1 by lia.
  replace (a + b - 1 - 1 + 2)%Z with (a + b)%Z in T1 by lia. rewrite T1.
  replace (length B - 2 + 1)%nat with (length B - 1)%nat by lia.
  destruct d; cbn [is_fwd].
  - rewrite !geti_mid2, !geti_mid1 by lia. cbn [diff1].
    rewrite bop_r1. cbn [obind]. rewrite bop_l1. cbn [obind].
    rewrite map_map.
    assert (HL : length (ramp_l B (length A)) = length A).
    { unfold ramp_l. rewrite map_length, arange_length. lia. }
    fold (ramp_l B (length A)).
    rewrite assign_left by exact HL. cbn [obind].
    rewrite bop_r1. cbn [obind].
    rewrite <- HL at 1. rewrite geti_mid1 by lia. rewrite bop_l1. cbn [obind]. rewrite map_map.
    fold (lastn B). unfold c. fold (ramp_r B (length C)).
    assert (HR : length (ramp_r B (length C)) = length C).
    { unfold ramp_r. rewrite map_length, arange_length. lia. }
    rewrite <- HL at 1. rewrite app_assoc, <- app_length.
    rewrite assign_right by exact HR. rewrite <- app_assoc. reflexivity.
  - rewrite geti_pre. unfold addto at 1. cbn [length]. rewrite bcast_single. cbn [repeat obind].
    pose proof (add_at_mid A B C [0%nat] [sumf A]) as E1. cbn [map] in E1.
    rewrite E1 by (repeat constructor; lia). clear E1.
    set (B1 := add_at [0%nat] [sumf A] B).
    assert (HB1 : length B1 = length B) by (unfold B1; now rewrite add_at_length).
    replace (length A + length B)%nat with (length (A ++ B1)) by (rewrite app_length; lia).
    rewrite (app_assoc A B1 C), geti_post.
    unfold addto at 1. cbn [length]. rewrite bcast_single. cbn [repeat obind]. rewrite <- app_assoc.
    pose proof (add_at_mid A B1 C [(length B - 1)%nat] [sumf C]) as E2. cbn [map] in E2.
    rewrite E2 by (repeat constructor; lia). clear E2.
    set (B2 := add_at [(length B - 1)%nat] [sumf C] B1).
    assert (HB2 : length B2 = length B) by (unfold B2; now rewrite add_at_length).
    rewrite geti_pre.
    replace (length (A ++ B1)) with (length (A ++ B2)) by (rewrite !app_length; lia).
    rewrite (app_assoc A B2 C), geti_post.
    rewrite bop_eq by (rewrite arange_length; lia). cbn [obind].
    rewrite bop_eq by (rewrite arange_length; lia). cbn [obind].
    unfold a, c. fold (mom_l A). fold (mom_r C).
    unfold addto at 1. cbn [length]. rewrite bcast_pair. cbn [obind]. rewrite <- app_assoc.
    pose proof (add_at_mid A B2 C [0%nat; 1%nat] [mom_l A * of_Z (-1); mom_l A * of_Z 1]) as E3.
    cbn [map] in E3. change (0 + 1)%nat with 1%nat. rewrite E3 by (repeat constructor; lia). clear E3.
    set (B3 := add_at [0%nat; 1%nat] _ B2).
    assert (HB3 : length B3 = length B) by (unfold B3; now rewrite add_at_length).
    unfold addto. cbn [length]. rewrite bcast_pair.
    pose proof (add_at_mid A B3 C [(length B - 2)%nat; (length B - 1)%nat]
                  [mom_r C * of_Z (-1); mom_r C * of_Z 1]) as E4.
    cbn [map] in E4. rewrite E4 by (repeat constructor; lia). reflexivity.
Qed.
End Order.
