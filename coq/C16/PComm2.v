(* C16/PComm2.v -- blockwise action of the axis loop, linearity, and: the axis order is immaterial (R). *)
From Coq Require Import ZArith Reals Lia Lra List Bool.
From Verif Require Import Base.Num Base.Vec Base.VecR Lib.Axis C16.PAdjoint C16.PAxis C16.PNd2 C16.PNd3 C16.PComm1.
Import ListNotations.
Local Open Scope R_scope.

(* apply S to each of k consecutive chunks of size P *)
Definition blockmap (P : nat) (S : list R -> list R) (k : nat) (z : list R) : list R :=
  concat (map S (chunks P k z)).

Lemma chunks_add {A} P k m (b rest : list A) : length b = (k * P)%nat ->
  chunks P (k + m) (b ++ rest) = chunks P k b ++ chunks P m rest.
Proof.
  revert b; induction k as [|k IH]; intros b Hb.
  - destruct b; [reflexivity | cbn in Hb; lia].
  - cbn [Nat.add chunks app].
    assert (HP : (P <= length b)%nat) by (rewrite Hb; cbn; lia).
    rewrite firstn_app, skipn_app.
    replace (P - length b)%nat with 0%nat by lia. rewrite firstn_O, skipn_O, app_nil_r.
    f_equal. apply IH. rewrite skipn_length, Hb. cbn; lia.
Qed.

Lemma chunks_concat_mul {A} P k o (W : list (list A)) : rect o (k * P) W ->
  chunks P (o * k) (concat W) = concat (map (chunks P k) W).
Proof.
  revert o; induction W as [|b W IH]; intros o HW.
  - destruct HW as [<- _]. reflexivity.
  - apply rect_inv in HW as (o' & -> & Hb & HW). cbn [concat map Nat.mul].
    rewrite chunks_add by exact Hb. now rewrite (IH _ HW).
Qed.

Lemma concat_map_concat {A B} (S : A -> list B) (LL : list (list A)) :
  concat (map S (concat LL)) = concat (map (fun L => concat (map S L)) LL).
Proof.
  induction LL as [|L LL IH]; cbn [concat map]; [reflexivity|].
  now rewrite map_app, concat_app, IH.
Qed.

Lemma blockmap_concat P S k o (W : list (list R)) : rect o (k * P) W ->
  blockmap P S (o * k) (concat W) = concat (map (blockmap P S k) W).
Proof.
  intros HW. unfold blockmap. rewrite (chunks_concat_mul P k o W HW).
  rewrite concat_map_concat, map_map. reflexivity.
Qed.

Lemma blockmap_length P P' S k z : (forall u, length u = P -> length (S u) = P') ->
  length z = (k * P)%nat -> length (blockmap P S k z) = (k * P')%nat.
Proof.
  intros HS Hz. unfold blockmap. apply concat_rect_length.
  eapply map_rect; [exact HS | apply chunks_rect; exact Hz].
Qed.

(* K for whole arrays: F along an axis commutes with a linear map applied to every inner block *)
Lemma along_blockmap outer n n' P P' F S z :
  LinF n n' F -> LinF P P' S -> length z = (outer * (n * P))%nat ->
  along outer n P' n' F (blockmap P S (outer * n) z)
  = blockmap P S (outer * n') (along outer n P n' F z).
Proof.
  intros HF HS Hz.
  set (Z := chunks (n * P) outer z).
  assert (RZ : rect outer (n * P) Z) by (apply chunks_rect; exact Hz).
  assert (Ez : z = concat Z) by (symmetry; apply concat_chunks; exact Hz).
  rewrite Ez at 1. rewrite (blockmap_concat P S n outer Z RZ).
  unfold along at 1.
  rewrite (chunks_concat outer (n * P')).
  2:{ eapply map_rect; [|exact RZ]. intros u Hu. apply (blockmap_length P P'); [apply HS | lia]. }
  unfold along. fold Z.
  rewrite (blockmap_concat P S n' outer).
  2:{ eapply map_rect; [|exact RZ]. intros u Hu. apply along_block_length; [apply HF | exact Hu]. }
  rewrite !map_map. f_equal. apply map_ext_in. intros blk Hb.
  assert (Hbl : length blk = (n * P)%nat) by (destruct RZ as [_ Hf]; rewrite Forall_forall in Hf; auto).
  unfold blockmap.
  pose proof (along_block_rowmap n n' P P' F S (chunks P n blk) HF HS (chunks_rect _ _ _ Hbl)) as K.
  rewrite (concat_chunks P n blk Hbl) in K. exact K.
Qed.

From Verif Require Import C16.Syntax Gen.Padding C16.Model C16.ModelNd.

Lemma along_one n inner n' (F : list R -> list R) blk : length blk = (n * inner)%nat ->
  along 1 n inner n' F blk = along_block n inner n' F blk.
Proof.
  intros Hl. unfold along. cbn [chunks map concat]. rewrite app_nil_r.
  now rewrite <- Hl, firstn_all.
Qed.

Lemma blockmap_id P k z : length z = (k * P)%nat -> blockmap P (fun u => u) k z = z.
Proof. intros Hz. unfold blockmap. rewrite map_id. apply concat_chunks; exact Hz. Qed.

Lemma blockmap_ext P S S' k z : (forall u, length u = P -> S u = S' u) -> length z = (k * P)%nat ->
  blockmap P S k z = blockmap P S' k z.
Proof.
  intros H Hz. unfold blockmap. f_equal. apply (map_ext_rect k P); [exact H | apply chunks_rect; exact Hz].
Qed.

(* the loop with [outer] leading blocks acts block by block *)
Lemma sep_loop_blockmap m d (c : R) cast : forall ish osh offs outer z,
  length z = (outer * prodn ish)%nat ->
  sep_loop m d c cast outer ish osh offs z
  = blockmap (prodn ish) (sep_loop m d c cast 1 ish osh offs) outer z.
Proof.
  induction ish as [|n ish IH]; intros osh offs outer z Hz.
  - cbn [sep_loop]. symmetry. apply (blockmap_id (prodn [])). exact Hz.
  - destruct osh as [|n' osh]; [cbn [sep_loop]; symmetry; apply (blockmap_id (prodn (n :: ish))); exact Hz|].
    destruct offs as [|off offs]; [cbn [sep_loop]; symmetry; apply (blockmap_id (prodn (n :: ish))); exact Hz|].
    cbn [sep_loop]. cbn [prodn fold_right] in *. fold (prodn ish) in *.
    set (F := resize1_tot m d c cast n' off). set (Pi := prodn ish) in *.
    assert (HF : forall u, length u = n -> length (F u) = n') by (intros; apply resize1_tot_length).
    set (Z := chunks (n * Pi) outer z).
    assert (RZ : rect outer (n * Pi) Z) by (apply chunks_rect; exact Hz).
    rewrite IH. 2:{ rewrite along_length with (n' := n'); auto; lia. }
    unfold along. fold Z.
    rewrite (blockmap_concat Pi _ n' outer).
    2:{ eapply map_rect; [|exact RZ]. intros u Hu. apply along_block_length; auto. }
    unfold blockmap at 2. fold Z. rewrite map_map. f_equal. apply map_ext_in. intros blk Hb.
    assert (Hbl : length blk = (n * Pi)%nat) by (destruct RZ as [_ Hf]; rewrite Forall_forall in Hf; auto).
    cbv beta. change (concat (map (along_block n Pi n' F) (chunks (n * Pi) 1 blk))) with (along 1 n Pi n' F blk).
    rewrite along_one by exact Hbl.
    rewrite IH by (rewrite along_block_length with (n' := n'); auto; lia).
    rewrite Nat.mul_1_l. reflexivity.
Qed.

(* ---- linearity of the maps along an axis and of the whole loop ---- *)
From Verif Require Lib.AxisR.

Section Lin.
Variables a b : R.
Let op := fun p q : R => a * p + b * q.
Lemma vlin_op (x y : list R) : vlin a x b y = vmap2 op x y.
Proof. reflexivity. Qed.

Lemma firstn_vmap2 k (x y : list R) : firstn k (vmap2 op x y) = vmap2 op (firstn k x) (firstn k y).
Proof. revert x y; induction k as [|k IH]; intros [|p x] [|q y]; cbn; try reflexivity. now rewrite IH. Qed.
Lemma skipn_vmap2 k (x y : list R) : length x = length y ->
  skipn k (vmap2 op x y) = vmap2 op (skipn k x) (skipn k y).
Proof.
  revert x y; induction k as [|k IH]; intros [|p x] [|q y] Hl; cbn in *; try reflexivity; try lia.
  apply IH; lia.
Qed.
Lemma chunks_zipw k n (x y : list R) : length x = length y ->
  chunks k n (vmap2 op x y) = AxisR.zipw (vmap2 op) (chunks k n x) (chunks k n y).
Proof.
  revert x y; induction n as [|n IH]; intros x y Hl; cbn [chunks AxisR.zipw]; [reflexivity|].
  rewrite firstn_vmap2, skipn_vmap2 by exact Hl. f_equal. apply IH. rewrite !skipn_length; lia.
Qed.
Lemma map_zipw_lin r c (F : list R -> list R) (A B : list (list R)) :
  (forall u v, length u = c -> length v = c -> F (vmap2 op u v) = vmap2 op (F u) (F v)) ->
  rect r c A -> rect r c B ->
  map F (AxisR.zipw (vmap2 op) A B) = AxisR.zipw (vmap2 op) (map F A) (map F B).
Proof.
  intros HF. revert r B; induction A as [|u A IH]; intros r [|v B] HA HB; cbn [AxisR.zipw map]; try reflexivity.
  apply rect_inv in HA as (r' & -> & Hu & HA). apply rect_inv in HB as (r'' & Er & Hv & HB). injection Er as <-.
  rewrite HF by assumption. now rewrite (IH _ _ HA HB).
Qed.

Lemma along_block_lin n inner n' F (x y : list R) : LinF n n' F ->
  length x = (n * inner)%nat -> length y = (n * inner)%nat ->
  along_block n inner n' F (vlin a x b y) = vlin a (along_block n inner n' F x) b (along_block n inner n' F y).
Proof.
  intros [HL Hlin] Hx Hy. rewrite !vlin_op. unfold along_block.
  assert (RX : rect n inner (chunks inner n x)) by (apply chunks_rect; exact Hx).
  assert (RY : rect n inner (chunks inner n y)) by (apply chunks_rect; exact Hy).
  pose proof (transp_rect _ _ _ RX) as RXt. pose proof (transp_rect _ _ _ RY) as RYt.
  rewrite chunks_zipw by lia.
  rewrite (AxisR.transp_zipw op _ _ n inner) by assumption.
  rewrite (map_zipw_lin inner n F) by (auto; intros; rewrite <- !vlin_op; apply Hlin; assumption).
  rewrite (AxisR.transp_zipw op _ _ inner n') by (eapply map_rect; eauto).
  apply (AxisR.concat_zipw op _ _ n' inner); apply transp_rect; eapply map_rect; eauto.
Qed.

Lemma along_lin outer n inner n' F (x y : list R) : LinF n n' F ->
  length x = (outer * (n * inner))%nat -> length y = (outer * (n * inner))%nat ->
  along outer n inner n' F (vlin a x b y) = vlin a (along outer n inner n' F x) b (along outer n inner n' F y).
Proof.
  intros HF Hx Hy. rewrite !vlin_op. unfold along.
  assert (RX : rect outer (n * inner) (chunks (n * inner) outer x)) by (apply chunks_rect; exact Hx).
  assert (RY : rect outer (n * inner) (chunks (n * inner) outer y)) by (apply chunks_rect; exact Hy).
  rewrite chunks_zipw by lia.
  rewrite (map_zipw_lin outer (n * inner)) by (auto; intros; rewrite <- !vlin_op; apply along_block_lin; assumption).
  apply (AxisR.concat_zipw op _ _ outer (n' * inner));
    (eapply map_rect; [|eassumption]); intros u Hu; apply along_block_length; auto; apply HF.
Qed.
End Lin.

Lemma along_LinF outer n inner n' F : LinF n n' F ->
  LinF (outer * (n * inner)) (outer * (n' * inner)) (along outer n inner n' F).
Proof.
  intros HF. split.
  - intros u Hu. apply along_length; [apply HF | exact Hu].
  - intros a b u v Hu Hv. apply along_lin; assumption.
Qed.

Lemma LinF_comp n1 n2 n3 F G : LinF n1 n2 F -> LinF n2 n3 G -> LinF n1 n3 (fun u => G (F u)).
Proof.
  intros [HF1 HF2] [HG1 HG2]. split.
  - intros u Hu. apply HG1, HF1, Hu.
  - intros a b u v Hu Hv. rewrite HF2 by assumption. apply HG2; apply HF1; assumption.
Qed.
Lemma LinF_id n : LinF n n (fun u => u).
Proof. split; auto. Qed.

(* every line map of the loop from shape src to shape dst is linear *)
Fixpoint lines_lin (m : pmode) (d : direction) (src dst : list nat) (offs : list Z) : Prop :=
  match src, dst, offs with
  | s :: src', t :: dst', off :: offs' =>
      LinF s t (resize1_tot m d 0 true t off) /\ lines_lin m d src' dst' offs'
  | [], [], [] => True
  | _, _, _ => False
  end.

Lemma sep_loop_LinF m d : forall src dst offs outer, lines_lin m d src dst offs ->
  LinF (outer * prodn src) (outer * prodn dst) (sep_loop m d 0 true outer src dst offs).
Proof.
  induction src as [|s src IH]; intros [|t dst] [|off offs] outer H; cbn [lines_lin] in H; try contradiction.
  - cbn [sep_loop]. apply LinF_id.
  - destruct H as [HF Hr]. cbn [sep_loop prodn fold_right]. fold (prodn src). fold (prodn dst).
    pose proof (along_LinF outer s (prodn src) t _ HF) as HA.
    pose proof (IH dst offs (outer * t)%nat Hr) as HS.
    replace (outer * t * prodn src)%nat with (outer * (t * prodn src))%nat in HS by lia.
    replace (outer * t * prodn dst)%nat with (outer * (t * prodn dst))%nat in HS by lia.
    exact (LinF_comp _ _ _ _ _ HA HS).
Qed.

(* T: the axis order is immaterial -- the loop that applies the line maps last axis
   first equals the loop in the code's order (axis 0 first), any number of axes *)
Lemma sep_rev_eq_sep m d : forall ish osh offs outer (y : list R),
  lines_lin m d osh ish offs -> length y = (outer * prodn osh)%nat ->
  sep_rev_loop m d 0 true outer ish osh offs y = sep_loop m d 0 true outer osh ish offs y.
Proof.
  induction ish as [|n ish IH]; intros [|n' osh] [|off offs] outer y H Hy; cbn [lines_lin] in H; try contradiction.
  - reflexivity.
  - destruct H as [HF Hr]. cbn [sep_loop sep_rev_loop].
    cbn [prodn fold_right] in Hy. fold (prodn osh) in Hy.
    set (F := resize1_tot m d 0 true n off) in *.
    rewrite IH by (auto; lia).
    pose proof (sep_loop_LinF m d osh ish offs 1 Hr) as HS. rewrite !Nat.mul_1_l in HS.
    rewrite (sep_loop_blockmap m d 0 true osh ish offs (outer * n')) by lia.
    rewrite (along_blockmap outer n' n (prodn osh) (prodn ish) F _ y HF HS) by lia.
    rewrite <- (sep_loop_blockmap m d 0 true osh ish offs (outer * n)); [reflexivity|].
    rewrite along_length with (n' := n); [lia | apply HF | lia].
Qed.
