(* C16/PAdjointAll.v -- <R x, y> = <x, R^T y> for every mode, on the structural forms (R). *)
From Coq Require Import ZArith Reals Lia Lra List Bool.
From Verif Require Import Base.Num Base.Vec Base.VecR C16.Syntax Gen.Padding C16.Model
  C16.PLists C16.PPatterns C16.PGather C16.PResize C16.PAdjoint C16.POrder C16.PResize2.
Import ListNotations.
Local Open Scope R_scope.

Lemma Reqb_refl a : Reqb a a = true.
Proof. destruct (Reqb_spec a a); congruence. Qed.

(* ---- constant mode and the remaining direction/size combinations (R) ---- *)
Lemma resize1_const_fwd_grow (c : R) (x : list R) pl pr : (0 < pl + pr)%nat ->
  resize1 PConstant Forward c true x (pl + length x + pr) (Z.of_nat pl)
  = Ok (repeat c pl ++ x ++ repeat c pr).
Proof.
  intros Hpos. rewrite resize1_valid by offv. unfold resize1_core. cbn [pmode_eqb negb andb is_fwd padding_applies]. numR.
  destruct (Reqb_spec c 0) as [->|Hc]; cbn [negb];
    rewrite assign_intersection_grow by exact Hpos; reflexivity.
Qed.

Lemma resize1_fwd_grow_all m (c : R) (x : list R) pl pr :
  (0 < pl + pr)%nat -> pads_ok m (length x) pl pr ->
  resize1 m Forward c true x (pl + length x + pr) (Z.of_nat pl) = Ok (fwd_struct m c x pl pr).
Proof.
  intros Hpos Hok. destruct (pmode_eqb m PConstant) eqn:E.
  - destruct m; try discriminate E. apply resize1_const_fwd_grow; exact Hpos.
  - apply resize1_fwd_grow; auto. intros ->; discriminate E.
Qed.

Lemma resize1_adj_shrink_all m cast (A B C : list R) :
  (0 < length A + length C)%nat -> pads_ok m (length B) (length A) (length C) ->
  resize1 m Adjoint 0 cast (A ++ B ++ C) (length B) (Z.of_nat (length A)) = Ok (adj_struct m A B C).
Proof.
  intros Hpos Hok. destruct (pmode_eqb m PConstant) eqn:E.
  - destruct m; try discriminate E. rewrite resize1_valid by offv. unfold resize1_core.
    assert (E' : (length (A ++ B ++ C) <? length B)%nat = false)
      by (apply Nat.ltb_ge; rewrite !app_length; lia).
    rewrite E', andb_false_r. cbn [pmode_eqb negb andb is_fwd padding_applies]. numR.
    rewrite Reqb_refl. cbn [negb].
    rewrite assign_intersection_shrink by exact Hpos. reflexivity.
  - apply resize1_adj_shrink; auto. intros ->; discriminate E.
Qed.

(* adjoint of a restriction: zero padding, every mode *)
Lemma resize1_adj_grow m (x : list R) pl pr : (0 < pl + pr)%nat ->
  resize1 m Adjoint 0 true x (pl + length x + pr) (Z.of_nat pl)
  = Ok (repeat 0 pl ++ x ++ repeat 0 pr).
Proof.
  intros Hpos. rewrite resize1_valid by offv. unfold resize1_core. cbn [negb andb is_fwd]. rewrite !andb_false_r. numR.
  rewrite Reqb_refl. cbn [negb]. rewrite andb_false_r.
  destruct (padding_applies m).
  - rewrite ap1_skipped by lia. now rewrite assign_intersection_grow by exact Hpos.
  - now rewrite assign_intersection_grow by exact Hpos.
Qed.

(* equal sizes: identity in both directions (the offset is ignored) *)
Lemma resize1_same m d (c : R) cast (x : list R) off :
  (d = Adjoint -> m = PConstant -> c = 0) ->
  resize1 m d c cast x (length x) off = Ok x.
Proof.
  intros Hc. rewrite resize1_valid by offv. unfold resize1_core. rewrite Nat.ltb_irrefl, andb_false_r.
  destruct d; cbn [is_fwd negb andb].
  - rewrite assign_intersection_same. destruct (padding_applies m); [|reflexivity].
    apply ap1_skipped; lia.
  - destruct (pmode_eqb m PConstant) eqn:E.
    + destruct m; try discriminate E. rewrite (Hc eq_refl eq_refl). numR.
      rewrite Reqb_refl. cbn [negb padding_applies]. now rewrite assign_intersection_same.
    + cbn [andb]. destruct (padding_applies m).
      * rewrite ap1_skipped by lia. now rewrite assign_intersection_same.
      * now rewrite assign_intersection_same.
Qed.

(* ---- <fwd x, y> = <x, adj y> on the structural forms ---- *)
Lemma dot_repeat0_l k (y : list R) : dot (repeat 0 k) y = 0.
Proof.
  revert y; induction k as [|k IH]; intros [|b y]; cbn [repeat]; rewrite ?dot_nil_l, ?dot_nil_r; try reflexivity.
  rewrite dot_cons, IH; lra.
Qed.
Lemma dot_repeat0_r k (y : list R) : dot y (repeat 0 k) = 0.
Proof. rewrite dot_comm; apply dot_repeat0_l. Qed.

Lemma dot_repeat (v : R) (y : list R) : dot (repeat v (length y)) y = v * sumf y.
Proof.
  induction y as [|b y IH]; cbn [length repeat sumf]; [rewrite dot_nil_l; numR; lra|].
  rewrite dot_cons, IH. numR. lra.
Qed.

Lemma dot_ramp (u s : R) (ar y : list R) : length ar = length y ->
  dot (map (fun k => @nadd R _ u (@nmul R _ k s)) ar) y = u * sumf y + s * sumf (vmap2 nmul ar y).
Proof.
  revert y; induction ar as [|k ar IH]; intros [|b y] Hl; cbn in Hl; try lia.
  - cbn [map]. rewrite dot_nil_l. cbn. numR. lra.
  - cbn [map vmap2 sumf]. rewrite dot_cons, IH by lia. numR. lra.
Qed.

Lemma dot_pair (a b c d : R) : dot [a; b] [c; d] = a * c + b * d.
Proof. unfold dot; cbn; numR; lra. Qed.
Lemma dot_single (a c : R) : dot [a] [c] = a * c.
Proof. unfold dot; cbn; numR; lra. Qed.

Lemma dot_fwd_adj_struct m (x A B C : list R) :
  length B = length x -> (0 < length A + length C)%nat ->
  pads_ok m (length x) (length A) (length C) ->
  dot (fwd_struct m 0 x (length A) (length C)) (A ++ B ++ C) = dot x (adj_struct m A B C).
Proof.
  intros Hlen Hpos Hok.
  assert (GEN : forall L Rr : list R, length L = length A ->
            dot (L ++ x ++ Rr) (A ++ B ++ C) = dot L A + dot x B + dot Rr C).
  { intros L Rr HL. rewrite !dot_app by auto. lra. }
  destruct m; cbn [fwd_struct adj_struct].
  - rewrite GEN by apply repeat_length. rewrite dot_repeat0_l, dot_repeat0_l. lra.
  - set (IL := IL_of PSymmetric (length x) (length A)). set (IR := IR_of PSymmetric (length x) (length C)).
    assert (FL : Forall (fun i => i < length x)%nat IL) by (eapply IL_bound; eauto).
    assert (FR : Forall (fun i => i < length x)%nat IR) by (eapply IR_bound; eauto).
    rewrite GEN by (rewrite geti_length; apply IL_length). rewrite Hlen. fold IL IR.
    rewrite dot_add_at; [| now rewrite add_at_length | now rewrite add_at_length, Hlen | apply IR_length].
    rewrite dot_add_at; [| auto | now rewrite Hlen | apply IL_length]. lra.
  - set (IL := IL_of PPeriodic (length x) (length A)). set (IR := IR_of PPeriodic (length x) (length C)).
    assert (FL : Forall (fun i => i < length x)%nat IL) by (eapply IL_bound; eauto).
    assert (FR : Forall (fun i => i < length x)%nat IR) by (eapply IR_bound; eauto).
    rewrite GEN by (rewrite geti_length; apply IL_length). rewrite Hlen. fold IL IR.
    rewrite dot_add_at; [| now rewrite add_at_length | now rewrite add_at_length, Hlen | apply IR_length].
    rewrite dot_add_at; [| auto | now rewrite Hlen | apply IL_length]. lra.
  - cbn in Hok. rewrite GEN by apply repeat_length. rewrite !dot_repeat. rewrite Hlen.
    rewrite dot_add_at; [| now rewrite add_at_length | rewrite add_at_length; repeat constructor; lia | reflexivity].
    rewrite dot_add_at; [| auto | repeat constructor; lia | reflexivity].
    unfold geti; cbn [map]. rewrite !dot_single. unfold lastn. numR. lra.
  - cbn in Hok.
    assert (HL : length (ramp_l x (length A)) = length A)
      by (unfold ramp_l; rewrite map_length, arange_length; lia).
    rewrite GEN by exact HL. rewrite Hlen.
    rewrite dot_add_at; [| now rewrite !add_at_length | rewrite !add_at_length; repeat constructor; lia | reflexivity].
    rewrite dot_add_at; [| now rewrite !add_at_length | rewrite !add_at_length; repeat constructor; lia | reflexivity].
    rewrite dot_add_at; [| now rewrite add_at_length | rewrite add_at_length; repeat constructor; lia | reflexivity].
    rewrite dot_add_at; [| auto | repeat constructor; lia | reflexivity].
    unfold geti; cbn [map]. rewrite !dot_single, !dot_pair.
    unfold ramp_l, ramp_r. rewrite !dot_ramp by (rewrite arange_length; lia).
    fold (mom_l A). fold (mom_r C). unfold lastn.
    replace (length x - 2 + 1)%nat with (length x - 1)%nat by lia.
    numR. lra.
Qed.
