(* C16/PAdjoint.v -- forward and adjoint directions are transposes (at R). *)
From Coq Require Import ZArith Reals Lia Lra List Bool.
From Verif Require Import Base.Num Base.Vec Base.VecR C16.Syntax Gen.Padding C16.Model
  C16.PLists C16.PPatterns C16.PGather C16.PResize.
Import ListNotations.
Local Open Scope R_scope.

Lemma dot_app (a b c d : list R) : length a = length c ->
  dot (a ++ b) (c ++ d) = dot a c + dot b d.
Proof.
  revert c; induction a as [|u a IH]; intros [|w c] Hl; cbn in Hl; try lia.
  - cbn [app]. rewrite dot_nil_l. lra.
  - cbn [app]. rewrite !dot_cons, IH by lia. lra.
Qed.

Lemma dot_nil_r (x : list R) : dot x [] = 0.
Proof. destruct x; reflexivity. Qed.

Lemma dot_upd (x a : list R) i b : length x = length a -> (i < length a)%nat ->
  dot x (upd i (fun o => @nadd R _ o b) a) = dot x a + nth i x 0 * b.
Proof.
  revert x i; induction a as [|u a IH]; intros [|w x] [|i] Hl Hi; cbn in Hl, Hi; try lia.
  - cbn [upd nth]. rewrite !dot_cons. numR. lra.
  - cbn [upd nth]. rewrite !dot_cons, IH by lia. lra.
Qed.

(* gather and scatter-add are transposes of each other (any index list) *)
Lemma dot_add_at (x a : list R) I v : length x = length a ->
  Forall (fun i => i < length a)%nat I -> length I = length v ->
  dot x (add_at I v a) = dot x a + dot (geti x I) v.
Proof.
  revert v a; induction I as [|i I IH]; intros [|b v] a Hl HF Hlen; cbn in Hlen; try lia.
  - cbn [add_at geti map]. rewrite dot_nil_l. lra.
  - inversion HF as [|? ? Hi HF']; subst. cbn [add_at geti map].
    rewrite IH; [| now rewrite upd_length | now rewrite upd_length | lia].
    rewrite dot_upd by assumption. rewrite dot_cons. unfold geti. numR. lra.
Qed.

(* T1: the adjoint direction is the transpose of the forward direction (gather modes) *)
Lemma adjoint_gather m c c' cast cast' (x yl ym yr : list R) fx ay :
  gather_mode m = true -> (0 < length yl + length yr)%nat ->
  pads_ok m (length x) (length yl) (length yr) -> length ym = length x ->
  resize1 m Forward c cast x (length yl + length x + length yr) (Z.of_nat (length yl)) = Ok fx ->
  resize1 m Adjoint c' cast' (yl ++ ym ++ yr) (length x) (Z.of_nat (length yl)) = Ok ay ->
  dot fx (yl ++ ym ++ yr) = dot x ay.
Proof.
  intros Hm Hpos Hok Hlen Hf Ha.
  rewrite resize1_gather_fwd in Hf by assumption. inversion Hf; subst fx; clear Hf.
  rewrite <- Hlen in Ha. rewrite resize1_gather_adj in Ha by (rewrite ?Hlen; assumption).
  inversion Ha; subst ay; clear Ha. rewrite Hlen.
  set (IL := IL_of m (length x) (length yl)). set (IR := IR_of m (length x) (length yr)).
  assert (FL : Forall (fun i => i < length x)%nat IL) by (eapply IL_bound; eassumption).
  assert (FR : Forall (fun i => i < length x)%nat IR) by (eapply IR_bound; eassumption).
  rewrite !dot_app by (rewrite ?geti_length; unfold IL; rewrite ?IL_length; auto).
  rewrite dot_add_at; [| now rewrite add_at_length | now rewrite add_at_length, Hlen
                        | unfold IR; now rewrite IR_length].
  rewrite dot_add_at; [| auto | now rewrite Hlen | unfold IL; now rewrite IL_length].
  lra.
Qed.
