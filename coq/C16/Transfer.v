(* C16/Transfer.v -- the 1-d resize model executed at Q by the correspondence shards is
   the rational restriction of the model the theorems are about: Q2R commutes with
   [resize1] (slice arithmetic, guards and index lists do not depend on the carrier). *)
From Coq Require Import ZArith QArith Qreals Reals Lra Lia List Bool.
From Verif Require Import Base.Num Base.Vec Base.Transfer C16.Syntax Gen.Padding C16.Model.
Import ListNotations.

Notation QR := (map Q2R).
Definition omap (o : outcome (list Q)) : outcome (list R) :=
  match o with Ok r => Ok (QR r) | ValueErr => ValueErr end.
Notation optQR := (option_map (map Q2R)).

Lemma geti_t (a : list Q) idx : QR (geti a idx) = geti (QR a) idx.
Proof. unfold geti. rewrite map_map. apply map_ext. intros i. apply Q2R_nth. Qed.

Lemma upd_t (i : nat) (g : Q -> Q) (g' : R -> R) (l : list Q) :
  (forall a, Q2R (g a) = g' (Q2R a)) -> QR (upd i g l) = upd i g' (QR l).
Proof.
  intros Hg. revert i; induction l as [|a l IH]; intros [|i]; cbn [upd map]; try reflexivity.
  - now rewrite Hg.
  - now rewrite IH.
Qed.

Lemma set_at_t idx (v a : list Q) : QR (set_at idx v a) = set_at idx (QR v) (QR a).
Proof.
  revert v a; induction idx as [|i idx IH]; intros [|b v] a; cbn [set_at map]; try reflexivity.
  rewrite IH. f_equal. apply upd_t. reflexivity.
Qed.
Lemma add_at_t idx (v a : list Q) : QR (add_at idx v a) = add_at idx (QR v) (QR a).
Proof.
  revert v a; induction idx as [|i idx IH]; intros [|b v] a; cbn [add_at map]; try reflexivity.
  rewrite IH. f_equal. apply upd_t. intros o. apply Q2R_nadd.
Qed.

Lemma repeat_t (v : Q) k : QR (repeat v k) = repeat (Q2R v) k.
Proof. induction k; cbn; [reflexivity | now f_equal]. Qed.

Lemma bcast_t k (v : list Q) : optQR (bcast k v) = bcast k (QR v).
Proof.
  unfold bcast. rewrite map_length. destruct (length v =? k)%nat; [reflexivity|].
  destruct v as [|x [|y v]]; cbn [map option_map]; try reflexivity. now rewrite repeat_t.
Qed.
Lemma assign_t idx (v a : list Q) : optQR (assign idx v a) = assign idx (QR v) (QR a).
Proof.
  unfold assign. rewrite <- bcast_t. destruct (bcast (length idx) v); cbn [option_map]; [|reflexivity].
  now rewrite set_at_t.
Qed.
Lemma addto_t idx (v a : list Q) : optQR (addto idx v a) = addto idx (QR v) (QR a).
Proof.
  unfold addto. rewrite <- bcast_t. destruct (bcast (length idx) v); cbn [option_map]; [|reflexivity].
  now rewrite add_at_t.
Qed.

Lemma vmap2_t (f : Q -> Q -> Q) (g : R -> R -> R) (a b : list Q) :
  (forall x y, Q2R (f x y) = g (Q2R x) (Q2R y)) -> QR (vmap2 f a b) = vmap2 g (QR a) (QR b).
Proof.
  intros H. revert b; induction a as [|x a IH]; intros [|y b]; cbn [vmap2 map]; try reflexivity.
  now rewrite H, IH.
Qed.
Lemma bop_t (f : Q -> Q -> Q) (g : R -> R -> R) (a b : list Q) :
  (forall x y, Q2R (f x y) = g (Q2R x) (Q2R y)) -> optQR (bop f a b) = bop g (QR a) (QR b).
Proof.
  intros H. unfold bop. rewrite !map_length. destruct (length a =? length b)%nat.
  - cbn [option_map]. now rewrite (vmap2_t f g).
  - destruct a as [|x [|x' a]].
    + destruct b as [|y [|y' b]]; reflexivity.
    + cbn [map option_map]. f_equal. rewrite !map_map. apply map_ext; intros; apply H.
    + destruct b as [|y [|y' b]]; cbn [map option_map]; try reflexivity.
      rewrite !H, !map_map. do 3 f_equal. apply map_ext; intros; apply H.
Qed.

Lemma sumf_t (l : list Q) : Q2R (sumf l) = sumf (QR l).
Proof. induction l as [|a l IH]; cbn [sumf map]; [apply Q2R_nzero | now rewrite Q2R_nadd, IH]. Qed.
Lemma arange_t a b : QR (@arange Q _ a b) = arange a b.
Proof. unfold arange. rewrite map_map. apply map_ext. intros k. apply Q2R_of_Z. Qed.
Lemma diff1_t (l : list Q) : QR (diff1 l) = diff1 (QR l).
Proof.
  induction l as [|a [|b l] IH]; try reflexivity.
  change (diff1 (a :: b :: l)) with ((nsub b a) :: diff1 (b :: l)).
  cbn [map] in *. change (diff1 (Q2R a :: Q2R b :: QR l)) with (nsub (Q2R b) (Q2R a) :: diff1 (Q2R b :: QR l)).
  now rewrite Q2R_nsub, IH.
Qed.

Lemma zlen_t (l : list Q) : zlen (QR l) = zlen l.
Proof. unfold zlen. now rewrite map_length. Qed.

Lemma obind_QR (o : option (list Q)) o' (f : list Q -> option (list Q)) (f' : list R -> option (list R)) :
  optQR o = o' -> (forall l, optQR (f l) = f' (QR l)) -> optQR (obind o f) = obind o' f'.
Proof. intros <- Hf. destruct o; cbn [obind option_map]; [apply Hf | reflexivity]. Qed.

Lemma of_opt_t (o : option (list Q)) : omap (of_opt o) = of_opt (optQR o).
Proof. destruct o; reflexivity. Qed.

Lemma assign_intersection_t (lhs rhs : list Q) off :
  optQR (assign_intersection lhs rhs off) = assign_intersection (QR lhs) (QR rhs) off.
Proof.
  unfold assign_intersection. rewrite !zlen_t, !map_length.
  destruct (intersection_slices off (zlen lhs) (zlen rhs)) as [ls rs].
  now rewrite assign_t, geti_t.
Qed.

Lemma two_assign_t i1 j1 i2 j2 (lhs : list Q) :
  optQR (obind (assign i1 (geti lhs j1) lhs) (fun l1 => assign i2 (geti l1 j2) l1))
  = obind (assign i1 (geti (QR lhs) j1) (QR lhs)) (fun l1 => assign i2 (geti l1 j2) l1).
Proof. apply obind_QR; [now rewrite assign_t, geti_t | intros l; now rewrite assign_t, geti_t]. Qed.
Lemma two_addto_t i1 j1 i2 j2 (lhs : list Q) :
  optQR (obind (addto i1 (geti lhs j1) lhs) (fun l1 => addto i2 (geti l1 j2) l1))
  = obind (addto i1 (geti (QR lhs) j1) (QR lhs)) (fun l1 => addto i2 (geti l1 j2) l1).
Proof. apply obind_QR; [now rewrite addto_t, geti_t | intros l; now rewrite addto_t, geti_t]. Qed.

Lemma apply_padding1_t m d (lhs : list Q) n_rhs off :
  omap (apply_padding1 m d lhs n_rhs off) = apply_padding1 m d (QR lhs) n_rhs off.
Proof.
  unfold apply_padding1. change size_guard_before_skip with false; cbn [andb]. rewrite zlen_t, map_length.
  destruct (padding_skipped (zlen lhs) (Z.of_nat n_rhs)); [reflexivity|].
  cbv zeta. destruct (_ || _ || _); [reflexivity|].
  destruct (padding_slices_outer off (zlen lhs) (Z.of_nat n_rhs)) as [so_l so_r].
  destruct (padding_slices_inner m off (zlen lhs) (Z.of_nat n_rhs)) as [si_l si_r].
  destruct m; try reflexivity; destruct (is_fwd d); rewrite of_opt_t; f_equal.
  - apply two_assign_t.
  - apply two_addto_t.
  - apply two_assign_t.
  - apply two_addto_t.
  - apply two_assign_t.
  - apply obind_QR; [rewrite addto_t; cbn [map]; now rewrite sumf_t, geti_t|]. intros l1.
    rewrite addto_t. cbn [map]. now rewrite sumf_t, geti_t.
  - rewrite <- !arange_t.
    apply obind_QR; [rewrite <- ?geti_t, <- ?diff1_t; apply bop_t; apply Q2R_nmul|]. intros t_l.
    apply obind_QR; [rewrite <- ?geti_t; apply bop_t; apply Q2R_nadd|]. intros v_l.
    apply obind_QR; [apply assign_t|]. intros l1.
    apply obind_QR; [rewrite <- ?geti_t, <- ?diff1_t; apply bop_t; apply Q2R_nmul|]. intros t_r.
    apply obind_QR; [rewrite <- ?geti_t; apply bop_t; apply Q2R_nadd|]. intros v_r.
    apply assign_t.
  - rewrite <- !arange_t.
    apply obind_QR; [rewrite addto_t; cbn [map]; now rewrite sumf_t, geti_t|]. intros l1.
    apply obind_QR; [rewrite addto_t; cbn [map]; now rewrite sumf_t, geti_t|]. intros l2.
    apply obind_QR; [rewrite <- ?geti_t; apply bop_t; apply Q2R_nmul|]. intros w_l.
    apply obind_QR; [rewrite <- ?geti_t; apply bop_t; apply Q2R_nmul|]. intros w_r.
    cbv zeta.
    apply obind_QR; [rewrite addto_t; cbn [map]; now rewrite !Q2R_nmul, !Q2R_of_Z, sumf_t|]. intros l3.
    rewrite addto_t. cbn [map]. now rewrite !Q2R_nmul, !Q2R_of_Z, sumf_t.
Qed.

Lemma resize1_core_t m d (c : Q) cast (arr : list Q) n_out off :
  omap (resize1_core m d c cast arr n_out off) = resize1_core m d (Q2R c) cast (QR arr) n_out off.
Proof.
  unfold resize1_core. rewrite map_length. cbv zeta.
  destruct (pmode_eqb m PConstant && negb cast && (length arr <? n_out)%nat); [reflexivity|].
  rewrite <- Q2R_nzero, <- Q2R_neqb.
  destruct (negb (is_fwd d) && pmode_eqb m PConstant && negb (neqb c nzero)); [reflexivity|].
  set (fillv := if is_fwd d && pmode_eqb m PConstant && negb (neqb c nzero) then c else nzero).
  replace (if is_fwd d && pmode_eqb m PConstant && negb (neqb c nzero) then Q2R c else Q2R nzero)
    with (Q2R fillv) by (unfold fillv; destruct (_ && _ && _); reflexivity).
  rewrite <- repeat_t.
  destruct (is_fwd d).
  - rewrite <- assign_intersection_t. destruct (assign_intersection _ arr off) as [out1|]; cbn [option_map]; [|reflexivity].
    destruct (padding_applies m); [apply apply_padding1_t | reflexivity].
  - destruct (padding_applies m).
    + rewrite <- apply_padding1_t. destruct (apply_padding1 m Adjoint arr n_out off) as [tmp|]; cbn [omap]; [|reflexivity].
      now rewrite of_opt_t, assign_intersection_t.
    + now rewrite of_opt_t, assign_intersection_t.
Qed.

(* the executed model is the restriction of the proved one *)
Theorem resize1_transfer m d (c : Q) cast (arr : list Q) n_out off :
  omap (resize1 m d c cast arr n_out off) = resize1 m d (Q2R c) cast (QR arr) n_out off.
Proof.
  unfold resize1. rewrite map_length. destruct (offset_invalid _ _ off); [reflexivity|]. apply resize1_core_t.
Qed.
