(* C16/PRef.v -- the structural forms equal the named rule, entry by entry. *)
From Coq Require Import ZArith Reals Lia Lra List Bool.
From Verif Require Import Base.Num Base.Vec C16.Syntax Gen.Padding C16.Model
  C16.PLists C16.PPatterns C16.PGather C16.PResize C16.POrder C16.PResize2.
Import ListNotations.
Section Ref.
Context {T : Type} `{Num T}.
Local Open Scope num_scope.

Lemma repeat_map_seq (v : T) k s : repeat v k = map (fun _ => v) (seq s k).
Proof. revert s; induction k as [|k IH]; intros s; cbn; [reflexivity | now rewrite (IH (S s))]. Qed.

Lemma seq3 pl n pr : seq 0 (pl + n + pr) = seq 0 pl ++ seq pl n ++ seq (pl + n) pr.
Proof. rewrite <- Nat.add_assoc, !seq_app. reflexivity. Qed.

Lemma ext_mid m c (x : list T) pl :
  map (fun i => ext_ref m c x (Z.of_nat i - Z.of_nat pl)) (seq pl (length x)) = x.
Proof.
  transitivity (geti x (seq 0 (length x))); [|apply geti_seq_all].
  replace (seq pl (length x)) with (map (Nat.add pl) (seq 0 (length x)))
    by (rewrite seq_add_map; f_equal; lia).
  rewrite map_map.
  apply map_ext_in; intros i Hi; apply in_seq in Hi. unfold ext_ref, zlen, nthZ.
  destruct (Z.leb_spec 0 (Z.of_nat (pl + i) - Z.of_nat pl)); [|lia].
  destruct (Z.ltb_spec (Z.of_nat (pl + i) - Z.of_nat pl) (Z.of_nat (length x))); [|lia].
  cbn [andb]. f_equal; lia.
Qed.

Lemma ext_left m c (x : list T) pl pr : pads_ok m (length x) pl pr ->
  map (fun i => ext_ref m c x (Z.of_nat i - Z.of_nat pl)) (seq 0 pl)
  = match m with
    | PConstant => repeat c pl
    | PPeriodic | PSymmetric => geti x (IL_of m (length x) pl)
    | POrder0 => repeat (nth 0 x nzero) pl
    | POrder1 => ramp_l x pl
    end.
Proof.
  intros Hok.
  assert (E : forall i, (i < pl)%nat ->
     ext_ref m c x (Z.of_nat i - Z.of_nat pl) =
     match m with
     | PConstant => c
     | PPeriodic => nth (length x - pl + i) x nzero
     | PSymmetric => nth (pl - i) x nzero
     | POrder0 => nth 0 x nzero
     | POrder1 => nth 0 x nzero + of_Z (- Z.of_nat pl + Z.of_nat i) * (nth 1 x nzero - nth 0 x nzero)
     end).
  { intros i Hi. unfold ext_ref, zlen, nthZ.
    destruct (Z.leb_spec 0 (Z.of_nat i - Z.of_nat pl)); [lia|]. cbn [andb].
    destruct (Z.ltb_spec (Z.of_nat i - Z.of_nat pl) 0); [|lia].
    destruct m; cbn in Hok; try reflexivity.
    - f_equal; lia.
    - f_equal.
      replace ((Z.of_nat i - Z.of_nat pl) mod Z.of_nat (length x))%Z
        with (Z.of_nat i - Z.of_nat pl + Z.of_nat (length x))%Z
        by (apply Zmod_unique with (q := (-1)%Z); lia). lia.
    - do 2 f_equal. f_equal. lia. }
  destruct m; cbn [IL_of].
  - rewrite (repeat_map_seq c pl 0). apply map_ext_in; intros i Hi; apply in_seq in Hi. apply E; lia.
  - unfold geti. rewrite map_map. apply map_ext_in; intros i Hi; apply in_seq in Hi. apply E; lia.
  - unfold geti. replace (seq (length x - pl) pl) with (map (Nat.add (length x - pl)) (seq 0 pl))
      by (rewrite seq_add_map; f_equal; lia).
    rewrite map_map. apply map_ext_in; intros i Hi; apply in_seq in Hi. apply E; lia.
  - rewrite (repeat_map_seq _ pl 0). apply map_ext_in; intros i Hi; apply in_seq in Hi. apply E; lia.
  - unfold ramp_l, arange. rewrite map_map. replace (Z.to_nat (0 - - Z.of_nat pl)) with pl by lia.
    apply map_ext_in; intros i Hi; apply in_seq in Hi. apply E; lia.
Qed.

Lemma ext_right m c (x : list T) pl pr : pads_ok m (length x) pl pr ->
  map (fun i => ext_ref m c x (Z.of_nat i - Z.of_nat pl)) (seq (pl + length x) pr)
  = match m with
    | PConstant => repeat c pr
    | PPeriodic | PSymmetric => geti x (IR_of m (length x) pr)
    | POrder0 => repeat (lastn x) pr
    | POrder1 => ramp_r x pr
    end.
Proof.
  intros Hok.
  replace (seq (pl + length x) pr) with (map (Nat.add (pl + length x)) (seq 0 pr))
    by (rewrite seq_add_map; f_equal; lia).
  rewrite map_map.
  assert (E : forall t, (t < pr)%nat ->
     ext_ref m c x (Z.of_nat (pl + length x + t) - Z.of_nat pl) =
     match m with
     | PConstant => c
     | PPeriodic => nth t x nzero
     | PSymmetric => nth (length x - 2 - t) x nzero
     | POrder0 => lastn x
     | POrder1 => lastn x + of_Z (1 + Z.of_nat t) * (lastn x - nth (length x - 2) x nzero)
     end).
  { intros t Ht. unfold ext_ref, zlen, nthZ, lastn.
    destruct (Z.leb_spec 0 (Z.of_nat (pl + length x + t) - Z.of_nat pl)); [|lia].
    destruct (Z.ltb_spec (Z.of_nat (pl + length x + t) - Z.of_nat pl) (Z.of_nat (length x))); [lia|].
    cbn [andb].
    destruct (Z.ltb_spec (Z.of_nat (pl + length x + t) - Z.of_nat pl) 0); [lia|].
    destruct m; cbn in Hok; try reflexivity.
    - f_equal; lia.
    - f_equal.
      replace ((Z.of_nat (pl + length x + t) - Z.of_nat pl) mod Z.of_nat (length x))%Z
        with (Z.of_nat t) by (apply Zmod_unique with (q := 1%Z); lia). lia.
    - f_equal; lia.
    - f_equal; [f_equal; lia|]. f_equal; [f_equal; lia|]. f_equal; [f_equal; lia | f_equal; lia]. }
  destruct m; cbn [IR_of].
  - rewrite (repeat_map_seq c pr 0). apply map_ext_in; intros i Hi; apply in_seq in Hi. apply E; lia.
  - unfold geti. rewrite map_map. apply map_ext_in; intros i Hi; apply in_seq in Hi. apply E; lia.
  - unfold geti. apply map_ext_in; intros i Hi; apply in_seq in Hi. apply E; lia.
  - rewrite (repeat_map_seq _ pr 0). apply map_ext_in; intros i Hi; apply in_seq in Hi. apply E; lia.
  - unfold ramp_r, arange. rewrite map_map. replace (Z.to_nat (Z.of_nat pr + 1 - 1)) with pr by lia.
    apply map_ext_in; intros i Hi; apply in_seq in Hi. apply E; lia.
Qed.

(* the structural form IS the named rule, entry by entry *)
Lemma fwd_struct_ref m c (x : list T) pl pr : pads_ok m (length x) pl pr ->
  fwd_struct m c x pl pr
  = map (fun i => ext_ref m c x (Z.of_nat i - Z.of_nat pl)) (seq 0 (pl + length x + pr)).
Proof.
  intros Hok. rewrite seq3, !map_app, ext_mid, (ext_left m c x pl pr Hok), (ext_right m c x pl pr Hok).
  destruct m; reflexivity.
Qed.
End Ref.
