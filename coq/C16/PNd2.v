(* C16/PNd2.v -- N-d: crop after extend is the identity for the separable model, all shapes. *)
From Coq Require Import ZArith Reals Lia Lra List Bool.
From Verif Require Import Base.Num Base.Vec Base.VecR Lib.Axis C16.Syntax Gen.Padding C16.Model C16.ModelNd
  C16.PAdjoint C16.PMain C16.PMain2 C16.PAxis C16.PNd.
Import ListNotations.
Local Open Scope R_scope.

Lemma chunks_concat {A} r c (M : list (list A)) : rect r c M -> chunks c r (concat M) = M.
Proof.
  revert r; induction M as [|a M IH]; intros r HM.
  - destruct HM as [<- _]; reflexivity.
  - apply rect_inv in HM as (r' & -> & Ha & HM). cbn [concat chunks].
    rewrite <- Ha. rewrite firstn_app, firstn_all, Nat.sub_diag, firstn_O, app_nil_r.
    rewrite skipn_app, skipn_all, Nat.sub_diag, skipn_O. cbn [app]. rewrite Ha. now rewrite (IH _ HM).
Qed.

Lemma map_id_rect {A} r c (F F' : list A -> list A) M :
  (forall u, length u = c -> F' (F u) = u) -> rect r c M -> map F' (map F M) = M.
Proof.
  intros HF [_ Hf]. rewrite map_map. rewrite <- (map_id M) at 2.
  apply map_ext_in; intros u Hu. apply HF. rewrite Forall_forall in Hf; auto.
Qed.

Lemma along_block_inv (n inner n' : nat) (F F' : list R -> list R) blk :
  (forall u, length u = n -> length (F u) = n') ->
  (forall u, length u = n -> F' (F u) = u) -> length blk = (n * inner)%nat ->
  along_block n' inner n F' (along_block n inner n' F blk) = blk.
Proof.
  intros HF Hinv Hl. unfold along_block.
  set (X := chunks inner n blk).
  assert (RX : rect n inner X) by (apply chunks_rect; exact Hl).
  assert (RXt : rect inner n (transp inner X)) by (apply transp_rect; exact RX).
  assert (RFX : rect inner n' (map F (transp inner X))) by (eapply map_rect; eauto).
  rewrite (chunks_concat n' inner) by (apply transp_rect; exact RFX).
  rewrite (transp_transp _ _ _ RFX).
  rewrite (map_id_rect inner n F F') by auto.
  rewrite (transp_transp _ _ _ RX). unfold X. apply concat_chunks; exact Hl.
Qed.

Lemma along_inv (outer n inner n' : nat) (F F' : list R -> list R) x :
  (forall u, length u = n -> length (F u) = n') ->
  (forall u, length u = n -> F' (F u) = u) -> length x = (outer * (n * inner))%nat ->
  along outer n' inner n F' (along outer n inner n' F x) = x.
Proof.
  intros HF Hinv Hl. unfold along.
  set (X := chunks (n * inner) outer x).
  assert (RX : rect outer (n * inner) X) by (apply chunks_rect; exact Hl).
  rewrite (chunks_concat outer (n' * inner)).
  - rewrite (map_id_rect outer (n * inner)); [unfold X; apply concat_chunks; exact Hl | | exact RX].
    intros u Hu. apply along_block_inv; auto.
  - eapply map_rect; [|exact RX]. intros u Hu. apply along_block_length; auto.
Qed.

Fixpoint all_grow (ish osh : list nat) : bool :=
  match ish, osh with
  | a :: i', b :: o' => (a <=? b)%nat && all_grow i' o'
  | _, _ => true
  end.

Lemma line_crop m m' (c c' : R) cast' n n' off : (n <= n')%nat ->
  offset_ok n n' off = true -> pad_legal m n n' off = true ->
  let F := resize1_tot m Forward c true n' off in
  let F' := resize1_tot m' Forward c' cast' n off in
  (forall u : list R, length u = n -> length (F u) = n') /\
  (forall u : list R, length u = n -> F' (F u) = u).
Proof.
  intros Hle Hoff Hleg F F'. subst F F'. unfold resize1_tot.
  split; intros u Hu; subst n.
  - rewrite forward_is_ref by assumption. unfold resize_ref.
    destruct (length u <=? n')%nat; now rewrite map_length, seq_length.
  - destruct (crop_extend m m' c c' cast' u n' off Hle Hoff Hleg) as (fx & -> & ->). reflexivity.
Qed.

(* T1 (N-d): extending in every axis (any mode) and then cropping with the same offsets
   is the identity, for every number of axes and every shape *)
Lemma sep_crop_extend m m' (c c' : R) cast' outer ish osh offs (x : list R) :
  config_ok m ish osh offs = true -> all_grow ish osh = true ->
  length x = (outer * prodn ish)%nat ->
  sep_rev_loop m' Forward c' cast' outer ish osh offs (sep_loop m Forward c true outer ish osh offs x) = x.
Proof.
  revert outer osh offs x; induction ish as [|n ish IH]; intros outer [|n' osh] [|off offs] x Hc Hg Hx;
    cbn [config_ok] in Hc; try discriminate; cbn [sep_loop sep_rev_loop]; [reflexivity|].
  apply andb_true_iff in Hc as [Hc Hrest]. apply andb_true_iff in Hc as [Hoff Hleg].
  cbn [all_grow] in Hg. apply andb_true_iff in Hg as [Hle Hg]. apply Nat.leb_le in Hle.
  destruct (line_crop m m' c c' cast' n n' off Hle Hoff Hleg) as (HF & Hinv).
  cbn [prodn fold_right] in Hx. fold (prodn ish) in Hx.
  rewrite IH; auto.
  - apply along_inv; auto; lia.
  - rewrite along_length with (n' := n'); auto; lia.
Qed.
