(* C16/PMain2.v -- index-formula theorem, crop after extend, rejection of illegal paddings. *)
From Coq Require Import ZArith Reals Lia Lra List Bool.
From Verif Require Import Base.Num Base.Vec Base.VecR C16.Syntax Gen.Padding C16.Model
  C16.PLists C16.PPatterns C16.PGather C16.PResize C16.PAdjoint C16.POrder C16.PResize2 C16.PAdjointAll
  C16.PMain C16.PRef.
Import ListNotations.
Local Open Scope R_scope.

Lemma crop_ref (A B C : list R) :
  map (fun i => nthZ (A ++ B ++ C) (Z.of_nat i + Z.of_nat (length A))) (seq 0 (length B)) = B.
Proof.
  transitivity (geti B (seq 0 (length B))); [|apply geti_seq_all].
  unfold geti. apply map_ext_in; intros i Hi; apply in_seq in Hi. unfold nthZ.
  replace (Z.to_nat (Z.of_nat i + Z.of_nat (length A))) with (length A + i)%nat by lia.
  rewrite app_nth2 by lia. replace (length A + i - length A)%nat with i by lia.
  apply app_nth1; lia.
Qed.

(* T1: the forward direction computes exactly the named rule *)
Lemma forward_is_ref m (c : R) (x : list R) n_out off :
  offset_ok (length x) n_out off = true ->
  pad_legal m (length x) n_out off = true ->
  resize1 m Forward c true x n_out off = Ok (resize_ref m c x n_out off).
Proof.
  intros Hoff Hleg. apply offset_ok_spec in Hoff as [H0 Hoff]. unfold resize_ref.
  destruct (lt_eq_lt_dec (length x) n_out) as [[Hlt|Heq]|Hgt].
  - rewrite Nat.min_l, Nat.max_r in Hoff by lia.
    destruct (Nat.leb_spec (length x) n_out); [|lia].
    set (pl := Z.to_nat off). set (pr := (n_out - length x - pl)%nat).
    assert (En : n_out = (pl + length x + pr)%nat) by (unfold pl, pr; lia).
    assert (Eoff : off = Z.of_nat pl) by (unfold pl; lia).
    assert (Hpos : (0 < pl + pr)%nat) by lia.
    assert (Hok : pads_ok m (length x) pl pr).
    { eapply pad_legal_ok; [exact En | exact Hpos | rewrite <- Eoff; exact Hleg]. }
    rewrite En, Eoff. rewrite resize1_fwd_grow_all by assumption.
    now rewrite fwd_struct_ref by exact Hok.
  - subst n_out. rewrite Nat.min_id, Nat.max_id in Hoff. assert (off = 0%Z) by lia. subst off.
    rewrite Nat.leb_refl. rewrite resize1_same by (intros; discriminate).
    pose proof (@ext_mid R _ m c x 0) as E. cbn [Z.of_nat] in E. now rewrite E.
  - rewrite Nat.min_r, Nat.max_l in Hoff by lia.
    destruct (Nat.leb_spec (length x) n_out); [lia|].
    destruct (split3 x (Z.to_nat off) n_out Hoff) as (A & B & C & -> & HA & HB & HC).
    rewrite !app_length in *.
    assert (Eoff : off = Z.of_nat (length A)) by lia. subst off. subst n_out.
    rewrite resize1_fwd_shrink by lia. now rewrite crop_ref.
Qed.

Lemma fwd_struct_blocks m (c : R) (x : list R) pl pr :
  exists L Rr, fwd_struct m c x pl pr = L ++ x ++ Rr /\ length L = pl /\ length Rr = pr.
Proof.
  destruct m; cbn [fwd_struct]; eexists; eexists; (split; [reflexivity|]);
    rewrite ?repeat_length, ?geti_length, ?IL_length, ?IR_length; auto;
    unfold ramp_l, ramp_r; rewrite !map_length, !arange_length; lia.
Qed.

(* T1: extending and then cropping with the matching offset is the identity
   (any mode and constant for the extension, any mode for the crop) *)
Lemma crop_extend m m' (c c' : R) cast' (x : list R) n_out off :
  (length x <= n_out)%nat ->
  offset_ok (length x) n_out off = true ->
  pad_legal m (length x) n_out off = true ->
  exists fx, resize1 m Forward c true x n_out off = Ok fx /\
             resize1 m' Forward c' cast' fx (length x) off = Ok x.
Proof.
  intros Hle Hoff Hleg. apply offset_ok_spec in Hoff as [H0 Hoff].
  destruct (Nat.eq_dec (length x) n_out) as [Heq|Hne].
  - subst n_out. exists x. rewrite !resize1_same by (intros; discriminate). auto.
  - rewrite Nat.min_l, Nat.max_r in Hoff by lia.
    set (pl := Z.to_nat off). set (pr := (n_out - length x - pl)%nat).
    assert (En : n_out = (pl + length x + pr)%nat) by (unfold pl, pr; lia).
    assert (Eoff : off = Z.of_nat pl) by (unfold pl; lia).
    assert (Hpos : (0 < pl + pr)%nat) by lia.
    assert (Hok : pads_ok m (length x) pl pr).
    { eapply pad_legal_ok; [exact En | exact Hpos | rewrite <- Eoff; exact Hleg]. }
    exists (fwd_struct m c x pl pr). rewrite En, Eoff.
    split; [apply resize1_fwd_grow_all; assumption|].
    destruct (fwd_struct_blocks m c x pl pr) as (L & Rr & -> & HL & HR).
    rewrite <- HL. apply resize1_fwd_shrink. lia.
Qed.

(* ---- padding lengths outside the documented limits are rejected ---- *)
Lemma ap1_illegal m d (lhs : list R) n_rhs off :
  (n_rhs < length lhs)%nat ->
  illegal_size m (Z.of_nat n_rhs) || illegal_padlen m off (Z.of_nat n_rhs)
    || illegal_padlen m (Z.of_nat (length lhs) - Z.of_nat n_rhs - off) (Z.of_nat n_rhs) = true ->
  apply_padding1 m d lhs n_rhs off = ValueErr.
Proof.
  intros Hlt Hill. unfold apply_padding1, padding_skipped, zlen. change size_guard_before_skip with false; cbn [andb].
  destruct (Z.leb_spec (Z.of_nat (length lhs)) (Z.of_nat n_rhs)); [lia|].
  unfold n_pad_r, n_pad_l. cbv zeta. unfold n_pad_l. now rewrite Hill.
Qed.

Lemma pad_illegal_guard m n n_out off : (n < n_out)%nat ->
  pad_legal m n n_out off = false ->
  illegal_size m (Z.of_nat n) || illegal_padlen m off (Z.of_nat n)
    || illegal_padlen m (Z.of_nat n_out - Z.of_nat n - off) (Z.of_nat n) = true.
Proof.
  intros Hlt. unfold pad_legal. destruct (Nat.leb_spec n_out n); [lia|].
  destruct m; cbn [illegal_size illegal_padlen orb]; try discriminate; intros E.
  - rewrite !Z.geb_leb. apply andb_false_iff in E as [E|E]; apply Z.ltb_ge in E;
      apply orb_true_iff; [left|right]; apply Z.leb_le; lia.
  - rewrite !Z.gtb_ltb. apply andb_false_iff in E as [E|E]; apply Z.leb_gt in E;
      apply orb_true_iff; [left|right]; apply Z.ltb_lt; lia.
  - apply Nat.leb_gt in E. rewrite !orb_false_r. apply Z.eqb_eq; lia.
  - apply Nat.leb_gt in E. rewrite !orb_false_r. apply Z.ltb_lt; lia.
Qed.

Lemma illegal_rejected m (c : R) cast (x y : list R) off :
  (length x < length y)%nat ->
  offset_ok (length x) (length y) off = true ->
  pad_legal m (length x) (length y) off = false ->
  resize1 m Forward c cast x (length y) off = ValueErr /\
  resize1 m Adjoint c cast y (length x) off = ValueErr.
Proof.
  intros Hlt Hoff Hleg. apply offset_ok_spec in Hoff as [H0 Hoff].
  rewrite Nat.min_l, Nat.max_r in Hoff by lia.
  assert (Hm : m <> PConstant).
  { intros ->. unfold pad_legal in Hleg. destruct (length y <=? length x)%nat; discriminate. }
  pose proof (pad_illegal_guard m _ _ off Hlt Hleg) as G.
  assert (E1 : pmode_eqb m PConstant = false) by (destruct m; auto; congruence).
  assert (E2 : padding_applies m = true) by (destruct m; auto; congruence).
  split; rewrite resize1_valid by offv; unfold resize1_core; rewrite E1, E2; cbn [andb negb is_fwd].
  - set (pl := Z.to_nat off). set (pr := (length y - length x - pl)%nat).
    assert (En : length y = (pl + length x + pr)%nat) by (unfold pl, pr; lia).
    assert (Eoff : off = Z.of_nat pl) by (unfold pl; lia).
    rewrite En, Eoff, assign_intersection_grow by lia.
    apply ap1_illegal.
    + rewrite !app_length, !repeat_length; lia.
    + rewrite !app_length, !repeat_length. rewrite <- Eoff.
      replace (Z.of_nat (pl + (length x + pr))) with (Z.of_nat (length y)) by lia. exact G.
  - rewrite ap1_illegal; auto.
Qed.
