(* C16/PGather.v -- _apply_padding for the gather modes (periodic, symmetric) on A ++ B ++ C. *)
From Coq Require Import ZArith Reals Lia Lra List Bool.
From Verif Require Import Base.Num Base.Vec C16.Syntax Gen.Padding C16.Model C16.PLists C16.PPatterns.
Import ListNotations.
Section Fwd.
Context {T : Type} `{Num T}.

Lemma zlen3 (A B C : list T) :
  zlen (A ++ B ++ C) = (Z.of_nat (length A) + Z.of_nat (length B) + Z.of_nat (length C))%Z.
Proof. unfold zlen; rewrite !app_length; lia. Qed.

(* outer slices on A ++ B ++ C *)
Lemma outer_slices (A B C : list T) :
  let a := Z.of_nat (length A) in let b := Z.of_nat (length B) in let c := Z.of_nat (length C) in
  let so := padding_slices_outer a (a + b + c) b in
  slice_indices (fst so) (length (A ++ B ++ C)) = seq 0 (length A) /\
  slice_indices (snd so) (length (A ++ B ++ C)) = seq (length A + length B) (length C).
Proof.
  intros a b c so. subst so. unfold padding_slices_outer. cbv zeta. cbn [fst snd].
  rewrite Z.min_r by lia.
  assert (HN : Z.of_nat (length (A ++ B ++ C)) = (a + b + c)%Z) by (rewrite !app_length; lia).
  split.
  - rewrite slice_up_ns by lia. f_equal; lia.
  - rewrite slice_up_sn by lia. f_equal; [lia|]. rewrite !app_length; lia.
Qed.

Definition gather_mode (m : pmode) : bool :=
  match m with PPeriodic | PSymmetric => true | _ => false end.

Lemma ap1_gather (m : pmode) (d : direction) (A B C : list T) IL IR :
  let a := Z.of_nat (length A) in let b := Z.of_nat (length B) in let c := Z.of_nat (length C) in
  gather_mode m = true ->
  (0 < length A + length C)%nat ->
  illegal_padlen m a b = false -> illegal_padlen m c b = false ->
  slice_indices (fst (padding_slices_inner m a (a + b + c) b)) (length (A ++ B ++ C))
    = map (Nat.add (length A)) IL ->
  slice_indices (snd (padding_slices_inner m a (a + b + c) b)) (length (A ++ B ++ C))
    = map (Nat.add (length A)) IR ->
  length IL = length A -> length IR = length C ->
  Forall (fun i => i < length B)%nat IL -> Forall (fun i => i < length B)%nat IR ->
  apply_padding1 m d (A ++ B ++ C) (length B) a
  = Ok (if is_fwd d then geti B IL ++ B ++ geti B IR
        else A ++ add_at IR C (add_at IL A B) ++ C).
Proof.
  intros a b c Hm Hpos Hl Hr Eil Eir HL HR FL FR.
  unfold apply_padding1. change size_guard_before_skip with false; cbn [andb]. rewrite zlen3. fold a b c.
  unfold padding_skipped. destruct (Z.leb_spec (a + b + c) b) as [Hle|_]; [lia|].
  unfold n_pad_l, n_pad_r. cbv zeta.
  replace (a + b + c - b - a)%Z with c by lia.
  unfold n_pad_l. replace (a + b + c - b - a)%Z with c by lia. rewrite Hl, Hr.
  replace (illegal_size m b) with false by (destruct m; try discriminate Hm; reflexivity).
  cbn [orb].
  destruct (outer_slices A B C) as [Eol Eor]. cbv zeta in Eol, Eor. fold a b c in Eol, Eor.
  destruct (padding_slices_outer a (a + b + c) b) as [so_l so_r].
  destruct (padding_slices_inner m a (a + b + c) b) as [si_l si_r].
  cbn [fst snd] in *. rewrite Eol, Eor, Eil, Eir.
  destruct m; try discriminate Hm; destruct d; cbn [is_fwd].
  all: first [rewrite two_assign by assumption | rewrite two_addto by assumption]; reflexivity.
Qed.


Definition IL_of (m : pmode) (nb pl : nat) : list nat :=
  match m with
  | PPeriodic => seq (nb - pl) pl
  | PSymmetric => map (fun j => pl - j)%nat (seq 0 pl)
  | _ => repeat 0%nat pl
  end.
Definition IR_of (m : pmode) (nb pr : nat) : list nat :=
  match m with
  | PPeriodic => seq 0 pr
  | PSymmetric => map (fun j => nb - 2 - j)%nat (seq 0 pr)
  | _ => repeat (nb - 1)%nat pr
  end.

Lemma IL_length m nb pl : length (IL_of m nb pl) = pl.
Proof. destruct m; cbn; now rewrite ?map_length, ?seq_length, ?repeat_length. Qed.
Lemma IR_length m nb pr : length (IR_of m nb pr) = pr.
Proof. destruct m; cbn; now rewrite ?map_length, ?seq_length, ?repeat_length. Qed.

Lemma inner_periodic (A B C : list T) :
  let a := Z.of_nat (length A) in let b := Z.of_nat (length B) in let c := Z.of_nat (length C) in
  (length A <= length B)%nat -> (length C <= length B)%nat ->
  slice_indices (fst (padding_slices_inner PPeriodic a (a + b + c) b)) (length (A ++ B ++ C))
    = map (Nat.add (length A)) (IL_of PPeriodic (length B) (length A)) /\
  slice_indices (snd (padding_slices_inner PPeriodic a (a + b + c) b)) (length (A ++ B ++ C))
    = map (Nat.add (length A)) (IR_of PPeriodic (length B) (length C)).
Proof.
  intros a b c HA HC. unfold padding_slices_inner. cbv zeta. cbn [fst snd IL_of IR_of].
  rewrite Z.min_r, Z.max_l by lia.
  assert (HN : Z.of_nat (length (A ++ B ++ C)) = (a + b + c)%Z) by (rewrite !app_length; lia).
  split; rewrite slice_up_ss by lia; rewrite seq_add_map; f_equal; lia.
Qed.

Lemma inner_symmetric (A B C : list T) :
  let a := Z.of_nat (length A) in let b := Z.of_nat (length B) in let c := Z.of_nat (length C) in
  (0 < length A + length C)%nat -> (length A < length B)%nat -> (length C < length B)%nat ->
  slice_indices (fst (padding_slices_inner PSymmetric a (a + b + c) b)) (length (A ++ B ++ C))
    = map (Nat.add (length A)) (IL_of PSymmetric (length B) (length A)) /\
  slice_indices (snd (padding_slices_inner PSymmetric a (a + b + c) b)) (length (A ++ B ++ C))
    = map (Nat.add (length A)) (IR_of PSymmetric (length B) (length C)).
Proof.
  intros a b c Hpos HA HC. unfold padding_slices_inner. cbv zeta. cbn [fst snd IL_of IR_of].
  rewrite Z.min_r, Z.max_l by lia.
  assert (HN : Z.of_nat (length (A ++ B ++ C)) = (a + b + c)%Z) by (rewrite !app_length; lia).
  split.
  - rewrite slice_down_ss by lia. rewrite map_map.
    replace (Z.to_nat (a + a - a)) with (length A) by lia.
    apply map_ext_in; intros j Hj; apply in_seq in Hj; cbv beta; lia.
  - rewrite map_map.
    destruct (Z.eqb_spec (a + b - 2 - (a + b + c - (a + b))) (-1)) as [E|E].
    + rewrite slice_down_sn by lia.
      replace (Z.to_nat (a + b - 2 + 1)) with (length C) by lia.
      apply map_ext_in; intros j Hj; apply in_seq in Hj; cbv beta; lia.
    + rewrite slice_down_ss by lia.
      replace (Z.to_nat (a + b - 2 - (a + b - 2 - (a + b + c - (a + b))))) with (length C) by lia.
      apply map_ext_in; intros j Hj; apply in_seq in Hj; cbv beta; lia.
Qed.
End Fwd.
