(* C16/PResize.v -- resize1 (the 1-d resize_array) for the gather modes, structural form. *)
From Coq Require Import ZArith Reals Lia Lra List Bool.
From Verif Require Import Base.Num Base.Vec C16.Syntax Gen.Padding C16.Model C16.PLists C16.PPatterns C16.PGather.
Import ListNotations.
Section Resize.
Context {T : Type} `{Num T}.

Lemma repeat3 (f : T) a b c : repeat f (a + b + c) = repeat f a ++ repeat f b ++ repeat f c.
Proof. now rewrite <- Nat.add_assoc, !repeat_app. Qed.

(* _assign_intersection when the target is larger *)
Lemma assign_intersection_grow (f : T) (x : list T) pl pr : (0 < pl + pr)%nat ->
  assign_intersection (repeat f (pl + length x + pr)) x (Z.of_nat pl)
  = Some (repeat f pl ++ x ++ repeat f pr).
Proof.
  intros Hpos. unfold assign_intersection, zlen. rewrite repeat_length.
  unfold intersection_slices. cbv zeta.
  rewrite Z.gtb_ltb. destruct (Z.ltb_spec (Z.of_nat (length x)) (Z.of_nat (pl + length x + pr))); [|lia].
  rewrite slice_up_ss, slice_up_nn, geti_seq_all by lia.
  replace (Z.to_nat (Z.of_nat pl)) with (length (repeat f pl)) by (rewrite repeat_length; lia).
  replace (Z.to_nat _) with (length (repeat f (length x))) by (rewrite repeat_length; lia).
  rewrite repeat3. apply assign_seq. now rewrite repeat_length.
Qed.

(* ... when the target is smaller: the block at the offset is copied *)
Lemma assign_intersection_shrink (f : T) (A B C : list T) : (0 < length A + length C)%nat ->
  assign_intersection (repeat f (length B)) (A ++ B ++ C) (Z.of_nat (length A)) = Some B.
Proof.
  intros Hpos. unfold assign_intersection, zlen. rewrite repeat_length.
  unfold intersection_slices. cbv zeta. rewrite !app_length.
  rewrite Z.gtb_ltb. destruct (Z.ltb_spec (Z.of_nat (length A + (length B + length C))) (Z.of_nat (length B))); [lia|].
  destruct (Z.ltb_spec (Z.of_nat (length B)) (Z.of_nat (length A + (length B + length C)))); [|lia].
  rewrite slice_up_ss, slice_up_nn by lia.
  replace (Z.to_nat (Z.of_nat (length A))) with (length A) by lia.
  replace (Z.to_nat _) with (length B) by lia.
  rewrite app_assoc. replace (length A) with (length A + 0)%nat at 1 by lia.
  rewrite <- seq_add_map.
  pose proof (geti_mid A B C (seq 0 (length B))) as E. rewrite <- app_assoc.
  rewrite E, geti_seq_all.
  - pose proof (assign_seq [] B [] (repeat f (length B))) as E2. cbn [length app] in E2.
    rewrite repeat_length, !app_nil_r in E2. apply E2; reflexivity.
  - apply Forall_forall; intros i Hi; apply in_seq in Hi; lia.
Qed.

(* ... equal sizes: plain copy, the offset is ignored *)
Lemma assign_intersection_same (f : T) (x : list T) off :
  assign_intersection (repeat f (length x)) x off = Some x.
Proof.
  unfold assign_intersection, zlen. rewrite repeat_length.
  unfold intersection_slices. cbv zeta.
  rewrite Z.gtb_ltb, Z.ltb_irrefl. rewrite slice_up_nn, geti_seq_all.
  pose proof (assign_seq [] x [] (repeat f (length x))) as E2. cbn [length app] in E2.
  rewrite repeat_length, !app_nil_r in E2. apply E2; reflexivity.
Qed.


Definition pads_ok (m : pmode) (n pl pr : nat) : Prop :=
  match m with
  | PConstant => True
  | PPeriodic => (pl <= n /\ pr <= n)%nat
  | PSymmetric => (pl < n /\ pr < n)%nat
  | POrder0 => (1 <= n)%nat
  | POrder1 => (2 <= n)%nat
  end.

Lemma IL_bound m nb pl pr : gather_mode m = true -> pads_ok m nb pl pr -> (0 < pl + pr)%nat ->
  Forall (fun i => i < nb)%nat (IL_of m nb pl).
Proof.
  intros Hm Hok Hpos. apply Forall_forall; intros i Hi.
  destruct m; try discriminate Hm; cbn in Hok, Hi.
  - apply in_map_iff in Hi as [j [<- Hj]]; apply in_seq in Hj; lia.
  - apply in_seq in Hi; lia.
Qed.
Lemma IR_bound m nb pl pr : gather_mode m = true -> pads_ok m nb pl pr -> (0 < pl + pr)%nat ->
  Forall (fun i => i < nb)%nat (IR_of m nb pr).
Proof.
  intros Hm Hok Hpos. apply Forall_forall; intros i Hi.
  destruct m; try discriminate Hm; cbn in Hok, Hi.
  - apply in_map_iff in Hi as [j [<- Hj]]; apply in_seq in Hj; lia.
  - apply in_seq in Hi; lia.
Qed.

Lemma ap1_gather_mode (m : pmode) (d : direction) (A B C : list T) :
  gather_mode m = true -> (0 < length A + length C)%nat ->
  pads_ok m (length B) (length A) (length C) ->
  apply_padding1 m d (A ++ B ++ C) (length B) (Z.of_nat (length A))
  = Ok (if is_fwd d
        then geti B (IL_of m (length B) (length A)) ++ B ++ geti B (IR_of m (length B) (length C))
        else A ++ add_at (IR_of m (length B) (length C)) C
                    (add_at (IL_of m (length B) (length A)) A B) ++ C).
Proof.
  intros Hm Hpos Hok.
  apply ap1_gather; try assumption.
  - destruct m; try discriminate Hm; cbn in Hok |- *; rewrite ?Z.gtb_ltb, ?Z.geb_leb;
      [apply Z.leb_gt | apply Z.ltb_ge]; lia.
  - destruct m; try discriminate Hm; cbn in Hok |- *; rewrite ?Z.gtb_ltb, ?Z.geb_leb;
      [apply Z.leb_gt | apply Z.ltb_ge]; lia.
  - destruct m; try discriminate Hm; cbn in Hok.
    + apply (inner_symmetric A B C); lia.
    + apply (inner_periodic A B C); lia.
  - destruct m; try discriminate Hm; cbn in Hok.
    + apply (inner_symmetric A B C); lia.
    + apply (inner_periodic A B C); lia.
  - apply IL_length.
  - apply IR_length.
  - eapply IL_bound; eassumption.
  - eapply IR_bound; eassumption.
Qed.

Lemma gather_not_const m : gather_mode m = true -> pmode_eqb m PConstant = false /\ padding_applies m = true.
Proof. destruct m; try discriminate; split; reflexivity. Qed.

(* forward, growing: the result is  gather-left ++ x ++ gather-right *)
Lemma resize1_gather_fwd m c cast (x : list T) pl pr :
  gather_mode m = true -> (0 < pl + pr)%nat -> pads_ok m (length x) pl pr ->
  resize1 m Forward c cast x (pl + length x + pr) (Z.of_nat pl)
  = Ok (geti x (IL_of m (length x) pl) ++ x ++ geti x (IR_of m (length x) pr)).
Proof.
  intros Hm Hpos Hok. rewrite resize1_valid by offv. unfold resize1_core. destruct (gather_not_const m Hm) as [E1 E2].
  rewrite E1, E2. cbn [andb negb is_fwd].
  rewrite assign_intersection_grow by exact Hpos.
  pose proof (ap1_gather_mode m Forward (repeat nzero pl) x (repeat nzero pr)) as E.
  rewrite !repeat_length in E. apply E; assumption.
Qed.

(* adjoint, shrinking: scatter-add of the outer parts into the kept block *)
Lemma resize1_gather_adj m c cast (A B C : list T) :
  gather_mode m = true -> (0 < length A + length C)%nat ->
  pads_ok m (length B) (length A) (length C) ->
  resize1 m Adjoint c cast (A ++ B ++ C) (length B) (Z.of_nat (length A))
  = Ok (add_at (IR_of m (length B) (length C)) C (add_at (IL_of m (length B) (length A)) A B)).
Proof.
  intros Hm Hpos Hok. rewrite resize1_valid by offv. unfold resize1_core. destruct (gather_not_const m Hm) as [E1 E2].
  rewrite E1, E2. cbn [andb negb is_fwd].
  rewrite ap1_gather_mode by assumption. cbn [is_fwd].
  set (B' := add_at _ C _).
  assert (HB : length B' = length B) by (unfold B'; now rewrite !add_at_length).
  rewrite <- HB. rewrite assign_intersection_shrink by exact Hpos. reflexivity.
Qed.
End Resize.
