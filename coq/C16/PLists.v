(* C16/PLists.v -- generic list facts, Python slices with in-range bounds. *)
From Coq Require Import ZArith Reals Lia Lra List Bool.
From Verif Require Import Base.Num Base.Vec Base.VecR C16.Syntax Gen.Padding C16.Model.
Import ListNotations.

(* ------------------------------------------------------------------ *)
(* generic list facts (any carrier)                                    *)
Section Lists.
Context {T : Type} `{Num T}.

Lemma upd_length i g (l : list T) : length (upd i g l) = length l.
Proof. revert i; induction l as [|a l IH]; intros [|i]; cbn; auto. Qed.

Lemma upd_app_r i g (a b : list T) :
  upd (length a + i) g (a ++ b) = a ++ upd i g b.
Proof. induction a as [|x a IH]; cbn; [reflexivity | now rewrite IH]. Qed.

Lemma upd_app_l i g (a b : list T) : (i < length a)%nat ->
  upd i g (a ++ b) = upd i g a ++ b.
Proof.
  revert i; induction a as [|x a IH]; intros [|i] Hi; cbn in *; try lia; auto.
  rewrite IH by lia; reflexivity.
Qed.

Lemma set_at_length idx v (l : list T) : length (set_at idx v l) = length l.
Proof.
  revert v l; induction idx as [|i idx IH]; intros [|b v] l; cbn; auto.
  rewrite IH, upd_length; reflexivity.
Qed.
Lemma add_at_length idx v (l : list T) : length (add_at idx v l) = length l.
Proof.
  revert v l; induction idx as [|i idx IH]; intros [|b v] l; cbn; auto.
  rewrite IH, upd_length; reflexivity.
Qed.

(* a[a0 : a0+|v|] = v on a contiguous range *)
Lemma set_at_seq (pre v post old : list T) : length old = length v ->
  set_at (seq (length pre) (length v)) v (pre ++ old ++ post) = pre ++ v ++ post.
Proof.
  revert pre old; induction v as [|b v IH]; intros pre [|o old] Hl; cbn in Hl; try lia.
  - reflexivity.
  - cbn [length seq set_at].
    replace (length pre) with (length pre + 0)%nat at 2 by lia.
    rewrite upd_app_r; cbn [app upd].
    specialize (IH (pre ++ [b]) old ltac:(lia)).
    rewrite app_length in IH; cbn [length] in IH.
    replace (length pre + 1)%nat with (S (length pre)) in IH by lia.
    rewrite <- !app_assoc in IH; cbn [app] in IH. exact IH.
Qed.

Lemma geti_length (a : list T) idx : length (geti a idx) = length idx.
Proof. apply map_length. Qed.

Lemma geti_app (a : list T) i j : geti a (i ++ j) = geti a i ++ geti a j.
Proof. apply map_app. Qed.

(* reading through an index list shifted into the middle block *)
Lemma geti_mid (pre x post : list T) idx :
  Forall (fun i => i < length x)%nat idx ->
  geti (pre ++ x ++ post) (map (Nat.add (length pre)) idx) = geti x idx.
Proof.
  intros Hf; unfold geti; rewrite map_map; apply map_ext_in; intros i Hi.
  rewrite Forall_forall in Hf; specialize (Hf i Hi).
  rewrite app_nth2 by lia. replace (length pre + i - length pre)%nat with i by lia.
  apply app_nth1; exact Hf.
Qed.

Lemma geti_seq_all (x : list T) : geti x (seq 0 (length x)) = x.
Proof.
  apply nth_ext with (d := nzero) (d' := nzero); [now rewrite geti_length, seq_length|].
  intros i Hi; rewrite geti_length, seq_length in Hi.
  unfold geti. rewrite nth_indep with (d' := nth (length x) x nzero) by (now rewrite map_length, seq_length).
  rewrite (map_nth (fun i => nth i x nzero)), seq_nth by lia. reflexivity.
Qed.

(* adding into the middle block through shifted indices *)
Lemma add_at_mid (pre x post : list T) idx v :
  Forall (fun i => i < length x)%nat idx ->
  add_at (map (Nat.add (length pre)) idx) v (pre ++ x ++ post) = pre ++ add_at idx v x ++ post.
Proof.
  revert v x; induction idx as [|i idx IH]; intros [|b v] x Hf; cbn [map add_at]; try reflexivity.
  inversion Hf as [|? ? Hi Hf']; subst.
  rewrite upd_app_r, upd_app_l by exact Hi.
  apply IH. eapply Forall_impl; [|exact Hf']. intros; cbn; now rewrite upd_length.
Qed.

Lemma bcast_same (v : list T) : bcast (length v) v = Some v.
Proof. unfold bcast; now rewrite Nat.eqb_refl. Qed.
End Lists.

(* ------------------------------------------------------------------ *)
(* Python slices with in-range bounds                                  *)
Ltac zb := repeat match goal with
  | |- context [(?a >? ?b)%Z] => rewrite (Z.gtb_ltb a b)
  | |- context [(?a >=? ?b)%Z] => rewrite (Z.geb_leb a b)
  | |- context [(?a <? ?b)%Z] => destruct (Z.ltb_spec a b); try lia
  | |- context [(?a <=? ?b)%Z] => destruct (Z.leb_spec a b); try lia
  | |- context [(?a =? ?b)%Z] => destruct (Z.eqb_spec a b); try lia
  end.

Lemma map_seq_up (a : Z) s k : (0 <= a)%Z ->
  map (fun j => Z.to_nat (a + 1 * Z.of_nat j)) (seq s k) = seq (Z.to_nat a + s) k.
Proof.
  intros Ha; revert s; induction k as [|k IH]; intros s; cbn [seq map]; [reflexivity|].
  f_equal; [lia|]. rewrite IH; f_equal; lia.
Qed.
Lemma map_seq_down (a : Z) k : (Z.of_nat k <= a + 1)%Z ->
  map (fun j => Z.to_nat (a + (-1) * Z.of_nat j)) (seq 0 k) = map (fun j => Z.to_nat a - j)%nat (seq 0 k).
Proof.
  intros Hk; apply map_ext_in; intros j Hj; apply in_seq in Hj; cbv beta; lia.
Qed.

Lemma adj_pos_id n v : (0 <= v <= n)%Z -> adj_pos n v = v.
Proof.
  intros Hv; unfold adj_pos. destruct (Z.ltb_spec v 0); [lia|].
  destruct (Z.ltb_spec v 0); [lia|]. destruct (Z.leb_spec n v); lia.
Qed.
Lemma adj_neg_id n v : (0 <= v < n)%Z -> adj_neg n v = v.
Proof.
  intros Hv; unfold adj_neg. destruct (Z.ltb_spec v 0); [lia|].
  destruct (Z.ltb_spec v 0); [lia|]. destruct (Z.leb_spec n v); lia.
Qed.

Ltac slice_tac :=
  unfold slice_indices, slice_range; cbn [s_step s_start s_stop];
  rewrite ?adj_pos_id, ?adj_neg_id by lia;
  change (0 <? 1)%Z with true; change (0 <? -1)%Z with false; cbv iota.

Lemma slice_up_ss a b n : (0 <= a <= b)%Z -> (b <= Z.of_nat n)%Z ->
  slice_indices (Slice (Some a) (Some b) 1) n = seq (Z.to_nat a) (Z.to_nat (b - a)).
Proof. intros H1 H2; slice_tac; rewrite map_seq_up by lia; f_equal; lia. Qed.
Lemma slice_up_ns b n : (0 <= b <= Z.of_nat n)%Z ->
  slice_indices (Slice None (Some b) 1) n = seq 0 (Z.to_nat b).
Proof. intros H1; slice_tac; rewrite map_seq_up by lia; f_equal; lia. Qed.
Lemma slice_up_sn a n : (0 <= a <= Z.of_nat n)%Z ->
  slice_indices (Slice (Some a) None 1) n = seq (Z.to_nat a) (n - Z.to_nat a).
Proof. intros H1; slice_tac; rewrite map_seq_up by lia; f_equal; lia. Qed.
Lemma slice_up_nn n : slice_indices (Slice None None 1) n = seq 0 n.
Proof. slice_tac; rewrite map_seq_up by lia; f_equal; lia. Qed.
Lemma slice_down_ss a b n : (0 <= b <= a)%Z -> (a < Z.of_nat n)%Z ->
  slice_indices (Slice (Some a) (Some b) (-1)) n
  = map (fun j => Z.to_nat a - j)%nat (seq 0 (Z.to_nat (a - b))).
Proof. intros H1 H2; slice_tac; rewrite map_seq_down by lia; f_equal; f_equal; lia. Qed.
Lemma slice_down_sn a n : (0 <= a < Z.of_nat n)%Z ->
  slice_indices (Slice (Some a) None (-1)) n
  = map (fun j => Z.to_nat a - j)%nat (seq 0 (Z.to_nat (a + 1))).
Proof. intros H1; slice_tac; rewrite map_seq_down by lia; f_equal; f_equal; lia. Qed.

(* ------------------------------------------------------------------ *)
(* the two statement patterns of _apply_padding on  A ++ B ++ C         *)
Section Patterns.
Context {T : Type} `{Num T}.

Lemma seq_add_map a s k : map (Nat.add a) (seq s k) = seq (a + s) k.
Proof.
  revert s; induction k as [|k IH]; intros s; cbn [seq map]; [reflexivity|].
  f_equal. rewrite IH; f_equal; lia.
Qed.

Lemma geti_pre (A R : list T) : geti (A ++ R) (seq 0 (length A)) = A.
Proof.
  transitivity (geti A (seq 0 (length A))); [|apply geti_seq_all].
  unfold geti; apply map_ext_in; intros i Hi.
  apply in_seq in Hi. apply app_nth1; lia.
Qed.
Lemma geti_post (P C : list T) : geti (P ++ C) (seq (length P) (length C)) = C.
Proof.
  transitivity (geti C (seq 0 (length C))); [|apply geti_seq_all].
  unfold geti. replace (length P) with (length P + 0)%nat at 1 by lia.
  rewrite <- seq_add_map, map_map; apply map_ext_in; intros i Hi.
  rewrite app_nth2 by lia. f_equal; lia.
Qed.

End Patterns.

(* ---- the offset validation of resize_array ---- *)
Lemma resize1_valid {T} `{Num T} m d c cast (arr : list T) n_out off :
  offset_invalid (Z.of_nat (length arr)) (Z.of_nat n_out) off = false ->
  resize1 m d c cast arr n_out off = resize1_core m d c cast arr n_out off.
Proof. intros E; unfold resize1; now rewrite E. Qed.

Ltac offv :=
  unfold offset_invalid; rewrite ?app_length;
  apply andb_false_iff;
  first [ left; apply negb_false_iff; apply Z.eqb_eq; lia
        | right; apply negb_false_iff; apply andb_true_iff; split; apply Z.leb_le; lia ].
