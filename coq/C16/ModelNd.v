(* C16/ModelNd.v -- resize_array on N-d arrays (flat C order + shape).
   (1) [resizeN]: the statement sequence of the code, in place, with the
       per-axis loop of _apply_padding and its [working_slc] bookkeeping;
       a sub-array lhs[slc] with one axis singled out is handled as a list of
       "rows" (the index along that axis -> the flat list of the other entries).
   (2) [resize_sep]: the composition of the 1-d [resize1] along axis 0, 1, ...
   Executable definitions only. *)
From Coq Require Import ZArith List Bool.
From Verif Require Import Base.Num Base.Vec Lib.Axis C16.Syntax Gen.Padding C16.Model.
Import ListNotations.

Definition setnth {A} (k : nat) (v : A) (l : list A) : list A :=
  firstn k l ++ match skipn k l with [] => [] | _ :: r => v :: r end.

(* flat C-order positions of the sub-array selected by one index list per axis *)
Fixpoint positions (shape : list nat) (idxs : list (list nat)) : list nat :=
  match shape, idxs with
  | _ :: sh, Ix :: Ixs =>
      let inner := positions sh Ixs in
      let st := prodn sh in
      flat_map (fun i => map (fun p => i * st + p)%nat inner) Ix
  | _, _ => [0%nat]
  end.

Section Nd.
Context {T : Type} `{Num T}.
Local Open Scope num_scope.

Definition row_pos (shape : list nat) (W : list (list nat)) (ax i : nat) : list nat :=
  positions shape (setnth ax [i] W).
Definition get_rows (data : list T) shape W ax (Ix : list nat) : list (list T) :=
  map (fun i => geti data (row_pos shape W ax i)) Ix.
Definition row_size (W : list (list nat)) (ax : nat) : nat :=
  prodn (map (@length nat) (setnth ax [0%nat] W)).

Definition put_rows (set : bool) shape W ax (Ix : list nat) (rows : list (list T)) (data : list T) : list T :=
  fold_left (fun d ir => let pos := row_pos shape W ax (fst ir) in
                         if set then set_at pos (snd ir) d else add_at pos (snd ir) d)
            (combine Ix rows) data.
(* lhs[W, ax := Ix] = rows  /  += rows, rows broadcast along the axis *)
Definition assign_rows shape W ax Ix (rows : list (list T)) (data : list T) : option (list T) :=
  match bcast (length Ix) rows with Some rs => Some (put_rows true shape W ax Ix rs data) | None => None end.
Definition addto_rows shape W ax Ix (rows : list (list T)) (data : list T) : option (list T) :=
  match bcast (length Ix) rows with Some rs => Some (put_rows false shape W ax Ix rs data) | None => None end.

Definition sum_rows (R : nat) (rows : list (list T)) : list T :=
  fold_right (vmap2 nadd) (repeat nzero R) rows.
Definition radd := vmap2 (@nadd T _).
Definition rsub := vmap2 (@nsub T _).
Definition rmul := vmap2 (@nmul T _).
Fixpoint rdiff (l : list (list T)) : list (list T) :=
  match l with
  | a :: ((b :: _) as l') => rsub b a :: rdiff l'
  | _ => []
  end.
Definition arange_rows (R : nat) (a b : Z) : list (list T) := map (fun k => repeat k R) (arange a b).

(* one iteration of the axis loop of _apply_padding; returns the new data *)
Definition ap_axis (m : pmode) (d : direction) (shape : list nat) (W : list (list nat)) (ax : nat)
           (n_rhs : nat) (off : Z) (lhs : list T) : outcome (list T) :=
  let n := nth ax shape 0%nat in
  let nl := Z.of_nat n in let nr := Z.of_nat n_rhs in
  if size_guard_before_skip && illegal_size m nr then ValueErr else
  if padding_skipped nl nr then Ok lhs else
  let pl := n_pad_l off nl nr in let pr := n_pad_r off nl nr in
  if illegal_size m nr || illegal_padlen m pl nr || illegal_padlen m pr nr then ValueErr else
  let '(so_l, so_r) := padding_slices_outer off nl nr in
  let '(si_l, si_r) := padding_slices_inner m off nl nr in
  let ol := slice_indices so_l n in let or_ := slice_indices so_r n in
  let il := slice_indices si_l n in let ir := slice_indices si_r n in
  let R := row_size W ax in
  let get := fun dat Ix => get_rows dat shape W ax Ix in
  let asg := assign_rows shape W ax in
  let add := addto_rows shape W ax in
  match m with
  | PConstant => Ok lhs
  | PPeriodic | PSymmetric =>
      if is_fwd d then
        of_opt (obind (asg ol (get lhs il) lhs) (fun l1 => asg or_ (get l1 ir) l1))
      else
        of_opt (obind (add il (get lhs ol) lhs) (fun l1 => add ir (get l1 or_) l1))
  | POrder0 =>
      if is_fwd d then
        of_opt (obind (asg ol (get lhs il) lhs) (fun l1 => asg or_ (get l1 ir) l1))
      else
        of_opt (obind (add il [sum_rows R (get lhs ol)] lhs)
                      (fun l1 => add ir [sum_rows R (get l1 or_)] l1))
  | POrder1 =>
      let sl_l := Slice (s_start si_l) (option_map (fun v => (v + 1)%Z) (s_stop si_l)) 1 in
      let sl_r := Slice (option_map (fun v => (v - 1)%Z) (s_start si_r)) (s_stop si_r) 1 in
      let sli_l := slice_indices sl_l n in let sli_r := slice_indices sl_r n in
      let ar_l := arange_rows R (- pl) 0 in
      let ar_r := arange_rows R 1 (pr + 1) in
      if is_fwd d then
        let slope_l := rdiff (get lhs sli_l) in
        let slope_r := rdiff (get lhs sli_r) in
        of_opt (
          obind (bop rmul ar_l slope_l) (fun t_l =>
          obind (bop radd (get lhs il) t_l) (fun v_l =>
          obind (asg ol v_l lhs) (fun l1 =>
          obind (bop rmul ar_r slope_r) (fun t_r =>
          obind (bop radd (get l1 ir) t_r) (fun v_r =>
          asg or_ v_r l1))))))
      else
        of_opt (
          obind (add il [sum_rows R (get lhs ol)] lhs) (fun l1 =>
          obind (add ir [sum_rows R (get l1 or_)] l1) (fun l2 =>
          obind (bop rmul ar_l (get l2 ol)) (fun w_l =>
          obind (bop rmul ar_r (get l2 or_)) (fun w_r =>
          let m_l := sum_rows R w_l in let m_r := sum_rows R w_r in
          let neg := fun r => map (fun v => v * of_Z (-1)) r in
          let pos := fun r => map (fun v => v * of_Z 1) r in
          obind (add sli_l [neg m_l; pos m_l] l2) (fun l3 =>
          add sli_r [neg m_r; pos m_r] l3))))))
  end.

(* index lists of the intersection slices, per axis (lhs side, rhs side) *)
Fixpoint inter_idx (lshape rshape : list nat) (offs : list Z) : list (list nat) * list (list nat) :=
  match lshape, rshape, offs with
  | nl :: ls, nr :: rs, o :: os =>
      let '(sl, sr) := intersection_slices o (Z.of_nat nl) (Z.of_nat nr) in
      let '(Ls, Rs) := inter_idx ls rs os in
      (slice_indices sl nl :: Ls, slice_indices sr nr :: Rs)
  | _, _, _ => ([], [])
  end.
Definition full_idx (shape : list nat) : list (list nat) := map (seq 0) shape.

(* NumPy broadcasting of the source index lists to the target ones, per axis *)
Fixpoint bcast_idx (L R : list (list nat)) : option (list (list nat)) :=
  match L, R with
  | l :: L', r :: R' =>
      match bcast_idx L' R' with
      | None => None
      | Some R'' =>
          if (length r =? length l)%nat then Some (r :: R'')
          else match r with [i] => Some (repeat i (length l) :: R'') | _ => None end
      end
  | [], [] => Some []
  | _, _ => None
  end.

(* _assign_intersection(lhs_arr, rhs_arr, offset) *)
Definition assign_intersectionN (lshape : list nat) (lhs : list T) (rshape : list nat) (rhs : list T)
           (offs : list Z) : option (list T) :=
  let '(Ls, Rs) := inter_idx lshape rshape offs in
  match bcast_idx Ls Rs with
  | None => None
  | Some Rs' => Some (set_at (positions lshape Ls) (geti rhs (positions rshape Rs')) lhs)
  end.

(* the axis loop of _apply_padding *)
Fixpoint ap_loop (m : pmode) (d : direction) (lshape rshape : list nat) (offs : list Z)
         (Winter : list (list nat)) (ax : nat) (todo : list (nat * nat * Z))
         (W : list (list nat)) (lhs : list T) : outcome (list T) :=
  match todo with
  | [] => Ok lhs
  | (n_lhs, n_rhs, off) :: todo' =>
      match ap_axis m d lshape W ax n_rhs off lhs with
      | ValueErr => ValueErr
      | Ok lhs' =>
          let W' := if padding_skipped (Z.of_nat n_lhs) (Z.of_nat n_rhs) then W
                    else if is_fwd d then setnth ax (seq 0 n_lhs) W
                    else setnth ax (nth ax Winter []) W in
          ap_loop m d lshape rshape offs Winter (S ax) todo' W' lhs'
      end
  end.

Fixpoint zip3 (a b : list nat) (c : list Z) : list (nat * nat * Z) :=
  match a, b, c with
  | x :: a', y :: b', z :: c' => (x, y, z) :: zip3 a' b' c'
  | _, _, _ => []
  end.

Definition apply_paddingN (m : pmode) (d : direction) (lshape : list nat) (lhs : list T)
           (rshape : list nat) (offs : list Z) : outcome (list T) :=
  if negb (padding_applies m) then Ok lhs else
  let Winter := fst (inter_idx lshape rshape offs) in
  let W0 := if is_fwd d then Winter else full_idx lshape in
  ap_loop m d lshape rshape offs Winter 0 (zip3 lshape rshape offs) W0 lhs.

Fixpoint any_grow (ish osh : list nat) : bool :=
  match ish, osh with
  | a :: i', b :: o' => (a <? b)%nat || any_grow i' o'
  | _, _ => false
  end.

(* the offset validation loop of resize_array *)
Fixpoint offsets_invalid (ish osh : list nat) (offs : list Z) : bool :=
  match ish, osh, offs with
  | a :: i', b :: o', f :: f' => offset_invalid (Z.of_nat a) (Z.of_nat b) f || offsets_invalid i' o' f'
  | _, _, _ => false
  end.

(* resize_array(arr, newshp, offset, pad_mode, pad_const, direction) *)
Definition resizeN (m : pmode) (d : direction) (c : T) (castable : bool)
           (ishape : list nat) (arr : list T) (oshape : list nat) (offs : list Z) : outcome (list T) :=
  if offsets_invalid ishape oshape offs then ValueErr
  else if pmode_eqb m PConstant && negb castable && any_grow ishape oshape then ValueErr
  else if negb (is_fwd d) && pmode_eqb m PConstant && negb (c =? nzero) then ValueErr
  else
    let fillv := if is_fwd d && pmode_eqb m PConstant && negb (c =? nzero) then c else nzero in
    let out := repeat fillv (prodn oshape) in
    if is_fwd d then
      match assign_intersectionN oshape out ishape arr offs with
      | None => ValueErr
      | Some out1 => apply_paddingN m Forward oshape out1 ishape offs
      end
    else
      match apply_paddingN m Adjoint ishape arr oshape offs with
      | ValueErr => ValueErr
      | Ok tmp => of_opt (assign_intersectionN oshape out ishape tmp offs)
      end.

(* ---- separable form: 1-d resize along axis 0, then 1, ... ---- *)
Definition resize1_tot (m : pmode) (d : direction) (c : T) (cast : bool) (n_out : nat) (off : Z)
           (line : list T) : list T :=
  match resize1 m d c cast line n_out off with Ok r => r | ValueErr => repeat nzero n_out end.

Fixpoint sep_loop (m : pmode) (d : direction) (c : T) (cast : bool) (outer : nat)
         (ishape oshape : list nat) (offs : list Z) (x : list T) : list T :=
  match ishape, oshape, offs with
  | n :: ish, n' :: osh, off :: offs' =>
      let x' := along outer n (prodn ish) n' (resize1_tot m d c cast n' off) x in
      sep_loop m d c cast (outer * n')%nat ish osh offs' x'
  | _, _, _ => x
  end.
Definition resize_sep m d c cast ishape oshape offs (x : list T) : list T :=
  sep_loop m d c cast 1 ishape oshape offs x.

(* the same 1-d maps applied in the opposite axis order (last axis first), written for
   the way back: the argument has shape [oshape] and the result shape [ishape]
   (for d = Adjoint these are the forward operator's output/input shapes; for
   d = Forward it is e.g. the crop that undoes an extension).  In exact
   arithmetic the order of the axes does not matter (validated by the correspondence);
   this order makes  resize_sep_rev = transpose of resize_sep  a structural induction. *)
Fixpoint sep_rev_loop (m : pmode) (d : direction) (c : T) (cast : bool) (outer : nat)
         (ishape oshape : list nat) (offs : list Z) (y : list T) : list T :=
  match ishape, oshape, offs with
  | n :: ish, n' :: osh, off :: offs' =>
      along outer n' (prodn ish) n (resize1_tot m d c cast n off)
            (sep_rev_loop m d c cast (outer * n')%nat ish osh offs' y)
  | _, _, _ => y
  end.
Definition resize_sep_rev m d c cast ishape oshape offs (y : list T) : list T :=
  sep_rev_loop m d c cast 1 ishape oshape offs y.

(* admissibility of a whole configuration: every axis in range and legal
   (for the adjoint direction the roles of the two shapes are exchanged) *)
Fixpoint config_ok (m : pmode) (ishape oshape : list nat) (offs : list Z) : bool :=
  match ishape, oshape, offs with
  | n :: ish, n' :: osh, off :: offs' =>
      offset_ok n n' off && pad_legal m n n' off && config_ok m ish osh offs'
  | [], [], [] => true
  | _, _, _ => false
  end.
End Nd.
