(* C16/PAxis.v -- Lib.Axis.along: lengths, and <along F x, y> = <x, along G y> when G is the transpose of F on lines (R). *)
From Coq Require Import ZArith Reals Lia Lra List Bool.
From Verif Require Import Base.Num Base.Vec Base.VecR Lib.Axis C16.PAdjoint.
Import ListNotations.
Local Open Scope R_scope.

(* matrices as lists of rows *)
Definition rect {A} (r c : nat) (M : list (list A)) : Prop :=
  length M = r /\ Forall (fun row => length row = c) M.

Fixpoint dotM (M N : list (list R)) : R :=
  match M, N with
  | a :: M', b :: N' => dot a b + dotM M' N'
  | _, _ => 0
  end.

Lemma rect_nil {A} c : @rect A 0 c [].
Proof. split; [reflexivity | constructor]. Qed.
Lemma rect_cons {A} r c (a : list A) M : length a = c -> rect r c M -> rect (S r) c (a :: M).
Proof. intros Ha [Hl Hf]; split; [cbn; lia | constructor; assumption]. Qed.
Lemma rect_inv {A} r c (a : list A) M : rect r c (a :: M) -> exists r', r = S r' /\ length a = c /\ rect r' c M.
Proof. intros [Hl Hf]; inversion Hf; subst; cbn in *. eexists; repeat split; eauto. Qed.

Lemma chunks_rect {A} k n (l : list A) : length l = (n * k)%nat -> rect n k (chunks k n l).
Proof.
  revert l; induction n as [|n IH]; intros l Hl; cbn [chunks]; [apply rect_nil|].
  apply rect_cons.
  - rewrite firstn_length; lia.
  - apply IH. rewrite skipn_length; lia.
Qed.
Lemma concat_chunks {A} k n (l : list A) : length l = (n * k)%nat -> concat (chunks k n l) = l.
Proof.
  revert l; induction n as [|n IH]; intros l Hl; cbn [chunks concat].
  - destruct l; [reflexivity | cbn in Hl; lia].
  - rewrite IH by (rewrite skipn_length; lia). apply firstn_skipn.
Qed.
Lemma concat_rect_length {A} r c (M : list (list A)) : rect r c M -> length (concat M) = (r * c)%nat.
Proof.
  revert r; induction M as [|a M IH]; intros r HM.
  - destruct HM as [<- _]; reflexivity.
  - apply rect_inv in HM as (r' & -> & Ha & HM). cbn [concat]. rewrite app_length, (IH _ HM), Ha. cbn; lia.
Qed.

Lemma dot_concat r c (M N : list (list R)) : rect r c M -> rect r c N ->
  dot (concat M) (concat N) = dotM M N.
Proof.
  revert r N; induction M as [|a M IH]; intros r [|b N] HM HN; cbn [concat dotM].
  - reflexivity.
  - destruct HM as [<- _]; destruct HN as [HN _]; discriminate.
  - destruct HN as [<- _]; destruct HM as [HM _]; discriminate.
  - apply rect_inv in HM as (r' & -> & Ha & HM). apply rect_inv in HN as (r'' & Er & Hb & HN); injection Er as <-.
    rewrite dot_app by lia. rewrite (IH _ _ HM HN). reflexivity.
Qed.

(* zipcons / transp from Lib.Axis *)
Lemma zipcons_rect {A} c k (a : list A) T : length a = c -> rect c k T -> rect c (S k) (zipcons a T).
Proof.
  revert c T; induction a as [|x a IH]; intros c [|t T] Ha HT; cbn [zipcons].
  - subst; apply rect_nil.
  - destruct HT as [HT _]; cbn in *; lia.
  - destruct HT as [HT _]; cbn in *; lia.
  - apply rect_inv in HT as (c' & -> & Ht & HT). apply rect_cons; [cbn; lia|].
    apply IH; [cbn in Ha; lia | exact HT].
Qed.
Lemma repeat_nil_rect {A} c : @rect A c 0 (repeat [] c).
Proof. split; [apply repeat_length|]. apply Forall_forall; intros x Hx; apply repeat_spec in Hx; now subst. Qed.
Lemma transp_rect {A} r c (M : list (list A)) : rect r c M -> rect c r (transp c M).
Proof.
  revert r; induction M as [|a M IH]; intros r HM; cbn [transp].
  - destruct HM as [<- _]. apply repeat_nil_rect.
  - apply rect_inv in HM as (r' & -> & Ha & HM). apply zipcons_rect; auto.
Qed.

Lemma dotM_zipcons (a b : list R) T1 T2 :
  length a = length b -> length T1 = length a -> length T2 = length a ->
  dotM (zipcons a T1) (zipcons b T2) = dot a b + dotM T1 T2.
Proof.
  revert b T1 T2; induction a as [|x a IH]; intros [|y b] [|t1 T1] [|t2 T2] H1 H2 H3; cbn in H1, H2, H3; try lia.
  - cbn [zipcons dotM]. rewrite dot_nil_l. lra.
  - cbn [zipcons dotM]. rewrite IH by lia. rewrite !dot_cons. lra.
Qed.
Lemma dotM_repeat_nil c : dotM (repeat [] c) (repeat [] c) = 0.
Proof. induction c as [|c IH]; cbn [repeat dotM]; [reflexivity|]. rewrite IH, dot_nil_l. lra. Qed.

Lemma dotM_transp r c (M N : list (list R)) : rect r c M -> rect r c N ->
  dotM (transp c M) (transp c N) = dotM M N.
Proof.
  revert r N; induction M as [|a M IH]; intros r [|b N] HM HN; cbn [transp dotM].
  - apply dotM_repeat_nil.
  - destruct HM as [<- _]; destruct HN as [HN _]; discriminate.
  - destruct HN as [<- _]; destruct HM as [HM _]; discriminate.
  - apply rect_inv in HM as (r' & -> & Ha & HM). apply rect_inv in HN as (r'' & Er & Hb & HN); injection Er as <-.
    pose proof (transp_rect _ _ _ HM) as [H1 _]. pose proof (transp_rect _ _ _ HN) as [H2 _].
    rewrite dotM_zipcons by lia. rewrite (IH _ _ HM HN). reflexivity.
Qed.

Lemma transp_zipcons {A} r (a : list A) T : length T = length a ->
  transp (S r) (zipcons a T) = a :: transp r T.
Proof.
  revert T; induction a as [|x a IH]; intros [|t T] Hl; cbn in Hl; try lia.
  - reflexivity.
  - cbn [zipcons transp]. rewrite IH by lia. reflexivity.
Qed.
Lemma transp_transp {A} r c (M : list (list A)) : rect r c M -> transp r (transp c M) = M.
Proof.
  revert r; induction M as [|a M IH]; intros r HM; cbn [transp].
  - destruct HM as [<- _]. induction c as [|c IHc]; cbn; auto.
  - apply rect_inv in HM as (r' & -> & Ha & HM).
    pose proof (transp_rect _ _ _ HM) as [H1 _].
    rewrite transp_zipcons by lia. now rewrite (IH _ HM).
Qed.

Lemma map_rect {A} r c c' (F : list A -> list A) M :
  (forall u, length u = c -> length (F u) = c') -> rect r c M -> rect r c' (map F M).
Proof.
  intros HF [Hl Hf]; split; [now rewrite map_length|].
  apply Forall_forall; intros x Hx; apply in_map_iff in Hx as (u & <- & Hu).
  apply HF. rewrite Forall_forall in Hf; auto.
Qed.

Lemma dotM_map_adj r c c' (F G : list R -> list R) M N :
  (forall u v, length u = c -> length v = c' -> dot (F u) v = dot u (G v)) ->
  rect r c M -> rect r c' N -> dotM (map F M) N = dotM M (map G N).
Proof.
  intros Hadj. revert r N; induction M as [|a M IH]; intros r [|b N] HM HN; cbn [map dotM]; try reflexivity.
  apply rect_inv in HM as (r' & -> & Ha & HM). apply rect_inv in HN as (r'' & Er & Hb & HN); injection Er as <-.
  rewrite Hadj by assumption. rewrite (IH _ _ HM HN). reflexivity.
Qed.

(* one block: F along the rows index of an n x inner block *)
Lemma along_block_length (n inner n' : nat) (F : list R -> list R) blk :
  (forall u, length u = n -> length (F u) = n') -> length blk = (n * inner)%nat ->
  length (along_block n inner n' F blk) = (n' * inner)%nat.
Proof.
  intros HF Hl. unfold along_block.
  apply concat_rect_length. apply transp_rect. eapply map_rect; [exact HF|].
  apply transp_rect. apply chunks_rect. exact Hl.
Qed.

Lemma along_block_adj (n inner n' : nat) (F G : list R -> list R) bx by_ :
  (forall u, length u = n -> length (F u) = n') ->
  (forall v, length v = n' -> length (G v) = n) ->
  (forall u v, length u = n -> length v = n' -> dot (F u) v = dot u (G v)) ->
  length bx = (n * inner)%nat -> length by_ = (n' * inner)%nat ->
  dot (along_block n inner n' F bx) by_ = dot bx (along_block n' inner n G by_).
Proof.
  intros HF HG Hadj Hx Hy. unfold along_block.
  set (X := chunks inner n bx). set (Y := chunks inner n' by_).
  assert (RX : rect n inner X) by (apply chunks_rect; exact Hx).
  assert (RY : rect n' inner Y) by (apply chunks_rect; exact Hy).
  assert (RXt : rect inner n (transp inner X)) by (apply transp_rect; exact RX).
  assert (RYt : rect inner n' (transp inner Y)) by (apply transp_rect; exact RY).
  assert (RFX : rect inner n' (map F (transp inner X))) by (eapply map_rect; eauto).
  assert (RGY : rect inner n (map G (transp inner Y))) by (eapply map_rect; eauto).
  rewrite <- (concat_chunks inner n' by_ Hy) at 1. fold Y.
  rewrite (dot_concat n' inner) by (auto; apply transp_rect; exact RFX).
  rewrite <- (transp_transp _ _ Y RY) at 1.
  rewrite (dotM_transp inner n') by (auto).
  rewrite (dotM_map_adj inner n n' F G) by auto.
  rewrite <- (dotM_transp inner n) by auto.
  rewrite (transp_transp _ _ X RX).
  rewrite <- (dot_concat n inner) by (auto; apply transp_rect; exact RGY).
  unfold X. rewrite (concat_chunks inner n bx Hx). reflexivity.
Qed.

(* the whole array: outer blocks *)
Lemma along_length (outer n inner n' : nat) (F : list R -> list R) x :
  (forall u, length u = n -> length (F u) = n') -> length x = (outer * (n * inner))%nat ->
  length (along outer n inner n' F x) = (outer * (n' * inner))%nat.
Proof.
  intros HF Hl. unfold along. apply concat_rect_length.
  eapply map_rect; [|apply chunks_rect; exact Hl].
  intros u Hu. apply along_block_length; auto.
Qed.

Lemma along_adj (outer n inner n' : nat) (F G : list R -> list R) x y :
  (forall u, length u = n -> length (F u) = n') ->
  (forall v, length v = n' -> length (G v) = n) ->
  (forall u v, length u = n -> length v = n' -> dot (F u) v = dot u (G v)) ->
  length x = (outer * (n * inner))%nat -> length y = (outer * (n' * inner))%nat ->
  dot (along outer n inner n' F x) y = dot x (along outer n' inner n G y).
Proof.
  intros HF HG Hadj Hx Hy. unfold along.
  set (X := chunks (n * inner) outer x). set (Y := chunks (n' * inner) outer y).
  assert (RX : rect outer (n * inner) X) by (apply chunks_rect; exact Hx).
  assert (RY : rect outer (n' * inner) Y) by (apply chunks_rect; exact Hy).
  rewrite <- (concat_chunks (n' * inner) outer y Hy) at 1. fold Y.
  rewrite (dot_concat outer (n' * inner));
    [| eapply map_rect; [|exact RX]; intros u Hu; apply along_block_length; auto | exact RY].
  rewrite (dotM_map_adj outer (n * inner) (n' * inner) _ (along_block n' inner n G));
    [| intros u v Hu Hv; apply along_block_adj; auto | exact RX | exact RY].
  rewrite <- (dot_concat outer (n * inner));
    [| exact RX | eapply map_rect; [|exact RY]; intros u Hu; apply along_block_length; auto].
  unfold X. rewrite (concat_chunks (n * inner) outer x Hx). reflexivity.
Qed.
