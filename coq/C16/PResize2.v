(* C16/PResize2.v -- resize1 in structural form for every non-constant mode; cropping. *)
From Coq Require Import ZArith Reals Lia Lra List Bool.
From Verif Require Import Base.Num Base.Vec C16.Syntax Gen.Padding C16.Model
  C16.PLists C16.PPatterns C16.PGather C16.PResize C16.POrder.
Import ListNotations.
Section Resize2.
Context {T : Type} `{Num T}.
Local Open Scope num_scope.

Lemma order_not_const m : order_mode m = true -> pmode_eqb m PConstant = false /\ padding_applies m = true.
Proof. destruct m; try discriminate; split; reflexivity. Qed.

Definition fwd_struct (m : pmode) (c : T) (x : list T) (pl pr : nat) : list T :=
  match m with
  | PConstant => repeat c pl ++ x ++ repeat c pr
  | PPeriodic | PSymmetric => geti x (IL_of m (length x) pl) ++ x ++ geti x (IR_of m (length x) pr)
  | POrder0 => repeat (nth 0 x nzero) pl ++ x ++ repeat (lastn x) pr
  | POrder1 => ramp_l x pl ++ x ++ ramp_r x pr
  end.

Definition adj_struct (m : pmode) (A B C : list T) : list T :=
  match m with
  | PConstant => B
  | PPeriodic | PSymmetric =>
      add_at (IR_of m (length B) (length C)) C (add_at (IL_of m (length B) (length A)) A B)
  | POrder0 => add_at [(length B - 1)%nat] [sumf C] (add_at [0%nat] [sumf A] B)
  | POrder1 =>
      add_at [(length B - 2)%nat; (length B - 1)%nat] [mom_r C * of_Z (-1); mom_r C * of_Z 1]
        (add_at [0%nat; 1%nat] [mom_l A * of_Z (-1); mom_l A * of_Z 1]
           (add_at [(length B - 1)%nat] [sumf C] (add_at [0%nat] [sumf A] B)))
  end.

Lemma adj_struct_length m (A B C : list T) : length (adj_struct m A B C) = length B.
Proof. destruct m; cbn [adj_struct]; now rewrite ?add_at_length. Qed.

(* forward, growing, every non-constant mode *)
Lemma resize1_fwd_grow m c cast (x : list T) pl pr :
  m <> PConstant -> (0 < pl + pr)%nat -> pads_ok m (length x) pl pr ->
  resize1 m Forward c cast x (pl + length x + pr) (Z.of_nat pl) = Ok (fwd_struct m c x pl pr).
Proof.
  intros Hm Hpos Hok.
  destruct m; try congruence.
  - apply resize1_gather_fwd; auto.
  - apply resize1_gather_fwd; auto.
  - rewrite resize1_valid by offv. unfold resize1_core. cbn [pmode_eqb andb negb is_fwd padding_applies].
    rewrite assign_intersection_grow by exact Hpos.
    pose proof (ap1_order0 Forward (repeat nzero pl) x (repeat nzero pr)) as E.
    rewrite !repeat_length in E. apply E; [lia | exact Hok].
  - rewrite resize1_valid by offv. unfold resize1_core. cbn [pmode_eqb andb negb is_fwd padding_applies].
    rewrite assign_intersection_grow by exact Hpos.
    pose proof (ap1_order1 Forward (repeat nzero pl) x (repeat nzero pr)) as E.
    rewrite !repeat_length in E. apply E; [lia | exact Hok].
Qed.

(* adjoint, shrinking, every non-constant mode *)
Lemma resize1_adj_shrink m c cast (A B C : list T) :
  m <> PConstant -> (0 < length A + length C)%nat ->
  pads_ok m (length B) (length A) (length C) ->
  resize1 m Adjoint c cast (A ++ B ++ C) (length B) (Z.of_nat (length A)) = Ok (adj_struct m A B C).
Proof.
  intros Hm Hpos Hok.
  destruct m; try congruence.
  - apply resize1_gather_adj; auto.
  - apply resize1_gather_adj; auto.
  - rewrite resize1_valid by offv. unfold resize1_core. cbn [pmode_eqb andb negb is_fwd padding_applies].
    rewrite ap1_order0 by assumption. cbn [is_fwd].
    pose proof (adj_struct_length POrder0 A B C) as HB. cbn [adj_struct] in HB.
    rewrite <- HB at 1. rewrite assign_intersection_shrink by exact Hpos. reflexivity.
  - rewrite resize1_valid by offv. unfold resize1_core. cbn [pmode_eqb andb negb is_fwd padding_applies].
    rewrite ap1_order1 by assumption. cbn [is_fwd].
    pose proof (adj_struct_length POrder1 A B C) as HB. cbn [adj_struct] in HB.
    rewrite <- HB at 1. rewrite assign_intersection_shrink by exact Hpos. reflexivity.
Qed.

Lemma ap1_skipped m d (lhs : list T) n_rhs off : (length lhs <= n_rhs)%nat ->
  apply_padding1 m d lhs n_rhs off = Ok lhs.
Proof.
  intros Hle. unfold apply_padding1, padding_skipped, zlen. change size_guard_before_skip with false; cbn [andb].
  destruct (Z.leb_spec (Z.of_nat (length lhs)) (Z.of_nat n_rhs)); [reflexivity | lia].
Qed.

(* forward, shrinking: plain crop at the offset, every mode *)
Lemma resize1_fwd_shrink m c cast (A B C : list T) : (0 < length A + length C)%nat ->
  resize1 m Forward c cast (A ++ B ++ C) (length B) (Z.of_nat (length A)) = Ok B.
Proof.
  intros Hpos. rewrite resize1_valid by offv. unfold resize1_core.
  assert (E : (length (A ++ B ++ C) <? length B)%nat = false)
    by (apply Nat.ltb_ge; rewrite !app_length; lia).
  rewrite E, andb_false_r. cbn [is_fwd negb andb].
  rewrite assign_intersection_shrink by exact Hpos.
  destruct (padding_applies m); [|reflexivity].
  apply ap1_skipped. rewrite !app_length; lia.
Qed.
End Resize2.
