(* C16/Corr.v -- correspondence checkers (executed at Q by the shards). *)
From Coq Require Import ZArith QArith List Bool.
From Verif Require Import Base.Num Base.Vec Base.Check C16.Syntax Gen.Padding C16.Model.
Import ListNotations.

Inductive impl_out := IOk (r : list Q) | IValueErr | IOtherErr.

Record case1 := { k_m : pmode; k_d : direction; k_c : Q; k_cast : bool;
                  k_arr : list Q; k_nout : nat; k_off : Z; k_out : impl_out }.

Definition Qs_eq := Qsclose 0 0.

(* model = implementation (outputs exactly, errors as an enum); and, on the
   inputs the theorems speak about, model = index-formula reference *)
Definition check1 (k : case1) : bool :=
  let r := resize1 (k_m k) (k_d k) (k_c k) (k_cast k) (k_arr k) (k_nout k) (k_off k) in
  match r, k_out k with
  | Ok r, IOk r' => Qs_eq r' r
  | ValueErr, IValueErr => true
  | _, _ => false
  end
  && (if is_fwd (k_d k) && offset_ok (length (k_arr k)) (k_nout k) (k_off k)
         && (k_cast k || negb (pmode_eqb (k_m k) PConstant)) then
        if pad_legal (k_m k) (length (k_arr k)) (k_nout k) (k_off k) then
          match r with
          | Ok r => Qs_eq r (resize_ref (k_m k) (k_c k) (k_arr k) (k_nout k) (k_off k))
          | ValueErr => false
          end
        else match r with ValueErr => true | Ok _ => false end
      else true).

(* ---- N-d arrays ---- *)
From Verif Require Import Lib.Axis C16.ModelNd.
Record caseN := { n_m : pmode; n_d : direction; n_c : Q; n_cast : bool;
                  n_ishape : list nat; n_arr : list Q; n_oshape : list nat; n_offs : list Z;
                  n_out : impl_out }.

(* (1) the in-place N-d model = implementation (outputs exactly, errors as enum);
   (2) on admissible configurations the separable composition of 1-d resizes
       gives the same array *)
Definition checkN (k : caseN) : bool :=
  let r := resizeN (n_m k) (n_d k) (n_c k) (n_cast k) (n_ishape k) (n_arr k) (n_oshape k) (n_offs k) in
  match r, n_out k with
  | Ok r, IOk r' => Qs_eq r' r
  | ValueErr, IValueErr => true
  | _, _ => false
  end
  && (let ok := if is_fwd (n_d k) then config_ok (n_m k) (n_ishape k) (n_oshape k) (n_offs k)
                else config_ok (n_m k) (n_oshape k) (n_ishape k) (n_offs k) in
      if ok && (n_cast k || negb (pmode_eqb (n_m k) PConstant))
            && (is_fwd (n_d k) || negb (pmode_eqb (n_m k) PConstant) || Qeq_bool (n_c k) 0) then
        match n_out k with
        | IOk r' => Qs_eq r' (resize_sep (n_m k) (n_d k) (n_c k) (n_cast k)
                                (n_ishape k) (n_oshape k) (n_offs k) (n_arr k))
        | _ => false
        end
      else true).
