(* C16/Corr.v -- correspondence checkers (executed at Q by the shards). *)
From Coq Require Import ZArith QArith List Bool.
From Verif Require Import Base.Num Base.Vec Base.Check C16.Syntax Gen.Padding C16.Model.
Import ListNotations.

Inductive impl_out := IOk (r : list Q) | IValueErr | IOtherErr.

Record case1 := { k_m : pmode; k_d : direction; k_c : Q; k_cast : bool;
                  k_arr : list Q; k_nout : nat; k_off : Z; k_out : impl_out;
                  k_kept : bool   (* the caller's input is bitwise unchanged and a second call agrees *) }.

Definition Qs_eq := Qsclose 0 0.

(* model = implementation (outputs exactly, errors as an enum); and, on the
   inputs the theorems speak about, model = index-formula reference *)
Definition check1 (k : case1) : bool :=
  k_kept k &&
  let r := resize1 (k_m k) (k_d k) (k_c k) (k_cast k) (k_arr k) (k_nout k) (k_off k) in
  match r, k_out k with
  | Ok r, IOk r' => Qs_eq r' r
  | ValueErr, IValueErr => true
  | _, _ => false
  end
  && (if is_fwd (k_d k) && offset_ok (length (k_arr k)) (k_nout k) (k_off k)
         && (k_cast k || negb (pmode_eqb (k_m k) PConstant)) then
        if pad_legal (k_m k) (length (k_arr k)) (k_nout k) (k_off k) then
          match r with
          | Ok r => Qs_eq r (resize_ref (k_m k) (k_c k) (k_arr k) (k_nout k) (k_off k))
          | ValueErr => false
          end
        else match r with ValueErr => true | Ok _ => false end
      else true).

(* ---- N-d arrays ---- *)
From Verif Require Import Lib.Axis C16.ModelNd.
Record caseN := { n_m : pmode; n_d : direction; n_c : Q; n_cast : bool;
                  n_ishape : list nat; n_arr : list Q; n_oshape : list nat; n_offs : list Z;
                  n_out : impl_out; n_kept : bool }.

(* (1) the in-place N-d model = implementation (outputs exactly, errors as enum);
   (2) on admissible configurations the separable composition of 1-d resizes
       gives the same array *)
Definition checkN (k : caseN) : bool :=
  n_kept k &&
  let r := resizeN (n_m k) (n_d k) (n_c k) (n_cast k) (n_ishape k) (n_arr k) (n_oshape k) (n_offs k) in
  match r, n_out k with
  | Ok r, IOk r' => Qs_eq r' r
  | ValueErr, IValueErr => true
  | _, _ => false
  end
  && (let ok := if is_fwd (n_d k) then config_ok (n_m k) (n_ishape k) (n_oshape k) (n_offs k)
                else config_ok (n_m k) (n_oshape k) (n_ishape k) (n_offs k) in
      if ok && (n_cast k || negb (pmode_eqb (n_m k) PConstant))
            && (is_fwd (n_d k) || negb (pmode_eqb (n_m k) PConstant) || Qeq_bool (n_c k) 0) then
        match n_out k with
        | IOk r' => Qs_eq r' (resize_sep (n_m k) (n_d k) (n_c k) (n_cast k)
                                (n_ishape k) (n_oshape k) (n_offs k) (n_arr k))
                    && Qs_eq r' (resize_sep_rev (n_m k) (n_d k) (n_c k) (n_cast k)
                                    (n_oshape k) (n_ishape k) (n_offs k) (n_arr k))
        | _ => false
        end
      else true).

(* ---- ResizingOperator: range construction, offset, call / adjoint / inverse ---- *)
From Verif Require Import Base.Vec Gen.ResizeDiscr C16.ModelOp.
Record caseOp := { o_adjguard : bool; o_m : pmode; o_c : Q;
                   (* the user's pad_const cast to each dtype (tag 0 float64, 1 float32, 2 int64), cast twice
                      (range dtype, then domain dtype: what .inverse pads with), and the stored op.pad_const *)
                   o_ccast : list Q; o_cinv : list (list Q); o_padconst : Q;
                   o_dom : list (Q * Q * Z * (bool * bool));        (* min, max, n, nodes_on_bdry *)
                   o_nnew : list Z; o_off : list (option Z); o_flags : list (bool * bool);
                   o_rmin : list Q; o_rmax : list Q; o_rcs : list Q; o_offset : list Z;
                   o_islinear : bool; o_axes : list nat;
                   o_x : list Q; o_fx : impl_out; o_y : list Q; o_ay : impl_out; o_inv : impl_out;
                   (* attributes of the inferred range: weighting constant, exponent, dtype tag;
                      domain value, value in discr_kwargs (if any), observed range value *)
                   o_w : Q * option Q * Q; o_exp : Q * option Q * Q; o_dtype : nat * option nat * nat;
                   (* <op x, y>_range and <x, op.adjoint y>_domain as computed by the library (when defined) *)
                   o_inner : option (Q * Q);
                   o_kept : bool   (* x and y bitwise unchanged by op(x), op.adjoint(y) (called twice) *) }.

Definition mk_axis (d : Q * Q * Z * (bool * bool)) : @axis Q :=
  let '(mn, mx, n, (bl, br)) := d in {| a_min := mn; a_max := mx; a_n := n; a_bl := bl; a_br := br |}.
Fixpoint range_axes (doms : list (Q * Q * Z * (bool * bool))) (nnew : list Z)
         (offs : list (option Z)) (flags : list (bool * bool)) : list (@axis Q) :=
  match doms, nnew, offs, flags with
  | d :: ds, n :: ns, o :: os, (bl, br) :: fs =>
      resize_axis (mk_axis d) n o bl br :: range_axes ds ns os fs
  | _, _, _, _ => []
  end.
Fixpoint model_offsets (doms : list (Q * Q * Z * (bool * bool))) (nnew : list Z)
         (offs : list (option Z)) : list Z :=
  match doms, nnew, offs with
  | d :: ds, n :: ns, o :: os =>
      (let nl := fst (num_lr (a_n (mk_axis d)) n o) in
       if (n =? a_n (mk_axis d))%Z then 0%Z else if (a_n (mk_axis d) <? n)%Z then nl else (- nl)%Z)
        :: model_offsets ds ns os
  | _, _, _ => []
  end.
Definition optol : Q := 1 # 1000000000000.
Definition out_eq (a : outcome (list Q)) (b : impl_out) : bool :=
  match a, b with
  | Ok r, IOk r' => Qs_eq r' r
  | ValueErr, IValueErr => true
  | _, _ => false
  end.

Definition checkOp (k : caseOp) : bool :=
  let axes := range_axes (o_dom k) (o_nnew k) (o_off k) (o_flags k) in
  let ish := map (fun d => Z.to_nat (a_n (mk_axis d))) (o_dom k) in
  let osh := map Z.to_nat (o_nnew k) in
  let offs := model_offsets (o_dom k) (o_nnew k) (o_off k) in
  (* pad_const is stored in the RANGE dtype; linear iff not constant mode or the stored value is 0 *)
  let rdt := snd (o_dtype k) in let ddt := fst (fst (o_dtype k)) in
  let padc := nth rdt (o_ccast k) 0 in
  let padc_inv := nth ddt (nth rdt (o_cinv k) []) 0 in
  let linear := negb (pmode_eqb (o_m k) PConstant) || Qeq_bool padc 0 in
  Qsclose optol 0 (o_rmin k) (map a_min axes)
  && Qsclose optol 0 (o_rmax k) (map a_max axes)
  && Qsclose optol 0 (o_rcs k) (map cell_side axes)
  && Zeqs (o_offset k) offs
  && beq (o_islinear k) linear
  && all2 Nat.eqb (o_axes k)
       (filter (fun i => negb (Nat.eqb (nth i ish 0%nat) (nth i osh 0%nat))) (seq 0 (length ish)))
  && Qeq_bool (o_padconst k) padc
  && out_eq (resizeN (o_m k) Forward padc true ish (o_x k) osh offs) (o_fx k)
  && ((* [o_adjguard]: this operator's .adjoint is refused because a space is not uniformly
         weighted -- only in the variant of the code with the proposed fix for finding
         adjoint-nodes-on-bdry; measured by the harness (is_uniformly_weighted of both spaces) *)
      if linear && negb (o_adjguard k)
      then out_eq (resizeN (o_m k) Adjoint 0 true osh (o_y k) ish offs) (o_ay k)
      else match o_ay k with IOtherErr => true | _ => false end)
  && match o_fx k with
     | IOk fx => out_eq (resizeN (o_m k) Forward padc_inv true osh fx ish offs) (o_inv k)
     | _ => true
     end
  && o_kept k
  && (let '(dw, kw, rw) := o_w k in Qeq_bool rw (range_attr kw dw))
  && (let '(de, ke, re) := o_exp k in Qeq_bool re (range_attr ke de))
  && (let '(dd, kd, rd) := o_dtype k in Nat.eqb rd (range_attr kd dd))
  && match o_inner k, resizeN (o_m k) Forward padc true ish (o_x k) osh offs,
           resizeN (o_m k) Adjoint 0 true osh (o_y k) ish offs with
     | Some (ir, id), Ok fx, Ok ay =>
         let '(dw, _, rw) := o_w k in
         Qclose optol 0 ir (rw * dot fx (o_y k)) && Qclose optol 0 id (dw * dot (o_x k) ay)
         && (negb (Qeq_bool dw rw) || Qclose optol 0 ir id)
     | Some _, _, _ => false
     | None, _, _ => true
     end.
