(* C16/PPatterns.v -- the two statement patterns of _apply_padding on A ++ B ++ C. *)
From Coq Require Import ZArith Reals Lia Lra List Bool.
From Verif Require Import Base.Num Base.Vec Base.VecR C16.Syntax Gen.Padding C16.Model C16.PLists.
Import ListNotations.
Section Patterns.
Context {T : Type} `{Num T}.
Lemma assign_seq (pre v post old : list T) : length old = length v ->
  assign (seq (length pre) (length old)) v (pre ++ old ++ post) = Some (pre ++ v ++ post).
Proof.
  intros Hl. unfold assign. rewrite seq_length, Hl, bcast_same. rewrite set_at_seq by exact Hl. reflexivity.
Qed.

Lemma two_assign (A B C : list T) IL IR :
  length IL = length A -> length IR = length C ->
  Forall (fun i => i < length B)%nat IL -> Forall (fun i => i < length B)%nat IR ->
  obind (assign (seq 0 (length A)) (geti (A ++ B ++ C) (map (Nat.add (length A)) IL)) (A ++ B ++ C))
        (fun l1 => assign (seq (length A + length B) (length C))
                          (geti l1 (map (Nat.add (length A)) IR)) l1)
  = Some (geti B IL ++ B ++ geti B IR).
Proof.
  intros HL HR FL FR.
  rewrite geti_mid by exact FL.
  pose proof (assign_seq [] (geti B IL) (B ++ C) A) as E1.
  cbn [length app] in E1. rewrite E1 by (now rewrite geti_length). clear E1.
  cbn [obind].
  assert (HA : length A = length (geti B IL)) by (now rewrite geti_length).
  rewrite HA at 2. rewrite geti_mid by exact FR.
  pose proof (assign_seq (geti B IL ++ B) (geti B IR) [] C) as E2.
  rewrite app_length, <- HA, !app_nil_r, <- !app_assoc in E2.
  rewrite E2 by (now rewrite geti_length). reflexivity.
Qed.

Lemma two_addto (A B C : list T) IL IR :
  length IL = length A -> length IR = length C ->
  Forall (fun i => i < length B)%nat IL -> Forall (fun i => i < length B)%nat IR ->
  obind (addto (map (Nat.add (length A)) IL) (geti (A ++ B ++ C) (seq 0 (length A))) (A ++ B ++ C))
        (fun l1 => addto (map (Nat.add (length A)) IR)
                         (geti l1 (seq (length A + length B) (length C))) l1)
  = Some (A ++ add_at IR C (add_at IL A B) ++ C).
Proof.
  intros HL HR FL FR.
  rewrite geti_pre. unfold addto at 1. rewrite map_length, HL, bcast_same. cbn [obind].
  rewrite add_at_mid by exact FL.
  assert (Hlen : length (add_at IL A B) = length B) by apply add_at_length.
  rewrite <- Hlen, app_assoc, <- app_length, geti_post.
  unfold addto. rewrite map_length, HR, bcast_same.
  rewrite <- app_assoc, add_at_mid; [reflexivity|].
  eapply Forall_impl; [|exact FR]. intros; cbn. now rewrite Hlen.
Qed.
End Patterns.
