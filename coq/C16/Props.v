(* C16/Props.v -- property theorems only; each is closed by [exact] of a lemma
   from C16/P*.v and followed by Print Assumptions.  The model [resize1]
   (C16/Model.v) is the 1-d resize_array; its slice arithmetic and legality
   guards are REGENERATED from odl/util/numerics.py into Gen/Padding.v.
   [offset_ok n n_out off]  : 0 <= off and off + min <= max (the block fits);
   [pad_legal m n n_out off]: the padding lengths the docstring allows for mode m. *)
From Coq Require Import ZArith Reals List Bool.
From Verif Require Import Base.Num Base.Vec Base.VecR C16.Syntax Gen.Padding C16.Model C16.Proofs.
Import ListNotations.
Local Open Scope R_scope.

(* T1: forward and adjoint directions are transposes of each other.  For every
   mode, every input length, every output length (growing, shrinking, equal),
   every admissible offset and all contents x, y: both directions succeed and
   <R x, y> = <x, R^T y>.  (pad_const = 0: the operator is linear.) *)
Theorem resize_adjoint : forall (m : pmode) (x y : list R) (off : Z),
  offset_ok (length x) (length y) off = true ->
  pad_legal m (length x) (length y) off = true ->
  exists fx ay,
    resize1 m Forward 0 true x (length y) off = Ok fx /\
    resize1 m Adjoint 0 true y (length x) off = Ok ay /\
    length fx = length y /\ length ay = length x /\
    dot fx y = dot x ay.
Proof. exact adjoint_all. Qed.
Print Assumptions resize_adjoint.

(* non-vacuity: the side conditions hold e.g. for 3 -> 7 with offset 2 in every mode,
   5 -> 2 with offset 3, and periodic padding as long as the array itself *)
Example side_conditions_satisfiable :
  forallb (fun m => offset_ok 3 7 2 && pad_legal m 3 7 2 && offset_ok 5 2 3 && pad_legal m 5 2 3) all_pmodes = true
  /\ (offset_ok 3 9 3 && pad_legal PPeriodic 3 9 3 = true).
Proof. split; vm_compute; reflexivity. Qed.
