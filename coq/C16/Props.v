(* C16/Props.v -- property theorems only; each is closed by [exact] of a lemma
   from C16/P*.v and followed by Print Assumptions.  The model [resize1]
   (C16/Model.v) is the 1-d resize_array; its slice arithmetic and legality
   guards are REGENERATED from odl/util/numerics.py into Gen/Padding.v.
   [offset_ok n n_out off]  : 0 <= off and off + min <= max (the block fits);
   [pad_legal m n n_out off]: the padding lengths the docstring allows for mode m. *)
From Coq Require Import ZArith Reals List Bool.
From Verif Require Import Base.Num Base.Vec Base.VecR C16.Syntax Gen.Padding C16.Model C16.Proofs.
Import ListNotations.
Local Open Scope R_scope.

(* T1: the forward direction computes exactly the named rule.  [resize_ref]
   (C16/Model.v) is the index formula: entry i of the result is position i - off of
   the extension of x -- x itself inside, and outside: the constant; periodic
   x[(j) mod n]; symmetric x[-j] / x[2(n-1)-j] (reflection WITHOUT repeating the
   edge); order0 the edge value; order1 the edge value plus (distance) * edge slope --
   and entry i + off of x when shrinking.  All lengths, all admissible offsets
   (padding up to the array length for periodic, up to length-1 for symmetric),
   all contents and constants. *)
Theorem resize_forward_rule : forall (m : pmode) (c : R) (x : list R) (n_out : nat) (off : Z),
  offset_ok (length x) n_out off = true ->
  pad_legal m (length x) n_out off = true ->
  resize1 m Forward c true x n_out off = Ok (resize_ref m c x n_out off).
Proof. exact forward_is_ref. Qed.
Print Assumptions resize_forward_rule.

(* T1: extending (any mode m, constant c) and then cropping with the matching
   offset (any mode) is the identity. *)
Theorem crop_after_extend : forall (m m' : pmode) (c c' : R) (cast' : bool) (x : list R) (n_out : nat) (off : Z),
  (length x <= n_out)%nat ->
  offset_ok (length x) n_out off = true ->
  pad_legal m (length x) n_out off = true ->
  exists fx, resize1 m Forward c true x n_out off = Ok fx /\
             resize1 m' Forward c' cast' fx (length x) off = Ok x.
Proof. exact crop_extend. Qed.
Print Assumptions crop_after_extend.

(* T1: padding lengths outside the documented limits are rejected (ValueError)
   in both directions, whatever the contents. *)
Theorem illegal_padding_rejected : forall (m : pmode) (c : R) (cast : bool) (x y : list R) (off : Z),
  (length x < length y)%nat ->
  offset_ok (length x) (length y) off = true ->
  pad_legal m (length x) (length y) off = false ->
  resize1 m Forward c cast x (length y) off = ValueErr /\
  resize1 m Adjoint c cast y (length x) off = ValueErr.
Proof. exact illegal_rejected. Qed.
Print Assumptions illegal_padding_rejected.

(* T1: forward and adjoint directions are transposes of each other.  For every
   mode, every input length, every output length (growing, shrinking, equal),
   every admissible offset and all contents x, y: both directions succeed and
   <R x, y> = <x, R^T y>.  (pad_const = 0: the operator is linear.) *)
Theorem resize_adjoint : forall (m : pmode) (x y : list R) (off : Z),
  offset_ok (length x) (length y) off = true ->
  pad_legal m (length x) (length y) off = true ->
  exists fx ay,
    resize1 m Forward 0 true x (length y) off = Ok fx /\
    resize1 m Adjoint 0 true y (length x) off = Ok ay /\
    length fx = length y /\ length ay = length x /\
    dot fx y = dot x ay.
Proof. exact adjoint_all. Qed.
Print Assumptions resize_adjoint.

(* non-vacuity: the side conditions hold e.g. for 3 -> 7 with offset 2 in every mode,
   5 -> 2 with offset 3, and periodic padding as long as the array itself *)
Example side_conditions_satisfiable :
  forallb (fun m => offset_ok 3 7 2 && pad_legal m 3 7 2 && offset_ok 5 2 3 && pad_legal m 5 2 3) all_pmodes = true
  /\ (offset_ok 3 9 3 && pad_legal PPeriodic 3 9 3 = true).
Proof. split; vm_compute; reflexivity. Qed.
Example illegal_exists :
  offset_ok 3 7 3 && negb (pad_legal PSymmetric 3 7 3) && negb (pad_legal PPeriodic 3 8 4)
  && negb (pad_legal POrder1 1 3 1) && negb (pad_legal POrder0 0 2 1) = true.
Proof. vm_compute; reflexivity. Qed.
