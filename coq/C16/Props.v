(* C16/Props.v -- property theorems only; each is closed by [exact] of a lemma
   from C16/P*.v and followed by Print Assumptions.  The model [resize1]
   (C16/Model.v) is the 1-d resize_array; its slice arithmetic and legality
   guards are REGENERATED from odl/util/numerics.py into Gen/Padding.v. *)
From Coq Require Import ZArith Reals List Bool.
From Verif Require Import Base.Num Base.Vec Base.VecR C16.Syntax Gen.Padding C16.Model C16.Proofs.
Import ListNotations.
Local Open Scope R_scope.

(* T1 (periodic, symmetric): whenever both directions succeed, the adjoint
   direction is the transpose of the forward direction: <R x, y> = <x, R^T y>
   for every input length, every admissible left/right padding and all contents. *)
Theorem resize_adjoint_gather :
  forall m c c' cast cast' (x yl ym yr : list R) fx ay,
  gather_mode m = true -> (0 < length yl + length yr)%nat ->
  pads_ok m (length x) (length yl) (length yr) -> length ym = length x ->
  resize1 m Forward c cast x (length yl + length x + length yr) (Z.of_nat (length yl)) = Ok fx ->
  resize1 m Adjoint c' cast' (yl ++ ym ++ yr) (length x) (Z.of_nat (length yl)) = Ok ay ->
  dot fx (yl ++ ym ++ yr) = dot x ay.
Proof. exact adjoint_gather. Qed.
Print Assumptions resize_adjoint_gather.
