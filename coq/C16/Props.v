(* C16/Props.v -- property theorems only. *)
From Coq Require Import ZArith Reals List Bool.
From Verif Require Import Base.Num Base.Vec Base.VecR C16.Syntax Gen.Padding C16.Model C16.Proofs.
Import ListNotations.
